#!/bin/bash
# tools/run_some.sh <tier> <seed> ID...   — like run_all.sh for the listed properties only.
tier=${1:-quick}; seed=${2:-0}; shift 2
cd "$(dirname "$0")/.."
for p in "$@"; do
  s=$(date +%s)
  VERIF_SEED=$seed ./check $p --tier $tier > /tmp/runsome.$p.$tier.log 2>&1; rc=$?
  echo "$p tier=$tier seed=$seed rc=$rc wall=$(( $(date +%s) - s ))s $(grep -c '^VIOLATION' /tmp/runsome.$p.$tier.log) violations; $(grep "^$p " /tmp/runsome.$p.$tier.log | head -1)"
  [ $rc -ne 0 ] && grep -A3 "^VIOLATION\|^INCONCLUSIVE" /tmp/runsome.$p.$tier.log | cut -c1-400 | head -12
done
