#!/bin/bash
# tools/try_mutant.sh <mutant-dir> <PID> [check args...]
#   <mutant-dir> holds patch.diff, demo_test.go, meta.json.
# 1. creates a scratch worktree of /repo HEAD, confirms: patch applies, library builds, existing suite passes,
#    demo fails with the patch and passes without it;
# 2. runs ./check <PID> against the patched worktree (VERIF_ALT_REPO; /repo itself is not touched);
# 3. removes the worktree. Prints a one-line verdict.
set -u
export GOFLAGS=-mod=mod GOPROXY=off GOSUMDB=off GOTOOLCHAIN=local
M=$(realpath "$1"); PID=$2; shift 2
WT=/tmp/scratch/mut-$(basename "$(dirname "$M")")-$(basename "$M")-$$
mkdir -p /tmp/scratch
git -C /repo worktree add --detach -q "$WT" HEAD || exit 3
cleanup() { git -C /repo worktree remove --force "$WT" >/dev/null 2>&1; rm -rf "$WT"; }
trap cleanup EXIT
pkgdir=$(python3 - "$M" <<'PY'
import json,sys,re,os
m=sys.argv[1]
src=open(os.path.join(m,'demo_test.go')).read()
pk=re.search(r'^package\s+(\w+)',src,re.M).group(1)
d={'s2':'s2','s1':'s1','r1':'r1','r2':'r2','r3':'r3','s2intersect':'s2/s2intersect','s2_test':'s2'}.get(pk,'s2')
print(d)
PY
)
cp "$M/demo_test.go" "$WT/$pkgdir/verifdemo_seeded_test.go"
demo() { (cd "$WT/$pkgdir" && go test -vet=off -count=1 -run 'VerifDemo|Demo|Seeded' . >/tmp/scratch/demo.$$.log 2>&1); }
demo; without=$?
if ! git -C "$WT" apply "$M/patch.diff"; then echo "VERDICT $M: patch does not apply"; exit 3; fi
demo; with=$?
rm -f "$WT/$pkgdir/verifdemo_seeded_test.go"
(cd "$WT" && go build ./... && go test -vet=off -count=1 ./... >/tmp/scratch/suite.$$.log 2>&1); suite=$?
if [ $suite -ne 0 ] && ! grep -q -- "--- FAIL" /tmp/scratch/suite.$$.log; then suite=99; fi
if [ $suite -ne 0 ]; then
  # tolerate the known ~1% flaky test only
  if [ "$(grep -c -- '^--- FAIL' /tmp/scratch/suite.$$.log)" = "1" ] && grep -q -- "--- FAIL: TestCellContainsPointConsistentWithS2CellIDFromPoint" /tmp/scratch/suite.$$.log; then suite=0; fi
fi
echo "confirm: demo_without_patch_rc=$without demo_with_patch_rc=$with suite_with_patch_rc=$suite"
cd /verif
VERIF_ALT_REPO="$WT" ./check "$PID" "$@" > /tmp/scratch/check.$$.log 2>&1; rc=$?
grep -E "^(VIOLATION|INCONCLUSIVE|KNOWN-FINDING|$PID )" /tmp/scratch/check.$$.log | head -6
grep -A2 "^VIOLATION" /tmp/scratch/check.$$.log | grep -v "^VIOLATION" | head -3 | cut -c1-300
echo "VERDICT $(basename "$(dirname "$M")")/$(basename "$M") property=$PID valid=$([ $without -eq 0 ] && [ $with -ne 0 ] && [ $suite -eq 0 ] && echo yes || echo NO) check_rc=$rc ($([ $rc -eq 1 ] && echo CAUGHT || echo missed))"
rm -f /tmp/scratch/*.$$.log
