#!/usr/bin/env python3
"""Development aid: merge /tmp/scratch/cover/C*.out; print per file the blocks no property's generated cases executed.
usage: cover_merge.py [file-regexp] [--funcs]"""
import re,sys,glob,collections
RE=sys.argv[1] if len(sys.argv)>1 and not sys.argv[1].startswith('--') else '.'
cov=collections.defaultdict(dict); who=collections.defaultdict(set)
for p in glob.glob('/tmp/scratch/cover/C*.out'):
    pid=p.split('/')[-1][:3]
    for l in open(p):
        m=re.match(r'github.com/golang/geo/(.+):(\d+)\.(\d+),(\d+)\.(\d+) (\d+) (\d+)',l)
        if not m: continue
        f=m.group(1)
        if not re.search(RE,f): continue
        k=(int(m.group(2)),int(m.group(4)),int(m.group(6)))
        c=int(m.group(7))
        cov[f][k]=cov[f].get(k,0)+c
        if c: who[(f,k)].add(pid)
tot=hit=0
for f in sorted(cov):
    bl=cov[f]; t=sum(k[2] for k in bl); h=sum(k[2] for k,c in bl.items() if c>0)
    tot+=t; hit+=h
    print(f'{f}: {h}/{t}')
    if '--summary' in sys.argv: continue
    src=open('/repo/'+f).read().split('\n')
    for (a,b,n),c in sorted(bl.items()):
        if c==0: print(f'   {a}-{b}: {src[a-1].strip()[:120]}')
print('TOTAL',hit,tot)
