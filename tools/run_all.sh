#!/bin/bash
# tools/run_all.sh <tier> [seed]   — runs every claimed check once, prints one line per property.
tier=${1:-quick}; seed=${2:-0}
cd "$(dirname "$0")/.."
for p in $(python3 -c "import json;print(' '.join(c['property_id'] for c in json.load(open('MANIFEST.json'))['checks']))"); do
  s=$(date +%s)
  VERIF_SEED=$seed ./check $p --tier $tier > /tmp/runall.$p.$tier.log 2>&1; rc=$?
  echo "$p tier=$tier seed=$seed rc=$rc wall=$(( $(date +%s) - s ))s $(grep -c '^VIOLATION' /tmp/runall.$p.$tier.log) violations; $(grep "^$p " /tmp/runall.$p.$tier.log | head -1)"
  [ $rc -ne 0 ] && grep -A3 "^VIOLATION\|^INCONCLUSIVE" /tmp/runall.$p.$tier.log | cut -c1-400 | head -12
done
