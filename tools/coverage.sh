#!/bin/bash
# Development aid (not a registered command): which statements of /repo do the
# generated cases of a property actually execute?  Builds the property's harness
# with statement coverage of github.com/golang/geo/..., runs ONE shard of the quick
# tier (1/8 of its cases) and prints, for the files given, the uncovered blocks.
#   tools/coverage.sh C10 [file-regexp]        e.g. tools/coverage.sh C10 's2/(loop|polygon)\.go'
# Profiles are left in /tmp/scratch/cover/<ID>.out (delete when done).
set -e
export GOFLAGS=-mod=mod GOPROXY=off GOSUMDB=off GOTOOLCHAIN=local
ID=$1; RE=${2:-.}
pkg=$(echo "$ID" | tr A-Z a-z)
mkdir -p /tmp/scratch/cover/$ID.run
cd /verif/harness
go test -c -tags verif -cover -coverpkg=github.com/golang/geo/... -o /tmp/scratch/cover/$pkg.test ./$pkg
cd /verif/harness/$pkg
VERIF_TIER=quick VERIF_SHARD=0 VERIF_SHARDS=${SHARDS:-8} VERIF_OUT=/tmp/scratch/cover/$ID.run VERIF_SCALE=${SCALE:-1} VERIF_SEED=${VERIF_SEED:-0} \
  /tmp/scratch/cover/$pkg.test -test.run '^TestProps$' -test.timeout 0 -rapid.seed=1 -rapid.nofailfile \
  -test.coverprofile=/tmp/scratch/cover/$ID.out > /tmp/scratch/cover/$ID.log 2>&1 || { tail -5 /tmp/scratch/cover/$ID.log; }
python3 - "$ID" "$RE" <<'E'
import re,sys,collections
ID,RE=sys.argv[1],sys.argv[2]
cov=collections.defaultdict(list)
for l in open(f'/tmp/scratch/cover/{ID}.out'):
    if l.startswith('mode:'): continue
    m=re.match(r'github.com/golang/geo/(.+):(\d+)\.(\d+),(\d+)\.(\d+) (\d+) (\d+)',l)
    if not m: continue
    f=m.group(1)
    if not re.search(RE,f): continue
    cov[f].append((int(m.group(2)),int(m.group(4)),int(m.group(6)),int(m.group(7))))
for f in sorted(cov):
    bl=cov[f]; tot=sum(b[2] for b in bl); hit=sum(b[2] for b in bl if b[3]>0)
    print(f'{f}: {hit}/{tot} statements covered')
    src=open('/repo/'+f).read().split('\n')
    for a,b,n,c in sorted(bl):
        if c==0:
            print(f'   {a}-{b}: {src[a-1].strip()[:110]}')
E
