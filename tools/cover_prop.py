#!/usr/bin/env python3
"""Development aid: uncovered blocks of one property's own coverage profile, restricted to its anchor files (or a regexp)."""
import re,sys,json,collections
pid=sys.argv[1]
RE=sys.argv[2] if len(sys.argv)>2 else None
if RE is None:
    for l in open('/verif/properties.jsonl'):
        d=json.loads(l)
        if d['id']==pid: files=d['anchors']['files']
    RE='|'.join(re.escape(f)+'$' for f in files)
cov=collections.defaultdict(dict)
for l in open(f'/tmp/scratch/cover/{pid}.out'):
    m=re.match(r'github.com/golang/geo/(.+):(\d+)\.(\d+),(\d+)\.(\d+) (\d+) (\d+)',l)
    if not m: continue
    f=m.group(1)
    if not re.search(RE,f): continue
    cov[f][(int(m.group(2)),int(m.group(4)),int(m.group(6)))]=int(m.group(7))
for f in sorted(cov):
    src=open('/repo/'+f).read().split('\n')
    print(f, sum(k[2] for k,c in cov[f].items() if c), '/', sum(k[2] for k in cov[f]))
    for (a,b,n),c in sorted(cov[f].items()):
        if c==0: print(f'   {a}-{b}: {src[a-1].strip()[:110]}')
