#!/bin/sh
# Builds the harness test binary of every claimed property (MANIFEST.json)
# against /repo's working tree (offline; only the module cache and /repo are
# used). Warms the Go build cache. A package that is not claimed yet is skipped.
set -e
export GOFLAGS=-mod=mod GOPROXY=off GOSUMDB=off GOTOOLCHAIN=local
cd "$(dirname "$0")"
ids=$(python3 -c "import json;print(' '.join(c['property_id'].lower() for c in json.load(open('MANIFEST.json'))['checks']))")
cd harness
mkdir -p ../.build
for d in $ids; do
  [ -d "$d" ] || { echo "missing package $d"; exit 1; }
  if [ -f "$d/verif.json" ] && grep -q '"race"[ ]*:[ ]*true' "$d/verif.json"; then
    go test -c -race -tags verif -o ../.build/$d.race.test ./$d
  else
    go test -c -tags verif -o ../.build/$d.test ./$d
  fi
done
echo "setup ok: $ids"
