#!/bin/sh
# Builds every property's harness test binary against /repo's working tree
# (offline; only the module cache and /repo are used). Warms the Go build cache.
set -e
export GOFLAGS=-mod=mod GOPROXY=off GOSUMDB=off GOTOOLCHAIN=local
cd "$(dirname "$0")/harness"
mkdir -p ../.build
for d in c[0-9][0-9]; do
  [ -d "$d" ] || continue
  go test -c -tags verif -o ../.build/$d.test ./$d
done
echo "setup ok"
