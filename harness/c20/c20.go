// Package c20: approximation operators stay within the tolerance they declare.
package c20

import "verifharness/internal/ev"

func init() {
	ev.Define("tess_projected", ev.Options{
		Rule:  "geodesic polylines of 1-3 edges (families: random, mirrored in the equator, same latitude, across the antimeridian, at the top latitude of the domain, short 1e-6..1 deg, meridian/equator, multiples of 15 deg; Mercator: whole geodesic within 85 deg), PlateCarree/Mercator at scales pi,180,1,2^20, tolerance 1e-13..1 rad tied to edge length (>= L^2*1e-6 so chains stay small). Oracle: own inverse projection + own point-to-geodesic distance (float64, breaches confirmed with 320-bit hp); 8-48 samples per output edge + golden-section refinement; endpoints; half-wrap rule; reverse direction geodesic->chain by 1-D minimisation. Non-trivial = chain has >= 3 vertices and observed error > 0.5 tol.",
		Quick: 20000, Thorough: 1000000, Journal: true}, genProjected, checkProjected)
}
