// Package c20: approximation operators stay within the tolerance they declare.
package c20

import "verifharness/internal/ev"

func init() {
	ev.Define("tess_projected", ev.Options{
		Rule:  "geodesic polylines of 1-3 edges (families: random, mirrored in the equator, same latitude, across the antimeridian, at the top latitude of the domain, short 1e-6..1 deg, meridian/equator, multiples of 15 deg; Mercator: whole geodesic within 85 deg), PlateCarree/Mercator at scales pi,180,1,2^20, tolerance 1e-13..1 rad tied to edge length (>= L^2*1e-6 so chains stay small). Oracle: own inverse projection + own point-to-geodesic distance (float64, breaches confirmed with 320-bit hp); 8-48 samples per output edge + golden-section refinement; endpoints; half-wrap rule; reverse direction geodesic->chain by 1-D minimisation. Non-trivial = chain has >= 3 vertices and observed error > 0.5 tol.",
		Quick: 50000, Thorough: 2500000, Journal: true}, genProjected, checkProjected)
	ev.Define("tess_unprojected", ev.Options{
		Rule:  "planar polylines of 1-2 edges (same families expressed in the plane, x shifted by -1/0/+1 wraps, |y| within the domain: PlateCarree 90 deg, Mercator 85 deg), same projections/scales/tolerances. Oracle: own inverse/forward projection, documented shortest-edge wrap rule, own point-to-geodesic distance (hp-confirmed); direction planar->chain sampled 8-48 points per output geodesic + refinement, direction chain->planar against a 64-piece polyline of the image (discretisation allowance 2e-3 tol). Non-trivial = chain has >= 3 vertices and observed error > 0.5 tol.",
		Quick: 50000, Thorough: 2500000, Journal: true}, genUnprojected, checkUnprojected)
	ev.Define("projection_roundtrip", ev.Options{
		Rule:  "points near the antimeridian, near the top latitude of the domain (offsets 1e-15..1 deg; Mercator <= 85 deg), near the equator, framework base points, uniform lat/lng; both projections, 4 scales. Unproject(Project(p)) within 1e-14 rad of p (also against an independently written projection pair, hp-confirmed), invariance under -2..2 wraps, coordinate ranges, FromLatLng/ToLatLng equivalence, WrapDestination law (y unchanged, within half a wrap, whole number of wraps, untouched when already shortest; b exactly/nearly half a wrap or whole wraps away), Interpolate linear and exact at 0 and 1. Non-trivial = within 1 deg of the latitude limit or of the antimeridian, or wrapping took place.",
		Quick: 100000, Thorough: 5000000}, genRoundTrip, checkRoundTrip)
	ev.Define("subsample_vertices", ev.Options{
		Rule:  "polylines of 2..500 vertices (random walks with steps 0.03..30 tol, great-circle runs with perpendicular offsets at 0/0.3/0.9/0.999/1/1.001/1.1/2 tol, zig-zags, forward-back-forward over identical vertices, adjacent duplicates, steps around and above 90 deg, clusters inside the tolerance disc, 1e-13..1e-11 scale), tolerance 1e-13..1 rad. Checks: index 0 kept, indices strictly increasing, last point preserved when first != last, adjacent outputs neither identical nor antipodal, every dropped vertex within tol+1e-14 of the output edge replacing it (own distance, hp-confirmed). Non-trivial = at least one vertex dropped.",
		Quick: 60000, Thorough: 4000000}, genSubsample, checkSubsample)
	ev.Define("snap_cellid", ev.Options{
		Rule:  "levels 0..30 (CellIDSnapperForLevel; 1/16 of cases the default constructor NewCellIDSnapper), points at cell vertices (largest move), 1e-16..0.3 of the way from a vertex to the centre, on cell edges, uniform in uv inside a cell, framework base points, cell centres, poles/antimeridian/cube-corner directions. Checks: result is a level-k cell centre (own face/uv/st transform: s,t odd multiples of 2^-(k+1) within 1e-4 lattice units), distance p->SnapPoint(p) <= SnapRadius() decided with 320-bit arithmetic, exact idempotence. Non-trivial = moved more than half the radius.",
		Quick: 200000, Thorough: 10000000}, genSnapCell, checkSnapCell)
	ev.Define("snap_intlatlng", ev.Options{
		Rule:  "exponents 0..10; points whose lat/lng in units of the grid are k+0.5+{0,+-1e-9,+-1e-3,+-0.1,+-0.4} (largest move), uniform lat/lng, within 0..20 grid steps of a pole or of the antimeridian, exactly on the grid, framework base points. Checks: result within 1e-14 rad of a site of the 10^-e DEGREE grid with |lat|<=90, |lng|<=180 (own lat/lng extraction), distance <= SnapRadius() decided with 320-bit arithmetic, a site snaps to itself (within 1e-14; at a pole the longitude is arbitrary). Non-trivial = moved more than half the radius.",
		Quick: 200000, Thorough: 10000000}, genSnapLL, checkSnapLL)
	ev.Define("snap_identity", ev.Options{
		Rule:  "IdentitySnapper with radii 0..70 deg: SnapPoint(p) == p and SnapRadius() is the given radius. Every case counts as non-trivial (there is only one path).",
		Quick: 4000, Thorough: 100000}, genSnapID, checkSnapID)
}
