package c20

import (
	"fmt"
	"math"

	"github.com/golang/geo/r2"
	"github.com/golang/geo/s2"
	"pgregory.net/rapid"

	"verifharness/internal/ev"
	"verifharness/internal/gen"
)

type rtCase struct {
	Kind  int
	Scale float64
	P     gen.P      // point on the sphere
	K     int        // number of wraps added before unprojecting
	A, B  [2]float64 // planar points for WrapDestination / Interpolate
	F     float64    // interpolation fraction
}

func genRoundTrip(t *rapid.T) rtCase {
	ps := genProjSpec(t)
	maxLat := 90.0
	if ps.Kind == kindMerc {
		maxLat = 85
	}
	var p s2.Point
	switch rapid.IntRange(0, 5).Draw(t, "src") {
	case 0: // near the antimeridian
		p = ptDeg(rapid.Float64Range(-maxLat, maxLat).Draw(t, "lat"), rapid.SampledFrom([]float64{180, -180}).Draw(t, "am")+rapid.Float64Range(-1e-3, 1e-3).Draw(t, "dl"))
	case 1: // near the top of the latitude domain
		s := float64(rapid.SampledFrom([]int{-1, 1}).Draw(t, "hemi"))
		p = ptDeg(s*(maxLat-math.Pow(10, rapid.Float64Range(-15, 0).Draw(t, "logoff"))), rapid.Float64Range(-180, 180).Draw(t, "lng"))
	case 2: // near the equator / prime meridian
		p = ptDeg(rapid.Float64Range(-1e-6, 1e-6).Draw(t, "lat"), rapid.Float64Range(-180, 180).Draw(t, "lng"))
	case 3:
		p = gen.Base(t, "p")
	default:
		p = ptDeg(rapid.Float64Range(-maxLat, maxLat).Draw(t, "lat"), rapid.Float64Range(-180, 180).Draw(t, "lng"))
	}
	pl := func(l string) [2]float64 {
		return [2]float64{rapid.Float64Range(-3, 3).Draw(t, l+".x") * ps.Scale, rapid.Float64Range(-1, 1).Draw(t, l+".y") * ps.yMax()}
	}
	a := pl("a")
	b := pl("b")
	switch rapid.IntRange(0, 3).Draw(t, "bmode") {
	case 0: // exactly / nearly half a wrap apart
		b[0] = a[0] + float64(rapid.SampledFrom([]int{-1, 1}).Draw(t, "hs"))*gen.Ulps(ps.Scale, rapid.IntRange(-2, 2).Draw(t, "hu"))
	case 1: // a whole number of wraps apart
		b[0] = a[0] + float64(rapid.IntRange(-2, 2).Draw(t, "kw"))*ps.wrap()
	}
	return rtCase{Kind: ps.Kind, Scale: ps.Scale, P: gen.FromPt(p), K: rapid.IntRange(-2, 2).Draw(t, "k"), A: a, B: b,
		F: rapid.SampledFrom([]float64{0, 1, 0.5, 0.31215691082248312, 0.25, 0.9}).Draw(t, "f")}
}

func checkRoundTrip(c rtCase) ev.Outcome {
	o := ev.Outcome{}
	ps := projSpec{c.Kind, c.Scale}
	p := c.P.Pt()
	if !ps.valid() || !gen.Unit(p) || c.K < -2 || c.K > 2 || !finite(c.A[0], c.A[1], c.B[0], c.B[1], c.F) {
		o.Skip = true
		return o
	}
	lat := latOf(p)
	if ps.Kind == kindMerc && math.Abs(lat) > mercMaxLat {
		o.Skip = true // outside the Mercator domain of this check
		return o
	}
	lib := ps.lib()
	o.Class = ps.name()
	const tol = 1e-14
	u := lib.Project(p)
	if !finite(u.X, u.Y) {
		o.Err = fmt.Sprintf("Project(%v) = %v", p, u)
		return o
	}
	if math.Abs(u.X) > ps.Scale*(1+1e-15) || (ps.Kind == kindPC && math.Abs(u.Y) > ps.Scale/2*(1+1e-15)) {
		o.Err = fmt.Sprintf("Project(%v) = %v is outside the documented coordinate range for scale %g", p, u, ps.Scale)
		return o
	}
	worst := 0.0
	near := func(what string, q s2.Point, lim float64) bool {
		d := angle(p, q)
		if d > worst {
			worst = d
		}
		if d > lim && hpAngleExceeds(p, q, lim) {
			o.Err = fmt.Sprintf("%s scale %g: %s is %.3g rad away from p=%v (lat %.17g lng %.17g rad), allowed %.3g", ps.name(), ps.Scale, what, d, p, lat, lngOf(p), lim)
			return false
		}
		return true
	}
	if !near("Unproject(Project(p))", lib.Unproject(u), tol) ||
		!near("ownUnproject(Project(p))", ps.unproj(u.X, u.Y), tol) {
		return o
	}
	ox, oy := ps.proj(p)
	if finite(ox, oy) && !near("Unproject(ownProject(p))", lib.Unproject(r2.Point{X: ox, Y: oy}), tol) {
		return o
	}
	// wrapping: x + k·wrap maps to the same point (rounding of the sum: ≤ 3 ulp(3·Scale) of planar x)
	shifted := r2.Point{X: u.X + float64(c.K)*ps.wrap(), Y: u.Y}
	if !near(fmt.Sprintf("Unproject(Project(p) + %d wraps)", c.K), lib.Unproject(shifted), tol+3*math.Pi*0x1p-52*4) {
		return o
	}
	// "Unproject must accept any real number on a wrapped axis": many wraps away the
	// library and the oracle (exact math.Remainder in planar units, then one scaling)
	// must still agree - the planar x itself is the input here, so its own rounding
	// does not count
	for _, kw := range []float64{1e3, -1e5, 1e6, -3e7} {
		far := r2.Point{X: u.X + kw*ps.wrap(), Y: u.Y}
		g, w := lib.Unproject(far), ps.unproj(far.X, far.Y)
		if d := angle(g, w); d > tol && hpAngleExceeds(g, w, tol) {
			o.Err = fmt.Sprintf("%s scale %g: Unproject(%v) (%.0g wraps out) is %.3g rad from the exactly reduced point", ps.name(), ps.Scale, far, kw, d)
			return o
		}
		gl, wl := lib.ToLatLng(far), s2.LatLngFromPoint(w)
		if d := math.Abs(math.Remainder(gl.Lng.Radians()-wl.Lng.Radians(), 2*math.Pi)); d > tol && math.Abs(wl.Lat.Radians()) < 1.5 {
			o.Err = fmt.Sprintf("%s scale %g: ToLatLng(%v).Lng (%.0g wraps out) is %.3g rad from the exactly reduced longitude", ps.name(), ps.Scale, far, kw, d)
			return o
		}
	}
	// the LatLng convenience forms are equivalent
	if f := lib.FromLatLng(s2.LatLngFromPoint(p)); f != u {
		o.Err = fmt.Sprintf("FromLatLng(LatLngFromPoint(p)) = %v differs from Project(p) = %v", f, u)
		return o
	}
	if !near("PointFromLatLng(ToLatLng(Project(p)))", s2.PointFromLatLng(lib.ToLatLng(u)), tol) {
		return o
	}
	// WrapDistance / WrapDestination
	if w := lib.WrapDistance(); w.X != 2*ps.Scale || w.Y != 0 {
		o.Err = fmt.Sprintf("WrapDistance = %v, want (%g, 0)", w, 2*ps.Scale)
		return o
	}
	a, b := r2.Point{X: c.A[0], Y: c.A[1]}, r2.Point{X: c.B[0], Y: c.B[1]}
	r := lib.WrapDestination(a, b)
	wrapped := r != b
	switch {
	case r.Y != b.Y:
		o.Err = fmt.Sprintf("WrapDestination(%v,%v) = %v changed y", a, b, r)
	case math.Abs(b.X-a.X) <= ps.Scale && wrapped:
		o.Err = fmt.Sprintf("WrapDestination(%v,%v) = %v moved b although it was within half a wrap", a, b, r)
	case math.Abs(r.X-a.X) > ps.Scale*(1+4*0x1p-52)+4*0x1p-52*math.Abs(a.X):
		o.Err = fmt.Sprintf("WrapDestination(%v,%v) = %v is %.17g from a in x, more than half the wrap distance %g", a, b, r, math.Abs(r.X-a.X), ps.Scale)
	default:
		q := (r.X - b.X) / ps.wrap()
		if math.Abs(q-math.Round(q)) > 1e-12*(1+math.Abs(q)) {
			o.Err = fmt.Sprintf("WrapDestination(%v,%v) = %v is not b plus a whole number of wraps (%.17g wraps)", a, b, r, q)
		}
	}
	if o.Err != "" {
		return o
	}
	// Interpolate is linear in the plane and exact at the end points
	m := lib.Interpolate(c.F, a, b)
	wx, wy := a.X+c.F*(b.X-a.X), a.Y+c.F*(b.Y-a.Y)
	eps := 8 * 0x1p-52 * (math.Abs(a.X) + math.Abs(b.X) + math.Abs(a.Y) + math.Abs(b.Y))
	if (c.F == 0 && m != a) || (c.F == 1 && m != b) || math.Abs(m.X-wx) > eps || math.Abs(m.Y-wy) > eps {
		o.Err = fmt.Sprintf("Interpolate(%g,%v,%v) = %v, want (%.17g, %.17g)", c.F, a, b, m, wx, wy)
		return o
	}
	top := math.Pi / 2
	if ps.Kind == kindMerc {
		top = mercMaxLat
	}
	o.NonTrivial = top-math.Abs(lat) < deg(1) || math.Pi-math.Abs(lngOf(p)) < deg(1) || wrapped
	o.Ratios = map[string]float64{"roundtrip_err/1e-14": worst / tol}
	return o
}
