package c20

import (
	"fmt"
	"math"

	"github.com/golang/geo/s1"
	"github.com/golang/geo/s2"
	"pgregory.net/rapid"

	"verifharness/internal/ev"
	"verifharness/internal/gen"
	"verifharness/internal/hp"
)

// withinRadius: angle(p,q) ≤ r decided at high precision (r's own conversion to
// a squared chord carries a relative 1e-15 allowance).
func withinRadius(p, q s2.Point, r float64) bool {
	if r >= math.Pi {
		return true
	}
	d2 := hp.Chord2(hp.Vec(p.Vector), hp.Vec(q.Vector))
	return d2.Cmp(hp.F(chord2OfAngle(r)*(1+1e-15))) <= 0
}

func isUnitish(q s2.Point) bool {
	return finite(q.X, q.Y, q.Z) && math.Abs(q.Norm2()-1) <= 1e-14
}

// ---------------------------------------------------------------- CellID snapper

type snapCellCase struct {
	Level   int
	Default bool // use NewCellIDSnapper() (documented: "the default level set", i.e. MaxLevel)
	Kind    int
	P       gen.P
}

var snapCellKinds = []string{"cell-vertex", "near-vertex", "cell-edge", "inside-cell", "base", "cell-centre", "lat-lng-special"}

func genSnapCell(t *rapid.T) snapCellCase {
	level := rapid.IntRange(0, 30).Draw(t, "level")
	def := rapid.IntRange(0, 15).Draw(t, "default") == 0
	if def {
		level = 30
	}
	kind := rapid.IntRange(0, len(snapCellKinds)-1).Draw(t, "kind")
	id := gen.CellIDAt(t, "cell", rapid.IntRange(0, 5).Draw(t, "face"), level)
	cell := s2.CellFromCellID(id)
	var p s2.Point
	switch kind {
	case 0:
		p = cell.Vertex(rapid.IntRange(0, 3).Draw(t, "vk"))
	case 1:
		v := cell.Vertex(rapid.IntRange(0, 3).Draw(t, "vk"))
		f := math.Pow(10, rapid.Float64Range(-16, -0.5).Draw(t, "logf"))
		p = onGeodesic(v, id.Point(), f)
	case 2:
		k := rapid.IntRange(0, 3).Draw(t, "ek")
		p = onGeodesic(cell.Vertex(k), cell.Vertex((k+1)%4), rapid.Float64Range(0, 1).Draw(t, "ef"))
	case 3:
		b := cell.BoundUV()
		u := rapid.Float64Range(b.X.Lo, b.X.Hi).Draw(t, "u")
		v := rapid.Float64Range(b.Y.Lo, b.Y.Hi).Draw(t, "v")
		p = s2.Point{Vector: gen.FaceUVToXYZ(int(id.Face()), u, v).Normalize()}
	case 4:
		p = gen.Base(t, "p")
	case 5:
		p = id.Point()
	default:
		p = ptDeg(rapid.SampledFrom([]float64{90, -90, 0, 45, 35.264389682754654, 89.999999}).Draw(t, "lat"), rapid.SampledFrom([]float64{0, 180, -180, 45, 90, -135, 179.9999999}).Draw(t, "lng"))
	}
	return snapCellCase{Level: level, Default: def, Kind: kind, P: gen.FromPt(gen.Fix(p, id.Point()))}
}

// ownFaceST maps a point to (face, s, t) with the published cube-face and
// quadratic st transform (written here, not taken from s2).
func ownFaceST(p s2.Point) (face int, s, t float64) {
	ax, ay, az := math.Abs(p.X), math.Abs(p.Y), math.Abs(p.Z)
	var u, v float64
	switch {
	case ax >= ay && ax >= az:
		if p.X > 0 {
			face, u, v = 0, p.Y/p.X, p.Z/p.X
		} else {
			face, u, v = 3, p.Z/p.X, p.Y/p.X
		}
	case ay >= az:
		if p.Y > 0 {
			face, u, v = 1, -p.X/p.Y, p.Z/p.Y
		} else {
			face, u, v = 4, p.Z/p.Y, -p.X/p.Y
		}
	default:
		if p.Z > 0 {
			face, u, v = 2, -p.X/p.Z, -p.Y/p.Z
		} else {
			face, u, v = 5, -p.Y/p.Z, -p.X/p.Z
		}
	}
	st := func(u float64) float64 {
		if u >= 0 {
			return 0.5 * math.Sqrt(1+3*u)
		}
		return 1 - 0.5*math.Sqrt(1-3*u)
	}
	return face, st(u), st(v)
}

// isCellCentre: both st coordinates are odd multiples of 2^-(level+1).
func isCellCentre(q s2.Point, level int) (bool, float64) {
	_, s, t := ownFaceST(q)
	worst := 0.0
	for _, x := range []float64{s, t} {
		y := math.Ldexp(x, level+1)
		r := math.Round(y)
		if math.Mod(r, 2) == 0 { // nearest integer is even: the nearest odd one is 1 away
			return false, 1
		}
		if d := math.Abs(y - r); d > worst {
			worst = d
		}
	}
	return worst <= 1e-4, worst
}

func checkSnapCell(c snapCellCase) ev.Outcome {
	o := ev.Outcome{}
	p := c.P.Pt()
	if c.Level < 0 || c.Level > 30 || !gen.Unit(p) || c.Kind < 0 || c.Kind >= len(snapCellKinds) || (c.Default && c.Level != 30) {
		o.Skip = true
		return o
	}
	var sn s2.CellIDSnapper
	if c.Default {
		sn = s2.NewCellIDSnapper()
		o.Class = "default-constructor:"
	} else {
		sn = s2.CellIDSnapperForLevel(c.Level)
	}
	o.Class += snapCellKinds[c.Kind]
	o.Counts = map[string]int{fmt.Sprintf("level_%02d", c.Level): 1}
	q := sn.SnapPoint(p)
	r := float64(sn.SnapRadius())
	if !isUnitish(q) {
		o.Err = fmt.Sprintf("level %d: SnapPoint(%v) = %v is not a unit vector", c.Level, p, q)
		return o
	}
	d := angle(p, q)
	if ok, off := isCellCentre(q, c.Level); !ok {
		o.Err = fmt.Sprintf("level %d: SnapPoint(%v) = %v is not the centre of a level-%d cell (st off the centre lattice by %.3g lattice units)", c.Level, p, q, c.Level, off)
		o.Finding = "cellid-snap-off-lattice"
		return o
	}
	if !(r >= 0) || !withinRadius(p, q, r) {
		o.Err = fmt.Sprintf("level %d: SnapPoint moved %v by %.17g rad, more than the declared SnapRadius() = %.17g", c.Level, p, d, r)
		o.Finding = "cellid-snap-exceeds-radius"
		if c.Default && r == 0 {
			o.Finding = "cellid-default-snapper-zero-radius"
		}
		return o
	}
	if q2 := sn.SnapPoint(q); q2 != q {
		o.Err = fmt.Sprintf("level %d: SnapPoint is not idempotent: %v -> %v -> %v", c.Level, p, q, q2)
		o.Finding = "cellid-snap-not-idempotent"
		return o
	}
	o.NonTrivial = d > 0.5*r
	if r > 0 {
		o.Ratios = map[string]float64{"moved/radius": d / r}
	}
	return o
}

// ---------------------------------------------------------------- IntLatLng snapper

type snapLLCase struct {
	Exp  int
	Kind int
	P    gen.P
}

var snapLLKinds = []string{"half-grid", "random", "near-pole", "near-antimeridian", "on-grid", "base"}

func genSnapLL(t *rapid.T) snapLLCase {
	e := rapid.IntRange(0, 10).Draw(t, "exp")
	kind := rapid.IntRange(0, len(snapLLKinds)-1).Draw(t, "kind")
	g := math.Pow(10, -float64(e)) // grid spacing in degrees
	lat := rapid.Float64Range(-90, 90).Draw(t, "lat")
	lng := rapid.Float64Range(-180, 180).Draw(t, "lng")
	half := func(x float64, l string) float64 {
		off := rapid.SampledFrom([]float64{0, 1e-9, -1e-9, 1e-3, -1e-3, 0.1, -0.1, 0.4, -0.4}).Draw(t, l)
		return (math.Floor(x/g) + 0.5 + off) * g
	}
	switch kind {
	case 0:
		lat, lng = half(lat, "olat"), half(lng, "olng")
	case 2:
		s := float64(rapid.SampledFrom([]int{-1, 1}).Draw(t, "hemi"))
		lat = s * (90 - g*rapid.SampledFrom([]float64{0, 0.3, 0.5, 0.7, 1.5, 20}).Draw(t, "poleoff"))
	case 3:
		s := float64(rapid.SampledFrom([]int{-1, 1}).Draw(t, "side"))
		lng = s * (180 - g*rapid.SampledFrom([]float64{0, 0.3, 0.5, 0.7, 1.5, 20}).Draw(t, "amoff"))
		lat = half(lat, "olat")
	case 4:
		lat, lng = math.Round(lat/g)*g, math.Round(lng/g)*g
	}
	lat = math.Max(-90, math.Min(90, lat))
	lng = math.Max(-180, math.Min(180, lng))
	p := ptDeg(lat, lng)
	if kind == 5 {
		p = gen.Base(t, "p")
	}
	return snapLLCase{Exp: e, Kind: kind, P: gen.FromPt(p)}
}

// nearestGridSite returns the lattice site (unit: 10^-e of `unit` radians)
// nearest in lat/lng to q, and the lattice indices.
func nearestGridSite(q s2.Point, e int, unit float64) (s2.Point, float64, float64) {
	pw := math.Pow(10, float64(e))
	k := math.Round(latOf(q) / unit * pw)
	m := math.Round(lngOf(q) / unit * pw)
	return fromLatLngRad(k/pw*unit, m/pw*unit), k, m
}

func checkSnapLL(c snapLLCase) ev.Outcome {
	o := ev.Outcome{}
	p := c.P.Pt()
	if c.Exp < 0 || c.Exp > 10 || !gen.Unit(p) || c.Kind < 0 || c.Kind >= len(snapLLKinds) {
		o.Skip = true
		return o
	}
	o.Class = snapLLKinds[c.Kind]
	o.Counts = map[string]int{fmt.Sprintf("exp_%02d", c.Exp): 1}
	sn := s2.NewIntLatLngSnapper(c.Exp)
	q := sn.SnapPoint(p)
	r := float64(sn.SnapRadius())
	d := angle(p, q)
	classify := func() string {
		if !isUnitish(q) {
			return ""
		}
		// what "round radians*10^e into an int32, scale back, read as radians" gives
		pw := math.Pow(10, float64(c.Exp))
		ra := func(v float64) float64 {
			if v < 0 {
				return float64(int32(v - 0.5))
			}
			return float64(int32(v + 0.5))
		}
		wrong := fromLatLngRad(ra(latOf(p)*pw)*(1/pw), ra(lngOf(p)*pw)*(1/pw))
		if angle(q, wrong) <= 1e-12 {
			return "intlatlng-rounds-radians"
		}
		return ""
	}
	if !isUnitish(q) {
		o.Err = fmt.Sprintf("E%d: SnapPoint(%v) = %v is not a unit vector", c.Exp, p, q)
		return o
	}
	degUnit := math.Pi / 180
	site, k, m := nearestGridSite(q, c.Exp, degUnit)
	pw := math.Pow(10, float64(c.Exp))
	if off := angle(q, site); off > 1e-14 || math.Abs(k) > 90*pw || math.Abs(m) > 180*pw {
		o.Err = fmt.Sprintf("E%d: SnapPoint(%v) = %v (lat %.12g lng %.12g deg) is not a site of the 1e-%d degree grid (%.3g rad from the nearest site)", c.Exp, p, q, latOf(q)/degUnit, lngOf(q)/degUnit, c.Exp, off)
		o.Finding = classify()
		return o
	}
	if !(r >= 0) || !withinRadius(p, q, r) {
		o.Err = fmt.Sprintf("E%d: SnapPoint moved %v (lat %.12g lng %.12g deg) by %.17g rad = %.4f x the declared SnapRadius() = %.17g", c.Exp, p, latOf(p)/degUnit, lngOf(p)/degUnit, d, d/r, r)
		o.Finding = classify()
		return o
	}
	// a site snaps to itself (not bit-for-bit: at a pole the longitude of the site is arbitrary)
	if q2 := sn.SnapPoint(q); angle(q, q2) > absSlack {
		o.Err = fmt.Sprintf("E%d: SnapPoint is not idempotent: %v -> %v -> %v", c.Exp, p, q, q2)
		o.Finding = "intlatlng-snap-not-idempotent"
		return o
	}
	o.NonTrivial = d > 0.5*r
	o.Ratios = map[string]float64{"moved/radius": d / r}
	return o
}

// ---------------------------------------------------------------- identity snapper

type snapIDCase struct {
	R float64
	P gen.P
}

func genSnapID(t *rapid.T) snapIDCase {
	r := rapid.SampledFrom([]float64{0, 1e-15, 1e-9, 1e-3, 1, deg(70)}).Draw(t, "r")
	return snapIDCase{R: r, P: gen.FromPt(gen.Base(t, "p"))}
}

func checkSnapID(c snapIDCase) ev.Outcome {
	o := ev.Outcome{}
	p := c.P.Pt()
	if !(c.R >= 0 && c.R <= deg(70)) || !gen.Unit(p) {
		o.Skip = true
		return o
	}
	sn := s2.NewIdentitySnapper(s1.Angle(c.R))
	if q := sn.SnapPoint(p); q != p {
		o.Err = fmt.Sprintf("IdentitySnapper.SnapPoint(%v) = %v", p, q)
		return o
	}
	if float64(sn.SnapRadius()) != c.R {
		o.Err = fmt.Sprintf("IdentitySnapper(%g).SnapRadius() = %v", c.R, sn.SnapRadius())
		return o
	}
	o.Class = "identity"
	o.NonTrivial = true
	return o
}
