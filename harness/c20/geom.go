package c20

// Independent float64 / high-precision geometry used as the oracle side of C20.
// Nothing in this file calls the approximation operators under test; the
// projection formulas are written from the textbook definitions (not copied
// from s2/projections.go: Mercator uses asinh(tan φ) / atan(sinh y) instead of
// the library's log/exp/asin form).

import (
	"math"

	"github.com/golang/geo/r3"
	"github.com/golang/geo/s2"

	"verifharness/internal/hp"
)

const (
	kindPC   = 0
	kindMerc = 1

	// absSlack is the a-priori round-off allowance of DESIGN.md §2.5
	// ("requested tolerance + 1e-14 rad").
	absSlack = 1e-14

	// mercMaxLat: the Mercator domain of this check (|lat| ≤ 85° along the
	// whole geodesic / planar edge).
	mercMaxLat = 85 * math.Pi / 180
)

type projSpec struct {
	Kind  int     // 0 PlateCarree, 1 Mercator
	Scale float64 // the constructor argument (x spans [-Scale, Scale])
}

func (ps projSpec) valid() bool {
	return (ps.Kind == kindPC || ps.Kind == kindMerc) && ps.Scale > 1e-3 && ps.Scale < 1e9 && !math.IsNaN(ps.Scale)
}

func (ps projSpec) lib() s2.Projection {
	if ps.Kind == kindMerc {
		return s2.NewMercatorProjection(ps.Scale)
	}
	return s2.NewPlateCarreeProjection(ps.Scale)
}

func (ps projSpec) name() string {
	if ps.Kind == kindMerc {
		return "merc"
	}
	return "pc"
}

func (ps projSpec) wrap() float64 { return 2 * ps.Scale }

// yMax is the largest |y| of the check's domain.
func (ps projSpec) yMax() float64 {
	if ps.Kind == kindMerc {
		return math.Asinh(math.Tan(mercMaxLat)) * ps.Scale / math.Pi
	}
	return ps.Scale / 2
}

func fromLatLngRad(lat, lng float64) s2.Point {
	c := math.Cos(lat)
	return s2.Point{Vector: r3.Vector{X: c * math.Cos(lng), Y: c * math.Sin(lng), Z: math.Sin(lat)}}
}

// unproj is the oracle's inverse projection.
func (ps projSpec) unproj(x, y float64) s2.Point {
	k := math.Pi / ps.Scale
	lng := math.Remainder(x, 2*ps.Scale) * k
	lat := y * k
	if ps.Kind == kindMerc {
		lat = math.Atan(math.Sinh(y * k))
	}
	return fromLatLngRad(lat, lng)
}

// proj is the oracle's forward projection (x in [-Scale, Scale]).
func (ps projSpec) proj(p s2.Point) (x, y float64) {
	k := ps.Scale / math.Pi
	h := math.Hypot(p.X, p.Y)
	x = math.Atan2(p.Y, p.X) * k
	if ps.Kind == kindMerc {
		y = math.Asinh(p.Z/h) * k
	} else {
		y = math.Atan2(p.Z, h) * k
	}
	return
}

func latOf(p s2.Point) float64 { return math.Atan2(p.Z, math.Hypot(p.X, p.Y)) }
func lngOf(p s2.Point) float64 { return math.Atan2(p.Y, p.X) }

// angle between two (approximately unit) vectors, accurate at all separations.
func angle(a, b s2.Point) float64 {
	return math.Atan2(a.Cross(b.Vector).Norm(), a.Dot(b.Vector))
}

// distPointEdge: distance from x to the geodesic segment ab (≤ 179° long).
func distPointEdge(x, a, b s2.Point) float64 {
	n := a.Sub(b.Vector).Cross(a.Add(b.Vector)) // 2 a×b, stable for close a,b
	da, db := angle(x, a), angle(x, b)
	if n.Norm2() == 0 {
		return math.Min(da, db)
	}
	if a.Cross(x.Vector).Dot(n) > 0 && x.Cross(b.Vector).Dot(n) > 0 {
		d := math.Atan2(math.Abs(x.Dot(n)), x.Cross(n).Norm())
		// the foot lies in the open arc; the interior distance never exceeds the endpoint distances
		return math.Min(d, math.Min(da, db))
	}
	return math.Min(da, db)
}

// chord2OfAngle returns the squared chord of an angle in [0, π].
func chord2OfAngle(a float64) float64 {
	s := 2 * math.Sin(a/2)
	return s * s
}

// hpExceeds confirms with 320-bit arithmetic that x is farther than lim
// (radians) from the segment ab. Used only to confirm float64 verdicts.
func hpExceeds(x, a, b s2.Point, lim float64) bool {
	d2, _ := hp.PointEdgeChord2(hp.Vec(x.Vector), hp.Vec(a.Vector), hp.Vec(b.Vector))
	return d2.Cmp(hp.F(chord2OfAngle(lim)*(1+1e-13))) > 0
}

// hpAngleExceeds: angle(x,y) > lim, confirmed at high precision.
func hpAngleExceeds(x, y s2.Point, lim float64) bool {
	if lim >= math.Pi {
		return false
	}
	d2 := hp.Chord2(hp.Vec(x.Vector), hp.Vec(y.Vector))
	return d2.Cmp(hp.F(chord2OfAngle(lim)*(1+1e-13))) > 0
}

// onGeodesic returns a point of the geodesic ab (not arc-length parametrised;
// s in [0,1] sweeps the whole arc monotonically for arcs < 180°).
func onGeodesic(a, b s2.Point, s float64) s2.Point {
	v := a.Mul(1 - s).Add(b.Mul(s))
	if v.Norm2() == 0 {
		return a
	}
	return s2.Point{Vector: v.Normalize()}
}

// geodesicMaxAbsLat is the largest |latitude| reached on the geodesic ab.
func geodesicMaxAbsLat(a, b s2.Point) float64 {
	m := math.Max(math.Abs(latOf(a)), math.Abs(latOf(b)))
	n := a.Sub(b.Vector).Cross(a.Add(b.Vector))
	if n.Norm2() == 0 {
		return m
	}
	n = n.Normalize()
	z := r3.Vector{Z: 1}
	top := z.Sub(n.Mul(n.Z))
	if top.Norm2() < 1e-30 {
		return m // great circle is the equator
	}
	top = top.Normalize()
	for _, t := range []r3.Vector{top, top.Mul(-1)} {
		// conservative (closed, slightly widened) arc membership
		if a.Cross(t).Dot(n) >= -1e-12 && t.Cross(b.Vector).Dot(n) >= -1e-12 {
			m = math.Max(m, math.Abs(math.Atan2(t.Z, math.Hypot(t.X, t.Y))))
		}
	}
	return m
}

func finite(xs ...float64) bool {
	for _, x := range xs {
		if math.IsNaN(x) || math.IsInf(x, 0) {
			return false
		}
	}
	return true
}

// golden minimises f on [lo,hi] (local minimum near the best of a coarse scan).
func goldenMin(f func(float64) float64, lo, hi float64, scan, iters int) (float64, float64) {
	bestT, bestV := lo, math.Inf(1)
	for k := 0; k <= scan; k++ {
		t := lo + (hi-lo)*float64(k)/float64(scan)
		if v := f(t); v < bestV {
			bestT, bestV = t, v
		}
	}
	step := (hi - lo) / float64(scan)
	a, b := math.Max(lo, bestT-step), math.Min(hi, bestT+step)
	const g = 0.6180339887498949
	c, d := b-g*(b-a), a+g*(b-a)
	fc, fd := f(c), f(d)
	for i := 0; i < iters; i++ {
		if fc < fd {
			b, d, fd = d, c, fc
			c = b - g*(b-a)
			fc = f(c)
		} else {
			a, c, fc = c, d, fd
			d = a + g*(b-a)
			fd = f(d)
		}
	}
	if fc < bestV {
		bestT, bestV = c, fc
	}
	if fd < bestV {
		bestT, bestV = d, fd
	}
	return bestT, bestV
}

// goldenMax maximises f on [lo,hi].
func goldenMax(f func(float64) float64, lo, hi float64, scan, iters int) (float64, float64) {
	t, v := goldenMin(func(x float64) float64 { return -f(x) }, lo, hi, scan, iters)
	return t, -v
}

// polyCurve approximates a smooth curve on the sphere by a chain of n short
// geodesic pieces. If the curve deviates from the geodesic chord of its end
// points by at most E, a piece deviates from its own chord by about E/n²
// (n = 64: < 1e-3·E, the discretisation allowance of DESIGN.md §2.5).
type polyCurve []s2.Point

const curvePieces = 64

// curveFudge is the relative allowance for that discretisation.
const curveFudge = 2e-3

func mkCurve(pt func(s float64) s2.Point) polyCurve {
	c := make(polyCurve, curvePieces+1)
	for i := range c {
		c[i] = pt(float64(i) / curvePieces)
	}
	return c
}

// dist is the distance from g to the polyline; pieces around index `near`
// are tried first and the rest only if the result is still above `limit`.
func (c polyCurve) dist(g s2.Point, near int, limit float64) float64 {
	best := math.Inf(1)
	lo, hi := near-6, near+6
	if lo < 0 {
		lo = 0
	}
	if hi > len(c)-1 {
		hi = len(c) - 1
	}
	for i := lo; i < hi; i++ {
		if d := distPointEdge(g, c[i], c[i+1]); d < best {
			best = d
		}
	}
	if best <= limit {
		return best
	}
	for i := 0; i+1 < len(c); i++ {
		if i >= lo && i < hi {
			continue
		}
		if d := distPointEdge(g, c[i], c[i+1]); d < best {
			best = d
		}
	}
	return best
}
