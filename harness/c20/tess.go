package c20

import (
	"fmt"
	"math"

	"github.com/golang/geo/r2"
	"github.com/golang/geo/r3"
	"github.com/golang/geo/s1"
	"github.com/golang/geo/s2"
	"pgregory.net/rapid"

	"verifharness/internal/ev"
	"verifharness/internal/gen"
)

// The scale constant the file comment of edge_tessellator.go derives
// (C = 1/E1(x0) = 1.19289): with the scale factor not applied the true error
// can reach C·tolerance.
const tessModelC = 1 / 0.83829992569888509

var famNames = []string{"random", "equator-symmetric", "same-latitude", "antimeridian", "near-pole", "short", "meridian-or-equator", "special-angles", "through-pole"}

var scales = []float64{math.Pi, 180, 1, 1 << 20}

func deg(x float64) float64 { return x * math.Pi / 180 }

func genProjSpec(t *rapid.T) projSpec {
	return projSpec{Kind: rapid.IntRange(0, 1).Draw(t, "kind"), Scale: rapid.SampledFrom(scales).Draw(t, "scale")}
}

// genEdgeLL draws the endpoints (lat,lng in degrees) of one geodesic edge.
func genEdgeLL(t *rapid.T, fam int, maxLat float64) (lat1, lng1, lat2, lng2 float64) {
	fl := func(lo, hi float64, l string) float64 { return rapid.Float64Range(lo, hi).Draw(t, l) }
	switch fam {
	case 1: // endpoints mirrored in the equator: the inflection case of the file comment
		lat1 = fl(0, maxLat, "lat")
		lat2 = -lat1
		lng1 = fl(-180, 180, "lng1")
		lng2 = lng1 + fl(-170, 170, "dlng")
	case 2: // same latitude: the worst case of the E1 model
		lat1 = fl(-maxLat, maxLat, "lat")
		lat2 = lat1
		lng1 = fl(-180, 180, "lng1")
		lng2 = lng1 + fl(-175, 175, "dlng")
	case 3: // across the antimeridian
		lat1, lat2 = fl(-maxLat, maxLat, "lat1"), fl(-maxLat, maxLat, "lat2")
		lng1, lng2 = fl(120, 180, "lng1"), fl(-180, -120, "lng2")
		if rapid.Bool().Draw(t, "rev") {
			lng1, lng2 = lng2, lng1
		}
	case 4: // near the highest latitude of the domain
		lo := maxLat - 5
		lat1 = fl(lo, maxLat, "lat1")
		lat2 = fl(lo, maxLat, "lat2")
		if rapid.IntRange(0, 3).Draw(t, "exact") == 0 {
			lat1 = maxLat
		}
		if rapid.Bool().Draw(t, "south") {
			lat1, lat2 = -lat1, -lat2
		}
		lng1 = fl(-180, 180, "lng1")
		lng2 = lng1 + fl(-120, 120, "dlng")
	case 5: // short edge, 1e-6 … 1 degrees
		lat1 = fl(-maxLat+1, maxLat-1, "lat1")
		lng1 = fl(-180, 180, "lng1")
		l := math.Pow(10, fl(-6, 0, "loglen"))
		th := fl(0, 2*math.Pi, "dir")
		lat2 = lat1 + l*math.Sin(th)
		lng2 = lng1 + l*math.Cos(th)/math.Max(0.02, math.Cos(deg(lat1)))
	case 6: // zero-error edges: along a meridian or along the equator
		if rapid.Bool().Draw(t, "meridian") {
			lng1 = fl(-180, 180, "lng")
			lng2 = lng1
			lat1, lat2 = fl(-maxLat, maxLat, "lat1"), fl(-maxLat, maxLat, "lat2")
		} else {
			lng1 = fl(-180, 180, "lng1")
			lng2 = lng1 + fl(-175, 175, "dlng")
		}
	case 8: // the geodesic passes through (or within 1e-15..1e-3 deg of) a pole: longitudes 180 deg apart
		lat1, lat2 = fl(-maxLat, maxLat, "lat1"), fl(-maxLat, maxLat, "lat2")
		if rapid.Bool().Draw(t, "round") {
			lat1, lat2 = math.Round(lat1/5)*5, math.Round(lat2/5)*5
		}
		lng1 = fl(-180, 0, "lng1")
		if rapid.Bool().Draw(t, "roundlng") {
			lng1 = math.Round(lng1/15) * 15
		}
		lng2 = lng1 + 180 + rapid.SampledFrom([]float64{0, 0, 1e-15, -1e-15, 1e-12, -1e-12, 1e-9, -1e-9, 1e-6, -1e-6, 1e-3, -1e-3}).Draw(t, "off")
	case 7: // multiples of 15 degrees
		lat1 = 15 * float64(rapid.IntRange(-6, 6).Draw(t, "ilat1"))
		lat2 = 15 * float64(rapid.IntRange(-6, 6).Draw(t, "ilat2"))
		lng1 = 15 * float64(rapid.IntRange(-12, 12).Draw(t, "ilng1"))
		lng2 = 15 * float64(rapid.IntRange(-12, 12).Draw(t, "ilng2"))
		lat1 = math.Max(-maxLat, math.Min(maxLat, lat1))
		lat2 = math.Max(-maxLat, math.Min(maxLat, lat2))
	default:
		lat1, lat2 = fl(-maxLat, maxLat, "lat1"), fl(-maxLat, maxLat, "lat2")
		lng1, lng2 = fl(-180, 180, "lng1"), fl(-180, 180, "lng2")
	}
	return
}

func ptDeg(lat, lng float64) s2.Point {
	return gen.Fix(fromLatLngRad(deg(lat), deg(lng)), s2.Point{Vector: fromLatLngRad(0.3, 0.4).Vector.Normalize()})
}

// pullIn moves b towards a along the geodesic until the edge is inside the
// domain (≤ 179° long; for Mercator the whole geodesic within 85° latitude).
func pullIn(ps projSpec, a, b s2.Point) s2.Point {
	for i := 0; i < 8; i++ {
		ok := angle(a, b) <= deg(179)
		if ok && ps.Kind == kindMerc && geodesicMaxAbsLat(a, b) > mercMaxLat {
			ok = false
		}
		if ok {
			return b
		}
		b = gen.Fix(onGeodesic(a, b, 0.5), a)
	}
	return a
}

// drawTol draws the tolerance. l is the characteristic edge length (radians)
// and e0 the error of the un-subdivided edge measured by the oracle (0 if
// unknown): most tolerances are tied to e0 so that the subdivision depth and
// the final error/tolerance ratio vary; the floor l²·1e-6 keeps the output
// chain below a few thousand vertices.
func drawTol(t *rapid.T, l, e0 float64) float64 {
	floor := math.Max(1e-13, l*l*1e-6)
	var tol float64
	switch rapid.IntRange(0, 7).Draw(t, "tolmode") {
	case 0:
		tol = math.Pow(10, rapid.Float64Range(math.Log10(floor), 0).Draw(t, "logtol"))
	case 1:
		tol = rapid.SampledFrom([]float64{1e-13, 1e-12, 1.567e-7 /* 1 m */, 1e-3, 0.1, 1}).Draw(t, "toltab")
	case 2:
		tol = l * l * math.Pow(10, rapid.Float64Range(-6, 0.3).Draw(t, "relogtol"))
	default:
		if e0 <= 0 {
			e0 = l * l
		}
		tol = e0 * math.Pow(10, rapid.Float64Range(-4, 0.3).Draw(t, "e0logtol"))
	}
	return math.Min(1, math.Max(floor, tol))
}

// baseErr: largest distance between the straight planar edge (p0 -> p0+d) mapped
// to the sphere and the geodesic between the images of its end points.
func baseErr(ps projSpec, p0 [2]float64, dx, dy float64) float64 {
	a, b := ps.unproj(p0[0], p0[1]), ps.unproj(p0[0]+dx, p0[1]+dy)
	if angle(a, b) > deg(179) {
		return 0
	}
	m := 0.0
	for i := 1; i < 16; i++ {
		t := float64(i) / 16
		if d := distPointEdge(ps.unproj(p0[0]+t*dx, p0[1]+t*dy), a, b); d > m {
			m = d
		}
	}
	return m
}

// ---------------------------------------------------------------- projected

type projCase struct {
	Kind  int
	Scale float64
	Tol   float64
	Fam   int
	V     []gen.P // 2..4 vertices of a geodesic polyline
}

func genProjected(t *rapid.T) projCase {
	ps := genProjSpec(t)
	fam := rapid.IntRange(0, len(famNames)-1).Draw(t, "fam")
	maxLat := 90.0
	if ps.Kind == kindMerc {
		maxLat = 84.9
	}
	lat1, lng1, lat2, lng2 := genEdgeLL(t, fam, maxLat)
	a := ptDeg(lat1, lng1)
	b := pullIn(ps, a, ptDeg(lat2, lng2))
	vs := []s2.Point{a, b}
	n := rapid.SampledFrom([]int{2, 2, 2, 3, 4}).Draw(t, "nv")
	for len(vs) < n {
		l := fmt.Sprintf("x%d", len(vs))
		var c s2.Point
		if bk := rapid.IntRange(0, 5).Draw(t, l+".back"); bk == 0 {
			c = vs[len(vs)-2] // go back along the same edge
		} else if bk == 1 && maxLat == 90 {
			// an exact pole as a chain vertex: its longitude is arbitrary, the chain
			// arrives and leaves along different meridians
			c = s2.Point{Vector: r3.Vector{X: 0, Y: 0, Z: float64(2*rapid.IntRange(0, 1).Draw(t, l+".pole") - 1)}}
		} else {
			c = ptDeg(rapid.Float64Range(-maxLat, maxLat).Draw(t, l+".lat"), rapid.Float64Range(-180, 180).Draw(t, l+".lng"))
		}
		vs = append(vs, pullIn(ps, vs[len(vs)-1], c))
	}
	l, e0 := 0.0, 0.0
	for i := 0; i+1 < len(vs); i++ {
		l = math.Max(l, angle(vs[i], vs[i+1]))
		x0, y0 := ps.proj(vs[i])
		x1, y1 := ps.proj(vs[i+1])
		if finite(x0, y0, x1, y1) {
			e0 = math.Max(e0, baseErr(ps, [2]float64{x0, y0}, ps.wrapDelta(x0, x1), y1-y0))
		}
	}
	return projCase{Kind: ps.Kind, Scale: ps.Scale, Tol: drawTol(t, l, e0), Fam: fam, V: gen.FromPts(vs)}
}

const findingTinyEdge = "tess-tiny-edge-unbounded-recursion"
const findingThroughPole = "tess-projected-geodesic-through-pole"

// interpolateNaN reports the condition under which estimateMaxError returns NaN
// for a non-degenerate edge: the library's own interpolation of (a,b) at the
// tessellator's evaluation fractions is not a number.
func interpolateNaN(a, b s2.Point) bool {
	if a == b {
		return false
	}
	for _, t := range []float64{0.31215691082248312, 1 - 0.31215691082248312} {
		m := s2.Interpolate(t, a, b)
		if !finite(m.X, m.Y, m.Z) {
			return true
		}
	}
	return false
}

func tolOK(tol float64) bool { return tol >= 1e-13 && tol <= 1 }

// classifyTess gives the Finding class of an error/tolerance breach.
func classifyTess(err, tol float64) string {
	if err <= tessModelC*tol*(1+1e-6)+absSlack {
		return "tess-scale-factor-unapplied"
	}
	return "tess-error-beyond-model"
}

func checkProjected(c projCase) ev.Outcome {
	o := ev.Outcome{}
	ps := projSpec{c.Kind, c.Scale}
	if !ps.valid() || !tolOK(c.Tol) || len(c.V) < 2 || len(c.V) > 4 || c.Fam < 0 || c.Fam >= len(famNames) {
		o.Skip = true
		return o
	}
	vs := gen.Pts(c.V)
	for i, v := range vs {
		if !gen.Unit(v) {
			o.Skip = true
			return o
		}
		if i > 0 {
			if angle(vs[i-1], v) > deg(179.01) || (ps.Kind == kindMerc && geodesicMaxAbsLat(vs[i-1], v) > mercMaxLat+1e-9) {
				o.Skip = true
				return o
			}
		}
	}
	o.Class = ps.name() + ":" + famNames[c.Fam]
	for i := 0; i+1 < len(vs); i++ {
		if interpolateNaN(vs[i], vs[i+1]) {
			// Calling the tessellator would kill the process (unbounded recursion,
			// "fatal error: stack overflow" cannot be recovered): report without calling.
			o.Err = fmt.Sprintf("s2.Interpolate(t, a, b) is NaN for the distinct points a=%v b=%v (separation underflows); estimateMaxError is then NaN, never <= tolerance, and AppendProjected recurses without bound (fatal stack overflow)", vs[i], vs[i+1])
			o.Finding = findingTinyEdge
			return o
		}
	}
	tess := s2.NewEdgeTessellator(ps.lib(), s1.Angle(c.Tol))
	var chain []r2.Point
	ends := make([]int, 0, 3)
	for i := 0; i+1 < len(vs); i++ {
		before := len(chain)
		chain = tess.AppendProjected(vs[i], vs[i+1], chain)
		want := before + 1
		if before == 0 {
			want = 2
		}
		if len(chain) < want {
			o.Err = fmt.Sprintf("AppendProjected edge %d appended %d vertices to a chain of %d", i, len(chain)-before, before)
			return o
		}
		ends = append(ends, len(chain)-1)
	}
	for i, p := range chain {
		if !finite(p.X, p.Y) {
			o.Err = fmt.Sprintf("non-finite output vertex %d: %v", i, p)
			o.Finding = "tess-nonfinite"
			return o
		}
	}
	// One tessellator serving two chains in alternation: the same polyline is
	// tessellated into a second slice that starts one wrap further on. The output
	// for an edge is a function of the edge and of the last vertex of the slice
	// it is appended to, so the first chain must come out exactly as it does
	// alone. (The second chain is only a decoy: it is the first one shifted by a
	// wrap except where a 180-degree longitude jump ties in WrapDestination.)
	{
		t2 := s2.NewEdgeTessellator(ps.lib(), s1.Angle(c.Tol))
		var x []r2.Point
		y := []r2.Point{{X: chain[0].X + 2*ps.Scale, Y: chain[0].Y}}
		{
			for i := 0; i+1 < len(vs); i++ {
				x = t2.AppendProjected(vs[i], vs[i+1], x)
				y = t2.AppendProjected(vs[i], vs[i+1], y)
			}
			if len(x) != len(chain) {
				o.Err = fmt.Sprintf("a tessellator shared by two chains gives %d vertices for the first chain, alone %d", len(x), len(chain))
				o.Finding = "tess-shared-tessellator"
				return o
			}
			for i := range chain {
				if x[i] != chain[i] {
					o.Err = fmt.Sprintf("a tessellator shared by two chains: vertex %d of the first chain is %v, alone %v", i, x[i], chain[i])
					o.Finding = "tess-shared-tessellator"
					return o
				}
			}
		}
	}
	o.Counts = map[string]int{"output_vertices": len(chain)}
	nEdges := len(chain) - 1
	k := 3000 / nEdges
	if k < 8 {
		k = 8
	}
	if k > 48 {
		k = 48
	}
	worst, worstBack := 0.0, 0.0
	start := 0
	for e, end := range ends {
		a, b := vs[e], vs[e+1]
		// an edge whose geodesic passes through a pole (within 1e-6 rad): its own finding class
		throughPole := geodesicMaxAbsLat(a, b) > math.Pi/2-1e-6
		cls := func(f string) string {
			if throughPole {
				return findingThroughPole
			}
			return f
		}
		for i := start + 1; i <= end; i++ {
			if dxw := math.Abs(chain[i].X - chain[i-1].X); dxw > ps.Scale*(1+1e-12) {
				o.Err = fmt.Sprintf("%s scale %g tol %.6g edge %d: consecutive output vertices %d,%d (%v -> %v) are %.17g apart in x, more than half the wrap distance %.17g (documented: every vertex as close as possible to the previous one)", ps.name(), ps.Scale, c.Tol, e, i-1, i, chain[i-1], chain[i], dxw, ps.Scale)
				o.Finding = cls("tess-wrap")
				return o
			}
		}
		// endpoints: the chain starts at the image of a and ends at the image of b (any wrap)
		if d := angle(ps.unproj(chain[start].X, chain[start].Y), a); d > absSlack {
			o.Err = fmt.Sprintf("edge %d: first output vertex %v unprojects %.3g rad away from a", e, chain[start], d)
			o.Finding = "tess-endpoint"
			return o
		}
		if d := angle(ps.unproj(chain[end].X, chain[end].Y), b); d > absSlack {
			o.Err = fmt.Sprintf("edge %d: last output vertex %v unprojects %.3g rad away from b", e, chain[end], d)
			o.Finding = "tess-endpoint"
			return o
		}
		// (i) every point of every planar output edge is within tol of the geodesic ab
		type we struct {
			j int
			d float64
		}
		top := [2]we{{-1, -1}, {-1, -1}}
		errAt := func(j int, s float64) float64 {
			p, q := chain[j], chain[j+1]
			return distPointEdge(ps.unproj(p.X+(q.X-p.X)*s, p.Y+(q.Y-p.Y)*s), a, b)
		}
		for j := start; j < end; j++ {
			m := 0.0
			for i := 0; i < k; i++ {
				if d := errAt(j, (float64(i)+0.5)/float64(k)); d > m {
					m = d
				}
			}
			if m > top[0].d {
				top[1], top[0] = top[0], we{j, m}
			} else if m > top[1].d {
				top[1] = we{j, m}
			}
		}
		for _, w := range top {
			if w.j < 0 {
				continue
			}
			j := w.j
			s, d := goldenMax(func(s float64) float64 { return errAt(j, s) }, 0, 1, 2*k, 30)
			if d < w.d {
				d = w.d
			}
			if d > worst {
				worst = d
			}
			if d > c.Tol+absSlack {
				p, q := chain[j], chain[j+1]
				x := ps.unproj(p.X+(q.X-p.X)*s, p.Y+(q.Y-p.Y)*s)
				if distPointEdge(x, a, b) > c.Tol+absSlack && hpExceeds(x, a, b, c.Tol+absSlack) {
					o.Finding = cls(classifyTess(d, c.Tol))
					o.Err = fmt.Sprintf("%s scale %g tol %.6g: point at fraction %.4f of output edge %d (%v -> %v) is %.6g rad from the geodesic edge %d = %.5f x tolerance (chain of %d vertices)",
						ps.name(), ps.Scale, c.Tol, s, j, p, q, d, e, d/c.Tol, len(chain))
					o.Ratios = map[string]float64{"chain_to_geodesic_err/tol": (d - absSlack) / c.Tol}
					o.NonTrivial = true
					return o
				}
			}
		}
		// (ii) every point of the geodesic ab is within tol of the image of the planar chain
		// (image of each planar edge approximated by 64 geodesic pieces, see polyCurve).
		{
			kb := k / 4
			if kb < 3 {
				kb = 3
			}
			lim := c.Tol*(1+curveFudge) + absSlack
			curves := make([]polyCurve, end-start)
			curve := func(j int) polyCurve {
				if curves[j-start] == nil {
					p, q := chain[j], chain[j+1]
					curves[j-start] = mkCurve(func(s float64) s2.Point { return ps.unproj(p.X+(q.X-p.X)*s, p.Y+(q.Y-p.Y)*s) })
				}
				return curves[j-start]
			}
			for j := start; j < end; j++ {
				cj := curve(j)
				for i := 0; i < kb; i++ {
					s := (float64(i) + 0.5) / float64(kb)
					g := onGeodesic(cj[0], cj[curvePieces], s) // the chain vertices lie on ab
					d := cj.dist(g, int(s*curvePieces), lim)
					for r := 1; d > lim && r < end-start; r++ { // widen to the other output edges
						for _, j2 := range []int{j - r, j + r} {
							if j2 >= start && j2 < end {
								if d2 := curve(j2).dist(g, curvePieces/2, lim); d2 < d {
									d = d2
								}
							}
						}
					}
					if d > worstBack {
						worstBack = d
					}
					if d > lim {
						o.Finding = "tess-geodesic-far-from-chain"
						if d <= tessModelC*c.Tol*(1+curveFudge)+absSlack {
							o.Finding = "tess-scale-factor-unapplied"
						}
						o.Finding = cls(o.Finding)
						o.Err = fmt.Sprintf("%s scale %g tol %.6g: geodesic point %v of edge %d is %.6g rad from the image of the output chain = %.5f x tolerance", ps.name(), ps.Scale, c.Tol, g, e, d, d/c.Tol)
						return o
					}
				}
			}
		}
		start = end
	}
	if len(chain) < 3 {
		o.Counts["chains_without_subdivision"] = 1
	} else if worst <= 0.5*c.Tol {
		o.Counts["subdivided_but_error_below_half_tol"] = 1
	}
	o.NonTrivial = len(chain) >= 3 && worst > 0.5*c.Tol
	// reported net of the 1e-14 round-off allowance, so that a ratio > 1 is a breach at any tolerance
	o.Ratios = map[string]float64{"chain_to_geodesic_err/tol": math.Max(0, worst-absSlack) / c.Tol, "geodesic_to_chain_err/tol": math.Max(0, worstBack-absSlack) / c.Tol}
	return o
}
