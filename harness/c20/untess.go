package c20

import (
	"fmt"
	"math"

	"github.com/golang/geo/r2"
	"github.com/golang/geo/s1"
	"github.com/golang/geo/s2"
	"pgregory.net/rapid"

	"verifharness/internal/ev"
)

// ---------------------------------------------------------------- unprojected

type unprojCase struct {
	Kind  int
	Scale float64
	Tol   float64
	Fam   int
	P     [][2]float64 // 2..3 planar vertices (x may lie outside [-Scale,Scale]: the axis wraps)
}

func (ps projSpec) planarFromDeg(lat, lng float64) [2]float64 {
	x := lng / 180 * ps.Scale
	y := lat / 180 * ps.Scale
	if ps.Kind == kindMerc {
		y = math.Asinh(math.Tan(deg(lat))) * ps.Scale / math.Pi
	}
	ym := ps.yMax()
	return [2]float64{x, math.Max(-ym, math.Min(ym, y))}
}

// wrapDelta is the documented rule: the x-difference of the shortest edge.
func (ps projSpec) wrapDelta(x0, x1 float64) float64 {
	dx := x1 - x0
	if math.Abs(dx) > 0.5*ps.wrap() {
		dx = math.Remainder(dx, ps.wrap())
	}
	return dx
}

func genUnprojected(t *rapid.T) unprojCase {
	ps := genProjSpec(t)
	fam := rapid.IntRange(0, len(famNames)-1).Draw(t, "fam")
	maxLat := 90.0
	if ps.Kind == kindMerc {
		maxLat = 85
	}
	lat1, lng1, lat2, lng2 := genEdgeLL(t, fam, maxLat)
	shift := float64(rapid.IntRange(-1, 1).Draw(t, "wraps")) * 360
	pts := [][2]float64{ps.planarFromDeg(lat1, lng1+shift), ps.planarFromDeg(lat2, lng2+shift)}
	if rapid.IntRange(0, 3).Draw(t, "third") == 0 {
		if rapid.Bool().Draw(t, "back") {
			pts = append(pts, pts[0])
		} else {
			pts = append(pts, ps.planarFromDeg(rapid.Float64Range(-maxLat, maxLat).Draw(t, "lat3"), rapid.Float64Range(-360, 360).Draw(t, "lng3")))
		}
	}
	l, e0 := 0.0, 0.0
	for i := 0; i+1 < len(pts); i++ {
		dx := ps.wrapDelta(pts[i][0], pts[i+1][0])
		l = math.Max(l, math.Hypot(dx, pts[i+1][1]-pts[i][1])*math.Pi/ps.Scale)
		e0 = math.Max(e0, baseErr(ps, pts[i], dx, pts[i+1][1]-pts[i][1]))
	}
	return unprojCase{Kind: ps.Kind, Scale: ps.Scale, Tol: drawTol(t, l, e0), Fam: fam, P: pts}
}

func checkUnprojected(c unprojCase) ev.Outcome {
	o := ev.Outcome{}
	ps := projSpec{c.Kind, c.Scale}
	if !ps.valid() || !tolOK(c.Tol) || len(c.P) < 2 || len(c.P) > 3 || c.Fam < 0 || c.Fam >= len(famNames) {
		o.Skip = true
		return o
	}
	for _, p := range c.P {
		if !finite(p[0], p[1]) || math.Abs(p[0]) > 4*ps.Scale || math.Abs(p[1]) > ps.yMax()*(1+1e-12) {
			o.Skip = true
			return o
		}
	}
	o.Class = ps.name() + ":" + famNames[c.Fam]
	lib := ps.lib()
	for i := 0; i+1 < len(c.P); i++ {
		a := lib.Unproject(r2.Point{X: c.P[i][0], Y: c.P[i][1]})
		b := lib.Unproject(r2.Point{X: c.P[i+1][0], Y: c.P[i+1][1]})
		if interpolateNaN(a, b) {
			o.Err = fmt.Sprintf("s2.Interpolate(t, a, b) is NaN for the distinct points a=%v b=%v (images of planar vertices %v, %v); estimateMaxError is then NaN, never <= tolerance, and AppendUnprojected recurses without bound (fatal stack overflow)", a, b, c.P[i], c.P[i+1])
			o.Finding = findingTinyEdge
			return o
		}
	}
	tess := s2.NewEdgeTessellator(lib, s1.Angle(c.Tol))
	var chain []s2.Point
	var ends []int
	for i := 0; i+1 < len(c.P); i++ {
		before := len(chain)
		chain = tess.AppendUnprojected(r2.Point{X: c.P[i][0], Y: c.P[i][1]}, r2.Point{X: c.P[i+1][0], Y: c.P[i+1][1]}, chain)
		want := before + 1
		if before == 0 {
			want = 2
		}
		if len(chain) < want {
			o.Err = fmt.Sprintf("AppendUnprojected edge %d appended %d vertices to a chain of %d", i, len(chain)-before, before)
			return o
		}
		ends = append(ends, len(chain)-1)
	}
	for i, p := range chain {
		if !finite(p.X, p.Y, p.Z) || math.Abs(p.Norm2()-1) > 1e-14 {
			o.Err = fmt.Sprintf("output vertex %d is not a unit vector: %v", i, p)
			o.Finding = "untess-nonunit"
			return o
		}
	}
	o.Counts = map[string]int{"output_vertices": len(chain)}
	k := 3000 / (len(chain) - 1)
	if k < 8 {
		k = 8
	}
	if k > 48 {
		k = 48
	}
	worst, worstBack := 0.0, 0.0
	start := 0
	for e, end := range ends {
		pa, pb := c.P[e], c.P[e+1]
		dx, dy := ps.wrapDelta(pa[0], pb[0]), pb[1]-pa[1]
		img := func(t float64) s2.Point { return ps.unproj(pa[0]+t*dx, pa[1]+t*dy) }
		if d := angle(chain[start], img(0)); d > absSlack {
			o.Err = fmt.Sprintf("edge %d: first chain vertex is %.3g rad from the image of the planar vertex %v", e, d, pa)
			o.Finding = "untess-endpoint"
			return o
		}
		if d := angle(chain[end], img(1)); d > absSlack {
			o.Err = fmt.Sprintf("edge %d: last chain vertex is %.3g rad from the image of the planar vertex %v", e, d, pb)
			o.Finding = "untess-endpoint"
			return o
		}
		n := end - start
		// parameter of every chain vertex on the planar edge (own forward projection)
		ts := make([]float64, n+1)
		mono := dx != 0 || dy != 0
		for j := 0; j <= n && mono; j++ {
			xj, yj := ps.proj(chain[start+j])
			rx := math.Remainder(xj-(pa[0]+dx/2), ps.wrap()) + dx/2
			ts[j] = (rx*dx + (yj-pa[1])*dy) / (dx*dx + dy*dy)
			if !finite(ts[j]) || (j > 0 && !(ts[j] > ts[j-1])) {
				mono = false
			}
		}
		if mono && (math.Abs(ts[0]) > 1e-6 || math.Abs(ts[n]-1) > 1e-6) {
			mono = false
		}
		if !mono {
			for j := range ts {
				ts[j] = float64(j) / float64(n)
			}
		}
		ts[0], ts[n] = 0, 1
		distChain := func(x s2.Point, hint int, lim float64) (float64, int) {
			d := distPointEdge(x, chain[start+hint], chain[start+hint+1])
			at := hint
			if d <= lim && mono {
				return d, at
			}
			for j := 0; j < n; j++ {
				if d2 := distPointEdge(x, chain[start+j], chain[start+j+1]); d2 < d {
					d, at = d2, j
				}
			}
			return d, at
		}
		lim := c.Tol + absSlack
		// (i) every point of the planar edge (mapped to the sphere) is within tol of the geodesic chain
		type we struct {
			j int
			d float64
		}
		top := [2]we{{-1, -1}, {-1, -1}}
		for j := 0; j < n; j++ {
			m := 0.0
			for i := 0; i < k; i++ {
				t := ts[j] + (ts[j+1]-ts[j])*(float64(i)+0.5)/float64(k)
				if d, _ := distChain(img(t), j, lim); d > m {
					m = d
				}
			}
			if m > top[0].d {
				top[1], top[0] = top[0], we{j, m}
			} else if m > top[1].d {
				top[1] = we{j, m}
			}
		}
		for _, w := range top {
			if w.j < 0 {
				continue
			}
			j := w.j
			t, d := goldenMax(func(t float64) float64 { d, _ := distChain(img(t), j, lim); return d }, ts[j], ts[j+1], 2*k, 30)
			if d < w.d {
				d = w.d
			}
			if d > worst {
				worst = d
			}
			if d > lim {
				x := img(t)
				dd, at := distChain(x, j, -1)
				if dd > lim && hpExceeds(x, chain[start+at], chain[start+at+1], lim) {
					o.Finding = classifyTess(dd, c.Tol)
					o.Err = fmt.Sprintf("%s scale %g tol %.6g: the point at fraction %.6f of planar edge %d (%v -> %v) maps %.6g rad from the nearest output geodesic (%d) = %.5f x tolerance (chain of %d vertices)",
						ps.name(), ps.Scale, c.Tol, t, e, pa, pb, dd, at, dd/c.Tol, len(chain))
					o.Ratios = map[string]float64{"planar_to_chain_err/tol": (dd - absSlack) / c.Tol}
					o.NonTrivial = true
					return o
				}
			}
		}
		// (ii) every point of every output geodesic is within tol of the image of the planar edge
		{
			kb := k / 4
			if kb < 3 {
				kb = 3
			}
			limB := c.Tol*(1+curveFudge) + absSlack
			curves := make([]polyCurve, n)
			curve := func(j int) polyCurve {
				if curves[j] == nil {
					t0, t1 := ts[j], ts[j+1]
					curves[j] = mkCurve(func(s float64) s2.Point { return img(t0 + (t1-t0)*s) })
				}
				return curves[j]
			}
			for j := 0; j < n; j++ {
				for i := 0; i < kb; i++ {
					s := (float64(i) + 0.5) / float64(kb)
					g := onGeodesic(chain[start+j], chain[start+j+1], s)
					d := curve(j).dist(g, int(s*curvePieces), limB)
					for r := 1; d > limB && r < n; r++ {
						for _, j2 := range []int{j - r, j + r} {
							if j2 >= 0 && j2 < n {
								if d2 := curve(j2).dist(g, curvePieces/2, limB); d2 < d {
									d = d2
								}
							}
						}
					}
					if d > worstBack {
						worstBack = d
					}
					if d > limB {
						o.Finding = "untess-chain-far-from-planar-edge"
						if d <= tessModelC*c.Tol*(1+curveFudge)+absSlack {
							o.Finding = "tess-scale-factor-unapplied"
						}
						o.Err = fmt.Sprintf("%s scale %g tol %.6g: point %v of output geodesic %d of edge %d is %.6g rad from the image of the planar edge = %.5f x tolerance", ps.name(), ps.Scale, c.Tol, g, j, e, d, d/c.Tol)
						return o
					}
				}
			}
		}
		start = end
	}
	if len(chain) < 3 {
		o.Counts["chains_without_subdivision"] = 1
	} else if math.Max(worst, worstBack) <= 0.5*c.Tol {
		o.Counts["subdivided_but_error_below_half_tol"] = 1
	}
	o.NonTrivial = len(chain) >= 3 && math.Max(worst, worstBack) > 0.5*c.Tol
	// reported net of the 1e-14 round-off allowance, so that a ratio > 1 is a breach at any tolerance
	o.Ratios = map[string]float64{"planar_to_chain_err/tol": math.Max(0, worst-absSlack) / c.Tol, "chain_to_planar_err/tol": math.Max(0, worstBack-absSlack) / c.Tol}
	return o
}
