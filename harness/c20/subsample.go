package c20

import (
	"fmt"
	"math"

	"github.com/golang/geo/r3"
	"github.com/golang/geo/s1"
	"github.com/golang/geo/s2"
	"pgregory.net/rapid"

	"verifharness/internal/ev"
	"verifharness/internal/gen"
)

type subCase struct {
	Tol float64
	Fam int
	V   []gen.P
}

var subFams = []string{"random-walk", "near-straight", "zigzag", "backtrack", "duplicates", "long-steps", "cluster", "tiny-scale"}

// frameAt returns two unit vectors spanning the tangent plane at p (own construction).
func frameAt(p s2.Point) (r3.Vector, r3.Vector) {
	ax := r3.Vector{X: 1}
	if math.Abs(p.X) > math.Abs(p.Y) && math.Abs(p.X) > math.Abs(p.Z) {
		ax = r3.Vector{Y: 1}
	} else if math.Abs(p.Y) > math.Abs(p.Z) {
		ax = r3.Vector{Z: 1}
	}
	e1 := p.Cross(ax).Normalize()
	e2 := p.Cross(e1).Normalize()
	return e1, e2
}

// move returns the point at distance d from p in the tangent direction th.
func move(p s2.Point, th, d float64) s2.Point {
	e1, e2 := frameAt(p)
	dir := e1.Mul(math.Cos(th)).Add(e2.Mul(math.Sin(th)))
	return gen.Fix(s2.Point{Vector: p.Mul(math.Cos(d)).Add(dir.Mul(math.Sin(d))).Normalize()}, p)
}

// lineFrame: q(s,w) is the point at arc length s along the great circle through
// c in direction e1, displaced by the exact distance w towards the pole e2.
type lineFrame struct{ c, e1, e2 r3.Vector }

func (l lineFrame) at(s, w float64) s2.Point {
	q := l.c.Mul(math.Cos(s)).Add(l.e1.Mul(math.Sin(s)))
	return gen.Fix(s2.Point{Vector: q.Mul(math.Cos(w)).Add(l.e2.Mul(math.Sin(w))).Normalize()}, s2.Point{Vector: l.c})
}

func genSubsample(t *rapid.T) subCase {
	fam := rapid.IntRange(0, len(subFams)-1).Draw(t, "fam")
	tol := math.Pow(10, rapid.Float64Range(-13, 0).Draw(t, "logtol"))
	if rapid.IntRange(0, 5).Draw(t, "toltab") == 0 {
		tol = rapid.SampledFrom([]float64{1e-13, 1e-9, 1e-3, 0.1, 0.5, 1}).Draw(t, "toltabv")
	}
	n := rapid.SampledFrom([]int{2, 3, 4, 5, 6, 8, 10, 12, 16, 20, 30, 50, 120, 500}).Draw(t, "n")
	c := gen.Base(t, "c")
	e1, e2 := frameAt(c)
	th0 := rapid.Float64Range(0, 2*math.Pi).Draw(t, "th0")
	lf := lineFrame{c.Vector, e1.Mul(math.Cos(th0)).Add(e2.Mul(math.Sin(th0))).Normalize(), r3.Vector{}}
	lf.e2 = lf.c.Cross(lf.e1).Normalize()
	fl := func(lo, hi float64, l string) float64 { return rapid.Float64Range(lo, hi).Draw(t, l) }
	crit := []float64{0, 0.3, 0.9, 0.999, 1, 1.001, 1.1, 2, -0.9, -1, -1.1}
	vs := []s2.Point{c}
	switch fam {
	case 1, 2: // along a great circle with perpendicular offsets around ±tol
		span := math.Min(1.5, math.Max(tol*fl(2, 2000, "span"), 1e-12))
		if rapid.IntRange(0, 4).Draw(t, "longspan") == 0 {
			span = fl(0.1, 3, "spanabs")
		}
		s := 0.0
		vs = vs[:0]
		for i := 0; i < n; i++ {
			l := fmt.Sprintf("v%d", i)
			var w float64
			if fam == 2 {
				w = tol * rapid.SampledFrom([]float64{0.4, 0.9, 1, 1.1, 2}).Draw(t, l+".amp")
				if i%2 == 1 {
					w = -w
				}
			} else {
				w = tol * rapid.SampledFrom(crit).Draw(t, l+".w")
				if rapid.Bool().Draw(t, l+".free") {
					w = tol * fl(-1.5, 1.5, l+".wf")
				}
			}
			if i == 0 {
				w = 0
			}
			vs = append(vs, lf.at(s, w))
			s += span / float64(n) * fl(0.2, 1.8, l+".ds")
		}
	case 3: // forward, back over the same vertices, forward again
		m := n/3 + 2
		step := tol * math.Pow(10, fl(-0.5, 2, "logstep"))
		step = math.Min(step, 1.5/float64(m))
		var fw []s2.Point
		for i := 0; i < m; i++ {
			fw = append(fw, lf.at(step*float64(i), tol*fl(-1.2, 1.2, fmt.Sprintf("w%d", i))))
		}
		vs = append(vs[:0], fw...)
		for i := m - 2; i >= 1; i-- {
			vs = append(vs, fw[i])
		}
		for i := 2; i < m; i++ {
			vs = append(vs, lf.at(step*float64(i), tol*fl(-1.2, 1.2, fmt.Sprintf("x%d", i))))
		}
	case 5: // steps around and above 90 degrees
		n = rapid.IntRange(2, 8).Draw(t, "nlong")
		for len(vs) < n {
			l := fmt.Sprintf("v%d", len(vs))
			d := rapid.SampledFrom([]float64{math.Pi / 2, math.Pi/2 - 1e-9, math.Pi/2 + 1e-9, 1.2, 2, 3, deg(179)}).Draw(t, l+".d")
			if rapid.Bool().Draw(t, l+".free") {
				d = fl(0.5, deg(179), l+".df")
			}
			vs = append(vs, move(vs[len(vs)-1], fl(0, 2*math.Pi, l+".th"), d))
		}
	case 6: // many vertices inside the tolerance disc of the first one, then leaving it
		k := rapid.IntRange(1, n).Draw(t, "inside")
		for len(vs) < n {
			l := fmt.Sprintf("v%d", len(vs))
			if len(vs) <= k {
				vs = append(vs, move(c, fl(0, 2*math.Pi, l+".th"), tol*rapid.SampledFrom([]float64{0, 0.5, 0.99, 1, 1.01}).Draw(t, l+".r")))
			} else {
				vs = append(vs, move(vs[len(vs)-1], th0+fl(-0.3, 0.3, l+".th"), tol*fl(0.3, 5, l+".d")))
			}
		}
	case 7:
		tol = math.Pow(10, fl(-13, -11, "tinytol"))
		fallthrough
	default: // random walk (4: with adjacent duplicates)
		th := th0
		for len(vs) < n {
			l := fmt.Sprintf("v%d", len(vs))
			if fam == 4 && rapid.IntRange(0, 2).Draw(t, l+".dup") == 0 {
				vs = append(vs, vs[len(vs)-1])
				continue
			}
			th += fl(-1, 1, l+".turn") * rapid.SampledFrom([]float64{0.01, 0.3, 3}).Draw(t, l+".turnamp")
			d := math.Min(0.5, tol*math.Pow(10, fl(-1.5, 1.5, l+".logd")))
			vs = append(vs, move(vs[len(vs)-1], th, d))
		}
	}
	return subCase{Tol: tol, Fam: fam, V: gen.FromPts(vs)}
}

func checkSubsample(c subCase) ev.Outcome {
	o := ev.Outcome{}
	if !tolOK(c.Tol) || len(c.V) < 2 || len(c.V) > 2000 || c.Fam < 0 || c.Fam >= len(subFams) {
		o.Skip = true
		return o
	}
	vs := gen.Pts(c.V)
	dups := false
	for i, v := range vs {
		if !gen.Unit(v) {
			o.Skip = true
			return o
		}
		if i > 0 {
			if v == vs[i-1] {
				dups = true
			}
			if angle(v, vs[i-1]) > deg(179.5) {
				o.Skip = true // (nearly) antipodal adjacent vertices: not a polyline
				return o
			}
		}
	}
	o.Class = subFams[c.Fam]
	if dups {
		o.Class += "+dups"
	}
	pl := s2.Polyline(append([]s2.Point(nil), vs...))
	res := pl.SubsampleVertices(s1.Angle(c.Tol))
	for i, v := range pl {
		if v != vs[i] {
			o.Err = "SubsampleVertices modified its receiver"
			return o
		}
	}
	n := len(vs)
	fail := func(f string, a ...any) ev.Outcome {
		o.Err = fmt.Sprintf("tol %.6g n=%d result=%v: ", c.Tol, n, clip(res)) + fmt.Sprintf(f, a...)
		if dups {
			o.Finding = "subsample-with-duplicate-input"
		}
		return o
	}
	if len(res) == 0 || res[0] != 0 {
		return fail("first vertex not kept")
	}
	for i, r := range res {
		if r < 0 || r >= n || (i > 0 && r <= res[i-1]) {
			return fail("indices not strictly increasing within range at position %d", i)
		}
		if i > 0 {
			if vs[r] == vs[res[i-1]] {
				return fail("adjacent output vertices %d,%d are identical", res[i-1], r)
			}
			if vs[r].Vector == vs[res[i-1]].Mul(-1) {
				return fail("adjacent output vertices %d,%d are antipodal", res[i-1], r)
			}
		}
	}
	last := res[len(res)-1]
	if vs[0] != vs[n-1] && vs[last] != vs[n-1] {
		return fail("first and last vertices differ but the last vertex is not preserved (last output index %d)", last)
	}
	lim := c.Tol + absSlack
	worst := 0.0
	for k := 0; k < len(res); k++ {
		a := vs[res[k]]
		hi := n
		b := a // trailing vertices are replaced by the single last output vertex
		if k+1 < len(res) {
			hi = res[k+1]
			b = vs[hi]
		}
		for j := res[k] + 1; j < hi; j++ {
			d := distPointEdge(vs[j], a, b)
			if d > worst {
				worst = d
			}
			if d > lim && hpExceeds(vs[j], a, b, lim) {
				o.Ratios = map[string]float64{"dropped_vertex_dist/tol": d / c.Tol}
				return fail("dropped vertex %d is %.6g rad = %.6f x tolerance from the output edge (%d,%d) that replaces it", j, d, d/c.Tol, res[k], hi)
			}
		}
	}
	o.NonTrivial = len(res) < n
	o.Ratios = map[string]float64{"dropped_vertex_dist/tol": math.Max(0, worst-absSlack) / c.Tol, "kept_fraction": float64(len(res)) / float64(n)}
	o.Counts = map[string]int{"vertices_in": n, "vertices_dropped": n - len(res)}
	return o
}

func clip(r []int) []int {
	if len(r) > 12 {
		return r[:12]
	}
	return r
}
