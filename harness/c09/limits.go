package c09

import (
	"bytes"
	"fmt"

	"github.com/golang/geo/s2"
	"pgregory.net/rapid"

	"verifharness/internal/ev"
)

// cellunion_at_limit: the decoder refuses cell unions beyond a documented size
// ("too many cells (n; max is 1000000)"); a union of exactly that many cells is
// within the limit and must round-trip like any other. (The analogous vertex
// and loop limits - 50 and 10 million - are too large to exercise.)

type limitCase struct {
	Start uint64 // a leaf cell id; the union is N consecutive leaves from there
	N     int
}

const cellUnionDecodeLimit = 1000000

func genLimit(t *rapid.T) limitCase {
	face := uint64(rapid.IntRange(0, 5).Draw(t, "face"))
	pos := rapid.Uint64Range(0, 1<<59).Draw(t, "pos")
	return limitCase{Start: face<<61 | pos<<1 | 1, N: cellUnionDecodeLimit - rapid.SampledFrom([]int{0, 0, 1, 2}).Draw(t, "below")}
}

func checkLimit(c limitCase) ev.Outcome {
	o := ev.Outcome{}
	id := s2.CellID(c.Start)
	if !id.IsValid() || !id.IsLeaf() || c.N < 1 || c.N > cellUnionDecodeLimit {
		o.Skip = true
		return o
	}
	cu := make(s2.CellUnion, 0, c.N)
	for i := 0; i < c.N; i++ {
		if !id.IsValid() {
			o.Skip = true // ran off the end of the curve
			return o
		}
		cu = append(cu, id)
		id = id.Next()
	}
	o.Class = fmt.Sprintf("n=limit-%d", cellUnionDecodeLimit-c.N)
	o.NonTrivial = c.N == cellUnionDecodeLimit
	var buf bytes.Buffer
	if err := cu.Encode(&buf); err != nil {
		o.Err = fmt.Sprintf("Encode of %d cells: %v", c.N, err)
		return o
	}
	var back s2.CellUnion
	if err := back.Decode(bytes.NewReader(buf.Bytes())); err != nil {
		o.Err = fmt.Sprintf("a cell union of %d cells (limit %d) encodes to %d bytes but does not decode: %v", c.N, cellUnionDecodeLimit, buf.Len(), err)
		return o
	}
	if len(back) != len(cu) {
		o.Err = fmt.Sprintf("decoded %d cells, encoded %d", len(back), len(cu))
		return o
	}
	for i := range cu {
		if cu[i] != back[i] {
			o.Err = fmt.Sprintf("cell %d decodes as %v, encoded %v", i, back[i], cu[i])
			return o
		}
	}
	return o
}

func init() {
	ev.Define("cellunion_at_limit", ev.Options{
		Rule:  "cell unions of exactly the decoder's documented maximum (1 000 000 cells) and 1-2 below it, consecutive leaf cells from a drawn start: Encode then Decode returns the identical list. Non-trivial = exactly at the limit.",
		Quick: 16, Thorough: 160}, genLimit, checkLimit)
}
