// Package c09: encoding is lossless — Decode(Encode(v)) reproduces v exactly.
//
// Oracle: the round trip itself, judged on observable state only: coordinates
// compared as uint64 bit patterns, vertex/loop order, nesting (parity, Parent,
// LastDescendant), origin flags, bounds bit for bit, every shape accessor, and
// the answers to containment queries on probe points and cells. Encoding is
// judged deterministic (twice on one object, on a second object built from the
// same data, after queries, and after the round trip) and self-delimiting
// (a decoder handed a longer stream consumes exactly the encoding).
// Which of the two polygon formats was chosen is read from the first byte; the
// number of cell-centre vertices per level is recomputed here through the public
// CellID API (not through the encoder's xyzToFaceSiTi).
package c09

import (
	"bytes"
	"fmt"
	"io"
	"math"
	"sort"
	"testing/iotest"

	"github.com/golang/geo/r1"
	"github.com/golang/geo/r3"
	"github.com/golang/geo/s1"
	"github.com/golang/geo/s2"
	"pgregory.net/rapid"

	"verifharness/internal/ev"
	"verifharness/internal/gen"
)

// ------------------------------------------------------------------ helpers

func bitsEq(a, b float64) bool { return math.Float64bits(a) == math.Float64bits(b) }

func ptBitsEq(a, b s2.Point) bool { return bitsEq(a.X, b.X) && bitsEq(a.Y, b.Y) && bitsEq(a.Z, b.Z) }

func rectBitsEq(a, b s2.Rect) bool {
	return bitsEq(a.Lat.Lo, b.Lat.Lo) && bitsEq(a.Lat.Hi, b.Lat.Hi) && bitsEq(a.Lng.Lo, b.Lng.Lo) && bitsEq(a.Lng.Hi, b.Lng.Hi)
}

func ptHex(p s2.Point) string {
	return fmt.Sprintf("(%x,%x,%x)", math.Float64bits(p.X), math.Float64bits(p.Y), math.Float64bits(p.Z))
}

// centreLevel returns the level at which p is bit-for-bit a cell centre, or -1.
// Uses only the public CellID API.
func centreLevel(p s2.Point) int {
	leaf := leafOf(p)
	for l := 30; l >= 0; l-- {
		if ptBitsEq(leaf.Parent(l).Point(), p) {
			return l
		}
	}
	return -1
}

// numericCentreLevel is the same with numeric equality (−0 == +0).
func numericCentreLevel(p s2.Point) int {
	leaf := leafOf(p)
	for l := 30; l >= 0; l-- {
		if leaf.Parent(l).Point() == p {
			return l
		}
	}
	return -1
}

// differ compares two q3 answers. A query that panics on the ORIGINAL value is
// not a round-trip matter (it is counted and reported separately); a decoded
// value that panics where the original answers is a difference.
func differ(o *ev.Outcome, orig, dec int) bool {
	if orig == 2 {
		o.Counts["query-panics-on-original-"+o.Class]++
		return false
	}
	return orig != dec
}

// q3 runs a query and maps a panic to 2 (so "both panic alike" is comparable).
func q3(f func() bool) (r int) {
	defer func() {
		if recover() != nil {
			r = 2
		}
	}()
	if f() {
		return 1
	}
	return 0
}

type encodable interface{ Encode(w io.Writer) error }

func enc(v encodable) ([]byte, error) {
	var b bytes.Buffer
	err := v.Encode(&b)
	return b.Bytes(), err
}

var sentinel = []byte{0xa5, 0x5a, 0xff, 0x00, 0x01, 0x04, 0x80}

// decodeFrom decodes with `dec` from data. When slow it hands the decoder a
// reader that is not an io.ByteReader and yields one byte per Read; otherwise
// a *bytes.Reader over data+sentinel and it reports how many bytes were left.
func decodeFrom(data []byte, slow bool, dec func(io.Reader) error) (left int, err error) {
	if slow {
		return -1, dec(iotest.OneByteReader(bytes.NewReader(data)))
	}
	buf := append(append([]byte{}, data...), sentinel...)
	r := bytes.NewReader(buf)
	err = dec(r)
	return r.Len(), err
}

func reverse(v []gen.P) []gen.P {
	n := len(v)
	out := make([]gen.P, n)
	for i := range v {
		out[i] = v[n-1-i]
	}
	return out
}

// ------------------------------------------------------------------ polygon generator

// A polygon is a set of components placed in pairwise disjoint "slots" (caps
// about the 6 face centres / 8 cube corners / 12 edge midpoints, or one free
// slot). A component is
//   - concentric star rings drawn in the gnomonic plane about its centre (there
//     geodesic edges are straight segments, so increasing azimuth with gaps < π
//     makes a ring simple and the radial bands make ring r+1 nested in ring r),
//   - an axis-aligned rectangle through cell centres of one level on one face, or
//   - a lattice rectangle through cell corners (gen.LatticeRect).
// Every star vertex is then replaced by a nearby point of a drawn kind: itself,
// the centre of its cell at some level ≥ Lc, such a centre moved by one ulp, or
// a corner of that cell. Lc is chosen from the ring geometry so the largest
// possible displacement (a cell diagonal, 2.44·2^-Lc) is below 1/16 of what
// could reorder azimuths or let neighbouring rings touch; validity is therefore
// by construction, not by filtering.

type polyCase struct {
	Loops   [][]gen.P
	Build   int // 0 PolygonFromLoops; 1 PolygonFromOrientedLoops (holes given clockwise); 2 PolygonFromLoops then Invert; 3 empty; 4 full
	Probes  []gen.P
	ProbeLv []int
	Reuse   int  // 0 fresh receiver; 1 receiver held a compressed-format polygon; 2 a lossless-format one
	Slow    bool // decode through a one-byte non-ByteReader
	Kind    string
}

func axis(i int) s2.Point {
	v := [3]float64{}
	v[i%3] = 1
	if i >= 3 {
		v[i%3] = -1
	}
	return s2.Point{Vector: r3.Vector{X: v[0], Y: v[1], Z: v[2]}}
}

type slotSystem struct {
	centres []s2.Point
	radius  float64 // radians
}

func slots(kind int) slotSystem {
	switch kind {
	case 0:
		var c []s2.Point
		for f := 0; f < 6; f++ {
			c = append(c, s2.Point{Vector: gen.FaceUVToXYZ(f, 0, 0)})
		}
		return slotSystem{c, 40 * math.Pi / 180}
	case 1:
		var c []s2.Point
		for _, x := range []float64{-1, 1} {
			for _, y := range []float64{-1, 1} {
				for _, z := range []float64{-1, 1} {
					c = append(c, s2.Point{Vector: r3.Vector{X: x, Y: y, Z: z}.Normalize()})
				}
			}
		}
		return slotSystem{c, 30 * math.Pi / 180}
	default:
		var c []s2.Point
		for a := 0; a < 3; a++ {
			for _, x := range []float64{-1, 1} {
				for _, y := range []float64{-1, 1} {
					v := [3]float64{}
					v[a] = x
					v[(a+1)%3] = y
					c = append(c, s2.Point{Vector: r3.Vector{X: v[0], Y: v[1], Z: v[2]}.Normalize()})
				}
			}
		}
		return slotSystem{c, 25 * math.Pi / 180}
	}
}

func frameOf(c s2.Point) (x, y r3.Vector) {
	x = c.Ortho()
	y = c.Cross(x).Normalize()
	return
}

func maxVerts() int {
	if ev.Thorough() {
		return 260
	}
	return 100
}

func ringSize(t *rapid.T, label string, lo, hi int) int {
	switch rapid.IntRange(0, 9).Draw(t, label+".nk") {
	case 0, 1:
		n := rapid.SampledFrom([]int{63, 64, 65, 31, 32, 33}).Draw(t, label+".nthr")
		if n >= lo && n <= hi {
			return n
		}
	case 2, 3, 4, 5:
		return rapid.IntRange(lo, minI(hi, lo+9)).Draw(t, label+".nsmall")
	}
	return rapid.IntRange(lo, hi).Draw(t, label+".n")
}

func minI(a, b int) int {
	if a < b {
		return a
	}
	return b
}
func maxI(a, b int) int {
	if a > b {
		return a
	}
	return b
}

func splitmix(x uint64) uint64 {
	x += 0x9e3779b97f4a7c15
	x = (x ^ (x >> 30)) * 0xbf58476d1ce4e5b9
	x = (x ^ (x >> 27)) * 0x94d049bb133111eb
	return x ^ (x >> 31)
}

// uniform01 maps (seed, k) to [0,1).
func uniform01(seed uint64, k int) float64 {
	return float64(splitmix(seed+uint64(k)*0x632be59bd9b4e019)>>11) / (1 << 53)
}

// snapProfile says how vertices are replaced.
type snapProfile struct {
	base  int     // polygon-wide base level
	frac  float64 // probability that a vertex is snapped at the component level
	other []int   // weights of the other kinds: raw, other-level, one-ulp-off centre, cell corner
}

func drawProfile(t *rapid.T) (snapProfile, string) {
	p := snapProfile{}
	switch rapid.IntRange(0, 5).Draw(t, "lvk") {
	case 0, 1:
		p.base = 30
	case 2:
		p.base = rapid.IntRange(0, 12).Draw(t, "lvlow")
	case 3:
		// where the byte count of the fixed-length first point changes, and the ends
		p.base = rapid.SampledFrom([]int{8, 16, 24, 0, 1, 7, 9, 15, 17, 23, 25, 29}).Draw(t, "lvedge")
	default:
		p.base = rapid.IntRange(0, 30).Draw(t, "lv")
	}
	name := ""
	switch rapid.IntRange(0, 11).Draw(t, "profile") {
	case 5:
		p.frac, p.other, name = 1, []int{1, 0, 0, 0}, "all-snapped"
	case 6, 7:
		p.frac, p.other, name = 0.5, []int{0, 1, 0, 0}, "mixed-levels"
	case 8:
		p.frac, p.other, name = 0, []int{1, 0, 0, 0}, "none-snapped"
	case 0, 1, 2, 11:
		// around the format decision (compressed iff 13·unsnapped < 10·n, i.e. snapped > 23.1 %);
		// the other kinds here are never centres of any level
		p.frac, p.other, name = 0.12+0.02*float64(rapid.IntRange(0, 10).Draw(t, "fthr")), []int{4, 0, 1, 0}, "threshold"
	case 3:
		p.frac = rapid.SampledFrom([]float64{0.03, 0.08, 0.15}).Draw(t, "flow")
		p.other, name = []int{3, 1, 2, 2}, "mostly-raw"
	default:
		p.frac = rapid.SampledFrom([]float64{0.4, 0.6, 0.8, 0.9, 0.97}).Draw(t, "f")
		p.other, name = []int{3, 2, 2, 2}, "partial"
	}
	return p, name
}

func cellDiagHalf(level int) float64 { return 1.25 * math.Ldexp(1, -level) }

// replaceVertex draws the kind of the vertex and returns the replacement.
//
// rapid's numeric draws favour small and simple values, which would make the
// snapped fraction far larger than asked for; whether a vertex is snapped is
// therefore decided by u, a uniform number derived (splitmix64) from one drawn
// 64-bit seed per component and the vertex index — still a pure function of
// rapid draws.
func replaceVertex(t *rapid.T, label string, p s2.Point, lc int, prof snapProfile, r float64) s2.Point {
	leaf := leafOf(p)
	if r < prof.frac {
		return leaf.Parent(lc).Point()
	}
	tot := 0
	for _, w := range prof.other {
		tot += w
	}
	x := rapid.IntRange(0, tot-1).Draw(t, label+".o")
	kind := 0
	for i, w := range prof.other {
		if x < w {
			kind = i
			break
		}
		x -= w
	}
	switch kind {
	case 1:
		l := rapid.IntRange(lc, 30).Draw(t, label+".ol")
		return leaf.Parent(l).Point()
	case 2:
		q := leaf.Parent(lc).Point()
		d := rapid.IntRange(0, 5).Draw(t, label+".ulp")
		s := 1 - 2*(d&1)
		switch d / 2 {
		case 0:
			q.X = gen.Ulps(q.X, s)
		case 1:
			q.Y = gen.Ulps(q.Y, s)
		default:
			q.Z = gen.Ulps(q.Z, s)
		}
		return q
	case 3:
		l := rapid.IntRange(lc, 30).Draw(t, label+".cl")
		return s2.CellFromCellID(leaf.Parent(l)).Vertex(rapid.IntRange(0, 3).Draw(t, label+".cv"))
	}
	return p
}

// ringsComponent draws 1..4 nested star rings about c with planar radius ≤ rmax.
func ringsComponent(t *rapid.T, label string, c s2.Point, rmax float64, prof snapProfile, budget int) [][]gen.P {
	k := rapid.SampledFrom([]int{1, 1, 1, 2, 2, 3, 4}).Draw(t, label+".rings")
	if budget < 8*k {
		k = maxI(1, budget/8)
	}
	ns := make([]int, k)
	need := 0.0
	for r := 0; r < k; r++ {
		lo := 3
		if k > 1 {
			lo = 8
		}
		ns[r] = ringSize(t, label, lo, maxI(lo, minI(maxVerts(), budget/k)))
		if v := 16 * float64(ns[r]) / (0.85 * math.Pow(0.6, float64(r))); v > need {
			need = v
		}
	}
	// smallest level whose displacement bound fits under rmax
	lreq := int(math.Ceil(math.Log2(1.25 * need / rmax)))
	lc := maxI(prof.base, maxI(lreq, 0))
	if lc > 30 {
		lc = 30 // cannot happen for rmax ≥ 0.2, n ≤ 260, k ≤ 4 (lreq ≤ 19)
	}
	rlow := need * cellDiagHalf(lc)
	var R float64
	if rapid.IntRange(0, 2).Draw(t, label+".tight") == 0 {
		R = rlow * rapid.Float64Range(1, 3).Draw(t, label+".rt")
	} else {
		R = math.Exp(rapid.Float64Range(math.Log(rlow), math.Log(rmax)).Draw(t, label+".lr"))
	}
	if R > rmax {
		R = rmax
	}
	x, y := frameOf(c)
	seed := rapid.Uint64().Draw(t, label+".kindseed")
	var out [][]gen.P
	for r := 0; r < k; r++ {
		n := ns[r]
		hi := R * math.Pow(0.6, float64(r))
		jit := 0.25
		if n < 8 {
			jit = 0.15
		}
		az0 := rapid.Float64Range(0, 2*math.Pi).Draw(t, label+".az0")
		v := make([]gen.P, 0, n)
		for i := 0; i < n; i++ {
			rho := hi * rapid.Float64Range(0.85, 1).Draw(t, label+".rho")
			az := az0 + (float64(i)+rapid.Float64Range(-jit, jit).Draw(t, label+".j"))*2*math.Pi/float64(n)
			d := x.Mul(math.Cos(az)).Add(y.Mul(math.Sin(az)))
			p := s2.Point{Vector: c.Add(d.Mul(rho)).Normalize()}
			p = gen.Fix(replaceVertex(t, label+".v", p, lc, prof, uniform01(seed, r*100000+i)), p)
			v = append(v, gen.FromPt(p))
		}
		out = append(out, v)
	}
	return out
}

func cellCentre(face, level, i, j int) s2.Point {
	n := float64(int64(1) << uint(level))
	u := gen.STToUV((float64(i) + 0.5) / n)
	v := gen.STToUV((float64(j) + 0.5) / n)
	p := s2.Point{Vector: gen.FaceUVToXYZ(face, u, v).Normalize()}
	// canonical library form (bit-identical in practice; taken from the library so
	// the vertex certainly is what the encoder regards as a centre)
	return leafOf(p).Parent(level).Point()
}

func drawSpan(t *rapid.T, label string, size int) (a, b int) {
	// a < b in [0,size-1], biased to the first/last cell and to short spans
	switch rapid.IntRange(0, 5).Draw(t, label+".sk") {
	case 0:
		a = 0
	case 1:
		w := rapid.IntRange(1, minI(size-1, 12)).Draw(t, label+".w")
		return size - 1 - w, size - 1
	default:
		a = rapid.IntRange(0, size-2).Draw(t, label+".a")
	}
	wmax := size - 1 - a
	var w int
	if rapid.Bool().Draw(t, label+".short") {
		w = rapid.IntRange(1, minI(wmax, 12)).Draw(t, label+".w")
	} else {
		w = rapid.IntRange(1, wmax).Draw(t, label+".wl")
	}
	return a, a + w
}

// centreRect: rectangle whose vertices are centres of level-`level` cells of one face.
func centreRect(t *rapid.T, label string, face int, prof snapProfile) []gen.P {
	level := prof.base
	if level < 1 {
		level = 1
	}
	size := 1 << uint(level)
	i0, i1 := drawSpan(t, label+".i", size)
	j0, j1 := drawSpan(t, label+".j", size)
	all := rapid.Bool().Draw(t, label+".all")
	seed := rapid.Uint64().Draw(t, label+".kindseed")
	side := func(a, b int) []int { // a inclusive .. b exclusive, direction by sign
		d := 1
		if b < a {
			d = -1
		}
		out := []int{a}
		if all && (b-a)*d <= 16 {
			for k := a + d; k != b; k += d {
				out = append(out, k)
			}
		}
		return out
	}
	var v []gen.P
	add := func(i, j int) {
		p := cellCentre(face, level, i, j)
		// a fraction of the vertices is moved one ulp off the centre
		if uniform01(seed, len(v)) >= prof.frac && prof.other[0] > 0 {
			q := p
			q.Z = gen.Ulps(q.Z, 1-2*rapid.IntRange(0, 1).Draw(t, label+".u"))
			p = gen.Fix(q, p)
		}
		v = append(v, gen.FromPt(p))
	}
	for _, i := range side(i0, i1) {
		add(i, j0)
	}
	for _, j := range side(j0, j1) {
		add(i1, j)
	}
	for _, i := range side(i1, i0) {
		add(i, j1)
	}
	for _, j := range side(j1, j0) {
		add(i0, j)
	}
	return v
}

// latticeRect: rectangle through cell corners of the level-`level` grid of one
// face (a vertex at every grid point of its boundary). Corners with both
// indices odd are centres of level-(level−1) cells; the others are centres of
// no cell; with touch the rectangle reaches the face boundary, where si or ti
// is 0 or 2^31. level is base+1 half of the time (so the snapped corners sit
// at the polygon's base level), otherwise 2..6.
func latticeRect(t *rapid.T, label string, face int, touch bool, base int) []gen.P {
	level := rapid.IntRange(2, 6).Draw(t, label+".level")
	if base+1 <= 30 && base >= 1 && rapid.Bool().Draw(t, label+".atbase") {
		level = base + 1
	}
	size := 1 << uint(level)
	lo, hi := 1, size-1
	if touch {
		lo, hi = 0, size
	}
	span := func(l string) (int, int) {
		w := rapid.IntRange(1, minI(hi-lo, 12)).Draw(t, l+".w")
		switch rapid.IntRange(0, 3).Draw(t, l+".at") {
		case 0:
			return lo, lo + w
		case 1:
			return hi - w, hi
		}
		a := rapid.IntRange(lo, hi-w).Draw(t, l+".a")
		return a, a + w
	}
	i0, i1 := span(label + ".i")
	j0, j1 := span(label + ".j")
	return gen.LatticeRect{Face: face, Level: level, I0: i0, J0: j0, I1: i1, J1: j1}.Vertices()
}

func genPoly(t *rapid.T) polyCase {
	c := polyCase{}
	c.Reuse = rapid.SampledFrom([]int{0, 0, 0, 1, 2}).Draw(t, "reuse")
	c.Slow = rapid.IntRange(0, 4).Draw(t, "slow") == 0
	special := rapid.IntRange(0, 39).Draw(t, "special")
	switch {
	// (rapid favours the ends of an integer range, so the rare families sit in the middle)
	case special == 17:
		c.Build, c.Kind = 3, "empty"
	case special == 23:
		c.Build, c.Kind = 4, "full"
	case special == 19:
		// More than 128 concentric squares on cell centres: the polygon is written in the
		// compressed format and carries nesting depths that need a second varint byte
		// (>= 128) or do not fit a byte at all (>= 256). Seeded change C09-r121.
		face := rapid.IntRange(0, 5).Draw(t, "dn.face")
		level := rapid.SampledFrom([]int{10, 14, 30}).Draw(t, "dn.level")
		n := rapid.SampledFrom([]int{129, 130, 140, 200, 257, 300}).Draw(t, "dn.n")
		mid := 1 << uint(level-1)
		ci := mid + rapid.IntRange(-100, 100).Draw(t, "dn.ci")
		cj := mid + rapid.IntRange(-100, 100).Draw(t, "dn.cj")
		order := rapid.Permutation(seq(n)).Draw(t, "dn.order")
		for _, k := range order {
			i0, i1, j0, j1 := ci-k-1, ci+k+1, cj-k-1, cj+k+1
			var v []gen.P
			for _, ij := range [][2]int{{i0, j0}, {i1, j0}, {i1, j1}, {i0, j1}} {
				v = append(v, gen.FromPt(cellCentre(face, level, ij[0], ij[1])))
			}
			c.Loops = append(c.Loops, v)
		}
		c.Build = rapid.SampledFrom([]int{0, 0, 1, 2}).Draw(t, "build")
		c.Kind = "deep-nest"
		if n >= 256 {
			c.Kind = "deep-nest>=256"
		}
	case special == 11 || special == 29:
		// three mutually adjacent face centres (level-0 cell centres), zeros written as +0 or −0
		f := rapid.Permutation([]int{0, 1, 2}).Draw(t, "fperm")
		sgn := [3]int{rapid.IntRange(0, 1).Draw(t, "s0"), rapid.IntRange(0, 1).Draw(t, "s1"), rapid.IntRange(0, 1).Draw(t, "s2")}
		var v []gen.P
		for _, a := range f {
			p := [3]float64{}
			for k := 0; k < 3; k++ {
				if rapid.Bool().Draw(t, "negzero") {
					p[k] = math.Copysign(0, -1)
				}
			}
			p[a] = float64(1 - 2*sgn[a])
			v = append(v, gen.P{p[0], p[1], p[2]})
		}
		c.Loops, c.Kind = [][]gen.P{v}, "face-centres"
	default:
		prof, pname := drawProfile(t)
		sys := rapid.SampledFrom([]int{0, 0, 1, 2}).Draw(t, "slots")
		ss := slots(sys)
		ncomp := rapid.SampledFrom([]int{1, 1, 1, 1, 2, 2, 3, 4, 6, 8, 12}).Draw(t, "ncomp")
		ncomp = minI(ncomp, len(ss.centres))
		perm := rapid.Permutation(seq(len(ss.centres))).Draw(t, "slotperm")
		budget := 12 * maxVerts()
		if ncomp > 1 {
			budget = 6 * maxVerts()
		}
		touchUsed := false
		kinds := map[string]bool{}
		for k := 0; k < ncomp; k++ {
			label := fmt.Sprintf("c%d", k)
			slot := perm[k]
			centre, rad := ss.centres[slot], ss.radius
			ctype := 0
			if sys == 0 {
				ctype = rapid.SampledFrom([]int{0, 0, 0, 0, 1, 2}).Draw(t, label+".type")
			}
			switch ctype {
			case 1:
				c.Loops = append(c.Loops, centreRect(t, label, slot, prof))
				kinds["centre-rect"] = true
			case 2:
				touch := !touchUsed && rapid.Bool().Draw(t, label+".touch")
				touchUsed = touchUsed || touch
				c.Loops = append(c.Loops, latticeRect(t, label, slot, touch, prof.base))
				kinds["lattice"] = true
			default:
				if ncomp == 1 && rapid.Bool().Draw(t, label+".free") {
					centre, rad = gen.SpecialCenter(t, label+".fc"), 56*math.Pi/180
				} else {
					// move the centre inside the slot by up to 30 % of its radius
					x, y := frameOf(centre)
					off := rad * 0.3 * rapid.Float64Range(0, 1).Draw(t, label+".off")
					az := rapid.Float64Range(0, 2*math.Pi).Draw(t, label+".offaz")
					d := x.Mul(math.Cos(az)).Add(y.Mul(math.Sin(az)))
					centre = s2.Point{Vector: centre.Mul(math.Cos(off)).Add(d.Mul(math.Sin(off))).Normalize()}
					rad *= 0.7
				}
				rings := ringsComponent(t, label, centre, math.Tan(rad), prof, maxI(8, budget/(ncomp-k)))
				for _, r := range rings {
					budget -= len(r)
				}
				c.Loops = append(c.Loops, rings...)
				kinds["rings"] = true
			}
		}
		c.Build = rapid.SampledFrom([]int{0, 0, 0, 1, 2}).Draw(t, "build")
		if len(c.Loops) == 1 && rapid.IntRange(0, 3).Draw(t, "rev1") == 0 {
			c.Loops[0] = reverse(c.Loops[0])
			c.Build = 0
		}
		var ks []string
		for k := range kinds {
			ks = append(ks, k)
		}
		sort.Strings(ks)
		c.Kind = fmt.Sprintf("%s/%v", pname, ks)
	}
	var all []gen.P
	for i, l := range c.Loops {
		// start the loop at a drawn vertex (same loop, different first vertex)
		if k := rapid.IntRange(0, len(l)-1).Draw(t, "rot"); k > 0 {
			c.Loops[i] = append(append([]gen.P{}, l[k:]...), l[:k]...)
		}
		all = append(all, l...)
	}
	if len(all) == 0 {
		all = []gen.P{{1, 0, 0}, {0, 0, 1}, {0, 0, -1}}
	}
	c.Probes = gen.ProbePoints(t, "probe", all, 24)
	for range c.Probes {
		c.ProbeLv = append(c.ProbeLv, rapid.IntRange(0, 30).Draw(t, "plv"))
	}
	return c
}

func seq(n int) []int {
	out := make([]int, n)
	for i := range out {
		out[i] = i
	}
	return out
}

// ------------------------------------------------------------------ polygon check

// buildPolygon constructs the polygon of a case. For Build==1 the loops at odd
// nesting depth are handed over clockwise (depth taken from a first
// PolygonFromLoops pass over fresh loop objects).
func buildPolygon(c polyCase) *s2.Polygon {
	mk := func() []*s2.Loop {
		ls := make([]*s2.Loop, len(c.Loops))
		for i, v := range c.Loops {
			ls[i] = s2.LoopFromPoints(gen.Pts(v))
		}
		return ls
	}
	switch c.Build {
	case 3:
		return s2.PolygonFromLoops(nil)
	case 4:
		return s2.FullPolygon()
	case 1:
		p0 := s2.PolygonFromLoops(mk())
		var ls []*s2.Loop
		for _, l := range p0.Loops() {
			v := append([]s2.Point{}, l.Vertices()...)
			if l.IsHole() {
				for i, j := 0, len(v)-1; i < j; i, j = i+1, j-1 {
					v[i], v[j] = v[j], v[i]
				}
			}
			ls = append(ls, s2.LoopFromPoints(v))
		}
		return s2.PolygonFromOrientedLoops(ls)
	case 2:
		p := s2.PolygonFromLoops(mk())
		p.Invert()
		return p
	}
	return s2.PolygonFromLoops(mk())
}

func depthOf(p *s2.Polygon, k int) int {
	d := 0
	for {
		par, ok := p.Parent(k)
		if !ok || d > p.NumLoops() {
			return d
		}
		k = par
		d++
	}
}

// comparePolygons returns "" if every observable of a and b agrees.
func comparePolygons(a, b *s2.Polygon) (string, string) {
	if a.NumLoops() != b.NumLoops() {
		return fmt.Sprintf("NumLoops %d vs %d", a.NumLoops(), b.NumLoops()), "loops"
	}
	if a.IsEmpty() != b.IsEmpty() || a.IsFull() != b.IsFull() {
		return "IsEmpty/IsFull differ", "loops"
	}
	for k := 0; k < a.NumLoops(); k++ {
		la, lb := a.Loop(k), b.Loop(k)
		if la.NumVertices() != lb.NumVertices() {
			return fmt.Sprintf("loop %d: NumVertices %d vs %d", k, la.NumVertices(), lb.NumVertices()), "loops"
		}
		for i := 0; i < la.NumVertices(); i++ {
			if !ptBitsEq(la.Vertex(i), lb.Vertex(i)) {
				f := "vertex-bits"
				if la.Vertex(i) == lb.Vertex(i) {
					f = "vertex-zero-sign"
				}
				return fmt.Sprintf("loop %d vertex %d: %v %s decoded as %v %s (centre level of original: %d)", k, i,
					la.Vertex(i), ptHex(la.Vertex(i)), lb.Vertex(i), ptHex(lb.Vertex(i)), numericCentreLevel(la.Vertex(i))), f
			}
		}
		if la.IsHole() != lb.IsHole() || la.Sign() != lb.Sign() {
			return fmt.Sprintf("loop %d: IsHole %v vs %v", k, la.IsHole(), lb.IsHole()), "depth"
		}
		if da, db := depthOf(a, k), depthOf(b, k); da != db {
			return fmt.Sprintf("loop %d: depth %d vs %d", k, da, db), "depth"
		}
		pa, oka := a.Parent(k)
		pb, okb := b.Parent(k)
		if pa != pb || oka != okb || a.LastDescendant(k) != b.LastDescendant(k) {
			return fmt.Sprintf("loop %d: Parent/LastDescendant differ", k), "depth"
		}
		if la.ContainsOrigin() != lb.ContainsOrigin() {
			return fmt.Sprintf("loop %d: ContainsOrigin %v vs %v", k, la.ContainsOrigin(), lb.ContainsOrigin()), "origin"
		}
		if !rectBitsEq(la.RectBound(), lb.RectBound()) {
			return fmt.Sprintf("loop %d (%d vertices): RectBound %v vs %v", k, la.NumVertices(), la.RectBound(), lb.RectBound()), "loop-bound"
		}
		if la.CapBound() != lb.CapBound() {
			return fmt.Sprintf("loop %d: CapBound differs", k), "loop-bound"
		}
		if la.IsEmpty() != lb.IsEmpty() || la.IsFull() != lb.IsFull() || la.NumEdges() != lb.NumEdges() {
			return fmt.Sprintf("loop %d: IsEmpty/IsFull/NumEdges differ", k), "loops"
		}
	}
	if !rectBitsEq(a.RectBound(), b.RectBound()) {
		return fmt.Sprintf("polygon RectBound %v vs %v", a.RectBound(), b.RectBound()), "polygon-bound"
	}
	if a.CapBound() != b.CapBound() {
		return "polygon CapBound differs", "polygon-bound"
	}
	if a.NumEdges() != b.NumEdges() || a.NumChains() != b.NumChains() || a.Dimension() != b.Dimension() {
		return fmt.Sprintf("NumEdges %d vs %d, NumChains %d vs %d", a.NumEdges(), b.NumEdges(), a.NumChains(), b.NumChains()), "shape"
	}
	for i := 0; i < a.NumChains(); i++ {
		if a.Chain(i) != b.Chain(i) {
			return fmt.Sprintf("Chain(%d) %v vs %v", i, a.Chain(i), b.Chain(i)), "shape"
		}
	}
	for e := 0; e < a.NumEdges(); e++ {
		ea, eb := a.Edge(e), b.Edge(e)
		if !ptBitsEq(ea.V0, eb.V0) || !ptBitsEq(ea.V1, eb.V1) {
			return fmt.Sprintf("Edge(%d) differs", e), "shape"
		}
		if a.ChainPosition(e) != b.ChainPosition(e) {
			return fmt.Sprintf("ChainPosition(%d) differs", e), "shape"
		}
	}
	ra, rb := a.ReferencePoint(), b.ReferencePoint()
	if ra.Contained != rb.Contained || !ptBitsEq(ra.Point, rb.Point) {
		return fmt.Sprintf("ReferencePoint %v vs %v", ra, rb), "shape"
	}
	if !bitsEq(a.Area(), b.Area()) {
		return fmt.Sprintf("Area %v vs %v", a.Area(), b.Area()), "measure"
	}
	if ca, cb := a.Centroid(), b.Centroid(); !ptBitsEq(ca, cb) {
		return fmt.Sprintf("Centroid %v vs %v", ca, cb), "measure"
	}
	return "", ""
}

var (
	reuseCompressed []byte
	reuseLossless   []byte
)

func init() {
	c := s2.PointFromCoords(0.3, -0.7, 0.5)
	// 70 level-20 cell centres around c: compressed format, bound encoded
	var v []s2.Point
	x, y := frameOf(c)
	for i := 0; i < 70; i++ {
		az := float64(i) * 2 * math.Pi / 70
		p := s2.Point{Vector: c.Add(x.Mul(0.1 * math.Cos(az))).Add(y.Mul(0.1 * math.Sin(az))).Normalize()}
		v = append(v, leafOf(p).Parent(20).Point())
	}
	reuseCompressed, _ = enc(s2.PolygonFromLoops([]*s2.Loop{s2.LoopFromPoints(v)}))
	var ls []*s2.Loop
	for k := 0; k < 14; k++ { // > 12 loops: cumulativeEdges in use
		cc := s2.PointFromCoords(1, 0.1*float64(k-7), 0.3)
		ls = append(ls, s2.RegularLoop(cc, 0.01, 5))
	}
	reuseLossless, _ = enc(s2.PolygonFromLoops(ls))
	if reuseCompressed[0] != 4 || reuseLossless[0] != 1 {
		panic("c09: receiver-reuse seeds have unexpected formats")
	}
}

func checkPoly(c polyCase) ev.Outcome {
	o := ev.Outcome{Counts: map[string]int{}}
	for _, l := range c.Loops {
		for _, p := range l {
			if !gen.Unit(p.Pt()) {
				o.Skip = true
				return o
			}
		}
	}
	p := buildPolygon(c)
	if err := p.Validate(); err != nil {
		o.Skip = true
		return o
	}
	// independent census of the vertices
	nv, snappedAny, faceChanges := 0, 0, 0
	hist := map[int]int{}
	for _, l := range p.Loops() {
		prevFace := -1
		for i, v := range l.Vertices() {
			nv++
			lv := numericCentreLevel(v)
			if lv >= 0 {
				hist[lv]++
				snappedAny++
			}
			f := leafOf(v).Face()
			if i > 0 && f != prevFace {
				faceChanges++
			}
			prevFace = f
		}
	}
	bestLevel, best := 0, 0
	for l := 0; l <= 30; l++ {
		if hist[l] > best {
			bestLevel, best = l, hist[l]
		}
	}

	e1, err := enc(p)
	if err != nil {
		o.Err = "Encode: " + err.Error()
		return o
	}
	e1b, _ := enc(p)
	if !bytes.Equal(e1, e1b) {
		o.Err = "encoding the same polygon twice gives different bytes"
		o.Finding = "nondeterministic"
		return o
	}
	if p2 := buildPolygon(c); true {
		e2, _ := enc(p2)
		if !bytes.Equal(e1, e2) {
			o.Err = "two polygons built from the same data encode differently"
			o.Finding = "nondeterministic"
			return o
		}
	}
	if len(e1) == 0 || (e1[0] != 1 && e1[0] != 4) {
		o.Err = fmt.Sprintf("unknown version byte in % x", e1[:minI(8, len(e1))])
		return o
	}
	version := int(e1[0])
	offCentre := nv - best
	if version == 4 && nv > 0 {
		if int(e1[1]) != bestLevel {
			o.Counts["snap-level-differs-from-census"]++
		}
		offCentre = nv - hist[int(e1[1])]
	}
	wantCompressed := nv == 0 || 13*(nv-best) < 10*nv
	if wantCompressed != (version == 4) {
		o.Counts["format-differs-from-documented-rule"]++
	}
	o.Counts[fmt.Sprintf("format-v%d", version)]++
	if version == 4 && nv > 0 {
		for _, l := range p.Loops() {
			if v := l.Vertex(0); onCubeEdge(v) {
				o.Counts["compressed:first-vertex-on-face-boundary"]++
				if e1[1]%8 == 0 {
					o.Counts["compressed:first-vertex-on-face-boundary,level%8==0"]++
				}
				break
			}
		}
	}

	var q s2.Polygon
	switch c.Reuse {
	case 1:
		if err := q.Decode(bytes.NewReader(reuseCompressed)); err != nil {
			o.Err = "harness: seed decode: " + err.Error()
			return o
		}
	case 2:
		if err := q.Decode(bytes.NewReader(reuseLossless)); err != nil {
			o.Err = "harness: seed decode: " + err.Error()
			return o
		}
	}
	left, err := decodeFrom(e1, c.Slow, q.Decode)
	if err != nil {
		o.Err = fmt.Sprintf("Decode of an encoding fails (version %d, %d loops, %d vertices): %v", version, p.NumLoops(), nv, err)
		o.Finding = "decode-error"
		return o
	}
	if !c.Slow && left != len(sentinel) {
		o.Err = fmt.Sprintf("Decode consumed %d bytes of a %d-byte encoding", len(e1)+len(sentinel)-left, len(e1))
		o.Finding = "length"
		return o
	}

	class := fmt.Sprintf("v%d", version)
	switch {
	case nv == 0 || c.Build == 4:
		class += "/special"
	case snappedAny == 0:
		class += "/no-centres"
	case offCentre == 0:
		class += "/all-centres"
	default:
		class += "/some-off-centre"
	}
	if faceChanges > 0 {
		class += "/face-change"
	}
	if p.NumLoops() > 12 {
		class += "/>12loops"
	}
	if p.NumLoops() > 128 {
		class += "/depth>=128"
	}
	o.Class = class
	if version == 4 {
		o.NonTrivial = offCentre >= 1 && faceChanges >= 1 && nv > 1
	} else {
		o.NonTrivial = snappedAny >= 1
	}
	big := 0
	for _, l := range p.Loops() {
		if l.NumVertices() >= 64 {
			big++
		}
	}
	if big > 0 {
		o.Counts["loops>=64"] += big
	}
	o.Counts["loops<64"] += p.NumLoops() - big
	if len(hist) > 1 {
		o.Counts["cases-with-mixed-levels"]++
	}
	o.Counts["reuse-"+fmt.Sprint(c.Reuse)]++

	if msg, f := comparePolygons(p, &q); msg != "" {
		o.Err = fmt.Sprintf("after round trip (format v%d, kind %s, build %d, reuse %d): %s", version, c.Kind, c.Build, c.Reuse, msg)
		o.Finding = f
		return o
	}
	// queries
	for i, pp := range c.Probes {
		pt := pp.Pt()
		if a, b := q3(func() bool { return p.ContainsPoint(pt) }), q3(func() bool { return q.ContainsPoint(pt) }); differ(&o, a, b) {
			o.Err = fmt.Sprintf("ContainsPoint(%v): original %d, decoded %d (2 = panic)", pt, a, b)
			o.Finding = "query"
			return o
		}
		if p.NumLoops() > 0 {
			k := i % p.NumLoops()
			if a, b := q3(func() bool { return p.Loop(k).ContainsPoint(pt) }), q3(func() bool { return q.Loop(k).ContainsPoint(pt) }); differ(&o, a, b) {
				o.Err = fmt.Sprintf("Loop(%d).ContainsPoint(%v): original %d, decoded %d", k, pt, a, b)
				o.Finding = "query"
				return o
			}
		}
		cell := s2.CellFromCellID(leafOf(pt).Parent(c.ProbeLv[i]))
		if a, b := q3(func() bool { return p.ContainsCell(cell) }), q3(func() bool { return q.ContainsCell(cell) }); differ(&o, a, b) {
			o.Err = fmt.Sprintf("ContainsCell(%v): original %d, decoded %d", cell.ID(), a, b)
			o.Finding = "query"
			return o
		}
		if a, b := q3(func() bool { return p.IntersectsCell(cell) }), q3(func() bool { return q.IntersectsCell(cell) }); differ(&o, a, b) {
			o.Err = fmt.Sprintf("IntersectsCell(%v): original %d, decoded %d", cell.ID(), a, b)
			o.Finding = "query"
			return o
		}
	}
	if nv > 0 && nv <= 400 && c.Build != 4 {
		pp := q3(func() bool { return p.Contains(p) })
		pq := q3(func() bool { return p.Contains(&q) })
		qp := q3(func() bool { return q.Contains(p) })
		if pp != pq || pp != qp {
			o.Err = fmt.Sprintf("Contains: p⊇p %d, p⊇decoded %d, decoded⊇p %d", pp, pq, qp)
			o.Finding = "query"
			return o
		}
		ip := q3(func() bool { return p.Intersects(p) })
		iq := q3(func() bool { return p.Intersects(&q) })
		qi := q3(func() bool { return q.Intersects(p) })
		if ip != iq || ip != qi {
			o.Err = fmt.Sprintf("Intersects: p∩p %d, p∩decoded %d, decoded∩p %d", ip, iq, qi)
			o.Finding = "query"
			return o
		}
	}
	// encoding again: the decoded value, and the original after it answered queries
	e3, err := enc(&q)
	if err != nil || !bytes.Equal(e1, e3) {
		o.Err = fmt.Sprintf("Encode(Decode(Encode(p))) differs from Encode(p) (err %v; %d vs %d bytes, first difference at %d)", err, len(e3), len(e1), firstDiff(e1, e3))
		o.Finding = "reencode"
		return o
	}
	if e4, _ := enc(p); !bytes.Equal(e1, e4) {
		o.Err = "encoding changed after the polygon answered queries"
		o.Finding = "nondeterministic"
		return o
	}
	return o
}

// onCubeEdge: the two largest |coordinates| are equal (u or v is ±1 on p's face).
func onCubeEdge(p s2.Point) bool {
	a := []float64{math.Abs(p.X), math.Abs(p.Y), math.Abs(p.Z)}
	sort.Float64s(a)
	return a[1] == a[2]
}

func firstDiff(a, b []byte) int {
	for i := 0; i < len(a) && i < len(b); i++ {
		if a[i] != b[i] {
			return i
		}
	}
	return minI(len(a), len(b))
}

// ------------------------------------------------------------------ loops

type loopCase struct {
	Rings   [][]gen.P // one ring: a plain loop; several: a nested polygon from which loop Pick is taken (depth > 0 possible)
	Pick    int
	Special int // 0 none, 1 empty loop, 2 full loop
	Invert  bool
	Probes  []gen.P
	ProbeLv []int
	Slow    bool
	Reuse   bool
	Kind    string
}

func genLoop(t *rapid.T) loopCase {
	c := loopCase{Slow: rapid.IntRange(0, 4).Draw(t, "slow") == 0, Reuse: rapid.IntRange(0, 3).Draw(t, "reuse") == 0}
	switch rapid.IntRange(0, 19).Draw(t, "fam") {
	case 13:
		c.Special, c.Kind = 1+rapid.IntRange(0, 1).Draw(t, "which"), "special"
	case 0, 1, 2, 3, 4, 5:
		rp := gen.DrawRings(t, "rings", 4, maxVerts())
		c.Rings, c.Kind = rp.Rings, "rings"
		c.Pick = rapid.IntRange(0, len(rp.Rings)-1).Draw(t, "pick")
	case 6, 7, 8, 9, 10, 11:
		prof, name := drawProfile(t)
		ctr := gen.SpecialCenter(t, "c")
		c.Rings = ringsComponent(t, "r", ctr, math.Tan(56*math.Pi/180), prof, 4*maxVerts())
		c.Pick = rapid.IntRange(0, len(c.Rings)-1).Draw(t, "pick")
		c.Kind = "snapped-" + name
	default:
		l := gen.Loop(t, "l", 2*maxVerts())
		c.Rings, c.Kind = [][]gen.P{l.V}, l.Kind
	}
	c.Invert = rapid.IntRange(0, 3).Draw(t, "invert") == 0
	var all []gen.P
	for _, r := range c.Rings {
		all = append(all, r...)
	}
	if len(all) == 0 {
		all = []gen.P{{0, 0, 1}, {0, 0, -1}, {1, 0, 0}}
	}
	c.Probes = gen.ProbePoints(t, "probe", all, 16)
	for range c.Probes {
		c.ProbeLv = append(c.ProbeLv, rapid.IntRange(0, 30).Draw(t, "plv"))
	}
	return c
}

func buildLoop(c loopCase) *s2.Loop {
	var l *s2.Loop
	switch {
	case c.Special == 1:
		l = s2.EmptyLoop()
	case c.Special == 2:
		l = s2.FullLoop()
	case len(c.Rings) == 1:
		l = s2.LoopFromPoints(gen.Pts(c.Rings[0]))
	default:
		var ls []*s2.Loop
		for _, r := range c.Rings {
			ls = append(ls, s2.LoopFromPoints(gen.Pts(r)))
		}
		p := s2.PolygonFromLoops(ls)
		l = p.Loop(c.Pick % p.NumLoops())
	}
	if c.Invert {
		l.Invert()
	}
	return l
}

func checkLoop(c loopCase) ev.Outcome {
	o := ev.Outcome{Counts: map[string]int{}}
	for _, r := range c.Rings {
		for _, p := range r {
			if !gen.Unit(p.Pt()) {
				o.Skip = true
				return o
			}
		}
	}
	l := buildLoop(c)
	if err := l.Validate(); err != nil {
		o.Skip = true
		return o
	}
	e1, err := enc(l)
	if err != nil {
		o.Err = "Encode: " + err.Error()
		return o
	}
	if e2, _ := enc(buildLoop(c)); !bytes.Equal(e1, e2) {
		o.Err = "two loops built from the same data encode differently"
		o.Finding = "nondeterministic"
		return o
	}
	var d s2.Loop
	if c.Reuse {
		if err := d.Decode(bytes.NewReader(func() []byte { b, _ := enc(s2.RegularLoop(s2.PointFromCoords(0, 1, 0), 0.3, 40)); return b }())); err != nil {
			o.Err = "harness: " + err.Error()
			return o
		}
	}
	left, err := decodeFrom(e1, c.Slow, d.Decode)
	if err != nil {
		o.Err = "Decode of an encoding fails: " + err.Error()
		o.Finding = "decode-error"
		return o
	}
	if !c.Slow && left != len(sentinel) {
		o.Err = fmt.Sprintf("Decode consumed %d bytes of a %d-byte encoding", len(e1)+len(sentinel)-left, len(e1))
		o.Finding = "length"
		return o
	}
	o.Class = c.Kind
	if l.IsHole() {
		o.Class += "/hole"
	}
	if c.Invert {
		o.Class += "/inverted"
	}
	o.NonTrivial = l.NumVertices() >= 3 && (l.IsHole() || c.Invert || l.ContainsOrigin())
	if l.NumVertices() != d.NumVertices() {
		o.Err = fmt.Sprintf("NumVertices %d vs %d", l.NumVertices(), d.NumVertices())
		return o
	}
	for i := 0; i < l.NumVertices(); i++ {
		if !ptBitsEq(l.Vertex(i), d.Vertex(i)) {
			o.Err = fmt.Sprintf("vertex %d: %s decoded as %s", i, ptHex(l.Vertex(i)), ptHex(d.Vertex(i)))
			o.Finding = "vertex-bits"
			return o
		}
	}
	switch {
	case l.IsHole() != d.IsHole() || l.Sign() != d.Sign():
		o.Err, o.Finding = fmt.Sprintf("IsHole %v vs %v", l.IsHole(), d.IsHole()), "depth"
	case l.ContainsOrigin() != d.ContainsOrigin():
		o.Err, o.Finding = fmt.Sprintf("ContainsOrigin %v vs %v", l.ContainsOrigin(), d.ContainsOrigin()), "origin"
	case !rectBitsEq(l.RectBound(), d.RectBound()):
		o.Err, o.Finding = fmt.Sprintf("RectBound %v vs %v", l.RectBound(), d.RectBound()), "loop-bound"
	case l.CapBound() != d.CapBound():
		o.Err, o.Finding = "CapBound differs", "loop-bound"
	case l.IsEmpty() != d.IsEmpty() || l.IsFull() != d.IsFull() || l.NumEdges() != d.NumEdges() || l.NumChains() != d.NumChains():
		o.Err, o.Finding = "IsEmpty/IsFull/NumEdges/NumChains differ", "shape"
	case !l.Equal(&d) || !d.Equal(l) || !l.BoundaryEqual(&d):
		o.Err, o.Finding = "Equal/BoundaryEqual(original, decoded) is false", "shape"
	case l.ReferencePoint() != d.ReferencePoint():
		o.Err, o.Finding = "ReferencePoint differs", "shape"
	case !bitsEq(l.Area(), d.Area()) || !bitsEq(l.TurningAngle(), d.TurningAngle()) || !ptBitsEq(l.Centroid(), d.Centroid()):
		o.Err, o.Finding = "Area/TurningAngle/Centroid differ", "measure"
	}
	if o.Err != "" {
		return o
	}
	for e := 0; e < l.NumEdges(); e++ {
		if l.Edge(e) != d.Edge(e) {
			o.Err, o.Finding = fmt.Sprintf("Edge(%d) differs", e), "shape"
			return o
		}
	}
	for i, pp := range c.Probes {
		pt := pp.Pt()
		if a, b := q3(func() bool { return l.ContainsPoint(pt) }), q3(func() bool { return d.ContainsPoint(pt) }); a != b {
			o.Err, o.Finding = fmt.Sprintf("ContainsPoint(%v): original %d decoded %d", pt, a, b), "query"
			return o
		}
		cell := s2.CellFromCellID(leafOf(pt).Parent(c.ProbeLv[i]))
		if a, b := q3(func() bool { return l.ContainsCell(cell) }), q3(func() bool { return d.ContainsCell(cell) }); a != b {
			o.Err, o.Finding = fmt.Sprintf("ContainsCell(%v): original %d decoded %d", cell.ID(), a, b), "query"
			return o
		}
		if a, b := q3(func() bool { return l.IntersectsCell(cell) }), q3(func() bool { return d.IntersectsCell(cell) }); a != b {
			o.Err, o.Finding = fmt.Sprintf("IntersectsCell(%v): original %d decoded %d", cell.ID(), a, b), "query"
			return o
		}
	}
	if l.NumVertices() >= 3 && l.NumVertices() <= 300 {
		if a, b, cc := q3(func() bool { return l.Contains(l) }), q3(func() bool { return l.Contains(&d) }), q3(func() bool { return d.Contains(l) }); a != b || a != cc {
			o.Err, o.Finding = fmt.Sprintf("Contains: l⊇l %d, l⊇decoded %d, decoded⊇l %d", a, b, cc), "query"
			return o
		}
	}
	if e3, err := enc(&d); err != nil || !bytes.Equal(e1, e3) {
		o.Err = fmt.Sprintf("Encode(Decode(Encode(l))) differs from Encode(l) (first difference at byte %d of %d)", firstDiff(e1, e3), len(e1))
		o.Finding = "reencode"
		return o
	}
	if e4, _ := enc(l); !bytes.Equal(e1, e4) {
		o.Err, o.Finding = "encoding changed after the loop answered queries", "nondeterministic"
	}
	return o
}

// ------------------------------------------------------------------ plain values

type valueCase struct {
	Kind string   // point | cap | rect | cellid | cell | cellunion | polyline
	F    []uint64 // float64 bit patterns
	IDs  []uint64
	Slow bool
}

var specialFloats = []float64{0, math.Copysign(0, -1), 1, -1, 5e-324, -5e-324, 2.2250738585072014e-308, 1.7976931348623157e308,
	math.Pi, -math.Pi, math.Pi / 2, -math.Pi / 2, 0x1p-52, 1 - 0x1p-53, 4, 2, -4, 1e-300, 0.1}

func anyFloat(t *rapid.T, label string) float64 {
	switch rapid.IntRange(0, 3).Draw(t, label+".fk") {
	case 0:
		return rapid.SampledFrom(specialFloats).Draw(t, label+".sp")
	case 1:
		// any finite bit pattern
		b := rapid.Uint64().Draw(t, label+".bits")
		f := math.Float64frombits(b)
		if math.IsNaN(f) || math.IsInf(f, 0) {
			return math.Float64frombits(b &^ (1 << 62))
		}
		return f
	default:
		return rapid.Float64Range(-4, 4).Draw(t, label+".f")
	}
}

func ptBits(p s2.Point) []uint64 {
	return []uint64{math.Float64bits(p.X), math.Float64bits(p.Y), math.Float64bits(p.Z)}
}

func genValue(t *rapid.T) valueCase {
	c := valueCase{Slow: rapid.IntRange(0, 4).Draw(t, "slow") == 0}
	c.Kind = rapid.SampledFrom([]string{"point", "cap", "rect", "cellid", "cell", "cellunion", "cellunion", "polyline", "polyline"}).Draw(t, "kind")
	pt := func(label string) s2.Point {
		if rapid.IntRange(0, 4).Draw(t, label+".raw") == 0 {
			return s2.Point{Vector: r3.Vector{X: anyFloat(t, label+".x"), Y: anyFloat(t, label+".y"), Z: anyFloat(t, label+".z")}}
		}
		return gen.Base(t, label)
	}
	switch c.Kind {
	case "point":
		c.F = ptBits(pt("p"))
	case "cap":
		ctr := pt("c")
		var r float64
		switch rapid.IntRange(0, 5).Draw(t, "rk") {
		case 0:
			r = -1 // empty
		case 1:
			r = 4 // full
		case 2:
			r = float64(s1.ChordAngleFromAngle(s1.Angle(rapid.Float64Range(0, math.Pi).Draw(t, "ang"))))
		default:
			r = anyFloat(t, "r")
		}
		c.F = append(ptBits(ctr), math.Float64bits(r))
	case "rect":
		switch rapid.IntRange(0, 5).Draw(t, "rk") {
		case 0:
			e := s2.EmptyRect()
			c.F = []uint64{math.Float64bits(e.Lat.Lo), math.Float64bits(e.Lat.Hi), math.Float64bits(e.Lng.Lo), math.Float64bits(e.Lng.Hi)}
		case 1:
			e := s2.FullRect()
			c.F = []uint64{math.Float64bits(e.Lat.Lo), math.Float64bits(e.Lat.Hi), math.Float64bits(e.Lng.Lo), math.Float64bits(e.Lng.Hi)}
		case 2:
			for i := 0; i < 4; i++ {
				c.F = append(c.F, math.Float64bits(anyFloat(t, fmt.Sprintf("r%d", i))))
			}
		default:
			la := rapid.Float64Range(-math.Pi/2, math.Pi/2).Draw(t, "la")
			lb := rapid.Float64Range(-math.Pi/2, math.Pi/2).Draw(t, "lb")
			if la > lb {
				la, lb = lb, la
			}
			// longitude interval may be inverted (crosses the antimeridian)
			ga := rapid.Float64Range(-math.Pi, math.Pi).Draw(t, "ga")
			gb := rapid.Float64Range(-math.Pi, math.Pi).Draw(t, "gb")
			c.F = []uint64{math.Float64bits(la), math.Float64bits(lb), math.Float64bits(ga), math.Float64bits(gb)}
		}
	case "cellid":
		if rapid.IntRange(0, 3).Draw(t, "raw") == 0 {
			c.IDs = []uint64{rapid.Uint64().Draw(t, "id")}
		} else {
			c.IDs = []uint64{uint64(gen.CellID(t, "id"))}
		}
	case "cell":
		c.IDs = []uint64{uint64(gen.CellID(t, "id"))}
	case "cellunion":
		n := rapid.SampledFrom([]int{0, 1, 2, 3, 5, 17, 64, 300}).Draw(t, "n")
		mode := rapid.IntRange(0, 3).Draw(t, "mode")
		base := gen.CellID(t, "base")
		for i := 0; i < n; i++ {
			var id s2.CellID
			switch {
			case mode == 0 && i > 0:
				id = s2.CellID(c.IDs[i-1]).Next() // a run of siblings / neighbours (normalisable)
				if !id.IsValid() {
					id = base
				}
			case mode == 1:
				lv := rapid.IntRange(0, 30).Draw(t, "lv")
				id = base.Parent(minI(lv, base.Level()))
				if lv > base.Level() {
					id = base.ChildBeginAtLevel(lv)
				}
			default:
				id = gen.CellID(t, "cid")
			}
			c.IDs = append(c.IDs, uint64(id))
		}
		if mode == 3 {
			var cu s2.CellUnion
			for _, id := range c.IDs {
				cu = append(cu, s2.CellID(id))
			}
			cu.Normalize()
			c.IDs = c.IDs[:0]
			for _, id := range cu {
				c.IDs = append(c.IDs, uint64(id))
			}
		}
	default:
		n := rapid.SampledFrom([]int{0, 1, 2, 3, 7, 40, 200}).Draw(t, "n")
		var prev []s2.Point
		for i := 0; i < n; i++ {
			var p s2.Point
			if i == 0 || rapid.Bool().Draw(t, "fresh") {
				p = pt("v")
			} else {
				p = gen.Related(t, "v", prev)
			}
			prev = append(prev, p)
			c.F = append(c.F, ptBits(p)...)
		}
	}
	return c
}

func f64(b uint64) float64 { return math.Float64frombits(b) }

func checkValue(c valueCase) ev.Outcome {
	o := ev.Outcome{Class: c.Kind}
	for _, b := range c.F {
		if f := f64(b); math.IsNaN(f) || math.IsInf(f, 0) {
			o.Skip = true
			return o
		}
	}
	fail := func(format string, a ...any) ev.Outcome {
		o.Err = c.Kind + ": " + fmt.Sprintf(format, a...)
		o.Finding = "value-" + c.Kind
		return o
	}
	rt := func(v encodable, dec func(io.Reader) error, again func() encodable) (string, []byte) {
		e1, err := enc(v)
		if err != nil {
			return "Encode: " + err.Error(), nil
		}
		if e2, _ := enc(v); !bytes.Equal(e1, e2) {
			return "encoding twice gives different bytes", nil
		}
		left, err := decodeFrom(e1, c.Slow, dec)
		if err != nil {
			return "Decode of an encoding fails: " + err.Error(), nil
		}
		if !c.Slow && left != len(sentinel) {
			return fmt.Sprintf("Decode consumed %d bytes of a %d-byte encoding", len(e1)+len(sentinel)-left, len(e1)), nil
		}
		e3, err := enc(again())
		if err != nil || !bytes.Equal(e1, e3) {
			return "Encode(Decode(Encode(v))) differs from Encode(v)", nil
		}
		return "", e1
	}
	switch c.Kind {
	case "point":
		p := s2.Point{Vector: r3.Vector{X: f64(c.F[0]), Y: f64(c.F[1]), Z: f64(c.F[2])}}
		var d s2.Point
		if msg, _ := rt(p, d.Decode, func() encodable { return d }); msg != "" {
			return fail("%s", msg)
		}
		if !ptBitsEq(p, d) {
			return fail("%s decoded as %s", ptHex(p), ptHex(d))
		}
		o.NonTrivial = !gen.Unit(p) || p.X == 0 || p.Y == 0 || p.Z == 0
	case "cap":
		ctr := s2.Point{Vector: r3.Vector{X: f64(c.F[0]), Y: f64(c.F[1]), Z: f64(c.F[2])}}
		v := s2.CapFromCenterChordAngle(ctr, s1.ChordAngle(f64(c.F[3])))
		var d s2.Cap
		if msg, _ := rt(v, d.Decode, func() encodable { return d }); msg != "" {
			return fail("%s", msg)
		}
		if !ptBitsEq(v.Center(), d.Center()) || !bitsEq(float64(v.Radius()), float64(d.Radius())) || !bitsEq(v.Height(), d.Height()) ||
			v.IsEmpty() != d.IsEmpty() || v.IsFull() != d.IsFull() || v.IsValid() != d.IsValid() {
			return fail("%v decoded as %v", v, d)
		}
		o.NonTrivial = v.IsEmpty() || v.IsFull() || !v.IsValid()
		if v.IsEmpty() {
			o.Class += "/empty"
		} else if v.IsFull() {
			o.Class += "/full"
		}
	case "rect":
		v := s2.Rect{Lat: r1.Interval{Lo: f64(c.F[0]), Hi: f64(c.F[1])}, Lng: s1.Interval{Lo: f64(c.F[2]), Hi: f64(c.F[3])}}
		var d s2.Rect
		if msg, _ := rt(v, d.Decode, func() encodable { return d }); msg != "" {
			return fail("%s", msg)
		}
		if !rectBitsEq(v, d) {
			return fail("%v decoded as %v", v, d)
		}
		o.NonTrivial = v.IsEmpty() || v.IsFull() || v.Lng.IsInverted() || !v.IsValid()
		switch {
		case v.IsEmpty():
			o.Class += "/empty"
		case v.IsFull():
			o.Class += "/full"
		case v.Lng.IsInverted():
			o.Class += "/inverted-lng"
		}
	case "cellid":
		v := s2.CellID(c.IDs[0])
		var d s2.CellID
		if msg, _ := rt(v, d.Decode, func() encodable { return d }); msg != "" {
			return fail("%s", msg)
		}
		if v != d {
			return fail("%x decoded as %x", uint64(v), uint64(d))
		}
		o.NonTrivial = true
		if !v.IsValid() {
			o.Class += "/invalid"
		}
	case "cell":
		id := s2.CellID(c.IDs[0])
		if !id.IsValid() {
			o.Skip = true
			return o
		}
		v := s2.CellFromCellID(id)
		var d s2.Cell
		if msg, _ := rt(v, d.Decode, func() encodable { return d }); msg != "" {
			return fail("%s", msg)
		}
		if v != d || v.ID() != d.ID() || v.Level() != d.Level() || v.Face() != d.Face() || v.BoundUV() != d.BoundUV() {
			return fail("%v decoded as %v", v, d)
		}
		for k := 0; k < 4; k++ {
			if !ptBitsEq(v.Vertex(k), d.Vertex(k)) {
				return fail("vertex %d differs", k)
			}
		}
		o.NonTrivial = true
		o.Class += fmt.Sprintf("/level%02d", v.Level()/8*8)
	case "cellunion":
		var v s2.CellUnion
		for _, id := range c.IDs {
			if !s2.CellID(id).IsValid() {
				o.Skip = true
				return o
			}
			v = append(v, s2.CellID(id))
		}
		var d s2.CellUnion
		if msg, _ := rt(&v, d.Decode, func() encodable { return &d }); msg != "" {
			return fail("%s", msg)
		}
		if len(v) != len(d) {
			return fail("%d cells decoded as %d", len(v), len(d))
		}
		for i := range v {
			if v[i] != d[i] {
				return fail("cell %d: %x decoded as %x", i, uint64(v[i]), uint64(d[i]))
			}
		}
		if v.IsNormalized() != d.IsNormalized() || v.IsValid() != d.IsValid() {
			return fail("IsNormalized/IsValid differ")
		}
		o.NonTrivial = len(v) >= 2
		if v.IsNormalized() {
			o.Class += "/normalized"
		} else if v.IsValid() {
			o.Class += "/valid"
		} else {
			o.Class += "/unsorted-or-overlapping"
		}
	case "polyline":
		var v s2.Polyline
		for i := 0; i+2 < len(c.F); i += 3 {
			v = append(v, s2.Point{Vector: r3.Vector{X: f64(c.F[i]), Y: f64(c.F[i+1]), Z: f64(c.F[i+2])}})
		}
		var d s2.Polyline
		if msg, _ := rt(v, d.Decode, func() encodable { return d }); msg != "" {
			return fail("%s", msg)
		}
		if len(v) != len(d) {
			return fail("%d vertices decoded as %d", len(v), len(d))
		}
		for i := range v {
			if !ptBitsEq(v[i], d[i]) {
				return fail("vertex %d: %s decoded as %s", i, ptHex(v[i]), ptHex(d[i]))
			}
		}
		if v.NumEdges() != d.NumEdges() || !v.Equal(&d) {
			return fail("NumEdges/Equal differ")
		}
		o.NonTrivial = len(v) >= 2
		o.Class += fmt.Sprintf("/n<=%d", bucket(len(v)))
	}
	return o
}

func bucket(n int) int {
	for _, b := range []int{0, 1, 3, 40} {
		if n <= b {
			return b
		}
	}
	return 200
}

func init() {
	ev.Define("polygon_roundtrip", ev.Options{
		Rule:  "polygons of 1..12 components in disjoint slots (6 face centres / 8 cube corners / 12 edge midpoints / free), each 1..4 nested star rings drawn in the gnomonic plane, a rectangle through cell centres of one level (incl. first/last cell of a face) or a lattice rectangle through cell corners (incl. the face boundary, si/ti = 0 or 2^31); every star vertex replaced by itself / the centre of its cell at the component level or another level / such a centre moved one ulp / a cell corner, with the snapped fraction drawn in {0, 12–36 % (format decision at 23.1 %), 5…97 %, 100 %} and base level 0..30 (a third 30, a sixth at 0,1,7,8,9,15,16,17,23,24,25,29); loop sizes 3..100 (260 thorough) with mass on 63/64/65; built by PolygonFromLoops / PolygonFromOrientedLoops / then Invert / single reversed loop; empty, full, and face-centre triangles with ±0; 1/40 of the cases 129..300 concentric squares on cell centres (nesting depth >= 128 / >= 256, compressed format; class /depth>=128); decoded into a fresh or a previously used receiver, from a ByteReader (with trailing bytes) or a one-byte plain Reader. Compared: all vertices bit for bit, nesting, origin flags, loop and polygon bounds bit for bit, shape accessors, area/centroid bits, 24 probe points × {ContainsPoint, Loop.ContainsPoint, ContainsCell, IntersectsCell}, Contains/Intersects against the original, re-encoding, determinism. Non-trivial = compressed format (first byte 4) with ≥ 1 vertex stored off-centre and ≥ 1 face change inside a loop, or lossless format (first byte 1) with ≥ 1 cell-centre vertex.",
		Quick: 24000, Thorough: 900000}, genPoly, checkPoly)
	ev.Define("loop_roundtrip", ev.Options{
		Rule:  "loops from the shared families (regular, star, lattice, cell; 1/4 reversed), snapped star rings, loops taken out of nested polygons (depth 0..3), empty and full loops, optionally Invert()ed after construction; Loop.Encode/Decode round trip compared on vertices (bits), IsHole/Sign, ContainsOrigin, RectBound/CapBound bits, Equal/BoundaryEqual, edges, area/turning angle/centroid bits, 16 probes × {ContainsPoint, ContainsCell, IntersectsCell}, Contains against the original, re-encoding (carries the exact depth), determinism, exact consumption. Non-trivial = ≥ 3 vertices and (a hole, or inverted, or containing the origin).",
		Quick: 40000, Thorough: 1200000}, genLoop, checkLoop)
	ev.Define("value_roundtrip", ev.Options{
		Rule:  "points (unit points from all shared families; 1/5 arbitrary finite float64 triples incl. −0, denormals, 1.8e308), caps (empty, full, arbitrary radius), rects (empty, full, inverted longitude, arbitrary finite fields), cell ids (valid; 1/4 arbitrary uint64), cells (all levels), cell unions (0..300 ids: sibling runs, ancestors/descendants of one cell, random, normalized), polylines (0..200 vertices with duplicates, antipodes, near-duplicates); Decode(Encode(v)) compared bit for bit plus accessors, re-encoding, determinism, exact consumption. Non-trivial = special value (empty/full/invalid/zero coordinate/non-unit) or ≥ 2 elements.",
		Quick: 160000, Thorough: 4000000}, genValue, checkValue)
}

// leafOf is the leaf cell id containing p (public API only).
func leafOf(p s2.Point) s2.CellID { return s2.CellFromPoint(p).ID() }
