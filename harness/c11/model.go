package c11

// The leaf-interval model. Everything here works on raw uint64 cell ids and
// leaf indices and uses no s2 method, so that it is independent of the code
// under test (only the published bit layout of a cell id is assumed:
// id = face<<61 | hilbert-position, terminated by a single 1 bit whose
// position 2*(30-level) gives the level).
//
// A leaf cell with id L has leaf index (L-1)/2 in [0, 6*4^30). A cell with id
// c and lowest set bit s covers the s consecutive leaf indices starting at
// (c-s)/2. A cell union is the set of leaf indices covered by its cells,
// represented as a sorted list of disjoint, non-adjacent closed intervals.

import (
	"math/bits"
	"sort"
)

const (
	maxLevel    = 30
	faceLeaves  = uint64(1) << 60
	totalLeaves = 6 * faceLeaves
	// endSentinel is the id one past the last leaf (CellIDFromFace(5).ChildEndAtLevel(30)).
	endSentinel = 2*totalLeaves + 1
)

func lsbOf(id uint64) uint64 { return id & -id }

// validID: face < 6 and the terminating bit at an even position <= 60.
func validID(id uint64) bool {
	if id == 0 || id>>61 >= 6 {
		return false
	}
	tz := bits.TrailingZeros64(id)
	return tz%2 == 0 && tz <= 60
}

func levelOf(id uint64) int   { return maxLevel - bits.TrailingZeros64(id)/2 }
func sizeOf(id uint64) uint64 { return lsbOf(id) }
func loOf(id uint64) uint64   { return (id - lsbOf(id)) >> 1 }
func hiOf(id uint64) uint64   { return loOf(id) + lsbOf(id) - 1 }

func sizeAtLevel(level int) uint64 { return uint64(1) << uint(2*(maxLevel-level)) }

// mkCell returns the id of the cell covering [lo, lo+size) (lo aligned to size, size = 4^k).
func mkCell(lo, size uint64) uint64 { return lo<<1 + size }

func leafID(idx uint64) uint64 { return idx<<1 + 1 }

func ancestorAt(id uint64, level int) uint64 {
	s := sizeAtLevel(level)
	return mkCell(loOf(id)&^(s-1), s)
}

func childOf(id uint64, k int) uint64 {
	s := sizeOf(id) >> 2
	return mkCell(loOf(id)+uint64(k)*s, s)
}

func containsID(a, b uint64) bool { return loOf(a) <= loOf(b) && hiOf(b) <= hiOf(a) }

type iv struct{ lo, hi uint64 }

// toIntervals: the leaf set of a multiset of valid cell ids.
func toIntervals(ids []uint64) []iv {
	v := make([]iv, 0, len(ids))
	for _, id := range ids {
		v = append(v, iv{loOf(id), hiOf(id)})
	}
	return mergeIvs(v)
}

func mergeIvs(v []iv) []iv {
	sort.Slice(v, func(i, j int) bool {
		if v[i].lo != v[j].lo {
			return v[i].lo < v[j].lo
		}
		return v[i].hi < v[j].hi
	})
	out := v[:0]
	for _, x := range v {
		if n := len(out); n > 0 && x.lo <= out[n-1].hi+1 {
			if x.hi > out[n-1].hi {
				out[n-1].hi = x.hi
			}
			continue
		}
		out = append(out, x)
	}
	return out
}

// canon: the unique normalized cell union of a leaf set — for every maximal
// interval, greedily the largest aligned block (4^k leaves, k <= 30, start
// divisible by 4^k) that starts at the first uncovered leaf and fits.
func canon(v []iv) []uint64 {
	var out []uint64
	for _, x := range v {
		p := x.lo
		for {
			k := maxLevel
			if p != 0 {
				if tz := bits.TrailingZeros64(p) / 2; tz < k {
					k = tz
				}
			}
			for k > 0 && p+(uint64(1)<<uint(2*k))-1 > x.hi {
				k--
			}
			s := uint64(1) << uint(2*k)
			out = append(out, mkCell(p, s))
			if p+s-1 >= x.hi {
				break
			}
			p += s
		}
	}
	return out
}

func ivUnion(a, b []iv) []iv {
	v := make([]iv, 0, len(a)+len(b))
	v = append(v, a...)
	v = append(v, b...)
	return mergeIvs(v)
}

func ivInter(a, b []iv) []iv {
	var out []iv
	i, j := 0, 0
	for i < len(a) && j < len(b) {
		lo, hi := a[i].lo, a[i].hi
		if b[j].lo > lo {
			lo = b[j].lo
		}
		if b[j].hi < hi {
			hi = b[j].hi
		}
		if lo <= hi {
			out = append(out, iv{lo, hi})
		}
		if a[i].hi < b[j].hi {
			i++
		} else {
			j++
		}
	}
	return out
}

// ivDiff: a minus b.
func ivDiff(a, b []iv) []iv {
	var out []iv
	j := 0
	for _, x := range a {
		lo := x.lo
		done := false
		for j < len(b) && b[j].hi < lo {
			j++
		}
		for k := j; k < len(b) && b[k].lo <= x.hi; k++ {
			if b[k].lo > lo {
				out = append(out, iv{lo, b[k].lo - 1})
			}
			if b[k].hi >= x.hi {
				done = true
				break
			}
			lo = b[k].hi + 1
		}
		if !done && lo <= x.hi {
			out = append(out, iv{lo, x.hi})
		}
	}
	return out
}

func ivCount(a []iv) uint64 {
	var n uint64
	for _, x := range a {
		n += x.hi - x.lo + 1
	}
	return n
}

// ivContainsRange: [lo,hi] inside one interval of a (intervals are maximal, so
// that is the same as being a subset of the set).
func ivContainsRange(a []iv, lo, hi uint64) bool {
	i := sort.Search(len(a), func(i int) bool { return a[i].hi >= lo })
	return i < len(a) && a[i].lo <= lo && hi <= a[i].hi
}

func ivIntersectsRange(a []iv, lo, hi uint64) bool {
	i := sort.Search(len(a), func(i int) bool { return a[i].hi >= lo })
	return i < len(a) && a[i].lo <= hi
}

func ivContainsAll(a, b []iv) bool {
	for _, x := range b {
		if !ivContainsRange(a, x.lo, x.hi) {
			return false
		}
	}
	return true
}

func ivIntersects(a, b []iv) bool { return len(ivInter(a, b)) > 0 }

func ivEqual(a, b []iv) bool {
	if len(a) != len(b) {
		return false
	}
	for i := range a {
		if a[i] != b[i] {
			return false
		}
	}
	return true
}

// maximalCells: the distinct input cells not contained in another input cell,
// sorted (a valid, possibly un-normalized union with the same leaf set).
func maximalCells(ids []uint64) []uint64 {
	s := append([]uint64(nil), ids...)
	// sort by lo ascending, size descending: a container precedes its contents
	sort.Slice(s, func(i, j int) bool {
		if loOf(s[i]) != loOf(s[j]) {
			return loOf(s[i]) < loOf(s[j])
		}
		return sizeOf(s[i]) > sizeOf(s[j])
	})
	var out []uint64
	for _, id := range s {
		if n := len(out); n > 0 && hiOf(out[n-1]) >= hiOf(id) && loOf(out[n-1]) <= loOf(id) {
			continue
		}
		out = append(out, id)
	}
	return out
}

// collapseDepth: the largest number of levels by which sibling merging lifted
// input cells: max over canonical cells c that are not covered by one input
// cell of (deepest maximal input cell inside c) - level(c).
func collapseDepth(maxCells, canonCells []uint64) int {
	d := 0
	i := 0
	for _, c := range canonCells {
		for i < len(maxCells) && hiOf(maxCells[i]) < loOf(c) {
			i++
		}
		for k := i; k < len(maxCells) && loOf(maxCells[k]) <= hiOf(c); k++ {
			if dd := levelOf(maxCells[k]) - levelOf(c); dd > d {
				d = dd
			}
		}
	}
	return d
}

// modelIsValid / modelIsNormalized on a raw list (may hold invalid ids).
func modelIsValid(ids []uint64) bool {
	for i, id := range ids {
		if !validID(id) {
			return false
		}
		if i > 0 && hiOf(ids[i-1]) >= loOf(id) {
			return false
		}
	}
	return true
}

func modelIsNormalized(ids []uint64) bool {
	if !modelIsValid(ids) {
		return false
	}
	cnt := map[uint64]int{}
	for _, id := range ids {
		if levelOf(id) > 0 {
			p := ancestorAt(id, levelOf(id)-1)
			cnt[p]++
			if cnt[p] == 4 {
				return false
			}
		}
	}
	return true
}
