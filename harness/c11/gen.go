package c11

import (
	"math/bits"

	"pgregory.net/rapid"

	"verifharness/internal/ev"
	"verifharness/internal/gen"
)

const maxIDs = 300

// pickBase: a fresh cell, or a cell already drawn for this union, or one of
// the pool (cells of the other operand(s)), so that operands interact.
func pickBase(t *rapid.T, ids, pool []uint64) uint64 {
	n := len(ids) + len(pool)
	if n == 0 || rapid.IntRange(0, 3).Draw(t, "fresh") == 0 {
		return uint64(gen.CellID(t, "c"))
	}
	k := rapid.IntRange(0, n-1).Draw(t, "pick")
	if k < len(ids) {
		return ids[k]
	}
	return pool[k-len(ids)]
}

// staircase: below b, d levels deep: at each level the three siblings off a
// drawn path, and at the bottom the path cell itself (unless missing). When
// complete, the 3d+1 cells collapse to b through d cascaded sibling merges.
func staircase(t *rapid.T, b uint64, d int, missing bool) []uint64 {
	var out []uint64
	cur := b
	for s := 0; s < d && levelOf(cur) < maxLevel; s++ {
		kp := rapid.IntRange(0, 3).Draw(t, "path")
		for k := 0; k < 4; k++ {
			if k != kp {
				out = append(out, childOf(cur, k))
			}
		}
		cur = childOf(cur, kp)
	}
	if !missing {
		out = append(out, cur)
	}
	return out
}

// genIDs draws a multiset of valid cell ids: any level and face, duplicates,
// nested cells, complete and incomplete sibling groups at several levels,
// runs of adjacent cells (also across faces), whole faces, boundary leaves.
func genIDs(t *rapid.T, maxOps int, pool []uint64) []uint64 {
	nops := rapid.IntRange(1, maxOps).Draw(t, "nops")
	if rapid.IntRange(0, 39).Draw(t, "none") == 23 {
		nops = 0
	}
	var ids []uint64
	for i := 0; i < nops && len(ids) < maxIDs; i++ {
		b := pickBase(t, ids, pool)
		lv := levelOf(b)
		switch rapid.IntRange(0, 13).Draw(t, "op") {
		case 0, 1:
			ids = append(ids, b)
		case 2:
			ids = append(ids, ancestorAt(b, rapid.IntRange(0, lv).Draw(t, "anc")))
		case 3:
			// descendant: a few levels down a drawn path, or straight to a leaf
			if lv == maxLevel {
				ids = append(ids, b)
				break
			}
			if rapid.IntRange(0, 3).Draw(t, "deep") == 0 {
				off := rapid.Uint64Range(0, sizeOf(b)-1).Draw(t, "leafoff")
				if rapid.Bool().Draw(t, "edge") {
					off = rapid.SampledFrom([]uint64{0, sizeOf(b) - 1}).Draw(t, "edgeoff")
				}
				ids = append(ids, leafID(loOf(b)+off))
				break
			}
			d := rapid.IntRange(1, min(6, maxLevel-lv)).Draw(t, "depth")
			c := b
			for s := 0; s < d; s++ {
				c = childOf(c, rapid.IntRange(0, 3).Draw(t, "ck"))
			}
			ids = append(ids, c)
		case 4:
			if lv < maxLevel {
				for k := 0; k < 4; k++ {
					ids = append(ids, childOf(b, k))
				}
			} else {
				ids = append(ids, b)
			}
		case 5:
			if lv < maxLevel {
				om := rapid.IntRange(0, 3).Draw(t, "omit")
				for k := 0; k < 4; k++ {
					if k != om {
						ids = append(ids, childOf(b, k))
					}
				}
			} else {
				ids = append(ids, b)
			}
		case 6, 7:
			d := rapid.IntRange(2, 6).Draw(t, "stairs")
			ids = append(ids, staircase(t, b, d, rapid.IntRange(0, 3).Draw(t, "miss") == 0)...)
		case 8:
			// run of adjacent cells of b's level (may cross a face boundary)
			n := rapid.IntRange(1, 9).Draw(t, "run")
			back := rapid.IntRange(0, n).Draw(t, "runback")
			s := sizeOf(b)
			lo := loOf(b)
			for k := -back; k < n-back; k++ {
				p := int64(lo/s) + int64(k)
				if p < 0 || uint64(p) >= totalLeaves/s {
					continue
				}
				ids = append(ids, mkCell(uint64(p)*s, s))
			}
		case 9:
			// whole faces swallow everything else on them: keep them infrequent
			switch rapid.IntRange(0, 29).Draw(t, "facekind") {
			case 13:
				for f := uint64(0); f < 6; f++ {
					ids = append(ids, mkCell(f*faceLeaves, faceLeaves))
				}
			case 1, 2, 3, 4:
				ids = append(ids, ancestorAt(b, 0))
			case 5, 6, 7, 0:
				ids = append(ids, ancestorAt(b, min(lv, 1)))
			default:
				ids = append(ids, b)
			}
		case 10:
			if lv > 0 {
				p := ancestorAt(b, lv-1)
				for k := 0; k < 4; k++ {
					if c := childOf(p, k); c != b {
						ids = append(ids, c)
					}
				}
			} else {
				ids = append(ids, b)
			}
		case 11:
			// boundary leaves: first/last leaf of b and the leaves just outside
			m := rapid.IntRange(1, 15).Draw(t, "bmask")
			if m&1 != 0 {
				ids = append(ids, leafID(loOf(b)))
			}
			if m&2 != 0 {
				ids = append(ids, leafID(hiOf(b)))
			}
			if m&4 != 0 && loOf(b) > 0 {
				ids = append(ids, leafID(loOf(b)-1))
			}
			if m&8 != 0 && hiOf(b)+1 < totalLeaves {
				ids = append(ids, leafID(hiOf(b)+1))
			}
		case 12:
			if lv <= maxLevel-2 {
				for k := 0; k < 4; k++ {
					for j := 0; j < 4; j++ {
						ids = append(ids, childOf(childOf(b, k), j))
					}
				}
			} else {
				ids = append(ids, b)
			}
		default:
			if lv > 0 {
				ids = append(ids, ancestorAt(b, lv-1))
			}
			ids = append(ids, b)
		}
	}
	if len(ids) > maxIDs {
		ids = ids[:maxIDs]
	}
	// a drawn rotation/reversal so that the input order is not the construction order
	if len(ids) > 1 {
		r := rapid.IntRange(0, len(ids)-1).Draw(t, "rot")
		ids = append(append([]uint64(nil), ids[r:]...), ids[:r]...)
		if rapid.Bool().Draw(t, "rev") {
			for i, j := 0, len(ids)-1; i < j; i, j = i+1, j-1 {
				ids[i], ids[j] = ids[j], ids[i]
			}
		}
	}
	return ids
}

// genSize: most unions small (they shrink and read well), some up to 300 ids;
// the thorough tier shifts the mix towards the large ones.
func genSize(t *rapid.T) int {
	k := rapid.IntRange(0, 9).Draw(t, "size")
	if ev.Thorough() {
		k += 3
	}
	switch {
	case k <= 3:
		return 6
	case k <= 6:
		return 20
	case k <= 9:
		return 60
	default:
		return 150
	}
}

// genProbes: cells related to the given ids: themselves, ancestors,
// descendants, siblings, neighbours along the curve, boundary leaves, and a
// few unrelated ones.
func genProbes(t *rapid.T, n int, pool []uint64) []uint64 {
	var out []uint64
	for i := 0; i < n; i++ {
		var b uint64
		if len(pool) == 0 || rapid.IntRange(0, 5).Draw(t, "pfresh") == 0 {
			b = uint64(gen.CellID(t, "p"))
		} else {
			b = pool[rapid.IntRange(0, len(pool)-1).Draw(t, "ppick")]
		}
		lv := levelOf(b)
		s := sizeOf(b)
		switch rapid.IntRange(0, 8).Draw(t, "pop") {
		case 0:
			out = append(out, b)
		case 1:
			out = append(out, ancestorAt(b, rapid.IntRange(0, lv).Draw(t, "panc")))
		case 2:
			if lv < maxLevel {
				out = append(out, childOf(b, rapid.IntRange(0, 3).Draw(t, "pck")))
			} else {
				out = append(out, b)
			}
		case 3:
			out = append(out, leafID(loOf(b)+rapid.Uint64Range(0, s-1).Draw(t, "poff")))
		case 4:
			out = append(out, leafID(loOf(b)), leafID(hiOf(b)))
		case 5:
			if loOf(b) > 0 {
				out = append(out, leafID(loOf(b)-1))
			}
			if hiOf(b)+1 < totalLeaves {
				out = append(out, leafID(hiOf(b)+1))
			}
		case 6:
			// neighbours of the same level along the curve
			if loOf(b) >= s {
				out = append(out, mkCell(loOf(b)-s, s))
			}
			if hiOf(b)+s < totalLeaves {
				out = append(out, mkCell(loOf(b)+s, s))
			}
		case 7:
			if lv > 0 {
				out = append(out, childOf(ancestorAt(b, lv-1), rapid.IntRange(0, 3).Draw(t, "psib")))
			} else {
				out = append(out, b)
			}
		default:
			// a cell of a drawn level at the leaf just outside b
			l := rapid.IntRange(0, maxLevel).Draw(t, "plev")
			if hiOf(b)+1 < totalLeaves {
				out = append(out, ancestorAt(leafID(hiOf(b)+1), l))
			} else {
				out = append(out, ancestorAt(leafID(loOf(b)), l))
			}
		}
	}
	return out
}

// genLeafIndex: a leaf index in [0, totalLeaves] (totalLeaves = the end
// sentinel) that is a cell boundary of a drawn level, moved by a small offset.
func genLeafIndex(t *rapid.T, pool []uint64) uint64 {
	var p uint64
	switch rapid.IntRange(0, 5).Draw(t, "lsrc") {
	case 0:
		p = rapid.SampledFrom([]uint64{0, 1, faceLeaves, 3 * faceLeaves, totalLeaves - 1, totalLeaves}).Draw(t, "lconst")
	case 1:
		p = rapid.Uint64Range(0, totalLeaves).Draw(t, "luni")
	default:
		var b uint64
		if len(pool) > 0 && rapid.Bool().Draw(t, "lpool") {
			b = pool[rapid.IntRange(0, len(pool)-1).Draw(t, "lpick")]
		} else {
			b = uint64(gen.CellID(t, "l"))
		}
		p = loOf(b)
		if rapid.Bool().Draw(t, "lend") {
			p = hiOf(b) + 1
		}
	}
	switch rapid.IntRange(0, 5).Draw(t, "loffk") {
	case 0:
		d := rapid.Uint64Range(1, 40).Draw(t, "loff")
		if rapid.Bool().Draw(t, "lneg") {
			if p >= d {
				p -= d
			}
		} else if p+d <= totalLeaves {
			p += d
		}
	case 1:
		// offset by an aligned block of a drawn level
		d := sizeAtLevel(rapid.IntRange(1, maxLevel).Draw(t, "lofflev")) * rapid.Uint64Range(1, 3).Draw(t, "loffm")
		if rapid.Bool().Draw(t, "lneg2") {
			if p >= d {
				p -= d
			}
		} else if p+d <= totalLeaves {
			p += d
		}
	}
	return p
}

func tz2(x uint64) int {
	if x == 0 {
		return maxLevel
	}
	return min(bits.TrailingZeros64(x)/2, maxLevel)
}
