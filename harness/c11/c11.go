// Package c11: cell-union algebra is exact set algebra on leaf cells.
//
// Oracle everywhere: the leaf-interval model of model.go (sorted disjoint
// closed intervals of leaf indices, canonical form by greedy maximal aligned
// blocks), which shares no code with s2.
package c11

import (
	"fmt"
	"sort"
	"strings"

	"github.com/golang/geo/s2"
	"github.com/golang/geo/s2/s2intersect"
	"pgregory.net/rapid"

	"verifharness/internal/ev"
)

// ---------------------------------------------------------------- helpers

func toCU(ids []uint64) s2.CellUnion {
	cu := make(s2.CellUnion, len(ids))
	for i, id := range ids {
		cu[i] = s2.CellID(id)
	}
	return cu
}

func fromCU(cu s2.CellUnion) []uint64 {
	out := make([]uint64, len(cu))
	for i, id := range cu {
		out[i] = uint64(id)
	}
	return out
}

func eqIDs(a, b []uint64) bool {
	if len(a) != len(b) {
		return false
	}
	for i := range a {
		if a[i] != b[i] {
			return false
		}
	}
	return true
}

func show(ids []uint64) string {
	var sb strings.Builder
	sb.WriteByte('[')
	for i, id := range ids {
		if i > 0 {
			sb.WriteByte(' ')
		}
		if i >= 24 {
			fmt.Fprintf(&sb, "…(%d)", len(ids))
			break
		}
		fmt.Fprintf(&sb, "%d/%x", levelOf(id), id)
	}
	sb.WriteByte(']')
	return sb.String()
}

func fail(finding, format string, a ...any) ev.Outcome {
	return ev.Outcome{Err: fmt.Sprintf(format, a...), Finding: finding}
}

// allValid guards the checks against a harness bug (or a hand-edited replay
// file): the quantified domain is valid cell ids only.
func allValid(lists ...[]uint64) bool {
	for _, l := range lists {
		for _, id := range l {
			if !validID(id) {
				return false
			}
		}
	}
	return true
}

// ---------------------------------------------------------------- a) normalize

type normCase struct {
	IDs []uint64
	// Bad: invalid ids spliced into a copy of the sorted list for the
	// IsValid/IsNormalized comparison only (never passed to Normalize).
	Bad    []uint64
	BadPos int
	// Split: index (mod len) of the normalized cell replaced by its four children.
	Split int
}

func genNorm(t *rapid.T) normCase {
	c := normCase{IDs: genIDs(t, genSize(t), nil)}
	if rapid.IntRange(0, 3).Draw(t, "withbad") == 0 {
		c.Bad = []uint64{rapid.SampledFrom([]uint64{
			0, ^uint64(0), 6 << 61, 7<<61 | 1, 2, 8, 1 << 61, 0xC000000000000001, 1<<61 | 2,
		}).Draw(t, "bad")}
	}
	c.BadPos = rapid.IntRange(0, 400).Draw(t, "badpos")
	c.Split = rapid.IntRange(0, 400).Draw(t, "split")
	return c
}

func checkNorm(c normCase) ev.Outcome {
	o := ev.Outcome{}
	if !allValid(c.IDs) {
		o.Skip = true
		return o
	}
	ivs := toIntervals(c.IDs)
	want := canon(ivs)
	maxc := maximalCells(c.IDs)
	depth := collapseDepth(maxc, want)

	distinct := map[uint64]bool{}
	for _, id := range c.IDs {
		distinct[id] = true
	}
	dups := len(distinct) < len(c.IDs)
	pruned := len(maxc) < len(distinct)
	switch {
	case len(c.IDs) == 0:
		o.Class = "empty"
	case depth >= 2 && pruned:
		o.Class = "collapse>=2+pruned"
	case depth >= 2:
		o.Class = "collapse>=2"
	case depth == 1 && pruned:
		o.Class = "collapse1+pruned"
	case depth == 1:
		o.Class = "collapse1"
	case pruned:
		o.Class = "pruned-only"
	case dups:
		o.Class = "dups-only"
	default:
		o.Class = "already-disjoint"
	}
	o.NonTrivial = depth >= 2
	o.Counts = map[string]int{"ids": len(c.IDs), "all6faces": 0}
	if len(want) == 6 && ivCount(ivs) == totalLeaves {
		o.Counts["all6faces"] = 1
	}

	cu := toCU(c.IDs)
	cu.Normalize()
	got := fromCU(cu)
	if !eqIDs(got, want) {
		return fail("normalize-mismatch", "Normalize(%s) = %s, canonical form of the leaf set is %s", show(c.IDs), show(got), show(want))
	}
	// same leaf set (implied by equality with the canonical form; kept as an
	// explicit statement of the property)
	if !ivEqual(toIntervals(got), ivs) {
		return fail("normalize-leafset", "Normalize changed the leaf set of %s", show(c.IDs))
	}
	if !cu.IsValid() || !cu.IsNormalized() {
		return fail("normalized-not-normalized", "Normalize output %s: IsValid=%v IsNormalized=%v", show(got), cu.IsValid(), cu.IsNormalized())
	}
	cu2 := toCU(got)
	cu2.Normalize()
	if !eqIDs(fromCU(cu2), want) {
		return fail("normalize-idempotent", "Normalize not idempotent on %s: %s", show(got), show(fromCU(cu2)))
	}
	// order independence: reversed input
	rev := make([]uint64, len(c.IDs))
	for i, id := range c.IDs {
		rev[len(rev)-1-i] = id
	}
	cu3 := toCU(rev)
	cu3.Normalize()
	if !eqIDs(fromCU(cu3), want) {
		return fail("normalize-order", "Normalize depends on input order: %s vs %s", show(fromCU(cu3)), show(want))
	}
	// CellUnionFromUnion of an arbitrary split of the multiset
	k := 0
	if len(c.IDs) > 0 {
		k = c.Split % (len(c.IDs) + 1)
	}
	if u := fromCU(s2.CellUnionFromUnion(toCU(c.IDs[:k]), toCU(c.IDs[k:]))); !eqIDs(u, want) {
		return fail("union-split", "CellUnionFromUnion(ids[:%d], ids[%d:]) = %s want %s", k, k, show(u), show(want))
	}

	// IsValid / IsNormalized against the model on: the raw input, the sorted
	// maximal cells, the normal form with one cell split, lists with an invalid id.
	pred := func(what string, ids []uint64) *ev.Outcome {
		x := toCU(ids)
		gv, gn := x.IsValid(), x.IsNormalized()
		wv, wn := modelIsValid(ids), modelIsNormalized(ids)
		if gv != wv {
			f := fail("isvalid", "IsValid(%s %s) = %v, model %v", what, show(ids), gv, wv)
			return &f
		}
		if gn != wn {
			f := fail("isnormalized", "IsNormalized(%s %s) = %v, model %v", what, show(ids), gn, wn)
			return &f
		}
		return nil
	}
	if f := pred("raw", c.IDs); f != nil {
		return *f
	}
	if f := pred("maximal", maxc); f != nil {
		return *f
	}
	if eqIDs(maxc, want) != modelIsNormalized(maxc) {
		return fail("harness", "model disagreement: maximal cells %s canonical %s", show(maxc), show(want))
	}
	if len(want) > 0 {
		i := c.Split % len(want)
		if levelOf(want[i]) < maxLevel {
			sp := append([]uint64(nil), want[:i]...)
			for k := 0; k < 4; k++ {
				sp = append(sp, childOf(want[i], k))
			}
			sp = append(sp, want[i+1:]...)
			if f := pred("split", sp); f != nil {
				return *f
			}
			x := toCU(sp)
			if !x.IsValid() || x.IsNormalized() {
				return fail("isnormalized", "normal form with one cell split into its children %s: IsValid=%v IsNormalized=%v", show(sp), x.IsValid(), x.IsNormalized())
			}
		}
	}
	if len(c.Bad) > 0 {
		p := c.BadPos % (len(want) + 1)
		b := append([]uint64(nil), want[:p]...)
		b = append(b, c.Bad...)
		b = append(b, want[p:]...)
		if f := pred("with-invalid-id", b); f != nil {
			return *f
		}
	}
	return o
}

// ---------------------------------------------------------------- b) binary operations

type opsCase struct {
	A, B, C []uint64
	Probes  []uint64
}

// largeSparse returns several hundred small cells: the descendants at depth d
// of the cell `base` whose index passes a drawn bit pattern (so that no
// sibling group is complete and nothing collapses).
func largeSparse(t *rapid.T, label string, base uint64, d int) []uint64 {
	lsb := base & -base
	if d > 5 {
		d = 5
	}
	for lsb>>(2*uint(d)) == 0 && d > 0 {
		d--
	}
	clsb := lsb >> (2 * uint(d))
	first := base - lsb + clsb
	seed := rapid.Uint64().Draw(t, label+".pattern") | 0x8000000000000001
	var out []uint64
	x := seed
	for k := uint64(0); k < 1<<(2*uint(d)); k++ {
		x ^= x << 13
		x ^= x >> 7
		x ^= x << 17
		if x&3 != 0 && k%4 == 3 { // never the 4th sibling when the first three might be present
			continue
		}
		if x&1 == 1 {
			out = append(out, first+k*2*clsb)
		}
	}
	return out
}

func genOps(t *rapid.T) opsCase {
	a := genIDs(t, genSize(t), nil)
	b := genIDs(t, genSize(t), a)
	if rapid.IntRange(0, 7).Draw(t, "large") == 0 {
		// one operand with several hundred cells (long skip-ahead searches in
		// the merge), the other with a few cells around / inside / between them
		base := pickBase(t, a, b)
		for levelOf(base) > 24 {
			base = ancestorAt(base, 24)
		}
		big := largeSparse(t, "large", base, 5)
		if rapid.Bool().Draw(t, "largeInA") {
			a = append(a, big...)
			b = append(b, genIDs(t, 10, big)...)
		} else {
			b = append(b, big...)
			a = append(a, genIDs(t, 10, big)...)
		}
		if rapid.IntRange(0, 2).Draw(t, "both") == 0 {
			a = append(a, largeSparse(t, "large2", base, 5)...)
		}
	}
	// a complete sibling staircase dealt between A and B: neither operand
	// collapses on its own, their union collapses over several levels
	for k := min(2, rapid.IntRange(0, 4).Draw(t, "dealt")); k > 0; k-- {
		base := pickBase(t, a, b)
		for _, id := range staircase(t, base, rapid.IntRange(2, 5).Draw(t, "dealdepth"), rapid.IntRange(0, 5).Draw(t, "dealmiss") == 0) {
			switch rapid.IntRange(0, 4).Draw(t, "dealto") {
			case 0, 1:
				a = append(a, id)
			case 2, 3:
				b = append(b, id)
			default:
				a = append(a, id)
				b = append(b, id)
			}
		}
	}
	var cc []uint64
	if rapid.Bool().Draw(t, "third") {
		cc = genIDs(t, 6, append(append([]uint64(nil), a...), b...))
	}
	pool := append(append([]uint64(nil), a...), b...)
	return opsCase{A: a, B: b, C: cc, Probes: genProbes(t, rapid.IntRange(1, 6).Draw(t, "nprobe"), pool)}
}

// nestingFast: some cell of x lies strictly inside a cell of y (xInY) or vice versa.
func nestingFast(x, y []uint64) (xInY, yInX bool) {
	// x, y normalized (sorted, disjoint): merge walk
	i, j := 0, 0
	for i < len(x) && j < len(y) {
		a, b := x[i], y[j]
		switch {
		case hiOf(a) < loOf(b):
			i++
		case hiOf(b) < loOf(a):
			j++
		default:
			if a != b {
				if containsID(a, b) {
					yInX = true
				} else {
					xInY = true
				}
			}
			if hiOf(a) < hiOf(b) {
				i++
			} else if hiOf(b) < hiOf(a) {
				j++
			} else {
				i++
				j++
			}
		}
	}
	return
}

func checkOps(c opsCase) ev.Outcome {
	o := ev.Outcome{}
	if !allValid(c.A, c.B, c.C, c.Probes) {
		o.Skip = true
		return o
	}
	ia, ib, ic := toIntervals(c.A), toIntervals(c.B), toIntervals(c.C)
	na, nb := canon(ia), canon(ib)
	iu, ii := ivUnion(ia, ib), ivInter(ia, ib)
	dab, dba := ivDiff(ia, ib), ivDiff(ib, ia)

	switch {
	case len(ia) == 0 || len(ib) == 0:
		o.Class = "an-operand-empty"
	case len(ii) == 0:
		o.Class = "disjoint"
	case ivEqual(ia, ib):
		o.Class = "equal-sets"
	case len(dab) == 0:
		o.Class = "A-subset-B"
	case len(dba) == 0:
		o.Class = "B-subset-A"
	default:
		o.Class = "proper-overlap"
	}
	aInB, bInA := nestingFast(na, nb)
	wu := canon(ivUnion(iu, ic))
	udepth := collapseDepth(maximalCells(append(append([]uint64(nil), na...), nb...)), canon(iu))
	o.NonTrivial = (aInB || bInA) && len(ii) > 0 && udepth >= 2
	o.Counts = map[string]int{}
	if aInB && bInA {
		o.Counts["nesting-both-ways"] = 1
	}
	if udepth >= 2 {
		o.Counts["union-collapse>=2"] = 1
	}
	if (aInB || bInA) && o.Class == "proper-overlap" {
		o.Counts["nested+proper-overlap"] = 1
	}

	// Union accepts arbitrary (un-normalized) operands.
	var gu []uint64
	if len(c.C) > 0 {
		gu = fromCU(s2.CellUnionFromUnion(toCU(c.A), toCU(c.B), toCU(c.C)))
	} else {
		gu = fromCU(s2.CellUnionFromUnion(toCU(c.A), toCU(c.B)))
	}
	if !eqIDs(gu, wu) {
		return fail("union-mismatch", "CellUnionFromUnion = %s want %s", show(gu), show(wu))
	}
	// The remaining operations get normalized operands.
	A, B := toCU(na), toCU(nb)
	wi := canon(ii)
	if g := fromCU(s2.CellUnionFromIntersection(A, B)); !eqIDs(g, wi) {
		return fail("intersection-mismatch", "CellUnionFromIntersection(A=%s, B=%s) = %s want %s", show(na), show(nb), show(g), show(wi))
	}
	if g := fromCU(s2.CellUnionFromIntersection(B, A)); !eqIDs(g, wi) {
		return fail("intersection-mismatch", "CellUnionFromIntersection(B=%s, A=%s) = %s want %s", show(nb), show(na), show(g), show(wi))
	}
	wdab, wdba := canon(dab), canon(dba)
	gdab := fromCU(s2.CellUnionFromDifference(A, B))
	if !eqIDs(gdab, wdab) {
		return fail("difference-mismatch", "CellUnionFromDifference(A=%s, B=%s) = %s want %s", show(na), show(nb), show(gdab), show(wdab))
	}
	gdba := fromCU(s2.CellUnionFromDifference(B, A))
	if !eqIDs(gdba, wdba) {
		return fail("difference-mismatch", "CellUnionFromDifference(B=%s, A=%s) = %s want %s", show(nb), show(na), show(gdba), show(wdba))
	}
	// inputs must not have been modified
	if !eqIDs(fromCU(A), na) || !eqIDs(fromCU(B), nb) {
		return fail("operand-mutated", "a binary operation modified its operand")
	}
	if g, w := A.Contains(B), ivContainsAll(ia, ib); g != w {
		return fail("contains-mismatch", "A.Contains(B) = %v want %v; A=%s B=%s", g, w, show(na), show(nb))
	}
	if g, w := B.Contains(A), ivContainsAll(ib, ia); g != w {
		return fail("contains-mismatch", "B.Contains(A) = %v want %v; A=%s B=%s", g, w, show(na), show(nb))
	}
	// Contains tests each CellID of its argument against the (normalized) receiver and
	// Intersects each CellID of its receiver against the (normalized) argument: the
	// other operand may be any multiset of cells (duplicates, nested cells, unsorted).
	if g, w := A.Contains(toCU(c.B)), ivContainsAll(ia, ib); g != w {
		return fail("contains-raw-mismatch", "A.Contains(raw B) = %v want %v; A=%s raw B=%s", g, w, show(na), show(c.B))
	}
	if g, w := B.Contains(toCU(c.A)), ivContainsAll(ib, ia); g != w {
		return fail("contains-raw-mismatch", "B.Contains(raw A) = %v want %v; B=%s raw A=%s", g, w, show(nb), show(c.A))
	}
	if g, w := func() bool { r := toCU(c.A); return r.Intersects(B) }(), len(ii) > 0; g != w {
		return fail("intersects-raw-mismatch", "(raw A).Intersects(B) = %v want %v; raw A=%s B=%s", g, w, show(c.A), show(nb))
	}
	if g, w := A.Intersects(B), len(ii) > 0; g != w {
		return fail("intersects-mismatch", "A.Intersects(B) = %v want %v; A=%s B=%s", g, w, show(na), show(nb))
	}
	if g, w := B.Intersects(A), len(ii) > 0; g != w {
		return fail("intersects-mismatch", "B.Intersects(A) = %v want %v; A=%s B=%s", g, w, show(na), show(nb))
	}
	for _, p := range c.Probes {
		w := canon(ivInter(ia, []iv{{loOf(p), hiOf(p)}}))
		if g := fromCU(s2.CellUnionFromIntersectionWithCellID(A, s2.CellID(p))); !eqIDs(g, w) {
			return fail("intersection-cellid-mismatch", "CellUnionFromIntersectionWithCellID(%s, %d/%x) = %s want %s", show(na), levelOf(p), p, show(g), show(w))
		}
	}
	// Laws, through the library's own operations on the library's own results
	// (a second, metamorphic line of evidence): (A\B) ∪ (A∩B) = A, (A\B) ∩ B = ∅, A∩B ⊆ A.
	gi := s2.CellUnionFromIntersection(A, B)
	if g := fromCU(s2.CellUnionFromUnion(toCU(gdab), gi)); !eqIDs(g, na) {
		return fail("law-partition", "(A\\B) ∪ (A∩B) = %s, A = %s", show(g), show(na))
	}
	if g := s2.CellUnionFromIntersection(toCU(gdab), B); len(g) != 0 {
		return fail("law-difference-disjoint", "(A\\B) ∩ B = %s", show(fromCU(g)))
	}
	if !A.Contains(gi) || !B.Contains(gi) {
		return fail("law-intersection-subset", "A∩B not contained in both operands")
	}
	return o
}

// ---------------------------------------------------------------- c) membership, counting, denormalize

type memberCase struct {
	IDs      []uint64
	Probes   []uint64
	SplitSel []int // normalized cells (index mod len) replaced by their children → valid, un-normalized union
	MinLevel int
	LevelMod int
}

func genMember(t *rapid.T) memberCase {
	ids := genIDs(t, genSize(t), nil)
	c := memberCase{IDs: ids}
	c.Probes = genProbes(t, rapid.IntRange(1, 12).Draw(t, "nprobe"), ids)
	c.SplitSel = rapid.SliceOfN(rapid.IntRange(0, 400), 0, 4).Draw(t, "splitsel")
	ml := rapid.IntRange(0, maxLevel).Draw(t, "minlevel")
	if len(ids) > 0 && rapid.IntRange(0, 3).Draw(t, "mlrel") != 0 {
		ml = levelOf(ids[rapid.IntRange(0, len(ids)-1).Draw(t, "mlpick")]) + rapid.IntRange(-3, 3).Draw(t, "mloff")
		ml = max(0, min(maxLevel, ml))
	}
	c.MinLevel = ml
	c.LevelMod = rapid.IntRange(1, 3).Draw(t, "levelmod")
	return c
}

const denormCap = 3000

func denormLevel(level, minLevel, levelMod int) int {
	l := max(level, minLevel)
	for (l-minLevel)%levelMod != 0 && l < maxLevel {
		l++
	}
	return l
}

func checkMember(c memberCase) ev.Outcome {
	o := ev.Outcome{}
	if !allValid(c.IDs, c.Probes) || c.LevelMod < 1 || c.LevelMod > 3 || c.MinLevel < 0 || c.MinLevel > maxLevel {
		o.Skip = true
		return o
	}
	ivs := toIntervals(c.IDs)
	norm := canon(ivs)
	N := toCU(norm)

	// valid but un-normalized variant: some cells replaced by their four children
	vsplit := map[int]bool{}
	for _, s := range c.SplitSel {
		if len(norm) > 0 {
			vsplit[s%len(norm)] = true
		}
	}
	var vv []uint64
	for i, id := range norm {
		if vsplit[i] && levelOf(id) < maxLevel {
			for k := 0; k < 4; k++ {
				vv = append(vv, childOf(id, k))
			}
		} else {
			vv = append(vv, id)
		}
	}
	V := toCU(vv)
	unnormalized := len(vv) != len(norm)

	inside, outside, straddle := 0, 0, 0
	for _, p := range c.Probes {
		lo, hi := loOf(p), hiOf(p)
		wc := ivContainsRange(ivs, lo, hi)
		wi := ivIntersectsRange(ivs, lo, hi)
		switch {
		case wc:
			inside++
		case wi:
			straddle++
		default:
			outside++
		}
		id := s2.CellID(p)
		if g := N.ContainsCellID(id); g != wc {
			return fail("containscellid", "ContainsCellID(%s, %d/%x) = %v want %v", show(norm), levelOf(p), p, g, wc)
		}
		if g := N.IntersectsCellID(id); g != wi {
			return fail("intersectscellid", "IntersectsCellID(%s, %d/%x) = %v want %v", show(norm), levelOf(p), p, g, wi)
		}
		if unnormalized {
			// documented caveat: four children do not "contain" their parent
			w := false
			for _, v := range vv {
				if containsID(v, p) {
					w = true
					break
				}
			}
			if g := V.ContainsCellID(id); g != w {
				return fail("containscellid-unnormalized", "ContainsCellID(valid un-normalized %s, %d/%x) = %v want %v", show(vv), levelOf(p), p, g, w)
			}
			if g := V.IntersectsCellID(id); g != wi {
				return fail("intersectscellid-unnormalized", "IntersectsCellID(valid un-normalized %s, %d/%x) = %v want %v", show(vv), levelOf(p), p, g, wi)
			}
		}
		if levelOf(p) == maxLevel {
			pt := id.Point()
			if g := N.ContainsPoint(pt); g != wc {
				if s2.CellFromPoint(pt).ID() != id {
					return fail("c01-leaf-roundtrip", "CellFromPoint(leaf.Point()) != leaf for %x", p)
				}
				return fail("containspoint", "ContainsPoint(%s, centre of leaf %x) = %v want %v", show(norm), p, g, wc)
			}
		} else if len(c.Probes) <= 4 {
			cell := s2.CellFromCellID(id)
			if g := N.ContainsCell(cell); g != wc {
				return fail("containscell", "ContainsCell(%s, %d/%x) = %v want %v", show(norm), levelOf(p), p, g, wc)
			}
			if g := N.IntersectsCell(cell); g != wi {
				return fail("intersectscell", "IntersectsCell(%s, %d/%x) = %v want %v", show(norm), levelOf(p), p, g, wi)
			}
		}
	}
	switch {
	case len(norm) == 0:
		o.Class = "empty-union"
	case straddle > 0 && inside > 0 && outside > 0:
		o.Class = "inside+straddle+outside"
	case straddle > 0:
		o.Class = "straddle"
	case inside > 0 && outside > 0:
		o.Class = "inside+outside"
	case inside > 0:
		o.Class = "inside-only"
	default:
		o.Class = "outside-only"
	}
	o.NonTrivial = straddle > 0 && inside > 0
	o.Counts = map[string]int{"probes": len(c.Probes)}

	if g, w := N.LeafCellsCovered(), int64(ivCount(ivs)); g != w {
		return fail("leafcellscovered", "LeafCellsCovered(%s) = %d want %d", show(norm), g, w)
	}
	if g, w := V.LeafCellsCovered(), int64(ivCount(ivs)); g != w {
		return fail("leafcellscovered", "LeafCellsCovered(%s) = %d want %d", show(vv), g, w)
	}

	// Denormalize: exact expected list (input order, children in curve order).
	minLevel := c.MinLevel
	count := func(ml int) uint64 {
		var n uint64
		for _, id := range norm {
			n += uint64(1) << uint(2*(denormLevel(levelOf(id), ml, c.LevelMod)-levelOf(id)))
			if n > 1<<40 {
				return n
			}
		}
		return n
	}
	for minLevel > 0 && count(minLevel) > denormCap {
		minLevel--
	}
	if count(minLevel) <= denormCap {
		var want []uint64
		expanded := false
		for _, id := range norm {
			nl := denormLevel(levelOf(id), minLevel, c.LevelMod)
			if nl != levelOf(id) {
				expanded = true
			}
			s := sizeAtLevel(nl)
			for p := loOf(id); p <= hiOf(id); p += s {
				want = append(want, mkCell(p, s))
			}
		}
		d := toCU(norm)
		d.Denormalize(minLevel, c.LevelMod)
		got := fromCU(d)
		if !eqIDs(got, want) {
			return fail("denormalize", "Denormalize(%s; minLevel=%d, levelMod=%d) = %s want %s", show(norm), minLevel, c.LevelMod, show(got), show(want))
		}
		if expanded {
			o.Counts["denorm-expanded"] = 1
		}
		d.Normalize()
		if !eqIDs(fromCU(d), norm) {
			return fail("denormalize-roundtrip", "Normalize(Denormalize(x)) != x for %s", show(norm))
		}
	}
	return o
}

// ---------------------------------------------------------------- d) ranges and MaxTile

type rangeCase struct {
	// Begin, End: leaf indices, 0 <= Begin <= End <= totalLeaves.
	Begin, End uint64
	// Ci, Limit: arbitrary valid cells (Limit may be the end sentinel) for MaxTile.
	Ci, Limit uint64
}

func genRange(t *rapid.T) rangeCase {
	b := genLeafIndex(t, nil)
	var e uint64
	switch rapid.IntRange(0, 9).Draw(t, "ekind") {
	case 4:
		e = b
	case 6:
		e = min(b+1, totalLeaves)
	default:
		e = genLeafIndex(t, []uint64{ancestorAt(leafID(min(b, totalLeaves-1)), rapid.IntRange(0, maxLevel).Draw(t, "elev"))})
	}
	if e < b {
		b, e = e, b
	}
	ci := genProbes(t, 1, nil)[0]
	pool := []uint64{ci}
	var lim uint64
	if rapid.IntRange(0, 9).Draw(t, "limsent") == 0 {
		lim = endSentinel
	} else {
		lim = genProbes(t, 1, pool)[0]
		// mostly the interesting order: the limit starts after the cell starts
		if loOf(lim) < loOf(ci) && rapid.IntRange(0, 3).Draw(t, "keeporder") != 0 {
			ci, lim = lim, ci
		}
	}
	return rangeCase{Begin: b, End: e, Ci: ci, Limit: lim}
}

func checkRange(c rangeCase) ev.Outcome {
	o := ev.Outcome{}
	if !(c.Begin <= c.End && c.End <= totalLeaves) || !validID(c.Ci) || !(validID(c.Limit) || c.Limit == endSentinel) {
		o.Skip = true
		return o
	}
	var want []uint64
	if c.Begin < c.End {
		want = canon([]iv{{c.Begin, c.End - 1}})
	}
	begin, end := s2.CellID(leafID(c.Begin)), s2.CellID(leafID(c.End))
	got := fromCU(s2.CellUnionFromRange(begin, end))
	lv := map[int]bool{}
	for _, id := range want {
		lv[levelOf(id)] = true
	}
	faces := 0
	if c.Begin < c.End {
		faces = int((c.End-1)/faceLeaves-c.Begin/faceLeaves) + 1
	}
	switch {
	case c.Begin == c.End:
		o.Class = "empty-range"
	case c.End-c.Begin == 1:
		o.Class = "single-leaf"
	case c.End-c.Begin == totalLeaves:
		o.Class = "whole-sphere"
	case faces > 1:
		o.Class = "multi-face"
	case len(want) == 1:
		o.Class = "one-cell"
	default:
		o.Class = "one-face"
	}
	o.NonTrivial = len(lv) >= 3
	o.Counts = map[string]int{"tiles": len(want)}
	if !eqIDs(got, want) {
		return fail("range-tiling", "CellUnionFromRange(leaf %d, leaf %d) = %s want the minimal tiling %s", c.Begin, c.End, show(got), show(want))
	}
	x := toCU(got)
	if !x.IsNormalized() {
		return fail("range-not-normalized", "CellUnionFromRange(leaf %d, leaf %d) = %s is not normalized", c.Begin, c.End, show(got))
	}
	// The documented tiling loop started from the leaf, one MaxTile at a time.
	p := c.Begin
	for i := 0; i <= len(want); i++ {
		g := uint64(s2.CellID(leafID(p)).MaxTile(end))
		if i == len(want) {
			if g != uint64(end) {
				return fail("maxtile-end", "leaf %d .MaxTile(limit leaf %d) = %x, want the limit", p, c.End, g)
			}
			break
		}
		if g != want[i] {
			return fail("maxtile-step", "leaf %d .MaxTile(limit leaf %d) = %d/%x want %d/%x", p, c.End, levelOf(g), g, levelOf(want[i]), want[i])
		}
		p = hiOf(want[i]) + 1
	}

	// MaxTile on arbitrary cells: "the largest cell with the same RangeMin such
	// that RangeMax < limit.RangeMin; limit if no such cell exists".
	start := loOf(c.Ci)
	limLo := totalLeaves
	if c.Limit != endSentinel {
		limLo = loOf(c.Limit)
	}
	wantTile := c.Limit
	if start < limLo {
		k := tz2(start)
		for k > 0 && start+(uint64(1)<<uint(2*k))-1 >= limLo {
			k--
		}
		wantTile = mkCell(start, uint64(1)<<uint(2*k))
	}
	gt := uint64(s2.CellID(c.Ci).MaxTile(s2.CellID(c.Limit)))
	if gt != wantTile {
		return fail("maxtile-general", "%d/%x .MaxTile(%x) = %x want %x", levelOf(c.Ci), c.Ci, c.Limit, gt, wantTile)
	}
	switch {
	case start >= limLo:
		o.Counts["maxtile:limit"] = 1
	case levelOf(wantTile) > levelOf(c.Ci):
		o.Counts["maxtile:shrunk"] = 1
	case levelOf(wantTile) < levelOf(c.Ci):
		o.Counts["maxtile:grown"] = 1
	default:
		o.Counts["maxtile:same"] = 1
	}
	return o
}

// ---------------------------------------------------------------- e) s2intersect.Find

type findCase struct {
	Unions [][]uint64
}

func genFind(t *rapid.T) findCase {
	n := rapid.IntRange(2, 6).Draw(t, "nunions")
	if rapid.IntRange(0, 5).Draw(t, "many") == 0 {
		n = rapid.IntRange(7, 12).Draw(t, "nunions2")
	}
	small := false
	if rapid.IntRange(0, 11).Draw(t, "verymany") == 0 {
		// two-digit union indices (up to 30 unions of a few cells each)
		n = rapid.IntRange(13, 30).Draw(t, "nunions3")
		small = true
	}
	var c findCase
	var pool []uint64
	for i := 0; i < n; i++ {
		sz := 6
		if rapid.IntRange(0, 3).Draw(t, "big") == 0 {
			sz = 25
		}
		if small {
			sz = 3
		}
		var u []uint64
		if i > 0 && rapid.IntRange(0, 5).Draw(t, "copy") == 0 {
			// same cells as an earlier union (limits at identical leaves), possibly extended
			u = append(u, c.Unions[rapid.IntRange(0, i-1).Draw(t, "copyof")]...)
			u = append(u, genIDs(t, 2, pool)...)
		} else {
			u = genIDs(t, sz, pool)
		}
		c.Unions = append(c.Unions, u)
		pool = append(pool, u...)
		if len(pool) > 400 {
			pool = pool[len(pool)-400:]
		}
	}
	return c
}

func checkFind(c findCase) ev.Outcome {
	o := ev.Outcome{}
	if len(c.Unions) > 32 || !allValid(c.Unions...) {
		o.Skip = true
		return o
	}
	n := len(c.Unions)
	sets := make([][]iv, n)
	var cuts []uint64
	for i, u := range c.Unions {
		sets[i] = toIntervals(u)
		for _, x := range sets[i] {
			cuts = append(cuts, x.lo, x.hi+1)
		}
	}
	sort.Slice(cuts, func(i, j int) bool { return cuts[i] < cuts[j] })
	// model: elementary segments between consecutive cut points, grouped by the
	// set of unions that cover them
	segs := map[uint32][]iv{}
	for i := 0; i+1 < len(cuts); i++ {
		if cuts[i] == cuts[i+1] {
			continue
		}
		var key uint32
		cnt := 0
		for k := 0; k < n; k++ {
			if ivContainsRange(sets[k], cuts[i], cuts[i]) {
				key |= 1 << uint(k)
				cnt++
			}
		}
		if cnt >= 2 {
			segs[key] = append(segs[key], iv{cuts[i], cuts[i+1] - 1})
		}
	}
	maxDeg := 0
	for key := range segs {
		d := 0
		for k := 0; k < n; k++ {
			if key>>uint(k)&1 != 0 {
				d++
			}
		}
		maxDeg = max(maxDeg, d)
	}
	o.Class = fmt.Sprintf("regions=%s,maxdeg=%s", bucket(len(segs)), bucket(maxDeg))
	o.NonTrivial = len(segs) >= 2 && maxDeg >= 3
	o.Counts = map[string]int{"unions": n, "regions": len(segs)}

	in := make([]s2.CellUnion, n)
	for i, u := range c.Unions {
		in[i] = toCU(u) // Find sorts its arguments in place: hand it copies
	}
	res := s2intersect.Find(in)
	seen := map[uint32]bool{}
	emptyEntry := ""
	for _, r := range res {
		var key uint32
		if len(r.Indices) < 2 {
			return fail("find-indices", "Find returned an Intersection with Indices %v", r.Indices)
		}
		for i, x := range r.Indices {
			if x < 0 || x >= n || (i > 0 && r.Indices[i-1] >= x) {
				return fail("find-indices", "Find returned Indices %v (not sorted/distinct/in range, %d unions)", r.Indices, n)
			}
			key |= 1 << uint(x)
		}
		if seen[key] {
			return fail("find-duplicate-key", "Find returned two Intersections with Indices %v", r.Indices)
		}
		seen[key] = true
		got := fromCU(r.Intersection)
		want := canon(mergeIvs(append([]iv(nil), segs[key]...)))
		if len(got) == 0 && len(want) == 0 {
			emptyEntry = fmt.Sprint(r.Indices)
			continue
		}
		if !eqIDs(got, want) {
			return fail("find-mismatch", "Find: Intersection for Indices %v = %s, want exactly the leaves covered by exactly these unions = %s; unions=%s",
				r.Indices, show(got), show(want), showUnions(c.Unions))
		}
	}
	for key := range segs {
		if !seen[key] {
			return fail("find-missing", "Find: no Intersection for index set %b although %s is covered by exactly these unions; unions=%s",
				key, show(canon(mergeIvs(append([]iv(nil), segs[key]...)))), showUnions(c.Unions))
		}
	}
	if emptyEntry != "" {
		return fail("find-empty-intersection", "Find returned an Intersection with Indices %s and an empty cell union (no leaf is covered by exactly these unions); unions=%s",
			emptyEntry, showUnions(c.Unions))
	}
	return o
}

func showUnions(us [][]uint64) string {
	var sb strings.Builder
	for i, u := range us {
		fmt.Fprintf(&sb, " %d:%s", i, show(u))
	}
	return sb.String()
}

func bucket(n int) string {
	switch {
	case n <= 3:
		return fmt.Sprint(n)
	case n <= 6:
		return "4-6"
	case n <= 15:
		return "7-15"
	default:
		return "16+"
	}
}

// ---------------------------------------------------------------- f) CellIndex

type idxCell struct {
	ID    uint64
	Label int32
}

type indexCase struct {
	Cells []idxCell
	// Visit: bit i%64 of Visit[i/64] selects range i for the monotone
	// contents-iterator walk (empty slice = all ranges).
	Visit []uint64
	// Order: ranges (index mod #ranges) visited in this arbitrary order with one
	// contents iterator ("at least once").
	Order []int
	Seeks []uint64 // leaf indices
	Adv   []int
}

func genIndex(t *rapid.T) indexCase {
	ids := genIDs(t, genSize(t), nil)
	if len(ids) > 200 {
		ids = ids[:200]
	}
	c := indexCase{}
	wide := rapid.Bool().Draw(t, "widelabels")
	for _, id := range ids {
		var l int32
		if wide {
			l = rapid.Int32Range(0, 1<<31-1).Draw(t, "label")
		} else {
			l = rapid.Int32Range(0, 3).Draw(t, "label")
		}
		c.Cells = append(c.Cells, idxCell{id, l})
	}
	if rapid.Bool().Draw(t, "subset") {
		c.Visit = rapid.SliceOfN(rapid.Uint64(), 1, 7).Draw(t, "visit")
	}
	c.Order = rapid.SliceOfN(rapid.IntRange(0, 1000), 0, 12).Draw(t, "order")
	ns := rapid.IntRange(0, 6).Draw(t, "nseek")
	for i := 0; i < ns; i++ {
		p := genLeafIndex(t, ids)
		if p >= totalLeaves {
			p = totalLeaves - 1
		}
		c.Seeks = append(c.Seeks, p)
	}
	c.Adv = rapid.SliceOfN(rapid.IntRange(0, 40), 0, 5).Draw(t, "adv")
	return c
}

type pair struct {
	id    uint64
	label int32
}

func sortPairs(p []pair) {
	sort.Slice(p, func(i, j int) bool {
		if p[i].id != p[j].id {
			return p[i].id < p[j].id
		}
		return p[i].label < p[j].label
	})
}

func eqPairs(a, b []pair) bool {
	if len(a) != len(b) {
		return false
	}
	for i := range a {
		if a[i] != b[i] {
			return false
		}
	}
	return true
}

func showPairs(p []pair) string {
	var sb strings.Builder
	sb.WriteByte('{')
	for i, x := range p {
		if i >= 16 {
			fmt.Fprintf(&sb, " …(%d)", len(p))
			break
		}
		fmt.Fprintf(&sb, " (%d/%x,%d)", levelOf(x.id), x.id, x.label)
	}
	sb.WriteString(" }")
	return sb.String()
}

type rng struct {
	lo, hi uint64 // leaf indices, closed
	want   []pair // sorted multiset of (cell,label) containing the range
}

func checkIndex(c indexCase) ev.Outcome {
	o := ev.Outcome{}
	for _, x := range c.Cells {
		if !validID(x.ID) || x.Label < 0 {
			o.Skip = true
			return o
		}
	}
	var idx s2.CellIndex
	for i := 0; i < len(c.Cells); {
		// runs of equal labels go through AddCellUnion, single cells through Add
		j := i + 1
		for j < len(c.Cells) && c.Cells[j].Label == c.Cells[i].Label {
			j++
		}
		if j-i >= 2 {
			var cu s2.CellUnion
			for _, x := range c.Cells[i:j] {
				cu = append(cu, s2.CellID(x.ID))
			}
			idx.AddCellUnion(cu, c.Cells[i].Label)
		} else {
			idx.Add(s2.CellID(c.Cells[i].ID), c.Cells[i].Label)
		}
		i = j
	}
	idx.Build()

	limitIter := 2*len(c.Cells) + 8
	// 1. plain iterator: the ranges partition [first leaf, end) in increasing order
	it := s2.NewCellIndexRangeIterator(&idx)
	var rs []rng
	var empties []bool
	next := uint64(1) // id of the first leaf
	steps := 0
	for it.Begin(); !it.Done(); it.Next() {
		if steps++; steps > limitIter {
			return fail("index-iteration-runaway", "range iterator made more than %d steps for %d cells", limitIter, len(c.Cells))
		}
		s, l := uint64(it.StartID()), uint64(it.LimitID())
		if s != next {
			return fail("index-partition", "range %d starts at %x, previous range ended at %x", len(rs), s, next)
		}
		if s&1 == 0 || l&1 == 0 || l <= s || l > endSentinel {
			return fail("index-partition", "range %d = [%x,%x) is not a non-empty range of leaf ids", len(rs), s, l)
		}
		next = l
		rs = append(rs, rng{lo: (s - 1) / 2, hi: (l-1)/2 - 1})
		empties = append(empties, it.IsEmpty())
	}
	if next != endSentinel {
		return fail("index-partition", "ranges end at %x, not at the end of the leaf space %x", next, endSentinel)
	}
	if uint64(it.StartID()) != endSentinel || !it.IsEmpty() {
		return fail("index-done-state", "iterator done: StartID=%x (want %x) IsEmpty=%v (want true)", uint64(it.StartID()), endSentinel, it.IsEmpty())
	}

	// 2. contents of each range == {(cell,label) ⊇ range} == {(cell,label) ∩ range ≠ ∅}
	maxDepth, nonEmpty := 0, 0
	for i := range rs {
		r := &rs[i]
		straddle := false
		for _, x := range c.Cells {
			lo, hi := loOf(x.ID), hiOf(x.ID)
			if lo <= r.lo && r.hi <= hi {
				r.want = append(r.want, pair{x.ID, x.Label})
			} else if lo <= r.hi && r.lo <= hi {
				straddle = true
			}
		}
		if straddle {
			return fail("index-range-straddles", "range %d = leaves [%d,%d] is only partly covered by an indexed cell", i, r.lo, r.hi)
		}
		sortPairs(r.want)
		maxDepth = max(maxDepth, len(r.want))
		if len(r.want) > 0 {
			nonEmpty++
		}
		if empties[i] != (len(r.want) == 0) {
			return fail("index-isempty", "range %d = leaves [%d,%d]: IsEmpty=%v but %d indexed cells contain it", i, r.lo, r.hi, empties[i], len(r.want))
		}
	}
	dupPairs := false
	{
		m := map[pair]bool{}
		for _, x := range c.Cells {
			p := pair{x.ID, x.Label}
			if m[p] {
				dupPairs = true
			}
			m[p] = true
		}
	}
	switch {
	case len(c.Cells) == 0:
		o.Class = "empty-index"
	case maxDepth >= 4:
		o.Class = "depth>=4"
	case maxDepth >= 2:
		o.Class = "depth2-3"
	default:
		o.Class = "depth1"
	}
	if dupPairs {
		o.Class += "+dup-pairs"
	}
	o.NonTrivial = maxDepth >= 3 && nonEmpty >= 3
	o.Counts = map[string]int{"ranges": len(rs), "nonempty-ranges": nonEmpty}

	readContents := func(ci *s2.CellIndexContentsIterator, r *s2.CellIndexRangeIterator) ([]pair, bool) {
		var out []pair
		n := 0
		for ci.StartUnion(r); !ci.Done(); ci.Next() {
			if n++; n > len(c.Cells)+2 {
				return out, false
			}
			out = append(out, pair{uint64(ci.CellID()), ci.Label()})
		}
		return out, true
	}
	shared := s2.NewCellIndexContentsIterator(&idx)
	i := 0
	for it.Begin(); !it.Done(); it.Next() {
		var got []pair
		var ok bool
		if i%2 == 0 {
			shared.Clear()
			got, ok = readContents(shared, it)
		} else {
			got, ok = readContents(s2.NewCellIndexContentsIterator(&idx), it)
		}
		if !ok {
			return fail("index-contents-runaway", "contents iterator of range %d does not terminate", i)
		}
		sortPairs(got)
		if !eqPairs(got, rs[i].want) {
			return fail("index-contents", "range %d = leaves [%d,%d]: contents %s want %s", i, rs[i].lo, rs[i].hi, showPairs(got), showPairs(rs[i].want))
		}
		i++
	}

	// 3. Prev on the plain iterator walks the same ranges backwards
	it.Finish()
	if !it.Done() {
		return fail("index-finish", "Finish() does not make the iterator done")
	}
	for k := len(rs) - 1; k >= 0; k-- {
		if !it.Prev() {
			return fail("index-prev", "Prev() = false before reaching the first range (at %d)", k)
		}
		if (uint64(it.StartID())-1)/2 != rs[k].lo {
			return fail("index-prev", "Prev(): positioned at leaf %d want range %d starting at leaf %d", (uint64(it.StartID())-1)/2, k, rs[k].lo)
		}
	}
	if it.Prev() || uint64(it.StartID()) != 1 {
		return fail("index-prev", "Prev() at the first range: must return false and stay")
	}

	// 4. the non-empty iterator visits exactly the non-empty ranges, both ways
	ne := s2.NewCellIndexNonEmptyRangeIterator(&idx)
	var neIdx []int
	for k := range rs {
		if len(rs[k].want) > 0 {
			neIdx = append(neIdx, k)
		}
	}
	k := 0
	steps = 0
	for ne.Begin(); !ne.Done(); ne.Next() {
		if steps++; steps > limitIter {
			return fail("index-iteration-runaway", "non-empty range iterator runs away")
		}
		if k >= len(neIdx) {
			return fail("index-nonempty", "non-empty iterator visits more than the %d non-empty ranges", len(neIdx))
		}
		r := rs[neIdx[k]]
		if (uint64(ne.StartID())-1)/2 != r.lo || (uint64(ne.LimitID())-1)/2 != r.hi+1 || ne.IsEmpty() {
			return fail("index-nonempty", "non-empty iterator step %d: [%x,%x) empty=%v, want range of leaves [%d,%d]", k, uint64(ne.StartID()), uint64(ne.LimitID()), ne.IsEmpty(), r.lo, r.hi)
		}
		k++
	}
	if k != len(neIdx) {
		return fail("index-nonempty", "non-empty iterator visited %d of %d non-empty ranges", k, len(neIdx))
	}
	ne.Finish()
	for k := len(neIdx) - 1; k >= 0; k-- {
		if !ne.Prev() {
			return fail("index-nonempty-prev", "non-empty Prev() = false before the first non-empty range (at %d of %d)", k, len(neIdx))
		}
		if (uint64(ne.StartID())-1)/2 != rs[neIdx[k]].lo {
			return fail("index-nonempty-prev", "non-empty Prev(): at leaf %d want leaf %d", (uint64(ne.StartID())-1)/2, rs[neIdx[k]].lo)
		}
	}
	before := ne.StartID()
	wasDone := ne.Done()
	if ne.Prev() {
		return fail("index-nonempty-prev", "non-empty Prev() at the first non-empty range returned true")
	}
	if ne.StartID() != before || ne.Done() != wasDone {
		return fail("index-nonempty-prev", "non-empty Prev() at the first non-empty range moved the iterator from %x to %x", uint64(before), uint64(ne.StartID()))
	}

	// 5. one contents iterator over increasing ranges: every pair exactly once; again after Clear
	visit := func(i int) bool {
		if len(c.Visit) == 0 {
			return true
		}
		return c.Visit[(i/64)%len(c.Visit)]>>(uint(i)%64)&1 != 0
	}
	// expected multiset: input pairs (with multiplicity) that contain at least one visited range
	var wantOnce []pair
	for _, x := range c.Cells {
		lo, hi := loOf(x.ID), hiOf(x.ID)
		for i := range rs {
			if visit(i) && lo <= rs[i].lo && rs[i].hi <= hi {
				wantOnce = append(wantOnce, pair{x.ID, x.Label})
				break
			}
		}
	}
	sortPairs(wantOnce)
	mono := s2.NewCellIndexContentsIterator(&idx)
	for round := 0; round < 2; round++ {
		var got []pair
		i = 0
		for it.Begin(); !it.Done(); it.Next() {
			if visit(i) {
				g, ok := readContents(mono, it)
				if !ok {
					return fail("index-contents-runaway", "contents iterator does not terminate (monotone walk)")
				}
				got = append(got, g...)
			}
			i++
		}
		sortPairs(got)
		if !eqPairs(got, wantOnce) {
			return fail("index-exactly-once", "one ContentsIterator over %s increasing ranges (round %d, Clear between rounds): reported %s want each covering pair exactly once %s",
				map[bool]string{true: "all", false: "a subset of"}[len(c.Visit) == 0], round, showPairs(got), showPairs(wantOnce))
		}
		mono.Clear()
	}

	// 6. arbitrary order, no Clear: each reported pair contains the current range, and every pair
	// containing a visited range is reported at least once.
	if len(c.Order) > 0 {
		arb := s2.NewCellIndexContentsIterator(&idx)
		reported := map[pair]bool{}
		wantSet := map[pair]bool{}
		for _, oi := range c.Order {
			ri := oi % len(rs)
			it.Seek(s2.CellID(leafID(rs[ri].lo)))
			if (uint64(it.StartID())-1)/2 != rs[ri].lo {
				return fail("index-seek", "Seek(first leaf %d of range %d) positioned at leaf %d", rs[ri].lo, ri, (uint64(it.StartID())-1)/2)
			}
			g, ok := readContents(arb, it)
			if !ok {
				return fail("index-contents-runaway", "contents iterator does not terminate (arbitrary order)")
			}
			for _, p := range g {
				if !(loOf(p.id) <= rs[ri].lo && rs[ri].hi <= hiOf(p.id)) {
					return fail("index-contents-foreign", "arbitrary-order walk: pair (%x,%d) reported for range leaves [%d,%d] which it does not contain", p.id, p.label, rs[ri].lo, rs[ri].hi)
				}
				reported[p] = true
			}
			for _, p := range rs[ri].want {
				wantSet[p] = true
			}
		}
		for p := range wantSet {
			if !reported[p] {
				return fail("index-at-least-once", "arbitrary-order walk %v over %d ranges never reported (%d/%x,%d)", c.Order, len(rs), levelOf(p.id), p.id, p.label)
			}
		}
	}

	// 7. Seek: the positioned range contains the target (plain); the first non-empty range
	// whose end is beyond the target, or done (non-empty iterator).
	for _, t := range c.Seeks {
		target := s2.CellID(leafID(t))
		it.Seek(target)
		if it.Done() || !(uint64(it.StartID()) <= uint64(target) && uint64(target) < uint64(it.LimitID())) {
			return fail("index-seek", "Seek(leaf %d): positioned at [%x,%x) done=%v, which does not contain the target %x", t, uint64(it.StartID()), uint64(it.LimitID()), it.Done(), uint64(target))
		}
		ne.Seek(target)
		wantK := -1
		for _, k := range neIdx {
			if rs[k].hi >= t {
				wantK = k
				break
			}
		}
		if wantK < 0 {
			if !ne.Done() {
				return fail("index-seek-nonempty", "non-empty Seek(leaf %d): no non-empty range at or after the target, but the iterator is at %x", t, uint64(ne.StartID()))
			}
		} else if ne.Done() || (uint64(ne.StartID())-1)/2 != rs[wantK].lo {
			return fail("index-seek-nonempty", "non-empty Seek(leaf %d): at %x done=%v, want the non-empty range starting at leaf %d", t, uint64(ne.StartID()), ne.Done(), rs[wantK].lo)
		}
	}

	// 8. Advance (plain iterator, n >= 0)
	it.Begin()
	pos := 0
	for _, n := range c.Adv {
		ok := it.Advance(n)
		w := pos+n < len(rs)
		if ok != w {
			return fail("index-advance", "Advance(%d) at range %d of %d = %v want %v", n, pos, len(rs), ok, w)
		}
		if w {
			pos += n
		}
		if (uint64(it.StartID())-1)/2 != rs[pos].lo {
			return fail("index-advance", "after Advance(%d): at leaf %d want range %d (leaf %d)", n, (uint64(it.StartID())-1)/2, pos, rs[pos].lo)
		}
	}
	return o
}

func init() {
	ev.Define("normalize", ev.Options{
		Rule:  "multisets of 0..300 valid cell ids built from operations on fresh/earlier cells (duplicate, ancestor, descendant, 4 children, 3 children, complete/incomplete sibling staircases 2..6 levels deep, runs of adjacent cells across faces, whole faces/all six, other three siblings, boundary leaves, 16 grandchildren, cell+parent), rotated/reversed. Oracle: leaf-interval model, canonical form by greedy maximal aligned blocks; Normalize == canonical, idempotent, order independent, CellUnionFromUnion of a split; IsValid/IsNormalized == model on raw input, sorted maximal cells, a normal form with one cell split, lists with an invalid id. Non-trivial = a cascaded sibling collapse of depth >= 2 occurred.",
		Quick: 400000, Thorough: 3000000}, genNorm, checkNorm)
	ev.Define("set_operations", ev.Options{
		Rule:  "pairs (A,B) (+ optional third) where B's cells are drawn relative to A's (nested, straddling, siblings completing A's groups, adjacent, boundary leaves). Union on the raw multisets; Intersection, Difference (both orders), Contains, Intersects (both orders), IntersectionWithCellID on the normal forms; all == leaf-interval model (exact normalized lists); laws via the library's own operations. Non-trivial = some cell of one normal form strictly inside a cell of the other, the sets intersect, and A∪B collapses siblings over >= 2 levels.",
		Quick: 250000, Thorough: 1500000}, genOps, checkOps)
	ev.Define("membership", ev.Options{
		Rule:  "a union and 1..12 probe cells related to it (members, ancestors, children, inner/boundary/adjacent leaves, curve neighbours, siblings): ContainsCellID/IntersectsCellID (normalized union: leaf model; valid un-normalized variant: single-cell containment as documented), ContainsCell/IntersectsCell, ContainsPoint at leaf centres, LeafCellsCovered, Denormalize(minLevel, levelMod 1..3) == exact expected list and round trip. Non-trivial = probes both inside the union and straddling its boundary.",
		Quick: 200000, Thorough: 1500000}, genMember, checkMember)
	ev.Define("range_tiling", ev.Options{
		Rule:  "leaf ranges [begin,end) with ends at cell boundaries of any level ± small/aligned offsets, empty, single leaf, whole sphere, across faces, end = end-of-space sentinel: CellUnionFromRange == canonical minimal block decomposition, every step of the documented MaxTile loop; MaxTile on arbitrary (cell, limit) pairs == documented definition. Non-trivial = the tiling uses >= 3 different levels.",
		Quick: 400000, Thorough: 3000000}, genRange, checkRange)
	ev.Define("intersect_find", ev.Options{
		Rule:  "2..12 arbitrary (un-normalized) unions, later ones related to / copies of earlier ones; model: elementary segments between all interval end points grouped by the exact set of covering unions (>= 2); Find must return exactly one normalized Intersection per non-empty group with exactly its leaves. Non-trivial = >= 2 regions and a region covered by >= 3 unions.",
		Quick: 150000, Thorough: 1500000}, genFind, checkFind)
	ev.Define("cell_index", ev.Options{
		Rule:  "0..200 (cell,label) pairs with nesting, duplicates and duplicate pairs, built once: ranges partition the leaf space in order; contents of each range == pairs containing it == pairs intersecting it (multiset); IsEmpty; Prev; non-empty iterator forwards/backwards; one ContentsIterator over an increasing (sub)sequence of ranges reports each pair exactly once, again after Clear; arbitrary order reports each at least once and nothing foreign; Seek (plain: range contains target; non-empty: first non-empty range ending after it); Advance. Non-trivial = some range is contained in >= 3 indexed cells and >= 3 non-empty ranges.",
		Quick: 120000, Thorough: 1000000}, genIndex, checkIndex)
}
