package c17

import (
	"fmt"
	"math"

	"github.com/golang/geo/s1"
	"github.com/golang/geo/s2"
	"pgregory.net/rapid"

	"verifharness/internal/ev"
	"verifharness/internal/gen"
	"verifharness/internal/hp"
)

// edge_pair_distance: the minimum and the maximum distance between two edges
// ("edge-pair distance from the four vertex-edge cases unless the edges cross",
// "max distance through the antipode"). updateEdgePairMinDistance and
// updateEdgePairMaxDistance are unexported; their only public route is an
// EdgeQuery over an index holding one edge with the other edge as target, run
// here by brute force so that no index traversal or pruning (C08) is involved.

type pairQ struct {
	pair
	Anti bool // B is replaced by its antipodal reflection (exercises the Straight case of the maximum)
}

func genPairQ(t *rapid.T) pairQ {
	return pairQ{genPair(t), rapid.Bool().Draw(t, "anti")}
}

func neg(p s2.Point) s2.Point { return s2.Point{Vector: p.Mul(-1)} }

func queryPair(a0, a1, b0, b1 s2.Point, furthest bool, decoy *s2.Point) (float64, bool) {
	idx := s2.NewShapeIndex()
	if decoy != nil {
		// a point shape examined before the edge: the edge pair then has to improve
		// on a finite running extreme instead of on the initial infinite one
		pv := s2.PointVector{*decoy}
		idx.Add(&pv)
	}
	pl := s2.Polyline{a0, a1}
	idx.Add(&pl)
	e := s2.Edge{V0: b0, V1: b1}
	if furthest {
		q := s2.NewFurthestEdgeQuery(idx, s2.NewFurthestEdgeQueryOptions().UseBruteForce(true))
		d := q.Distance(s2.NewMaxDistanceToEdgeTarget(e))
		return float64(d), true
	}
	q := s2.NewClosestEdgeQuery(idx, s2.NewClosestEdgeQueryOptions().UseBruteForce(true))
	d := q.Distance(s2.NewMinDistanceToEdgeTarget(e))
	return float64(d), true
}

func checkEdgePairDistance(c pairQ) ev.Outcome {
	a0, a1, b0, b1 := c.A0.Pt(), c.A1.Pt(), c.B0.Pt(), c.B1.Pt()
	o := ev.Outcome{}
	if !unit(a0, a1, b0, b1) {
		o.Skip = true
		return o
	}
	if c.Anti {
		b0, b1 = neg(b0), neg(b1)
	}
	okEdge := func(g pe) bool { return boundApplies(g) && tinyFinding(g, "") == "" }
	// vertex–edge descriptions for the minimum, and from the antipodes for the maximum
	xs := [4]s2.Point{a0, a1, b0, b1}
	es := [4][2]s2.Point{{b0, b1}, {b0, b1}, {a0, a1}, {a0, a1}}
	var gmin, gmax [4]pe
	for i := range xs {
		gmin[i] = pointEdge(xs[i], es[i][0], es[i][1])
		gmax[i] = pointEdge(neg(xs[i]), es[i][0], es[i][1])
	}
	if !okEdge(gmin[0]) || !okEdge(gmin[2]) {
		o.Class = "excluded-edge(shorter than 1e-15 or within 1e-14 of antipodal)"
		return o
	}
	cross, degen := properCrossing(a0, a1, b0, b1)
	across, adegen := properCrossing(a0, a1, neg(b0), neg(b1))
	switch {
	case cross:
		o.Class = "crossing"
	case across:
		o.Class = "crossing-antipode"
	case degen:
		o.Class = "collinear-or-touching"
	case adegen:
		o.Class = "collinear-or-touching-antipode"
	default:
		o.Class = "disjoint"
	}

	// true minimum / maximum chord² and their tolerances (max of the per-vertex
	// bounds: |min cᵢ − min tᵢ| ≤ max bᵢ when |cᵢ − tᵢ| ≤ bᵢ)
	tmin, tmax := hp.F(5), hp.F(-1)
	tolMin, tolMax := 0.0, 0.0
	near := false
	for i := range xs {
		if gmin[i].d2.Cmp(tmin) < 0 {
			tmin = gmin[i].d2
		}
		tolMin = math.Max(tolMin, gmin[i].bf*boundAt(gmin[i].d2f, gmin[i].d2f))
		m := hp.Sub(hp.F(4), gmax[i].d2)
		if m.Cmp(tmax) > 0 {
			tmax = m
		}
		df, _ := s2.UpdateMaxDistance(xs[i], es[i][0], es[i][1], s1.NegativeChordAngle)
		tolMax = math.Max(tolMax, gmax[i].bf*(boundAt(4-float64(df), gmax[i].d2f)+pointMaxErr(float64(df)))+2*eps+8*eps/math.Max(math.Cos(gmax[i].edge/2), 1e-300))
		near = near || nearBoundary(gmin[i]) || nearBoundary(gmax[i])
	}
	if cross {
		tmin = hp.F(0)
	}
	if across {
		tmax = hp.F(4)
	}
	o.NonTrivial = cross || across || degen || adegen || near
	o.Ratios = map[string]float64{}
	for dir, ord := range [2][4]s2.Point{{a0, a1, b0, b1}, {b0, b1, a0, a1}} {
		who := [2]string{"index=A,target=B", "index=B,target=A"}[dir]
		got, ok := queryPair(ord[0], ord[1], ord[2], ord[3], false, nil)
		if !ok || math.IsNaN(got) || got < 0 || got > 4 {
			o.Err = fmt.Sprintf("closest edge query (%s) returned no single valid result (%v, %v)", who, got, ok)
			return o
		}
		if cross && got != 0 {
			o.Err = fmt.Sprintf("edges cross properly (exact determinants) but the minimum edge-pair distance (%s) is %.17g", who, got)
			return o
		}
		e := absDiff(got, tmin)
		o.Ratios["pair_min_err/bound"] = math.Max(o.Ratios["pair_min_err/bound"], e/tolMin)
		if e > tolMin {
			o.Err = fmt.Sprintf("minimum edge-pair distance (%s) chord² %.17g, true %.17g: |err| %.3g > bound %.3g (class %s)", who, got, hp.Float(tmin), e, tolMin, o.Class)
			return o
		}
		got, ok = queryPair(ord[0], ord[1], ord[2], ord[3], true, nil)
		if !ok || math.IsNaN(got) || got < 0 || got > 4 {
			o.Err = fmt.Sprintf("furthest edge query (%s) returned no single valid result (%v, %v)", who, got, ok)
			return o
		}
		if across && got != 4 {
			o.Err = fmt.Sprintf("edge A properly crosses the antipodal reflection of B but the maximum edge-pair distance (%s) is %.17g, not 4", who, got)
			return o
		}
		e = absDiff(got, tmax)
		o.Ratios["pair_max_err/bound"] = math.Max(o.Ratios["pair_max_err/bound"], e/tolMax)
		if e > tolMax {
			o.Err = fmt.Sprintf("maximum edge-pair distance (%s) chord² %.17g, true %.17g: |err| %.3g > bound %.3g (class %s)", who, got, hp.Float(tmax), e, tolMax, o.Class)
			return o
		}
		// The same queries with a decoy point indexed before the edge: far away for the
		// minimum (the antipode of the target's midpoint), on the target for the maximum
		// (its midpoint). The edge pair then has to beat a finite running extreme, and the
		// answer is the better of the two true values.
		if g := pointEdge(ord[2], ord[2], ord[3]); boundApplies(g) && g.degenerate == 0 && g.edge > 1e-9 && g.edge < math.Pi-1e-3 {
			mid := s2.Point{Vector: ord[2].Add(ord[3].Vector).Normalize()}
			far := neg(mid)
			gf := pointEdge(far, ord[2], ord[3])
			wantMin, tolM := tmin, tolMin
			if gf.d2.Cmp(wantMin) < 0 {
				wantMin = gf.d2
			}
			tolM = math.Max(tolM, gf.bf*boundAt(gf.d2f, gf.d2f))
			got, _ = queryPair(ord[0], ord[1], ord[2], ord[3], false, &far)
			if e := absDiff(got, wantMin); e > tolM {
				o.Err = fmt.Sprintf("minimum distance (%s) with a far decoy point indexed first: chord² %.17g, true %.17g: |err| %.3g > bound %.3g (class %s)", who, got, hp.Float(wantMin), e, tolM, o.Class)
				return o
			}
			// and with a decoy just behind the true minimum (perpendicular to the target at
			// its midpoint, 1e-6 resp. 1 % farther than the edge pair): only the vertex-edge
			// case that realises the minimum beats the running value
			if tf := hp.Float(tmin); tf > 1e-20 && tf < 1.9 && !cross {
				nrm := ord[2].PointCross(ord[3])
				for _, delta := range []float64{1e-6, 1e-2} {
					th := 2 * math.Asin(math.Sqrt(tf)/2) * (1 + delta)
					dp := gen.Fix(s2.Point{Vector: mid.Mul(math.Cos(th)).Add(nrm.Normalize().Mul(math.Sin(th))).Normalize()}, mid)
					gd := pointEdge(dp, ord[2], ord[3])
					w, tl := tmin, math.Max(tolMin, gd.bf*boundAt(gd.d2f, gd.d2f))
					if gd.d2.Cmp(w) < 0 {
						w = gd.d2
					}
					got, _ = queryPair(ord[0], ord[1], ord[2], ord[3], false, &dp)
					if e := absDiff(got, w); e > tl {
						o.Err = fmt.Sprintf("minimum distance (%s) with a decoy point %.3g farther than the edge pair indexed first: chord² %.17g, true %.17g: |err| %.3g > bound %.3g (class %s)", who, delta, got, hp.Float(w), e, tl, o.Class)
						return o
					}
				}
			}
			gm := pointEdge(neg(mid), ord[2], ord[3]) // max distance from mid to the target edge = 4 − min chord² from −mid
			mMax := hp.Sub(hp.F(4), gm.d2)
			wantMax := tmax
			if mMax.Cmp(wantMax) > 0 {
				wantMax = mMax
			}
			dfm, _ := s2.UpdateMaxDistance(mid, ord[2], ord[3], s1.NegativeChordAngle)
			tolX := math.Max(tolMax, gm.bf*(boundAt(4-float64(dfm), gm.d2f)+pointMaxErr(float64(dfm)))+2*eps+8*eps/math.Max(math.Cos(gm.edge/2), 1e-300))
			got, _ = queryPair(ord[0], ord[1], ord[2], ord[3], true, &mid)
			if e := absDiff(got, wantMax); e > tolX {
				o.Err = fmt.Sprintf("maximum distance (%s) with a decoy point on the target indexed first: chord² %.17g, true %.17g: |err| %.3g > bound %.3g (class %s)", who, got, hp.Float(wantMax), e, tolX, o.Class)
				return o
			}
		}
	}
	return o
}

func init() {
	ev.Define("edge_pair_distance", ev.Options{
		Rule:  "edge pairs as edge_pair, half with B reflected through the origin. Minimum and maximum distance between the two edges through brute-force closest/furthest EdgeQuery over a one-edge index (both roles). Oracle: exact proper-crossing test of A with B (minimum 0) / with −B (maximum exactly 4), else min / max over the four true vertex–edge values (320-bit). Bound: the largest of the four per-vertex bounds of min_distance / max_distance. Non-trivial = crossing, touching/collinear (also w.r.t. the antipode) or a vertex near the interior/endpoint decision boundary.",
		Quick: 20000, Thorough: 500000}, genPairQ, clean(checkEdgePairDistance))
	_ = gen.P{}
}
