package c17

import (
	"fmt"
	"math"

	"github.com/golang/geo/s1"
	"github.com/golang/geo/s2"

	"verifharness/internal/ev"
	"verifharness/internal/hp"
)

// point_on_line: PointOnLine / PointToLeft / PointToRight / PointOnRay, the
// "robust tangent construction" the interpolation functions are built on,
// against a·cos r + d̂·sin r with the direction d̂ in 320-bit arithmetic
// (tangent towards b, resp. the left / right normal of the edge).

func checkPointOnLine(c interp) (o ev.Outcome) {
	a, b := c.A.Pt(), c.B.Pt()
	if !unit(a, b) || math.IsNaN(c.AX) || math.IsInf(c.AX, 0) {
		o.Skip = true
		return o
	}
	g := pointEdge(a, a, b)
	o.Class = edgeClass(g)
	defer func() { tagRatios(&o, domainTag(g)) }()
	r := c.AX
	ha, hb := hpV(a), hpV(b)
	o.NonTrivial = g.edge < 1e-12 || g.edge > math.Pi-1e-6 || math.Abs(r) < 1e-12 || math.Abs(r) > math.Pi
	o.Ratios = map[string]float64{}
	fold := math.Mod(math.Abs(r), 2*math.Pi)
	if fold > math.Pi {
		fold = 2*math.Pi - fold
	}
	tol := tolPt * (1 + math.Abs(r))
	// the direction is resolvable: distinct, not exactly antipodal, not shorter than 1e-15
	proper := g.degenerate == 0 && g.edge >= tinyEdge && g.anti >= tinyEdge
	n := cross2(ha, hb)
	dirs := map[string]hp.V{}
	if proper {
		dirs["PointOnLine"] = n.Cross(ha).Unit()
		dirs["PointToLeft"] = n.Unit()
		dirs["PointToRight"] = n.Unit().Scale(hp.F(-1))
	}
	got := map[string]s2.Point{
		"PointOnLine":  s2.PointOnLine(a, b, s1.Angle(r)),
		"PointToLeft":  s2.PointToLeft(a, b, s1.Angle(r)),
		"PointToRight": s2.PointToRight(a, b, s1.Angle(r)),
	}
	for _, name := range []string{"PointOnLine", "PointToLeft", "PointToRight"} {
		p := got[name]
		if !finite(p) || !unit(p) {
			o.Err = fmt.Sprintf("%s(r=%.17g) = %v is not a finite unit point", name, r, p.Vector)
			o.Finding = tinyFinding(g, "online-nan")
			return o
		}
		// the result is |r| (folded into [0,π]) away from a, whatever the direction
		dd := hpAngle(ha, hpV(p))
		o.Ratios["online_distance_err/tol"] = math.Max(o.Ratios["online_distance_err/tol"], math.Abs(dd-fold)/tol)
		if math.Abs(dd-fold) > tol {
			o.Err = fmt.Sprintf("%s(r=%.17g): result is %.17g rad from a, want %.17g (diff %.3g > %.3g)", name, r, dd, fold, dd-fold, tol)
			o.Finding = tinyFinding(g, "online")
			return o
		}
		if d, ok := dirs[name]; ok {
			want := ha.Unit().Scale(hp.F(math.Cos(r))).Add(d.Scale(hp.F(math.Sin(r))))
			e := hpAngle(want, hpV(p))
			o.Ratios["online_position_err/tol"] = math.Max(o.Ratios["online_position_err/tol"], e/tol)
			if e > tol {
				o.Err = fmt.Sprintf("%s(r=%.17g): result is %.3g rad from the true point (> %.3g); edge %.3g rad", name, r, e, tol, g.edge)
				o.Finding = tinyFinding(g, "online")
				return o
			}
		}
	}
	// left and right are reflections of each other in the edge's plane, and both
	// are perpendicular to the line at a: the three results and a are mutually
	// consistent through PointOnRay with the documented direction
	if proper {
		dir := s2.Point{Vector: a.PointCross(b).Cross(a.Vector).Normalize()}
		if p := s2.PointOnRay(a, dir, s1.Angle(r)); p != got["PointOnLine"] {
			o.Err = fmt.Sprintf("PointOnRay(a, documented dir, r) = %v differs from PointOnLine = %v", p.Vector, got["PointOnLine"].Vector)
			return o
		}
	}
	return o
}

func init() {
	ev.Define("point_on_line", ev.Options{
		Rule:  "edges and distances as interpolate (r uniform ±2π, ±1e-300…1, constants, fractions of the edge). Oracle: a·cos r + d̂·sin r with d̂ the 320-bit tangent towards b (PointOnLine), left normal (PointToLeft), right normal (PointToRight). Claims: finite unit results exactly |r| (folded) from a within 1e-14(1+|r|) for every edge incl. a = ±b; within the same tolerance of the true point for edges ≥ 1e-15 from degenerate/antipodal; PointOnRay with the documented direction reproduces PointOnLine bit for bit. Non-trivial = edge < 1e-12 or within 1e-6 of antipodal, |r| < 1e-12 or > π.",
		Quick: 30000, Thorough: 1000000}, genInterp, clean(checkPointOnLine))
}
