// Package c17: edge distance, projection and interpolation primitives meet
// their documented error bounds and are consistent with one another.
//
// Oracle: 320-bit big.Float geometry on the raw float64 inputs (internal/hp).
// Cross products are always formed as (u+v)×(v−u) = 2·u×v, which has no
// cancellation for nearly parallel or nearly antipodal u, v, so the edge normal,
// the wedge (interior/endpoint) decision and all angles are accurate to ~1e-90
// for every generated input. Angles are taken with atan2(|u×v|, u·v) and
// asin-free formulas, so they are accurate near 0 and near π alike.
//
// Bounds written down before running (DESIGN.md §2.5):
//   - point–edge ChordAngle: minUpdateDistanceMaxError(d) re-implemented below
//     from the doc comment formula (edge_distances.go), with ε = 2^-52.
//   - vertex ChordAngle: 4.5·ε·d + 16·ε² (s1.ChordAngle.MaxPointError).
//   - points returned by Project / Interpolate / InterpolateAtDistance /
//     EdgePairClosestPoints: 1e-14 rad (≈ 10× the C++ kProjectPerpendicularError
//     and GetPointOnLineError), scaled as stated at each use.
package c17

import (
	"fmt"
	"math"
	"math/big"

	"github.com/golang/geo/r3"
	"github.com/golang/geo/s1"
	"github.com/golang/geo/s2"
	"pgregory.net/rapid"

	"verifharness/internal/ev"
	"verifharness/internal/exact"
	"verifharness/internal/gen"
	"verifharness/internal/hp"
)

const (
	eps   = 0x1p-52 // DBL_EPSILON, the ε of the doc comments
	sqrt3 = 1.7320508075688772
	// tolPt: a-priori positional tolerance (radians) for constructed points.
	tolPt = 1e-14
	// antipodalExcl: edges whose endpoints are within this many radians of
	// antipodal are outside the documented error bound (doc TODO says ~1e-15;
	// 10× margin). They stay in the no-NaN / range claims.
	antipodalExcl = 1e-14
	// tinyEdge: the property quantifies over degenerate edges and edges from
	// 1e-15 rad; shorter non-degenerate edges are generated too and reported
	// under their own classes.
	tinyEdge = 1e-15
)

// ---------------------------------------------------------------------------
// documented bounds (re-implemented from the doc comments)

func interiorMaxErr(d float64) float64 {
	if d >= 2 {
		return 0
	}
	b := math.Min(1.0, 0.5*d)
	a := math.Sqrt(b * (2 - b))
	return ((2.5+2*sqrt3+8.5*a)*a + (2+2*sqrt3/3+6.5*(1-b))*b + (23+16/sqrt3)*eps) * eps
}

func pointMaxErr(d float64) float64 { return 4.5*eps*d + 16*eps*eps }

func minDistMaxErr(d float64) float64 { return math.Max(interiorMaxErr(d), pointMaxErr(d)) }

// boundAt: the bound is a function of the distance; it is evaluated at both the
// reported and the true value and the larger is used (the function is not
// monotone at 90°).
func boundAt(got, want float64) float64 {
	return math.Max(minDistMaxErr(got), minDistMaxErr(want))
}

// ---------------------------------------------------------------------------
// high-precision geometry

func cross2(u, v hp.V) hp.V { return u.Add(v).Cross(v.Sub(u)) } // 2·u×v without cancellation

func hpAngle(u, v hp.V) float64 {
	c := hp.Quo(cross2(u, v).Norm(), hp.F(2))
	d := u.Dot(v)
	// scale both by the same factor so that tiny values do not underflow float64
	s := hp.Mul(u.Norm(), v.Norm())
	return math.Atan2(hp.Float(hp.Quo(c, s)), hp.Float(hp.Quo(d, s)))
}

func hpV(p s2.Point) hp.V { return hp.Vec(p.Vector) }

// pe is the exact-geometry description of point x against edge (a,b).
type pe struct {
	degenerate int // 0: proper edge, 1: a and b same direction, 2: exactly antipodal
	edge       float64
	da, db     float64    // angles x–a, x–b
	da2, db2   *big.Float // chord² x–a, x–b
	ma, mb     float64    // signed margins of the wedge test: x̂·t̂a and −x̂·t̂b (positive = inside)
	interior   bool
	sinGC      float64    // sine of the distance from x to the great circle
	d2         *big.Float // true chord² from x to the edge
	d2f        float64
	ang        float64 // true distance in radians
	anti       float64 // sin(edge) where a·b < 0: how far the edge is from antipodal (else 1)
	scaled     bool    // degenerate == 1 but a != b as floats (same direction, lengths differ by ulps)
	bf         float64 // bound factor: 1, or 2 when an input's |p|² is off 1 by more than 2ε (see normFactor)
}

// normFactor: the documented bounds budget a relative 2ε for input lengths
// ("may differ from 1 by up to 2ε each"), which covers |p|² within 2ε of 1
// per point (chord² then scales by ≤ 2ε; with the 2.5ε of rounding that is the
// 4.5ε of MaxPointError). Normalize output reaches |p|² = 1 ± 3ε and the
// generators go to ± 4ε (the doc's "length within 2ε"), where the same
// arithmetic gives up to 6.5ε. Such cases are checked against twice the bound
// and reported under their own ratio key.
func normFactor(ps ...s2.Point) float64 {
	for _, p := range ps {
		if math.Abs(p.Norm2()-1) > 2*eps {
			return 2
		}
	}
	return 1
}

func pointEdge(xp, ap, bp s2.Point) pe {
	x, a, b := hpV(xp), hpV(ap), hpV(bp)
	var r pe
	r.bf = normFactor(xp, ap, bp)
	r.edge = hpAngle(a, b)
	r.anti = 1
	r.da, r.db = hpAngle(x, a), hpAngle(x, b)
	r.da2, r.db2 = hp.Chord2(x, a), hp.Chord2(x, b)
	vertex := func() {
		if r.da2.Cmp(r.db2) <= 0 {
			r.d2, r.ang = r.da2, r.da
		} else {
			r.d2, r.ang = r.db2, r.db
		}
		r.d2f = hp.Float(r.d2)
	}
	n := cross2(a, b)
	if n.IsZero() {
		if a.Dot(b).Sign() > 0 {
			r.degenerate = 1
			r.scaled = ap != bp
		} else {
			r.degenerate = 2
		}
		vertex()
		return r
	}
	nn := n.Norm()
	xn, an, bn := x.Norm(), a.Norm(), b.Norm()
	if a.Dot(b).Sign() < 0 {
		r.anti = hp.Float(hp.Quo(nn, hp.Mul(hp.F(2), hp.Mul(an, bn))))
	}
	c1 := cross2(a, x).Dot(n)
	c2 := cross2(x, b).Dot(n)
	two := hp.F(2)
	r.ma = hp.Float(hp.Quo(c1, hp.Mul(two, hp.Mul(nn, hp.Mul(an, xn)))))
	r.mb = hp.Float(hp.Quo(c2, hp.Mul(two, hp.Mul(nn, hp.Mul(bn, xn)))))
	s := hp.Quo(hp.Abs(x.Dot(n)), hp.Mul(xn, nn))
	r.sinGC = hp.Float(s)
	r.interior = c1.Sign() > 0 && c2.Sign() > 0
	if !r.interior {
		vertex()
		return r
	}
	s2_ := hp.Mul(s, s)
	cos := hp.Sqrt(hp.Sub(hp.F(1), s2_))
	r.d2 = hp.Quo(hp.Mul(two, s2_), hp.Add(hp.F(1), cos))
	r.d2f = hp.Float(r.d2)
	r.ang = math.Atan2(hp.Float(s), hp.Float(cos))
	return r
}

func absDiff(got float64, want *big.Float) float64 {
	return math.Abs(hp.Float(hp.Sub(hp.F(got), want)))
}

func edgeClass(g pe) string {
	switch {
	case g.scaled:
		return "edge<1e-15"
	case g.degenerate == 1:
		return "edge=degenerate"
	case g.degenerate == 2 || g.edge > math.Pi-antipodalExcl:
		return "edge=antipodal-excluded"
	case g.edge < 1e-150:
		return "edge<1e-150"
	case g.edge < tinyEdge:
		return "edge<1e-15"
	case g.edge < 1e-6:
		return "edge<1e-6"
	case g.edge < math.Pi/2:
		return "edge<90deg"
	case g.edge < math.Pi-1e-3:
		return "edge<180deg-1e-3"
	default:
		return "edge-near-antipodal"
	}
}

// boundApplies: the documented error bound is claimed for this edge.
func boundApplies(g pe) bool {
	return g.degenerate == 1 || (g.degenerate == 0 && g.edge <= math.Pi-antipodalExcl)
}

// Finding classes (narrow, computed from the case):
//
//	norm-underflow-1e-150  a non-degenerate edge shorter than 1e-150 rad or within
//	                       1e-150 of antipodal (|a×b|² underflows in float64)
//	tiny-edge-lt-1e-15     a non-degenerate edge shorter than the property's 1e-15 rad
//	chord-exceeds-4        endpoint-case chord² above 4 (x antipodal to both endpoints)
//	project-near-pole      Project with x within 1e-6 rad of the edge's pole
const (
	findUnderflow = "norm-underflow-1e-150"
	findTiny      = "tiny-edge-lt-1e-15"
)

// tinyFinding gives failures on non-degenerate edges shorter than the
// property's 1e-15 rad (or underflowing next to antipodal) their own classes.
func tinyFinding(g pe, _ string) string {
	if g.degenerate == 0 && (g.edge < 1e-150 || g.anti < 1e-150) {
		return findUnderflow
	}
	if (g.degenerate == 0 && g.edge < tinyEdge) || g.scaled {
		return findTiny
	}
	return ""
}

// polyFinding is the same classification over all edges of a polyline.
func polyFinding(vs []s2.Point) string {
	f := ""
	for i := 1; i < len(vs); i++ {
		switch tinyFinding(pointEdge(vs[i-1], vs[i-1], vs[i]), "") {
		case findUnderflow:
			return findUnderflow
		case findTiny:
			f = findTiny
		}
	}
	return f
}

func unit(ps ...s2.Point) bool {
	for _, p := range ps {
		if !gen.Unit(p) {
			return false
		}
	}
	return true
}

func finite(p s2.Point) bool {
	n := p.X + p.Y + p.Z
	return !math.IsNaN(n) && !math.IsInf(n, 0)
}

// ---------------------------------------------------------------------------
// generators

func sign(t *rapid.T, l string) float64 {
	return float64(rapid.SampledFrom([]int{-1, 1}).Draw(t, l))
}

// tiny draws 0, or ±10^e with e in [lo, hi].
func tiny(t *rapid.T, l string, lo, hi float64) float64 {
	if rapid.IntRange(0, 7).Draw(t, l+".zero") == 0 {
		return 0
	}
	return sign(t, l+".s") * math.Pow(10, rapid.Float64Range(lo, hi).Draw(t, l+".e10"))
}

func dirAt(a s2.Point, th float64) r3.Vector {
	o := a.Ortho()
	o2 := a.Cross(o).Normalize()
	return o.Mul(math.Cos(th)).Add(o2.Mul(math.Sin(th)))
}

// along returns the point at distance l from a in direction dir (dir ⟂ a, unit).
func along(a s2.Point, dir r3.Vector, l float64) s2.Point {
	var v r3.Vector
	if math.Abs(l) < 1e-8 {
		v = a.Vector.Add(dir.Mul(l))
	} else {
		v = a.Mul(math.Cos(l)).Add(dir.Mul(math.Sin(l)))
	}
	return gen.Fix(s2.Point{Vector: v.Normalize()}, a)
}

func genEdge(t *rapid.T, l string) (a, b s2.Point) {
	a = gen.Base(t, l+".a")
	th := rapid.Float64Range(0, 2*math.Pi).Draw(t, l+".dir")
	if rapid.IntRange(0, 3).Draw(t, l+".axisdir") == 0 {
		th = float64(rapid.IntRange(0, 3).Draw(t, l+".quad")) * math.Pi / 2
	}
	dir := dirAt(a, th)
	switch rapid.IntRange(0, 14).Draw(t, l+".emode") {
	case 14:
		// around the property's lower limit: 1e-16 … 1e-13
		b = along(a, dir, math.Pow(10, rapid.Float64Range(-16, -13).Draw(t, l+".ulp10")))
	case 0:
		b = a
	case 1, 2, 3, 4:
		ln := math.Pow(10, rapid.Float64Range(-15, 0.4971).Draw(t, l+".len10"))
		b = along(a, dir, math.Min(ln, math.Pi-1e-3))
	case 5, 6:
		b = along(a, dir, rapid.Float64Range(0.01, math.Pi-1e-3).Draw(t, l+".len"))
	case 7:
		// shorter than the property's 1e-15: 1e-300 … 1e-15
		b = along(a, dir, math.Pow(10, rapid.Float64Range(-300, -15).Draw(t, l+".tiny10")))
	case 8:
		// nearly antipodal: π − 10^-k, k in [3, 17]
		d := math.Pow(10, -rapid.Float64Range(3, 17).Draw(t, l+".anti10"))
		v := a.Mul(-1).Add(dir.Mul(d))
		b = gen.Fix(s2.Point{Vector: v.Normalize()}, a)
	case 9:
		b = gen.Related(t, l+".rel", []s2.Point{a})
	case 10:
		b = gen.Perturb(t, l+".pert", a, 4)
	case 11:
		// long edges, 90° … 180°−1e-3
		b = along(a, dir, rapid.Float64Range(math.Pi/2, math.Pi-1e-3).Draw(t, l+".long"))
	default:
		b = gen.Base(t, l+".b")
	}
	return a, b
}

// frameOf returns float64 approximations of the edge normal, the tangent at a
// towards b, the tangent at b away from a, and the midpoint (generation only).
func frameOf(a, b s2.Point) (nv, ta, tb, m r3.Vector) {
	nv = a.PointCross(b).Vector
	sc := math.Max(math.Abs(nv.X), math.Max(math.Abs(nv.Y), math.Abs(nv.Z)))
	if sc > 0 && !math.IsInf(sc, 0) && !math.IsNaN(sc) {
		nv = nv.Mul(1 / sc).Normalize()
	} else {
		nv = a.Ortho()
	}
	ta = nv.Cross(a.Vector).Normalize()
	tb = nv.Cross(b.Vector).Normalize()
	m = a.Add(b.Vector)
	if m.Norm2() < 1e-20 {
		m = ta
	}
	m = m.Normalize()
	return
}

func onEdge(a, b s2.Point, s float64) r3.Vector {
	v := a.Mul(1 - s).Add(b.Mul(s))
	if v.Norm2() < 1e-20 {
		return a.Vector
	}
	return v.Normalize()
}

func genFrac(t *rapid.T, l string) float64 {
	switch rapid.IntRange(0, 4).Draw(t, l+".fm") {
	case 0:
		return rapid.SampledFrom([]float64{0, 1, 0.5, 0.25, 0.75}).Draw(t, l+".fc")
	case 1:
		return math.Pow(10, rapid.Float64Range(-18, -1).Draw(t, l+".f10"))
	case 2:
		return 1 - math.Pow(10, rapid.Float64Range(-16, -1).Draw(t, l+".g10"))
	default:
		return rapid.Float64Range(0, 1).Draw(t, l+".fu")
	}
}

// genX draws the query point relative to the edge.
func genX(t *rapid.T, l string, a, b s2.Point) s2.Point {
	nv, ta, tb, m := frameOf(a, b)
	var v r3.Vector
	phi := func() float64 {
		if rapid.IntRange(0, 3).Draw(t, l+".phim") == 0 {
			return tiny(t, l+".phit", -300, -1)
		}
		return rapid.Float64Range(-math.Pi/2, math.Pi/2).Draw(t, l+".phi")
	}
	switch rapid.IntRange(0, 14).Draw(t, l+".xmode") {
	case 0:
		return a
	case 1:
		return b
	case 2:
		v = onEdge(a, b, genFrac(t, l+".s"))
	case 3, 4:
		// next to the edge, 1e-300 … 1 away
		v = onEdge(a, b, genFrac(t, l+".s")).Add(nv.Mul(tiny(t, l+".off", -300, 0)))
	case 5:
		// on/next to the plane through a perpendicular to the edge (interior ↔ endpoint flips)
		p := phi()
		v = a.Mul(math.Cos(p)).Add(nv.Mul(math.Sin(p))).Add(ta.Mul(tiny(t, l+".d", -300, -6)))
	case 6:
		p := phi()
		v = b.Mul(math.Cos(p)).Add(nv.Mul(math.Sin(p))).Add(tb.Mul(tiny(t, l+".d", -300, -6)))
	case 7:
		// perpendicular bisector
		p := phi()
		tm := nv.Cross(m)
		v = m.Mul(math.Cos(p)).Add(nv.Mul(math.Sin(p))).Add(tm.Mul(tiny(t, l+".d", -300, -6)))
	case 8:
		// ±normal (90° from the whole great circle) plus tiny offsets
		v = nv.Mul(sign(t, l+".ns"))
		switch rapid.IntRange(0, 2).Draw(t, l+".nm") {
		case 0:
			v = v.Add(ta.Mul(tiny(t, l+".n1", -300, -1))).Add(m.Mul(tiny(t, l+".n2", -300, -1)))
		case 1:
			// per-coordinate 2^-k offsets (survive next to a dominant coordinate)
			k1 := rapid.IntRange(20, 1074).Draw(t, l+".k1")
			k2 := rapid.IntRange(20, 1074).Draw(t, l+".k2")
			v = v.Add(r3.Vector{X: math.Ldexp(1, -k1), Y: math.Ldexp(sign(t, l+".ks"), -k2), Z: math.Ldexp(1, -k1)})
		}
	case 9:
		// antipodal to a point of the edge
		switch rapid.IntRange(0, 2).Draw(t, l+".am") {
		case 0:
			v = a.Mul(-1)
		case 1:
			v = b.Mul(-1)
		default:
			v = onEdge(a, b, genFrac(t, l+".s")).Mul(-1)
		}
		v = v.Add(nv.Mul(tiny(t, l+".aoff", -300, -1))).Add(ta.Mul(tiny(t, l+".aoff2", -300, -1)))
	case 10:
		// on the great circle beyond an endpoint
		u := math.Pow(10, rapid.Float64Range(-16, 0).Draw(t, l+".u10"))
		if rapid.Bool().Draw(t, l+".bside") {
			v = b.Mul(math.Cos(u)).Add(tb.Mul(math.Sin(u)))
		} else {
			v = a.Mul(math.Cos(u)).Sub(ta.Mul(math.Sin(u)))
		}
		v = v.Add(nv.Mul(tiny(t, l+".off", -300, -1)))
	case 11, 12:
		return gen.Related(t, l+".rel", []s2.Point{a, b})
	default:
		return gen.Base(t, l+".base")
	}
	if v.Norm2() == 0 || math.IsNaN(v.Norm2()) {
		return a
	}
	x := gen.Fix(s2.Point{Vector: v.Normalize()}, a)
	if rapid.IntRange(0, 5).Draw(t, l+".pt") == 0 {
		x = gen.Perturb(t, l+".ptb", x, 2)
	}
	return x
}

type xab struct{ X, A, B gen.P }

func genXAB(t *rapid.T) xab {
	a, b := genEdge(t, "e")
	x := genX(t, "x", a, b)
	return xab{gen.FromPt(x), gen.FromPt(a), gen.FromPt(b)}
}

// ---------------------------------------------------------------------------
// a) UpdateMinDistance / DistanceFromSegment / UpdateMinInteriorDistance

// decisionMargin: the library's wedge test (a−x)·(c×x) has rounding error of a
// few ε·|c|·|a−x|; its exact value is |c|·m. The interior/endpoint decision is
// asserted only when |m| exceeds 64ε·(chord length to that endpoint + 8ε).
// The chord the library sees includes the radial mismatch of the two vectors
// (each within 2ε of unit length), hence the +8ε.
func robustly(m, chord float64) bool { return math.Abs(m) > 64*eps*(chord+8*eps) }

func nearBoundary(g pe) bool {
	ca := 2 * math.Sin(g.da/2)
	cb := 2 * math.Sin(g.db/2)
	return math.Abs(g.ma) <= 1e-6*ca || math.Abs(g.mb) <= 1e-6*cb
}

func nonTrivialDist(g pe) bool {
	return (g.degenerate == 0 && nearBoundary(g)) || g.ang < 1e-12 || g.ang > math.Pi-1e-6
}

func checkMinDistance(c xab) ev.Outcome {
	x, a, b := c.X.Pt(), c.A.Pt(), c.B.Pt()
	o := ev.Outcome{}
	if !unit(x, a, b) {
		o.Skip = true
		return o
	}
	g := pointEdge(x, a, b)
	o.Class = edgeClass(g)
	if g.interior {
		o.Class += ",interior"
	} else {
		o.Class += ",endpoint"
	}
	o.NonTrivial = nonTrivialDist(g)
	inf := s1.InfChordAngle()

	d, ok := s2.UpdateMinDistance(x, a, b, inf)
	df := float64(d)
	if !ok {
		o.Err = "UpdateMinDistance(…, Inf) did not update"
		return o
	}
	if math.IsNaN(df) || df < 0 {
		o.Err = fmt.Sprintf("UpdateMinDistance returned %v (true chord² %.17g)", df, g.d2f)
		o.Finding = tinyFinding(g, "mindist-nan")
		return o
	}
	if df > 4 {
		o.Err = fmt.Sprintf("UpdateMinDistance returned chord² %.17g > 4 (StraightChordAngle); DistanceFromSegment=%v", df, float64(s2.DistanceFromSegment(x, a, b)))
		o.Finding = "chord-exceeds-4"
		return o
	}
	if (x == a || x == b) && df != 0 {
		o.Err = fmt.Sprintf("distance from an endpoint to its own edge is %.17g, want exactly 0", df)
		return o
	}
	// DistanceFromSegment is the same computation converted to an angle.
	if ds := s2.DistanceFromSegment(x, a, b); ds != d.Angle() {
		o.Err = fmt.Sprintf("DistanceFromSegment=%.17g but UpdateMinDistance(Inf).Angle()=%.17g", float64(ds), float64(d.Angle()))
		return o
	}
	di, oki := s2.UpdateMinInteriorDistance(x, a, b, inf)
	if oki && di != d {
		o.Err = fmt.Sprintf("UpdateMinInteriorDistance=%.17g differs from UpdateMinDistance=%.17g", float64(di), df)
		o.Finding = tinyFinding(g, "interior-mismatch")
		return o
	}
	if !oki {
		if !di.IsInfinity() {
			o.Err = "UpdateMinInteriorDistance returned false but changed minDist"
			return o
		}
		want := math.Min(float64(s2.ChordAngleBetweenPoints(x, a)), float64(s2.ChordAngleBetweenPoints(x, b)))
		if df != want {
			o.Err = fmt.Sprintf("endpoint case: UpdateMinDistance=%.17g but min vertex ChordAngle=%.17g", df, want)
			return o
		}
	}
	if !boundApplies(g) {
		return o
	}
	// error bound against the true distance
	bound := g.bf * boundAt(df, g.d2f)
	errAbs := absDiff(df, g.d2)
	ratio := errAbs / bound
	key := "err/minUpdateDistanceMaxError"
	if tinyFinding(g, "") != "" {
		key += "(edge<1e-15)"
	} else if g.edge > math.Pi-1e-3 {
		key += "(edge>180deg-1e-3)"
	}
	if g.bf > 1 {
		key += "(|p|² off by 2ε…4ε, 2×bound)"
	}
	o.Ratios = map[string]float64{key: ratio}
	if ratio > 1 {
		o.Err = fmt.Sprintf("UpdateMinDistance=%.17g true=%.17g |err|=%.3g > bound %.3g (ratio %.3g; edge=%.3g rad, interior=%v, lib interior=%v)",
			df, g.d2f, errAbs, bound, ratio, g.edge, g.interior, oki)
		o.Finding = tinyFinding(g, "mindist-bound")
		return o
	}
	// never exceeds the distance to the nearer endpoint by more than the bound
	minEnd := hp.Min(g.da2, g.db2)
	if ex := hp.Float(hp.Sub(hp.F(df), minEnd)); ex > bound {
		o.Err = fmt.Sprintf("UpdateMinDistance=%.17g exceeds the nearer endpoint's chord² %.17g by %.3g > bound %.3g", df, hp.Float(minEnd), ex, bound)
		o.Finding = tinyFinding(g, "mindist-bound")
		return o
	}
	// interior / endpoint decision where it is well separated from rounding
	if g.degenerate == 0 && g.edge >= tinyEdge {
		ca, cb := 2*math.Sin(g.da/2), 2*math.Sin(g.db/2)
		if robustly(g.ma, ca) && robustly(g.mb, cb) {
			if g.interior != oki {
				o.Err = fmt.Sprintf("interior/endpoint decision: library interior=%v, exact interior=%v (margins %.3g, %.3g; chord to a %.3g, to b %.3g)", oki, g.interior, g.ma, g.mb, ca, cb)
				return o
			}
			if o.Counts == nil {
				o.Counts = map[string]int{}
			}
			o.Counts["decision_asserted"] = 1
			if nearBoundary(g) {
				o.Counts["decision_asserted_near_boundary"] = 1
			}
		}
	}
	if oki && g.bf == 1 && tinyFinding(g, "") == "" {
		o.Ratios["interior_err/minUpdateInteriorDistanceMaxError"] = 0
		if ib := math.Max(interiorMaxErr(df), interiorMaxErr(g.d2f)); ib > 0 && g.interior {
			o.Ratios["interior_err/minUpdateInteriorDistanceMaxError"] = errAbs / ib
		}
	}
	return o
}

// ---------------------------------------------------------------------------
// b) threshold forms

type lim struct {
	Kind int // 0 value, 1 infinity, 2 negative
	V    float64
}

func (l lim) chord() s1.ChordAngle {
	switch l.Kind {
	case 1:
		return s1.InfChordAngle()
	case 2:
		return s1.NegativeChordAngle
	}
	return s1.ChordAngle(l.V)
}

type xabl struct {
	X, A, B gen.P
	L       lim
}

func clamp04(v float64) float64 { return math.Max(0, math.Min(4, v)) }

func genLimit(t *rapid.T, l string, d float64) lim {
	if math.IsNaN(d) || d < 0 || d > 4 {
		d = 1
	}
	switch rapid.IntRange(0, 9).Draw(t, l+".lm") {
	case 0:
		return lim{Kind: rapid.IntRange(1, 2).Draw(t, l+".special")}
	case 1:
		return lim{V: rapid.SampledFrom([]float64{0, 5e-324, 2, 4, 1e-30}).Draw(t, l+".const")}
	case 2:
		return lim{V: rapid.Float64Range(0, 4).Draw(t, l+".u")}
	case 3, 4, 5:
		return lim{V: clamp04(gen.Ulps(d, rapid.IntRange(-3, 3).Draw(t, l+".ulps")))}
	default:
		r := math.Pow(10, rapid.Float64Range(-16, -1).Draw(t, l+".rel10")) * sign(t, l+".rs")
		return lim{V: clamp04(d * (1 + r))}
	}
}

func genXABL(t *rapid.T) xabl {
	c := genXAB(t)
	d, _ := s2.UpdateMinDistance(c.X.Pt(), c.A.Pt(), c.B.Pt(), s1.InfChordAngle())
	return xabl{c.X, c.A, c.B, genLimit(t, "lim", float64(d))}
}

func checkThreshold(c xabl) ev.Outcome {
	x, a, b := c.X.Pt(), c.A.Pt(), c.B.Pt()
	o := ev.Outcome{}
	if !unit(x, a, b) || (c.L.Kind == 0 && !(c.L.V >= 0 && c.L.V <= 4)) {
		o.Skip = true
		return o
	}
	g := pointEdge(x, a, b)
	limit := c.L.chord()
	lf := float64(limit)
	inf := s1.InfChordAngle()
	d, _ := s2.UpdateMinDistance(x, a, b, inf)
	df := float64(d)
	if math.IsNaN(df) || df < 0 || df > 4 {
		// reported by min_distance; the threshold laws below are about finite valid distances
		o.Skip = true
		return o
	}
	o.Counts = map[string]int{}
	// The documented idiom for "distance <= limit": pass limit.Successor().
	// With the limit one ulp above the library's own computed distance d the
	// answer must be "less" (the doc of the lower-bound pre-test says it uses
	// ">" rather than ">=" precisely so that this holds), and the thresholded
	// form must report the same d.
	if df > 0 && df < 4 {
		succ := d.Successor()
		if !s2.IsDistanceLess(x, a, b, succ) {
			o.Err = fmt.Sprintf("IsDistanceLess(x,a,b, d.Successor()) is false for the library's own computed distance d=%.17g", df)
			o.Finding = tinyFinding(g, "successor")
			return o
		}
		if ds, ok := s2.UpdateMinDistance(x, a, b, succ); !ok || ds != d {
			o.Err = fmt.Sprintf("UpdateMinDistance(x,a,b, d.Successor()) = (%.17g,%v), want (d=%.17g,true)", float64(ds), ok, df)
			o.Finding = tinyFinding(g, "successor")
			return o
		}
		if s2.IsDistanceLess(x, a, b, d) {
			o.Counts["isdistanceless_true_at_own_distance"]++
		}
	}
	less := s2.IsDistanceLess(x, a, b, limit)
	d2, upd := s2.UpdateMinDistance(x, a, b, limit)
	if upd != less {
		o.Err = "IsDistanceLess disagrees with UpdateMinDistance's bool"
		return o
	}
	if upd && !(d2 < limit) {
		o.Err = fmt.Sprintf("UpdateMinDistance reported an update to %.17g which is not below the limit %.17g", float64(d2), lf)
		return o
	}
	if !upd && d2 != limit {
		o.Err = fmt.Sprintf("UpdateMinDistance returned false but changed minDist %.17g -> %.17g", lf, float64(d2))
		return o
	}
	bound := g.bf * boundAt(df, g.d2f)
	if c.L.Kind == 0 {
		bound = math.Max(bound, minDistMaxErr(lf))
	}
	gap := math.Abs(df - lf) // Inf for the special limits
	switch {
	case c.L.Kind != 0:
		o.Class = "limit=special"
	case gap == 0:
		o.Class = "limit=computed"
	case gap <= 4*eps*df:
		o.Class = "limit within 4 ulps"
	case gap <= bound:
		o.Class = "limit within bound"
	default:
		o.Class = "limit clear"
	}
	o.NonTrivial = gap <= math.Max(bound, 1e-6*df)
	if upd && math.Abs(float64(d2)-df) > bound {
		o.Err = fmt.Sprintf("thresholded UpdateMinDistance=%.17g differs from the unthresholded value %.17g by more than the bound %.3g", float64(d2), df, bound)
		o.Finding = tinyFinding(g, "threshold")
		return o
	}
	if less != (d < limit) {
		o.Counts["exact_disagreement_with_computed_distance"] = 1
		if gap > bound {
			o.Err = fmt.Sprintf("IsDistanceLess(limit=%.17g)=%v but computed distance is %.17g (gap %.3g > bound %.3g)", lf, less, df, gap, bound)
			o.Finding = tinyFinding(g, "threshold")
			return o
		}
	}
	// against the true distance (documented meaning of the error bound)
	if boundApplies(g) {
		if g.d2f < lf-bound && !less {
			o.Err = fmt.Sprintf("IsDistanceLess=false but true chord² %.17g < limit %.17g − bound %.3g", g.d2f, lf, bound)
			o.Finding = tinyFinding(g, "threshold")
			return o
		}
		if g.d2f > lf+bound && less {
			o.Err = fmt.Sprintf("IsDistanceLess=true but true chord² %.17g > limit %.17g + bound %.3g", g.d2f, lf, bound)
			o.Finding = tinyFinding(g, "threshold")
			return o
		}
	}
	// interior form
	di, oki := s2.UpdateMinInteriorDistance(x, a, b, inf)
	il := s2.IsInteriorDistanceLess(x, a, b, limit)
	d3, upd3 := s2.UpdateMinInteriorDistance(x, a, b, limit)
	if il != upd3 {
		o.Err = "IsInteriorDistanceLess disagrees with UpdateMinInteriorDistance's bool"
		return o
	}
	if upd3 && !(d3 < limit) {
		o.Err = "UpdateMinInteriorDistance updated to a value not below the limit"
		return o
	}
	if !upd3 && d3 != limit {
		o.Err = "UpdateMinInteriorDistance returned false but changed minDist"
		return o
	}
	if il && !less {
		o.Err = "IsInteriorDistanceLess is true but IsDistanceLess is false"
		return o
	}
	wantIl := oki && di < limit
	if il != wantIl {
		o.Counts["interior_exact_disagreement"] = 1
		// admissible only next to the limit or next to the wedge boundary
		ca, cb := 2*math.Sin(g.da/2), 2*math.Sin(g.db/2)
		clearDecision := g.degenerate == 0 && g.edge >= tinyEdge && robustly(g.ma, ca) && robustly(g.mb, cb)
		if gap > bound && clearDecision {
			o.Err = fmt.Sprintf("IsInteriorDistanceLess(limit=%.17g)=%v but unthresholded interior=(%.17g,%v)", lf, il, float64(di), oki)
			return o
		}
	}
	return o
}

// ---------------------------------------------------------------------------
// c) UpdateMaxDistance

func checkMaxDistance(c xabl) ev.Outcome {
	x, a, b := c.X.Pt(), c.A.Pt(), c.B.Pt()
	o := ev.Outcome{}
	if !unit(x, a, b) {
		o.Skip = true
		return o
	}
	nx := s2.Point{Vector: x.Mul(-1)}
	g := pointEdge(nx, a, b) // the farthest point from x is the closest to −x
	gx := pointEdge(x, a, b)
	o.Class = edgeClass(g)
	trueMax := hp.Sub(hp.F(4), g.d2)
	trueMaxF := hp.Float(trueMax)
	o.NonTrivial = (g.degenerate == 0 && nearBoundary(g)) || g.ang < 1e-12 || math.Abs(trueMaxF-2) < 1e-6
	d, ok := s2.UpdateMaxDistance(x, a, b, s1.NegativeChordAngle)
	df := float64(d)
	if !ok || math.IsNaN(df) || df < 0 || df > 4 {
		o.Err = fmt.Sprintf("UpdateMaxDistance(…, Negative) returned (%v, %v)", df, ok)
		o.Finding = tinyFinding(g, "maxdist-range")
		return o
	}
	if df > 2 {
		o.Class += ",via-antipode"
	} else {
		o.Class += ",endpoint"
	}
	// threshold law: exact by construction (the distance is always computed in full)
	limit := c.L.chord()
	d2, upd := s2.UpdateMaxDistance(x, a, b, limit)
	if upd != (limit < d) {
		o.Err = fmt.Sprintf("UpdateMaxDistance(limit=%.17g) updated=%v but full distance is %.17g", float64(limit), upd, df)
		return o
	}
	if upd && d2 != d || !upd && d2 != limit {
		o.Err = fmt.Sprintf("UpdateMaxDistance(limit=%.17g) returned %.17g (updated=%v), full distance %.17g", float64(limit), float64(d2), upd, df)
		return o
	}
	if !boundApplies(g) {
		return o
	}
	// bound stated before running: error of the min distance from −x (doc bound at 4−d)
	// + vertex bound at d + one rounding of the subtraction (≤ 2ε).
	// Re-derived after the first runs (no documented bound exists): the switch
	// "farthest endpoint > 90°" is decided on rounded chord²; when x is δ beyond
	// 90° from an interior point of the edge, the endpoints are only δ·cos(s)
	// beyond 90° (s ≤ edge/2 their distance from that point), so the switch can
	// be missed for δ·cos(edge/2) ≲ ε and the endpoint value is then low by
	// ≤ 2δ ≤ 2ε/cos(edge/2) in chord²; 8ε/cos(edge/2) is allowed.
	bound := g.bf*(boundAt(4-df, g.d2f)+pointMaxErr(df)) + 2*eps + 8*eps/math.Max(math.Cos(g.edge/2), 1e-300)
	errAbs := absDiff(df, trueMax)
	o.Ratios = map[string]float64{"maxdist_err/bound": errAbs / bound}
	if errAbs > bound {
		o.Err = fmt.Sprintf("UpdateMaxDistance=%.17g true=%.17g |err|=%.3g > bound %.3g (edge %.3g rad)", df, trueMaxF, errAbs, bound, g.edge)
		o.Finding = tinyFinding(g, "maxdist-bound")
		return o
	}
	// max ≥ min (within bounds)
	if dmin, _ := s2.UpdateMinDistance(x, a, b, s1.InfChordAngle()); float64(dmin) <= 4 && float64(dmin) > df+bound+gx.bf*boundAt(float64(dmin), gx.d2f) {
		o.Err = fmt.Sprintf("min distance %.17g exceeds max distance %.17g", float64(dmin), df)
		o.Finding = tinyFinding(g, "maxdist-bound")
		return o
	}
	return o
}

// ---------------------------------------------------------------------------
// e) Project, DistanceFraction, Interpolate, InterpolateAtDistance

// Positional tolerance for Project: the a-priori tolPt (1e-14 rad), flat.
//
// History: the first runs (against /repo before ef6b382) showed Project's
// x − (x·n̂)n̂ formula amplifying its ε-sized absolute error by 1/cos(dist to
// the great circle): 1.4e-12 rad off the edge 1e-4 rad from the pole, an
// arbitrary point at the pole itself. That was reported as finding class
// "project-near-pole" and repaired in /repo ((n̂×x)×n̂, which stays on the
// great circle); a tolerance scaled by 1/cos was used only while searching
// behind the defect. cosGC < 1e-6 is still reported as class ",pole" and a
// failure there keeps the narrow finding label.
//
// "Realises the distance" is compared in chord² units, the representation the
// library measures in: the documented chord² bound plus the chord² image
// 2·sinθ·δ + δ² of a positional error δ. (In radians the documented bound is
// unbounded near π, where ChordAngle loses resolution.)
func posTol(g pe) (tol, cosGC float64) {
	cosGC = 1
	if g.degenerate == 0 {
		cosGC = math.Sqrt(math.Max(0, 1-g.sinGC*g.sinGC))
	}
	return tolPt, cosGC
}

func realiseTol(g pe, pt float64) float64 {
	return g.bf*boundAt(g.d2f, g.d2f) + 2*pt*(1+g.ang)*math.Max(math.Sin(g.ang), pt)
}

func projectChecks(x, a, b s2.Point, g pe, p s2.Point, what string) (string, map[string]float64) {
	if !finite(p) {
		return fmt.Sprintf("%s is not finite: %v", what, p.Vector), nil
	}
	if !unit(p) {
		return fmt.Sprintf("%s is not unit length: |p|²−1 = %.3g (p=%v)", what, p.Norm2()-1, p.Vector), nil
	}
	r := map[string]float64{}
	pt, _ := posTol(g)
	// realises the true distance
	cp := hp.Chord2(hpV(x), hpV(p))
	tolD := realiseTol(g, pt)
	e := absDiff(g.d2f, cp)
	r["project_realised_chord2_err/tol"] = e / tolD
	if e > tolD {
		return fmt.Sprintf("%s is at chord² %.17g (%.17g rad) from x but the true distance to the edge is chord² %.17g (%.17g rad): diff %.3g > %.3g", what, hp.Float(cp), hpAngle(hpV(x), hpV(p)), g.d2f, g.ang, e, tolD), r
	}
	// lies on the edge
	gp := pointEdge(p, a, b)
	r["project_off_edge/tol"] = gp.ang / pt
	if gp.ang > pt {
		return fmt.Sprintf("%s is %.3g rad off the edge (> %.3g)", what, gp.ang, pt), r
	}
	return "", r
}

func checkProject(c xab) (o ev.Outcome) {
	x, a, b := c.X.Pt(), c.A.Pt(), c.B.Pt()
	if !unit(x, a, b) {
		o.Skip = true
		return o
	}
	g := pointEdge(x, a, b)
	o.Class = edgeClass(g)
	if g.interior {
		o.Class += ",interior"
	} else {
		o.Class += ",endpoint"
	}
	pt, cosGC := posTol(g)
	if cosGC < 1e-6 {
		o.Class += ",pole"
	}
	o.NonTrivial = nonTrivialDist(g) || cosGC < 1e-6
	p := s2.Project(x, a, b)
	if !boundApplies(g) {
		if !finite(p) {
			o.Err = fmt.Sprintf("Project is not finite: %v", p.Vector)
			o.Finding = tinyFinding(g, "")
		}
		return o
	}
	classify := func() {
		o.Finding = tinyFinding(g, "project")
		if o.Finding == "" && cosGC < 1e-6 {
			o.Finding = "project-near-pole"
		}
	}
	msg, ratios := projectChecks(x, a, b, g, p, "Project(x,a,b)")
	o.Ratios = ratios
	tag := domainTag(g)
	if cosGC < 1e-6 {
		tag += " (pole)"
	}
	defer func() { tagRatios(&o, tag) }()
	if msg != "" {
		o.Err = msg
		classify()
		return o
	}
	// the projected point realises the *reported* distance
	d, _ := s2.UpdateMinDistance(x, a, b, s1.InfChordAngle())
	if df := float64(d); df <= 4 {
		cp := hp.Chord2(hpV(x), hpV(p))
		tol := g.bf*boundAt(df, g.d2f) + realiseTol(g, pt)
		e := absDiff(df, cp)
		o.Ratios["reported_vs_realised/tol"] = e / tol
		if e > tol {
			o.Err = fmt.Sprintf("reported chord² %.17g but the projected point is at chord² %.17g (diff %.3g > %.3g)", df, hp.Float(cp), e, tol)
			classify()
			return o
		}
	}
	return o
}

type interp struct {
	A, B gen.P
	T    float64 // fraction
	AX   float64 // distance for InterpolateAtDistance
	S    float64 // position of the on-edge point for the DistanceFraction round trip
}

func genInterp(t *rapid.T) interp {
	a, b := genEdge(t, "e")
	var tt float64
	switch rapid.IntRange(0, 5).Draw(t, "tm") {
	case 0:
		tt = rapid.SampledFrom([]float64{0, 1, 0.5, -1, 2, 1e-300, 0.1, 0.9}).Draw(t, "tc")
	case 1:
		tt = rapid.Float64Range(-3, 4).Draw(t, "tout")
	case 2:
		tt = float64(rapid.IntRange(0, 16).Draw(t, "tk")) / float64(rapid.IntRange(1, 16).Draw(t, "tn"))
	default:
		tt = genFrac(t, "tf")
	}
	var ax float64
	switch rapid.IntRange(0, 3).Draw(t, "axm") {
	case 0:
		ax = rapid.Float64Range(-2*math.Pi, 2*math.Pi).Draw(t, "axu")
	case 1:
		ax = tiny(t, "axt", -300, 0)
	case 2:
		ax = rapid.SampledFrom([]float64{0, math.Pi / 2, math.Pi, -math.Pi, 2 * math.Pi, 1, 100}).Draw(t, "axc")
	default:
		ax = float64(a.Angle(b.Vector)) * rapid.Float64Range(0, 1).Draw(t, "axf")
	}
	return interp{gen.FromPt(a), gen.FromPt(b), tt, ax, genFrac(t, "s")}
}

// truePointAt: the point at signed distance ax from a along the great circle
// towards b: a·cos(ax) + t̂·sin(ax). cos/sin are float64 (≤ 1 ulp), which moves
// the point by < 2e-16 rad; everything else is high precision.
func truePointAt(a, b hp.V, ax float64) hp.V {
	n := cross2(a, b)
	tg := n.Cross(a).Unit() // (a×b)×a: tangent at a towards b
	return a.Unit().Scale(hp.F(math.Cos(ax))).Add(tg.Scale(hp.F(math.Sin(ax))))
}

func checkInterpolate(c interp) (o ev.Outcome) {
	a, b := c.A.Pt(), c.B.Pt()
	if !unit(a, b) || math.IsNaN(c.T) || math.IsInf(c.T, 0) || math.IsNaN(c.AX) || math.IsInf(c.AX, 0) {
		o.Skip = true
		return o
	}
	g := pointEdge(a, a, b)
	o.Class = edgeClass(g)
	defer func() { tagRatios(&o, domainTag(g)) }()
	ha, hb := hpV(a), hpV(b)
	// exact endpoints
	if p := s2.Interpolate(0, a, b); p != a {
		o.Err = "Interpolate(0,a,b) != a"
		return o
	}
	if p := s2.Interpolate(1, a, b); p != b {
		o.Err = "Interpolate(1,a,b) != b"
		return o
	}
	o.NonTrivial = c.T < 0 || c.T > 1 || g.edge < 1e-12 || g.edge > math.Pi-1e-6 || math.Abs(c.AX) < 1e-12
	o.Ratios = map[string]float64{}
	fail := func(base, format string, args ...any) ev.Outcome {
		o.Err = fmt.Sprintf(format, args...)
		o.Finding = tinyFinding(g, base)
		return o
	}
	// InterpolateAtDistance
	pd := s2.InterpolateAtDistance(s1.Angle(c.AX), a, b)
	if !finite(pd) || !unit(pd) {
		return fail("interpolate-nan", "InterpolateAtDistance(%.17g) = %v is not a finite unit point", c.AX, pd.Vector)
	}
	// distance from a is |ax| folded into [0, π]
	fold := math.Mod(math.Abs(c.AX), 2*math.Pi)
	if fold > math.Pi {
		fold = 2*math.Pi - fold
	}
	tolD := tolPt * (1 + math.Abs(c.AX))
	dd := hpAngle(ha, hpV(pd))
	o.Ratios["at_distance_err/tol"] = math.Abs(dd-fold) / tolD
	if math.Abs(dd-fold) > tolD {
		return fail("interpolate", "InterpolateAtDistance(%.17g): result is %.17g rad from a, want %.17g (diff %.3g > %.3g)", c.AX, dd, fold, dd-fold, tolD)
	}
	proper := g.degenerate == 0 && g.edge <= math.Pi-antipodalExcl
	// The direction of an edge shorter than ~1e-15 rad whose endpoints differ
	// mostly radially (same direction up to an ulp, different lengths) is not
	// resolvable in float64: no position claim below 1e-15.
	if proper && g.edge >= tinyEdge {
		want := truePointAt(ha, hb, c.AX)
		e := hpAngle(want, hpV(pd))
		o.Ratios["at_distance_position_err/tol"] = e / tolD
		if e > tolD {
			return fail("interpolate", "InterpolateAtDistance(%.17g): result is %.3g rad from the true point (> %.3g); edge %.3g rad", c.AX, e, tolD, g.edge)
		}
	}
	// Interpolate(t): distance from a is t·∠(a,b). The library measures ∠(a,b)
	// with a plain cross product (absolute error ~ε), so the landing point has an
	// absolute error ~|t|·ε: tolerance tolPt·(1+|t|).
	pt := s2.Interpolate(c.T, a, b)
	if !finite(pt) || !unit(pt) {
		return fail("interpolate-nan", "Interpolate(%.17g) = %v is not a finite unit point", c.T, pt.Vector)
	}
	tolT := tolPt * (1 + math.Abs(c.T)) * (1 + g.edge)
	if proper || g.degenerate == 1 {
		var e float64
		if proper {
			e = hpAngle(truePointAt(ha, hb, c.T*g.edge), hpV(pt))
		} else {
			e = hpAngle(ha, hpV(pt)) // zero-length edge: every fraction is a
		}
		o.Ratios["interpolate_position_err/tol"] = e / tolT
		if e > tolT {
			return fail("interpolate", "Interpolate(%.17g): result is %.3g rad from the true point (> %.3g); edge %.3g rad", c.T, e, tolT, g.edge)
		}
	}
	// DistanceFraction round trip for a point on the edge built independently
	// of the library: normalize((1−s)a + s·b). Requires a != b (documented).
	if proper && g.edge >= tinyEdge && g.edge < math.Pi-1e-3 {
		xv := onEdge(a, b, c.S)
		x := gen.Fix(s2.Point{Vector: xv}, a)
		gx := pointEdge(x, a, b)
		if gx.ang < 4*eps { // really on the edge
			f := s2.DistanceFraction(x, a, b)
			if math.IsNaN(f) || f < 0 || f > 1 {
				return fail("interpolate", "DistanceFraction=%v for a point on the edge", f)
			}
			back := s2.Interpolate(f, a, b)
			e := hpAngle(hpV(x), hpV(back))
			tol := 2 * tolPt
			o.Ratios["fraction_roundtrip_err/tol"] = e / tol
			if o.Counts == nil {
				o.Counts = map[string]int{}
			}
			o.Counts["fraction_roundtrips"] = 1
			if e > tol {
				return fail("interpolate", "Interpolate(DistanceFraction(x)=%.17g) is %.3g rad from x (> %.3g); edge %.3g rad", f, e, tol, g.edge)
			}
			// true fraction
			wantF := gx.da / g.edge
			tolF := 2 * tolPt / g.edge
			if tolF < 1e-3 {
				o.Ratios["fraction_err/tol"] = math.Abs(f-wantF) / tolF
				if math.Abs(f-wantF) > tolF {
					return fail("interpolate", "DistanceFraction=%.17g want %.17g (diff %.3g > %.3g)", f, wantF, f-wantF, tolF)
				}
			}
		}
	}
	return o
}

// ---------------------------------------------------------------------------
// d) edge pairs

type pair struct{ A0, A1, B0, B1 gen.P }

func genPair(t *rapid.T) pair {
	a0, a1 := genEdge(t, "ea")
	nv, ta, _, _ := frameOf(a0, a1)
	var b0, b1 s2.Point
	switch rapid.IntRange(0, 7).Draw(t, "pm") {
	case 0, 1:
		// crossing / touching: through a point of A in a drawn direction
		p := gen.Fix(s2.Point{Vector: onEdge(a0, a1, genFrac(t, "ps"))}, a0)
		th := rapid.Float64Range(0, math.Pi).Draw(t, "pth")
		dir := dirAt(p, th)
		l0 := tiny(t, "l0", -16, 0.3)
		l1 := tiny(t, "l1", -16, 0.3)
		b0, b1 = along(p, dir, l0), along(p, dir, -l1)
	case 2:
		// parallel-ish: A displaced sideways
		off := tiny(t, "off", -300, -1)
		b0 = gen.Fix(s2.Point{Vector: a0.Add(nv.Mul(off)).Normalize()}, a0)
		b1 = gen.Fix(s2.Point{Vector: a1.Add(nv.Mul(off)).Add(ta.Mul(tiny(t, "sl", -300, -1))).Normalize()}, a1)
	case 3:
		// shares a vertex / endpoint on the other edge
		b0 = rapid.SampledFrom([]s2.Point{a0, a1}).Draw(t, "shared")
		b1 = genX(t, "b1", a0, a1)
	case 4:
		// collinear, overlapping or disjoint
		b0 = gen.Fix(s2.Point{Vector: onEdge(a0, a1, rapid.Float64Range(-1, 2).Draw(t, "c0"))}, a0)
		b1 = gen.Fix(s2.Point{Vector: onEdge(a0, a1, rapid.Float64Range(-1, 2).Draw(t, "c1"))}, a1)
	case 5:
		b0 = genX(t, "b0", a0, a1)
		b1 = genX(t, "b1", a0, a1)
	default:
		b0, b1 = genEdge(t, "eb")
	}
	if rapid.Bool().Draw(t, "swap") {
		return pair{gen.FromPt(b0), gen.FromPt(b1), gen.FromPt(a0), gen.FromPt(a1)}
	}
	return pair{gen.FromPt(a0), gen.FromPt(a1), gen.FromPt(b0), gen.FromPt(b1)}
}

// properCrossing: the four orientation determinants are non-zero and alternate
// in the way that characterises an interior crossing (exact integer arithmetic).
func properCrossing(a, b, c, d s2.Point) (cross bool, degenerate bool) {
	s1_ := exact.DetSign(a.Vector, c.Vector, b.Vector) // ACB
	s2_ := exact.DetSign(c.Vector, b.Vector, d.Vector) // CBD
	s3_ := exact.DetSign(b.Vector, d.Vector, a.Vector) // BDA
	s4_ := exact.DetSign(d.Vector, a.Vector, c.Vector) // DAC
	if s1_ == 0 || s2_ == 0 || s3_ == 0 || s4_ == 0 {
		return false, true
	}
	return s1_ == s2_ && s2_ == s3_ && s3_ == s4_, false
}

func checkEdgePair(c pair) ev.Outcome {
	a0, a1, b0, b1 := c.A0.Pt(), c.A1.Pt(), c.B0.Pt(), c.B1.Pt()
	o := ev.Outcome{}
	if !unit(a0, a1, b0, b1) {
		o.Skip = true
		return o
	}
	gs := [4]pe{pointEdge(a0, b0, b1), pointEdge(a1, b0, b1), pointEdge(b0, a0, a1), pointEdge(b1, a0, a1)}
	ga, gb := gs[2], gs[0] // carry edge A's / edge B's description
	okEdge := func(g pe) bool { return boundApplies(g) && tinyFinding(g, "") == "" }
	cross, degen := properCrossing(a0, a1, b0, b1)
	trueMin := math.Inf(1)
	which := 0
	for i, g := range gs {
		if g.ang < trueMin {
			trueMin, which = g.ang, i
		}
	}
	switch {
	case cross:
		trueMin = 0
		o.Class = "crossing"
	case degen:
		o.Class = "collinear-or-touching"
	default:
		o.Class = "disjoint"
	}
	if trueMin == 0 && !cross {
		o.Class += ",distance0"
	}
	o.NonTrivial = cross || degen || trueMin < 1e-9 || nearBoundary(gs[which])
	pa, pb := s2.EdgePairClosestPoints(a0, a1, b0, b1)
	if !okEdge(ga) || !okEdge(gb) {
		o.Class = "excluded-edge(shorter than 1e-15 or within 1e-14 of antipodal)"
		o.NonTrivial = false
		return o
	}
	// For nearly antipodal long edges a crossing may be at the far side; the
	// exact test above handles that. Library must agree about crossing when
	// the configuration is not degenerate.
	// crossing: the point is s2.Intersection's, whose normalisation is C16's
	// subject (observed |p|²−1 up to 7ε on ~1e-13 rad edges); only the library's
	// own IsUnit is required there
	viaIntersection := s2.CrossingSign(a0, a1, b0, b1) == s2.Cross
	if viaIntersection {
		// The point is s2.Intersection's: its accuracy and normalisation are C16's
		// subject (observed: 7ε off unit on 1e-13 rad edges, 3e-13 off unit when a
		// vertex lies exactly on the other edge). Claimed here: the two points
		// coincide, are finite, and the edges really are at distance ~0.
		o.Class += ",via-Intersection"
		if pa != pb || !finite(pa) {
			o.Err = fmt.Sprintf("CrossingSign==Cross but EdgePairClosestPoints returned %v, %v", pa.Vector, pb.Vector)
			return o
		}
		if !cross && trueMin > 2*tolPt {
			o.Err = fmt.Sprintf("library treats the edges as crossing but their true distance is %.3g rad (exact crossing test: false)", trueMin)
			return o
		}
		return o
	}
	if cross {
		o.Err = "edges cross properly (exact determinants) but CrossingSign != Cross"
		return o
	}
	// two Projects / one Intersection. The perpendicular error of a projected
	// vertex scales with 1/cos of its distance to the other great circle (see
	// posTol); any of the four candidates may be the one chosen near ties.
	cosMin := 1.0
	for _, g := range gs {
		if g.degenerate == 0 {
			cosMin = math.Min(cosMin, math.Sqrt(math.Max(0, 1-g.sinGC*g.sinGC)))
		}
	}
	pt := 2 * tolPt
	poleFinding := func() {
		if cosMin < 1e-6 {
			o.Finding = "project-near-pole"
		}
	}
	if !finite(pa) || !finite(pb) || !unit(pa, pb) {
		o.Err = fmt.Sprintf("EdgePairClosestPoints returned non-unit/non-finite points %v (|p|²−1=%.3g) %v (|p|²−1=%.3g)", pa.Vector, pa.Norm2()-1, pb.Vector, pb.Norm2()-1)
		poleFinding()
		return o
	}
	gm := gs[which]
	trueC2 := gm.d2
	if cross {
		trueC2 = hp.F(0)
		gm = pe{d2f: 0, ang: 0, bf: 1}
	}
	cab := hp.Chord2(hpV(pa), hpV(pb))
	tolD := 2*2*boundAt(gm.d2f, gm.d2f) + 2*pt*(1+gm.ang)*math.Max(math.Sin(gm.ang), pt)
	e := math.Abs(hp.Float(hp.Sub(cab, trueC2)))
	o.Ratios = map[string]float64{"pair_realised_chord2_err/tol": e / tolD}
	if e > tolD {
		o.Err = fmt.Sprintf("closest points are at chord² %.17g (%.17g rad), true minimum chord² %.17g (%.17g rad): diff %.3g > %.3g, class %s", hp.Float(cab), hpAngle(hpV(pa), hpV(pb)), hp.Float(trueC2), trueMin, e, tolD, o.Class)
		poleFinding()
		return o
	}
	// crossing edges: the point is s2.Intersection's (C16's subject); its
	// accuracy degrades for edges within 1e-3 of antipodal, not claimed here
	if cross && (ga.edge > math.Pi-1e-3 || gb.edge > math.Pi-1e-3) {
		o.Class += ",near-antipodal(on-edge not claimed)"
	} else {
		ea := pointEdge(pa, a0, a1).ang
		eb := pointEdge(pb, b0, b1).ang
		o.Ratios["pair_off_edge/tol"] = math.Max(ea, eb) / pt
		if ea > pt || eb > pt {
			o.Err = fmt.Sprintf("closest points are off their edges by %.3g / %.3g rad (> %.3g)", ea, eb, pt)
			poleFinding()
			return o
		}
	}
	if cross && pa != pb {
		o.Err = "edges cross but the two closest points differ"
		return o
	}
	return o
}

// ---------------------------------------------------------------------------
// f) polylines

type plCase struct {
	V []gen.P
	F float64 // fraction for Interpolate
	X gen.P   // query point for Project / IsOnRight
}

func genPolyline(t *rapid.T, l string, allowDup bool) []s2.Point {
	var n int
	switch rapid.IntRange(0, 19).Draw(t, l+".nm") {
	case 0:
		n = rapid.IntRange(61, 200).Draw(t, l+".nbig")
	case 1, 2, 3, 4:
		n = rapid.IntRange(13, 60).Draw(t, l+".nmid")
	default:
		n = rapid.IntRange(1, 12).Draw(t, l+".n")
	}
	vs := make([]s2.Point, 0, n)
	vs = append(vs, gen.Base(t, l+".v0"))
	scale := rapid.Float64Range(-15, 0).Draw(t, l+".scale10")
	th := rapid.Float64Range(0, 2*math.Pi).Draw(t, l+".th0")
	for len(vs) < n {
		k := fmt.Sprintf("%s.%d", l, len(vs))
		p := vs[len(vs)-1]
		th += rapid.Float64Range(-1.5, 1.5).Draw(t, k+".turn")
		var ln float64
		switch rapid.IntRange(0, 9).Draw(t, k+".lm") {
		case 0:
			ln = math.Pow(10, rapid.Float64Range(-15, 0.4).Draw(t, k+".l10"))
		case 1:
			if allowDup {
				ln = 0
			} else {
				ln = math.Pow(10, scale)
			}
		case 2:
			ln = rapid.Float64Range(0.1, 3).Draw(t, k+".long")
		default:
			ln = math.Pow(10, scale) * rapid.Float64Range(0.2, 2).Draw(t, k+".lf")
		}
		q := along(p, dirAt(p, th), ln)
		if !allowDup && q == p {
			q = along(p, dirAt(p, th), 1e-3)
		}
		vs = append(vs, q)
	}
	return vs
}

func genPlCase(t *rapid.T) plCase {
	dup := rapid.IntRange(0, 5).Draw(t, "dup") == 0
	vs := genPolyline(t, "pl", dup)
	var f float64
	switch rapid.IntRange(0, 5).Draw(t, "fm") {
	case 0:
		f = rapid.SampledFrom([]float64{0, 1, -0.5, 1.5, 0.5, 1 - 0x1p-53, 5e-324}).Draw(t, "fc")
	case 1:
		f = float64(rapid.IntRange(0, len(vs)).Draw(t, "fk")) / float64(len(vs))
	case 2:
		// the fraction of a vertex: cumulative length / total (float64)
		pl := s2.Polyline(vs)
		k := rapid.IntRange(0, len(vs)-1).Draw(t, "fv")
		sub := s2.Polyline(vs[:k+1])
		if tot := pl.Length(); tot > 0 {
			f = float64(sub.Length() / tot)
			f = gen.Ulps(f, rapid.IntRange(-2, 2).Draw(t, "fvu"))
		}
	case 3:
		f = rapid.Float64Range(-0.5, 1.5).Draw(t, "fo")
	default:
		f = rapid.Float64Range(0, 1).Draw(t, "fu")
	}
	// query point: related to an edge of the polyline, or anywhere
	var x s2.Point
	if len(vs) >= 2 && rapid.IntRange(0, 4).Draw(t, "xm") != 0 {
		i := rapid.IntRange(1, len(vs)-1).Draw(t, "xe")
		x = genX(t, "x", vs[i-1], vs[i])
	} else {
		x = gen.Base(t, "xb")
	}
	return plCase{gen.FromPts(vs), f, gen.FromPt(x)}
}

type plModel struct {
	lens  []float64 // lens[i] = true length of edge (i-1,i), lens[0] = 0
	cum   []float64 // cum[i] = true length up to vertex i
	total float64
	dup   bool // has a zero-length edge
	anti  bool // has an edge within 1e-3 of antipodal (not generated)
}

func modelOf(vs []s2.Point) plModel {
	m := plModel{lens: make([]float64, len(vs)), cum: make([]float64, len(vs))}
	for i := 1; i < len(vs); i++ {
		m.lens[i] = hpAngle(hpV(vs[i-1]), hpV(vs[i]))
		if m.lens[i] == 0 {
			m.dup = true
		}
		if m.lens[i] > math.Pi-1e-3 {
			m.anti = true
		}
		m.cum[i] = m.cum[i-1] + m.lens[i]
	}
	m.total = m.cum[len(vs)-1]
	return m
}

// arcTol: (n+1)·1e-14·(1+L) rad — n float64 angle measurements with absolute
// error ~ε each, their running sum (≤ n·ε·L/2), one InterpolateAtDistance.
func arcTol(n int, total float64) float64 { return float64(n+1) * tolPt * (1 + total) }

func checkPolylineInterpolate(c plCase) ev.Outcome {
	vs := gen.Pts(c.V)
	o := ev.Outcome{}
	if len(vs) == 0 || !unit(vs...) || math.IsNaN(c.F) || math.IsInf(c.F, 0) {
		o.Skip = true
		return o
	}
	n := len(vs)
	m := modelOf(vs)
	if m.anti {
		o.Skip = true
		return o
	}
	pl := s2.Polyline(vs)
	switch {
	case n == 1:
		o.Class = "n=1"
	case n <= 12:
		o.Class = "n<=12"
	case n <= 60:
		o.Class = "n<=60"
	default:
		o.Class = "n<=200"
	}
	if m.dup {
		o.Class += ",zero-length-edges"
	}
	tol := arcTol(n, m.total)
	// length (polyline_measures.go)
	if l := float64(pl.Length()); math.Abs(l-m.total) > tol {
		o.Err = fmt.Sprintf("Length=%.17g true %.17g", l, m.total)
		return o
	}
	pt, next := pl.Interpolate(c.F)
	if next < 1 || next > n {
		o.Err = fmt.Sprintf("Interpolate(%v): next vertex %d outside [1,%d]", c.F, next, n)
		return o
	}
	if !finite(pt) || !unit(pt) {
		o.Err = fmt.Sprintf("Interpolate(%v) = %v is not a finite unit point", c.F, pt.Vector)
		o.Finding = polyFinding(vs)
		return o
	}
	fc := math.Max(0, math.Min(1, c.F))
	target := fc * m.total
	// vertex-hitting / clamped fractions are the interesting ones
	nearVertex := false
	for i := 0; i < n; i++ {
		if math.Abs(m.cum[i]-target) <= 1e-9*(m.total+1e-300) {
			nearVertex = true
		}
	}
	o.NonTrivial = n >= 2 && (nearVertex || c.F <= 0 || c.F >= 1 || m.dup)
	if c.F <= 0 && (pt != vs[0] || next != 1) {
		o.Err = fmt.Sprintf("Interpolate(%v) = (%v,%d), want (vertex 0, 1)", c.F, pt.Vector, next)
		return o
	}
	if c.F >= 1 && n >= 2 && !m.dup && (pt != vs[n-1] || next != n) {
		// The doc comment promises next == len for fraction >= 1, but (L − l1 − … )
		// can round below the last edge's length, so the loop may stop one edge
		// early with a point a rounding error away from the last vertex (same in
		// the C++ original). Counted, not failed; the arc-position claim below
		// still bounds where the point is.
		if o.Counts == nil {
			o.Counts = map[string]int{}
		}
		o.Counts["fraction>=1_but_next<len"] = 1
	}
	if next == n && pt != vs[n-1] {
		o.Err = fmt.Sprintf("Interpolate(%v): next == len but the point is not the last vertex", c.F)
		return o
	}
	if n == 1 {
		return o
	}
	// documented: the point differs from the next vertex (valid polylines only)
	if next < n && !m.dup && pt == vs[next] {
		o.Err = fmt.Sprintf("Interpolate(%v): returned point equals vertex[next=%d]", c.F, next)
		return o
	}
	// the point lies on the edge before `next` …
	hi := next
	if hi > n-1 {
		hi = n - 1
	}
	lo := next - 1
	if lo == hi {
		lo = hi - 1
	}
	ge := pointEdge(pt, vs[lo], vs[hi])
	if ge.degenerate == 0 && ge.edge < 1e-150 {
		// sub-1e-150 edges: InterpolateAtDistance underflows (reported by the
		// interpolate sub-check); nothing further is claimed here
		o.Class += ",edge<1e-150"
		return o
	}
	if ge.ang > tol {
		o.Err = fmt.Sprintf("Interpolate(%v): point is %.3g rad off edge (%d,%d) (> %.3g)", c.F, ge.ang, lo, hi, tol)
		return o
	}
	// … at arc length f·L from vertex 0 (model walk through the returned index)
	pos := m.cum[next-1] + hpAngle(hpV(vs[next-1]), hpV(pt))
	if next-1 > lo { // pt == vs[next-1] sits at the end of edge (lo,hi)
		pos = m.cum[next-1]
	}
	o.Ratios = map[string]float64{"arc_position_err/tol": math.Abs(pos-target) / tol}
	if math.Abs(pos-target) > tol {
		o.Err = fmt.Sprintf("Interpolate(%v): point is at arc length %.17g, want %.17g (diff %.3g > %.3g; n=%d, next=%d)", c.F, pos, target, pos-target, tol, n, next)
		return o
	}
	// Uninterpolate returns the fraction
	if m.total > 0 {
		tolF := 2 * tol / m.total
		if tolF < 1e-3 {
			u := pl.Uninterpolate(pt, next)
			if math.IsNaN(u) || u < 0 || u > 1 {
				o.Err = fmt.Sprintf("Uninterpolate = %v outside [0,1]", u)
				return o
			}
			o.Ratios["uninterpolate_err/tol"] = math.Abs(u-fc) / tolF
			if o.Counts == nil {
				o.Counts = map[string]int{}
			}
			o.Counts["uninterpolate_roundtrips"] = 1
			if math.Abs(u-fc) > tolF {
				o.Err = fmt.Sprintf("Uninterpolate(Interpolate(%v)) = %.17g (diff %.3g > %.3g; n=%d, L=%.3g)", c.F, u, u-fc, tolF, n, m.total)
				return o
			}
		}
	}
	return o
}

func checkPolylineProject(c plCase) ev.Outcome {
	vs := gen.Pts(c.V)
	x := c.X.Pt()
	o := ev.Outcome{}
	if len(vs) == 0 || !unit(vs...) || !unit(x) {
		o.Skip = true
		return o
	}
	n := len(vs)
	m := modelOf(vs)
	if m.anti {
		o.Skip = true
		return o
	}
	pl := s2.Polyline(vs)
	switch {
	case n == 1:
		o.Class = "n=1"
	case n <= 12:
		o.Class = "n<=12"
	case n <= 60:
		o.Class = "n<=60"
	default:
		o.Class = "n<=200"
	}
	// exhaustive oracle: true distance to every edge
	best, second := math.Inf(1), math.Inf(1)
	bestI := 0
	var gbest pe
	tinyE, pole := false, false
	for i := 1; i < n; i++ {
		g := pointEdge(x, vs[i-1], vs[i])
		if tinyFinding(g, "") != "" {
			tinyE = true
		}
		if g.degenerate == 0 && g.sinGC > 1-1e-12 {
			pole = true
		}
		if g.ang < best {
			second = best
			best, bestI, gbest = g.ang, i, g
		} else if g.ang < second {
			second = g.ang
		}
	}
	if n == 1 {
		best = hpAngle(hpV(x), hpV(vs[0]))
	}
	pt, next := pl.Project(x)
	if next < 1 || next > n {
		o.Err = fmt.Sprintf("Project: next vertex %d outside [1,%d]", next, n)
		return o
	}
	if tinyE {
		o.Class += ",edge<1e-15"
		if !finite(pt) {
			o.Err = "Project returned a non-finite point"
			o.Finding = polyFinding(vs)
		}
		return o
	}
	if m.dup {
		o.Class += ",zero-length-edges"
	}
	if !finite(pt) || !unit(pt) {
		o.Err = fmt.Sprintf("Project = %v is not a finite unit point", pt.Vector)
		if pole {
			o.Finding = "project-near-pole"
		}
		return o
	}
	o.NonTrivial = n >= 3 && (second-best < 1e-9*(1+best) || nearBoundary(gbest) || best < 1e-12)
	if n == 1 {
		gbest = pointEdge(x, vs[0], vs[0])
	}
	ptol := 2 * tolPt
	cp := hp.Chord2(hpV(x), hpV(pt))
	tolD := 2*2*boundAt(gbest.d2f, gbest.d2f) + 2*ptol*(1+best)*math.Max(math.Sin(best), ptol)
	e := absDiff(gbest.d2f, cp)
	o.Ratios = map[string]float64{"polyline_project_realised_chord2_err/tol": e / tolD}
	if e > tolD {
		o.Err = fmt.Sprintf("Project: returned point is at chord² %.17g (%.17g rad) from x, true minimum over %d edges is %.17g (%.17g rad, edge %d): diff %.3g > %.3g", hp.Float(cp), hpAngle(hpV(x), hpV(pt)), n-1, gbest.d2f, best, bestI, e, tolD)
		if pole {
			o.Finding = "project-near-pole"
		}
		return o
	}
	if n == 1 {
		if pt != vs[0] || next != 1 {
			o.Err = "Project on a single-vertex polyline must return (vertex 0, 1)"
		}
		return o
	}
	if next == n && pt != vs[n-1] {
		o.Err = "Project: next == len but the point is not the last vertex"
		return o
	}
	// the point lies on the edge ending at / starting at the reported index
	hi := next
	if hi > n-1 {
		hi = n - 1
	}
	lo := next - 1
	if lo == hi {
		lo = hi - 1
	}
	if !pole {
		ge := pointEdge(pt, vs[lo], vs[hi])
		var ge2 pe
		off := ge.ang
		if next-1 >= 1 { // pt may be vertex next-1, the end of the previous edge
			ge2 = pointEdge(pt, vs[next-2], vs[next-1])
			off = math.Min(off, ge2.ang)
		}
		tolOn := ptol
		o.Ratios["polyline_project_off_edge/tol"] = off / tolOn
		if off > tolOn {
			o.Err = fmt.Sprintf("Project: point is %.3g rad off the edge before vertex %d (> %.3g)", off, next, tolOn)
			return o
		}
	}
	// Interpolate(Uninterpolate(pt,next)) returns to pt
	tol := arcTol(n, m.total)
	if m.total > 0 && 2*tol/m.total < 1e-3 && !m.dup {
		u := pl.Uninterpolate(pt, next)
		if math.IsNaN(u) || u < 0 || u > 1 {
			o.Err = fmt.Sprintf("Uninterpolate(Project) = %v outside [0,1]", u)
			return o
		}
		back, _ := pl.Interpolate(u)
		e := hpAngle(hpV(pt), hpV(back))
		// a fraction error δ moves the point by δ·L; the interpolated point is on
		// the edge, the projected one only within its own on-edge tolerance
		tolB := 4*tol + ptol
		o.Ratios["project_uninterpolate_interpolate_err/tol"] = e / tolB
		if e > tolB {
			o.Err = fmt.Sprintf("Interpolate(Uninterpolate(Project(x))) is %.3g rad from Project(x) (> %.3g; n=%d)", e, tolB, n)
			if pole {
				o.Finding = "project-near-pole"
			}
			return o
		}
	}
	// IsOnRight against the exact orientation of the uniquely closest edge,
	// when the closest point is robustly interior to that edge
	if second-best > 1e-6 && gbest.degenerate == 0 && gbest.interior &&
		gbest.ma > 1e-6 && gbest.mb > 1e-6 && gbest.edge < math.Pi-1e-3 && !pole &&
		// IsOnRight uses the non-robust Sign (error ~4ε against a determinant of
		// size edge·sin(dist)): only points clearly off the edge are asserted
		gbest.edge*gbest.sinGC > 1e-13 {
		det := exact.DetSign(x.Vector, vs[bestI].Vector, vs[bestI-1].Vector)
		if det != 0 {
			if o.Counts == nil {
				o.Counts = map[string]int{}
			}
			o.Counts["is_on_right_asserted"] = 1
			if got := pl.IsOnRight(x); got != (det > 0) {
				o.Err = fmt.Sprintf("IsOnRight=%v but x is exactly on the %s of its closest edge %d", got, map[bool]string{true: "right", false: "left"}[det > 0], bestI)
				return o
			}
		}
	}
	// IsOnRight when the closest point is a vertex, robustly: an interior vertex k
	// (x beyond the end of edge k and before the start of edge k+1; the naive
	// definition is only unambiguous when x is on the same side of both edges) or
	// an end vertex of the polyline (side of the first / last edge).
	if !pole && n >= 2 {
		count := func(k string) {
			if o.Counts == nil {
				o.Counts = map[string]int{}
			}
			o.Counts[k] = 1
		}
		gs := make([]pe, n)
		for i := 1; i < n; i++ {
			gs[i] = pointEdge(x, vs[i-1], vs[i])
		}
		othersFarther := func(dv float64, skip1, skip2 int) bool {
			for i := 1; i < n; i++ {
				if i != skip1 && i != skip2 && gs[i].ang < dv+1e-6 {
					return false
				}
			}
			return true
		}
		clear := func(g pe) bool {
			return g.degenerate == 0 && g.edge < math.Pi-1e-3 && g.edge*g.sinGC > 1e-13
		}
		for k := 1; k <= n-2; k++ {
			g1, g2 := gs[k], gs[k+1]
			if !clear(g1) || !clear(g2) || !(g1.mb < -1e-6 && g2.ma < -1e-6) || !othersFarther(g1.db, k, k+1) {
				continue
			}
			d1 := exact.DetSign(x.Vector, vs[k].Vector, vs[k-1].Vector)
			d2 := exact.DetSign(x.Vector, vs[k+1].Vector, vs[k].Vector)
			if d1 == 0 || d1 != d2 {
				continue
			}
			count("is_on_right_vertex_asserted")
			if got := pl.IsOnRight(x); got != (d1 > 0) {
				o.Err = fmt.Sprintf("IsOnRight=%v but the closest point is vertex %d and x is exactly on the %s of both adjacent edges", got, k, map[bool]string{true: "right", false: "left"}[d1 > 0])
				return o
			}
		}
		if g := gs[1]; clear(g) && g.ma < -1e-6 && othersFarther(g.da, 1, 1) {
			if d := exact.DetSign(x.Vector, vs[1].Vector, vs[0].Vector); d != 0 {
				count("is_on_right_end_asserted")
				if got := pl.IsOnRight(x); got != (d > 0) {
					o.Err = fmt.Sprintf("IsOnRight=%v but the closest point is the first vertex and x is exactly on the %s of the first edge", got, map[bool]string{true: "right", false: "left"}[d > 0])
					return o
				}
			}
		}
		if g := gs[n-1]; clear(g) && g.mb < -1e-6 && othersFarther(g.db, n-1, n-1) {
			if d := exact.DetSign(x.Vector, vs[n-1].Vector, vs[n-2].Vector); d != 0 {
				count("is_on_right_end_asserted")
				if got := pl.IsOnRight(x); got != (d > 0) {
					o.Err = fmt.Sprintf("IsOnRight=%v but the closest point is the last vertex and x is exactly on the %s of the last edge", got, map[bool]string{true: "right", false: "left"}[d > 0])
					return o
				}
			}
		}
	}
	return o
}

// clean wraps a Check so that a failing outcome (possibly tolerated as a known
// finding) does not contribute to the worst-ratio evidence of passing cases.
func clean[C any](f func(C) ev.Outcome) func(C) ev.Outcome {
	return func(c C) ev.Outcome {
		o := f(c)
		if o.Err != "" {
			o.Ratios = nil
		}
		return o
	}
}

// tagRatios renames the ratio keys of cases outside the property's core
// domain (sub-1e-15 edges, x at the pole) so that they are reported apart.
func tagRatios(o *ev.Outcome, tag string) {
	if tag == "" || o.Ratios == nil {
		return
	}
	m := map[string]float64{}
	for k, v := range o.Ratios {
		m[k+tag] = v
	}
	o.Ratios = m
}

func domainTag(g pe) string {
	if tinyFinding(g, "") != "" {
		return " (edge<1e-15)"
	}
	return ""
}

func init() {
	const dom = "edges: a==b, log-uniform 1e-15…π−1e-3, long 90°…180°, 1e-300…1e-15 (own classes), π−10^-k (k 3…17, bound excluded within 1e-14), related/perturbed/independent; x: endpoints, on the edge, 1e-300…1 beside it, on/next to the planes through a and b perpendicular to the edge (interior↔endpoint flip) and the bisector, ±normal with tiny/2^-k offsets, antipodes of edge points, beyond the endpoints on the great circle, related, independent. "
	ev.Define("min_distance", ev.Options{
		Rule:  dom + "Oracle: 320-bit wedge decision + true chord² (cancellation-free cross products). Claims: |UpdateMinDistance−true| ≤ minUpdateDistanceMaxError (doc formula), ≤ nearer endpoint + bound, exactly 0 for x∈{a,b}, valid ChordAngle, DistanceFromSegment/UpdateMinInteriorDistance consistent, interior/endpoint decision equals the exact one when its margin exceeds 64ε·chord. Non-trivial = within 1e-6 (relative) of the decision boundary, or distance < 1e-12 or > π−1e-6.",
		Quick: 100000, Thorough: 6000000}, genXAB, clean(checkMinDistance))
	ev.Define("threshold", ev.Options{
		Rule:  dom + "Limit: ±0…3 ulps of the computed distance, relative offsets 1e-16…1e-1, constants, uniform, Inf/Negative. Claims: IsDistanceLess/UpdateMinDistance/IsInteriorDistanceLess/UpdateMinInteriorDistance agree with comparing the computed distance (and the true distance) to the limit whenever they differ by more than the documented bound; returned values below the limit / unchanged. Non-trivial = limit within max(bound, 1e-6 relative) of the computed distance.",
		Quick: 60000, Thorough: 3000000}, genXABL, clean(checkThreshold))
	ev.Define("max_distance", ev.Options{
		Rule:  dom + "Oracle: 4 − true min chord² from −x. Claims: error ≤ doc bound at the antipodal distance + vertex bound + 2ε; threshold form exactly equals limit < full distance; max ≥ min. Non-trivial = −x near the decision boundary, −x within 1e-12 of the edge, or max within 1e-6 of 90°.",
		Quick: 50000, Thorough: 2000000}, genXABL, clean(checkMaxDistance))
	ev.Define("project", ev.Options{
		Rule:  dom + "Claims: Project is a finite unit point, realises the true distance within 1e-14(1+d) rad, lies on the edge within 1e-14 rad (also at the edge's pole), endpoints project to themselves, reported chord² equals the realised one within the bounds. Non-trivial = as min_distance, or x within 1e-6 of the edge's pole.",
		Quick: 50000, Thorough: 2500000}, genXAB, clean(checkProject))
	ev.Define("interpolate", ev.Options{
		Rule:  "edges as above; t in {0,1,k/n, (0,1) incl. 1e-18 and 1−1e-16, outside [0,1] down to −3 and up to 4}; distances uniform ±2π, ±1e-300…1, constants. Oracle: a·cos+t̂·sin with a 320-bit tangent. Claims: Interpolate(0/1) exact; InterpolateAtDistance lands |ax| from a and within 1e-14(1+|ax|) of the true point; Interpolate(t) within 1e-14(1+|t|)(1+edge); Interpolate(DistanceFraction(x)) within 2e-14 of an independently built on-edge x. Non-trivial = t outside [0,1], edge < 1e-12 or > π−1e-6, or |ax| < 1e-12.",
		Quick: 50000, Thorough: 2000000}, genInterp, clean(checkInterpolate))
	ev.Define("edge_pair", ev.Options{
		Rule:  "edge A as above; edge B crossing/touching A at a drawn point, A displaced sideways by 1e-300…0.1, sharing a vertex, collinear, built from query-point families, or independent. Oracle: exact-integer proper-crossing test, else min of the four true vertex–edge distances. Claims: EdgePairClosestPoints are unit, on their edges (2e-14 rad) and realise the true minimum within 2e-14(1+d); identical when crossing. Non-trivial = crossing, degenerate (zero determinant), distance < 1e-9 or closest vertex near its decision boundary.",
		Quick: 25000, Thorough: 600000}, genPair, clean(checkEdgePair))
	ev.Define("polyline_interpolate", ev.Options{
		Rule:  "polylines of 1…200 vertices (75% ≤ 12), edge lengths log-uniform 1e-15…2.5 around a common scale, 1/6 with zero-length edges; fractions 0, 1, outside [0,1], k/n, vertex fractions ± 2 ulps, uniform. Model: true cumulative lengths. Claims: Length within tol; next in [1,n]; point on the edge before next; next==n ⇒ last vertex; point ≠ vertex[next] (valid polylines); arc position = f·L within (n+1)·1e-14·(1+L); Uninterpolate returns f. Non-trivial = fraction hits a vertex (1e-9 rel), is clamped, or zero-length edges present.",
		Quick: 16000, Thorough: 400000}, genPlCase, clean(checkPolylineInterpolate))
	ev.Define("polyline_project", ev.Options{
		Rule:  "polylines as above; x from the query-point families of one edge or independent. Oracle: exhaustive true distance to every edge. Claims: Project realises the minimum within 2e-14(1+d), lies on the edge at the reported index, Interpolate(Uninterpolate(Project)) returns to it, IsOnRight equals the exact orientation w.r.t. the uniquely closest edge when the closest point is robustly interior. Non-trivial = n ≥ 3 and (two edges within 1e-9 of the minimum, or decision boundary, or distance < 1e-12).",
		Quick: 8000, Thorough: 120000}, genPlCase, clean(checkPolylineProject))
}
