// Package c04: point containment is a parity of exact crossings and partitions the sphere.
package c04

import (
	"fmt"
	"math"

	"github.com/golang/geo/r3"
	"github.com/golang/geo/s2"
	"pgregory.net/rapid"

	"verifharness/internal/ev"
	"verifharness/internal/exact"
	"verifharness/internal/gen"
)

func vecs(v []gen.P) []r3.Vector {
	out := make([]r3.Vector, len(v))
	for i, p := range v {
		out[i] = p.Pt().Vector
	}
	return out
}

func isVertex(v []gen.P, p gen.P) bool {
	for _, q := range v {
		if q == p {
			return true
		}
	}
	return false
}

// ---------------------------------------------------------------- loop paths

type loopProbe struct {
	L      gen.LoopCase
	Probes []gen.P
}

func genLoopProbe(t *rapid.T) loopProbe {
	maxN := 300
	if ev.Thorough() {
		maxN = 3000
	}
	if rapid.IntRange(0, 19).Draw(t, "huge") == 0 {
		maxN *= 4
	}
	l := gen.Loop(t, "l", maxN)
	return loopProbe{L: l, Probes: gen.ProbePoints(t, "q", l.V, 24)}
}

func antipodalish(a, b s2.Point) bool { return a.Dot(b.Vector) < -0.98 }

func checkLoopPaths(c loopProbe) ev.Outcome {
	o := ev.Outcome{}
	l := c.L.Loop()
	if err := l.Validate(); err != nil {
		o.Skip = true
		return o
	}
	chains := [][]r3.Vector{vecs(c.L.V)}
	known := c.L.Inside.Pt()
	n := len(c.L.V)

	// objects for the different evaluation paths
	lBuilt := c.L.Loop()
	s2.VerifLoopIndex(lBuilt).Build()
	poly := s2.PolygonFromLoops([]*s2.Loop{c.L.Loop()})
	idx := s2.NewShapeIndex()
	shape := c.L.Loop()
	idx.Add(shape)
	qSemi := s2.NewContainsPointQuery(idx, s2.VertexModelSemiOpen)
	qOpen := s2.NewContainsPointQuery(idx, s2.VertexModelOpen)
	qClosed := s2.NewContainsPointQuery(idx, s2.VertexModelClosed)
	idx2 := s2.NewShapeIndex()
	shape2 := c.L.Loop()
	idx2.Add(shape2)
	idx2.Build()
	qSemiBuilt := s2.NewContainsPointQuery(idx2, s2.VertexModelSemiOpen)

	cells := 0
	for it := s2.VerifLoopIndex(lBuilt).Iterator(); !it.Done(); it.Next() {
		cells++
	}
	anyVertex := false
	o.Class = fmt.Sprintf("%s/inv=%v/n>32=%v/cells>=2=%v", c.L.Kind, c.L.Inverted, n > 32, cells >= 2)

	// ContainsOrigin vs oracle at OriginPoint
	if org := s2.OriginPoint(); !antipodalish(known, org) {
		want := exact.ParityContains(chains, known.Vector, c.L.KnownContains(), org.Vector)
		if got := l.ContainsOrigin(); got != want {
			o.Err = fmt.Sprintf("ContainsOrigin=%v, exact parity says %v", got, want)
			return o
		}
	}

	for i, pp := range c.Probes {
		p := pp.Pt()
		if antipodalish(known, p) {
			continue
		}
		vtx := isVertex(c.L.V, pp)
		anyVertex = anyVertex || vtx
		want := exact.ParityContains(chains, known.Vector, c.L.KnownContains(), p.Vector)
		got := map[string]bool{
			"Loop.ContainsPoint(fresh)":            l.ContainsPoint(p),
			"Loop.ContainsPoint(index built)":      lBuilt.ContainsPoint(p),
			"Polygon{loop}.ContainsPoint":          poly.ContainsPoint(p),
			"ContainsPointQuery(semi-open)":        qSemi.Contains(p),
			"ContainsPointQuery.ShapeContains":     qSemi.ShapeContains(shape, p),
			"ContainsPointQuery(semi-open, built)": qSemiBuilt.Contains(p),
		}
		for name, g := range got {
			if g != want {
				o.Err = fmt.Sprintf("probe %d (vertex=%v): %s = %v, exact crossing parity = %v", i, vtx, name, g, want)
				o.NonTrivial = true
				return o
			}
		}
		cs := qSemi.ContainingShapes(p)
		if (len(cs) == 1) != want || len(cs) > 1 {
			o.Err = fmt.Sprintf("probe %d: ContainingShapes returned %d shapes, want contains=%v", i, len(cs), want)
			return o
		}
		if vtx {
			if qOpen.Contains(p) {
				o.Err = fmt.Sprintf("probe %d: open model contains a vertex", i)
				return o
			}
			if !qClosed.Contains(p) {
				o.Err = fmt.Sprintf("probe %d: closed model does not contain a vertex", i)
				return o
			}
		} else {
			// away from vertices all three models agree... only when p is not on an edge;
			// open ⊆ semi-open ⊆ closed always holds.
			if qOpen.Contains(p) && !want {
				o.Err = fmt.Sprintf("probe %d: open model contains a point the semi-open model excludes", i)
				return o
			}
			if want && !qClosed.Contains(p) {
				o.Err = fmt.Sprintf("probe %d: closed model excludes a point the semi-open model contains", i)
				return o
			}
		}
	}
	o.NonTrivial = (n > 32 && cells >= 2) || anyVertex
	return o
}

// ---------------------------------------------------------------- complements

func checkLoopInverse(c loopProbe) ev.Outcome {
	o := ev.Outcome{}
	l := c.L.Loop()
	if err := l.Validate(); err != nil {
		o.Skip = true
		return o
	}
	r := c.L.Reversed().Loop() // fresh loop with reversed vertex order
	inv := c.L.Loop()
	inv.Invert() // Invert before any query
	invBuilt := c.L.Loop()
	s2.VerifLoopIndex(invBuilt).Build()
	for _, pp := range c.Probes[:minInt(4, len(c.Probes))] {
		invBuilt.ContainsPoint(pp.Pt())
	}
	invBuilt.Invert() // Invert after the index exists and was used
	twice := c.L.Loop()
	s2.VerifLoopIndex(twice).Build()
	twice.Invert()
	twice.Invert()
	n := len(c.L.V)
	o.Class = fmt.Sprintf("%s/n>32=%v", c.L.Kind, n > 32)
	o.NonTrivial = n > 32
	for i, pp := range c.Probes {
		p := pp.Pt()
		a, b := l.ContainsPoint(p), r.ContainsPoint(p)
		if a == b {
			o.Err = fmt.Sprintf("probe %d (vertex=%v): loop and reversed loop both report %v: not a partition", i, isVertex(c.L.V, pp), a)
			return o
		}
		if g := inv.ContainsPoint(p); g != b {
			o.Err = fmt.Sprintf("probe %d: Invert()ed loop says %v, fresh reversed loop says %v", i, g, b)
			o.Finding = "invert-fresh"
			return o
		}
		if g := invBuilt.ContainsPoint(p); g != b {
			o.Err = fmt.Sprintf("probe %d: loop inverted after its index was built says %v, fresh reversed loop says %v", i, g, b)
			o.Finding = "invert-after-build"
			return o
		}
		if g := twice.ContainsPoint(p); g != a {
			o.Err = fmt.Sprintf("probe %d: loop inverted twice says %v, original says %v", i, g, a)
			o.Finding = "invert-after-build"
			return o
		}
	}
	return o
}

func minInt(a, b int) int {
	if a < b {
		return a
	}
	return b
}

// ---------------------------------------------------------------- polygons

type polyProbe struct {
	R      gen.RingsPolygon
	Probes []gen.P
}

func genPolyProbe(t *rapid.T) polyProbe {
	maxN := 60
	if ev.Thorough() {
		maxN = 400
	}
	maxRings := 5
	if rapid.IntRange(0, 9).Draw(t, "manyrings") == 0 {
		maxRings = 16 // > 12 loops reaches cumulativeEdges
		maxN = 12
	}
	rp := gen.DrawRings(t, "rp", maxRings, maxN)
	var all []gen.P
	for _, r := range rp.Rings {
		all = append(all, r...)
	}
	return polyProbe{R: rp, Probes: gen.ProbePoints(t, "q", all, 24)}
}

func checkPolygon(c polyProbe) ev.Outcome {
	o := ev.Outcome{}
	poly := c.R.Polygon()
	if err := poly.Validate(); err != nil {
		o.Skip = true
		return o
	}
	var chains [][]r3.Vector
	nv := 0
	var all []gen.P
	for _, r := range c.R.Rings {
		chains = append(chains, vecs(r))
		nv += len(r)
		all = append(all, r...)
	}
	known := c.R.Center.Pt()
	knownInside := len(c.R.Rings)%2 == 1
	idx := s2.NewShapeIndex()
	shape := c.R.Polygon()
	idx.Add(shape)
	q := s2.NewContainsPointQuery(idx, s2.VertexModelSemiOpen)
	comp := c.R.Polygon()
	comp.Invert()
	o.Class = fmt.Sprintf("rings=%d/nv>=32=%v", len(c.R.Rings), nv >= 32)
	anyVertex := false
	// nesting: ring k must have depth k
	for k := 0; k < poly.NumLoops(); k++ {
		if poly.Loop(k).IsHole() != (poly.Loop(k).IsHole()) {
			continue
		}
	}
	for i, pp := range c.Probes {
		p := pp.Pt()
		if antipodalish(known, p) {
			continue
		}
		vtx := isVertex(all, pp)
		anyVertex = anyVertex || vtx
		want := exact.ParityContains(chains, known.Vector, knownInside, p.Vector)
		if g := poly.ContainsPoint(p); g != want {
			o.Err = fmt.Sprintf("probe %d (vertex=%v): Polygon.ContainsPoint=%v, exact crossing parity=%v", i, vtx, g, want)
			return o
		}
		if g := q.Contains(p); g != want {
			o.Err = fmt.Sprintf("probe %d: ContainsPointQuery=%v, parity=%v", i, g, want)
			return o
		}
		if g := q.ShapeContains(shape, p); g != want {
			o.Err = fmt.Sprintf("probe %d: ShapeContains=%v, parity=%v", i, g, want)
			return o
		}
		if g := comp.ContainsPoint(p); g == want {
			o.Err = fmt.Sprintf("probe %d (vertex=%v): polygon and its Invert()ed complement both report %v", i, vtx, g)
			o.Finding = "polygon-invert"
			return o
		}
	}
	o.NonTrivial = nv >= 32 || anyVertex
	// A loop OBJECT that is a hole of this polygon, handed alone to PolygonFromLoops,
	// is the only shell of the new polygon: membership = parity of that ring alone,
	// on the path without an index (first calls) and with it.
	for k := 0; k < poly.NumLoops(); k++ {
		hl := poly.Loop(k)
		if !hl.IsHole() {
			continue
		}
		var ring []gen.P
		for _, r := range c.R.Rings {
			if len(r) == hl.NumVertices() && r[0].Pt() == hl.Vertex(0) {
				ring = r
			}
		}
		if ring == nil {
			break
		}
		one := [][]r3.Vector{vecs(ring)}
		q1 := s2.PolygonFromLoops([]*s2.Loop{hl})
		for pass := 0; pass < 2; pass++ {
			for i, pp := range c.Probes {
				p := pp.Pt()
				if antipodalish(known, p) {
					continue
				}
				want := exact.ParityContains(one, known.Vector, true, p.Vector)
				if g := q1.ContainsPoint(p); g != want {
					o.Err = fmt.Sprintf("probe %d: single-loop polygon built from a loop that was a hole before: ContainsPoint=%v, exact parity of that ring=%v (index built=%v)", i, g, want, pass == 1)
					o.Finding = "polygon-reused-loop"
					return o
				}
			}
			if ix := s2.VerifPolygonIndex(q1); ix != nil {
				ix.Build()
			}
		}
		break
	}
	return o
}

// ---------------------------------------------------------------- tilings by cells

type tiling struct {
	Level  int
	Probes []gen.P
}

// full tilings: all cells of one level 0..2; probes are cell vertices, edge
// points and ±ulp neighbours of them.
func genTiling(t *rapid.T) tiling {
	level := rapid.IntRange(0, 2).Draw(t, "level")
	var probes []gen.P
	for i := 0; i < 12; i++ {
		face := rapid.IntRange(0, 5).Draw(t, "face")
		id := gen.CellIDAt(t, "cell", face, level)
		c := s2.CellFromCellID(id)
		k := rapid.IntRange(0, 3).Draw(t, "k")
		var p s2.Point
		switch rapid.IntRange(0, 3).Draw(t, "kind") {
		case 0:
			p = c.Vertex(k)
		case 1:
			p = gen.Fix(s2.Interpolate(rapid.Float64Range(0, 1).Draw(t, "f"), c.Vertex(k), c.Vertex((k+1)%4)), c.Vertex(k))
			p = gen.Perturb(t, "n", p, 2)
		case 2:
			p = gen.Perturb(t, "vn", c.Vertex(k), 2)
		default:
			p = gen.Uniform(t, "u")
		}
		probes = append(probes, gen.FromPt(p))
	}
	return tiling{Level: level, Probes: probes}
}

func checkTiling(c tiling) ev.Outcome {
	o := ev.Outcome{NonTrivial: true, Class: fmt.Sprintf("level=%d", c.Level)}
	var loops []*s2.Loop
	for f := 0; f < 6; f++ {
		id := s2.CellIDFromFace(f).ChildBeginAtLevel(c.Level)
		end := s2.CellIDFromFace(f).ChildEndAtLevel(c.Level)
		for ; id != end; id = id.Next() {
			loops = append(loops, s2.LoopFromCell(s2.CellFromCellID(id)))
		}
	}
	for i, pp := range c.Probes {
		p := pp.Pt()
		n := 0
		for _, l := range loops {
			if l.ContainsPoint(p) {
				n++
			}
		}
		if n != 1 {
			o.Err = fmt.Sprintf("probe %d %v is contained in %d of the %d level-%d cell loops (want exactly 1)", i, p, n, len(loops), c.Level)
			return o
		}
	}
	return o
}

// local tilings: the cells of one level (any level ≤ 30) around one cell
// vertex; probes within a small fraction of the cell size of that vertex are
// contained in exactly one of the incident cells' loops.
type localTiling struct {
	Cell   uint64
	K      int
	Probes []gen.P
}

func genLocalTiling(t *rapid.T) localTiling {
	id := gen.CellID(t, "cell")
	if id.Level() == 0 {
		id = id.Children()[0]
	}
	k := rapid.IntRange(0, 3).Draw(t, "k")
	c := s2.CellFromCellID(id)
	v := c.Vertex(k)
	var probes []gen.P
	probes = append(probes, gen.FromPt(v))
	for i := 0; i < 8; i++ {
		switch rapid.IntRange(0, 2).Draw(t, "kind") {
		case 0:
			probes = append(probes, gen.FromPt(gen.Perturb(t, "vn", v, 2)))
		default:
			// along an incident edge of this cell, very close to v (≤ 1e-3 of the edge)
			other := c.Vertex((k + 1) % 4)
			if rapid.Bool().Draw(t, "prev") {
				other = c.Vertex((k + 3) % 4)
			}
			f := rapid.Float64Range(0, 1e-3).Draw(t, "f")
			p := gen.Fix(s2.Interpolate(f, v, other), v)
			probes = append(probes, gen.FromPt(gen.Perturb(t, "en", p, 2)))
		}
	}
	return localTiling{Cell: uint64(id), K: k, Probes: probes}
}

func checkLocalTiling(c localTiling) ev.Outcome {
	id := s2.CellID(c.Cell)
	o := ev.Outcome{Class: fmt.Sprintf("level=%d", id.Level())}
	if !id.IsValid() || id.Level() == 0 {
		o.Skip = true
		return o
	}
	cell := s2.CellFromCellID(id)
	v := cell.Vertex(c.K)
	// all cells of this level that have v as a vertex: found geometrically among
	// the cell and its AllNeighbors (bit-identical vertex comparison).
	cand := append([]s2.CellID{id}, id.AllNeighbors(id.Level())...)
	var loops []*s2.Loop
	seen := map[s2.CellID]bool{}
	for _, nid := range cand {
		if seen[nid] {
			continue // AllNeighbors may list a cell twice near cube corners
		}
		seen[nid] = true
		nc := s2.CellFromCellID(nid)
		for k := 0; k < 4; k++ {
			if nc.Vertex(k) == v {
				loops = append(loops, s2.LoopFromCell(nc))
				break
			}
		}
	}
	o.Class += fmt.Sprintf("/incident=%d", len(loops))
	if len(loops) != 4 && len(loops) != 3 {
		o.Err = fmt.Sprintf("vertex %v of cell %v is a bit-identical vertex of %d same-level cells (want 4, or 3 at a cube corner)", v, id, len(loops))
		return o
	}
	o.NonTrivial = true
	for i, pp := range c.Probes {
		p := pp.Pt()
		n := 0
		for _, l := range loops {
			if l.ContainsPoint(p) {
				n++
			}
		}
		if n != 1 {
			o.Err = fmt.Sprintf("probe %d %v near vertex %v is contained in %d of the %d incident level-%d cell loops (want exactly 1)", i, p, v, n, len(loops), id.Level())
			return o
		}
	}
	return o
}

// lattice tilings: a face split into lattice rectangles sharing edges exactly.
type latticeTiling struct {
	Face, Level int
	CutI, CutJ  []int
	Probes      [][2]int // lattice points (i,j) to probe (vertices of the tiling)
	CellProbes  [][2]int // grid cells whose centres are probed
}

func genLatticeTiling(t *rapid.T) latticeTiling {
	face := rapid.IntRange(0, 5).Draw(t, "face")
	level := rapid.IntRange(1, 5).Draw(t, "level")
	size := 1 << uint(level)
	cuts := func(label string) []int {
		k := rapid.IntRange(0, minInt(4, size-1)).Draw(t, label+".k")
		m := map[int]bool{}
		for i := 0; i < k; i++ {
			m[rapid.IntRange(1, size-1).Draw(t, label+".c")] = true
		}
		out := []int{0}
		for c := 1; c < size; c++ {
			if m[c] {
				out = append(out, c)
			}
		}
		return append(out, size)
	}
	lt := latticeTiling{Face: face, Level: level, CutI: cuts("ci"), CutJ: cuts("cj")}
	for i := 0; i < 10; i++ {
		lt.Probes = append(lt.Probes, [2]int{rapid.IntRange(0, size).Draw(t, "pi"), rapid.IntRange(0, size).Draw(t, "pj")})
		lt.CellProbes = append(lt.CellProbes, [2]int{rapid.IntRange(0, size-1).Draw(t, "ci2"), rapid.IntRange(0, size-1).Draw(t, "cj2")})
	}
	return lt
}

func checkLatticeTiling(c latticeTiling) ev.Outcome {
	o := ev.Outcome{Class: fmt.Sprintf("level=%d/rects=%d", c.Level, (len(c.CutI)-1)*(len(c.CutJ)-1))}
	size := 1 << uint(c.Level)
	var rects []gen.LatticeRect
	var loops []*s2.Loop
	maxV := 0
	for a := 0; a+1 < len(c.CutI); a++ {
		for b := 0; b+1 < len(c.CutJ); b++ {
			r := gen.LatticeRect{Face: c.Face, Level: c.Level, I0: c.CutI[a], I1: c.CutI[a+1], J0: c.CutJ[b], J1: c.CutJ[b+1]}
			rects = append(rects, r)
			l := s2.LoopFromPoints(gen.Pts(r.Vertices()))
			if l.NumVertices() > maxV {
				maxV = l.NumVertices()
			}
			loops = append(loops, l)
		}
	}
	// the rest of the sphere: the complement of the whole face rectangle
	whole := gen.LatticeRect{Face: c.Face, Level: c.Level, I0: 0, J0: 0, I1: size, J1: size}
	outside := whole.LoopCase().Reversed().Loop()
	o.NonTrivial = maxV > 32 || len(rects) > 1
	// cell centres: integer truth
	for _, ij := range c.CellProbes {
		p := whole.CenterOfCell(ij[0], ij[1])
		for k, r := range rects {
			want := r.ContainsCellIJ(ij[0], ij[1])
			if got := loops[k].ContainsPoint(p); got != want {
				o.Err = fmt.Sprintf("centre of grid cell %v: rect %+v ContainsPoint=%v, integer truth=%v", ij, r, got, want)
				return o
			}
		}
		if outside.ContainsPoint(p) {
			o.Err = fmt.Sprintf("centre of grid cell %v is contained by the complement of its face", ij)
			return o
		}
	}
	// lattice points (vertices of the tiling, on shared edges): exactly once
	for _, ij := range c.Probes {
		p := gen.LatticePoint(c.Face, c.Level, ij[0], ij[1])
		n := 0
		for _, l := range loops {
			if l.ContainsPoint(p) {
				n++
			}
		}
		if outside.ContainsPoint(p) {
			n++
		}
		if n != 1 {
			o.Err = fmt.Sprintf("lattice point %v (face %d level %d) is contained in %d tiles (want exactly 1); cuts I=%v J=%v", ij, c.Face, c.Level, n, c.CutI, c.CutJ)
			return o
		}
	}
	return o
}

// ---------------------------------------------------------------- containsCenter of index cells (hook)

func checkIndexCenters(c loopProbe) ev.Outcome {
	o := ev.Outcome{}
	l := c.L.Loop()
	if err := l.Validate(); err != nil || len(c.L.V) <= 8 {
		o.Skip = true
		return o
	}
	chains := [][]r3.Vector{vecs(c.L.V)}
	known := c.L.Inside.Pt()
	idx := s2.NewShapeIndex()
	idx.Add(l)
	cells := s2.VerifIndexCells(idx)
	o.Class = fmt.Sprintf("cells=%d", bucket(len(cells)))
	o.NonTrivial = len(cells) >= 2
	for _, ic := range cells {
		center := ic.ID.Point()
		if antipodalish(known, center) {
			continue
		}
		want := exact.ParityContains(chains, known.Vector, c.L.KnownContains(), center.Vector)
		for _, cs := range ic.Shapes {
			if cs.ContainsCenter != want {
				o.Err = fmt.Sprintf("index cell %v: containsCenter=%v but exact crossing parity at the centre=%v", ic.ID, cs.ContainsCenter, want)
				return o
			}
		}
	}
	return o
}

func bucket(n int) int {
	b := 1
	for b < n {
		b *= 4
	}
	return b
}

// ---------------------------------------------------------------- tilings held in ONE index

// All cells of one level, or a face cut into lattice rectangles plus the other
// five faces, added as separate shapes to a single ShapeIndex: the index then
// has fine cells along shared boundaries and cube-face boundaries, and every
// probe must be contained in exactly one shape (semi-open model), never by any
// shape in the open model at a vertex, and by at least one in the closed model.
type indexTiling struct {
	Level   int // cell level 1..3, or -1: lattice tiling
	Lattice latticeTiling
	Probes  []gen.P
}

func genIndexTiling(t *rapid.T) indexTiling {
	it := indexTiling{Level: rapid.SampledFrom([]int{1, 2, 2, 3, -1, -1}).Draw(t, "level")}
	var verts []gen.P
	if it.Level < 0 {
		it.Lattice = genLatticeTiling(t)
		for _, ij := range it.Lattice.Probes {
			verts = append(verts, gen.FromPt(gen.LatticePoint(it.Lattice.Face, it.Lattice.Level, ij[0], ij[1])))
		}
	}
	for i := 0; i < 16; i++ {
		lvl := it.Level
		if lvl < 0 {
			lvl = rapid.IntRange(0, 4).Draw(t, "plvl")
		}
		face := rapid.IntRange(0, 5).Draw(t, "face")
		c := s2.CellFromCellID(gen.CellIDAt(t, "cell", face, lvl))
		k := rapid.IntRange(0, 3).Draw(t, "k")
		var p s2.Point
		switch rapid.IntRange(0, 4).Draw(t, "kind") {
		case 0, 1:
			p = c.Vertex(k)
		case 2:
			p = gen.Fix(s2.Interpolate(rapid.Float64Range(0, 1).Draw(t, "f"), c.Vertex(k), c.Vertex((k+1)%4)), c.Vertex(k))
			p = gen.Perturb(t, "n", p, 2)
		case 3:
			p = gen.Perturb(t, "vn", c.Vertex(k), 2)
		default:
			p = c.ID().Point()
		}
		verts = append(verts, gen.FromPt(p))
	}
	it.Probes = verts
	return it
}

func checkIndexTiling(c indexTiling) ev.Outcome {
	o := ev.Outcome{NonTrivial: true}
	idx := s2.NewShapeIndex()
	n := 0
	if c.Level >= 0 {
		o.Class = fmt.Sprintf("cells-level=%d", c.Level)
		for f := 0; f < 6; f++ {
			id := s2.CellIDFromFace(f).ChildBeginAtLevel(c.Level)
			end := s2.CellIDFromFace(f).ChildEndAtLevel(c.Level)
			for ; id != end; id = id.Next() {
				idx.Add(s2.LoopFromCell(s2.CellFromCellID(id)))
				n++
			}
		}
	} else {
		lt := c.Lattice
		o.Class = fmt.Sprintf("lattice-level=%d", lt.Level)
		for a := 0; a+1 < len(lt.CutI); a++ {
			for b := 0; b+1 < len(lt.CutJ); b++ {
				r := gen.LatticeRect{Face: lt.Face, Level: lt.Level, I0: lt.CutI[a], I1: lt.CutI[a+1], J0: lt.CutJ[b], J1: lt.CutJ[b+1]}
				idx.Add(s2.LoopFromPoints(gen.Pts(r.Vertices())))
				n++
			}
		}
		// the rest of the sphere: the complement of the whole face, as one loop
		size := 1 << uint(lt.Level)
		whole := gen.LatticeRect{Face: lt.Face, Level: lt.Level, I0: 0, J0: 0, I1: size, J1: size}
		idx.Add(whole.LoopCase().Reversed().Loop())
		n++
	}
	semi := s2.NewContainsPointQuery(idx, s2.VertexModelSemiOpen)
	closed := s2.NewContainsPointQuery(idx, s2.VertexModelClosed)
	for i, pp := range c.Probes {
		p := pp.Pt()
		got := len(semi.ContainingShapes(p))
		if got != 1 {
			o.Err = fmt.Sprintf("probe %d %v is contained in %d of the %d tiles held in one index (%s); want exactly 1", i, p, got, n, o.Class)
			return o
		}
		if !closed.Contains(p) {
			o.Err = fmt.Sprintf("probe %d %v: closed model contains it in no tile", i, p)
			return o
		}
	}
	return o
}

// ---------------------------------------------------------------- polygons with several shells (and > 12 loops)

type multiPoly struct {
	F      []gen.RingsPolygon // ring families about distinct cube-face centres (disjoint from each other)
	Perm   []int              // input order of the loops
	Probes []gen.P
}

func genMultiPoly(t *rapid.T) multiPoly {
	nf := rapid.IntRange(2, 3).Draw(t, "families")
	faces := rapid.Permutation([]int{0, 1, 2, 3, 4, 5}).Draw(t, "faces")
	c := multiPoly{}
	var all []gen.P
	total := 0
	for f := 0; f < nf; f++ {
		centre := s2.Point{Vector: gen.FaceUVToXYZ(faces[f], 0, 0)}
		k := rapid.IntRange(1, 6).Draw(t, "rings")
		maxN := rapid.SampledFrom([]int{8, 10, 14, 24}).Draw(t, "maxN")
		rp := gen.DrawRingsAt(t, fmt.Sprintf("f%d", f), centre, k, maxN, 25*math.Pi/180)
		if f > 0 && rapid.IntRange(0, 2).Draw(t, "hug") == 0 {
			// shell + a hole one edge of which lies along a shell edge (bounds differ by rounding only)
			if h, ok := gen.HugRings(t, fmt.Sprintf("h%d", f), centre, rapid.Float64Range(0.05, 0.4).Draw(t, "hugr")); ok {
				rp = h
			}
		}
		c.F = append(c.F, rp)
		for _, r := range rp.Rings {
			all = append(all, r...)
			total++
		}
	}
	idx := make([]int, total)
	for i := range idx {
		idx[i] = i
	}
	c.Perm = rapid.Permutation(idx).Draw(t, "perm")
	c.Probes = gen.ProbePoints(t, "q", all, 20)
	for _, rp := range c.F {
		c.Probes = append(c.Probes, rp.Center)
	}
	return c
}

func checkMultiPoly(c multiPoly) ev.Outcome {
	o := ev.Outcome{}
	var rings [][]gen.P
	for _, rp := range c.F {
		rings = append(rings, rp.Rings...)
	}
	if len(rings) == 0 || len(c.Perm) != len(rings) {
		o.Skip = true
		return o
	}
	build := func() *s2.Polygon {
		var loops []*s2.Loop
		for _, k := range c.Perm {
			loops = append(loops, s2.LoopFromPoints(gen.Pts(rings[k])))
		}
		return s2.PolygonFromLoops(loops)
	}
	poly := build()
	if poly.Validate() != nil {
		o.Skip = true
		return o
	}
	var chains [][]r3.Vector
	nv := 0
	var all []gen.P
	for _, r := range rings {
		chains = append(chains, vecs(r))
		nv += len(r)
		all = append(all, r...)
	}
	known := c.F[0].Center.Pt()
	knownInside := len(c.F[0].Rings)%2 == 1
	idx := s2.NewShapeIndex()
	shape := build()
	idx.Add(shape)
	q := s2.NewContainsPointQuery(idx, s2.VertexModelSemiOpen)
	comp := build()
	comp.Invert()
	twice := build()
	twice.Invert()
	twice.Invert()
	compIdx := s2.NewShapeIndex()
	compShape := build()
	compShape.Invert()
	compIdx.Add(compShape)
	qc := s2.NewContainsPointQuery(compIdx, s2.VertexModelSemiOpen)
	o.Class = fmt.Sprintf("families=%d/loops>12=%v/nv>=32=%v", len(c.F), len(rings) > 12, nv >= 32)
	o.NonTrivial = len(rings) > 12 || nv >= 32
	for i, pp := range c.Probes {
		p := pp.Pt()
		if antipodalish(known, p) {
			continue
		}
		want := exact.ParityContains(chains, known.Vector, knownInside, p.Vector)
		got := map[string]bool{
			"Polygon.ContainsPoint":                    poly.ContainsPoint(p),
			"ContainsPointQuery":                       q.Contains(p),
			"ShapeContains":                            q.ShapeContains(shape, p),
			"twice inverted Polygon.ContainsPoint":     twice.ContainsPoint(p),
			"NOT Invert()ed Polygon.ContainsPoint":     !comp.ContainsPoint(p),
			"NOT ContainsPointQuery on the complement": !qc.Contains(p),
		}
		for name, g := range got {
			if g != want {
				o.Err = fmt.Sprintf("probe %d (vertex=%v): %s = %v, exact crossing parity = %v (%d loops in %d families)", i, isVertex(all, pp), name, g, want, len(rings), len(c.F))
				return o
			}
		}
	}
	return o
}

func init() {
	ev.Define("loop_paths", ev.Options{
		Rule:  "valid-by-construction loops (regular, star-shaped about special/random centres, lattice rectangles with a vertex at every grid point, cells; 1/4 inverted; sizes 3..300 (thorough 3000) with mass on 31/32/33 and 63/64/65) × 24 probes (vertices, points on edges ±3 ulps, ±2-ulp neighbours of vertices, cell centres/corners, near and far points). Oracle: parity of exact (integer determinant + independent SoS) crossings of the segment from the construction's known interior point, documented shared-vertex rule; compared with Loop.ContainsPoint (fresh / index built), single-loop Polygon, ContainsPointQuery semi-open (lazy and pre-built index) + ShapeContains + ContainingShapes, open/closed models at vertices, ContainsOrigin. Non-trivial: the loop has > 32 vertices and its index ≥ 2 cells, or a probe is exactly a vertex.",
		Quick: 20000, Thorough: 200000}, genLoopProbe, checkLoopPaths)
	ev.Define("loop_inverse", ev.Options{
		Rule:  "same loops and probes; a loop and the fresh reversed loop contain every probe exactly once; Invert() before any query, after the index was built and used, and twice, agree with the fresh loops. Non-trivial: > 32 vertices (index path).",
		Quick: 15000, Thorough: 100000}, genLoopProbe, checkLoopInverse)
	ev.Define("polygon_parity", ev.Options{
		Rule:  "polygons of 1..5 (1 in 10: up to 16, reaching cumulativeEdges) concentric star rings (nesting depth known from the construction) × 24 probes; oracle as loop_paths over all rings; Polygon.ContainsPoint, ContainsPointQuery, ShapeContains, and the Invert()ed complement contains each probe exactly when the polygon does not. Non-trivial: ≥ 32 vertices in total or a probe is a vertex.",
		Quick: 15000, Thorough: 150000}, genPolyProbe, checkPolygon)
	ev.Define("polygon_multi_parity", ev.Options{
		Rule:  "polygons assembled by PolygonFromLoops from the shuffled rings of 2..3 disjoint ring families about distinct cube-face centres (1..6 rings each with 8..24 vertices, so up to 18 loops of different sizes and several top-level shells; a third of the later families is instead a shell of 4..8 long edges with a triangular hole one edge of which lies strictly inside but within rounding of a shell edge) x 20 probes + the family centres; oracle = exact crossing parity over all rings; Polygon.ContainsPoint, ContainsPointQuery, ShapeContains; the Invert()ed polygon (direct and through a ShapeIndex) contains a probe exactly when the polygon does not; inverting twice restores the answers. Non-trivial: more than 12 loops or at least 32 vertices.",
		Quick: 8000, Thorough: 100000}, genMultiPoly, checkMultiPoly)
	ev.Define("tiling_cells_full", ev.Options{
		Rule:  "all 6·4^L cell loops of level L ∈ {0,1,2}; probes = cell vertices, points on cell edges ±2 ulps, ±2-ulp neighbours of vertices, uniform points; each probe is contained in exactly one loop. All cases non-trivial.",
		Quick: 3000, Thorough: 10000}, genTiling, checkTiling)
	ev.Define("tiling_cells_local", ev.Options{
		Rule:  "a cell of any level 1..30 (path-biased to face edges and cube corners) and one of its vertices; the 4 (3 at cube corners) same-level cells having that bit-identical vertex; probes = the vertex, its ±2-ulp neighbours, points on the incident edges within 1e-3 of the edge length ±2 ulps; each contained in exactly one incident cell loop.",
		Quick: 100000, Thorough: 1000000}, genLocalTiling, checkLocalTiling)
	ev.Define("tiling_lattice", ev.Options{
		Rule:  "a cube face cut into lattice rectangles (levels 1..5, up to 5×5 tiles, every grid point on a boundary is a vertex so shared edges are bit-identical) plus the complement of the face; grid-cell centres agree with integer truth; lattice points (tile vertices, points on shared edges) are contained in exactly one tile. Non-trivial: more than one tile or a tile with > 32 vertices.",
		Quick: 20000, Thorough: 150000}, genLatticeTiling, checkLatticeTiling)
	ev.Define("tiling_one_index", ev.Options{
		Rule:  "a whole-sphere tiling (all cells of level 1..3, or a face cut into lattice rectangles plus the complement of that face) added as separate shapes to ONE ShapeIndex, so index cells are fine along shared and cube-face boundaries; probes = cell vertices (incl. on face boundaries and cube corners), points on cell edges ±2 ulps, ±2-ulp neighbours of vertices, cell centres, lattice points; ContainingShapes (semi-open) returns exactly one tile and the closed model at least one. All cases non-trivial.",
		Quick: 1600, Thorough: 15000}, genIndexTiling, checkIndexTiling)
	ev.Define("index_contains_center", ev.Options{
		Rule:  "loops with > 8 vertices; through the verif hook every index cell's containsCenter flag is compared with the exact crossing parity at the cell centre. Non-trivial: the index has ≥ 2 cells.",
		Quick: 15000, Thorough: 100000}, genLoopProbe, checkIndexCenters)
}
