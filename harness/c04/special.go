package c04

import (
	"fmt"
	"sort"

	"github.com/golang/geo/r3"
	"github.com/golang/geo/s2"
	"pgregory.net/rapid"

	"verifharness/internal/ev"
	"verifharness/internal/exact"
	"verifharness/internal/gen"
)

// special_regions: the empty and the full loop / polygon / lax polygon (valid
// regions without any edge: zero crossings from any reference point, so the
// parity is that of the reference point itself) on every evaluation path, alone
// and sharing one index with an ordinary loop.

var specialKinds = []string{
	"emptyloop", "fullloop",
	"emptypoly:noloops", "emptypoly:emptyloop", "emptypoly:invertfull",
	"fullpoly:FullPolygon", "fullpoly:fullloop", "fullpoly:invertempty",
	"emptylax:noloops", "fulllax:emptychain",
}

func specialFull(kind string) bool { return kind[:4] == "full" }

func buildSpecial(kind string) (s2.Shape, func(s2.Point) bool) {
	switch kind {
	case "emptyloop":
		l := s2.EmptyLoop()
		return l, l.ContainsPoint
	case "fullloop":
		l := s2.FullLoop()
		return l, l.ContainsPoint
	case "emptypoly:noloops":
		p := s2.PolygonFromLoops(nil)
		return p, p.ContainsPoint
	case "emptypoly:emptyloop":
		p := s2.PolygonFromLoops([]*s2.Loop{s2.EmptyLoop()})
		return p, p.ContainsPoint
	case "emptypoly:invertfull":
		p := s2.FullPolygon()
		p.Invert()
		return p, p.ContainsPoint
	case "fullpoly:FullPolygon":
		p := s2.FullPolygon()
		return p, p.ContainsPoint
	case "fullpoly:fullloop":
		p := s2.PolygonFromLoops([]*s2.Loop{s2.FullLoop()})
		return p, p.ContainsPoint
	case "fullpoly:invertempty":
		p := s2.PolygonFromLoops(nil)
		p.Invert()
		return p, p.ContainsPoint
	case "emptylax:noloops":
		return s2.LaxPolygonFromPoints(nil), nil
	case "fulllax:emptychain":
		return s2.LaxPolygonFromPoints([][]s2.Point{{}}), nil
	}
	panic("c04: unknown special kind " + kind)
}

type specialCase struct {
	Kinds    []string     // 1..3 special shapes, added to the index in this order
	L        gen.LoopCase // ordinary loop
	WithLoop int          // 0: no ordinary loop; 1: added first; 2: added last
	Built    bool         // index built before the queries are made
	Probes   []gen.P
}

func genSpecialRegions(t *rapid.T) specialCase {
	c := specialCase{L: gen.Loop(t, "l", 120)}
	n := rapid.IntRange(1, 3).Draw(t, "n")
	for i := 0; i < n; i++ {
		c.Kinds = append(c.Kinds, rapid.SampledFrom(specialKinds).Draw(t, "kind"))
	}
	c.WithLoop = rapid.IntRange(0, 2).Draw(t, "withloop")
	c.Built = rapid.Bool().Draw(t, "built")
	c.Probes = gen.ProbePoints(t, "q", c.L.V, 12)
	c.Probes = append(c.Probes, gen.FromPt(s2.OriginPoint()), gen.FromPt(s2.Point{Vector: r3.Vector{X: 0, Y: 0, Z: 1}}), gen.FromPt(s2.Point{Vector: r3.Vector{X: 0, Y: 0, Z: -1}}))
	return c
}

func checkSpecialRegions(c specialCase) ev.Outcome {
	o := ev.Outcome{}
	if len(c.Kinds) == 0 || len(c.L.V) < 3 {
		o.Skip = true
		return o
	}
	for _, k := range c.Kinds {
		ok := false
		for _, s := range specialKinds {
			ok = ok || s == k
		}
		if !ok {
			o.Skip = true
			return o
		}
	}
	idx := s2.NewShapeIndex()
	type entry struct {
		id      int32
		full    bool
		special bool
		direct  func(s2.Point) bool
		shape   s2.Shape
		kind    string
	}
	var es []entry
	loop := c.L.Loop()
	if loop.Validate() != nil {
		o.Skip = true
		return o
	}
	addLoop := func() {
		es = append(es, entry{id: idx.Add(loop), direct: loop.ContainsPoint, shape: loop, kind: "loop"})
	}
	if c.WithLoop == 1 {
		addLoop()
	}
	nFull := 0
	for _, k := range c.Kinds {
		sh, direct := buildSpecial(k)
		es = append(es, entry{id: idx.Add(sh), full: specialFull(k), special: true, direct: direct, shape: sh, kind: k})
		if specialFull(k) {
			nFull++
		}
		if sh.NumEdges() != 0 {
			o.Err = fmt.Sprintf("%s has %d edges", k, sh.NumEdges())
			return o
		}
		if rp := sh.ReferencePoint(); rp.Contained != specialFull(k) {
			o.Err = fmt.Sprintf("%s: ReferencePoint().Contained = %v", k, rp.Contained)
			return o
		}
	}
	if c.WithLoop == 2 {
		addLoop()
	}
	if c.Built {
		idx.Build()
	}
	o.Class = fmt.Sprintf("specials=%d/full=%d/withloop=%d/built=%v", len(c.Kinds), nFull, c.WithLoop, c.Built)
	o.NonTrivial = true
	chains := [][]r3.Vector{vecs(c.L.V)}
	known := c.L.Inside.Pt()
	models := []s2.VertexModel{s2.VertexModelOpen, s2.VertexModelSemiOpen, s2.VertexModelClosed}
	for i, pp := range c.Probes {
		p := pp.Pt()
		if !gen.Unit(p) || (c.WithLoop != 0 && antipodalish(known, p)) {
			continue
		}
		inLoop := false
		if c.WithLoop != 0 {
			inLoop = exact.ParityContains(chains, known.Vector, c.L.KnownContains(), p.Vector)
		}
		var want []int
		for _, e := range es {
			w := e.full
			if !e.special {
				w = inLoop
			}
			if w {
				want = append(want, int(e.id))
			}
			if e.direct != nil {
				if g := e.direct(p); g != w {
					o.Err = fmt.Sprintf("probe %d: %s.ContainsPoint = %v, want %v", i, e.kind, g, w)
					return o
				}
			}
		}
		for _, m := range models {
			if c.WithLoop != 0 && m != s2.VertexModelSemiOpen {
				// on the ordinary loop's boundary the open/closed models legitimately differ
				continue
			}
			q := s2.NewContainsPointQuery(idx, m)
			var got []int
			for _, sh := range q.ContainingShapes(p) {
				for _, e := range es {
					if e.shape == sh {
						got = append(got, int(e.id))
					}
				}
			}
			sort.Ints(got)
			if fmt.Sprint(got) != fmt.Sprint(want) {
				o.Err = fmt.Sprintf("probe %d: ContainsPointQuery(model %d).ContainingShapes = %v, want %v (shapes %v, withloop=%d)", i, m, got, want, c.Kinds, c.WithLoop)
				return o
			}
			if g := q.Contains(p); g != (len(want) > 0) {
				o.Err = fmt.Sprintf("probe %d: ContainsPointQuery(model %d).Contains = %v, want %v", i, m, g, len(want) > 0)
				return o
			}
			for _, e := range es {
				w := e.full
				if !e.special {
					w = inLoop
				}
				if g := q.ShapeContains(e.shape, p); g != w {
					o.Err = fmt.Sprintf("probe %d: ContainsPointQuery(model %d).ShapeContains(%s) = %v, want %v", i, m, e.kind, g, w)
					return o
				}
			}
		}
	}
	return o
}

func init() {
	ev.Define("special_regions", ev.Options{
		Rule:  "1..3 edge-less regions (empty / full loop, polygon in each construction incl. Invert of the opposite, lax polygon without loops / with one empty loop) in one ShapeIndex, optionally together with an ordinary loop (added first or last), index built or not; probes as loop_paths plus OriginPoint and both poles. Truth: full contains every point, empty none (zero crossings), the ordinary loop by exact parity. Paths: direct ContainsPoint, ContainsPointQuery Contains / ContainingShapes / ShapeContains under all three vertex models. All cases count as non-trivial.",
		Quick: 8000, Thorough: 100000}, genSpecialRegions, checkSpecialRegions)
}
