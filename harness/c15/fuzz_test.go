package c15

// Native coverage-guided fuzz targets (not part of the quick tier). One target
// per decoder; each applies the same three oracles as the rapid sub-checks.
//
//	cd /verif/harness && VERIF_KNOWN=<classes> go test -tags verif ./c15/ -run '^$' -fuzz '^FuzzPolygon$' -fuzztime 90s
//
// Seed corpus: testdata/fuzz/Fuzz<Kind>/ (valid encodings written by
// C15_WRITE_CORPUS=1 go test -tags verif ./c15/ -run TestWriteCorpus).
// A failure whose finding class is listed in VERIF_KNOWN is skipped so the
// fuzzer can look behind the known defects.

import (
	"fmt"
	"os"
	"path/filepath"
	"strings"
	"testing"

	"pgregory.net/rapid"
)

func fuzzKind(f *testing.F, kind string) {
	f.Add([]byte{})
	f.Add([]byte{1})
	f.Add([]byte{1, 0, 0, 0, 0})
	f.Add([]byte{4, 30, 1, 3, 18})
	f.Fuzz(func(t *testing.T, data []byte) {
		if len(data) > 1<<16 {
			return
		}
		// within-limit counts that cost 1.2 GB each are not worth fuzzing time
		w := walk(kind, data)
		if w.Allowance > 64<<20 {
			return
		}
		r := checkBytes(kind, data, len(data)%3 == 0)
		if r.err != "" && !knownSet[r.finding] {
			t.Fatalf("finding=%q: %s", r.finding, r.err)
		}
	})
}

func FuzzPoint(f *testing.F)     { fuzzKind(f, "point") }
func FuzzCap(f *testing.F)       { fuzzKind(f, "cap") }
func FuzzRect(f *testing.F)      { fuzzKind(f, "rect") }
func FuzzCellID(f *testing.F)    { fuzzKind(f, "cellid") }
func FuzzCell(f *testing.F)      { fuzzKind(f, "cell") }
func FuzzCellUnion(f *testing.F) { fuzzKind(f, "cellunion") }
func FuzzPolyline(f *testing.F)  { fuzzKind(f, "polyline") }
func FuzzLoop(f *testing.F)      { fuzzKind(f, "loop") }
func FuzzPolygon(f *testing.F)   { fuzzKind(f, "polygon") }

// TestWriteCorpus regenerates the seed corpus (only when asked to).
func TestWriteCorpus(t *testing.T) {
	if os.Getenv("C15_WRITE_CORPUS") == "" {
		t.Skip("C15_WRITE_CORPUS not set")
	}
	count := map[string]int{}
	rapid.Check(t, func(rt *rapid.T) {
		kind := genKind(rt)
		if count[kind] >= 12 {
			return
		}
		seed := genSeed(rt, kind)
		if len(seed) > 700 {
			return
		}
		count[kind]++
		name := "Fuzz" + map[string]string{"point": "Point", "cap": "Cap", "rect": "Rect", "cellid": "CellID", "cell": "Cell",
			"cellunion": "CellUnion", "polyline": "Polyline", "loop": "Loop", "polygon": "Polygon"}[kind]
		dir := filepath.Join("testdata", "fuzz", name)
		os.MkdirAll(dir, 0o755)
		var sb strings.Builder
		sb.WriteString("go test fuzz v1\n[]byte(\"")
		for _, b := range seed {
			fmt.Fprintf(&sb, "\\x%02x", b)
		}
		sb.WriteString("\")\n")
		os.WriteFile(filepath.Join(dir, fmt.Sprintf("seed-%02d", count[kind])), []byte(sb.String()), 0o644)
	})
}
