// Package c15: decoding arbitrary bytes is total — an error or a usable value,
// never a panic, a process abort or a hang; over-limit element counts are
// rejected before memory is allocated for them.
package c15

import (
	"bytes"
	"encoding/hex"
	"fmt"
	"io"
	"os"
	"runtime/debug"
	"runtime/metrics"
	"strings"
	"syscall"
	"time"

	"github.com/golang/geo/s2"

	"verifharness/internal/ev"
)

var kinds = []string{"point", "cap", "rect", "cellid", "cell", "cellunion", "polyline", "loop", "polygon"}

const (
	// allocLimit: an over-limit count must be rejected with less than this much
	// allocated during the call (written down before running: DESIGN C15 oracle (2)).
	allocLimit = 64 << 20
	// callDeadline: one Decode / one query group must return before the process
	// has burnt this much CPU time on it (the slowest legitimate call, a 50 M
	// vertex count on a truncated input, needs about 5 CPU-seconds) …
	callDeadline = 60 * time.Second
	// … or this much wall-clock time (a decoder that blocks without spinning).
	wallBackstop = 12 * time.Minute
	// addressSpaceLimit: the worker's RLIMIT_AS. A legitimate within-limit
	// allocation (50 M vertices = 1.2 GB) fits; a count-driven 16 GB one is a
	// fatal "out of memory" that the driver attributes to the journaled input
	// instead of letting the machine's OOM killer pick a victim.
	addressSpaceLimit = 10 << 30
)

func init() {
	lim := syscall.Rlimit{Cur: addressSpaceLimit, Max: addressSpaceLimit}
	var cur syscall.Rlimit
	if syscall.Getrlimit(syscall.RLIMIT_AS, &cur) == nil && cur.Max < lim.Max {
		lim.Max = cur.Max
		if lim.Cur > lim.Max {
			lim.Cur = lim.Max
		}
	}
	syscall.Setrlimit(syscall.RLIMIT_AS, &lim)
	// (No debug.SetMemoryLimit: with a soft limit the scavenger hands the
	// transient 1.2 GB slices back to the OS at once and every next one is
	// page-faulted in again — ten times the system time for nothing.)
}

var slowLog = os.Getenv("C15_SLOWLOG") != ""

var knownSet = func() map[string]bool {
	m := map[string]bool{}
	for _, c := range strings.Split(os.Getenv("VERIF_KNOWN"), ",") {
		if c = strings.TrimSpace(c); c != "" {
			m[c] = true
		}
	}
	return m
}()

// ---------------------------------------------------------------------------
// guarded execution

type guard struct {
	panicked bool
	panicVal string
	stack    string
	timedOut bool
	secs     float64 // wall
	cpu      float64 // CPU seconds of the process during the call (== wall for fast calls)
	alloc    uint64
}

var allocSample = []metrics.Sample{{Name: "/gc/heap/allocs:bytes"}}

func allocated() uint64 {
	metrics.Read(allocSample)
	return allocSample[0].Value.Uint64()
}

// run executes f on its own goroutine under recover, with a deadline, and
// measures the bytes allocated by the process meanwhile (the harness is
// otherwise idle: rapid runs one case at a time).
func run(f func()) guard {
	var g guard
	done := make(chan struct{})
	a0 := allocated()
	t0 := time.Now()
	go func() {
		defer close(done)
		defer func() {
			if r := recover(); r != nil {
				g.panicked = true
				g.panicVal = fmt.Sprint(r)
				g.stack = trimStack(string(debug.Stack()))
			}
		}()
		f()
	}()
	// Fast path: almost every call returns within microseconds.
	slowC0 := -1.0
	select {
	case <-done:
	case <-time.After(200 * time.Millisecond):
		// Slow call. The machine may be heavily loaded, so the deadline is
		// measured in CPU time consumed by this process (a spinning decoder
		// burns it at ≥ 1 s/s; a starved one does not), with a generous
		// wall-clock backstop for a decoder that blocks without spinning.
		c0 := cpuSeconds()
		slowC0 = c0
		tick := time.NewTicker(250 * time.Millisecond)
		defer tick.Stop()
	wait:
		for {
			select {
			case <-done:
				break wait
			case <-tick.C:
				if cpuSeconds()-c0 > callDeadline.Seconds() || time.Since(t0) > wallBackstop {
					// the goroutine is abandoned; g must not be read concurrently
					return guard{timedOut: true, secs: time.Since(t0).Seconds(), alloc: allocated() - a0}
				}
			}
		}
	}
	g.secs = time.Since(t0).Seconds()
	g.cpu = g.secs
	if slowC0 >= 0 {
		g.cpu = cpuSeconds() - slowC0 + 0.2
	}
	g.alloc = allocated() - a0
	return g
}

// trimStack keeps the frames between the panic and the harness (the library's frames).
func trimStack(st string) string {
	lines := strings.Split(st, "\n")
	start := 0
	for i, l := range lines {
		if strings.HasPrefix(l, "panic(") {
			start = i + 2
			break
		}
	}
	var out []string
	for i := start; i+1 < len(lines) && len(out) < 16; i += 2 {
		if strings.HasPrefix(lines[i], "verifharness/") {
			break
		}
		out = append(out, "    "+lines[i], "    "+strings.TrimSpace(lines[i+1]))
	}
	return strings.Join(out, "\n")
}

func cpuSeconds() float64 {
	var ru syscall.Rusage
	if syscall.Getrusage(syscall.RUSAGE_SELF, &ru) != nil {
		return 0
	}
	tv := func(t syscall.Timeval) float64 { return float64(t.Sec) + float64(t.Usec)/1e6 }
	return tv(ru.Utime) + tv(ru.Stime)
}

// oneByteReader hides ReadByte and hands out one byte per Read, so the decoder
// has to wrap it (the documented io.Reader contract, not the fast path).
type oneByteReader struct{ r io.Reader }

func (o oneByteReader) Read(p []byte) (int, error) {
	if len(p) == 0 {
		return 0, nil
	}
	return o.r.Read(p[:1])
}

func decode(kind string, data []byte, slowReader bool) (*decoded, error) {
	var r io.Reader = bytes.NewReader(data)
	if slowReader {
		r = oneByteReader{r}
	}
	d := &decoded{kind: kind}
	var err error
	switch kind {
	case "point":
		err = d.point.Decode(r)
	case "cap":
		err = d.cap.Decode(r)
	case "rect":
		err = d.rect.Decode(r)
	case "cellid":
		err = d.cellid.Decode(r)
	case "cell":
		err = d.cell.Decode(r)
	case "cellunion":
		err = d.cu.Decode(r)
	case "polyline":
		err = d.polyline.Decode(r)
	case "loop":
		d.loop = new(s2.Loop)
		err = d.loop.Decode(r)
	case "polygon":
		d.polygon = new(s2.Polygon)
		err = d.polygon.Decode(r)
	default:
		panic("harness: unknown kind " + kind)
	}
	return d, err
}

// ---------------------------------------------------------------------------
// the oracle for one input

type result struct {
	class      string
	nontrivial bool
	err        string
	finding    string
	executed   bool
	queried    bool
	allocRatio float64 // alloc/allocLimit when the model says over-limit
	allocBytes uint64
	secs       float64
	w          *walkResult
}

// genericName strips nothing today (walker names carry no indices); kept so the
// class label policy lives in one place.
func classOf(kind string, w *walkResult) string {
	k := kind
	if kind == "polygon" && len(w.Fields) > 0 {
		k = strings.SplitN(w.Fields[0].Name, ".", 2)[0]
	}
	if w.Status == stComplete {
		return k + ":complete"
	}
	at := w.At
	if i := strings.LastIndex(at, "."); i >= 0 {
		at = at[i+1:]
	}
	return k + ":" + w.Status + "@" + at
}

// predictedFinding: the compressed polygon format's loop count is used for an
// allocation although it is over the limit (finding polygon-compressed-nloops-unchecked).
// For counts in (limit, 2^60) that allocation is 80 MB … many GB followed by one
// 112-byte Loop per declared loop: seconds of work and 1.2 GB at best, a dead
// worker at worst. While that finding is listed in VERIF_KNOWN such inputs are
// attributed to it WITHOUT being executed, so the search can continue behind
// it (counts ≥ 2^60 only panic in makeslice and are executed). When the finding
// is not known every such input IS executed and a dead worker is reported
// through the journal.
func predictedFinding(kind string, w *walkResult) (string, uint64) {
	if kind == "polygon" && w.At == "polygon4.nloops" {
		switch w.Status {
		case stOverLimit:
			return "polygon-compressed-nloops-unchecked", w.OverVal
		case stBadVarint, stTruncated:
			// the partial value of the broken varint is used as the loop count
			if w.Partial > limLoops {
				return "polygon-compressed-nloops-unchecked", w.Partial
			}
		}
	}
	return "", 0
}

func nonTrivial(kind string, data []byte, w *walkResult) bool {
	switch kind {
	case "cellunion", "polyline", "loop", "polygon":
		return w.PastVersion && w.Counts >= 1
	}
	// fixed-layout types have no count field: hostile means "not a plain valid
	// encoding" — wrong length, bad version, non-finite float, invalid cell id.
	if w.Status != stComplete || w.End != len(data) || w.hasNonFinite(data) {
		return true
	}
	for _, f := range w.Fields {
		if f.Kind == fCellID && !s2.CellID(f.Val).IsValid() {
			return true
		}
	}
	return false
}

func short(data []byte) string {
	h := hex.EncodeToString(data)
	if len(h) > 400 {
		h = h[:400] + fmt.Sprintf("…(%d bytes)", len(data))
	}
	return h
}

// classifyDecodePanic gives a panic inside Decode its narrow finding class,
// from the input alone (the independent model's view of it).
func classifyDecodePanic(kind string, w *walkResult, data []byte, predicted string) string {
	switch {
	case kind == "cellunion" && w.Status == stOverLimit && w.OverVal >= 1<<63:
		return "cellunion-negative-count"
	case predicted != "":
		return predicted
	case kind == "polygon" && w.Status == stOffCenter && w.At == "polygon4.loop.offidx":
		return "compressed-offcenter-index-unchecked"
	case w.hasNonFinite(data):
		// the decoder computes with the coordinates it has just read
		return "decode-panic-" + kind + "-nonfinite"
	}
	return "decode-panic-" + kind
}

// checkBytes applies the three oracles to one (kind, bytes) input.
func checkBytes(kind string, data []byte, slowReader bool) result {
	w := walk(kind, data)
	res := result{w: w, class: classOf(kind, w), nontrivial: nonTrivial(kind, data, w)}
	fail := func(finding, format string, a ...any) result {
		res.finding = finding
		res.err = fmt.Sprintf(format, a...) + fmt.Sprintf("\n  kind=%s model=%s input=%s", kind, res.class, short(data))
		return res
	}

	if pf, v := predictedFinding(kind, w); pf != "" && knownSet[pf] {
		if v < 1<<60 {
			res.class += "/known-not-executed"
			return fail(pf, "declared loop count %d over the limit reaches make([]*Loop, n) (known finding; not executed because it would abort the worker)", v)
		}
	}

	// oracle (1): Decode returns; no panic, no hang
	var d *decoded
	var derr error
	g := run(func() { d, derr = decode(kind, data, slowReader) })
	res.executed = true
	res.secs = g.cpu
	if slowLog && g.secs > 0.05 {
		fmt.Fprintf(os.Stderr, "C15-SLOW %.2fs alloc=%dMiB kind=%s model=%s input=%s\n", g.secs, g.alloc>>20, kind, res.class, short(data))
	}
	res.allocBytes = g.alloc
	if g.timedOut {
		return fail("decode-hang-"+kind, "Decode did not return within %v of CPU time / %v wall", callDeadline, wallBackstop)
	}
	predicted, _ := predictedFinding(kind, w)
	if g.panicked {
		f := classifyDecodePanic(kind, w, data, predicted)
		return fail(f, "Decode panicked: %s\n%s", g.panicVal, g.stack)
	}

	// oracle (2): a declared count beyond the documented limit is an error and
	// is rejected before memory is allocated for it
	if w.Status == stOverLimit {
		res.allocRatio = float64(g.alloc) / float64(allocLimit+w.Allowance+1024*uint64(len(data)))
		if derr == nil {
			f := "overlimit-accepted-" + kind
			if kind == "polyline" {
				f = "polyline-error-swallowed"
			}
			return fail(f, "declared count %d at %s is over the limit but Decode returned a nil error", w.OverVal, w.At)
		}
		// memory the decoder may have spent on earlier, within-limit counts and on
		// the bytes actually present is not charged to the over-limit count
		if g.alloc >= allocLimit+w.Allowance+1024*uint64(len(data)) {
			f := "overlimit-allocates-" + kind
			if predicted != "" {
				f = predicted
			}
			return fail(f, "declared count %d at %s is over the limit; Decode returned %q but allocated %d MiB first (bound %d MiB)",
				w.OverVal, w.At, derr, g.alloc>>20, allocLimit>>20)
		}
	} else if w.Status != stComplete {
		// extension of oracle (1), reported under its own finding classes: the
		// formats are self-delimiting, so an input that ends early / has an
		// unsupported version / a malformed varint cannot be a value; "an error
		// or a usable value" must then be the error.
		if derr == nil {
			f := "error-not-reported-" + kind
			if kind == "polyline" {
				f = "polyline-error-swallowed"
			}
			return fail(f, "input is %s at %s but Decode returned a nil error", w.Status, w.At)
		}
	}
	if derr != nil {
		res.class += "/err"
		return res
	}

	// oracle (3): the returned value can be queried
	c := d.inspect()
	if c.size > maxQuerySize {
		res.class += "/ok-huge"
		return res
	}
	q := &querier{}
	gv := run(func() {
		q.at("validate")
		if d.validate() != nil {
			c.invalid = true
		}
	})
	if gv.panicked || gv.timedOut {
		c.invalid = true
	}
	res.queried = true
	res.class += "/ok-" + c.label()
	report := func(g guard, group string) (result, bool) {
		if g.timedOut {
			return fail(fmt.Sprintf("query-hang-%s-%s", kind, c.label()), "%s query %s on the decoded value did not return within %v of CPU time / %v wall", group, q.step, callDeadline, wallBackstop), true
		}
		if g.panicked {
			return fail(fmt.Sprintf("query-panic-%s-%s", kind, c.label()), "%s query %s on the decoded %s (%s) panicked: %s\n%s", group, q.step, kind, c.label(), g.panicVal, g.stack), true
		}
		return res, false
	}
	if r, bad := report(gv, "validator"); bad {
		return r
	}
	if r, bad := report(run(func() { d.queryStructural(q) }), "structural"); bad {
		return r
	}
	var enc []byte
	var eerr error
	ge := run(func() { q.at("Encode"); enc, eerr = d.encode() })
	if r, bad := report(ge, "re-encode"); bad {
		return r
	}
	if r, bad := report(run(func() { d.queryRegion(q) }), "region"); bad {
		return r
	}
	// the re-encoding is itself a byte string: decoding it must be total too
	// (one level deep; not queried again).
	if eerr == nil {
		g2 := run(func() { decode(kind, enc, false) })
		if g2.panicked || g2.timedOut {
			w2 := walk(kind, enc)
			p2, _ := predictedFinding(kind, w2)
			f := classifyDecodePanic(kind, w2, enc, p2)
			if g2.timedOut {
				f = "decode-hang-" + kind
			}
			return fail(f, "decoding the re-encoding of the decoded value panicked/hung: %s\n%s\n  re-encoding=%s", g2.panicVal, g2.stack, short(enc))
		}
	}
	return res
}

// ---------------------------------------------------------------------------
// aggregation of many inputs inside one Case (enumerating sub-checks)

type agg struct {
	o          ev.Outcome
	firstKnown result
	nKnown     int
	nInputs    int
	nNonTriv   int
	maxSecs    float64
	maxAlloc   float64
}

func newAgg() *agg { return &agg{o: ev.Outcome{Counts: map[string]int{}}} }

// add records one input's result; it returns true when the enumeration must
// stop (a failure that is not a known finding).
func (a *agg) add(label string, r result) bool {
	a.nInputs++
	a.o.Counts["inputs"]++
	a.o.Counts["class "+r.class]++
	if r.nontrivial {
		a.nNonTriv++
	}
	if r.secs > a.maxSecs {
		a.maxSecs = r.secs
	}
	if r.allocRatio > a.maxAlloc {
		a.maxAlloc = r.allocRatio
	}
	if r.err == "" {
		return false
	}
	if r.finding != "" && knownSet[r.finding] {
		a.o.Counts["known "+r.finding]++
		if a.nKnown == 0 {
			a.firstKnown = r
			a.firstKnown.err = label + ": " + r.err
		}
		a.nKnown++
		return false
	}
	a.o.Err = label + ": " + r.err
	a.o.Finding = r.finding
	return true
}

func (a *agg) finish() ev.Outcome {
	a.o.NonTrivial = a.nNonTriv > 0
	a.o.Ratios = map[string]float64{
		"slowest_decode_cpu_seconds/deadline": a.maxSecs / callDeadline.Seconds(),
		"alloc_when_overlimit_rejected/bound": 0,
	}
	if a.o.Err == "" {
		a.o.Ratios["alloc_when_overlimit_rejected/bound"] = a.maxAlloc
	}
	if a.o.Err == "" && a.nKnown > 0 {
		a.o.Err = a.firstKnown.err
		a.o.Finding = a.firstKnown.finding
	}
	return a.o
}

// single converts one result into an Outcome (non-enumerating sub-checks).
func single(r result) ev.Outcome {
	o := ev.Outcome{Class: r.class, NonTrivial: r.nontrivial, Err: r.err, Finding: r.finding}
	o.Ratios = map[string]float64{"slowest_decode_cpu_seconds/deadline": r.secs / callDeadline.Seconds()}
	if r.err == "" && r.allocRatio > 0 {
		o.Ratios["alloc_when_overlimit_rejected/bound"] = r.allocRatio
	}
	return o
}
