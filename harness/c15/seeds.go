package c15

// Valid values of every type, encoded with the library's own encoders: the
// starting points of all structured faults.

import (
	"bytes"
	"fmt"
	"math"

	"github.com/golang/geo/s1"
	"github.com/golang/geo/s2"
	"pgregory.net/rapid"

	"verifharness/internal/gen"
)

func snapTo(p s2.Point, level int) s2.Point {
	return s2.CellFromPoint(p).ID().Parent(level).Point()
}

// genLoopPoints draws the vertices of a valid loop (a regular polygon on the
// sphere, optionally snapped to cell centres so that the compressed format is
// chosen, optionally with a few vertices left unsnapped).
func genLoopPoints(t *rapid.T, label string, center s2.Point, maxRadiusDeg float64, snapLevel int) []s2.Point {
	n := rapid.SampledFrom([]int{3, 3, 4, 5, 6, 8, 13, 32, 63, 64, 70}).Draw(t, label+".n")
	rad := rapid.Float64Range(0.2, maxRadiusDeg).Draw(t, label+".radius")
	l := s2.RegularLoop(center, s1.Angle(rad)*s1.Degree, n)
	vs := append([]s2.Point{}, l.Vertices()...)
	if snapLevel >= 0 {
		keep := rapid.IntRange(0, 3).Draw(t, label+".unsnapped") // number of vertices left off-centre
		for i := range vs {
			if i < keep && i%2 == 1 {
				continue
			}
			vs[i] = snapTo(vs[i], snapLevel)
		}
	}
	return vs
}

func genLoop(t *rapid.T, label string) *s2.Loop {
	switch rapid.IntRange(0, 9).Draw(t, label+".mode") {
	case 0:
		return s2.EmptyLoop()
	case 1:
		return s2.FullLoop()
	case 2:
		return s2.LoopFromCell(s2.CellFromCellID(gen.CellID(t, label+".cell")))
	case 3, 4:
		lvl := rapid.IntRange(14, 30).Draw(t, label+".snap")
		return s2.LoopFromPoints(genLoopPoints(t, label, gen.Uniform(t, label+".c"), 30, lvl))
	default:
		return s2.LoopFromPoints(genLoopPoints(t, label, gen.Base(t, label+".c"), 60, -1))
	}
}

func genPolygon(t *rapid.T, label string) *s2.Polygon {
	mode := rapid.IntRange(0, 12).Draw(t, label+".mode")
	switch mode {
	case 12:
		// more than 12 loops: edge ids are then mapped to loops through the
		// cumulative-edges table (Edge, ChainPosition) instead of a linear scan
		n := rapid.IntRange(13, 18).Draw(t, label+".many")
		var loops []*s2.Loop
		for i := 0; i < n; i++ {
			c := s2.PointFromLatLng(s2.LatLngFromDegrees(float64(i%3)*20-20, float64(i)*19))
			k := rapid.SampledFrom([]int{3, 3, 4, 5}).Draw(t, fmt.Sprintf("%s.m%d", label, i))
			loops = append(loops, s2.RegularLoop(c, 2*s1.Degree, k))
		}
		return s2.PolygonFromLoops(loops)
	case 0:
		return s2.PolygonFromLoops(nil)
	case 1:
		return s2.FullPolygon()
	case 2:
		return s2.PolygonFromCell(s2.CellFromCellID(gen.CellID(t, label+".cell")))
	}
	snap := -1
	if mode >= 6 {
		snap = rapid.IntRange(14, 30).Draw(t, label+".snap")
	}
	nl := rapid.IntRange(1, 4).Draw(t, label+".nloops")
	// well separated centres: the six face centres
	var loops []*s2.Loop
	for i := 0; i < nl; i++ {
		c := s2.Point{Vector: gen.FaceUVToXYZ(i, 0.1*float64(i), -0.05*float64(i)).Normalize()}
		vs := genLoopPoints(t, fmt.Sprintf("%s.l%d", label, i), c, 20, snap)
		loops = append(loops, s2.LoopFromPoints(vs))
		if rapid.IntRange(0, 2).Draw(t, fmt.Sprintf("%s.l%d.hole", label, i)) == 0 {
			// a hole: a small loop well inside the shell (shell radius ≥ 0.2°)
			h := s2.RegularLoop(c, 0.05*s1.Degree, rapid.SampledFrom([]int{3, 4, 7}).Draw(t, fmt.Sprintf("%s.l%d.hn", label, i)))
			hv := append([]s2.Point{}, h.Vertices()...)
			if snap >= 0 {
				for j := range hv {
					hv[j] = snapTo(hv[j], 30)
				}
			}
			// holes are clockwise
			for a, b := 0, len(hv)-1; a < b; a, b = a+1, b-1 {
				hv[a], hv[b] = hv[b], hv[a]
			}
			loops = append(loops, s2.LoopFromPoints(hv))
		}
	}
	if rapid.Bool().Draw(t, label+".oriented") {
		return s2.PolygonFromOrientedLoops(loops)
	}
	return s2.PolygonFromLoops(loops)
}

func genCap(t *rapid.T) s2.Cap {
	switch rapid.IntRange(0, 5).Draw(t, "cap.mode") {
	case 0:
		return s2.EmptyCap()
	case 1:
		return s2.FullCap()
	case 2:
		return s2.CapFromPoint(gen.Base(t, "cap.c"))
	case 3:
		return s2.CapFromCenterHeight(gen.Base(t, "cap.c"), rapid.Float64Range(0, 2).Draw(t, "cap.h"))
	default:
		return s2.CapFromCenterAngle(gen.Base(t, "cap.c"), s1.Angle(rapid.Float64Range(0, math.Pi).Draw(t, "cap.a")))
	}
}

func genRect(t *rapid.T) s2.Rect {
	ll := func(l string) s2.LatLng {
		return s2.LatLngFromDegrees(rapid.Float64Range(-90, 90).Draw(t, l+".lat"), rapid.Float64Range(-180, 180).Draw(t, l+".lng"))
	}
	switch rapid.IntRange(0, 5).Draw(t, "rect.mode") {
	case 0:
		return s2.EmptyRect()
	case 1:
		return s2.FullRect()
	case 2:
		return s2.RectFromLatLng(ll("rect.p"))
	case 3:
		return s2.RectFromCenterSize(ll("rect.c"), s2.LatLngFromDegrees(rapid.Float64Range(0, 180).Draw(t, "rect.h"), rapid.Float64Range(0, 360).Draw(t, "rect.w")))
	default:
		return s2.RectFromLatLng(ll("rect.a")).AddPoint(ll("rect.b"))
	}
}

// genSeed returns a valid encoding of a generated value of the given kind.
func genSeed(t *rapid.T, kind string) []byte {
	var buf bytes.Buffer
	var err error
	switch kind {
	case "point":
		err = gen.Base(t, "pt").Encode(&buf)
	case "cap":
		err = genCap(t).Encode(&buf)
	case "rect":
		err = genRect(t).Encode(&buf)
	case "cellid":
		err = gen.CellID(t, "id").Encode(&buf)
	case "cell":
		err = s2.CellFromCellID(gen.CellID(t, "id")).Encode(&buf)
	case "cellunion":
		n := rapid.IntRange(0, 24).Draw(t, "cu.n")
		cu := make(s2.CellUnion, n)
		for i := range cu {
			cu[i] = gen.CellID(t, fmt.Sprintf("cu.%d", i))
		}
		if rapid.Bool().Draw(t, "cu.normalize") {
			cu.Normalize()
		}
		err = cu.Encode(&buf)
	case "polyline":
		n := rapid.IntRange(0, 20).Draw(t, "pl.n")
		var pl s2.Polyline
		if n > 0 {
			pl = s2.Polyline(gen.Tuple(t, "pl", n))
		}
		err = pl.Encode(&buf)
	case "loop":
		err = genLoop(t, "loop").Encode(&buf)
	case "polygon":
		err = genPolygon(t, "pg").Encode(&buf)
	}
	if err != nil {
		t.Fatalf("harness: encoder failed on a generated %s: %v", kind, err)
	}
	return buf.Bytes()
}
