package c15

import (
	"bytes"
	"fmt"
	"io"
	"sync"

	"github.com/golang/geo/s2"

	"verifharness/internal/gen"
)

// Receiver reuse: Decode is a method on a value the caller supplies; a value
// that already holds an earlier decode (here: a 14-loop polygon, a 40-vertex
// loop, a polyline, a cell union) must come out of a second Decode exactly as a
// fresh value does - same error-ness, same re-encoding, equally usable.

var (
	primerOnce sync.Once
	primers    map[string][]byte
)

func primerBytes(kind string) []byte {
	primerOnce.Do(func() {
		primers = map[string][]byte{}
		var loops []*s2.Loop
		for f := 0; f < 6 && len(loops) < 14; f++ {
			for _, ij := range [][2]int{{0, 0}, {2, 0}, {0, 2}, {2, 2}} {
				if len(loops) == 14 {
					break
				}
				r := gen.LatticeRect{Face: f, Level: 2, I0: ij[0], J0: ij[1], I1: ij[0] + 1, J1: ij[1] + 1}
				// different vertex counts per loop, so stale per-loop offsets cannot go unnoticed
				v := gen.Pts(r.Vertices())
				if len(loops)%2 == 1 {
					a, b := v[0], v[1]
					v = append([]s2.Point{a, gen.Fix(s2.Interpolate(0.5, a, b), a)}, v[1:]...)
				}
				loops = append(loops, s2.LoopFromPoints(v))
			}
		}
		var b bytes.Buffer
		s2.PolygonFromLoops(loops).Encode(&b)
		primers["polygon"] = append([]byte(nil), b.Bytes()...)
		b.Reset()
		s2.RegularLoop(s2.PointFromCoords(1, 2, 3), 0.3, 40).Encode(&b)
		primers["loop"] = append([]byte(nil), b.Bytes()...)
		b.Reset()
		pl := s2.Polyline(s2.RegularLoop(s2.PointFromCoords(-1, 2, 1), 0.2, 10).Vertices())
		pl.Encode(&b)
		primers["polyline"] = append([]byte(nil), b.Bytes()...)
		b.Reset()
		cu := s2.CellUnion{}
		for id, k := s2.CellIDFromFace(3).ChildBeginAtLevel(6), 0; k < 20; id, k = id.Next().Next(), k+1 {
			cu = append(cu, id)
		}
		cu.Encode(&b)
		primers["cellunion"] = append([]byte(nil), b.Bytes()...)
	})
	return primers[kind]
}

// decodeReused decodes the primer and then data into the same receiver.
func decodeReused(kind string, data []byte, slowReader bool) (*decoded, error, error) {
	rd := func(b []byte) io.Reader {
		var r io.Reader = bytes.NewReader(b)
		if slowReader {
			r = oneByteReader{r}
		}
		return r
	}
	d := &decoded{kind: kind}
	var perr, err error
	p := primerBytes(kind)
	switch kind {
	case "cellunion":
		perr = d.cu.Decode(rd(p))
		err = d.cu.Decode(rd(data))
	case "polyline":
		perr = d.polyline.Decode(rd(p))
		err = d.polyline.Decode(rd(data))
	case "loop":
		d.loop = new(s2.Loop)
		perr = d.loop.Decode(rd(p))
		err = d.loop.Decode(rd(data))
	case "polygon":
		d.polygon = new(s2.Polygon)
		perr = d.polygon.Decode(rd(p))
		// use the primed value as a caller would before decoding into it again
		if perr == nil {
			_ = d.polygon.NumEdges()
			_ = d.polygon.ContainsPoint(s2.PointFromCoords(1, 0, 0))
		}
		err = d.polygon.Decode(rd(data))
	default:
		return nil, nil, fmt.Errorf("no primer for %s", kind)
	}
	return d, perr, err
}

func reusable(kind string) bool {
	return kind == "polygon" || kind == "loop" || kind == "polyline" || kind == "cellunion"
}
