package c15

import (
	"bytes"
	"encoding/binary"
	"encoding/hex"
	"fmt"
	"math"

	"pgregory.net/rapid"

	"verifharness/internal/ev"
)

// ---------------------------------------------------------------------------
// hostile values

var hostileFloats = []float64{math.NaN(), math.Inf(1), math.Inf(-1), 5e-324, 1e308, 0, -1, 1e-200}

var hostileCellIDs = []uint64{0, ^uint64(0), 0xC000000000000001, 0xE000000000000000, 0x1000000000000002, 1, 0x8000000000000000}

// hostileCounts: the constants of DESIGN §3.1 relative to the field's limit and
// its actual value. big adds limit−1 and limit themselves (1.2 GB allocations
// for vertex counts; exercised rarely).
func hostileCounts(f field, big bool) []uint64 {
	l := f.Limit
	vs := []uint64{0, 1, f.Val - 1, f.Val + 1, f.Val + 2, 255, 65536, 1 << 20,
		l + 1, l + 2, 2 * l, 1 << 25, 1<<31 - 1, 1 << 31, 1<<32 - 1, 1 << 32, 1<<32 + 1, 1 << 40, 1 << 45, 1 << 48, 1 << 60,
		1<<63 - 1, 1 << 63, 1<<63 + 1, ^uint64(0), ^uint64(0) - 1}
	if big {
		vs = append(vs, l-1, l)
	}
	seen := map[uint64]bool{f.Val: true}
	var out []uint64
	for _, v := range vs {
		if f.Kind == fCount32 {
			v &= 0xffffffff
		}
		// within-limit counts above 2^16 make a correct decoder allocate up to
		// 1.2 GB before it notices the data is missing; only "big" cases pay for that
		if v <= l && v > 1<<16 && !(big && v >= l-1) {
			continue
		}
		if !seen[v] {
			seen[v] = true
			out = append(out, v)
		}
	}
	return out
}

func uvarintBytes(v uint64) []byte {
	b := make([]byte, binary.MaxVarintLen64)
	return b[:binary.PutUvarint(b, v)]
}

// rawVarints: byte-level hostile encodings of a uvarint holding v.
func rawVarints(v uint64) [][]byte {
	overlong := append([]byte{}, uvarintBytes(v)...)
	overlong[len(overlong)-1] |= 0x80
	overlong = append(overlong, 0x80, 0x00)
	return [][]byte{
		overlong, // overlong but legal encoding of v
		{0xff, 0xff, 0xff, 0xff, 0xff, 0xff, 0xff, 0xff, 0xff, 0x01},       // maximal: 2^64−1
		{0xff, 0xff, 0xff, 0xff, 0xff, 0xff, 0xff, 0xff, 0xff, 0x02},       // overflows 64 bits
		{0x80, 0x80, 0x80, 0x80, 0x80, 0x80, 0x80, 0x80, 0x80, 0x80, 0x01}, // 11 bytes
		{0x80}, // continuation bit then (usually) whatever follows
	}
}

func splice(data []byte, off, n int, repl []byte) []byte {
	out := make([]byte, 0, len(data)-n+len(repl))
	out = append(out, data[:off]...)
	out = append(out, repl...)
	return append(out, data[off+n:]...)
}

func encodeCount(f field, v uint64) []byte {
	switch f.Kind {
	case fCount32, fU32:
		b := make([]byte, 4)
		binary.LittleEndian.PutUint32(b, uint32(v))
		return b
	case fCount64, fCellID, fFloat:
		b := make([]byte, 8)
		binary.LittleEndian.PutUint64(b, v)
		return b
	}
	return uvarintBytes(v)
}

// ---------------------------------------------------------------------------
// fault enumeration over one valid encoding

// enumerateFaults yields, deterministically, every (field × hostile value)
// replacement and every field-boundary truncation of a valid encoding.
// Count, version and snap-level fields are enumerated exhaustively; payload
// fields (floats, ids, point deltas …) are enumerated for the first few and the
// last instance of each field name.
func enumerateFaults(kind string, seed []byte, big bool, yield func(label string, data []byte) bool) {
	w := walk(kind, seed)
	perName := map[string]int{}
	lastOf := map[string]int{}
	for i, f := range w.Fields {
		lastOf[f.Name] = i
	}
	emit := func(f field, what string, repl []byte) bool {
		return yield(fmt.Sprintf("%s@%d:=%s", f.Name, f.Off, what), splice(seed, f.Off, f.Len, repl))
	}
	for i, f := range w.Fields {
		perName[f.Name]++
		payloadOK := perName[f.Name] <= 3 || lastOf[f.Name] == i
		switch f.Kind {
		case fCount32, fCount64, fCountVar:
			// the at-limit constants cost a correct decoder seconds and 1.2 GB each:
			// only on the first count field of a "big" case
			atLimit := big
			big = false
			for _, v := range hostileCounts(f, atLimit) {
				if !emit(f, fmt.Sprintf("count %d", v), encodeCount(f, v)) {
					return
				}
			}
			if f.Kind == fCountVar {
				for k, raw := range rawVarints(f.Val) {
					if !emit(f, fmt.Sprintf("rawvarint#%d", k), raw) {
						return
					}
				}
			}
		case fVersion:
			for _, v := range []byte{0, 1, 2, 3, 4, 5, 127, 128, 255} {
				if uint64(v) != f.Val && !emit(f, fmt.Sprintf("version %d", v), []byte{v}) {
					return
				}
			}
		case fSnap:
			for _, v := range []byte{0, 1, 8, 9, 29, 30, 31, 64, 255} {
				if uint64(v) != f.Val && !emit(f, fmt.Sprintf("snap %d", v), []byte{v}) {
					return
				}
			}
		case fU8:
			if payloadOK {
				for _, v := range []byte{0, 1, 2, 255} {
					if uint64(v) != f.Val && !emit(f, fmt.Sprintf("byte %d", v), []byte{v}) {
						return
					}
				}
			}
		case fU32:
			if payloadOK {
				for _, v := range []uint64{0, 1, 2, 1 << 31, 1<<32 - 1} {
					if v != f.Val && !emit(f, fmt.Sprintf("u32 %d", v), encodeCount(f, v)) {
						return
					}
				}
			}
		case fFloat:
			if payloadOK {
				for _, v := range hostileFloats {
					if !emit(f, fmt.Sprintf("float %v", v), encodeCount(f, math.Float64bits(v))) {
						return
					}
				}
			}
		case fCellID:
			if payloadOK {
				for _, v := range hostileCellIDs {
					if v != f.Val && !emit(f, fmt.Sprintf("cellid %#x", v), encodeCount(f, v)) {
						return
					}
				}
			}
		case fVar, fRun, fOffN, fOffIdx:
			if payloadOK {
				for _, v := range []uint64{0, 1, 5, 6, 7, f.Val + 1, f.Val - 1, 6 * 50000001, 1 << 31, 1 << 32, 1<<63 - 1, 1 << 63, ^uint64(0)} {
					if v != f.Val && !emit(f, fmt.Sprintf("varint %d", v), uvarintBytes(v)) {
						return
					}
				}
				for k, raw := range rawVarints(f.Val)[1:] {
					if !emit(f, fmt.Sprintf("rawvarint#%d", k+1), raw) {
						return
					}
				}
			}
		case fFirstPt:
			if !emit(f, "firstpoint 0xff…", bytes.Repeat([]byte{0xff}, f.Len)) {
				return
			}
		}
	}
	// truncation at every field boundary and one byte into every multi-byte field
	step := 1
	if len(w.Fields) > 240 {
		step = len(w.Fields) / 120
	}
	for i, f := range w.Fields {
		if step > 1 && i > 60 && i < len(w.Fields)-60 && i%step != 0 {
			continue
		}
		if !yield(fmt.Sprintf("truncate before %s@%d", f.Name, f.Off), seed[:f.Off]) {
			return
		}
		if f.Len > 1 {
			if !yield(fmt.Sprintf("truncate inside %s@%d", f.Name, f.Off), seed[:f.Off+f.Len-1]) {
				return
			}
		}
	}
	// trailing garbage must not matter
	yield("append 0xff×9", append(append([]byte{}, seed...), bytes.Repeat([]byte{0xff}, 9)...))
}

type enumCase struct {
	Kind string
	Seed string // hex of a valid encoding produced by the library's encoder
	Big  bool   // include the at-limit constants (limit−1, limit)
}

// oneIn draws true about once in n. rapid's integer generators favour the ends
// of a range and small values (IntRange(0,99) yields 0 ten times in a hundred),
// so the test is against a value in the flat part of the distribution, where a
// range of N values gives each about 1/(1.75 N).
func oneIn(t *rapid.T, label string, n int) bool {
	N := n * 4 / 7
	if N < 6 {
		N = 6
	}
	return rapid.IntRange(0, N-1).Draw(t, label) == N-3
}

func genKind(t *rapid.T) string {
	// list-bearing kinds get most of the weight (rapid favours the front of the list)
	return rapid.SampledFrom([]string{"polygon", "polygon", "polygon", "loop", "polygon", "polygon", "loop", "polygon",
		"polyline", "cellunion", "loop", "polyline", "cellunion",
		"cell", "point", "cap", "rect", "cellid"}).Draw(t, "kind")
}

// genEnumKind: every type gets enumerated seeds (the fixed-layout ones sit in
// the flat middle of rapid's index distribution: ≥ 50 seeds each per quick run).
func genEnumKind(t *rapid.T) string {
	return rapid.SampledFrom([]string{"polygon", "polygon", "loop", "point", "cap", "rect", "cellid", "cell",
		"polyline", "cellunion", "loop", "polyline", "cellunion", "polygon", "polygon"}).Draw(t, "kind")
}

func genEnumCase(t *rapid.T) enumCase {
	k := genEnumKind(t)
	bigOdds := 200
	if ev.Thorough() {
		bigOdds = 400
	}
	big := oneIn(t, "big", bigOdds)
	return enumCase{Kind: k, Seed: hex.EncodeToString(genSeed(t, k)), Big: big}
}

// selfCheck: the model must consume a library-produced encoding exactly; if it
// does not, the model (not the library) is wrong and nothing may be concluded.
func selfCheck(kind string, seed []byte) (ev.Outcome, bool) {
	w := walk(kind, seed)
	if w.Status != stComplete || w.End != len(seed) {
		return ev.Outcome{Err: fmt.Sprintf("harness: format model does not match a valid %s encoding: status=%s at %s, consumed %d of %d bytes: %s",
			kind, w.Status, w.At, w.End, len(seed), short(seed)), Finding: "harness"}, false
	}
	return ev.Outcome{}, true
}

func checkFaultEnum(c enumCase) ev.Outcome {
	seed, err := hex.DecodeString(c.Seed)
	if err != nil {
		return ev.Outcome{Err: "harness: bad hex", Finding: "harness"}
	}
	if o, ok := selfCheck(c.Kind, seed); !ok {
		return o
	}
	a := newAgg()
	// the valid encoding itself: decodes and is usable
	r0 := checkBytes(c.Kind, seed, false)
	if r0.err == "" && !r0.queried {
		a.o.Err = "valid encoding was rejected or not queried: class " + r0.class + " input=" + short(seed)
		a.o.Finding = "valid-encoding-rejected-" + c.Kind
		return a.o
	}
	if a.add("valid encoding", r0) {
		return a.finish()
	}
	enumerateFaults(c.Kind, seed, c.Big, func(label string, data []byte) bool {
		return !a.add(label, checkBytes(c.Kind, data, false))
	})
	o := a.finish()
	o.Class = classOf(c.Kind, walk(c.Kind, seed))
	if c.Big {
		o.Class += "+atlimit"
	}
	return o
}

func checkPrefixEnum(c enumCase) ev.Outcome {
	seed, err := hex.DecodeString(c.Seed)
	if err != nil {
		return ev.Outcome{Err: "harness: bad hex", Finding: "harness"}
	}
	if o, ok := selfCheck(c.Kind, seed); !ok {
		return o
	}
	a := newAgg()
	for n := 0; n < len(seed); n++ {
		r := checkBytes(c.Kind, seed[:n], n%2 == 1)
		if r.err == "" && r.w.Status == stComplete {
			// cannot happen for a self-delimiting format; would be a model error
			return ev.Outcome{Err: fmt.Sprintf("harness: model accepts the strict prefix of length %d of %s", n, short(seed)), Finding: "harness"}
		}
		if a.add(fmt.Sprintf("prefix of length %d of %d", n, len(seed)), r) {
			break
		}
	}
	o := a.finish()
	o.Class = classOf(c.Kind, walk(c.Kind, seed))
	// every kind counts here: a prefix stops inside or before some field
	o.NonTrivial = len(seed) > 0
	return o
}

// ---------------------------------------------------------------------------
// rapid-driven mutation stacks and raw bytes

type bytesCase struct {
	Kind string
	Data string // hex
	Slow bool   // hand the bytes to Decode through a plain one-byte-at-a-time io.Reader
}

var hostileBytes = []byte{0, 1, 2, 4, 5, 6, 30, 31, 0x7f, 0x80, 0x81, 0xfe, 0xff}

func genByte(t *rapid.T, label string) byte {
	if rapid.Bool().Draw(t, label+".h") {
		return rapid.SampledFrom(hostileBytes).Draw(t, label+".hv")
	}
	return rapid.Byte().Draw(t, label+".v")
}

func genBytes(t *rapid.T, label string, max int) []byte {
	n := rapid.IntRange(0, max).Draw(t, label+".n")
	out := make([]byte, n)
	for i := range out {
		out[i] = genByte(t, fmt.Sprintf("%s.%d", label, i))
	}
	return out
}

// mutateField replaces one field located by the model with a hostile or random value.
func mutateField(t *rapid.T, label, kind string, data []byte) []byte {
	w := walk(kind, data)
	if len(w.Fields) == 0 {
		return data
	}
	// prefer count / version / varint fields, which steer the decoder
	var steer []int
	for i, f := range w.Fields {
		switch f.Kind {
		case fFloat, fCellID:
		case fVersion:
			// a wrong version byte ends the decode at once; keep it occasional
			if rapid.IntRange(0, 7).Draw(t, label+".ver") == 0 {
				steer = append(steer, i)
			}
		default:
			steer = append(steer, i)
		}
	}
	var f field
	if len(steer) > 0 && rapid.IntRange(0, 3).Draw(t, label+".steer") != 0 {
		f = w.Fields[steer[rapid.IntRange(0, len(steer)-1).Draw(t, label+".si")]]
	} else {
		f = w.Fields[rapid.IntRange(0, len(w.Fields)-1).Draw(t, label+".fi")]
	}
	var repl []byte
	switch f.Kind {
	case fCount32, fCount64, fCountVar:
		hs := hostileCounts(f, false)
		if rapid.IntRange(0, 4).Draw(t, label+".small") == 0 {
			repl = encodeCount(f, uint64(rapid.IntRange(0, 300).Draw(t, label+".cv")))
		} else {
			repl = encodeCount(f, hs[rapid.IntRange(0, len(hs)-1).Draw(t, label+".ci")])
		}
	case fVersion, fSnap, fU8:
		repl = []byte{genByte(t, label+".b")}
	case fU32:
		repl = encodeCount(f, rapid.SampledFrom([]uint64{0, 1, 2, 3, 1 << 31, 1<<32 - 1, 7}).Draw(t, label+".u32"))
	case fFloat:
		repl = encodeCount(f, math.Float64bits(hostileFloats[rapid.IntRange(0, len(hostileFloats)-1).Draw(t, label+".fl")]))
	case fCellID:
		if rapid.Bool().Draw(t, label+".idr") {
			repl = encodeCount(f, rapid.Uint64().Draw(t, label+".idv"))
		} else {
			repl = encodeCount(f, hostileCellIDs[rapid.IntRange(0, len(hostileCellIDs)-1).Draw(t, label+".id")])
		}
	case fFirstPt:
		repl = make([]byte, f.Len)
		for i := range repl {
			repl[i] = genByte(t, fmt.Sprintf("%s.fp%d", label, i))
		}
	default: // varints
		switch rapid.IntRange(0, 3).Draw(t, label+".vk") {
		case 0:
			raws := rawVarints(f.Val)
			repl = raws[rapid.IntRange(0, len(raws)-1).Draw(t, label+".raw")]
		case 1:
			repl = uvarintBytes(rapid.Uint64().Draw(t, label+".vv"))
		default:
			repl = uvarintBytes(rapid.SampledFrom([]uint64{0, 1, 2, 3, 5, 6, 7, 11, 12, 13, 64, 1 << 31, 1 << 32, 1<<63 - 1, 1 << 63, ^uint64(0)}).Draw(t, label+".vs"))
		}
	}
	return splice(data, f.Off, f.Len, repl)
}

func genMutated(t *rapid.T) bytesCase {
	kind := genKind(t)
	src := kind
	if oneIn(t, "cross", 12) {
		src = genKind(t) // another type's encoding handed to this decoder
	}
	data := append([]byte{}, genSeed(t, src)...)
	nops := rapid.IntRange(1, 4).Draw(t, "nops")
	for i := 0; i < nops; i++ {
		l := fmt.Sprintf("op%d", i)
		op := rapid.IntRange(0, 11).Draw(t, l+".kind")
		pos := 0
		if len(data) > 0 {
			// positions near the front (headers, counts) are the interesting ones
			// (rapid favours the ends of a range; the +2 moves its favourite from
			// the version byte onto the first count field)
			if rapid.Bool().Draw(t, l+".front") {
				pos = (rapid.IntRange(0, minInt(len(data)-1, 24)).Draw(t, l+".pos") + 2) % len(data)
			} else {
				pos = (rapid.IntRange(0, len(data)-1).Draw(t, l+".pos") + 2) % len(data)
			}
		}
		switch {
		case op <= 4:
			data = mutateField(t, l, kind, data)
		case op == 5 && len(data) > 0:
			data[pos] ^= 1 << uint(rapid.IntRange(0, 7).Draw(t, l+".bit"))
		case op == 6 && len(data) > 0:
			data[pos] = genByte(t, l+".set")
		case op == 7:
			data = data[:pos]
		case op == 8:
			data = append(data, genBytes(t, l+".app", 16)...)
		case op == 9 && len(data) > 0:
			n := rapid.IntRange(1, minInt(len(data)-pos, 32)).Draw(t, l+".dn")
			data = splice(data, pos, n, nil)
		case op == 10 && len(data) > 0:
			n := rapid.IntRange(1, minInt(len(data)-pos, 32)).Draw(t, l+".cn")
			data = splice(data, pos, 0, data[pos:pos+n])
		case op == 11:
			data = splice(data, pos, 0, genBytes(t, l+".ins", 12))
		}
	}
	return bytesCase{Kind: kind, Data: hex.EncodeToString(data), Slow: rapid.IntRange(0, 3).Draw(t, "slow") == 0}
}

func minInt(a, b int) int {
	if a < b {
		return a
	}
	return b
}

// genRawCount draws the bytes of a count field: mostly small, often hostile,
// sometimes arbitrary (arbitrary within-limit counts cost a correct decoder up
// to 1.2 GB each, so they are kept to a few percent).
func genRawCount(t *rapid.T, label string, kind fk, limit uint64) []byte {
	f := field{Kind: kind, Limit: limit, Val: 3}
	switch m := rapid.IntRange(0, 19).Draw(t, label+".m"); {
	case m < 11:
		return encodeCount(f, uint64(rapid.IntRange(0, 9).Draw(t, label+".small")))
	case m < 18:
		hs := hostileCounts(f, false)
		return encodeCount(f, hs[rapid.IntRange(0, len(hs)-1).Draw(t, label+".h")])
	case m == 18:
		return encodeCount(f, uint64(rapid.IntRange(0, 1<<16).Draw(t, label+".mid")))
	default:
		// arbitrary over-limit value (rapid favours the low end: just above the limit)
		return encodeCount(f, rapid.Uint64Range(limit+1, ^uint64(0)).Draw(t, label+".any"))
	}
}

func genRaw(t *rapid.T) bytesCase {
	kind := genKind(t)
	var head []byte
	if rapid.IntRange(0, 9).Draw(t, "validhead") != 0 {
		switch kind {
		case "point", "rect":
			head = []byte{1}
		case "cellunion":
			head = append([]byte{1}, genRawCount(t, "n", fCount64, limCells)...)
		case "polyline":
			head = append([]byte{1}, genRawCount(t, "n", fCount32, limVertices)...)
		case "loop":
			head = append([]byte{1}, genRawCount(t, "n", fCount32, limVertices)...)
		case "polygon":
			if rapid.Bool().Draw(t, "v4") {
				head = []byte{4, byte(rapid.IntRange(0, 31).Draw(t, "snap"))}
				head = append(head, genRawCount(t, "nl", fCountVar, limLoops)...)
				if rapid.Bool().Draw(t, "v4nv") {
					head = append(head, genRawCount(t, "nv", fCountVar, limVertices)...)
				}
			} else {
				head = []byte{1, genByte(t, "owns"), genByte(t, "holes")}
				head = append(head, genRawCount(t, "nl", fCount32, limLoops)...)
				if rapid.Bool().Draw(t, "v1nv") {
					head = append(head, 1)
					head = append(head, genRawCount(t, "nv", fCount32, limVertices)...)
				}
			}
		}
	}
	data := append(head, genBytes(t, "raw", 96)...)
	return bytesCase{Kind: kind, Data: hex.EncodeToString(data), Slow: rapid.IntRange(0, 3).Draw(t, "slow") == 0}
}

// checkBytesCase: the three oracles on one input, plus: the outcome must not
// depend on how the io.Reader hands out the bytes (fast ByteReader path against
// a one-byte-at-a-time plain reader): same error-ness, same re-encoding.
func checkBytesCase(c bytesCase) ev.Outcome {
	data, err := hex.DecodeString(c.Data)
	if err != nil {
		return ev.Outcome{Err: "harness: bad hex", Finding: "harness"}
	}
	ok := false
	for _, k := range kinds {
		ok = ok || k == c.Kind
	}
	if !ok {
		return ev.Outcome{Err: "harness: unknown kind", Finding: "harness"}
	}
	r := checkBytes(c.Kind, data, c.Slow)
	o := single(r)
	if r.err != "" || !r.executed {
		return o
	}
	// reader-independence (skipped for inputs that make the decoder allocate a lot)
	if r.allocBytes < 16<<20 {
		var d1, d2 *decoded
		var e1, e2 error
		var b1, b2 []byte
		g := run(func() {
			d1, e1 = decode(c.Kind, data, false)
			d2, e2 = decode(c.Kind, data, true)
			if e1 == nil && e2 == nil && d1.inspect().size <= maxQuerySize {
				b1, _ = d1.encode()
				b2, _ = d2.encode()
			}
		})
		if g.panicked || g.timedOut {
			o.Err = fmt.Sprintf("decoding through the other reader kind panicked/hung: %s\n%s\n  kind=%s input=%s", g.panicVal, g.stack, c.Kind, short(data))
			o.Finding = "reader-dependent-" + c.Kind
			return o
		}
		if (e1 == nil) != (e2 == nil) || !bytes.Equal(b1, b2) {
			o.Err = fmt.Sprintf("result depends on the reader: bytes.Reader err=%v, one-byte reader err=%v, re-encodings equal=%v\n  kind=%s input=%s",
				e1, e2, bytes.Equal(b1, b2), c.Kind, short(data))
			o.Finding = "reader-dependent-" + c.Kind
			return o
		}
		// receiver reuse: the same bytes decoded into a value that already holds an
		// earlier decode give the same error-ness and the same, equally usable value
		if reusable(c.Kind) {
			var d3 *decoded
			var pe, e3 error
			var b3 []byte
			q := &querier{}
			usable := e1 == nil && d1.inspect().size <= maxQuerySize
			valid := false
			g := run(func() {
				d3, pe, e3 = decodeReused(c.Kind, data, c.Slow)
				if pe == nil && e3 == nil && usable {
					b3, _ = d3.encode()
					if valid = d1.validate() == nil; valid {
						d3.queryStructural(q)
						d3.queryRegion(q)
					}
				}
			})
			if pe != nil {
				return ev.Outcome{Err: "harness: the primer encoding does not decode: " + pe.Error(), Finding: "harness"}
			}
			if g.panicked || g.timedOut {
				o.Err = fmt.Sprintf("decoding into a receiver that already held a decoded %s, or querying the result (step %s), panicked/hung: %s\n%s\n  kind=%s input=%s", c.Kind, q.step, g.panicVal, g.stack, c.Kind, short(data))
				o.Finding = "receiver-reuse-" + c.Kind
				return o
			}
			if (e1 == nil) != (e3 == nil) || (usable && !bytes.Equal(b1, b3)) {
				o.Err = fmt.Sprintf("result depends on what the receiver held before: fresh receiver err=%v, reused receiver err=%v, re-encodings equal=%v\n  kind=%s input=%s",
					e1, e3, bytes.Equal(b1, b3), c.Kind, short(data))
				o.Finding = "receiver-reuse-" + c.Kind
				return o
			}
		}
	}
	return o
}

func init() {
	ev.Define("fault_enum", ev.Options{
		Rule:  "one Case = one valid encoding (library encoder on a generated Point/Cap/Rect/CellID/Cell/CellUnion/Polyline/Loop/Polygon, lossless and compressed); the Check enumerates deterministically, via an independent field model of the formats, every count field × {0,1,n±1,n+2,255,2^16,2^20,limit+1,limit+2,2·limit,2^25,2^31−1,2^31,2^32−1,2^32,2^32+1,2^40,2^45,2^48,2^60,2^63−1,2^63,2^63+1,2^64−2,2^64−1; limit−1 and limit on the first count field of 1 case in 200 (quick) / 400 (thorough); other within-limit constants are capped at 2^16} (+ overlong / maximal / overflowing / 11-byte raw varints), every version byte × {0..5,127,128,255}, snap level × {0,1,8,9,29,30,31,64,255}, the first 3 and the last float / cell id / varint / byte field of each name × hostile values (NaN, ±Inf, denormal, 1e308; invalid ids; 2^63, 2^64−1 …), truncation before and inside every field, trailing garbage. Oracles: no panic / hang / abort; over-limit count ⇒ error with < 64 MiB allocated; truncated / bad version / bad varint ⇒ error; a nil error ⇒ the value survives validator, edges, chains, bounds, containment, re-encoding and re-decoding; the first 6 loops of a decoded polygon (Loop(i)) are queried as Regions and Shapes of their own too. Non-trivial = at least one enumerated input got past the version byte and reached a count field (fixed-layout types: is not a plain valid encoding). Counts 'class …' give the per-input histogram.",
		Quick: 1200, Thorough: 24000, Journal: true}, genEnumCase, checkFaultEnum)
	ev.Define("prefix_enum", ev.Options{
		Rule:  "one Case = one valid encoding; EVERY strict prefix is decoded (alternating reader kinds); the formats are self-delimiting so each must return an error, without panic. Non-trivial = non-empty encoding.",
		Quick: 600, Thorough: 15000, Journal: true}, genEnumCase, checkPrefixEnum)
	ev.Define("mutated", ev.Options{
		Rule:  "valid encoding (1 in 12: of another type) put through 1–4 drawn mutations: model-guided field replacement by hostile/random values (counts, versions, varints, floats, ids), bit flip, byte set, truncate, append, delete, duplicate, insert; decoded through bytes.Reader or a one-byte plain io.Reader; same oracles plus reader-independence (error-ness and re-encoding). Non-trivial = past the version byte and ≥ 1 count field reached (fixed-layout types: not a plain valid encoding).",
		Quick: 50000, Thorough: 800000, Journal: true}, genMutated, checkBytesCase)
	ev.Define("raw", ev.Options{
		Rule:  "0–96 drawn bytes (half from a hostile byte set); 9 times in 10 behind a valid version header followed by drawn count fields (55% 0..9, 35% hostile constants, 5% up to 2^20, 5% arbitrary 64-bit); all ten decoders. Same oracles and non-trivial rule as 'mutated'.",
		Quick: 30000, Thorough: 500000, Journal: true}, genRaw, checkBytesCase)
}
