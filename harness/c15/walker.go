package c15

// An independent, allocation-free model of the wire formats. walk() follows the
// order in which the documented formats lay out their fields and reports the
// fields it could locate (offset, length, kind, value) together with the
// reason it stopped. It never allocates in proportion to a declared count, so
// it can be run on hostile input. The check uses it for three things:
//
//   - to find field boundaries in valid encodings (fault enumeration),
//   - to decide, independently of the decoders, that an input MUST be rejected
//     (declared count above the documented limit / negative, unsupported
//     version, ran out of bytes, malformed varint, ...),
//   - to label the class histogram.
//
// Only the reject direction is ever asserted against the decoders.

import (
	"encoding/binary"
	"math"
)

type fk int

const (
	fVersion  fk = iota // 1 byte that must have a fixed value
	fU8                 // 1 byte, free (owns_loops, bool)
	fSnap               // 1 byte snap level (0..30)
	fCount32            // uint32 element count
	fCount64            // int64 element count
	fCountVar           // uvarint element count
	fU32                // uint32, free (depth)
	fVar                // uvarint, free (properties, depth, point deltas)
	fRun                // uvarint face run (6*count+face), count must be > 0
	fOffN               // uvarint number of off-centre points
	fOffIdx             // uvarint off-centre index
	fFloat              // 8 byte float64
	fCellID             // 8 byte cell id
	fFirstPt            // fixed-length first point of a compressed loop
)

const (
	limVertices = 50000000 // s2.maxEncodedVertices (documented in pointcompression.go)
	limLoops    = 10000000 // s2.maxEncodedLoops (documented in polygon.go)
	limCells    = 1000000  // maxCells in CellUnion.decode
)

type field struct {
	Off, Len int
	Kind     fk
	Name     string // generic name, no indices: "loop.nvertices"
	Val      uint64
	Limit    uint64 // for count fields
}

// Status values of a walk.
const (
	stComplete   = "complete"   // every field present and acceptable (trailing bytes are allowed)
	stTruncated  = "truncated"  // ran out of bytes
	stBadVersion = "badversion" // version byte not supported
	stOverLimit  = "overlimit"  // declared count above the documented limit (or negative)
	stBadSnap    = "badsnap"    // snap level > 30
	stBadVarint  = "badvarint"  // uvarint overflows 64 bits
	stZeroRun    = "zerorun"    // face run with count 0
	stOffCenter  = "offcenter"  // off-centre count or index out of range
)

type walkResult struct {
	Fields []field
	Status string
	At     string // name of the field where the walk stopped (empty if complete)
	End    int    // bytes consumed
	// for the class / non-trivial rule
	PastVersion bool
	Counts      int // number of count fields reached
	// OverVal is the offending count when Status == stOverLimit.
	OverVal  uint64
	OverBits int // width of the offending count field (32 or 64)
	// Partial is the value accumulated by a uvarint that ended early or
	// overflowed (the standard library's ReadUvarint hands that value back
	// together with its error).
	Partial uint64
	// Allowance: bytes a decoder may legitimately allocate for the within-limit
	// counts accepted before the walk stopped (count × element size).
	Allowance uint64
}

type walker struct {
	b  []byte
	p  int
	r  *walkResult
	ok bool
}

func (w *walker) stop(status, at string) {
	if w.ok {
		w.ok = false
		w.r.Status = status
		w.r.At = at
	}
}

func (w *walker) take(n int, kind fk, name string) (off int, ok bool) {
	if !w.ok {
		return 0, false
	}
	if len(w.b)-w.p < n {
		w.stop(stTruncated, name)
		return 0, false
	}
	off = w.p
	w.p += n
	w.r.Fields = append(w.r.Fields, field{Off: off, Len: n, Kind: kind, Name: name})
	return off, true
}

func (w *walker) last() *field { return &w.r.Fields[len(w.r.Fields)-1] }

func (w *walker) version(name string, want byte) {
	off, ok := w.take(1, fVersion, name)
	if !ok {
		return
	}
	w.last().Val = uint64(w.b[off])
	w.last().Limit = uint64(want)
	if w.b[off] != want {
		w.stop(stBadVersion, name)
		return
	}
}

func (w *walker) u8(kind fk, name string) byte {
	off, ok := w.take(1, kind, name)
	if !ok {
		return 0
	}
	w.last().Val = uint64(w.b[off])
	return w.b[off]
}

func (w *walker) u32(kind fk, name string) uint32 {
	off, ok := w.take(4, kind, name)
	if !ok {
		return 0
	}
	v := binary.LittleEndian.Uint32(w.b[off:])
	w.last().Val = uint64(v)
	return v
}

func (w *walker) u64(kind fk, name string) uint64 {
	off, ok := w.take(8, kind, name)
	if !ok {
		return 0
	}
	v := binary.LittleEndian.Uint64(w.b[off:])
	w.last().Val = v
	return v
}

// uvarint follows the definition of encoding/binary.ReadUvarint: at most 10
// bytes, the tenth at most 1.
func (w *walker) uvarint(kind fk, name string) uint64 {
	if !w.ok {
		return 0
	}
	start := w.p
	var x uint64
	var s uint
	for i := 0; i < 10; i++ {
		if w.p >= len(w.b) {
			if w.ok {
				w.r.Partial = x
			}
			w.stop(stTruncated, name)
			return 0
		}
		c := w.b[w.p]
		w.p++
		if c < 0x80 {
			if i == 9 && c > 1 {
				w.r.Fields = append(w.r.Fields, field{Off: start, Len: w.p - start, Kind: kind, Name: name})
				w.r.Partial = x
				w.stop(stBadVarint, name)
				return 0
			}
			x |= uint64(c) << s
			w.r.Fields = append(w.r.Fields, field{Off: start, Len: w.p - start, Kind: kind, Name: name, Val: x})
			return x
		}
		x |= uint64(c&0x7f) << s
		s += 7
	}
	w.r.Fields = append(w.r.Fields, field{Off: start, Len: w.p - start, Kind: kind, Name: name})
	w.r.Partial = x
	w.stop(stBadVarint, name)
	return 0
}

func (w *walker) count(kind fk, name string, limit uint64) uint64 {
	var v uint64
	bits := 64
	switch kind {
	case fCount32:
		v = uint64(w.u32(kind, name))
		bits = 32
	case fCount64:
		v = w.u64(kind, name)
	default:
		v = w.uvarint(kind, name)
	}
	if !w.ok {
		return 0
	}
	w.last().Limit = limit
	w.r.Counts++
	// a count above the limit; for 64-bit fields this includes every value with
	// the top bit set (negative as int64 / int).
	if v > limit {
		w.r.OverVal = v
		w.r.OverBits = bits
		w.stop(stOverLimit, name)
		return 0
	}
	elem := uint64(24) // a Point
	switch limit {
	case limLoops:
		elem = 256 // pointer + Loop struct
	case limCells:
		elem = 8
	}
	w.r.Allowance += v * elem
	return v
}

func (w *walker) floats(n int, name string) {
	for i := 0; i < n && w.ok; i++ {
		w.u64(fFloat, name)
	}
}

func (w *walker) rect(prefix string) {
	w.version(prefix+"rect.version", 1)
	w.floats(4, prefix+"rect.bound")
}

func (w *walker) loop(prefix string) {
	w.version(prefix+"loop.version", 1)
	n := w.count(fCount32, prefix+"loop.nvertices", limVertices)
	for i := uint64(0); i < n && w.ok; i++ {
		w.floats(3, prefix+"loop.vertex")
	}
	w.u8(fU8, prefix+"loop.origininside")
	w.u32(fU32, prefix+"loop.depth")
	w.rect(prefix + "loop.")
}

func (w *walker) loopCompressed(level int) {
	n := w.count(fCountVar, "polygon4.loop.nvertices", limVertices)
	if !w.ok {
		return
	}
	// face runs until they cover n vertices (int arithmetic as in the format's
	// reference implementation: count = value/6 as a signed 64-bit integer)
	var parsed int64
	for parsed < int64(n) && w.ok {
		v := w.uvarint(fRun, "polygon4.loop.facerun")
		if !w.ok {
			return
		}
		c := int64(v / 6)
		if c <= 0 {
			w.stop(stZeroRun, "polygon4.loop.facerun")
			return
		}
		parsed += c
	}
	for i := uint64(0); i < n && w.ok; i++ {
		if i == 0 {
			w.take((level+7)/8*2, fFirstPt, "polygon4.loop.firstpoint")
		} else {
			w.uvarint(fVar, "polygon4.loop.pointdelta")
		}
	}
	if !w.ok {
		return
	}
	noff := int64(w.uvarint(fOffN, "polygon4.loop.noffcenter"))
	if !w.ok {
		return
	}
	if noff > int64(n) {
		w.stop(stOffCenter, "polygon4.loop.noffcenter")
		return
	}
	for i := int64(0); i < noff && w.ok; i++ {
		idx := w.uvarint(fOffIdx, "polygon4.loop.offidx")
		if !w.ok {
			return
		}
		if idx >= n { // as an index into n vertices; values >= 2^63 are out of range too
			w.stop(stOffCenter, "polygon4.loop.offidx")
			return
		}
		w.floats(3, "polygon4.loop.offvertex")
	}
	props := w.uvarint(fVar, "polygon4.loop.properties")
	w.uvarint(fVar, "polygon4.loop.depth")
	if w.ok && props&2 != 0 {
		w.rect("polygon4.loop.")
	}
}

func walk(kind string, b []byte) *walkResult {
	r := &walkResult{Status: stComplete}
	w := &walker{b: b, r: r, ok: true}
	switch kind {
	case "point":
		w.version("point.version", 1)
		r.PastVersion = w.ok
		w.floats(3, "point.coord")
	case "cap":
		r.PastVersion = true
		w.floats(3, "cap.center")
		w.floats(1, "cap.radius")
	case "rect":
		w.version("rect.version", 1)
		r.PastVersion = w.ok
		w.floats(4, "rect.bound")
	case "cellid":
		r.PastVersion = true
		w.u64(fCellID, "cellid.id")
	case "cell":
		r.PastVersion = true
		w.u64(fCellID, "cell.id")
	case "cellunion":
		w.version("cellunion.version", 1)
		r.PastVersion = w.ok
		n := w.count(fCount64, "cellunion.ncells", limCells)
		for i := uint64(0); i < n && w.ok; i++ {
			w.u64(fCellID, "cellunion.id")
		}
	case "polyline":
		w.version("polyline.version", 1)
		r.PastVersion = w.ok
		n := w.count(fCount32, "polyline.nvertices", limVertices)
		for i := uint64(0); i < n && w.ok; i++ {
			w.floats(3, "polyline.vertex")
		}
	case "loop":
		w.loop("")
		r.PastVersion = len(r.Fields) > 1
	case "polygon":
		if len(b) == 0 {
			w.stop(stTruncated, "polygon.version")
			break
		}
		switch b[0] {
		case 1:
			w.version("polygon1.version", 1)
			r.PastVersion = true
			w.u8(fU8, "polygon1.ownsloops")
			w.u8(fU8, "polygon1.hasholes")
			n := w.count(fCount32, "polygon1.nloops", limLoops)
			for i := uint64(0); i < n && w.ok; i++ {
				w.loop("polygon1.")
			}
			w.rect("polygon1.")
		case 4:
			w.version("polygon4.version", 4)
			r.PastVersion = true
			lvl := w.u8(fSnap, "polygon4.snaplevel")
			if w.ok && lvl > 30 {
				w.stop(stBadSnap, "polygon4.snaplevel")
			}
			n := w.count(fCountVar, "polygon4.nloops", limLoops)
			for i := uint64(0); i < n && w.ok; i++ {
				w.loopCompressed(int(lvl))
			}
		default:
			w.take(1, fVersion, "polygon.version")
			w.last().Val = uint64(b[0])
			w.last().Limit = 1
			w.stop(stBadVersion, "polygon.version")
		}
	}
	r.End = w.p
	return r
}

// hasNonFinite reports whether any float field located by the walk is NaN or ±Inf.
func (r *walkResult) hasNonFinite(b []byte) bool {
	for _, f := range r.Fields {
		if f.Kind == fFloat {
			v := math.Float64frombits(f.Val)
			if math.IsNaN(v) || math.IsInf(v, 0) {
				return true
			}
		}
	}
	return false
}
