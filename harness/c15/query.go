package c15

// Usability queries on a successfully decoded value: containment, bounds,
// edges/chains and re-encoding. Every query runs with a step label so that a
// panic can be attributed to the query that raised it.

import (
	"bytes"
	"fmt"
	"math"

	"github.com/golang/geo/r3"
	"github.com/golang/geo/s2"
)

// probe points and cells handed to the containment queries (all valid).
var (
	probePoints = []s2.Point{
		{Vector: r3.Vector{X: 1}},
		{Vector: r3.Vector{Z: 1}},
		{Vector: r3.Vector{X: -1}},
		{Vector: r3.Vector{X: 0.6, Y: 0.64, Z: 0.48}},
		s2.OriginPoint(),
	}
	probeCells = []s2.Cell{
		s2.CellFromCellID(s2.CellIDFromFace(0)),
		s2.CellFromCellID(s2.CellIDFromFace(5)),
		s2.CellFromCellID(s2.CellIDFromFace(2).ChildBeginAtLevel(7)),
		s2.CellFromCellID(s2.CellIDFromFace(3).ChildEndAtLevel(30).Prev()),
	}
)

// maxQuerySize: values with more elements than this are not queried (they can
// only arise from a tiny input through a count field; see class "ok-huge").
const maxQuerySize = 200000

func finite(p s2.Point) bool {
	for _, x := range []float64{p.X, p.Y, p.Z} {
		if math.IsNaN(x) || math.IsInf(x, 0) {
			return false
		}
	}
	return true
}

// content labels what kind of vertices a decoded value carries; it is part of
// the finding class of a query panic so that "the decoded value is garbage the
// library's own Validate rejects" and "the decoded value looks fine" are kept apart.
type content struct {
	zeroVertexLoop bool
	fullPolygon    bool // the polygon consisting of the full loop (a valid value)
	nonFinite      bool
	nonUnit        bool
	invalid        bool // the library's own validator rejects it (or panics)
	size           int
}

func (c content) label() string {
	switch {
	case c.zeroVertexLoop:
		return "zero-vertex-loop"
	case c.nonFinite:
		return "nonfinite"
	case c.nonUnit:
		return "nonunit"
	case c.fullPolygon:
		return "full-polygon"
	case c.invalid:
		return "invalid"
	}
	return "valid"
}

func (c *content) addPoints(ps []s2.Point) {
	c.size += len(ps)
	for _, p := range ps {
		if !finite(p) {
			c.nonFinite = true
		} else if !p.IsUnit() {
			c.nonUnit = true
		}
	}
}

// extraProbes derives probe points/cells from a vertex of the value when that
// vertex is a proper unit vector (so the probe itself is a legal argument).
func extraProbes(ps []s2.Point) ([]s2.Point, []s2.Cell) {
	var pts []s2.Point
	var cells []s2.Cell
	for i, p := range ps {
		if i > 2 {
			break
		}
		if finite(p) && p.IsUnit() {
			pts = append(pts, p)
			id := s2.CellFromPoint(p).ID()
			cells = append(cells, s2.CellFromCellID(id), s2.CellFromCellID(id.Parent(10)))
		}
	}
	return pts, cells
}

type querier struct {
	step string
	n    int
}

func (q *querier) at(s string) { q.step = s; q.n++ }

func (q *querier) region(r s2.Region, pts []s2.Point, cells []s2.Cell) {
	q.at("CapBound")
	r.CapBound()
	q.at("RectBound")
	r.RectBound()
	for _, c := range append(append([]s2.Cell{}, probeCells...), cells...) {
		q.at("ContainsCell")
		r.ContainsCell(c)
		q.at("IntersectsCell")
		r.IntersectsCell(c)
	}
	for _, p := range append(append([]s2.Point{}, probePoints...), pts...) {
		q.at("ContainsPoint")
		r.ContainsPoint(p)
	}
	q.at("CellUnionBound")
	r.CellUnionBound()
}

func (q *querier) shape(s s2.Shape) {
	q.at("NumEdges")
	n := s.NumEdges()
	for i := 0; i < n; i++ {
		q.at("Edge")
		s.Edge(i)
		q.at("ChainPosition")
		cp := s.ChainPosition(i)
		q.at("ChainEdge(ChainPosition)")
		s.ChainEdge(cp.ChainID, cp.Offset)
	}
	q.at("NumChains")
	nc := s.NumChains()
	for i := 0; i < nc; i++ {
		q.at("Chain")
		ch := s.Chain(i)
		for j := 0; j < ch.Length; j++ {
			q.at("ChainEdge")
			s.ChainEdge(i, j)
		}
	}
	q.at("ReferencePoint")
	s.ReferencePoint()
	q.at("Dimension")
	s.Dimension()
	q.at("IsEmpty")
	s.IsEmpty()
	q.at("IsFull")
	s.IsFull()
}

// decoded is one decoded value of any of the nine types.
type decoded struct {
	kind     string
	point    s2.Point
	cap      s2.Cap
	rect     s2.Rect
	cellid   s2.CellID
	cell     s2.Cell
	cu       s2.CellUnion
	polyline s2.Polyline
	loop     *s2.Loop
	polygon  *s2.Polygon
}

// inspect computes the content label without calling anything that can panic
// on garbage (only accessors and IsUnit).
func (d *decoded) inspect() content {
	var c content
	switch d.kind {
	case "point":
		c.addPoints([]s2.Point{d.point})
	case "cap":
		c.addPoints([]s2.Point{d.cap.Center()})
		if r := float64(d.cap.Radius()); math.IsNaN(r) {
			c.nonFinite = true
		}
		if !c.nonFinite && !c.nonUnit && !d.cap.IsValid() {
			c.invalid = true
		}
	case "rect":
		for _, x := range []float64{d.rect.Lat.Lo, d.rect.Lat.Hi, d.rect.Lng.Lo, d.rect.Lng.Hi} {
			if math.IsNaN(x) || math.IsInf(x, 0) {
				c.nonFinite = true
			}
		}
		if !c.nonFinite && !d.rect.IsValid() {
			c.invalid = true
		}
		c.size = 1
	case "cellid":
		c.size = 1
		c.invalid = !d.cellid.IsValid()
	case "cell":
		c.size = 1
		c.invalid = !d.cell.ID().IsValid()
	case "cellunion":
		c.size = len(d.cu)
		for _, id := range d.cu {
			if !id.IsValid() {
				c.invalid = true
			}
		}
	case "polyline":
		c.addPoints(d.polyline)
	case "loop":
		c.addPoints(d.loop.Vertices())
		c.zeroVertexLoop = d.loop.NumVertices() == 0
	case "polygon":
		for _, l := range d.polygon.Loops() {
			if l == nil {
				c.invalid = true
				continue
			}
			c.addPoints(l.Vertices())
			if l.NumVertices() == 0 {
				c.zeroVertexLoop = true
			}
		}
		c.size += d.polygon.NumLoops()
		c.fullPolygon = d.polygon.NumLoops() == 1 && d.polygon.Loops()[0] != nil && d.polygon.Loops()[0].IsFull()
	}
	return c
}

// validate runs the library's own validator (which may itself panic on garbage;
// the caller runs this under recover).
func (d *decoded) validate() error {
	switch d.kind {
	case "polyline":
		return d.polyline.Validate()
	case "loop":
		return d.loop.Validate()
	case "polygon":
		return d.polygon.Validate()
	case "cellunion":
		if !d.cu.IsValid() {
			return fmt.Errorf("cell union not valid")
		}
	}
	return nil
}

func (d *decoded) encode() ([]byte, error) {
	var buf bytes.Buffer
	var err error
	switch d.kind {
	case "point":
		err = d.point.Encode(&buf)
	case "cap":
		err = d.cap.Encode(&buf)
	case "rect":
		err = d.rect.Encode(&buf)
	case "cellid":
		err = d.cellid.Encode(&buf)
	case "cell":
		err = d.cell.Encode(&buf)
	case "cellunion":
		err = d.cu.Encode(&buf)
	case "polyline":
		err = d.polyline.Encode(&buf)
	case "loop":
		err = d.loop.Encode(&buf)
	case "polygon":
		err = d.polygon.Encode(&buf)
	}
	return buf.Bytes(), err
}

// queryStructural: accessors that have no geometric precondition (edges,
// chains, stored bounds, validator, re-encoding).
func (d *decoded) queryStructural(q *querier) {
	switch d.kind {
	case "cellid":
		id := d.cellid
		q.at("CellID.IsValid")
		id.IsValid()
		q.at("CellID.Level")
		id.Level()
		q.at("CellID.Face")
		id.Face()
		q.at("CellID.RangeMin")
		id.RangeMin()
		q.at("CellID.RangeMax")
		id.RangeMax()
		q.at("CellID.ToToken")
		id.ToToken()
		q.at("CellID.String")
		_ = id.String()
		q.at("CellID.Contains")
		id.Contains(s2.CellIDFromFace(1))
		q.at("CellID.Intersects")
		id.Intersects(s2.CellIDFromFace(1))
	case "cell":
		c := d.cell
		q.at("Cell.ID")
		c.ID()
		q.at("Cell.Level")
		c.Level()
		q.at("Cell.Face")
		c.Face()
		for k := 0; k < 4; k++ {
			q.at("Cell.Vertex")
			c.Vertex(k)
			q.at("Cell.Edge")
			c.Edge(k)
		}
		q.at("Cell.BoundUV")
		c.BoundUV()
	case "cellunion":
		q.at("CellUnion.IsValid")
		d.cu.IsValid()
		q.at("CellUnion.IsNormalized")
		d.cu.IsNormalized()
		q.at("CellUnion.ContainsCellID")
		d.cu.ContainsCellID(s2.CellIDFromFace(1))
		q.at("CellUnion.IntersectsCellID")
		d.cu.IntersectsCellID(s2.CellIDFromFace(1).ChildBeginAtLevel(12))
		q.at("CellUnion.LeafCellsCovered")
		d.cu.LeafCellsCovered()
	case "polyline":
		q.shape(&d.polyline)
		q.at("Polyline.Validate")
		d.polyline.Validate()
	case "loop":
		l := d.loop
		q.at("Loop.NumVertices")
		n := l.NumVertices()
		for i := 0; i < n; i++ {
			q.at("Loop.Vertex")
			l.Vertex(i)
		}
		q.at("Loop.Vertices")
		l.Vertices()
		q.shape(l)
		q.at("Loop.IsHole")
		l.IsHole()
		q.at("Loop.Sign")
		l.Sign()
		q.at("Loop.Validate")
		l.Validate()
	case "polygon":
		p := d.polygon
		q.at("Polygon.NumLoops")
		n := p.NumLoops()
		for i := 0; i < n; i++ {
			q.at("Polygon.Loop")
			l := p.Loop(i)
			q.at("Polygon.Loop.NumVertices")
			m := l.NumVertices()
			for j := 0; j < m; j++ {
				q.at("Polygon.Loop.Vertex")
				l.Vertex(j)
			}
			if i < 6 {
				q.shape(l)
				q.at("Polygon.Loop.IsHole")
				l.IsHole()
				q.at("Polygon.Loop.Validate")
				l.Validate()
			}
			q.at("Polygon.Parent")
			p.Parent(i)
			q.at("Polygon.LastDescendant")
			p.LastDescendant(i)
		}
		q.at("Polygon.IsEmpty")
		p.IsEmpty()
		q.at("Polygon.IsFull")
		p.IsFull()
		q.shape(p)
		q.at("Polygon.Validate")
		p.Validate()
	}
}

// queryRegion: containment and bounds.
func (d *decoded) queryRegion(q *querier) {
	switch d.kind {
	case "point":
		q.region(d.point, nil, nil)
	case "cap":
		q.at("Cap.IsValid")
		d.cap.IsValid()
		q.at("Cap.IsEmpty")
		d.cap.IsEmpty()
		q.at("Cap.IsFull")
		d.cap.IsFull()
		q.region(d.cap, nil, nil)
	case "rect":
		q.at("Rect.IsValid")
		d.rect.IsValid()
		for k := 0; k < 4; k++ {
			q.at("Rect.Vertex")
			d.rect.Vertex(k)
		}
		q.region(d.rect, nil, nil)
	case "cellid":
		// A CellID is not a Region; its cell is only formed when the id says it is valid.
		if d.cellid.IsValid() {
			q.at("CellFromCellID(valid id)")
			c := s2.CellFromCellID(d.cellid)
			q.region(c, nil, nil)
		}
	case "cell":
		q.region(d.cell, nil, nil)
	case "cellunion":
		q.region(&d.cu, nil, nil)
	case "polyline":
		pts, cells := extraProbes(d.polyline)
		q.region(&d.polyline, pts, cells)
	case "loop":
		pts, cells := extraProbes(d.loop.Vertices())
		q.region(d.loop, pts, cells)
	case "polygon":
		var vs []s2.Point
		for _, l := range d.polygon.Loops() {
			if l != nil && l.NumVertices() > 0 {
				vs = append(vs, l.Vertices()[0])
			}
		}
		pts, cells := extraProbes(vs)
		q.region(d.polygon, pts, cells)
		// the loops of the polygon are values the decoder returned too (Loop(i),
		// Loops()): each is a Region of its own
		for i, l := range d.polygon.Loops() {
			if l == nil || i >= 6 {
				break
			}
			q.region(l, pts, cells)
		}
	}
}
