package c15

// Grammar-driven inputs: byte strings assembled field by field from drawn
// values, following the layout of the formats but not the encoder's choices
// (zero-vertex loops, arbitrary depths and property bits, bounds that do not
// bound, vertices that repeat, off-centre tables, face runs that over-cover …).
// Most of them decode without error, so this is the sub-check that feeds
// oracle (3) with values the encoder would never produce.

import (
	"encoding/binary"
	"encoding/hex"
	"fmt"
	"math"

	"pgregory.net/rapid"

	"verifharness/internal/ev"
)

var palette = func() [][3]float64 {
	s3 := 1 / math.Sqrt(3)
	s2_ := 1 / math.Sqrt2
	return [][3]float64{
		{1, 0, 0}, {0, 1, 0}, {0, 0, 1}, {-1, 0, 0}, {0, -1, 0}, {0, 0, -1},
		{s3, s3, s3}, {-s3, s3, s3}, {s3, -s3, s3}, {s3, s3, -s3}, {-s3, -s3, -s3},
		{s2_, s2_, 0}, {0, s2_, s2_}, {s2_, 0, -s2_},
		{0.6, 0.8, 0}, {0.6, 0, 0.8}, {0.8, 0.6, 0}, {0.28, 0.96, 0},
		{0.9999500037496876, 0.009999500037496875, 0}, {0.9999500037496876, 0, 0.009999500037496875},
		{0.99990001499750044, 0.0099990001499750044, 0.0099990001499750044},
	}
}()

type gw struct {
	b []byte
	t *rapid.T
	n int
}

func (g *gw) label(s string) string { g.n++; return fmt.Sprintf("%s%d", s, g.n) }

func (g *gw) u8(v byte) { g.b = append(g.b, v) }
func (g *gw) u32(v uint32) {
	g.b = binary.LittleEndian.AppendUint32(g.b, v)
}
func (g *gw) f64(v float64) { g.b = binary.LittleEndian.AppendUint64(g.b, math.Float64bits(v)) }
func (g *gw) uv(v uint64)   { g.b = binary.AppendUvarint(g.b, v) }

// hostile1in draws true once in n.
func (g *gw) rare(n int, what string) bool {
	return oneIn(g.t, g.label(what), n)
}

func (g *gw) point() {
	if g.rare(25, "hp") {
		for i := 0; i < 3; i++ {
			g.f64(hostileFloats[rapid.IntRange(0, len(hostileFloats)-1).Draw(g.t, g.label("hf"))])
		}
		return
	}
	p := palette[rapid.IntRange(0, len(palette)-1).Draw(g.t, g.label("pt"))]
	g.f64(p[0])
	g.f64(p[1])
	g.f64(p[2])
}

func (g *gw) rect() {
	v := byte(1)
	if g.rare(200, "rv") {
		v = genByte(g.t, g.label("rvb"))
	}
	g.u8(v)
	switch rapid.IntRange(0, 5).Draw(g.t, g.label("rk")) {
	case 0: // full
		g.f64(-math.Pi / 2)
		g.f64(math.Pi / 2)
		g.f64(-math.Pi)
		g.f64(math.Pi)
	case 1: // empty
		g.f64(1)
		g.f64(0)
		g.f64(math.Pi)
		g.f64(-math.Pi)
	case 2: // hostile
		for i := 0; i < 4; i++ {
			g.f64(hostileFloats[rapid.IntRange(0, len(hostileFloats)-1).Draw(g.t, g.label("rh"))])
		}
	default: // some valid rectangle that need not bound anything
		a := rapid.Float64Range(-math.Pi/2, math.Pi/2).Draw(g.t, g.label("ra"))
		b := rapid.Float64Range(-math.Pi/2, math.Pi/2).Draw(g.t, g.label("rb"))
		if a > b {
			a, b = b, a
		}
		g.f64(a)
		g.f64(b)
		g.f64(rapid.Float64Range(-math.Pi, math.Pi).Draw(g.t, g.label("rc")))
		g.f64(rapid.Float64Range(-math.Pi, math.Pi).Draw(g.t, g.label("rd")))
	}
}

func (g *gw) smallCount(max int, what string) int {
	return rapid.IntRange(0, max).Draw(g.t, g.label(what))
}

// loopCount: 0..4 loops, in one case of six 13..16 (more than 12 loops switch
// Polygon.Edge / ChainPosition to the cumulative-edges table; the loops may have
// no vertices at all).
func (g *gw) loopCount() int {
	if g.rare(6, "nlmany") {
		return rapid.IntRange(13, 16).Draw(g.t, g.label("nlm"))
	}
	return g.smallCount(4, "nl")
}

// declared returns the count to write for n actual elements: usually n.
func (g *gw) declared(n int, what string) uint64 {
	switch rapid.IntRange(0, 11).Draw(g.t, g.label(what)) { // 7 and 9: about once in 20 each
	case 7:
		return uint64(n + 1)
	case 9:
		if n > 0 {
			return uint64(n - 1)
		}
	}
	return uint64(n)
}

func (g *gw) depth32() uint32 {
	if g.rare(6, "dh") {
		return rapid.SampledFrom([]uint32{1 << 31, 1<<32 - 1, 1<<31 - 1, 1000}).Draw(g.t, g.label("dv"))
	}
	return uint32(rapid.IntRange(0, 3).Draw(g.t, g.label("d")))
}

func (g *gw) loopLossless() {
	v := byte(1)
	if g.rare(200, "lv") {
		v = genByte(g.t, g.label("lvb"))
	}
	g.u8(v)
	n := rapid.SampledFrom([]int{0, 1, 1, 2, 3, 3, 4, 5, 8}).Draw(g.t, g.label("nv"))
	g.u32(uint32(g.declared(n, "nvd")))
	for i := 0; i < n; i++ {
		g.point()
	}
	g.u8(rapid.SampledFrom([]byte{0, 1, 1, 0, 2, 255}).Draw(g.t, g.label("oi")))
	g.u32(g.depth32())
	g.rect()
}

func (g *gw) loopCompressed(level int) {
	n := rapid.SampledFrom([]int{0, 1, 1, 2, 3, 3, 4, 5, 8}).Draw(g.t, g.label("nv"))
	nd := g.declared(n, "nvd")
	g.uv(nd)
	// face runs covering the declared count (sometimes over- or under-covering)
	left := int(nd)
	if g.rare(12, "cov") {
		left += rapid.IntRange(-1, 3).Draw(g.t, g.label("covd"))
	}
	for left > 0 {
		c := rapid.IntRange(1, left).Draw(g.t, g.label("run"))
		if g.rare(30, "bigrun") {
			c = rapid.SampledFrom([]int{0, left + 5, 1 << 31, 1 << 40}).Draw(g.t, g.label("runh"))
		}
		face := rapid.IntRange(0, 5).Draw(g.t, g.label("face"))
		g.uv(uint64(c)*6 + uint64(face))
		if c <= 0 {
			break
		}
		left -= c
	}
	for i := 0; i < n; i++ {
		if i == 0 {
			for k := 0; k < (level+7)/8*2; k++ {
				g.u8(genByte(g.t, g.label("fp")))
			}
			continue
		}
		switch rapid.IntRange(0, 5).Draw(g.t, g.label("dk")) {
		case 0:
			g.uv(rapid.Uint64().Draw(g.t, g.label("dv")))
		case 1:
			g.uv(^uint64(0))
		default:
			g.uv(uint64(rapid.IntRange(0, 4000).Draw(g.t, g.label("ds"))))
		}
	}
	noff := 0
	if n > 0 {
		noff = rapid.SampledFrom([]int{0, 0, 1, 2, n}).Draw(g.t, g.label("noff"))
		if noff > n {
			noff = n
		}
	}
	if g.rare(25, "noffh") {
		g.uv(rapid.SampledFrom([]uint64{uint64(n) + 1, 1 << 63, ^uint64(0), 1 << 31}).Draw(g.t, g.label("noffv")))
	} else {
		g.uv(uint64(noff))
	}
	for i := 0; i < noff; i++ {
		if g.rare(25, "idxh") {
			g.uv(rapid.SampledFrom([]uint64{uint64(n), uint64(n) + 1, 1 << 63, ^uint64(0), 1 << 31}).Draw(g.t, g.label("idxv")))
		} else {
			g.uv(uint64(rapid.IntRange(0, n-1).Draw(g.t, g.label("idx"))))
		}
		g.point()
	}
	props := uint64(rapid.IntRange(0, 3).Draw(g.t, g.label("props")))
	if g.rare(20, "propsh") {
		props = rapid.SampledFrom([]uint64{4, 7, 255, 1 << 63, ^uint64(0), ^uint64(0) - 2}).Draw(g.t, g.label("propsv"))
	}
	g.uv(props)
	if g.rare(6, "dh") {
		g.uv(rapid.SampledFrom([]uint64{1 << 31, 1 << 32, 1<<63 - 1, 1 << 63, ^uint64(0), 1000}).Draw(g.t, g.label("dv")))
	} else {
		g.uv(uint64(rapid.IntRange(0, 3).Draw(g.t, g.label("d"))))
	}
	if props&2 != 0 {
		g.rect()
	}
}

func genGrammar(t *rapid.T) bytesCase {
	g := &gw{t: t}
	kind := rapid.SampledFrom([]string{"polygon", "polygon", "polygon", "polygon", "loop", "loop", "polyline", "cellunion"}).Draw(t, "kind")
	switch kind {
	case "loop":
		g.loopLossless()
	case "polyline":
		g.u8(1)
		n := g.smallCount(6, "n")
		g.u32(uint32(g.declared(n, "nd")))
		for i := 0; i < n; i++ {
			g.point()
		}
	case "cellunion":
		g.u8(1)
		n := g.smallCount(8, "n")
		g.b = binary.LittleEndian.AppendUint64(g.b, g.declared(n, "nd"))
		for i := 0; i < n; i++ {
			var id uint64
			switch rapid.IntRange(0, 3).Draw(t, g.label("idk")) {
			case 0:
				id = hostileCellIDs[rapid.IntRange(0, len(hostileCellIDs)-1).Draw(t, g.label("idh"))]
			case 1:
				id = rapid.Uint64().Draw(t, g.label("idr"))
			default:
				// a valid id: face, then a level marker bit
				face := uint64(rapid.IntRange(0, 5).Draw(t, g.label("idf")))
				lvl := uint(rapid.IntRange(0, 30).Draw(t, g.label("idl")))
				pos := rapid.Uint64().Draw(t, g.label("idp"))
				lsb := uint64(1) << (2 * (30 - lvl))
				id = face<<61 | (pos & (1<<61 - 1) &^ (2*lsb - 1)) | lsb
			}
			g.b = binary.LittleEndian.AppendUint64(g.b, id)
		}
	default:
		if rapid.Bool().Draw(t, "compressed") {
			g.u8(4)
			level := rapid.SampledFrom([]int{0, 1, 7, 8, 9, 16, 17, 24, 29, 30, 30}).Draw(t, "level")
			g.u8(byte(level))
			n := g.loopCount()
			g.uv(g.declared(n, "nld"))
			for i := 0; i < n; i++ {
				g.loopCompressed(level)
			}
		} else {
			g.u8(1)
			g.u8(rapid.SampledFrom([]byte{1, 0, 255}).Draw(t, "owns"))
			g.u8(rapid.SampledFrom([]byte{0, 1, 2}).Draw(t, "holes"))
			n := g.loopCount()
			g.u32(uint32(g.declared(n, "nld")))
			for i := 0; i < n; i++ {
				g.loopLossless()
			}
			g.rect()
		}
	}
	return bytesCase{Kind: kind, Data: hex.EncodeToString(g.b), Slow: rapid.IntRange(0, 5).Draw(t, "slow") == 0}
}

func init() {
	ev.Define("grammar", ev.Options{
		Rule:  "byte strings assembled field by field along the formats' layout for Polygon (lossless and compressed), Loop, Polyline, CellUnion: 0–4 loops of 0–8 vertices from a palette of 21 unit points (1 in 25 hostile floats), declared counts equal to the actual ones 18 times in 20 (else ±1), arbitrary origin-inside bytes, depths (0..3, 1 in 6 from {1000, 2^31−1, 2^31, 2^32−1, 2^63, 2^64−1}), property bits, bounds that need not bound (full, empty, random, hostile), face runs that cover / over-cover / under-cover, point deltas small / random / 2^64−1, off-centre tables with in-range and hostile indices. Same oracles as 'mutated'. Non-trivial = past the version byte and ≥ 1 count field reached.",
		Quick: 40000, Thorough: 800000, Journal: true}, genGrammar, checkBytesCase)
}
