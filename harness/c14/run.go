package c14

import (
	"fmt"
	"hash/fnv"
	"math"
	"runtime"
	"sort"
	"strconv"
	"strings"
	"sync"
	"time"

	"github.com/golang/geo/s1"
	"github.com/golang/geo/s2"

	"verifharness/internal/ev"
	"verifharness/internal/gen"
)

func s1ChordFromAngle(a float64) s1.ChordAngle { return s1.ChordAngleFromAngle(s1.Angle(a)) }

// ---------------------------------------------------------------- objects

// shared is one construction of the case's shared object.
type shared struct {
	kind    string
	loop    *s2.Loop
	poly    *s2.Polygon
	idx     *s2.ShapeIndex
	shapes  []s2.Shape
	indexes []*s2.ShapeIndex // every index reachable by the ops
	// opts: one EdgeQueryOptions value per option combination, created before
	// the goroutines start and shared by all of them (each goroutine still
	// builds its own EdgeQuery objects from it): configuration is read-only.
	opts map[string]*s2.EdgeQueryOptions
}

func optsKey(furthest bool, o Op) string { return fmt.Sprintf("%v/%d/%v", furthest, o.N, o.I) }

func makeOpts(furthest bool, o Op) *s2.EdgeQueryOptions {
	var opts *s2.EdgeQueryOptions
	if furthest {
		opts = s2.NewFurthestEdgeQueryOptions()
	} else {
		opts = s2.NewClosestEdgeQueryOptions()
	}
	opts.IncludeInteriors(o.I)
	if o.N > 0 {
		opts.MaxResults(o.N)
	}
	return opts
}

func loopsOf(rings [][]gen.P) []*s2.Loop {
	var ls []*s2.Loop
	for _, r := range rings {
		ls = append(ls, s2.LoopFromPoints(gen.Pts(r)))
	}
	return ls
}

func build(c *Case) *shared {
	s := &shared{kind: c.Kind, opts: map[string]*s2.EdgeQueryOptions{}}
	for _, w := range c.G {
		for _, o := range w.Ops {
			for _, furthest := range []bool{false, true} {
				if k := optsKey(furthest, o); s.opts[k] == nil {
					s.opts[k] = makeOpts(furthest, o)
				}
			}
		}
	}
	switch c.Kind {
	case "loop":
		s.loop = c.Loop.Loop()
		s.indexes = []*s2.ShapeIndex{s2.VerifLoopIndex(s.loop)}
	case "polygon":
		s.poly = s2.PolygonFromLoops(loopsOf(c.Rings))
		s.indexes = []*s2.ShapeIndex{s2.VerifPolygonIndex(s.poly)}
		for _, l := range s.poly.Loops() {
			s.indexes = append(s.indexes, s2.VerifLoopIndex(l))
		}
	default:
		s.idx = s2.NewShapeIndex()
		// Init "restale": the index was built once and then received more
		// shapes, so the deferred construction the queries trigger is a rebuild.
		half := -1
		if c.Init == "restale" && len(c.Shapes) >= 2 {
			half = (len(c.Shapes) + 1) / 2
		}
		for i, sp := range c.Shapes {
			if i == half {
				s.idx.Build()
			}
			sh := sp.Build()
			s.shapes = append(s.shapes, sh)
			s.idx.Add(sh)
		}
		s.indexes = []*s2.ShapeIndex{s.idx}
	}
	return s
}

func (s *shared) buildAll() {
	for _, ix := range s.indexes {
		ix.Build()
	}
}

func (s *shared) valid() bool {
	switch s.kind {
	case "loop":
		return s.loop.Validate() == nil
	case "polygon":
		return s.poly.Validate() == nil
	}
	return true
}

func hashCells(ix *s2.ShapeIndex) string {
	h := fnv.New64a()
	n := 0
	for _, c := range s2.VerifIndexCells(ix) {
		n++
		fmt.Fprintf(h, "%d:", uint64(c.ID))
		for _, cs := range c.Shapes {
			fmt.Fprintf(h, "%d,%v,%v;", cs.ShapeID, cs.ContainsCenter, cs.Edges)
		}
	}
	return fmt.Sprintf("%d cells #%016x", n, h.Sum64())
}

func (s *shared) dump() string {
	var parts []string
	for _, ix := range s.indexes {
		parts = append(parts, hashCells(ix))
	}
	return strings.Join(parts, " | ")
}

// wctx is the private state of one goroutine: its own copies of the second
// regions (indexes built up front: they are not the object under test) and
// its lazily created query objects.
type wctx struct {
	sh     *shared
	oLoops []*s2.Loop
	oPolys []*s2.Polygon
	cpq    map[int]*s2.ContainsPointQuery
	ceq    *s2.CrossingEdgeQuery
	eq     map[string]*s2.EdgeQuery
	region *s2.ShapeIndexRegion
}

func newCtx(c *Case, sh *shared) *wctx {
	x := &wctx{sh: sh, cpq: map[int]*s2.ContainsPointQuery{}, eq: map[string]*s2.EdgeQuery{}}
	for _, o := range c.Others {
		if c.Kind == "loop" {
			l := s2.LoopFromPoints(gen.Pts(o[0]))
			s2.VerifLoopIndex(l).Build()
			x.oLoops = append(x.oLoops, l)
		} else if c.Kind == "polygon" {
			p := s2.PolygonFromLoops(loopsOf(o))
			s2.VerifPolygonIndex(p).Build()
			for _, l := range p.Loops() {
				s2.VerifLoopIndex(l).Build()
			}
			x.oPolys = append(x.oPolys, p)
		}
	}
	return x
}

func antipodalish(a, b s2.Point) bool { return a.Dot(b.Vector) < -0.98 }

func (x *wctx) edgeQuery(o Op, furthest bool) *s2.EdgeQuery {
	key := fmt.Sprintf("%v/%d/%v", furthest, o.N, o.I)
	if q := x.eq[key]; q != nil {
		return q
	}
	opts := x.sh.opts[optsKey(furthest, o)]
	if opts == nil { // (serial oracle runs may ask for a combination no goroutine list contains)
		opts = makeOpts(furthest, o)
	}
	var q *s2.EdgeQuery
	if furthest {
		q = s2.NewFurthestEdgeQuery(x.sh.idx, opts)
	} else {
		q = s2.NewClosestEdgeQuery(x.sh.idx, opts)
	}
	x.eq[key] = q
	return q
}

// doOp executes one query and returns its answer in a canonical text form.
func doOp(x *wctx, s *shared, o Op, p, q s2.Point) string {
	switch s.kind {
	case "loop":
		switch o.K {
		case "cp":
			return fmt.Sprint(s.loop.ContainsPoint(p))
		case "cc":
			return fmt.Sprint(s.loop.ContainsCell(s2.CellFromCellID(s2.CellID(o.Cell))))
		case "ic":
			return fmt.Sprint(s.loop.IntersectsCell(s2.CellFromCellID(s2.CellID(o.Cell))))
		case "con":
			return fmt.Sprint(s.loop.Contains(x.oLoops[o.O]))
		case "int":
			return fmt.Sprint(s.loop.Intersects(x.oLoops[o.O]))
		case "ocon":
			return fmt.Sprint(x.oLoops[o.O].Contains(s.loop))
		case "oint":
			return fmt.Sprint(x.oLoops[o.O].Intersects(s.loop))
		}
	case "polygon":
		switch o.K {
		case "cp":
			return fmt.Sprint(s.poly.ContainsPoint(p))
		case "cc":
			return fmt.Sprint(s.poly.ContainsCell(s2.CellFromCellID(s2.CellID(o.Cell))))
		case "ic":
			return fmt.Sprint(s.poly.IntersectsCell(s2.CellFromCellID(s2.CellID(o.Cell))))
		case "con":
			return fmt.Sprint(s.poly.Contains(x.oPolys[o.O]))
		case "int":
			return fmt.Sprint(s.poly.Intersects(x.oPolys[o.O]))
		case "ocon":
			return fmt.Sprint(x.oPolys[o.O].Contains(s.poly))
		case "oint":
			return fmt.Sprint(x.oPolys[o.O].Intersects(s.poly))
		}
	default:
		switch o.K {
		case "pq", "ps":
			cq := x.cpq[o.M]
			if cq == nil {
				cq = s2.NewContainsPointQuery(s.idx, s2.VertexModel(o.M))
				x.cpq[o.M] = cq
			}
			if o.K == "pq" {
				return fmt.Sprint(cq.Contains(p))
			}
			var ids []int
			for _, sh := range cq.ContainingShapes(p) {
				ids = append(ids, x.shapeNo(sh))
			}
			sort.Ints(ids)
			return fmt.Sprint(ids)
		case "xe", "xs":
			if antipodalish(p, q) || p == q {
				return "n/a"
			}
			if x.ceq == nil {
				x.ceq = s2.NewCrossingEdgeQuery(s.idx)
			}
			ct := s2.CrossingTypeInterior
			if o.M == 1 {
				ct = s2.CrossingTypeAll
			}
			if o.K == "xs" {
				e := append([]int(nil), x.ceq.Crossings(p, q, s.shapes[o.O], ct)...)
				sort.Ints(e)
				return fmt.Sprint(e)
			}
			var parts []string
			for sh, e := range x.ceq.CrossingsEdgeMap(p, q, ct) {
				e = append([]int(nil), e...)
				sort.Ints(e)
				parts = append(parts, fmt.Sprintf("%d:%v", x.shapeNo(sh), e))
			}
			sort.Strings(parts)
			return strings.Join(parts, " ")
		case "ed", "ef", "el":
			if o.E && (antipodalish(p, q) || p == q) {
				return "n/a"
			}
			eq := x.edgeQuery(o, false)
			switch o.T {
			case 1:
				t := s2.NewMinDistanceToCellTarget(s2.CellFromCellID(s2.CellID(o.Cell)))
				return eqAnswer(o, eq.Distance(t), func() []s2.EdgeQueryResult { return eq.FindEdges(t) }, func() bool { return eq.IsDistanceLess(t, s1.ChordAngle(o.D)) })
			case 2:
				// every call gets a target (and target index) of its own
				mk := func() *s2.MinDistanceToShapeIndexTarget {
					ti := s2.NewShapeIndex()
					pl := s2.Polyline{p, q}
					ti.Add(&pl)
					return s2.NewMinDistanceToShapeIndexTarget(ti)
				}
				return eqAnswer(o, eq.Distance(mk()), func() []s2.EdgeQueryResult { return eq.FindEdges(mk()) }, func() bool { return eq.IsDistanceLess(mk(), s1.ChordAngle(o.D)) })
			}
			if o.E {
				t := s2.NewMinDistanceToEdgeTarget(s2.Edge{V0: p, V1: q})
				return eqAnswer(o, eq.Distance(t), func() []s2.EdgeQueryResult { return eq.FindEdges(t) }, func() bool { return eq.IsDistanceLess(t, s1.ChordAngle(o.D)) })
			}
			t := s2.NewMinDistanceToPointTarget(p)
			return eqAnswer(o, eq.Distance(t), func() []s2.EdgeQueryResult { return eq.FindEdges(t) }, func() bool { return eq.IsDistanceLess(t, s1.ChordAngle(o.D)) })
		case "fd":
			if o.E && (antipodalish(p, q) || p == q) {
				return "n/a"
			}
			eq := x.edgeQuery(o, true)
			switch o.T {
			case 1:
				return fmt.Sprintf("%x", math.Float64bits(float64(eq.Distance(s2.NewMaxDistanceToCellTarget(s2.CellFromCellID(s2.CellID(o.Cell)))))))
			case 2:
				ti := s2.NewShapeIndex()
				pl := s2.Polyline{p, q}
				ti.Add(&pl)
				return fmt.Sprintf("%x", math.Float64bits(float64(eq.Distance(s2.NewMaxDistanceToShapeIndexTarget(ti)))))
			}
			if o.E {
				return fmt.Sprintf("%x", math.Float64bits(float64(eq.Distance(s2.NewMaxDistanceToEdgeTarget(s2.Edge{V0: p, V1: q})))))
			}
			return fmt.Sprintf("%x", math.Float64bits(float64(eq.Distance(s2.NewMaxDistanceToPointTarget(p)))))
		case "it":
			// the public iterator entry points other than ShapeIndex.Iterator()
			var it *s2.ShapeIndexIterator
			switch o.M {
			case 0:
				it = s2.NewShapeIndexIterator(s.idx, s2.IteratorBegin)
			case 1:
				it = s2.NewShapeIndexIterator(s.idx)
				it.Begin()
			default:
				it = s2.NewShapeIndexIterator(s.idx, s2.IteratorEnd)
				for it.Prev() {
				}
			}
			h := fnv.New64a()
			n := 0
			for ; !it.Done(); it.Next() {
				n++
				fmt.Fprintf(h, "%d:%v;", uint64(it.CellID()), it.IndexCell() != nil)
			}
			return fmt.Sprintf("%d cells #%016x", n, h.Sum64())
		case "rg":
			if x.region == nil {
				x.region = s.idx.Region()
			}
			return fmt.Sprint(x.region.CellUnionBound())
		}
	}
	panic("c14: unknown op " + o.K + " for kind " + s.kind)
}

// eqAnswer: only distances are compared (which of several equidistant edges is
// reported depends on map iteration order in the brute-force path).
func eqAnswer(o Op, d s1.ChordAngle, find func() []s2.EdgeQueryResult, less func() bool) string {
	switch o.K {
	case "ed":
		return fmt.Sprintf("%x", math.Float64bits(float64(d)))
	case "el":
		return fmt.Sprint(less())
	}
	var sb strings.Builder
	for _, r := range find() {
		fmt.Fprintf(&sb, "%x ", math.Float64bits(float64(r.Distance())))
	}
	return sb.String()
}

func (x *wctx) shapeNo(sh s2.Shape) int {
	for i, t := range x.sh.shapes {
		if t == sh {
			return i
		}
	}
	return -1
}

// runOps executes a goroutine's query list, turning a panic into an answer.
func runOps(x *wctx, ops []Op, out *[]string, pan *string) {
	defer func() {
		if r := recover(); r != nil {
			buf := make([]byte, 4096)
			buf = buf[:runtime.Stack(buf, false)]
			*pan = fmt.Sprintf("op %d (%s): panic: %v\n%s", len(*out), ops[len(*out)].K, r, buf)
		}
	}()
	for _, o := range ops {
		var a string
		if o.K == "cells" {
			a = x.sh.dump()
		} else {
			a = doOp(x, x.sh, o, o.P.Pt(), o.Q.Pt())
		}
		*out = append(*out, a)
	}
}

// ---------------------------------------------------------------- goroutine identity, hook

func curGid() int64 {
	var buf [64]byte
	n := runtime.Stack(buf[:], false)
	s := buf[:n]
	// "goroutine 123 [running]:"
	var id int64
	for i := len("goroutine "); i < len(s) && s[i] >= '0' && s[i] <= '9'; i++ {
		id = id*10 + int64(s[i]-'0')
	}
	return id
}

// wstate is owned by exactly one goroutine while the goroutines run; the main
// goroutine reads it only after they have finished.
type wstate struct {
	g       int
	gid     int64
	delays  []int
	di      int
	sink    uint64
	lockHit int // index.beforeLock: found a stale index
	midHit  int // index.midBuild: 6 per applyUpdatesInternal
	chkHit  int
	answers []string
	pan     string
}

type runState struct {
	ws     map[int64]*wstate
	ctl    *ctlState
	spinOn bool
}

// cur is written before the goroutines of a run are started and never while
// they run.
var cur *runState

func spin(w *wstate, d int) {
	if d > 0 {
		for i := 0; i < d*64; i++ {
			w.sink = w.sink*6364136223846793005 + 1442695040888963407
		}
	} else {
		for i := 0; i < -d; i++ {
			runtime.Gosched()
		}
	}
}

func hook(name string) {
	r := cur
	if r == nil {
		return
	}
	w := r.ws[curGid()]
	if w == nil {
		return
	}
	switch name {
	case "index.beforeLock":
		w.lockHit++
	case "index.midBuild":
		w.midHit++
	case "index.beforeStatusCheck":
		w.chkHit++
	}
	if r.ctl != nil {
		if r.ctl.sparse && name == "index.midBuild" && w.midHit%6 != 1 && w.midHit%6 != 4 {
			return // exhaustive mode parks before face 0 (nothing built) and face 3 (half built) only
		}
		r.ctl.events <- event{w.g, name}
		<-r.ctl.resume[w.g]
		return
	}
	if len(w.delays) > 0 && strings.HasPrefix(name, "index.") {
		d := w.delays[w.di%len(w.delays)]
		w.di++
		if d != 0 {
			spin(w, d)
		}
	}
}

// ---------------------------------------------------------------- expectations

type expect struct {
	a, b     [][]string // per goroutine: answers starting stale / starting built
	dump     string
	order    int // answers that differ between the two serial runs
	orderOps []string
}

func serial(c *Case) (expect, string) {
	var e expect
	for g := range c.G {
		for pass := 0; pass < 2; pass++ {
			sh := build(c)
			if pass == 1 || c.Init == "built" {
				sh.buildAll()
			}
			var out []string
			var pan string
			runOps(newCtx(c, sh), c.G[g].Ops, &out, &pan)
			if pan != "" {
				return e, fmt.Sprintf("goroutine %d's queries panic in a single-threaded run: %s", g, pan)
			}
			if pass == 0 {
				e.a = append(e.a, out)
			} else {
				e.b = append(e.b, out)
				for i := range out {
					if out[i] != e.a[g][i] {
						e.order++
						e.orderOps = append(e.orderOps, c.G[g].Ops[i].K)
					}
				}
			}
		}
	}
	sh := build(c)
	sh.buildAll()
	e.dump = sh.dump()
	return e, ""
}

func (e *expect) compare(c *Case, ws []*wstate, sh *shared) string {
	for g, w := range ws {
		if w.pan != "" {
			return fmt.Sprintf("goroutine %d: %s", g, w.pan)
		}
		if len(w.answers) != len(e.a[g]) {
			return fmt.Sprintf("goroutine %d returned %d answers, expected %d", g, len(w.answers), len(e.a[g]))
		}
		for i, a := range w.answers {
			if a != e.a[g][i] && a != e.b[g][i] {
				return fmt.Sprintf("goroutine %d query %d (%s): concurrent answer %q; single-threaded answer %q (index not built first) / %q (index built first)",
					g, i, c.G[g].Ops[i].K, clip(a, 200), clip(e.a[g][i], 200), clip(e.b[g][i], 200))
			}
		}
	}
	if d := sh.dump(); d != e.dump {
		return fmt.Sprintf("after all goroutines finished the shared index holds %s; a serially built copy holds %s", d, e.dump)
	}
	return ""
}

// ---------------------------------------------------------------- free-running (race) mode

const (
	// hangAfter: no goroutine made progress for this long.
	hangAfter = 40 * time.Second
	// deadlockGrace: how long the scheduler waits for an event when every
	// unfinished goroutine is in a mutex wait state, before calling it a deadlock.
	deadlockGrace = 4 * time.Second
)

func allStacks() string {
	buf := make([]byte, 1<<16)
	return string(buf[:runtime.Stack(buf, true)])
}

// runFree: one repetition. Returns the worker states and an error text.
func runFree(c *Case, e *expect) ([]*wstate, string) {
	sh := build(c)
	if c.Init == "built" {
		sh.buildAll()
	}
	n := len(c.G)
	ws := make([]*wstate, n)
	ctxs := make([]*wctx, n)
	for g := range ws {
		ws[g] = &wstate{g: g, delays: c.G[g].Delays}
		ctxs[g] = newCtx(c, sh)
	}
	r := &runState{ws: map[int64]*wstate{}}
	cur = r
	s2.VerifHook = hook
	reg := make(chan *wstate, n)
	start := make(chan struct{})
	var wg sync.WaitGroup
	for g := 0; g < n; g++ {
		wg.Add(1)
		go func(w *wstate, x *wctx, ops []Op, stagger int) {
			defer wg.Done()
			w.gid = curGid()
			reg <- w
			<-start // the one barrier
			if stagger != 0 {
				spin(w, stagger)
			}
			runOps(x, ops, &w.answers, &w.pan)
		}(ws[g], ctxs[g], c.G[g].Ops, c.G[g].Stagger)
	}
	for g := 0; g < n; g++ {
		w := <-reg
		r.ws[w.gid] = w
	}
	close(start)
	done := make(chan struct{})
	go func() { wg.Wait(); close(done) }()
	select {
	case <-done:
	case <-time.After(hangAfter):
		return ws, fmt.Sprintf("goroutines did not finish within %v (deadlock or livelock)\n%s", hangAfter, clip(allStacks(), 6000))
	}
	s2.VerifHook = nil
	cur = nil
	return ws, e.compare(c, ws, sh)
}

// ---------------------------------------------------------------- controlled mode

type event struct {
	g     int
	point string
}

type ctlState struct {
	events chan event
	resume []chan struct{}
	sparse bool
}

type ctlResult struct {
	ws        []*wstate
	err       string
	finding   string
	branching []int
	chosen    []int
	trace     []string
	readerMid bool // a status check happened while another goroutine was between lock and unlock
	blockedN  int
	lateWake  int
}

// gstate extracts a goroutine's wait state from an all-goroutine stack dump.
func gstate(dump string, gid int64) string {
	key := "goroutine " + strconv.FormatInt(gid, 10) + " ["
	i := strings.Index(dump, key)
	if i < 0 {
		return "gone"
	}
	rest := dump[i+len(key):]
	if j := strings.IndexAny(rest, "],"); j >= 0 {
		return rest[:j]
	}
	return ""
}

func mutexWait(state string) bool {
	return strings.HasPrefix(state, "sync.") || strings.HasPrefix(state, "semacquire")
}

func inLock(point string) bool {
	return point == "index.midBuild" || point == "index.beforeStatusStore" || point == "index.beforeUnlock"
}

// runCtl executes the case once under the token scheduler following sched.
func runCtl(c *Case, e *expect, sched []int) ctlResult {
	var res ctlResult
	sh := build(c)
	if c.Init == "built" {
		sh.buildAll()
	}
	n := len(c.G)
	ws := make([]*wstate, n)
	ctxs := make([]*wctx, n)
	ct := &ctlState{events: make(chan event, 4*n+4), sparse: c.Mode == "exh"}
	for g := range ws {
		ws[g] = &wstate{g: g}
		ctxs[g] = newCtx(c, sh)
		ct.resume = append(ct.resume, make(chan struct{}, 1))
	}
	res.ws = ws
	r := &runState{ws: map[int64]*wstate{}, ctl: ct}
	cur = r
	s2.VerifHook = hook
	reg := make(chan *wstate, n)
	for g := 0; g < n; g++ {
		go func(w *wstate, x *wctx, ops []Op) {
			w.gid = curGid()
			reg <- w
			<-ct.resume[w.g] // released after registration is complete
			ct.events <- event{w.g, "start"}
			<-ct.resume[w.g]
			runOps(x, ops, &w.answers, &w.pan)
			ct.events <- event{w.g, "done"}
		}(ws[g], ctxs[g], c.G[g].Ops)
	}
	for g := 0; g < n; g++ {
		w := <-reg
		r.ws[w.gid] = w
	}
	for g := 0; g < n; g++ {
		ct.resume[g] <- struct{}{}
	}

	parked := make([]string, n) // point the goroutine is parked at ("" = not parked)
	done := make([]bool, n)
	blocked := make([]bool, n)
	handle := func(ev event) {
		if ev.point == "done" {
			done[ev.g] = true
			parked[ev.g] = ""
		} else {
			parked[ev.g] = ev.point
			if ev.point == "index.beforeStatusCheck" {
				for h := range parked {
					if h != ev.g && inLock(parked[h]) {
						res.readerMid = true
					}
				}
			}
		}
		blocked[ev.g] = false
	}
	fail := func(finding, format string, a ...any) ctlResult {
		res.err = fmt.Sprintf(format, a...) + "\nschedule trace: " + clip(strings.Join(res.trace, " "), 1500)
		res.finding = finding
		return res
	}
	deadline := time.Now().Add(hangAfter)
	// all goroutines report "start"
	for k := 0; k < n; k++ {
		select {
		case ev := <-ct.events:
			handle(ev)
		case <-time.After(hangAfter):
			return fail("hang", "goroutines did not start")
		}
	}
	last := -1
	for step := 0; ; step++ {
		var enabled []int
		alldone := true
		for g := 0; g < n; g++ {
			if !done[g] {
				alldone = false
			}
			if parked[g] != "" {
				enabled = append(enabled, g)
			}
		}
		if alldone {
			break
		}
		if len(enabled) == 0 {
			// every unfinished goroutine appears to wait for a mutex nobody will
			// release; give a late wake-up the benefit of the doubt first
			select {
			case ev := <-ct.events:
				handle(ev)
				res.lateWake++
				step--
				continue
			case <-time.After(deadlockGrace):
			}
			var who []string
			for g := 0; g < n; g++ {
				if blocked[g] {
					who = append(who, fmt.Sprintf("g%d", g))
				}
			}
			return fail("deadlock", "deadlock: goroutines %v wait for a mutex and no goroutine can run\n%s", who, clip(allStacks(), 5000))
		}
		// rotate so that choice 0 continues the goroutine that ran last
		if last >= 0 {
			for i, g := range enabled {
				if g == last {
					enabled = append(enabled[i:], enabled[:i]...)
					break
				}
			}
		}
		ch := 0
		if step < len(sched) {
			ch = sched[step] % len(enabled)
		}
		res.branching = append(res.branching, len(enabled))
		res.chosen = append(res.chosen, ch)
		g := enabled[ch]
		last = g
		from := parked[g]
		parked[g] = ""
		res.trace = append(res.trace, fmt.Sprintf("g%d@%s", g, strings.TrimPrefix(from, "index.")))
		ct.resume[g] <- struct{}{}
		// wait until g parks again, finishes, or blocks on a mutex
		polls := 0
		for parked[g] == "" && !done[g] && !blocked[g] {
			wait := 20 * time.Millisecond
			if from == "index.beforeLock" {
				wait = 150 * time.Microsecond
				if polls > 20 {
					wait = 2 * time.Millisecond
				}
			}
			select {
			case ev := <-ct.events:
				handle(ev)
			case <-time.After(wait):
				polls++
				if mutexWait(gstate(allStacks(), ws[g].gid)) {
					blocked[g] = true
					res.blockedN++
					res.trace = append(res.trace, fmt.Sprintf("(g%d blocks)", g))
				} else if time.Now().After(deadline) {
					return fail("hang", "goroutine %d made no progress for %v after %s\n%s", g, hangAfter, from, clip(allStacks(), 5000))
				}
			}
		}
		// a goroutine that was blocked may have been woken by an unlock: wait for it to park
		for anyBlocked(blocked) {
			dump := allStacks()
			woke := false
			for b := range blocked {
				if blocked[b] && !mutexWait(gstate(dump, ws[b].gid)) {
					woke = true
				}
			}
			if !woke {
				break
			}
			select {
			case ev := <-ct.events:
				if blocked[ev.g] {
					res.trace = append(res.trace, fmt.Sprintf("(g%d acquires)", ev.g))
				}
				handle(ev)
			case <-time.After(hangAfter):
				return fail("hang", "a woken goroutine made no progress\n%s", clip(allStacks(), 5000))
			}
		}
		deadline = time.Now().Add(hangAfter)
	}
	s2.VerifHook = nil
	cur = nil
	if msg := e.compare(c, ws, sh); msg != "" {
		return fail("", "%s", msg)
	}
	return res
}

func anyBlocked(b []bool) bool {
	for _, x := range b {
		if x {
			return true
		}
	}
	return false
}

// ---------------------------------------------------------------- the in-process check

func nIndexes(c *Case) int {
	if c.Kind == "polygon" {
		return 1 + len(c.Rings)
	}
	return 1
}

// classify labels a wrong answer / panic by what the hook counters show.
func classify(c *Case, ws []*wstate, msg string) string {
	builds := 0
	for _, w := range ws {
		builds += w.midHit / 6
	}
	switch {
	case strings.Contains(msg, "deadlock"):
		return "deadlock"
	case strings.Contains(msg, "did not finish"):
		return "hang"
	case builds > nIndexes(c):
		return "double-build"
	case strings.Contains(msg, "panic"):
		return "panic-concurrent"
	case strings.Contains(msg, "after all goroutines finished"):
		return "final-index-differs"
	}
	return "answer-differs"
}

func contended(ws []*wstate) (stale int, builds int) {
	for _, w := range ws {
		if w.lockHit > 0 {
			stale++
		}
		builds += w.midHit / 6
	}
	return
}

const freeReps = 3

func checkInProc(c Case) ev.Outcome {
	o := ev.Outcome{Counts: map[string]int{}}
	if len(c.G) < 2 {
		o.Skip = true
		return o
	}
	if !build(&c).valid() {
		o.Skip = true
		return o
	}
	s2.VerifHook = nil
	e, perr := serial(&c)
	if perr != "" {
		// outside this property: the queries fail on their own
		o.Skip = true
		return o
	}
	if e.order > 0 {
		o.Counts["answers_depending_on_build_state"] = e.order
		for _, k := range e.orderOps {
			o.Counts["answers_depending_on_build_state/"+k]++
		}
	}
	if raceEnabled {
		o.Counts["race_detector_on"] = 1
	}
	o.Class = c.Kind + "/" + c.Init
	switch c.Mode {
	case "free":
		maxStale := 0
		for rep := 0; rep < freeReps; rep++ {
			ws, msg := runFree(&c, &e)
			st, builds := contended(ws)
			if st > maxStale {
				maxStale = st
			}
			if builds > nIndexes(&c) {
				o.Counts["runs_with_more_builds_than_indexes"]++
			}
			if msg != "" {
				o.Finding = classify(&c, ws, msg)
				o.Err = fmt.Sprintf("[%s] repetition %d: %s\nhistory: %s", o.Finding, rep, msg, history(c))
				o.NonTrivial = true
				return o
			}
		}
		o.NonTrivial = maxStale >= 2
		o.Class += contClass(maxStale)
	case "ctl":
		res := runCtl(&c, &e, c.Sched)
		st, builds := contended(res.ws)
		if builds > nIndexes(&c) {
			o.Counts["runs_with_more_builds_than_indexes"]++
		}
		o.Counts["schedule_steps"] = len(res.chosen)
		o.Counts["goroutine_blocked_on_mutex"] = res.blockedN
		o.Counts["late_wakeups"] = res.lateWake
		if res.readerMid {
			o.Counts["status_check_during_build"]++
		}
		o.NonTrivial = st >= 2 || res.readerMid
		o.Class += contClass(st)
		if res.err != "" {
			o.Finding = res.finding
			if o.Finding == "" {
				o.Finding = classify(&c, res.ws, res.err)
			}
			o.Err = fmt.Sprintf("[%s] %s\nhistory: %s", o.Finding, res.err, history(c))
			o.NonTrivial = true
		}
	case "exh":
		limit, budget := 500, 8*time.Second
		if ev.Thorough() {
			limit, budget = 2500, 20*time.Second
		}
		var sched []int
		runs, maxStale := 0, 0
		exhausted := false
		began := time.Now()
		for runs < limit && time.Since(began) < budget {
			res := runCtl(&c, &e, sched)
			runs++
			st, builds := contended(res.ws)
			if st > maxStale {
				maxStale = st
			}
			if builds > nIndexes(&c) {
				o.Counts["runs_with_more_builds_than_indexes"]++
			}
			if res.readerMid {
				o.Counts["status_check_during_build"]++
			}
			o.Counts["late_wakeups"] += res.lateWake
			if res.err != "" {
				o.Finding = res.finding
				if o.Finding == "" {
					o.Finding = classify(&c, res.ws, res.err)
				}
				o.Err = fmt.Sprintf("[%s] schedule %d %v: %s\nhistory: %s", o.Finding, runs, res.chosen, res.err, history(c))
				o.NonTrivial = true
				return o
			}
			// next schedule in depth-first order
			i := len(res.chosen) - 1
			for i >= 0 && res.chosen[i]+1 >= res.branching[i] {
				i--
			}
			if i < 0 {
				exhausted = true
				break
			}
			sched = append(append([]int(nil), res.chosen[:i]...), res.chosen[i]+1)
		}
		o.Counts["schedules_run"] = runs
		if exhausted {
			o.Counts["cases_exhausted"] = 1
		} else {
			o.Counts["cases_capped"] = 1
		}
		o.NonTrivial = maxStale >= 2
		o.Class += contClass(maxStale)
		if o.Ratios == nil {
			o.Ratios = map[string]float64{}
		}
		o.Ratios["schedules/case"] = float64(runs)
	default:
		o.Skip = true
	}
	return o
}

func contClass(stale int) string {
	switch {
	case stale >= 2:
		return "/contended-build"
	case stale == 1:
		return "/one-builder"
	}
	return "/no-build-seen"
}
