// Package c14: concurrent read-only queries on shared geometry are safe and
// give serial answers.
//
// Every case is executed in a CHILD process of the test binary (the binary is
// built with -race, see verif.json): a data race report (GORACE
// halt_on_error=1 exitcode=66), a runtime "fatal error" (concurrent map access)
// or a hang kills or wedges only the child, and the parent turns the exit
// status and the report into an ordinary failing Outcome that carries the case.
// The child is the same test binary running TestReplay with C14_CHILD set; it
// serves cases sent over stdin (see "parent side" below) by executing them
// in-process (run.go).
//
// Three sub-checks share one Case type:
//
//	race_free       free-running goroutines released by one barrier; the
//	                VerifHook only spins / yields (no happens-before edges)
//	ctl_sampled     token scheduler through the VerifHook, drawn schedule
//	ctl_exhaustive  2 goroutines x 1..2 queries, ALL schedules (DFS)
//
// Oracle (all modes): each answer must equal the answer the same goroutine's
// query list gives, run alone on an identically constructed private copy, either
// starting with the index not built or with the index built (a single-threaded
// run puts the call before or after the deferred construction); after all
// goroutines finished the shared indexes must hold exactly the cells of a
// serially built copy; no panic, no deadlock, no race report.
package c14

import (
	"bufio"
	"bytes"
	"encoding/json"
	"fmt"
	"io"
	"math"
	"os"
	"os/exec"
	"path/filepath"
	"regexp"
	"runtime"
	"strconv"
	"strings"
	"sync"
	"syscall"
	"time"

	"github.com/golang/geo/s2"
	"pgregory.net/rapid"

	"verifharness/internal/ev"
	"verifharness/internal/gen"
)

// ---------------------------------------------------------------- case data

// Op is one read-only query.
//
//	loop / polygon:  cp ContainsPoint(P)   cc ContainsCell(Cell)   ic IntersectsCell(Cell)
//	                 con shared.Contains(other O)   int shared.Intersects(other O)
//	                 ocon other.Contains(shared)    oint other.Intersects(shared)
//	index:           pq ContainsPointQuery(model M).Contains(P)   ps ContainingShapes(P)
//	                 xe CrossingEdgeQuery.CrossingsEdgeMap(P,Q,type M)   xs Crossings(P,Q,shape O,type M)
//	                 ed closest EdgeQuery.Distance   ef FindEdges   el IsDistanceLess(D)
//	                 fd furthest EdgeQuery.Distance  rg Region().CellUnionBound()
//	all:             cells  full iteration over the (internal) index
type Op struct {
	K    string
	P, Q gen.P
	Cell uint64
	O    int     // other region / shape number
	M    int     // vertex model / crossing type
	N    int     // EdgeQuery MaxResults (0 = unlimited)
	I    bool    // EdgeQuery IncludeInteriors
	E    bool    // edge target (P,Q) instead of point target P
	T    int     // EdgeQuery target, when not 0: 1 = cell target (Cell), 2 = a private one-polyline index (P,Q) as target
	D    float64 // IsDistanceLess limit (chord angle)
}

// Worker is one goroutine: its queries, and (race mode) the delays injected at
// successive hook points: d>0 spins d*64 iterations, d<0 yields -d times.
type Worker struct {
	Ops     []Op
	Delays  []int
	Stagger int
}

// Case is a shared object, private second regions, the goroutines and (for
// controlled mode) the schedule.
type Case struct {
	Mode   string // free | ctl | exh
	Kind   string // loop | polygon | index
	Loop   gen.LoopCase
	Rings  [][]gen.P // polygon: nested rings, all CCW
	Shapes []gen.ShapeSpec
	// Others: private regions for the relation ops (each goroutine builds its
	// own copy): a vertex list for kind loop, nested rings for kind polygon.
	Others [][][]gen.P
	Init   string // stale | built | restale (index only: built, then more shapes added)
	G      []Worker
	Sched  []int
}

// ---------------------------------------------------------------- generators

func scaleOf(c s2.Point, v []gen.P) float64 {
	m := 0.0
	for _, p := range v {
		if a := float64(c.Distance(p.Pt())); a > m {
			m = a
		}
	}
	return m
}

// ringsAt draws k concentric regular-azimuth rings about c (outermost first),
// ring j in the radius band [0.8,1]*rout*0.7^j, n >= 8 vertices each, so that
// ring j+1 is strictly inside ring j (same construction as gen.DrawRings).
func ringsAt(t *rapid.T, label string, c s2.Point, k int, rout float64, maxN int) [][]gen.P {
	x := c.Ortho()
	y := c.Cross(x).Normalize()
	var out [][]gen.P
	for j := 0; j < k; j++ {
		n := rapid.IntRange(8, maxN).Draw(t, label+".n")
		hi := rout * math.Pow(0.7, float64(j))
		lo := hi * 0.8
		az0 := rapid.Float64Range(0, 2*math.Pi).Draw(t, label+".az0")
		var v []gen.P
		for i := 0; i < n; i++ {
			r := rapid.Float64Range(lo, hi).Draw(t, label+".r")
			az := az0 + float64(i)*2*math.Pi/float64(n)
			d := x.Mul(math.Cos(az)).Add(y.Mul(math.Sin(az)))
			v = append(v, gen.FromPt(s2.Point{Vector: c.Mul(math.Cos(r)).Add(d.Mul(math.Sin(r))).Normalize()}))
		}
		out = append(out, v)
	}
	return out
}

func flatten(c *Case) []gen.P {
	var v []gen.P
	switch c.Kind {
	case "loop":
		v = append(v, c.Loop.V...)
	case "polygon":
		for _, r := range c.Rings {
			v = append(v, r...)
		}
	default:
		for _, s := range c.Shapes {
			for _, l := range s.Loops {
				v = append(v, l...)
			}
		}
	}
	return v
}

func drawCell(t *rapid.T, label string, p s2.Point, scale float64) uint64 {
	// levels around the size of the geometry (where index cells live) and random ones
	lvl := rapid.IntRange(0, 30).Draw(t, label+".lvl")
	if rapid.IntRange(0, 2).Draw(t, label+".near") > 0 && scale > 0 {
		// cell edge ~ pi/2 * 2^-level
		l0 := int(math.Round(math.Log2(math.Pi / 2 / scale)))
		lvl = l0 + rapid.IntRange(0, 6).Draw(t, label+".dl")
		if lvl < 0 {
			lvl = 0
		}
		if lvl > 30 {
			lvl = 30
		}
	}
	return uint64(s2.CellFromPoint(p).ID().Parent(lvl))
}

func genOp(t *rapid.T, c *Case, verts []gen.P, scale float64) Op {
	pts := gen.ProbePoints(t, "q", verts, 2)
	o := Op{P: pts[0], Q: pts[1]}
	if c.Kind == "loop" || c.Kind == "polygon" {
		ks := []string{"cp", "cp", "cp", "cc", "cc", "ic", "ic", "cells"}
		if len(c.Others) > 0 {
			ks = append(ks, "con", "int", "ocon", "oint", "con", "int", "con", "int", "ocon")
		}
		o.K = rapid.SampledFrom(ks).Draw(t, "k")
		switch o.K {
		case "cc", "ic":
			o.Cell = drawCell(t, "cell", o.P.Pt(), scale)
		case "con", "int", "ocon", "oint":
			o.O = rapid.IntRange(0, len(c.Others)-1).Draw(t, "o")
		}
		return o
	}
	o.K = rapid.SampledFrom([]string{"pq", "pq", "ps", "xe", "xe", "xs", "ed", "ed", "ef", "el", "fd", "rg", "cells", "it"}).Draw(t, "k")
	switch o.K {
	case "it":
		o.M = rapid.IntRange(0, 2).Draw(t, "entry")
	case "pq", "ps":
		o.M = rapid.IntRange(0, 2).Draw(t, "model")
	case "xe", "xs":
		o.M = rapid.IntRange(0, 1).Draw(t, "ctype")
		o.O = rapid.IntRange(0, len(c.Shapes)-1).Draw(t, "shape")
	case "ed", "ef", "el", "fd":
		o.I = rapid.Bool().Draw(t, "interiors")
		o.E = rapid.IntRange(0, 3).Draw(t, "edgetarget") == 0
		o.N = rapid.SampledFrom([]int{1, 1, 2, 5, 0}).Draw(t, "maxresults")
		if o.K == "ed" || o.K == "fd" || o.K == "el" {
			o.N = 1
		}
		switch rapid.IntRange(0, 5).Draw(t, "tkind") {
		case 0:
			o.T, o.E = 1, false
			o.Cell = drawCell(t, "tcell", o.P.Pt(), scale)
		case 1, 2:
			o.T, o.E = 2, true // an index of the goroutine's own as target (needs a proper edge, like E)
		}
		if o.K == "el" {
			f := math.Exp(rapid.Float64Range(math.Log(0.01), math.Log(10)).Draw(t, "limf"))
			o.D = math.Min(4, float64(s1ChordFromAngle(scale*f)))
		}
	}
	return o
}

func genCase(mode string) func(t *rapid.T) Case {
	return func(t *rapid.T) Case {
		// rapid derives the seed of test i as base+i(i+1)/2, so shards whose base
		// seeds are close repeat each other's early cases (the driver now spaces
		// the bases far apart; this is kept as a second line of defence): shard k
		// first discards k draws and rotates the kind table by k.
		for i := 0; i < shardNo; i++ {
			rapid.Uint64().Draw(t, "shard-skip")
		}
		c := Case{Mode: mode}
		maxN := 160
		if ev.Thorough() && rapid.IntRange(0, 9).Draw(t, "big") == 0 {
			maxN = 1200
		}
		if mode == "exh" {
			maxN = 70
		}
		kinds := []string{"loop", "polygon", "index", "loop", "index", "polygon", "loop", "index"}
		c.Kind = kinds[(rapid.IntRange(0, len(kinds)-1).Draw(t, "kind")+shardNo)%len(kinds)]
		scale := 1.0
		switch c.Kind {
		case "loop":
			c.Loop = gen.Loop(t, "l", maxN)
			ctr := c.Loop.Inside.Pt()
			scale = scaleOf(ctr, c.Loop.V)
			for i, n := 0, rapid.SampledFrom([]int{0, 1, 1, 2, 2}).Draw(t, "nothers"); i < n; i++ {
				oc := ctr
				if rapid.Bool().Draw(t, "ov") {
					oc = c.Loop.V[rapid.IntRange(0, len(c.Loop.V)-1).Draw(t, "ovi")].Pt()
				}
				lim := math.Min(1.3, math.Max(1e-6, scale*rapid.SampledFrom([]float64{0.3, 1, 1, 2.5}).Draw(t, "of")))
				o := gen.StarLoopAt(t, "o", oc, 40, lim)
				c.Others = append(c.Others, [][]gen.P{o.V})
			}
		case "polygon":
			rp := gen.DrawRings(t, "p", 3, maxInt(8, maxN/2))
			if rapid.IntRange(0, 3).Draw(t, "manyrings") == 0 {
				// more than 12 loops: Polygon.Edge then goes through the
				// cumulative-edges search instead of the linear one
				rp = gen.DrawRings(t, "pm", 16, 10)
			}
			c.Rings = rp.Rings
			ctr := rp.Center.Pt()
			scale = scaleOf(ctr, rp.Rings[0])
			for i, n := 0, rapid.SampledFrom([]int{0, 1, 1, 2, 2}).Draw(t, "nothers"); i < n; i++ {
				oc := ctr
				if rapid.IntRange(0, 2).Draw(t, "ov") == 0 {
					oc = rp.Rings[0][rapid.IntRange(0, len(rp.Rings[0])-1).Draw(t, "ovi")].Pt()
				}
				rout := math.Min(1.2, math.Max(1e-6, scale*rapid.SampledFrom([]float64{0.3, 0.75, 1.2, 2.5}).Draw(t, "of")))
				c.Others = append(c.Others, ringsAt(t, "o", oc, rapid.IntRange(1, 2).Draw(t, "ok"), rout, 24))
			}
		default:
			c.Shapes = gen.ShapeSet(t, "s", 5, maxN)
			v := flatten(&c)
			scale = math.Min(1, scaleOf(v[0].Pt(), v)+1e-9)
		}
		verts := flatten(&c)
		inits := []string{"stale", "stale", "stale", "stale", "stale", "built"}
		if c.Kind == "index" && len(c.Shapes) >= 2 {
			inits = append(inits, "restale", "restale")
		}
		c.Init = rapid.SampledFrom(inits).Draw(t, "init")
		ng, maxOps := rapid.IntRange(2, 8).Draw(t, "ng"), 5
		switch mode {
		case "ctl":
			ng = rapid.IntRange(2, 4).Draw(t, "ngc")
		case "exh":
			ng, maxOps = 2, 2
			if c.Init == "built" {
				c.Init = "stale"
			}
		}
		for g := 0; g < ng; g++ {
			w := Worker{}
			for i, n := 0, rapid.IntRange(1, maxOps).Draw(t, "nops"); i < n; i++ {
				w.Ops = append(w.Ops, genOp(t, &c, verts, scale))
			}
			if mode == "free" {
				w.Stagger = rapid.SampledFrom([]int{0, 0, 0, 1, 10, 100, 1000, -1}).Draw(t, "stagger")
				for i := 0; i < 6; i++ {
					w.Delays = append(w.Delays, rapid.SampledFrom([]int{0, 0, 0, 0, 1, 4, 30, 300, 3000, -1, -3}).Draw(t, "delay"))
				}
			}
			c.G = append(c.G, w)
		}
		if mode == "ctl" {
			n := rapid.IntRange(0, 80).Draw(t, "nsched")
			for i := 0; i < n; i++ {
				c.Sched = append(c.Sched, rapid.SampledFrom([]int{0, 0, 0, 1, 1, 2, 3}).Draw(t, "s"))
			}
		}
		return c
	}
}

var shardNo = func() int {
	n, _ := strconv.Atoi(os.Getenv("VERIF_SHARD"))
	if n < 0 || n > 64 {
		n = 0
	}
	return n
}()

func maxInt(a, b int) int {
	if a > b {
		return a
	}
	return b
}

// ---------------------------------------------------------------- parent side

// caseTimeout: a case that has produced no result after this long is a hang.
// (The in-process runners give up after hangAfter without progress, long
// before this.)
const caseTimeout = 150 * time.Second

// The child is a persistent server: the same test binary, started once per
// parent process as `-test.run ^TestReplay$` on a bootstrap file whose case has
// Mode "server"; the Check function then reads one request per line from stdin,
// executes it in-process and answers with one "C14RESULT {...}" line on stdout.
// (Starting a -race binary per case costs a second of wall time under load.)
// After any failing outcome, a death or a timeout the child is discarded, so a
// case never runs next to goroutines leaked by an earlier one.

type request struct {
	Sub  string
	Case Case
}

type lockedBuf struct {
	mu sync.Mutex
	b  bytes.Buffer
}

func (l *lockedBuf) Write(p []byte) (int, error) {
	l.mu.Lock()
	defer l.mu.Unlock()
	if l.b.Len() < 1<<20 {
		l.b.Write(p)
	}
	return len(p), nil
}

func (l *lockedBuf) String() string {
	l.mu.Lock()
	defer l.mu.Unlock()
	return l.b.String()
}

type server struct {
	cmd   *exec.Cmd
	in    io.WriteCloser
	lines chan string // result lines; closed at EOF of the child's stdout
	text  *lockedBuf  // everything else the child printed (stdout and stderr)
	tmp   string
}

var srv *server

const resultPrefix = "C14RESULT "

func startServer() (*server, error) {
	d := os.Getenv("VERIF_OUT")
	if d == "" {
		d = os.TempDir()
	}
	os.MkdirAll(d, 0o755)
	tmp, err := os.MkdirTemp(d, "c14srv.")
	if err != nil {
		return nil, err
	}
	boot, _ := json.Marshal(map[string]any{"property": "C14", "sub": "race_free", "case": Case{Mode: "server"}})
	bootPath := filepath.Join(tmp, "boot.json")
	if err := os.WriteFile(bootPath, boot, 0o644); err != nil {
		return nil, err
	}
	exe, err := os.Executable()
	if err != nil {
		exe = os.Args[0]
	}
	cmd := exec.Command(exe, "-test.run", "^TestReplay$", "-test.timeout", "0")
	var env []string
	for _, e := range os.Environ() {
		if strings.HasPrefix(e, "VERIF_") || strings.HasPrefix(e, "GORACE=") || strings.HasPrefix(e, "GOTRACEBACK=") || strings.HasPrefix(e, "C14_") {
			continue
		}
		env = append(env, e)
	}
	cmd.Env = append(env, "VERIF_REPLAY="+bootPath, "VERIF_OUT="+tmp, "VERIF_TIER="+ev.Tier(), "C14_CHILD=server",
		"GORACE=halt_on_error=1 exitcode=66 atexit_sleep_ms=0", "GOTRACEBACK=all")
	s := &server{cmd: cmd, lines: make(chan string, 4), text: &lockedBuf{}, tmp: tmp}
	if s.in, err = cmd.StdinPipe(); err != nil {
		return nil, err
	}
	out, err := cmd.StdoutPipe()
	if err != nil {
		return nil, err
	}
	cmd.Stderr = s.text
	if err := cmd.Start(); err != nil {
		return nil, err
	}
	go func() {
		r := bufio.NewReaderSize(out, 1<<16)
		for {
			line, err := r.ReadString('\n')
			if strings.HasPrefix(line, resultPrefix) {
				s.lines <- strings.TrimSpace(line[len(resultPrefix):])
			} else if line != "" {
				s.text.Write([]byte(line))
			}
			if err != nil {
				close(s.lines)
				return
			}
		}
	}()
	return s, nil
}

// stop discards the child: SIGQUIT first when stacks are wanted (a hang).
func (s *server) stop(quit bool) (code int) {
	if quit {
		s.cmd.Process.Signal(syscall.SIGQUIT)
		t := time.AfterFunc(5*time.Second, func() { s.cmd.Process.Kill() })
		defer t.Stop()
	} else {
		s.in.Close()
		t := time.AfterFunc(3*time.Second, func() { s.cmd.Process.Kill() })
		defer t.Stop()
	}
	for range s.lines {
	}
	err := s.cmd.Wait()
	os.RemoveAll(s.tmp)
	if ee, ok := err.(*exec.ExitError); ok {
		return ee.ExitCode()
	}
	if err != nil {
		return -1
	}
	return 0
}

var inprocs = map[string]func(Case) ev.Outcome{}

// serve is the child's loop.
func serve() {
	in := bufio.NewReaderSize(os.Stdin, 1<<20)
	for {
		line, err := in.ReadBytes('\n')
		if len(bytes.TrimSpace(line)) > 0 {
			var rq request
			var o ev.Outcome
			if jerr := json.Unmarshal(line, &rq); jerr != nil || inprocs[rq.Sub] == nil {
				o = ev.Outcome{Err: fmt.Sprintf("harness: bad request (%v)", jerr), Finding: "harness"}
			} else {
				o = safely(inprocs[rq.Sub], rq.Case)
			}
			b, _ := json.Marshal(o)
			os.Stdout.Write(append(append([]byte(resultPrefix), b...), '\n'))
		}
		if err != nil {
			return
		}
	}
}

func safely(f func(Case) ev.Outcome, c Case) (o ev.Outcome) {
	defer func() {
		if r := recover(); r != nil {
			buf := make([]byte, 4096)
			buf = buf[:runtime.Stack(buf, false)]
			o = ev.Outcome{Err: fmt.Sprintf("panic in the scheduler goroutine: %v\n%s", r, buf), Finding: "panic", NonTrivial: true}
		}
	}()
	return f(c)
}

// viaChild wraps an in-process check so that the parent runs it in the child.
func viaChild(sub string, inproc func(Case) ev.Outcome) func(Case) ev.Outcome {
	inprocs[sub] = inproc
	return func(c Case) ev.Outcome {
		if os.Getenv("C14_CHILD") != "" {
			if c.Mode == "server" {
				serve()
				return ev.Outcome{}
			}
			return inproc(c)
		}
		if c.Mode == "server" {
			return ev.Outcome{Skip: true}
		}
		return remote(sub, c)
	}
}

func remote(sub string, c Case) ev.Outcome {
	if srv == nil {
		s, err := startServer()
		if err != nil {
			return ev.Outcome{Err: "harness: cannot start the child: " + err.Error(), Finding: "harness"}
		}
		srv = s
	}
	s := srv
	rq, _ := json.Marshal(request{Sub: sub, Case: c})
	if _, err := s.in.Write(append(rq, '\n')); err != nil {
		// the child died between cases (it should not): report with what it printed
		srv = nil
		code := s.stop(false)
		return ev.Outcome{Err: fmt.Sprintf("harness: child was dead before the case was sent (exit %d)\n%s", code, clip(s.text.String(), 3000)), Finding: "harness"}
	}
	timer := time.NewTimer(caseTimeout)
	defer timer.Stop()
	select {
	case line, ok := <-s.lines:
		if ok {
			var o ev.Outcome
			if err := json.Unmarshal([]byte(line), &o); err != nil {
				o = ev.Outcome{Err: "harness: bad result line: " + err.Error(), Finding: "harness"}
			}
			if o.Err != "" {
				srv = nil
				s.stop(false)
			}
			return o
		}
		// stdout closed without a result: the child died on this case
		srv = nil
		code := s.stop(false)
		return died(c, code, s.text.String(), false)
	case <-timer.C:
		srv = nil
		code := s.stop(true)
		return died(c, code, s.text.String(), true)
	}
}

// died turns a dead or wedged child into a failing outcome.
func died(c Case, code int, text string, timedOut bool) ev.Outcome {
	o := ev.Outcome{NonTrivial: true, Class: c.Kind + "/" + c.Init + "/child-died"}
	switch {
	case strings.Contains(text, "WARNING: DATA RACE"):
		rep := raceReport(text)
		o.Finding = classifyRace(rep)
		o.Err = fmt.Sprintf("data race reported by the race detector (child exit %d) [%s]\n%s\nhistory: %s", code, o.Finding, clip(rep, 3500), history(c))
	case timedOut:
		o.Finding = "hang"
		o.Err = fmt.Sprintf("no result within %v (hang)\n%s\nhistory: %s", caseTimeout, clip(text, 6000), history(c))
	case strings.Contains(text, "fatal error:"):
		i := strings.Index(text, "fatal error:")
		o.Finding = classifyFatal(text[i:])
		o.Err = fmt.Sprintf("child died with a runtime fatal error (exit %d) [%s]\n%s\nhistory: %s", code, o.Finding, clip(text[i:], 3000), history(c))
	default:
		o.Finding = "child-died"
		o.Err = fmt.Sprintf("child exit %d without a result\n%s\nhistory: %s", code, clip(text, 3000), history(c))
	}
	return o
}

func clip(s string, n int) string {
	if len(s) > n {
		return s[:n] + "…"
	}
	return s
}

// raceReport cuts the first report out of the child's output.
func raceReport(text string) string {
	i := strings.Index(text, "WARNING: DATA RACE")
	rep := text[i:]
	if j := strings.Index(rep, "=================="); j > 0 {
		rep = rep[:j]
	}
	return rep
}

var accessRe = regexp.MustCompile(`(?m)^(Write|Read|Previous write|Previous read|Atomic|Previous atomic)[^\n]* by [^\n]*:\n((?:  [^\n]*\n)+)`)

// classifyRace gives a race report a narrow label from the two access stacks:
// which side is the index builder (applyUpdatesInternal on the stack) and how
// the other side reached the index.
func classifyRace(rep string) string {
	m := accessRe.FindAllStringSubmatch(rep, -1)
	if len(m) < 2 {
		return "race-unparsed"
	}
	a, b := m[0][2], m[1][2]
	ba, bb := strings.Contains(a, "applyUpdatesInternal"), strings.Contains(b, "applyUpdatesInternal")
	switch {
	case ba && bb:
		return "race-two-builders"
	case ba || bb:
		reader := a
		if ba {
			reader = b
		}
		if strings.Contains(reader, "(*EdgeQuery).initQueue") && !strings.Contains(reader, "initCovering") {
			return "race-edgequery-unbuilt-iterator"
		}
		return "race-rebuild-vs-reader"
	case strings.Contains(a, "maybeApplyUpdates") || strings.Contains(b, "maybeApplyUpdates") || strings.Contains(rep, "IsFresh"):
		return "race-status-word"
	}
	return "race-other"
}

// classifyFatal labels a runtime "fatal error" (the Go runtime's own detection
// of concurrent map access aborts the process) by the same mechanism classes as
// a race report: the goroutine that threw is the first one printed.
func classifyFatal(rest string) string {
	if !strings.Contains(rest, "concurrent map") {
		return "fatal-error"
	}
	first := rest
	if j := strings.Index(rest, "\ngoroutine "); j >= 0 {
		first = rest[j+1:]
		if k := strings.Index(first, "\n\n"); k >= 0 {
			first = first[:k]
		}
	}
	others := strings.Replace(rest, first, "", 1)
	switch {
	case strings.Contains(first, "applyUpdatesInternal") && strings.Contains(others, "applyUpdatesInternal"):
		return "race-two-builders"
	case strings.Contains(first, "applyUpdatesInternal") || !strings.Contains(others, "applyUpdatesInternal"):
		return "fatal-concurrent-map"
	case strings.Contains(first, "(*EdgeQuery).initQueue") && !strings.Contains(first, "initCovering"):
		return "race-edgequery-unbuilt-iterator"
	}
	return "race-rebuild-vs-reader"
}

func history(c Case) string {
	var sb strings.Builder
	fmt.Fprintf(&sb, "%s/%s/%s", c.Mode, c.Kind, c.Init)
	for g, w := range c.G {
		fmt.Fprintf(&sb, " g%d[", g)
		for i, o := range w.Ops {
			if i > 0 {
				sb.WriteByte(' ')
			}
			sb.WriteString(o.K)
		}
		sb.WriteByte(']')
	}
	return clip(sb.String(), 600)
}

func init() {
	ev.Define("race_free", ev.Options{
		Rule: "shared Loop / Polygon (nested rings) / ShapeIndex (1-5 mixed shapes), index not built, built (1/6..1/8), or (ShapeIndex) built and then extended so that the queries trigger a rebuild; 2-8 goroutines x 1-5 drawn read-only queries with private query objects, " +
			"released by one barrier, drawn spin/yield delays at the hook points, 3 repetitions in a -race child process; non-trivial when at least 2 goroutines found the index stale (reached index.beforeLock) in one repetition, or the child was killed by a race report",
		Quick: 600, Thorough: 12000, Journal: true,
	}, genCase("free"), viaChild("race_free", checkInProc))
	ev.Define("ctl_sampled", ev.Options{
		Rule: "same objects and queries, 2-4 goroutines serialised by a token scheduler installed through VerifHook (one goroutine runs between two hook points; a goroutine blocked on the index mutex is recognised by its wait state and another one is released); " +
			"schedule drawn by rapid (0-80 choices, then run-to-completion); non-trivial when 2 goroutines found the index stale or a goroutine passed index.beforeStatusCheck while another was between lock and unlock",
		Quick: 480, Thorough: 16000, Journal: true,
	}, genCase("ctl"), viaChild("ctl_sampled", checkInProc))
	ev.Define("ctl_exhaustive", ev.Options{
		Rule:  "2 goroutines x 1-2 queries on a stale object (<= 70 vertices): ALL schedules over the hook points (status check, lock, mid-build before faces 0 and 3, status store, unlock) are executed by depth-first enumeration (cap 500 schedules or 8 s quick / 2500 or 20 s thorough per case; Counts report exhausted vs capped); non-trivial when some schedule had both goroutines find the index stale",
		Quick: 64, Thorough: 400, Journal: true,
	}, genCase("exh"), viaChild("ctl_exhaustive", checkInProc))
}
