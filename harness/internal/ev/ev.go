// Package ev is the small framework every property package is written against.
//
// A property package defines sub-checks with Define: a rapid generator that
// draws a plain-data Case, and a pure Check(Case) Outcome. ev runs them under
// rapid (RunAll), counts evidence (evaluations, distinct non-trivial cases,
// class histogram, worst observed error ratios, samples), writes the shrunk
// failing Case as a replay file, classifies failures against the known-finding
// classes handed in by the driver, and replays stored Cases without rapid
// (ReplayFromEnv).
//
// Environment (set by /verif/check):
//
//	VERIF_TIER      quick|thorough
//	VERIF_SHARD     k      shard number (0-based)
//	VERIF_SHARDS    S      number of shards; per-sub case counts are divided by S
//	VERIF_SCALE     f      float multiplier on case counts (default 1)
//	VERIF_OUT       dir    directory for fragment, journal and replay files
//	VERIF_KNOWN     a,b    known-finding classes that are tolerated (counted, not failed)
//	VERIF_REPLAY    path   replay file for TestReplay
//	VERIF_ONLY      regexp only run sub-checks whose name matches
package ev

import (
	"encoding/json"
	"flag"
	"fmt"
	"hash/fnv"
	"os"
	"path/filepath"
	"regexp"
	"runtime/debug"
	"sort"
	"strconv"
	"strings"
	"sync"
	"testing"

	"pgregory.net/rapid"
)

// Outcome is what a Check returns for one Case.
type Outcome struct {
	// Err non-empty means the property is violated on this case.
	Err string
	// Finding is a narrow class label computed from the Case for a failing
	// outcome; if it is listed in VERIF_KNOWN the failure is counted as a
	// known finding and the run continues.
	Finding string
	// Class is a label for the class histogram (which path/stage/shape).
	Class string
	// NonTrivial reports whether the case meets the sub-check's stated rule.
	NonTrivial bool
	// Ratios are observed error/bound ratios (the maximum per key is kept).
	Ratios map[string]float64
	// Skip marks a case outside the sub-check's domain (counted as discarded).
	Skip bool
	// Extra counters (summed).
	Counts map[string]int
}

// OK is the passing, trivial outcome.
func OK() Outcome { return Outcome{} }

// Failf builds a failing outcome.
func Failf(format string, a ...any) Outcome { return Outcome{Err: fmt.Sprintf(format, a...)} }

type subDef struct {
	name     string
	rule     string
	quick    int
	thorough int
	journal  bool
	run      func(t *testing.T, checks int)
	replay   func(raw json.RawMessage) Outcome
}

var (
	registry []*subDef
	propID   string
)

type subStats struct {
	Evaluations   int                `json:"evaluations"`
	Discarded     int                `json:"discarded"`
	NonTrivial    int                `json:"nontrivial"`
	FPs           []uint64           `json:"fps"`
	FPCapped      bool               `json:"fp_capped"`
	Classes       map[string]int     `json:"classes"`
	Ratios        map[string]float64 `json:"ratios"`
	Counts        map[string]int     `json:"counts"`
	Samples       []json.RawMessage  `json:"samples"`
	KnownExcluded map[string]int     `json:"known_excluded"`
	Rule          string             `json:"rule"`
	Requested     int                `json:"requested"`
	Failed        bool               `json:"failed"`
	FailMsg       string             `json:"fail_msg,omitempty"`
	ReplayFile    string             `json:"replay_file,omitempty"`

	fpset map[uint64]struct{}
}

var (
	mu    sync.Mutex
	stats = map[string]*subStats{}
)

const fpCap = 200000

func getStats(name string) *subStats {
	s := stats[name]
	if s == nil {
		s = &subStats{Classes: map[string]int{}, Ratios: map[string]float64{}, Counts: map[string]int{},
			KnownExcluded: map[string]int{}, fpset: map[uint64]struct{}{}}
		stats[name] = s
	}
	return s
}

// Options for Define.
type Options struct {
	// Rule states how cases are generated and what makes one non-trivial.
	Rule string
	// Quick and Thorough are the total case counts per tier (over all shards).
	Quick, Thorough int
	// Journal writes each case to disk before checking it, so that a hang or
	// process abort can be attributed to an input.
	Journal bool
}

func envInt(k string, d int) int {
	if v, err := strconv.Atoi(os.Getenv(k)); err == nil {
		return v
	}
	return d
}

func outDir() string {
	d := os.Getenv("VERIF_OUT")
	if d == "" {
		d = os.TempDir()
	}
	return d
}

func shard() int { return envInt("VERIF_SHARD", 0) }

// Tier returns "quick" or "thorough".
func Tier() string {
	if os.Getenv("VERIF_TIER") == "thorough" {
		return "thorough"
	}
	return "quick"
}

// Thorough reports whether the thorough tier is running.
func Thorough() bool { return Tier() == "thorough" }

func knownClasses() map[string]bool {
	m := map[string]bool{}
	for _, c := range strings.Split(os.Getenv("VERIF_KNOWN"), ",") {
		if c = strings.TrimSpace(c); c != "" {
			m[c] = true
		}
	}
	return m
}

type replayFile struct {
	Property string          `json:"property"`
	Sub      string          `json:"sub"`
	Message  string          `json:"message"`
	Finding  string          `json:"finding,omitempty"`
	Case     json.RawMessage `json:"case"`
}

func fingerprint(b []byte) uint64 {
	h := fnv.New64a()
	h.Write(b)
	return h.Sum64()
}

// safeCheck runs check under recover so that a panic in the code under test is
// an ordinary failing outcome (with the case attached) rather than a lost input.
func safeCheck[C any](check func(C) Outcome, c C) (o Outcome) {
	defer func() {
		if r := recover(); r != nil {
			st := string(debug.Stack())
			if len(st) > 3000 {
				st = st[:3000]
			}
			if o.Finding == "" {
				o.Finding = "panic"
			}
			o.Err = fmt.Sprintf("panic: %v\n%s", r, st)
		}
	}()
	return check(c)
}

// drawCase runs the generator. A panic inside a generator that is not one of
// rapid's own control-flow panics is a bug of the harness, not of the code
// under test: it is recorded in a marker file so that the driver reports the
// run as inconclusive instead of attributing a dead worker to the last
// journaled case.
func drawCase[C any](gen func(*rapid.T) C, rt *rapid.T, name string) C {
	defer func() {
		if r := recover(); r != nil {
			if ty := fmt.Sprintf("%T", r); !strings.Contains(ty, "rapid.") {
				msg := fmt.Sprintf("sub=%s generator panic: %v\n%s", name, r, debug.Stack())
				os.WriteFile(filepath.Join(outDir(), fmt.Sprintf("harness-panic.%d.txt", shard())), []byte(msg), 0o644)
			}
			panic(r)
		}
	}()
	return gen(rt)
}

// PanicFinding lets a Check pre-declare the finding class to use if the code
// under test panics on this case (by default the class is "panic").
// Usage inside a Check:  defer ev.PanicClass(&o, "zero-vertex-loop")
// where o is the named result.  Rarely needed.

// Define registers one sub-check of the package's property.
func Define[C any](name string, opt Options, gen func(*rapid.T) C, check func(C) Outcome) {
	d := &subDef{name: name, rule: opt.Rule, quick: opt.Quick, thorough: opt.Thorough, journal: opt.Journal}
	known := knownClasses()
	d.run = func(t *testing.T, checks int) {
		mu.Lock()
		st := getStats(name)
		st.Rule = opt.Rule
		st.Requested = checks
		mu.Unlock()
		jpath := filepath.Join(outDir(), fmt.Sprintf("journal.%d.json", shard()))
		flag.Set("rapid.checks", strconv.Itoa(checks))
		rapid.Check(t, func(rt *rapid.T) {
			c := drawCase(gen, rt, name)
			raw, err := json.Marshal(c)
			if err != nil {
				rt.Fatalf("harness: case does not marshal: %v", err)
			}
			if opt.Journal {
				jb, _ := json.Marshal(replayFile{Property: propID, Sub: name, Message: "journaled before check (process died or hung)", Case: raw})
				os.WriteFile(jpath, jb, 0o644)
			}
			o := safeCheck(check, c)
			mu.Lock()
			if o.Skip {
				st.Discarded++
				mu.Unlock()
				return
			}
			st.Evaluations++
			if o.Class != "" {
				st.Classes[o.Class]++
			}
			for k, v := range o.Ratios {
				if v > st.Ratios[k] {
					st.Ratios[k] = v
				}
			}
			for k, v := range o.Counts {
				st.Counts[k] += v
			}
			if o.NonTrivial {
				st.NonTrivial++
				fp := fingerprint(raw)
				if _, seen := st.fpset[fp]; !seen {
					if len(st.fpset) < fpCap {
						st.fpset[fp] = struct{}{}
						if len(st.Samples) < 3 {
							s := raw
							if len(s) > 3000 {
								s, _ = json.Marshal(string(raw[:3000]) + "…(truncated)")
							}
							st.Samples = append(st.Samples, s)
						}
					} else {
						st.FPCapped = true
					}
				}
			}
			mu.Unlock()
			if o.Err == "" {
				return
			}
			if o.Finding != "" && known[o.Finding] {
				mu.Lock()
				st.KnownExcluded[o.Finding]++
				mu.Unlock()
				return
			}
			// Failure: (over)write the replay file; the last write is rapid's
			// final run of the minimal case.
			rp := filepath.Join(outDir(), fmt.Sprintf("fail.%s.%s.shard%d.json", propID, name, shard()))
			rb, _ := json.MarshalIndent(replayFile{Property: propID, Sub: name, Message: o.Err, Finding: o.Finding, Case: raw}, "", " ")
			os.WriteFile(rp, rb, 0o644)
			mu.Lock()
			st.Failed = true
			st.FailMsg = o.Err
			st.ReplayFile = rp
			mu.Unlock()
			rt.Fatalf("VERIF-FAIL sub=%s finding=%q: %s", name, o.Finding, o.Err)
		})
	}
	d.replay = func(raw json.RawMessage) Outcome {
		var c C
		if err := json.Unmarshal(raw, &c); err != nil {
			return Outcome{Err: "harness: cannot decode case: " + err.Error(), Finding: "harness"}
		}
		return safeCheck(check, c)
	}
	registry = append(registry, d)
}

// RunAll runs every registered sub-check as a sub-test.
func RunAll(t *testing.T) {
	shards := envInt("VERIF_SHARDS", 1)
	scale := 1.0
	if v, err := strconv.ParseFloat(os.Getenv("VERIF_SCALE"), 64); err == nil && v > 0 {
		scale = v
	}
	var only *regexp.Regexp
	if p := os.Getenv("VERIF_ONLY"); p != "" {
		only = regexp.MustCompile(p)
	}
	for _, d := range registry {
		d := d
		if only != nil && !only.MatchString(d.name) {
			continue
		}
		n := d.quick
		if Thorough() {
			n = d.thorough
		}
		n = int(float64(n)*scale) / shards
		if n < 1 {
			n = 1
		}
		t.Run(d.name, func(t *testing.T) { d.run(t, n) })
	}
}

// Replay runs the stored case in VERIF_REPLAY through its Check without rapid.
func Replay(t *testing.T) {
	p := os.Getenv("VERIF_REPLAY")
	if p == "" {
		t.Skip("VERIF_REPLAY not set")
	}
	b, err := os.ReadFile(p)
	if err != nil {
		t.Fatalf("harness: %v", err)
	}
	var rf replayFile
	if err := json.Unmarshal(b, &rf); err != nil {
		t.Fatalf("harness: %v", err)
	}
	for _, d := range registry {
		if d.name == rf.Sub {
			o := d.replay(rf.Case)
			if o.Err != "" && o.Finding != "" && knownClasses()[o.Finding] {
				// a listed finding (the driver passes their classes when it replays
				// regression cases; a known finding's own witness is replayed without)
				fmt.Printf("REPLAY-KNOWN sub=%s finding=%q\n", rf.Sub, o.Finding)
				return
			}
			if o.Err != "" {
				fmt.Printf("REPLAY-FAIL sub=%s finding=%q: %s\n", rf.Sub, o.Finding, o.Err)
				t.Fatalf("replay fails: %s", o.Err)
			}
			fmt.Printf("REPLAY-PASS sub=%s\n", rf.Sub)
			return
		}
	}
	t.Fatalf("harness: no sub-check %q in this package", rf.Sub)
}

// Main is the TestMain body: runs the tests and writes the evidence fragment.
func Main(m *testing.M, property string) {
	propID = property
	flag.Parse()
	code := m.Run()
	mu.Lock()
	for _, s := range stats {
		s.FPs = make([]uint64, 0, len(s.fpset))
		for fp := range s.fpset {
			s.FPs = append(s.FPs, fp)
		}
		sort.Slice(s.FPs, func(i, j int) bool { return s.FPs[i] < s.FPs[j] })
	}
	if len(stats) > 0 {
		b, _ := json.Marshal(map[string]any{"property": property, "shard": shard(), "subs": stats})
		os.WriteFile(filepath.Join(outDir(), fmt.Sprintf("frag.%d.json", shard())), b, 0o644)
	}
	mu.Unlock()
	os.Exit(code)
}
