// Package gen holds the rapid generators shared by the property packages.
// Every random choice is a rapid draw, so cases shrink and replay.
package gen

import (
	"math"

	"github.com/golang/geo/r3"
	"github.com/golang/geo/s1"
	"github.com/golang/geo/s2"
	"pgregory.net/rapid"
)

// P is the plain-data form of a point used in Cases (JSON round-trips float64 exactly).
type P [3]float64

// Pt converts to an s2.Point.
func (p P) Pt() s2.Point { return s2.Point{Vector: r3.Vector{X: p[0], Y: p[1], Z: p[2]}} }

// FromPt converts from an s2.Point.
func FromPt(p s2.Point) P { return P{p.X, p.Y, p.Z} }

// Pts converts a slice.
func Pts(ps []P) []s2.Point {
	out := make([]s2.Point, len(ps))
	for i, p := range ps {
		out[i] = p.Pt()
	}
	return out
}

// FromPts converts a slice.
func FromPts(ps []s2.Point) []P {
	out := make([]P, len(ps))
	for i, p := range ps {
		out[i] = FromPt(p)
	}
	return out
}

// Unit reports whether p is unit length in the strict sense the predicates'
// error analysis assumes (|p|² within 4ε of 1; C++ IsUnitLength allows 5ε).
func Unit(p s2.Point) bool {
	n := p.Norm2()
	return math.Abs(n-1) <= 4*0x1p-52
}

// Fix returns p if it is a finite strictly-unit point, a renormalised p if
// that is one, and otherwise the fallback.
func Fix(p, fallback s2.Point) s2.Point {
	for i := 0; i < 3; i++ {
		n := p.Norm2()
		if math.IsNaN(n) || math.IsInf(n, 0) || n == 0 {
			return fallback
		}
		if Unit(p) {
			return p
		}
		p = s2.Point{Vector: p.Normalize()}
	}
	return fallback
}

var xAxis = s2.Point{Vector: r3.Vector{X: 1}}

func norm(x, y, z float64) s2.Point {
	v := r3.Vector{X: x, Y: y, Z: z}
	if v.Norm2() == 0 || math.IsInf(v.Norm2(), 0) || math.IsNaN(v.Norm2()) {
		return s2.Point{Vector: r3.Vector{X: 1}}
	}
	// scale first to avoid under/overflow of Norm2 for tiny components
	m := math.Max(math.Abs(x), math.Max(math.Abs(y), math.Abs(z)))
	v = v.Mul(1 / m)
	return s2.Point{Vector: v.Normalize()}
}

// Uniform draws a uniformly distributed unit point (P1).
func Uniform(t *rapid.T, label string) s2.Point {
	return Fix(uniform0(t, label), xAxis)
}

func uniform0(t *rapid.T, label string) s2.Point {
	z := rapid.Float64Range(-1, 1).Draw(t, label+".z")
	th := rapid.Float64Range(-math.Pi, math.Pi).Draw(t, label+".th")
	r := math.Sqrt(math.Max(0, 1-z*z))
	return norm(r*math.Cos(th), r*math.Sin(th), z)
}

// Symmetric draws one of the 26 cube-symmetric directions (P2).
func Symmetric(t *rapid.T, label string) s2.Point {
	return Fix(symmetric0(t, label), xAxis)
}

func symmetric0(t *rapid.T, label string) s2.Point {
	for {
		x := rapid.IntRange(-1, 1).Draw(t, label+".sx")
		y := rapid.IntRange(-1, 1).Draw(t, label+".sy")
		z := rapid.IntRange(-1, 1).Draw(t, label+".sz")
		if x == 0 && y == 0 && z == 0 {
			z = 1
		}
		return norm(float64(x), float64(y), float64(z))
	}
}

// Spread draws a point with one dominant coordinate and the others ±2^-k,
// k in [1,1074], or zero (P3): huge exponent spread, denormals.
func Spread(t *rapid.T, label string) s2.Point {
	return Fix(spread0(t, label), xAxis)
}

func spread0(t *rapid.T, label string) s2.Point {
	c := [3]float64{}
	dom := rapid.IntRange(0, 2).Draw(t, label+".dom")
	for i := 0; i < 3; i++ {
		if i == dom {
			c[i] = float64(rapid.SampledFrom([]int{-1, 1}).Draw(t, label+".ds"))
			continue
		}
		k := rapid.IntRange(0, 1074).Draw(t, label+".k")
		if k == 0 {
			c[i] = 0
			continue
		}
		s := float64(rapid.SampledFrom([]int{-1, 1}).Draw(t, label+".s"))
		c[i] = s * math.Ldexp(1, -k)
	}
	// Do not normalize through norm(): (1, 2^-600, 0) already has length 1 in
	// float64; normalising would keep it.  For larger components normalise.
	v := r3.Vector{X: c[0], Y: c[1], Z: c[2]}
	if v.Norm2() != 1 {
		v = v.Normalize()
	}
	return s2.Point{Vector: v}
}

// CellDerived draws a point from the cell structure (P4): a cell centre, a
// cell vertex, or a point whose u or v lies exactly on a cell boundary.
func CellDerived(t *rapid.T, label string) s2.Point {
	return Fix(cellDerived0(t, label), xAxis)
}

func cellDerived0(t *rapid.T, label string) s2.Point {
	id := CellID(t, label+".cell")
	switch rapid.IntRange(0, 3).Draw(t, label+".kind") {
	case 0:
		return id.Point()
	case 1:
		return s2.CellFromCellID(id).Vertex(rapid.IntRange(0, 3).Draw(t, label+".vk"))
	case 2:
		// on an edge of the cell: interpolate between two vertices
		c := s2.CellFromCellID(id)
		k := rapid.IntRange(0, 3).Draw(t, label+".ek")
		f := rapid.Float64Range(0, 1).Draw(t, label+".ef")
		return s2.Interpolate(f, c.Vertex(k), c.Vertex((k+1)%4))
	default:
		// exact boundary in uv: u fixed at the cell's boundary, v free
		c := s2.CellFromCellID(id)
		b := c.BoundUV()
		u := rapid.SampledFrom([]float64{b.X.Lo, b.X.Hi}).Draw(t, label+".bu")
		v := rapid.Float64Range(b.Y.Lo, b.Y.Hi).Draw(t, label+".bv")
		if rapid.Bool().Draw(t, label+".swap") {
			u = rapid.Float64Range(b.X.Lo, b.X.Hi).Draw(t, label+".bu2")
			v = rapid.SampledFrom([]float64{b.Y.Lo, b.Y.Hi}).Draw(t, label+".bv2")
		}
		return s2.Point{Vector: FaceUVToXYZ(int(id.Face()), u, v).Normalize()}
	}
}

// FaceUVToXYZ is the published cube-face map (written here separately from s2).
func FaceUVToXYZ(face int, u, v float64) r3.Vector {
	switch face {
	case 0:
		return r3.Vector{X: 1, Y: u, Z: v}
	case 1:
		return r3.Vector{X: -u, Y: 1, Z: v}
	case 2:
		return r3.Vector{X: -u, Y: -v, Z: 1}
	case 3:
		return r3.Vector{X: -1, Y: -v, Z: -u}
	case 4:
		return r3.Vector{X: v, Y: -1, Z: -u}
	default:
		return r3.Vector{X: v, Y: u, Z: -1}
	}
}

// CellID draws a valid cell id: uniform over (face, level, position) or
// path-biased (all-0, all-3, alternating child positions → cells hugging face
// edges and cube corners).
func CellID(t *rapid.T, label string) s2.CellID {
	face := rapid.IntRange(0, 5).Draw(t, label+".face")
	level := rapid.IntRange(0, 30).Draw(t, label+".level")
	return CellIDAt(t, label, face, level)
}

// CellIDAt draws a cell id of the given face and level.
func CellIDAt(t *rapid.T, label string, face, level int) s2.CellID {
	id := s2.CellIDFromFace(face)
	mode := rapid.IntRange(0, 5).Draw(t, label+".mode")
	if mode <= 1 {
		pos := rapid.Uint64().Draw(t, label+".pos")
		return s2.CellIDFromFacePosLevel(face, pos&((1<<61)-1), level)
	}
	a := rapid.IntRange(0, 3).Draw(t, label+".pa")
	b := rapid.IntRange(0, 3).Draw(t, label+".pb")
	noise := rapid.IntRange(0, 30).Draw(t, label+".noise")
	for l := 0; l < level; l++ {
		k := a
		if mode >= 3 && l%2 == 1 {
			k = b
		}
		if mode == 5 && l == noise {
			k = (k + 1) % 4
		}
		id = id.Children()[k]
	}
	return id
}

// Ulps moves x by n units in the last place.
func Ulps(x float64, n int) float64 {
	for ; n > 0; n-- {
		x = math.Nextafter(x, math.Inf(1))
	}
	for ; n < 0; n++ {
		x = math.Nextafter(x, math.Inf(-1))
	}
	return x
}

// Perturb applies per-coordinate nextafter perturbations of up to ±maxUlps (P5).
func Perturb(t *rapid.T, label string, p s2.Point, maxUlps int) s2.Point {
	q := perturb0(t, label, p, maxUlps)
	if Unit(q) {
		return q
	}
	return p
}

func perturb0(t *rapid.T, label string, p s2.Point, maxUlps int) s2.Point {
	return s2.Point{Vector: r3.Vector{
		X: Ulps(p.X, rapid.IntRange(-maxUlps, maxUlps).Draw(t, label+".ux")),
		Y: Ulps(p.Y, rapid.IntRange(-maxUlps, maxUlps).Draw(t, label+".uy")),
		Z: Ulps(p.Z, rapid.IntRange(-maxUlps, maxUlps).Draw(t, label+".uz")),
	}}
}

// TinyAngle draws an angle log-uniformly in [1e-300, 1e-1] (or up to maxExp10).
func TinyAngle(t *rapid.T, label string) float64 {
	e := rapid.Float64Range(-300, -1).Draw(t, label+".e10")
	return math.Pow(10, e)
}

// Base draws a point from P1–P4 (mixed).
func Base(t *rapid.T, label string) s2.Point {
	switch rapid.IntRange(0, 9).Draw(t, label+".src") {
	case 0, 1, 2:
		return Uniform(t, label)
	case 3, 4:
		return Symmetric(t, label)
	case 5:
		return Spread(t, label)
	case 6:
		return PlanePoint(t, label)
	default:
		return CellDerived(t, label)
	}
}

// PlanePoint draws a point that stays exactly in one of the planes x=0, y=0,
// z=0, x=±y, y=±z, x=±z through normalisation (families of exactly coplanar points).
func PlanePoint(t *rapid.T, label string) s2.Point {
	return Fix(planePoint0(t, label), xAxis)
}

func planePoint0(t *rapid.T, label string) s2.Point {
	a := rapid.Float64Range(-1, 1).Draw(t, label+".pa")
	b := rapid.Float64Range(-1, 1).Draw(t, label+".pb")
	if a == 0 && b == 0 {
		a = 1
	}
	var v r3.Vector
	switch rapid.IntRange(0, 8).Draw(t, label+".plane") {
	case 0:
		v = r3.Vector{X: 0, Y: a, Z: b}
	case 1:
		v = r3.Vector{X: a, Y: 0, Z: b}
	case 2:
		v = r3.Vector{X: a, Y: b, Z: 0}
	case 3:
		v = r3.Vector{X: a, Y: a, Z: b}
	case 4:
		v = r3.Vector{X: a, Y: -a, Z: b}
	case 5:
		v = r3.Vector{X: b, Y: a, Z: a}
	case 6:
		v = r3.Vector{X: b, Y: a, Z: -a}
	case 7:
		v = r3.Vector{X: a, Y: b, Z: a}
	default:
		v = r3.Vector{X: a, Y: b, Z: -a}
	}
	// Normalize multiplies all coordinates by the same factor, so equal
	// coordinates stay equal and zeros stay zero: the point stays in its plane.
	return s2.Point{Vector: v.Normalize()}
}

// Related draws a point constructed from earlier points (P6): duplicate, same
// direction with different length, near-duplicate, antipode, near-antipode,
// on the great circle through two of them (approximately), or an ulp perturbation.
func Related(t *rapid.T, label string, prev []s2.Point) s2.Point {
	if len(prev) == 0 {
		return Base(t, label)
	}
	return Fix(related0(t, label, prev), prev[0])
}

func related0(t *rapid.T, label string, prev []s2.Point) s2.Point {
	if len(prev) == 0 {
		return Base(t, label)
	}
	p := prev[rapid.IntRange(0, len(prev)-1).Draw(t, label+".ri")]
	switch rapid.IntRange(0, 8).Draw(t, label+".rel") {
	case 0:
		return p
	case 1:
		f := rapid.SampledFrom([]float64{1 + 0x1p-52, 1 - 0x1p-53, 1 + 0x1p-51, 1 - 0x1p-52}).Draw(t, label+".len")
		return s2.Point{Vector: p.Mul(f)}
	case 2:
		// near-duplicate at separation 1e-300…1e-1
		d := TinyAngle(t, label)
		o := s2.Point{Vector: p.Ortho()}
		o2 := s2.Point{Vector: p.Cross(o.Vector).Normalize()}
		th := rapid.Float64Range(0, 2*math.Pi).Draw(t, label+".dir")
		dir := o.Mul(math.Cos(th)).Add(o2.Mul(math.Sin(th)))
		return s2.Point{Vector: p.Add(dir.Mul(d)).Normalize()}
	case 3:
		return s2.Point{Vector: p.Mul(-1)}
	case 4:
		d := TinyAngle(t, label)
		o := s2.Point{Vector: p.Ortho()}
		return s2.Point{Vector: p.Mul(-1).Add(o.Mul(d)).Normalize()}
	case 5, 6:
		q := prev[rapid.IntRange(0, len(prev)-1).Draw(t, label+".rj")]
		if q == p || q.Vector == p.Mul(-1) {
			return Perturb(t, label, p, 2)
		}
		f := rapid.Float64Range(-1, 2).Draw(t, label+".frac")
		x := s2.Interpolate(f, p, q)
		if rapid.Bool().Draw(t, label+".noise") {
			x = Perturb(t, label, x, 3)
		}
		return x
	case 7:
		return Perturb(t, label, p, 4)
	default:
		return Base(t, label)
	}
}

// Tuple draws n points, the first from Base and later ones mostly related to
// earlier ones, so degenerate configurations are frequent.
func Tuple(t *rapid.T, label string, n int) []s2.Point {
	ps := make([]s2.Point, 0, n)
	for i := 0; i < n; i++ {
		l := label + "." + string(rune('a'+i))
		if i == 0 || rapid.IntRange(0, 3).Draw(t, l+".fresh") == 0 {
			ps = append(ps, Base(t, l))
		} else {
			ps = append(ps, Related(t, l, ps))
		}
	}
	return ps
}

// CoplanarTuple draws n points all exactly in one plane through the origin.
func CoplanarTuple(t *rapid.T, label string, n int) []s2.Point {
	plane := rapid.IntRange(0, 8).Draw(t, label+".plane")
	ps := make([]s2.Point, 0, n)
	for i := 0; i < n; i++ {
		l := label + "." + string(rune('a'+i))
		a := rapid.Float64Range(-1, 1).Draw(t, l+".pa")
		b := rapid.Float64Range(-1, 1).Draw(t, l+".pb")
		if rapid.IntRange(0, 4).Draw(t, l+".snap") == 0 {
			a = math.Round(a*4) / 4
			b = math.Round(b*4) / 4
		}
		if a == 0 && b == 0 {
			a = 1
		}
		var v r3.Vector
		switch plane {
		case 0:
			v = r3.Vector{X: 0, Y: a, Z: b}
		case 1:
			v = r3.Vector{X: a, Y: 0, Z: b}
		case 2:
			v = r3.Vector{X: a, Y: b, Z: 0}
		case 3:
			v = r3.Vector{X: a, Y: a, Z: b}
		case 4:
			v = r3.Vector{X: a, Y: -a, Z: b}
		case 5:
			v = r3.Vector{X: b, Y: a, Z: a}
		case 6:
			v = r3.Vector{X: b, Y: a, Z: -a}
		case 7:
			v = r3.Vector{X: a, Y: b, Z: a}
		default:
			v = r3.Vector{X: a, Y: b, Z: -a}
		}
		ps = append(ps, Fix(s2.Point{Vector: v.Normalize()}, xAxis))
	}
	return ps
}

// Angle helper.
func Deg(d float64) s1.Angle { return s1.Angle(d) * s1.Degree }
