package gen

import (
	"math"

	"github.com/golang/geo/s2"
	"pgregory.net/rapid"

	"verifharness/internal/exact"
)

// HugRings draws a shell of 4..8 long edges (regular, radius r about c) and a
// triangular hole (p, q, in): p and q are interpolated on one shell edge and
// moved inwards ulp by ulp until the exact orientation test puts them strictly
// left of that edge, in lies half as far beyond the centre (so the hole contains
// the centre, like every ring of a RingsPolygon). The hole is strictly inside
// the shell, but one of its edges is within rounding of a shell edge, so the
// two loops' bounding rectangles differ by rounding only on that side.
func HugRings(t *rapid.T, l string, c s2.Point, r float64) (RingsPolygon, bool) {
	x := c.Ortho()
	y := c.Cross(x).Normalize()
	n := rapid.IntRange(4, 8).Draw(t, l+".hn")
	az0 := rapid.Float64Range(0, 2*math.Pi).Draw(t, l+".haz")
	shell := make([]s2.Point, n)
	for i := range shell {
		az := az0 + float64(i)*2*math.Pi/float64(n)
		dir := x.Mul(math.Cos(az)).Add(y.Mul(math.Sin(az)))
		shell[i] = Fix(s2.Point{Vector: c.Mul(math.Cos(r)).Add(dir.Mul(math.Sin(r))).Normalize()}, c)
	}
	e := rapid.IntRange(0, n-1).Draw(t, l+".he")
	a, b := shell[e], shell[(e+1)%n]
	f1 := rapid.Float64Range(0.05, 0.6).Draw(t, l+".hf1")
	f2 := f1 + rapid.Float64Range(0.05, 0.35).Draw(t, l+".hf2")
	inside := func(p s2.Point) (s2.Point, bool) {
		for k := 0; k < 40; k++ {
			if exact.Sign(a.Vector, b.Vector, p.Vector) > 0 {
				return p, true
			}
			p = s2.Point{Vector: p.Add(c.Mul(float64(k+1) * 0x1p-53)).Normalize()}
		}
		return p, false
	}
	p, ok1 := inside(s2.Interpolate(f1, a, b))
	q, ok2 := inside(s2.Interpolate(f2, a, b))
	in := Fix(s2.Interpolate(1.5, s2.Interpolate((f1+f2)/2, a, b), c), c)
	if !ok1 || !ok2 || p == q {
		return RingsPolygon{}, false
	}
	return RingsPolygon{Center: FromPt(c), Rings: [][]P{FromPts(shell), FromPts([]s2.Point{p, q, in})}}, true
}

// TouchRings draws a regular shell of 5..16 vertices (radius r about c) and a
// triangular hole that shares exactly one vertex with it: shell vertex k (k = 0
// in a third of the cases) and two points on the diagonals from that vertex to
// its second neighbours, which are strictly inside the convex shell. The hole's
// vertex order starts at a drawn position, so the shared vertex is its vertex
// 0, 1 or 2.
func TouchRings(t *rapid.T, l string, c s2.Point, r float64) (RingsPolygon, bool) {
	x := c.Ortho()
	y := c.Cross(x).Normalize()
	n := rapid.SampledFrom([]int{5, 6, 8, 9, 10, 11, 12, 16}).Draw(t, l+".tn")
	az0 := rapid.Float64Range(0, 2*math.Pi).Draw(t, l+".taz")
	shell := make([]s2.Point, n)
	for i := range shell {
		az := az0 + float64(i)*2*math.Pi/float64(n)
		dir := x.Mul(math.Cos(az)).Add(y.Mul(math.Sin(az)))
		shell[i] = Fix(s2.Point{Vector: c.Mul(math.Cos(r)).Add(dir.Mul(math.Sin(r))).Normalize()}, c)
	}
	k := 0
	if rapid.IntRange(0, 2).Draw(t, l+".tk0") != 0 {
		k = rapid.IntRange(0, n-1).Draw(t, l+".tk")
	}
	f := rapid.Float64Range(0.1, 0.9).Draw(t, l+".tf")
	v := shell[k]
	a := Fix(s2.Interpolate(f, v, shell[(k+2)%n]), c)
	b := Fix(s2.Interpolate(f, v, shell[(k+n-2)%n]), c)
	tri := []s2.Point{v, a, b}
	switch exact.Sign(v.Vector, a.Vector, b.Vector) {
	case 0:
		return RingsPolygon{}, false
	case -1:
		tri = []s2.Point{v, b, a}
	}
	// a, b strictly inside the shell: left of every shell edge
	for i := range shell {
		for _, p := range tri[1:] {
			if exact.Sign(shell[i].Vector, shell[(i+1)%n].Vector, p.Vector) <= 0 {
				return RingsPolygon{}, false
			}
		}
	}
	j := rapid.IntRange(0, 2).Draw(t, l+".tj")
	tri = append(tri[3-j:], tri[:3-j]...)
	return RingsPolygon{Center: FromPt(c), Rings: [][]P{FromPts(shell), FromPts(tri)}}, true
}
