package gen

import (
	"math"

	"github.com/golang/geo/s1"
	"github.com/golang/geo/s2"
	"pgregory.net/rapid"

	"verifharness/internal/exact"
)

// HugRings draws a shell of 4..8 long edges (regular, radius r about c) and a
// triangular hole (p, q, in): p and q are interpolated on one shell edge and
// moved inwards ulp by ulp until the exact orientation test puts them strictly
// left of that edge, in lies half as far beyond the centre (so the hole contains
// the centre, like every ring of a RingsPolygon). The hole is strictly inside
// the shell, but one of its edges is within rounding of a shell edge, so the
// two loops' bounding rectangles differ by rounding only on that side.
func HugRings(t *rapid.T, l string, c s2.Point, r float64) (RingsPolygon, bool) {
	x := c.Ortho()
	y := c.Cross(x).Normalize()
	n := rapid.IntRange(4, 8).Draw(t, l+".hn")
	az0 := rapid.Float64Range(0, 2*math.Pi).Draw(t, l+".haz")
	shell := make([]s2.Point, n)
	for i := range shell {
		az := az0 + float64(i)*2*math.Pi/float64(n)
		dir := x.Mul(math.Cos(az)).Add(y.Mul(math.Sin(az)))
		shell[i] = Fix(s2.Point{Vector: c.Mul(math.Cos(r)).Add(dir.Mul(math.Sin(r))).Normalize()}, c)
	}
	e := rapid.IntRange(0, n-1).Draw(t, l+".he")
	a, b := shell[e], shell[(e+1)%n]
	f1 := rapid.Float64Range(0.05, 0.6).Draw(t, l+".hf1")
	f2 := f1 + rapid.Float64Range(0.05, 0.35).Draw(t, l+".hf2")
	inside := func(p s2.Point) (s2.Point, bool) {
		for k := 0; k < 40; k++ {
			if exact.Sign(a.Vector, b.Vector, p.Vector) > 0 {
				return p, true
			}
			p = s2.Point{Vector: p.Add(c.Mul(float64(k+1) * 0x1p-53)).Normalize()}
		}
		return p, false
	}
	p, ok1 := inside(s2.Interpolate(f1, a, b))
	q, ok2 := inside(s2.Interpolate(f2, a, b))
	in := Fix(s2.Interpolate(1.5, s2.Interpolate((f1+f2)/2, a, b), c), c)
	if !ok1 || !ok2 || p == q {
		return RingsPolygon{}, false
	}
	return RingsPolygon{Center: FromPt(c), Rings: [][]P{FromPts(shell), FromPts([]s2.Point{p, q, in})}}, true
}

// TouchRings draws a regular shell of 5..16 vertices (radius r about c) and a
// triangular hole that shares exactly one vertex with it: shell vertex k (k = 0
// in a third of the cases) and two points on the diagonals from that vertex to
// its second neighbours, which are strictly inside the convex shell. The hole's
// vertex order starts at a drawn position, so the shared vertex is its vertex
// 0, 1 or 2.
func TouchRings(t *rapid.T, l string, c s2.Point, r float64) (RingsPolygon, bool) {
	x := c.Ortho()
	y := c.Cross(x).Normalize()
	n := rapid.SampledFrom([]int{5, 6, 8, 9, 10, 11, 12, 16}).Draw(t, l+".tn")
	az0 := rapid.Float64Range(0, 2*math.Pi).Draw(t, l+".taz")
	shell := make([]s2.Point, n)
	for i := range shell {
		az := az0 + float64(i)*2*math.Pi/float64(n)
		dir := x.Mul(math.Cos(az)).Add(y.Mul(math.Sin(az)))
		shell[i] = Fix(s2.Point{Vector: c.Mul(math.Cos(r)).Add(dir.Mul(math.Sin(r))).Normalize()}, c)
	}
	k := 0
	if rapid.IntRange(0, 2).Draw(t, l+".tk0") != 0 {
		k = rapid.IntRange(0, n-1).Draw(t, l+".tk")
	}
	f := rapid.Float64Range(0.1, 0.9).Draw(t, l+".tf")
	v := shell[k]
	a := Fix(s2.Interpolate(f, v, shell[(k+2)%n]), c)
	b := Fix(s2.Interpolate(f, v, shell[(k+n-2)%n]), c)
	tri := []s2.Point{v, a, b}
	switch exact.Sign(v.Vector, a.Vector, b.Vector) {
	case 0:
		return RingsPolygon{}, false
	case -1:
		tri = []s2.Point{v, b, a}
	}
	// a, b strictly inside the shell: left of every shell edge
	for i := range shell {
		for _, p := range tri[1:] {
			if exact.Sign(shell[i].Vector, shell[(i+1)%n].Vector, p.Vector) <= 0 {
				return RingsPolygon{}, false
			}
		}
	}
	j := rapid.IntRange(0, 2).Draw(t, l+".tj")
	tri = append(tri[3-j:], tri[:3-j]...)
	return RingsPolygon{Center: FromPt(c), Rings: [][]P{FromPts(shell), FromPts(tri)}}, true
}

// HugBand draws a band-shaped shell between two parallels that spans more than
// 180 degrees of longitude without containing a pole (vertices every <= 20
// degrees along both parallels), and a triangular hole with one edge lying
// along (strictly inside, within rounding of) one of the shell's poleward
// edges - the edges on which the shell attains its extreme latitude. The
// centre is a point inside the hole.
func HugBand(t *rapid.T, l string) (RingsPolygon, bool) {
	south := rapid.Bool().Draw(t, l+".bs")
	lat1 := rapid.Float64Range(5, 30).Draw(t, l+".blat1")
	lat2 := lat1 + rapid.Float64Range(10, 25).Draw(t, l+".bdlat")
	half := rapid.SampledFrom([]float64{95, 100, 120, 150, 170}).Draw(t, l+".bhalf")
	alpha := rapid.Float64Range(-180, 180).Draw(t, l+".balpha")
	k := int(math.Ceil(2 * half / 20))
	ll := func(la, lo float64) s2.Point {
		if south {
			la = -la
		}
		return s2.PointFromLatLng(s2.LatLngFromDegrees(la, math.Remainder(lo+alpha, 360)))
	}
	var shell []s2.Point
	for i := 0; i <= k; i++ {
		shell = append(shell, ll(lat1, -half+2*half*float64(i)/float64(k)))
	}
	top0 := len(shell)
	for i := k; i >= 0; i-- {
		shell = append(shell, ll(lat2, -half+2*half*float64(i)/float64(k)))
	}
	e := top0 + rapid.IntRange(0, k-1).Draw(t, l+".be")
	a, b := shell[e], shell[e+1]
	f1 := rapid.Float64Range(0.05, 0.45).Draw(t, l+".bf1")
	f2 := rapid.Float64Range(0.55, 0.95).Draw(t, l+".bf2")
	mid := s2.Interpolate(0.5, a, b)
	midLL := s2.LatLngFromPoint(mid)
	in := s2.PointFromLatLng(s2.LatLng{Lat: midLL.Lat * s1.Angle((lat1+lat2)/(2*lat2)), Lng: midLL.Lng})
	// the interior of the shell is on the left of a->b in the north, on the right after mirroring
	want := 1
	if south {
		want = -1
	}
	inside := func(p s2.Point) (s2.Point, bool) {
		for j := 0; j < 40; j++ {
			if exact.Sign(a.Vector, b.Vector, p.Vector) == want {
				return p, true
			}
			p = s2.Point{Vector: p.Add(in.Mul(float64(j+1) * 0x1p-53)).Normalize()}
		}
		return p, false
	}
	p, ok1 := inside(s2.Interpolate(f1, a, b))
	q, ok2 := inside(s2.Interpolate(f2, a, b))
	if !ok1 || !ok2 || p == q || exact.Sign(a.Vector, b.Vector, in.Vector) != want {
		return RingsPolygon{}, false
	}
	tri := []s2.Point{p, q, in}
	if south {
		// mirrored: reverse both rings so that they stay counter-clockwise
		for i, j := 0, len(shell)-1; i < j; i, j = i+1, j-1 {
			shell[i], shell[j] = shell[j], shell[i]
		}
		tri = []s2.Point{q, p, in}
	}
	if exact.Sign(tri[0].Vector, tri[1].Vector, tri[2].Vector) <= 0 {
		return RingsPolygon{}, false
	}
	c := Fix(s2.Point{Vector: tri[0].Add(tri[1].Vector).Add(tri[2].Vector).Normalize()}, in)
	return RingsPolygon{Center: FromPt(c), Rings: [][]P{FromPts(shell), FromPts(tri)}}, true
}
