package gen

import (
	"math"
	"sort"

	"github.com/golang/geo/r3"
	"github.com/golang/geo/s1"
	"github.com/golang/geo/s2"
	"pgregory.net/rapid"
)

// LoopCase is the plain-data form of a loop that is valid by construction.
// Inside is a point known (from the construction, not from the library) to be
// strictly inside the region the vertex order encloses when Inverted is false,
// and strictly outside when Inverted is true (V is then the reversed order).
type LoopCase struct {
	V        []P
	Kind     string
	Inside   P
	Inverted bool
}

// Loop builds the s2.Loop.
func (l LoopCase) Loop() *s2.Loop { return s2.LoopFromPoints(Pts(l.V)) }

// Reversed returns the complement loop (same boundary, reversed vertex order).
func (l LoopCase) Reversed() LoopCase {
	n := len(l.V)
	v := make([]P, n)
	for i := range l.V {
		v[i] = l.V[n-1-i]
	}
	return LoopCase{V: v, Kind: l.Kind, Inside: l.Inside, Inverted: !l.Inverted}
}

// KnownContains is the construction-time truth for the point Inside.
func (l LoopCase) KnownContains() bool { return !l.Inverted }

// SpecialCenter draws a centre: random, pole, face centre, cube corner,
// face-edge midpoint, on the antimeridian, or cell-derived.
func SpecialCenter(t *rapid.T, label string) s2.Point {
	switch rapid.IntRange(0, 6).Draw(t, label+".ck") {
	case 0, 1:
		return Uniform(t, label)
	case 2:
		return Symmetric(t, label)
	case 3:
		z := rapid.SampledFrom([]float64{1, -1}).Draw(t, label+".pole")
		return s2.Point{Vector: r3.Vector{X: 0, Y: 0, Z: z}}
	case 4:
		lat := rapid.Float64Range(-1.5, 1.5).Draw(t, label+".lat")
		return s2.PointFromLatLng(s2.LatLng{Lat: s1.Angle(lat), Lng: s1.Angle(math.Pi)})
	default:
		return CellDerived(t, label)
	}
}

// frame returns an orthonormal frame (x, y, z=c).
func frame(c s2.Point) (x, y r3.Vector) {
	x = c.Ortho()
	y = c.Cross(x).Normalize()
	return x, y
}

// at returns the point at angular distance r from c in direction azimuth az.
func at(c s2.Point, x, y r3.Vector, r, az float64) s2.Point {
	d := x.Mul(math.Cos(az)).Add(y.Mul(math.Sin(az)))
	return s2.Point{Vector: c.Mul(math.Cos(r)).Add(d.Mul(math.Sin(r))).Normalize()}
}

// sizeWithThresholds draws a vertex count in [3,maxN] with extra mass on the
// algorithm-switch thresholds (31/32/33, 63/64/65).
func sizeWithThresholds(t *rapid.T, label string, maxN int) int {
	switch rapid.IntRange(0, 9).Draw(t, label+".nk") {
	case 0:
		n := rapid.SampledFrom([]int{31, 32, 33, 63, 64, 65}).Draw(t, label+".nthr")
		if n <= maxN {
			return n
		}
	case 1, 2, 3:
		return rapid.IntRange(3, minInt(12, maxN)).Draw(t, label+".nsmall")
	case 4, 5, 6:
		return rapid.IntRange(3, minInt(100, maxN)).Draw(t, label+".nmid")
	}
	return rapid.IntRange(3, maxN).Draw(t, label+".n")
}

func minInt(a, b int) int {
	if a < b {
		return a
	}
	return b
}

// StarLoop draws a star-shaped loop about a centre: strictly increasing
// azimuths (gaps < 170°, ≥ a minimum that dwarfs rounding) and radii in
// [rmin,rmax] with rmax < 80°, so its gnomonic image about the centre is a
// planar star polygon, hence simple. The centre is strictly inside.
func StarLoop(t *rapid.T, label string, maxN int) LoopCase {
	c := SpecialCenter(t, label+".c")
	return StarLoopAt(t, label, c, maxN, 0)
}

// StarLoopAt is StarLoop about a given centre; if rmaxLimit > 0 it bounds the radius.
func StarLoopAt(t *rapid.T, label string, c s2.Point, maxN int, rmaxLimit float64) LoopCase {
	n := sizeWithThresholds(t, label, maxN)
	// scale: log-uniform radius from 1e-7 to ~1.39 rad (80°)
	lim := 80 * math.Pi / 180
	if rmaxLimit > 0 && rmaxLimit < lim {
		lim = rmaxLimit
	}
	lo := math.Log(1e-7)
	hi := math.Log(lim)
	if hi < lo {
		lo = hi - 1
	}
	rmax := math.Exp(rapid.Float64Range(lo, hi).Draw(t, label+".lr"))
	ratio := rapid.SampledFrom([]float64{1, 0.999, 0.9, 0.5, 0.1}).Draw(t, label+".ratio")
	rmin := rmax * ratio
	x, y := frame(c)
	az0 := rapid.Float64Range(0, 2*math.Pi).Draw(t, label+".az0")
	// azimuth steps: n positive weights, normalised to 2π, each clamped to < 170°.
	w := make([]float64, n)
	sum := 0.0
	for i := range w {
		w[i] = rapid.Float64Range(0.2, 1).Draw(t, label+".w")
		sum += w[i]
	}
	v := make([]P, 0, n)
	az := az0
	for i := 0; i < n; i++ {
		r := rmin
		if rmin < rmax {
			r = rapid.Float64Range(rmin, rmax).Draw(t, label+".r")
		}
		v = append(v, FromPt(at(c, x, y, r, az)))
		az += w[i] / sum * 2 * math.Pi
	}
	// with n == 3 or 4 a step could exceed 170°: weights in [0.2,1] give max
	// step 2π·1/(1+0.4)=257° for n=3. Rebuild evenly in that case.
	maxStep := 0.0
	for i := range w {
		if s := w[i] / sum * 2 * math.Pi; s > maxStep {
			maxStep = s
		}
	}
	if maxStep > 170*math.Pi/180 {
		v = v[:0]
		for i := 0; i < n; i++ {
			v = append(v, FromPt(at(c, x, y, rmax, az0+float64(i)*2*math.Pi/float64(n))))
		}
	}
	return LoopCase{V: v, Kind: "star", Inside: FromPt(c)}
}

// RegularLoopCase draws a regular loop via the same construction (not via s2.RegularLoop).
func RegularLoopCase(t *rapid.T, label string, maxN int) LoopCase {
	c := SpecialCenter(t, label+".c")
	n := sizeWithThresholds(t, label, maxN)
	r := math.Exp(rapid.Float64Range(math.Log(1e-7), math.Log(80*math.Pi/180)).Draw(t, label+".lr"))
	x, y := frame(c)
	az0 := rapid.Float64Range(0, 2*math.Pi).Draw(t, label+".az0")
	v := make([]P, 0, n)
	for i := 0; i < n; i++ {
		v = append(v, FromPt(at(c, x, y, r, az0+float64(i)*2*math.Pi/float64(n))))
	}
	return LoopCase{V: v, Kind: "regular", Inside: FromPt(c)}
}

// STToUV is the published quadratic st→uv transform (written separately from s2).
func STToUV(s float64) float64 {
	if s >= 0.5 {
		return (1 / 3.) * (4*s*s - 1)
	}
	return (1 / 3.) * (1 - 4*(1-s)*(1-s))
}

// LatticePoint is the grid point (i,j) of the level-k grid on a face
// (0 ≤ i,j ≤ 2^k), mapped through the published transforms and normalised.
func LatticePoint(face, level, i, j int) s2.Point {
	n := float64(int(1) << uint(level))
	u := STToUV(float64(i) / n)
	v := STToUV(float64(j) / n)
	return s2.Point{Vector: FaceUVToXYZ(face, u, v).Normalize()}
}

// LatticeRect is an axis-aligned rectangle of grid cells [I0,I1)×[J0,J1) on
// the level-Level grid of one face. Its loop has a vertex at EVERY grid point
// of its boundary, so two such rectangles on one grid share boundary edges
// exactly (bit-identical vertices) wherever their integer boundaries coincide.
type LatticeRect struct {
	Face, Level    int
	I0, J0, I1, J1 int
}

// Vertices returns the boundary in CCW order (in the face's (u,v) frame,
// which is right-handed seen from outside the sphere).
func (r LatticeRect) Vertices() []P {
	var v []P
	for i := r.I0; i < r.I1; i++ {
		v = append(v, FromPt(LatticePoint(r.Face, r.Level, i, r.J0)))
	}
	for j := r.J0; j < r.J1; j++ {
		v = append(v, FromPt(LatticePoint(r.Face, r.Level, r.I1, j)))
	}
	for i := r.I1; i > r.I0; i-- {
		v = append(v, FromPt(LatticePoint(r.Face, r.Level, i, r.J1)))
	}
	for j := r.J1; j > r.J0; j-- {
		v = append(v, FromPt(LatticePoint(r.Face, r.Level, r.I0, j)))
	}
	return v
}

// CenterOfCell returns the uv-centre of grid cell (i,j) (strictly inside it).
func (r LatticeRect) CenterOfCell(i, j int) s2.Point {
	n := float64(int(1) << uint(r.Level))
	u := STToUV((float64(i) + 0.5) / n)
	v := STToUV((float64(j) + 0.5) / n)
	return s2.Point{Vector: FaceUVToXYZ(r.Face, u, v).Normalize()}
}

// LoopCase converts to a LoopCase.
func (r LatticeRect) LoopCase() LoopCase {
	return LoopCase{V: r.Vertices(), Kind: "lattice", Inside: FromPt(r.CenterOfCell(r.I0, r.J0))}
}

// ContainsRect: integer truth.
func (r LatticeRect) ContainsRect(o LatticeRect) bool {
	return r.Face == o.Face && r.Level == o.Level && r.I0 <= o.I0 && o.I1 <= r.I1 && r.J0 <= o.J0 && o.J1 <= r.J1
}

// InteriorsIntersect: integer truth (open rectangles overlap).
func (r LatticeRect) InteriorsIntersect(o LatticeRect) bool {
	return r.Face == o.Face && r.Level == o.Level && r.I0 < o.I1 && o.I0 < r.I1 && r.J0 < o.J1 && o.J0 < r.J1
}

// ContainsCellIJ: integer truth for grid cell (i,j).
func (r LatticeRect) ContainsCellIJ(i, j int) bool {
	return r.I0 <= i && i < r.I1 && r.J0 <= j && j < r.J1
}

// DrawLatticeRect draws a rectangle on the level-k grid of a face with
// perimeter at most maxPerimeter grid steps (= vertex count).
func DrawLatticeRect(t *rapid.T, label string, face, level, maxPerimeter int) LatticeRect {
	size := 1 << uint(level)
	maxSide := minInt(size, maxPerimeter/2-1)
	if maxSide < 1 {
		maxSide = 1
	}
	w := rapid.IntRange(1, maxSide).Draw(t, label+".w")
	hmax := minInt(size, maxPerimeter/2-w)
	if hmax < 1 {
		hmax = 1
	}
	h := rapid.IntRange(1, hmax).Draw(t, label+".h")
	i0 := rapid.IntRange(0, size-w).Draw(t, label+".i0")
	j0 := rapid.IntRange(0, size-h).Draw(t, label+".j0")
	return LatticeRect{Face: face, Level: level, I0: i0, J0: j0, I1: i0 + w, J1: j0 + h}
}

// Loop draws a loop from the mixed families, optionally inverted.
func Loop(t *rapid.T, label string, maxN int) LoopCase {
	var l LoopCase
	switch rapid.IntRange(0, 9).Draw(t, label+".fam") {
	case 0, 1:
		l = RegularLoopCase(t, label, maxN)
	case 2, 3, 4, 5:
		l = StarLoop(t, label, maxN)
	case 6, 7:
		face := rapid.IntRange(0, 5).Draw(t, label+".face")
		level := rapid.IntRange(0, 6).Draw(t, label+".level")
		l = DrawLatticeRect(t, label, face, level, maxInt(4, maxN)).LoopCase()
	case 8:
		// a whole cell as a 4-vertex loop
		c := s2.CellFromCellID(CellID(t, label+".cell"))
		if c.Level() > 25 {
			c = s2.CellFromCellID(c.ID().Parent(25))
		}
		v := []P{FromPt(c.Vertex(0)), FromPt(c.Vertex(1)), FromPt(c.Vertex(2)), FromPt(c.Vertex(3))}
		l = LoopCase{V: v, Kind: "cell", Inside: FromPt(c.ID().Point())}
	default:
		l = StarLoop(t, label, minInt(maxN, 8))
	}
	if rapid.IntRange(0, 3).Draw(t, label+".inv") == 0 {
		l = l.Reversed()
	}
	return l
}

func maxInt(a, b int) int {
	if a > b {
		return a
	}
	return b
}

// RingsPolygon is a polygon of concentric star rings about one centre: ring k
// has radii in a band strictly inside ring k-1, so ring k is nested in ring
// k-1 and nesting depth is k (even = shell, odd = hole).
type RingsPolygon struct {
	Center P
	Rings  [][]P // each ring CCW about the centre (normalised orientation)
}

// DrawRings draws 1..maxRings concentric rings, outermost first.
func DrawRings(t *rapid.T, label string, maxRings, maxN int) RingsPolygon {
	c := SpecialCenter(t, label+".c")
	k := rapid.IntRange(1, maxRings).Draw(t, label+".rings")
	rp := RingsPolygon{Center: FromPt(c)}
	x, y := frame(c)
	rout := math.Exp(rapid.Float64Range(math.Log(1e-5), math.Log(70*math.Pi/180)).Draw(t, label+".lr"))
	for ring := 0; ring < k; ring++ {
		n := sizeWithThresholds(t, label+".n", maxN)
		// band for this ring: [0.8,1.0]·rout·(0.7^ring)
		hiR := rout * math.Pow(0.7, float64(ring))
		loR := hiR * 0.8
		az0 := rapid.Float64Range(0, 2*math.Pi).Draw(t, label+".az0")
		var v []P
		for i := 0; i < n; i++ {
			r := rapid.Float64Range(loR, hiR).Draw(t, label+".r")
			v = append(v, FromPt(at(c, x, y, r, az0+float64(i)*2*math.Pi/float64(n))))
		}
		// For n ≥ 3 equally spaced azimuths, chords of a ring with radii ≥ loR
		// stay outside the disc of radius loR·cos(π/n) ≥ 0.5·loR = 0.4·hiR... which
		// for n = 3 would cut into the next band (0.7·hiR). Keep n ≥ 8 for nested rings.
		if k > 1 && n < 8 {
			v = v[:0]
			n = 8
			for i := 0; i < n; i++ {
				v = append(v, FromPt(at(c, x, y, hiR, az0+float64(i)*2*math.Pi/float64(n))))
			}
		}
		rp.Rings = append(rp.Rings, v)
	}
	return rp
}

// Loops returns the rings as s2 loops (all CCW / normalised).
func (rp RingsPolygon) Loops() []*s2.Loop {
	var out []*s2.Loop
	for _, r := range rp.Rings {
		out = append(out, s2.LoopFromPoints(Pts(r)))
	}
	return out
}

// Polygon builds the polygon with PolygonFromLoops.
func (rp RingsPolygon) Polygon() *s2.Polygon { return s2.PolygonFromLoops(rp.Loops()) }

// ShapeSpec is a plain-data shape for index tests.
type ShapeSpec struct {
	// Type: loop | polygon | polyline | laxloop | laxpolygon | laxpolyline | points
	Type  string
	Loops [][]P // one vertex list (loop/polyline/points) or several (polygon/laxpolygon)
}

// Build makes the library shape.
func (s ShapeSpec) Build() s2.Shape {
	switch s.Type {
	case "loop":
		return s2.LoopFromPoints(Pts(s.Loops[0]))
	case "polygon":
		var ls []*s2.Loop
		for _, l := range s.Loops {
			ls = append(ls, s2.LoopFromPoints(Pts(l)))
		}
		return s2.PolygonFromLoops(ls)
	case "polyline":
		p := s2.Polyline(Pts(s.Loops[0]))
		return &p
	case "laxloop":
		return s2.LaxLoopFromPoints(Pts(s.Loops[0]))
	case "laxpolygon":
		var ls [][]s2.Point
		for _, l := range s.Loops {
			ls = append(ls, Pts(l))
		}
		return s2.LaxPolygonFromPoints(ls)
	case "laxpolyline":
		return s2.LaxPolylineFromPoints(Pts(s.Loops[0]))
	case "points":
		pv := s2.PointVector(Pts(s.Loops[0]))
		return &pv
	}
	panic("gen: unknown shape type " + s.Type)
}

// NumEdges of the spec without building it.
func (s ShapeSpec) NumEdges() int {
	n := 0
	for _, l := range s.Loops {
		switch s.Type {
		case "polyline", "laxpolyline":
			if len(l) > 0 {
				n += len(l) - 1
			}
		default:
			n += len(l)
		}
	}
	return n
}

// DrawShape draws one shape spec with at most maxEdges edges near centre c
// (within about spread radians).
func DrawShape(t *rapid.T, label string, c s2.Point, spread float64, maxEdges int) ShapeSpec {
	typ := rapid.SampledFrom([]string{"loop", "polygon", "polyline", "laxloop", "laxpolygon", "laxpolyline", "points", "loop", "polygon", "polyline"}).Draw(t, label+".type")
	// local centre
	x, y := frame(c)
	lc := at(c, x, y, rapid.Float64Range(0, spread).Draw(t, label+".off"), rapid.Float64Range(0, 2*math.Pi).Draw(t, label+".offaz"))
	if maxEdges < 3 {
		maxEdges = 3
	}
	switch typ {
	case "loop", "laxloop":
		l := StarLoopAt(t, label, lc, maxEdges, spread)
		return ShapeSpec{Type: typ, Loops: [][]P{l.V}}
	case "polygon", "laxpolygon":
		rings := rapid.IntRange(1, 3).Draw(t, label+".rings")
		rp := drawRingsAt(t, label, lc, rings, maxInt(8, maxEdges/rings), spread)
		loops := rp.Rings
		if typ == "laxpolygon" {
			// lax polygons take oriented loops: holes must be clockwise
			for k := range loops {
				if k%2 == 1 {
					loops[k] = reverseP(loops[k])
				}
			}
		}
		return ShapeSpec{Type: typ, Loops: loops}
	case "polyline", "laxpolyline":
		n := rapid.IntRange(2, maxInt(2, minInt(maxEdges, 60))).Draw(t, label+".n")
		step := spread / float64(n)
		p := lc
		v := []P{FromPt(p)}
		px, py := frame(p)
		az := rapid.Float64Range(0, 2*math.Pi).Draw(t, label+".az")
		for i := 1; i < n; i++ {
			az += rapid.Float64Range(-1, 1).Draw(t, label+".turn")
			q := at(p, px, py, step*rapid.Float64Range(0.2, 1).Draw(t, label+".len"), az)
			v = append(v, FromPt(q))
			p = q
			px, py = frame(p)
		}
		return ShapeSpec{Type: typ, Loops: [][]P{v}}
	default:
		n := rapid.IntRange(1, maxInt(1, minInt(maxEdges, 30))).Draw(t, label+".n")
		var v []P
		for i := 0; i < n; i++ {
			v = append(v, FromPt(at(lc, x, y, rapid.Float64Range(0, spread).Draw(t, label+".pr"), rapid.Float64Range(0, 2*math.Pi).Draw(t, label+".paz"))))
		}
		return ShapeSpec{Type: "points", Loops: [][]P{v}}
	}
}

func reverseP(v []P) []P {
	n := len(v)
	out := make([]P, n)
	for i := range v {
		out[i] = v[n-1-i]
	}
	return out
}

// DrawRingsAt draws k strictly nested rings (outermost first) about c with
// outer radius at most rlimit; every ring has at least 8 vertices.
func DrawRingsAt(t *rapid.T, label string, c s2.Point, k, maxN int, rlimit float64) RingsPolygon {
	return drawRingsAt(t, label, c, k, maxN, rlimit)
}

func drawRingsAt(t *rapid.T, label string, c s2.Point, k, maxN int, rlimit float64) RingsPolygon {
	rp := RingsPolygon{Center: FromPt(c)}
	x, y := frame(c)
	lim := math.Min(rlimit, 70*math.Pi/180)
	rout := math.Exp(rapid.Float64Range(math.Log(lim*1e-3), math.Log(lim)).Draw(t, label+".lr"))
	for ring := 0; ring < k; ring++ {
		n := rapid.IntRange(8, maxInt(8, maxN)).Draw(t, label+".rn")
		hiR := rout * math.Pow(0.7, float64(ring))
		loR := hiR * 0.8
		az0 := rapid.Float64Range(0, 2*math.Pi).Draw(t, label+".az0")
		var v []P
		for i := 0; i < n; i++ {
			r := rapid.Float64Range(loR, hiR).Draw(t, label+".r")
			v = append(v, FromPt(at(c, x, y, r, az0+float64(i)*2*math.Pi/float64(n))))
		}
		rp.Rings = append(rp.Rings, v)
	}
	return rp
}

// ShapeSet draws 1..maxShapes shapes with total edges ≤ maxEdges, placed
// about 1, 2, 3 or 6 centres (so the index spans 1..6 faces).
func ShapeSet(t *rapid.T, label string, maxShapes, maxEdges int) []ShapeSpec {
	n := rapid.IntRange(1, maxShapes).Draw(t, label+".nshapes")
	placement := rapid.IntRange(0, 3).Draw(t, label+".placement")
	var centres []s2.Point
	switch placement {
	case 0:
		centres = []s2.Point{SpecialCenter(t, label+".c0")}
	case 1:
		centres = []s2.Point{SpecialCenter(t, label+".c0"), SpecialCenter(t, label+".c1")}
	case 2:
		for f := 0; f < 3; f++ {
			centres = append(centres, s2.Point{Vector: FaceUVToXYZ(f*2%6, rapid.Float64Range(-0.5, 0.5).Draw(t, label+".cu"), rapid.Float64Range(-0.5, 0.5).Draw(t, label+".cv")).Normalize()})
		}
	default:
		for f := 0; f < 6; f++ {
			centres = append(centres, s2.Point{Vector: FaceUVToXYZ(f, rapid.Float64Range(-0.5, 0.5).Draw(t, label+".cu"), rapid.Float64Range(-0.5, 0.5).Draw(t, label+".cv")).Normalize()})
		}
	}
	spread := math.Exp(rapid.Float64Range(math.Log(1e-4), math.Log(0.6)).Draw(t, label+".spread"))
	var out []ShapeSpec
	left := maxEdges
	for i := 0; i < n && left >= 3; i++ {
		c := centres[i%len(centres)]
		per := maxInt(3, left/(n-i))
		if rapid.IntRange(0, 3).Draw(t, label+".big") == 0 {
			per = left
		}
		s := DrawShape(t, label+".s", c, spread, per)
		left -= s.NumEdges()
		out = append(out, s)
	}
	return out
}

// SortPoints sorts lexicographically (used for canonical comparisons).
func SortPoints(ps []s2.Point) {
	sort.Slice(ps, func(i, j int) bool { return ps[i].Cmp(ps[j].Vector) < 0 })
}

// ProbePoints draws query points for a vertex list: vertices, points on edges
// (interpolated, then 0..3 ulp noise), the known point, far/random points, poles,
// cell centres and corners near the geometry.
func ProbePoints(t *rapid.T, label string, v []P, n int) []P {
	var out []P
	for i := 0; i < n; i++ {
		var p s2.Point
		switch rapid.IntRange(0, 7).Draw(t, label+".pk") {
		case 0:
			p = v[rapid.IntRange(0, len(v)-1).Draw(t, label+".vi")].Pt()
		case 1, 2:
			k := rapid.IntRange(0, len(v)-1).Draw(t, label+".ei")
			a, b := v[k].Pt(), v[(k+1)%len(v)].Pt()
			f := rapid.Float64Range(0, 1).Draw(t, label+".ef")
			p = Fix(s2.Interpolate(f, a, b), a)
			p = Perturb(t, label+".en", p, 3)
		case 3:
			p = Perturb(t, label+".vn", v[rapid.IntRange(0, len(v)-1).Draw(t, label+".vi2")].Pt(), 2)
		case 4:
			p = Base(t, label+".far")
		case 5:
			// cell centre / corner near a vertex
			q := v[rapid.IntRange(0, len(v)-1).Draw(t, label+".ci")].Pt()
			lvl := rapid.IntRange(0, 30).Draw(t, label+".cl")
			id := s2.CellFromPoint(q).ID().Parent(lvl)
			if rapid.Bool().Draw(t, label+".cc") {
				p = id.Point()
			} else {
				p = s2.CellFromCellID(id).Vertex(rapid.IntRange(0, 3).Draw(t, label+".cv"))
			}
		case 6:
			// near a vertex at a small random offset
			q := v[rapid.IntRange(0, len(v)-1).Draw(t, label+".ni")].Pt()
			x, y := frame(q)
			p = at(q, x, y, TinyAngle(t, label+".nd"), rapid.Float64Range(0, 2*math.Pi).Draw(t, label+".naz"))
		default:
			p = Uniform(t, label+".u")
		}
		out = append(out, FromPt(Fix(p, xAxis)))
	}
	return out
}
