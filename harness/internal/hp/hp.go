// Package hp is a small high-precision (default 320-bit big.Float) vector
// toolkit used as a numerical oracle: inputs are float64 (exact), every
// operation rounds at 320 bits (relative error ≤ 2^-319 per op), which is
// ignored against the ≥ 2^-55 bounds being checked. Only +,−,×,÷,sqrt are
// used; no trigonometry is needed when distances are expressed as squared
// chord lengths and small angles through sin².
package hp

import (
	"math/big"

	"github.com/golang/geo/r3"
)

// Prec is the working precision in bits.
const Prec = 320

// F makes a big.Float from a float64 (exact).
func F(x float64) *big.Float { return new(big.Float).SetPrec(Prec).SetFloat64(x) }

func nf() *big.Float { return new(big.Float).SetPrec(Prec) }

// Add, Sub, Mul, Quo, Sqrt, Neg, Abs on scalars.
func Add(a, b *big.Float) *big.Float { return nf().Add(a, b) }
func Sub(a, b *big.Float) *big.Float { return nf().Sub(a, b) }
func Mul(a, b *big.Float) *big.Float { return nf().Mul(a, b) }
func Quo(a, b *big.Float) *big.Float { return nf().Quo(a, b) }
func Sqrt(a *big.Float) *big.Float {
	if a.Sign() <= 0 {
		return nf()
	}
	return nf().Sqrt(a)
}
func Neg(a *big.Float) *big.Float { return nf().Neg(a) }
func Abs(a *big.Float) *big.Float { return nf().Abs(a) }

// Float returns the nearest float64.
func Float(a *big.Float) float64 { f, _ := a.Float64(); return f }

// Min and Max.
func Min(a, b *big.Float) *big.Float {
	if a.Cmp(b) <= 0 {
		return a
	}
	return b
}
func Max(a, b *big.Float) *big.Float {
	if a.Cmp(b) >= 0 {
		return a
	}
	return b
}

// V is a high-precision 3-vector.
type V [3]*big.Float

// Vec converts an r3.Vector exactly.
func Vec(v r3.Vector) V { return V{F(v.X), F(v.Y), F(v.Z)} }

// R3 rounds to float64 coordinates.
func (a V) R3() r3.Vector { return r3.Vector{X: Float(a[0]), Y: Float(a[1]), Z: Float(a[2])} }

func (a V) Add(b V) V { return V{Add(a[0], b[0]), Add(a[1], b[1]), Add(a[2], b[2])} }
func (a V) Sub(b V) V { return V{Sub(a[0], b[0]), Sub(a[1], b[1]), Sub(a[2], b[2])} }
func (a V) Scale(s *big.Float) V {
	return V{Mul(a[0], s), Mul(a[1], s), Mul(a[2], s)}
}
func (a V) Dot(b V) *big.Float {
	return Add(Add(Mul(a[0], b[0]), Mul(a[1], b[1])), Mul(a[2], b[2]))
}
func (a V) Cross(b V) V {
	return V{
		Sub(Mul(a[1], b[2]), Mul(a[2], b[1])),
		Sub(Mul(a[2], b[0]), Mul(a[0], b[2])),
		Sub(Mul(a[0], b[1]), Mul(a[1], b[0])),
	}
}
func (a V) Norm2() *big.Float { return a.Dot(a) }
func (a V) Norm() *big.Float  { return Sqrt(a.Norm2()) }

// IsZero reports whether all coordinates are zero.
func (a V) IsZero() bool { return a[0].Sign() == 0 && a[1].Sign() == 0 && a[2].Sign() == 0 }

// Unit returns a/|a| (a must be non-zero).
func (a V) Unit() V { return a.Scale(Quo(F(1), a.Norm())) }

// Chord2 returns the squared chord length between the unit vectors of a and b
// (both are projected onto the unit sphere first): 2 − 2·(a·b)/(|a||b|),
// computed as |â−b̂|² for accuracy at small distances.
func Chord2(a, b V) *big.Float {
	d := a.Unit().Sub(b.Unit())
	return d.Norm2()
}

// Sin2Angle returns sin² of the angle between a and b: |a×b|²/(|a|²|b|²).
func Sin2Angle(a, b V) *big.Float {
	c := a.Cross(b)
	return Quo(c.Norm2(), Mul(a.Norm2(), b.Norm2()))
}

// PointEdgeChord2 returns the squared chord distance from the direction of x
// to the geodesic edge (a,b) (all projected to the unit sphere), with the
// interior/endpoint decision made at working precision: the closest point is
// interior iff x's projection on the plane lies strictly within the wedge, i.e.
// (a×n)·x < 0 ... expressed as  sign((x×n... see code.
// If a and b are the same direction the distance to a is returned.
func PointEdgeChord2(x, a, b V) (d2 *big.Float, interior bool) {
	xu, au, bu := x.Unit(), a.Unit(), b.Unit()
	n := au.Cross(bu)
	da := xu.Sub(au).Norm2()
	db := xu.Sub(bu).Norm2()
	if n.IsZero() {
		return Min(da, db), false
	}
	// p = projection of x onto the plane of the great circle = x − (x·n̂)n̂.
	// Interior iff p is between a and b:  (a × p)·n > 0 and (p × b)·n > 0.
	// Since p differs from x by a multiple of n, (a×p)·n = (a×x)·n etc.
	c1 := au.Cross(xu).Dot(n)
	c2 := xu.Cross(bu).Dot(n)
	if c1.Sign() > 0 && c2.Sign() > 0 {
		// distance to the great circle: sin(d) = |x·n̂|, chord² = 2 − 2cos(d)
		nn := n.Norm()
		s := Quo(Abs(xu.Dot(n)), nn) // sin d, d in [0, π/2]
		cos := Sqrt(Sub(F(1), Mul(s, s)))
		// chord² = 2(1−cos) = 2 s² / (1+cos)  (stable for small d)
		return Quo(Mul(F(2), Mul(s, s)), Add(F(1), cos)), true
	}
	return Min(da, db), false
}
