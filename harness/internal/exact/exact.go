// Package exact does exact arithmetic on float64 inputs with math/big integers.
// A float64 is a dyadic rational m·2^e; vectors are scaled by a positive power
// of two to integer vectors, so signs of homogeneous polynomials (determinants,
// dot products, comparisons of homogeneous expressions) are exact.
// It deliberately does not use r3.PreciseVector or big.Float.
package exact

import (
	"math"
	"math/big"
	"sort"

	"github.com/golang/geo/r3"
)

// Vec is an integer 3-vector.
type Vec [3]*big.Int

// split returns m, e with f == m·2^e exactly (m == 0 for f == 0).
func split(f float64) (int64, int) {
	if f == 0 {
		return 0, 0
	}
	if math.IsNaN(f) || math.IsInf(f, 0) {
		panic("exact: non-finite input")
	}
	fr, ex := math.Frexp(f)
	m := int64(fr * (1 << 53))
	e := ex - 53
	for m != 0 && m&1 == 0 {
		m >>= 1
		e++
	}
	return m, e
}

// Ints scales all given floats by one common positive power of two to integers.
// It returns the integers and the exponent E with f_i == n_i·2^E.
func Ints(fs ...float64) ([]*big.Int, int) {
	ms := make([]int64, len(fs))
	es := make([]int, len(fs))
	minE := math.MaxInt32
	for i, f := range fs {
		ms[i], es[i] = split(f)
		if ms[i] != 0 && es[i] < minE {
			minE = es[i]
		}
	}
	if minE == math.MaxInt32 {
		minE = 0
	}
	out := make([]*big.Int, len(fs))
	for i := range fs {
		n := big.NewInt(ms[i])
		if ms[i] != 0 {
			n.Lsh(n, uint(es[i]-minE))
		}
		out[i] = n
	}
	return out, minE
}

// IntVec scales v by a positive power of two (its own) to an integer vector.
func IntVec(v r3.Vector) Vec {
	n, _ := Ints(v.X, v.Y, v.Z)
	return Vec{n[0], n[1], n[2]}
}

// IntVecs scales all vectors by one common positive power of two; E is the
// exponent with v_i == n_i·2^E.
func IntVecs(vs ...r3.Vector) ([]Vec, int) {
	fs := make([]float64, 0, 3*len(vs))
	for _, v := range vs {
		fs = append(fs, v.X, v.Y, v.Z)
	}
	n, e := Ints(fs...)
	out := make([]Vec, len(vs))
	for i := range vs {
		out[i] = Vec{n[3*i], n[3*i+1], n[3*i+2]}
	}
	return out, e
}

func mul(a, b *big.Int) *big.Int { return new(big.Int).Mul(a, b) }
func sub(a, b *big.Int) *big.Int { return new(big.Int).Sub(a, b) }
func add(a, b *big.Int) *big.Int { return new(big.Int).Add(a, b) }

// Cross returns a × b.
func Cross(a, b Vec) Vec {
	return Vec{
		sub(mul(a[1], b[2]), mul(a[2], b[1])),
		sub(mul(a[2], b[0]), mul(a[0], b[2])),
		sub(mul(a[0], b[1]), mul(a[1], b[0])),
	}
}

// Dot returns a · b.
func Dot(a, b Vec) *big.Int {
	return add(add(mul(a[0], b[0]), mul(a[1], b[1])), mul(a[2], b[2]))
}

// Norm2 returns |a|².
func Norm2(a Vec) *big.Int { return Dot(a, a) }

// Add returns a + b (only meaningful for vectors with a common scale).
func Add(a, b Vec) Vec { return Vec{add(a[0], b[0]), add(a[1], b[1]), add(a[2], b[2])} }

// Sub returns a − b (only meaningful for vectors with a common scale).
func Sub(a, b Vec) Vec { return Vec{sub(a[0], b[0]), sub(a[1], b[1]), sub(a[2], b[2])} }

// Neg returns −a.
func Neg(a Vec) Vec {
	return Vec{new(big.Int).Neg(a[0]), new(big.Int).Neg(a[1]), new(big.Int).Neg(a[2])}
}

// IsZero reports whether a is the zero vector.
func IsZero(a Vec) bool { return a[0].Sign() == 0 && a[1].Sign() == 0 && a[2].Sign() == 0 }

// Det returns the determinant of the matrix with rows a, b, c:  a · (b × c).
func Det(a, b, c Vec) *big.Int { return Dot(a, Cross(b, c)) }

// DetSign is the sign of the exact determinant |a b c| of three float vectors.
func DetSign(a, b, c r3.Vector) int {
	return Det(IntVec(a), IntVec(b), IntVec(c)).Sign()
}

// Cmp compares vectors lexicographically (x, then y, then z), like r3.Vector.Cmp.
func Cmp(a, b r3.Vector) int {
	switch {
	case a.X < b.X:
		return -1
	case a.X > b.X:
		return 1
	case a.Y < b.Y:
		return -1
	case a.Y > b.Y:
		return 1
	case a.Z < b.Z:
		return -1
	case a.Z > b.Z:
		return 1
	}
	return 0
}

// SoSSign is the sign of the determinant |a b c| under the symbolic
// perturbation scheme that s2's RobustSign documents: every point p receives
// the perturbation (dp.X, dp.Y, dp.Z); for points A < B < C in lexicographic
// order the magnitudes satisfy
//
//	dA.Z > dA.Y > dA.X > dB.Z > dB.Y > dB.X > dC.Z > dC.Y > dC.X
//
// each so much smaller than the previous that it matters only when the
// coefficients of all products of earlier ones vanish (perturbation k is
// eps^(2^k)).  The determinant of the perturbed points is expanded as a
// polynomial in eps by multilinearity and the sign of the term of lowest
// degree with a non-zero coefficient is returned.  It returns 0 iff two of the
// points are identical.  This does not use the library's decision table.
func SoSSign(a, b, c r3.Vector) int {
	if a == b || b == c || a == c {
		return 0
	}
	pts := []r3.Vector{a, b, c}
	idx := []int{0, 1, 2}
	sort.SliceStable(idx, func(i, j int) bool { return Cmp(pts[idx[i]], pts[idx[j]]) < 0 })
	// permutation sign of idx
	perm := 1
	for i := 0; i < 3; i++ {
		for j := i + 1; j < 3; j++ {
			if idx[i] > idx[j] {
				perm = -perm
			}
		}
	}
	rows := [3]Vec{IntVec(pts[idx[0]]), IntVec(pts[idx[1]]), IntVec(pts[idx[2]])}
	one := big.NewInt(1)
	zero := big.NewInt(0)
	for mask := 0; mask < 512; mask++ {
		// bit k: row k/3, column: k%3 == 0 -> Z(2), 1 -> Y(1), 2 -> X(0)
		var m [3]Vec
		m = rows
		usedRow := [3]bool{}
		usedCol := [3]bool{}
		ok := true
		for k := 0; k < 9 && ok; k++ {
			if mask&(1<<k) == 0 {
				continue
			}
			r, col := k/3, 2-k%3
			if usedRow[r] || usedCol[col] {
				ok = false
				break
			}
			usedRow[r], usedCol[col] = true, true
			unit := Vec{zero, zero, zero}
			unit[col] = one
			m[r] = unit
		}
		if !ok {
			continue
		}
		if s := Det(m[0], m[1], m[2]).Sign(); s != 0 {
			return perm * s
		}
	}
	panic("exact: SoS polynomial vanished identically")
}

// Rat returns f as an exact rational.
func Rat(f float64) *big.Rat {
	r := new(big.Rat)
	if r.SetFloat64(f) == nil {
		panic("exact: non-finite input")
	}
	return r
}

// CompareCosines returns the sign of  cos∠(x,a) − cos∠(x,b)  exactly, i.e. the
// sign of (x·a)|b| − (x·b)|a| (the common factor |x| > 0 cancels).  Vectors
// need not be unit length; zero vectors are not allowed.
func CompareCosines(x, a, b r3.Vector) int {
	X, A, B := IntVec(x), IntVec(a), IntVec(b)
	p := Dot(X, A) // p·|b|  vs  q·|a|
	q := Dot(X, B)
	return cmpScaled(p, Norm2(B), q, Norm2(A))
}

// cmpScaled returns sign(p·sqrt(n) − q·sqrt(m)) for n, m > 0.
func cmpScaled(p, n, q, m *big.Int) int {
	ps, qs := p.Sign(), q.Sign()
	switch {
	case ps >= 0 && qs <= 0:
		if ps == 0 && qs == 0 {
			return 0
		}
		return 1
	case ps <= 0 && qs >= 0:
		return -1
	}
	// same strict sign: compare squares
	l := mul(mul(p, p), n)
	r := mul(mul(q, q), m)
	c := l.Cmp(r)
	if ps < 0 {
		c = -c
	}
	return c
}

// CompareDistances returns the sign of dist(x,a) − dist(x,b) for the points
// projected onto the unit sphere (−1: a is closer), exactly; 0 means exactly
// equal angles.
func CompareDistances(x, a, b r3.Vector) int { return -CompareCosines(x, a, b) }

// CompareChord2 returns the sign of  chord²(x̂,ŷ) − r2  where x̂, ŷ are x, y
// projected onto the unit sphere: chord² = 2 − 2cos.  So sign(2 − r2 − 2cos) =
// sign((2−r2)|x||y| − 2 x·y).
func CompareChord2(x, y r3.Vector, r2 float64) int {
	vs, _ := IntVecs(x, y)
	X, Y := vs[0], vs[1]
	d := Dot(X, Y) // scaled by 2^(2E)
	n := mul(Norm2(X), Norm2(Y))
	// compare (2−r2)·sqrt(n) with 2d ; write (2−r2) = tn/td with td > 0
	t := new(big.Rat).Sub(big.NewRat(2, 1), Rat(r2))
	tn, td := t.Num(), t.Denom()
	// sign(tn·sqrt(n) − 2·d·td)
	return cmpScaled(tn, n, mul(big.NewInt(2), mul(d, td)), big.NewInt(1))
}

// SignDot returns the sign of a·b exactly.
func SignDot(a, b r3.Vector) int { return Dot(IntVec(a), IntVec(b)).Sign() }
