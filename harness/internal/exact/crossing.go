package exact

import (
	"github.com/golang/geo/r3"
)

// Sign is the orientation of (a,b,c): the exact determinant sign, the
// symbolic-perturbation sign when it vanishes, 0 iff two points are identical.
func Sign(a, b, c r3.Vector) int {
	if a == b || b == c || a == c {
		return 0
	}
	// Conservative floating-point filter (own code, threshold ~100x the
	// rounding error of a 3x3 determinant of vectors with |coordinates| <= 1.01):
	// far from degenerate, the float determinant's sign is certain.
	if small(a) && small(b) && small(c) {
		det := a.X*(b.Y*c.Z-b.Z*c.Y) + a.Y*(b.Z*c.X-b.X*c.Z) + a.Z*(b.X*c.Y-b.Y*c.X)
		if det > 1e-13 {
			return 1
		}
		if det < -1e-13 {
			return -1
		}
	}
	if d := DetSign(a, b, c); d != 0 {
		return d
	}
	return SoSSign(a, b, c)
}

func small(v r3.Vector) bool {
	return v.X <= 1.01 && v.X >= -1.01 && v.Y <= 1.01 && v.Y >= -1.01 && v.Z <= 1.01 && v.Z >= -1.01
}

// Crossing results, numerically equal to s2.Crossing values.
const (
	XCross      = 0
	XMaybeCross = 1
	XDoNotCross = 2
)

// CrossingSign is the documented edge-crossing relation evaluated exactly:
// MaybeCross iff a vertex of one edge equals a vertex of the other; otherwise
// DoNotCross for a degenerate edge; otherwise Cross iff the four orientations
// ACB, CBD, BDA, DAC agree.
func CrossingSign(a, b, c, d r3.Vector) int {
	if a == c || a == d || b == c || b == d {
		return XMaybeCross
	}
	if a == b || c == d {
		return XDoNotCross
	}
	acb := Sign(a, c, b)
	if Sign(c, b, d) != acb {
		return XDoNotCross
	}
	if Sign(b, d, a) != acb {
		return XDoNotCross
	}
	if Sign(d, a, c) != acb {
		return XDoNotCross
	}
	return XCross
}

// OrderedCCW is the documented predicate (edges OA, OB, OC met in that order
// sweeping CCW around O) with exact orientations.
func OrderedCCW(a, b, c, o r3.Vector) bool {
	sum := 0
	if Sign(b, o, a) >= 0 {
		sum++
	}
	if Sign(c, o, b) >= 0 {
		sum++
	}
	if Sign(a, o, c) > 0 {
		sum++
	}
	return sum >= 2
}

// refDir is the fixed reference direction at a vertex that the library
// documents for semi-open vertex containment (s2.Ortho): a deterministic unit
// vector different from a. It is re-stated here (same constants) because the
// rule "which of two edges at a shared vertex counts as crossing" is defined
// relative to it.
func refDir(a r3.Vector) r3.Vector {
	temp := r3.Vector{X: 0.012, Y: 0.0053, Z: 0.00457}
	switch a.LargestComponent() {
	case r3.XAxis:
		temp.Z = 1
	case r3.YAxis:
		temp.X = 1
	case r3.ZAxis:
		temp.Y = 1
	}
	return a.Cross(temp).Normalize()
}

// VertexCrossing is the documented shared-vertex crossing rule: a crossing
// occurs iff AB is encountered after CD during a CCW sweep around the shared
// vertex starting from the fixed reference direction.
func VertexCrossing(a, b, c, d r3.Vector) bool {
	if a == b || c == d {
		return false
	}
	switch {
	case a == c:
		return b == d || OrderedCCW(refDir(a), d, b, a)
	case b == d:
		return OrderedCCW(refDir(b), c, a, b)
	case a == d:
		return b == c || OrderedCCW(refDir(a), c, b, a)
	case b == c:
		return OrderedCCW(refDir(b), d, a, b)
	}
	return false
}

// EdgeOrVertexCrossing counts a crossing for point-in-polygon parity.
func EdgeOrVertexCrossing(a, b, c, d r3.Vector) bool {
	switch CrossingSign(a, b, c, d) {
	case XCross:
		return true
	case XDoNotCross:
		return false
	}
	return VertexCrossing(a, b, c, d)
}

// ParityContains decides whether the region bounded by the closed vertex
// chains `loops` (interior on the left of each edge) contains p, given one
// point `known` whose membership `knownInside` is known from the construction:
// the answer flips once per edge of any chain crossed by the segment known→p
// (exact crossings; documented shared-vertex rule). known→p must be shorter
// than a half circle (not antipodal).
func ParityContains(loops [][]r3.Vector, known r3.Vector, knownInside bool, p r3.Vector) bool {
	inside := knownInside
	if known == p {
		return inside
	}
	for _, v := range loops {
		n := len(v)
		for i := 0; i < n; i++ {
			if EdgeOrVertexCrossing(known, p, v[i], v[(i+1)%n]) {
				inside = !inside
			}
		}
	}
	return inside
}
