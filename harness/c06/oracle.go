package c06

import (
	"fmt"
	"math/big"
	"os"
	"sort"
	"strings"

	"github.com/golang/geo/r3"
	"github.com/golang/geo/s2"

	"verifharness/internal/ev"
	"verifharness/internal/exact"
	"verifharness/internal/gen"
)

// ---------------------------------------------------------------- failures with classes

type fail struct {
	class string
	msg   string
}

// pick turns a list of failures into an Outcome. When several assertions of
// one case fail, the one reported is the first whose class is not already a
// tolerated known finding, so that a confirmed defect cannot hide a different
// one in the same case.
func pick(o ev.Outcome, fails []fail) ev.Outcome {
	if len(fails) == 0 {
		return o
	}
	known := map[string]bool{}
	for _, c := range strings.Split(os.Getenv("VERIF_KNOWN"), ",") {
		if c = strings.TrimSpace(c); c != "" {
			known[c] = true
		}
	}
	f := fails[0]
	for _, g := range fails {
		if !known[g.class] {
			f = g
			break
		}
	}
	o.Err = f.msg
	o.Finding = f.class
	if len(fails) > 1 {
		o.Err += fmt.Sprintf("  [+%d further failed assertions in this case]", len(fails)-1)
	}
	return o
}

// ---------------------------------------------------------------- built shapes and the brute-force oracle

type bshape struct {
	spec   *shp
	shape  s2.Shape
	dim    int
	edges  []s2.Edge          // the shape's edges by edge id
	verts  map[gen.P]struct{} // endpoints of all edges
	vlist  []gen.P            // the same, in order of first appearance
	chains [][]r3.Vector      // closed vertex chains (shapes with an interior)
}

// modelEdges lists the edges by edge id straight from the vertex lists, as
// the documentation of each type defines them (nil for polygon, whose loop
// order is decided by the library).
func (s *shp) modelEdges() ([]s2.Edge, bool) {
	var out []s2.Edge
	switch s.T {
	case "polygon":
		return nil, false
	case "points":
		for _, l := range s.L {
			for _, p := range l {
				out = append(out, s2.Edge{V0: p.Pt(), V1: p.Pt()})
			}
		}
	case "polyline", "laxpolyline":
		for _, l := range s.L {
			for i := 0; i+1 < len(l); i++ {
				out = append(out, s2.Edge{V0: l[i].Pt(), V1: l[i+1].Pt()})
			}
		}
	default: // closed loops
		for _, l := range s.L {
			for i := range l {
				out = append(out, s2.Edge{V0: l[i].Pt(), V1: l[(i+1)%len(l)].Pt()})
			}
		}
	}
	return out, true
}

// polygonEdges enumerates a polygon's edges through its public loop accessors.
func polygonEdges(p *s2.Polygon) []s2.Edge {
	var out []s2.Edge
	if p.IsFull() {
		return nil
	}
	for k := 0; k < p.NumLoops(); k++ {
		l := p.Loop(k)
		for i := 0; i < l.NumVertices(); i++ {
			out = append(out, s2.Edge{V0: l.OrientedVertex(i), V1: l.OrientedVertex(i + 1)})
		}
	}
	return out
}

// valid reports whether the library's own validation accepts the generated
// geometry (a guard against generator mistakes; rejected cases are discarded
// and counted).
func (s *shp) valid(sh s2.Shape) bool {
	switch x := sh.(type) {
	case *s2.Loop:
		return x.Validate() == nil
	case *s2.Polygon:
		if s.Sp != "" {
			return true
		}
		return x.Validate() == nil
	case *s2.Polyline:
		return x.Validate() == nil
	}
	if s.dim() == 2 {
		for _, l := range s.L {
			if len(l) >= 3 {
				if s2.LoopFromPoints(gen.Pts(l)).Validate() != nil {
					return false
				}
			}
		}
	}
	return true
}

func buildShape(s *shp) (*bshape, bool) {
	sh := s.build()
	if !s.valid(sh) {
		return nil, false
	}
	b := &bshape{spec: s, shape: sh, dim: s.dim(), verts: map[gen.P]struct{}{}}
	if m, ok := s.modelEdges(); ok {
		b.edges = m
	} else {
		b.edges = polygonEdges(sh.(*s2.Polygon))
	}
	for _, e := range b.edges {
		for _, v := range []gen.P{gen.FromPt(e.V0), gen.FromPt(e.V1)} {
			if _, seen := b.verts[v]; !seen {
				b.verts[v] = struct{}{}
				b.vlist = append(b.vlist, v)
			}
		}
	}
	if b.dim == 2 {
		for _, l := range s.L {
			if len(l) == 0 {
				continue
			}
			c := make([]r3.Vector, len(l))
			for i, p := range l {
				c[i] = p.Pt().Vector
			}
			b.chains = append(b.chains, c)
		}
	}
	return b, true
}

// buildAll builds every shape and an index over them (shape id == position).
func buildAll(S []shp) (*s2.ShapeIndex, []*bshape, bool) {
	idx := s2.NewShapeIndex()
	var bs []*bshape
	for i := range S {
		b, ok := buildShape(&S[i])
		if !ok {
			return nil, nil, false
		}
		idx.Add(b.shape)
		bs = append(bs, b)
	}
	return idx, bs, true
}

// semiOpen is containment under the semi-open model for a shape with an
// interior: the construction's known point K, flipped once per edge of any
// boundary chain crossed (exact arithmetic; documented shared-vertex rule) by
// the segment K -> p.
func (b *bshape) semiOpen(p r3.Vector) bool {
	return exact.ParityContains(b.chains, b.spec.K.Pt().Vector, b.spec.KIn, p)
}

func (b *bshape) isVertex(p gen.P) bool {
	_, ok := b.verts[p]
	return ok
}

// contains is containment of p under a vertex model as documented:
// open: no shape contains its vertices, points and polylines contain nothing;
// semi-open: polygons by crossing parity, points and polylines contain nothing;
// closed: every shape contains its vertices, points and polylines nothing else.
func (b *bshape) contains(p gen.P, model s2.VertexModel) bool {
	isV := b.isVertex(p)
	if b.dim < 2 {
		return model == s2.VertexModelClosed && isV
	}
	if isV && model == s2.VertexModelOpen {
		return false
	}
	if isV && model == s2.VertexModelClosed {
		return true
	}
	return b.semiOpen(p.Pt().Vector)
}

func antipodal(a, b s2.Point) bool {
	s := a.Add(b.Vector)
	return s.Norm2() < 1e-20
}

// crossings lists the edge ids whose exact crossing relation with (a,b) is
// Cross (interior) or anything but DoNotCross (all).
func (b *bshape) crossings(a, bb r3.Vector) (interior, all []int) {
	for e, ed := range b.edges {
		switch exact.CrossingSign(a, bb, ed.V0.Vector, ed.V1.Vector) {
		case exact.XCross:
			interior = append(interior, e)
			all = append(all, e)
		case exact.XMaybeCross:
			all = append(all, e)
		}
	}
	return
}

func sameInts(a, b []int) bool {
	if len(a) != len(b) {
		return false
	}
	for i := range a {
		if a[i] != b[i] {
			return false
		}
	}
	return true
}

func sortedUnique(a []int) bool {
	return sort.SliceIsSorted(a, func(i, j int) bool { return a[i] < a[j] }) && func() bool {
		for i := 1; i < len(a); i++ {
			if a[i] == a[i-1] {
				return false
			}
		}
		return true
	}()
}

// ---------------------------------------------------------------- exact arc / cell-rectangle relation

// toUVW expresses p in the (u,v,w) frame of a cube face (a signed permutation
// of the coordinates: exact). Inverse of the published face map gen.FaceUVToXYZ.
func toUVW(face int, p r3.Vector) [3]float64 {
	switch face {
	case 0:
		return [3]float64{p.Y, p.Z, p.X}
	case 1:
		return [3]float64{-p.X, p.Z, p.Y}
	case 2:
		return [3]float64{-p.X, -p.Y, p.Z}
	case 3:
		return [3]float64{-p.Z, -p.Y, -p.X}
	case 4:
		return [3]float64{-p.Z, p.X, -p.Y}
	default:
		return [3]float64{p.Y, p.X, -p.Z}
	}
}

// box is the closed spherical region of a face whose gnomonic image is the
// rectangle [U0,U1]x[V0,V1]: the set of non-zero P with
// U0*w <= u <= U1*w and V0*w <= v <= V1*w (which implies w > 0).
type box struct {
	Face           int
	U0, U1, V0, V1 float64
}

func boxOf(id s2.CellID) box {
	c := s2.CellFromCellID(id)
	b := c.BoundUV()
	return box{Face: int(id.Face()), U0: b.X.Lo, U1: b.X.Hi, V0: b.Y.Lo, V1: b.Y.Hi}
}

func (b box) expanded(m float64) box {
	return box{Face: b.Face, U0: b.U0 - m, U1: b.U1 + m, V0: b.V0 - m, V1: b.V1 + m}
}

// fvals evaluates the four linear constraint functions at q (face frame).
func (b box) fvals(q [3]float64) [4]float64 {
	u, v, w := q[0], q[1], q[2]
	return [4]float64{u - b.U0*w, b.U1*w - u, v - b.V0*w, b.V1*w - v}
}

// arcBoxFloat decides whether the arc (1-t)A+tB, t in [0,1], meets the box
// using float64 values of the constraint functions at A and B, whose absolute
// rounding error is below 4e-16 (|coordinates| <= 1, |bounds| <= 1+1e-9):
// +1 certainly meets, -1 certainly does not, 0 undecided.
func arcBoxFloat(fa, fb [4]float64) int {
	const d = 1e-14
	lo, hi := 0.0, 1.0
	tl, th := 0.0, 1.0
	relaxedOK, tightOK := true, true
	for i := 0; i < 4; i++ {
		a, b := fa[i]+d, fb[i]+d
		switch {
		case a >= 0 && b >= 0:
		case a < 0 && b < 0:
			relaxedOK = false
		case a >= 0:
			if x := a / (a - b); x < hi {
				hi = x
			}
		default:
			if x := a / (a - b); x > lo {
				lo = x
			}
		}
		a, b = fa[i]-d, fb[i]-d
		switch {
		case a >= 0 && b >= 0:
		case a < 0 && b < 0:
			tightOK = false
		case a >= 0:
			if x := a / (a - b); x < th {
				th = x
			}
		default:
			if x := a / (a - b); x > tl {
				tl = x
			}
		}
	}
	if !relaxedOK || lo > hi+1e-12 {
		return -1
	}
	if tightOK && tl+1e-12 <= th {
		return 1
	}
	return 0
}

func rat(f float64) *big.Rat { return new(big.Rat).SetFloat64(f) }

// intervalExact intersects [0,1] with the four half-lines
// fa[i] + (fb[i]-fa[i])*t >= 0 in rational arithmetic.
func intervalExact(fa, fb [4]*big.Rat) (lo, hi *big.Rat, ok bool) {
	lo, hi = new(big.Rat), big.NewRat(1, 1)
	for i := 0; i < 4; i++ {
		a, bb := fa[i], fb[i]
		d := new(big.Rat).Sub(bb, a) // slope
		if d.Sign() == 0 {
			if a.Sign() < 0 {
				return nil, nil, false
			}
			continue
		}
		root := new(big.Rat).Quo(new(big.Rat).Neg(a), d)
		if d.Sign() > 0 {
			if root.Cmp(lo) > 0 {
				lo = root
			}
		} else {
			if root.Cmp(hi) < 0 {
				hi = root
			}
		}
	}
	if lo.Cmp(hi) > 0 {
		return nil, nil, false
	}
	return lo, hi, true
}

// ratCoef evaluates the box's constraint functions at q exactly.
func (b box) ratCoef(q [3]float64) [4]*big.Rat {
	u, v, w := rat(q[0]), rat(q[1]), rat(q[2])
	m := func(x float64) *big.Rat { return new(big.Rat).Mul(rat(x), w) }
	return [4]*big.Rat{
		new(big.Rat).Sub(u, m(b.U0)),
		new(big.Rat).Sub(m(b.U1), u),
		new(big.Rat).Sub(v, m(b.V0)),
		new(big.Rat).Sub(m(b.V1), v),
	}
}

// arcBoxExact computes, in rational arithmetic, the parameter interval
// [lo,hi] within [0,1] on which the arc (1-t)A+tB lies in the closed box.
func arcBoxExact(b box, A, B [3]float64) (lo, hi *big.Rat, ok bool) {
	return intervalExact(b.ratCoef(A), b.ratCoef(B))
}

// arcMeets decides exactly whether the arc from A to B (face-frame
// coordinates) meets the closed box.
func arcMeets(b box, A, B [3]float64) bool {
	switch arcBoxFloat(b.fvals(A), b.fvals(B)) {
	case 1:
		return true
	case -1:
		return false
	}
	_, _, ok := arcBoxExact(b, A, B)
	return ok
}

// faceCoords caches the face-frame coordinates of edge endpoints.
type faceCoords struct {
	edges []s2.Edge
	a, b  [6][][3]float64
}

func newFaceCoords(edges []s2.Edge) *faceCoords { return &faceCoords{edges: edges} }

func (fc *faceCoords) on(face int) (a, b [][3]float64) {
	if fc.a[face] == nil && len(fc.edges) > 0 {
		fc.a[face] = make([][3]float64, len(fc.edges))
		fc.b[face] = make([][3]float64, len(fc.edges))
		for i, e := range fc.edges {
			fc.a[face][i] = toUVW(face, e.V0.Vector)
			fc.b[face][i] = toUVW(face, e.V1.Vector)
		}
	}
	return fc.a[face], fc.b[face]
}

// meets reports exactly whether edge e meets the closed box.
func (fc *faceCoords) meets(bx box, e int) bool {
	a, b := fc.on(bx.Face)
	switch arcBoxFloat(bx.fvals(a[e]), bx.fvals(b[e])) {
	case 1:
		return true
	case -1:
		return false
	}
	_, _, ok := arcBoxExact(bx, a[e], b[e])
	return ok
}

// anyMeets reports whether any edge meets the closed box (and which).
func (fc *faceCoords) anyMeets(bx box) (int, bool) {
	for e := range fc.edges {
		if fc.meets(bx, e) {
			return e, true
		}
	}
	return -1, false
}
