package c06

import (
	"fmt"
	"math"
	"math/big"
	"os"

	"github.com/golang/geo/r1"
	"github.com/golang/geo/r2"
	"github.com/golang/geo/r3"
	"github.com/golang/geo/s2"
	"pgregory.net/rapid"

	"verifharness/internal/ev"
	"verifharness/internal/gen"
)

const (
	dblEps = 2.220446049250313e-16
	// the documented constants of edge_clipping.go, restated
	faceClipErrorUVCoord = 9.0 * (1.0 / math.Sqrt2) * dblEps
	edgeClipErrorUVCoord = 2.25 * dblEps
	// the padding the index uses
	indexPadding = 2.0 * (faceClipErrorUVCoord + edgeClipErrorUVCoord)
)

// ================================================================ f) ClipToPaddedFace

type faceClipCase struct {
	A, B gen.P
}

func cubePoint(t *rapid.T, label string) s2.Point {
	// a point with u or v exactly +-1 on some face (on a cube edge), or a cube corner
	f := rapid.IntRange(0, 5).Draw(t, label+".f")
	u := rapid.SampledFrom([]float64{-1, 1}).Draw(t, label+".u")
	v := rapid.Float64Range(-1, 1).Draw(t, label+".v")
	if rapid.IntRange(0, 3).Draw(t, label+".corner") == 0 {
		v = rapid.SampledFrom([]float64{-1, 1}).Draw(t, label+".vc")
	}
	if rapid.Bool().Draw(t, label+".swap") {
		u, v = v, u
	}
	return gen.Fix(s2.Point{Vector: gen.FaceUVToXYZ(f, u, v).Normalize()}, s2.PointFromCoords(1, 0, 0))
}

func genFaceClip(t *rapid.T) faceClipCase {
	var a, b s2.Point
	switch rapid.IntRange(0, 7).Draw(t, "kind") {
	case 0, 1:
		a, b = gen.Base(t, "a"), gen.Base(t, "b")
	case 2:
		a = gen.Base(t, "a")
		b = gen.Related(t, "b", []s2.Point{a})
	case 3: // a line passing a cube corner at a tiny distance
		c := gen.Fix(s2.Point{Vector: r3.Vector{
			X: rapid.SampledFrom([]float64{-1, 1}).Draw(t, "cx"),
			Y: rapid.SampledFrom([]float64{-1, 1}).Draw(t, "cy"),
			Z: rapid.SampledFrom([]float64{-1, 1}).Draw(t, "cz")}.Normalize()}, s2.PointFromCoords(1, 0, 0))
		x, y := frame(c)
		c2 := at(c, x, y, gen.TinyAngle(t, "off"), rapid.Float64Range(0, 2*math.Pi).Draw(t, "offaz"))
		if rapid.IntRange(0, 3).Draw(t, "exact") == 0 {
			c2 = c
		}
		x, y = frame(c2)
		az := rapid.Float64Range(0, 2*math.Pi).Draw(t, "az")
		a = at(c2, x, y, math.Pow(10, rapid.Float64Range(-12, 0).Draw(t, "ra")), az)
		b = at(c2, x, y, math.Pow(10, rapid.Float64Range(-12, 0).Draw(t, "rb")), az+math.Pi)
	case 4: // along or across cube edges
		a, b = cubePoint(t, "a"), cubePoint(t, "b")
	case 5: // from a cube edge to anywhere
		a, b = cubePoint(t, "a"), gen.Base(t, "b")
	case 6: // ulp-neighbours of cube-edge points
		a = gen.Perturb(t, "pa", cubePoint(t, "a"), 3)
		b = gen.Perturb(t, "pb", cubePoint(t, "b"), 3)
	default: // both on one face, anywhere
		f := rapid.IntRange(0, 5).Draw(t, "f")
		a = gen.Fix(s2.Point{Vector: gen.FaceUVToXYZ(f, rapid.Float64Range(-1, 1).Draw(t, "au"), rapid.Float64Range(-1, 1).Draw(t, "av")).Normalize()}, s2.PointFromCoords(1, 0, 0))
		b = gen.Fix(s2.Point{Vector: gen.FaceUVToXYZ(f, rapid.Float64Range(-1, 1).Draw(t, "bu"), rapid.Float64Range(-1, 1).Draw(t, "bv")).Normalize()}, s2.PointFromCoords(1, 0, 0))
	}
	return faceClipCase{A: gen.FromPt(a), B: gen.FromPt(b)}
}

// ratPoint is (1-t)A+tB in the face frame, exactly.
func ratPoint(A, B [3]float64, t *big.Rat) [3]*big.Rat {
	var out [3]*big.Rat
	for k := 0; k < 3; k++ {
		d := new(big.Rat).Sub(rat(B[k]), rat(A[k]))
		out[k] = new(big.Rat).Add(rat(A[k]), d.Mul(d, t))
	}
	return out
}

// inRectRat reports whether the gnomonic image (u/w, v/w) of the rational
// point P (w > 0) lies in the closed float rectangle.
func inRectRat(P [3]*big.Rat, x0, x1, y0, y1 float64) bool {
	ge := func(c *big.Rat, bound float64) bool { // c >= bound*w
		return c.Cmp(new(big.Rat).Mul(rat(bound), P[2])) >= 0
	}
	le := func(c *big.Rat, bound float64) bool {
		return c.Cmp(new(big.Rat).Mul(rat(bound), P[2])) <= 0
	}
	return P[2].Sign() > 0 && ge(P[0], x0) && le(P[0], x1) && ge(P[1], y0) && le(P[1], y1)
}

func checkFaceClip(c faceClipCase) ev.Outcome {
	o := ev.Outcome{Counts: map[string]int{}, Ratios: map[string]float64{}}
	a, b := c.A.Pt(), c.B.Pt()
	if a.Dot(b.Vector) < -0.999999 || !gen.Unit(a) || !gen.Unit(b) {
		o.Skip = true
		return o
	}
	var fails []fail
	faces := 0
	const guard = 1e-14
	const shrink = 1e-13
	for f := 0; f < 6; f++ {
		A, B := toUVW(f, a.Vector), toUVW(f, b.Vector)
		for _, pad := range []float64{0, indexPadding, 1e-10} {
			R := 1 + pad
			aUV, bUV, ok := s2.ClipToPaddedFace(a, b, f, pad)
			full := box{Face: f, U0: -R, U1: R, V0: -R, V1: R}
			inner := arcMeets(full.expanded(-guard), A, B)
			outer := inner || arcMeets(full.expanded(guard), A, B)
			exactMeets := inner || (outer && arcMeets(full, A, B))
			name := fmt.Sprintf("pad=%g", pad)
			if ok != exactMeets {
				o.Counts[fmt.Sprintf("answer_differs_from_exact_within_guard_band/%s/reported=%v", name, ok)]++
				if os.Getenv("C06_DEBUG") != "" && pad == 0 {
					fmt.Printf("DIFF a=%v b=%v face=%d reported=%v exact=%v result=%v %v\n", a, b, f, ok, exactMeets, aUV, bUV)
				}
			}
			if inner && !ok {
				fails = append(fails, fail{"faceclip-misses/" + name, fmt.Sprintf("ClipToPaddedFace(%v,%v, face %d, %g) reports no intersection, but the exact arc passes through the face square shrunk by %g", a, b, f, pad, guard)})
				continue
			}
			if ok && !outer {
				fails = append(fails, fail{"faceclip-phantom/" + name, fmt.Sprintf("ClipToPaddedFace(%v,%v, face %d, %g) reports an intersection %v-%v, but the exact arc misses the face square expanded by %g", a, b, f, pad, aUV, bUV, guard)})
				continue
			}
			if !ok {
				continue
			}
			if pad == 0 {
				faces++
			}
			o.Counts["clipped/"+name]++
			// the clipped vertices lie in the (padded) square
			for _, x := range []float64{aUV.X, aUV.Y, bUV.X, bUV.Y} {
				if ex := (math.Abs(x) - R) / dblEps; ex > o.Ratios["clipped coordinate beyond the padded square / eps"] {
					o.Ratios["clipped coordinate beyond the padded square / eps"] = ex
				}
				// The doc of ClipToFace says the clipped vertices lie within
				// [-1,1]²; when the fallback "use B's own projection" is taken
				// the coordinate can be one ulp outside (also in the C++
				// original). That is a rounding-level looseness of a helper's
				// doc comment, not part of property C06, so up to 4 eps beyond
				// the square is accepted (the observed excess is reported above).
				if !(math.Abs(x) <= R+4*dblEps) {
					fails = append(fails, fail{"faceclip-outside-square", fmt.Sprintf("ClipToPaddedFace(%v,%v, face %d, %g) = %v-%v: coordinate %.17g outside [-%.17g,%.17g]", a, b, f, pad, aUV, bUV, x, R, R)})
					break
				}
			}
			// each clipped vertex is within faceClipErrorUVCoord (per coordinate) of a point of the exact edge
			for vi, p := range []r2.Point{aUV, bUV} {
				found := 0.0
				for _, k := range []float64{0.125, 0.25, 0.5, 1, 4} {
					tol := k*faceClipErrorUVCoord + 2.3e-16
					if arcMeets(box{Face: f, U0: p.X - tol, U1: p.X + tol, V0: p.Y - tol, V1: p.Y + tol}, A, B) {
						found = k
						break
					}
				}
				if found == 0 {
					found = 100
				}
				if found > o.Ratios["clipped vertex error / faceClipErrorUVCoord (upper estimate)"] {
					o.Ratios["clipped vertex error / faceClipErrorUVCoord (upper estimate)"] = found
				}
				if found > 1 {
					fails = append(fails, fail{"faceclip-vertex-off-edge/" + name, fmt.Sprintf("ClipToPaddedFace(%v,%v, face %d, %g) = %v-%v: vertex %d is farther than faceClipErrorUVCoord (per coordinate) from every point of the exact edge (found within %gx)", a, b, f, pad, aUV, bUV, vi, found)})
				}
			}
			// coverage: the part of the exact edge inside the square shrunk by 1e-13 lies within the returned segment
			if lo, hi, ok2 := arcBoxExact(full.expanded(-shrink), A, B); ok2 {
				rect := r2.RectFromPoints(aUV, bUV)
				P0, P1 := ratPoint(A, B, lo), ratPoint(A, B, hi)
				if !inRectRat(P0, rect.X.Lo-guard, rect.X.Hi+guard, rect.Y.Lo-guard, rect.Y.Hi+guard) ||
					!inRectRat(P1, rect.X.Lo-guard, rect.X.Hi+guard, rect.Y.Lo-guard, rect.Y.Hi+guard) {
					fails = append(fails, fail{"faceclip-does-not-cover/" + name, fmt.Sprintf("ClipToPaddedFace(%v,%v, face %d, %g) = %v-%v does not span the part of the exact edge that lies inside the face square shrunk by %g", a, b, f, pad, aUV, bUV, shrink)})
				} else if lo.Cmp(hi) < 0 {
					// orientation: aUV is the end towards A
					du := new(big.Rat).Sub(new(big.Rat).Mul(P1[0], P0[2]), new(big.Rat).Mul(P0[0], P1[2])) // sign of u1-u0 (w>0)
					dv := new(big.Rat).Sub(new(big.Rat).Mul(P1[1], P0[2]), new(big.Rat).Mul(P0[1], P1[2]))
					su, sv := float64(du.Sign()), float64(dv.Sign())
					ru, rv := bUV.X-aUV.X, bUV.Y-aUV.Y
					if (su*ru < -guard && math.Abs(ru) > 1e-12) || (sv*rv < -guard && math.Abs(rv) > 1e-12) {
						fails = append(fails, fail{"faceclip-reversed/" + name, fmt.Sprintf("ClipToPaddedFace(%v,%v, face %d, %g) = %v-%v runs against the direction of the edge", a, b, f, pad, aUV, bUV)})
					}
				}
			}
		}
	}
	o.Class = fmt.Sprintf("faces=%d", faces)
	o.NonTrivial = faces >= 2
	return pick(o, fails)
}

// ================================================================ g) ClipEdge (2-D)

type clipEdgeCase struct {
	A, B [2]float64
	Clip [4]float64 // x lo, x hi, y lo, y hi
}

func uvValue(t *rapid.T, label string) float64 {
	switch rapid.IntRange(0, 5).Draw(t, label+".k") {
	case 0:
		return rapid.SampledFrom([]float64{-1, 1, 0, -1 - 1e-10, 1 + 1e-10, 1 - indexPadding, -1 + indexPadding}).Draw(t, label+".s")
	case 1, 2: // a cell boundary value, possibly a few ulps off
		lvl := rapid.IntRange(0, 30).Draw(t, label+".lvl")
		i := rapid.IntRange(0, 1<<uint(lvl)).Draw(t, label+".i")
		u := gen.STToUV(float64(i) / float64(int(1)<<uint(lvl)))
		return gen.Ulps(u, rapid.IntRange(-3, 3).Draw(t, label+".ulp"))
	default:
		return rapid.Float64Range(-1, 1).Draw(t, label+".u")
	}
}

func genClipEdge(t *rapid.T) clipEdgeCase {
	c := clipEdgeCase{}
	x0, x1 := uvValue(t, "x0"), uvValue(t, "x1")
	y0, y1 := uvValue(t, "y0"), uvValue(t, "y1")
	if x0 > x1 {
		x0, x1 = x1, x0
	}
	if y0 > y1 {
		y0, y1 = y1, y0
	}
	c.Clip = [4]float64{x0, x1, y0, y1}
	pt := func(label string) [2]float64 {
		switch rapid.IntRange(0, 4).Draw(t, label+".k") {
		case 0: // on the boundary of the clip rectangle (or its extension)
			return [2]float64{rapid.SampledFrom([]float64{x0, x1}).Draw(t, label+".bx"), uvValue(t, label+".y")}
		case 1:
			return [2]float64{uvValue(t, label+".x"), rapid.SampledFrom([]float64{y0, y1}).Draw(t, label+".by")}
		case 2: // inside
			return [2]float64{x0 + (x1-x0)*rapid.Float64Range(0, 1).Draw(t, label+".fx"), y0 + (y1-y0)*rapid.Float64Range(0, 1).Draw(t, label+".fy")}
		default:
			return [2]float64{uvValue(t, label+".x"), uvValue(t, label+".y")}
		}
	}
	c.A, c.B = pt("a"), pt("b")
	return c
}

// segMeets2D decides exactly whether the segment meets the closed rectangle and
// returns the exact parameter interval when asked.
func seg2DCoef(p [2]float64, r [4]float64) ([4]float64, [4]*big.Rat) {
	f := [4]float64{p[0] - r[0], r[1] - p[0], p[1] - r[2], r[3] - p[1]}
	q := [4]*big.Rat{
		new(big.Rat).Sub(rat(p[0]), rat(r[0])),
		new(big.Rat).Sub(rat(r[1]), rat(p[0])),
		new(big.Rat).Sub(rat(p[1]), rat(r[2])),
		new(big.Rat).Sub(rat(r[3]), rat(p[1])),
	}
	return f, q
}

func segInterval(a, b [2]float64, r [4]float64) (lo, hi *big.Rat, ok bool) {
	_, qa := seg2DCoef(a, r)
	_, qb := seg2DCoef(b, r)
	return intervalExact(qa, qb)
}

func segMeets(a, b [2]float64, r [4]float64) bool {
	fa, qa := seg2DCoef(a, r)
	fb, qb := seg2DCoef(b, r)
	switch arcBoxFloat(fa, fb) {
	case 1:
		return true
	case -1:
		return false
	}
	_, _, ok := intervalExact(qa, qb)
	return ok
}

func grow(r [4]float64, m float64) [4]float64 {
	return [4]float64{r[0] - m, r[1] + m, r[2] - m, r[3] + m}
}

func checkClipEdge(c clipEdgeCase) ev.Outcome {
	o := ev.Outcome{Ratios: map[string]float64{}}
	for _, x := range []float64{c.A[0], c.A[1], c.B[0], c.B[1], c.Clip[0], c.Clip[1], c.Clip[2], c.Clip[3]} {
		if math.IsNaN(x) || math.Abs(x) > 1+1e-9 {
			o.Skip = true
			return o
		}
	}
	if c.Clip[0] > c.Clip[1] || c.Clip[2] > c.Clip[3] {
		o.Skip = true
		return o
	}
	a, b := r2.Point{X: c.A[0], Y: c.A[1]}, r2.Point{X: c.B[0], Y: c.B[1]}
	clip := r2.Rect{X: r1.Interval{Lo: c.Clip[0], Hi: c.Clip[1]}, Y: r1.Interval{Lo: c.Clip[2], Hi: c.Clip[3]}}
	aC, bC, ok := s2.ClipEdge(a, b, clip)
	const guard = 1e-14
	const shrink = 1e-13
	var fails []fail
	wide := c.Clip[1]-c.Clip[0] > 4*shrink && c.Clip[3]-c.Clip[2] > 4*shrink
	inner := wide && segMeets(c.A, c.B, grow(c.Clip, -guard))
	outer := inner || segMeets(c.A, c.B, grow(c.Clip, guard))
	o.Class = fmt.Sprintf("intersects=%v/within-guard=%v", ok, outer && !inner)
	o.NonTrivial = ok && a != b
	desc := fmt.Sprintf("ClipEdge(%v, %v, %v)", a, b, clip)
	switch {
	case inner && !ok:
		fails = append(fails, fail{"clipedge-misses", desc + " reports no intersection, but the exact segment passes through the rectangle shrunk by 1e-14"})
	case ok && !outer:
		fails = append(fails, fail{"clipedge-phantom", fmt.Sprintf("%s = %v-%v, but the exact segment misses the rectangle expanded by 1e-14", desc, aC, bC)})
	case ok:
		for vi, p := range []r2.Point{aC, bC} {
			if !clip.ContainsPoint(p) {
				fails = append(fails, fail{"clipedge-outside", fmt.Sprintf("%s = %v-%v: vertex %d is outside the clip rectangle", desc, aC, bC, vi)})
			}
			found := 0.0
			for _, k := range []float64{0.25, 0.5, 1, 4} {
				tol := k*edgeClipErrorUVCoord + 2.3e-16
				if segMeets(c.A, c.B, [4]float64{p.X - tol, p.X + tol, p.Y - tol, p.Y + tol}) {
					found = k
					break
				}
			}
			if found == 0 {
				found = 100
			}
			if found > o.Ratios["clipped vertex error / edgeClipErrorUVCoord (upper estimate)"] {
				o.Ratios["clipped vertex error / edgeClipErrorUVCoord (upper estimate)"] = found
			}
			if found > 1 {
				fails = append(fails, fail{"clipedge-vertex-off-edge", fmt.Sprintf("%s = %v-%v: vertex %d is farther than edgeClipErrorUVCoord from the exact segment (found within %gx)", desc, aC, bC, vi, found)})
			}
		}
		if wide {
			if lo, hi, ok2 := segInterval(c.A, c.B, grow(c.Clip, -shrink)); ok2 {
				rect := r2.RectFromPoints(aC, bC)
				in := func(t *big.Rat) bool {
					for k := 0; k < 2; k++ {
						d := new(big.Rat).Sub(rat(c.B[k]), rat(c.A[k]))
						x := new(big.Rat).Add(rat(c.A[k]), d.Mul(d, t))
						l, h := rect.X.Lo, rect.X.Hi
						if k == 1 {
							l, h = rect.Y.Lo, rect.Y.Hi
						}
						if x.Cmp(rat(l-guard)) < 0 || x.Cmp(rat(h+guard)) > 0 {
							return false
						}
					}
					return true
				}
				if !in(lo) || !in(hi) {
					fails = append(fails, fail{"clipedge-does-not-cover", fmt.Sprintf("%s = %v-%v does not span the part of the exact segment inside the rectangle shrunk by 1e-13", desc, aC, bC)})
				}
				// orientation: aC is the end towards a
				if (b.X-a.X)*(bC.X-aC.X) < 0 && math.Abs(bC.X-aC.X) > 1e-12 || (b.Y-a.Y)*(bC.Y-aC.Y) < 0 && math.Abs(bC.Y-aC.Y) > 1e-12 {
					fails = append(fails, fail{"clipedge-reversed", fmt.Sprintf("%s = %v-%v runs against the direction of the segment", desc, aC, bC)})
				}
			}
		}
	}
	return pick(o, fails)
}

// ================================================================ h) PaddedCell

type paddedCase struct {
	ID   uint64
	Pad  float64
	Path []int        // child (i,j) choices, 2*i+j, followed downwards from ID
	Rect [4]float64   // fractions of the (padded) bound: x lo, x hi, y lo, y hi
	Q    [][2]float64 // probe positions as fractions of Rect (may lie slightly outside)
}

func genPadded(t *rapid.T) paddedCase {
	c := paddedCase{}
	face := rapid.IntRange(0, 5).Draw(t, "face")
	level := rapid.IntRange(0, 29).Draw(t, "level")
	if rapid.IntRange(0, 3).Draw(t, "top") == 0 {
		level = rapid.IntRange(0, 3).Draw(t, "lowlevel")
	}
	c.ID = uint64(gen.CellIDAt(t, "cell", face, level))
	c.Pad = rapid.SampledFrom([]float64{0, indexPadding, indexPadding, 1e-9, 1e-4}).Draw(t, "pad")
	for l := level; l < 30; l++ {
		c.Path = append(c.Path, rapid.IntRange(0, 3).Draw(t, "ij"))
	}
	// the rectangle: often tiny or thin, placed anywhere in the cell, sometimes touching child boundaries
	f := func(label string) float64 {
		switch rapid.IntRange(0, 3).Draw(t, label+".k") {
		case 0:
			return float64(rapid.IntRange(0, 16).Draw(t, label+".q")) / 16 // dyadic positions: child boundaries
		default:
			return rapid.Float64Range(0, 1).Draw(t, label+".f")
		}
	}
	x0, y0 := f("x0"), f("y0")
	w := math.Pow(10, rapid.Float64Range(-17, 0).Draw(t, "w"))
	h := math.Pow(10, rapid.Float64Range(-17, 0).Draw(t, "h"))
	if rapid.IntRange(0, 4).Draw(t, "point") == 0 {
		w, h = 0, 0
	}
	c.Rect = [4]float64{x0, math.Min(1, x0+w), y0, math.Min(1, y0+h)}
	for i := 0; i < 6; i++ {
		c.Q = append(c.Q, [2]float64{rapid.Float64Range(-0.1, 1.1).Draw(t, "qx"), rapid.Float64Range(-0.1, 1.1).Draw(t, "qy")})
	}
	return c
}

func sameRect(a, b r2.Rect) bool { return a.X == b.X && a.Y == b.Y }

func checkPadded(c paddedCase) ev.Outcome {
	o := ev.Outcome{Counts: map[string]int{}}
	id := s2.CellID(c.ID)
	if !id.IsValid() || c.Pad < 0 || c.Pad > 0.01 || len(c.Path) > 30 {
		o.Skip = true
		return o
	}
	var fails []fail
	addf := func(class, format string, a ...any) {
		if len(fails) < 20 {
			fails = append(fails, fail{"paddedcell-" + class, fmt.Sprintf(format, a...)})
		}
	}
	p := s2.PaddedCellFromCellID(id, c.Pad)
	o.Class = fmt.Sprintf("level<=%d/pad=%g", (id.Level()+9)/10*10, c.Pad)
	o.NonTrivial = true

	// bound, centre, entry/exit of the cell itself
	cell := s2.CellFromCellID(id)
	if want := cell.BoundUV().ExpandedByMargin(c.Pad); !sameRect(p.Bound(), want) {
		addf("bound", "PaddedCellFromCellID(%v, %g).Bound() = %v, the cell's uv bound expanded by the padding is %v", id, c.Pad, p.Bound(), want)
	}
	if p.CellID() != id || p.Level() != id.Level() || p.Padding() != c.Pad {
		addf("fields", "PaddedCellFromCellID(%v, %g): id %v level %d padding %g", id, c.Pad, p.CellID(), p.Level(), p.Padding())
	}
	if p.Center() != id.Point() {
		addf("center", "PaddedCell(%v).Center() = %v, the cell centre is %v", id, p.Center(), id.Point())
	}
	isVertex := func(q s2.Point, cl s2.Cell) bool {
		for k := 0; k < 4; k++ {
			if cl.Vertex(k).Sub(q.Vector).Norm() < 1e-15 {
				return true
			}
		}
		return false
	}
	checkCurve := func(pc *s2.PaddedCell) {
		cid := pc.CellID()
		cl := s2.CellFromCellID(cid)
		en, ex := pc.EntryVertex(), pc.ExitVertex()
		if !isVertex(en, cl) || !isVertex(ex, cl) || en.Sub(ex.Vector).Norm() < 1e-15 && false {
			addf("curve", "PaddedCell(%v): entry %v / exit %v is not a vertex of the cell", cid, en, ex)
		}
		// the space-filling curve is continuous: the exit of a cell is the entry of the next cell of its level
		// (also across faces), and a cell is entered where its first child is and left where its last child is
		if nx := cid.Next(); nx.IsValid() && nx.Face() == cid.Face() {
			if q := s2.PaddedCellFromCellID(nx, c.Pad).EntryVertex(); q.Sub(ex.Vector).Norm() > 1e-15 {
				addf("curve", "exit vertex %v of cell %v is not the entry vertex %v of the next cell %v", ex, cid, q, nx)
			}
		}
		if !cid.IsLeaf() {
			ch := cid.Children()
			if q := s2.PaddedCellFromCellID(ch[0], c.Pad).EntryVertex(); q.Sub(en.Vector).Norm() > 1e-15 {
				addf("curve", "entry vertex %v of cell %v is not the entry vertex %v of its first child", en, cid, q)
			}
			if q := s2.PaddedCellFromCellID(ch[3], c.Pad).ExitVertex(); q.Sub(ex.Vector).Norm() > 1e-15 {
				addf("curve", "exit vertex %v of cell %v is not the exit vertex %v of its last child", ex, cid, q)
			}
		}
	}
	checkCurve(p)

	// children built incrementally agree with children built from their ids
	cur := p
	for depth, ij := range c.Path {
		if cur.CellID().IsLeaf() {
			break
		}
		// all four children of this cell
		mid := cur.Middle()
		pb := cur.Bound()
		var seen [4]bool
		for pos := 0; pos < 4; pos++ {
			i, j := cur.ChildIJ(pos)
			if i < 0 || i > 1 || j < 0 || j > 1 || seen[2*i+j] {
				addf("childij", "cell %v: ChildIJ(%d) = (%d,%d)", cur.CellID(), pos, i, j)
				continue
			}
			seen[2*i+j] = true
			ch := s2.PaddedCellFromParentIJ(cur, i, j)
			wantID := cur.CellID().Children()[pos]
			if ch.CellID() != wantID {
				addf("child-id", "cell %v: ChildIJ(%d) = (%d,%d) but PaddedCellFromParentIJ(%d,%d) is %v, child %d is %v", cur.CellID(), pos, i, j, i, j, ch.CellID(), pos, wantID)
				continue
			}
			direct := s2.PaddedCellFromCellID(wantID, c.Pad)
			if !sameRect(ch.Bound(), direct.Bound()) {
				addf("child-bound", "cell %v child (%d,%d) = %v: incremental bound %v, bound from its id %v", cur.CellID(), i, j, wantID, ch.Bound(), direct.Bound())
			}
			if ch.Level() != cur.Level()+1 {
				addf("child-level", "cell %v child (%d,%d): level %d", cur.CellID(), i, j, ch.Level())
			}
			// the child lies in quadrant (i,j): it keeps the parent's low side iff i (j) == 0
			cb := ch.Bound()
			if (i == 0) != (cb.X.Lo == pb.X.Lo) || (i == 1) != (cb.X.Hi == pb.X.Hi) || (j == 0) != (cb.Y.Lo == pb.Y.Lo) || (j == 1) != (cb.Y.Hi == pb.Y.Hi) {
				addf("child-quadrant", "cell %v (bound %v) child (%d,%d) has bound %v", cur.CellID(), pb, i, j, cb)
			}
			if ch.Center() != wantID.Point() || ch.EntryVertex() != direct.EntryVertex() || ch.ExitVertex() != direct.ExitVertex() {
				addf("child-curve", "cell %v child (%d,%d) = %v: centre/entry/exit differ between the incremental child and the cell built from its id", cur.CellID(), i, j, wantID)
			}
		}
		// middle = the part of the bound common to all four (padded) children
		m0 := s2.PaddedCellFromParentIJ(cur, 0, 0).Bound()
		m1 := s2.PaddedCellFromParentIJ(cur, 1, 1).Bound()
		if mid.X.Lo != m1.X.Lo || mid.X.Hi != m0.X.Hi || mid.Y.Lo != m1.Y.Lo || mid.Y.Hi != m0.Y.Hi {
			addf("middle", "cell %v: Middle() = %v, children (0,0) %v and (1,1) %v", cur.CellID(), mid, m0, m1)
		}
		if depth < 3 {
			checkCurve(cur)
		}
		cur = s2.PaddedCellFromParentIJ(cur, ij>>1, ij&1)
		if len(fails) > 0 {
			break
		}
	}

	// ShrinkToFit: the result contains every descendant whose padded bound meets the rectangle
	pb := p.Bound()
	lerp := func(lo, hi, f float64) float64 { return lo + (hi-lo)*f }
	rect := r2.Rect{
		X: r1.Interval{Lo: lerp(pb.X.Lo, pb.X.Hi, c.Rect[0]), Hi: lerp(pb.X.Lo, pb.X.Hi, c.Rect[1])},
		Y: r1.Interval{Lo: lerp(pb.Y.Lo, pb.Y.Hi, c.Rect[2]), Hi: lerp(pb.Y.Lo, pb.Y.Hi, c.Rect[3])},
	}
	if rect.X.Lo > rect.X.Hi || rect.Y.Lo > rect.Y.Hi || !rect.Intersects(pb) {
		return pick(o, fails)
	}
	R := p.ShrinkToFit(rect)
	if !R.IsValid() || !id.Contains(R) {
		addf("shrink-range", "PaddedCell(%v, %g).ShrinkToFit(%v) = %v is not the cell or a descendant", id, c.Pad, rect, R)
		return pick(o, fails)
	}
	o.Counts[fmt.Sprintf("shrunk_levels<=%d", bucket(R.Level()-id.Level()))]++
	ub := cell.BoundUV()
	for _, q := range c.Q {
		// a point of the face near the rectangle, clamped into the cell proper
		u := math.Max(ub.X.Lo, math.Min(ub.X.Hi, lerp(rect.X.Lo, rect.X.Hi, q[0])))
		v := math.Max(ub.Y.Lo, math.Min(ub.Y.Hi, lerp(rect.Y.Lo, rect.Y.Hi, q[1])))
		leaf := s2.CellFromPoint(s2.Point{Vector: gen.FaceUVToXYZ(int(id.Face()), u, v).Normalize()}).ID()
		if !id.Contains(leaf) {
			continue // rounding at the cell's own boundary
		}
		// every ancestor of the leaf below id whose padded bound meets rect must lie inside R
		for l := 30; l > id.Level(); l -= 3 {
			d := leaf.Parent(l)
			if s2.PaddedCellFromCellID(d, c.Pad).Bound().Intersects(rect) {
				o.Counts["descendants_meeting_rect"]++
				if !R.Intersects(d) {
					addf("shrink-drops-descendant", "PaddedCell(%v, %g).ShrinkToFit(%v) = %v (level %d) is disjoint from descendant %v (level %d) whose padded bound %v meets the rectangle", id, c.Pad, rect, R, R.Level(), d, d.Level(), s2.PaddedCellFromCellID(d, c.Pad).Bound())
					break
				}
			}
		}
	}
	return pick(o, fails)
}

func init() {
	ev.Define("face_clip", ev.Options{
		Rule:  "edges (random, related/near-duplicate, passing a cube corner at 1e-300..0.1 rad or exactly, along/across cube edges, ulp-neighbours of cube-edge points, within one face; endpoints never within 1.4e-3 rad of antipodal) clipped with ClipToPaddedFace to each of the 6 faces with padding 0, the index padding (3.8e-15) and 1e-10. Oracle: exact rational test of the arc against the face square (gnomonic image), with a 1e-14 guard band for the yes/no answer. Asserted: no intersection reported => the arc does not pass through the square shrunk by 1e-14, and vice versa for the expanded square; clipped vertices lie in the padded square (exact); each clipped vertex is within faceClipErrorUVCoord per coordinate of a point of the exact edge (exact box test); the returned segment spans the part of the exact edge inside the square shrunk by 1e-13 and runs from A towards B. Non-trivial: the edge is clipped to >= 2 faces.",
		Quick: 12000, Thorough: 600000}, genFaceClip, checkFaceClip)
	ev.Define("clip_edge", ev.Options{
		Rule:  "2-D segments and clip rectangles with coordinates from cell-boundary values of all levels +-3 ulps, +-1, +-(1+1e-10), 1 - padding, uniform values; endpoints on the rectangle's boundary lines, inside, anywhere. Oracle: exact rational segment/rectangle intersection. Asserted for ClipEdge: yes/no answer correct outside a 1e-14 guard band; clipped vertices inside the rectangle (exact) and within edgeClipErrorUVCoord per coordinate of the exact segment; the result spans the part of the segment inside the rectangle shrunk by 1e-13, in the segment's direction. Non-trivial: an intersection is reported and the segment is not a point.",
		Quick: 30000, Thorough: 2000000}, genClipEdge, checkClipEdge)
	ev.Define("padded_cell", ev.Options{
		Rule:  "cells of any level (path-biased to face edges/corners) with padding 0, 3.8e-15, 1e-9, 1e-4: Bound == Cell.BoundUV expanded; Center == cell centre; entry/exit vertices are cell vertices and chain along the Hilbert curve (exit == entry of the next cell, entry/exit of first/last child); along a random path to the leaf level all four incremental children (ChildIJ, PaddedCellFromParentIJ) have the id, level, bound, centre, entry, exit of the child built from its id, lie in quadrant (i,j), and Middle() is the overlap of the children; ShrinkToFit(rect) for rectangles from points to the whole bound (dyadic and random positions): the result is the cell or a descendant and no examined descendant (ancestors of leaf cells at and around the rectangle, every third level) whose padded bound meets the rectangle is disjoint from it. All cases non-trivial.",
		Quick: 12000, Thorough: 600000}, genPadded, checkPadded)
}
