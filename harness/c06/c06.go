// Package c06: spatial-index queries return exactly what brute force over all
// edges returns, and every shape type exposes one consistent edge set.
package c06

import (
	"fmt"
	"math/big"
	"sort"

	"github.com/golang/geo/r3"
	"github.com/golang/geo/s2"
	"pgregory.net/rapid"

	"verifharness/internal/ev"
	"verifharness/internal/exact"
	"verifharness/internal/gen"
)

func bucket(n int) int {
	if n == 0 {
		return 0
	}
	b := 1
	for b < n {
		b *= 4
	}
	return b
}

func dimsOf(bs []*bshape) string {
	var has [3]bool
	for _, b := range bs {
		has[b.dim] = true
	}
	s := ""
	for d, h := range has {
		if h {
			s += fmt.Sprint(d)
		}
	}
	return s
}

// locate finds the index cell containing the leaf cell of p (binary search
// over the dumped cells; used for evidence classification and coverage).
func locate(cells []s2.VerifIndexCell, p s2.Point) int {
	leaf := s2.CellFromPoint(p).ID()
	i := sort.Search(len(cells), func(i int) bool { return cells[i].ID >= leaf })
	if i < len(cells) && cells[i].ID.RangeMin() <= leaf {
		return i
	}
	if i > 0 && cells[i-1].ID.RangeMax() >= leaf {
		return i - 1
	}
	return -1
}

func shapesWithEdges(c s2.VerifIndexCell) int {
	n := 0
	for _, cs := range c.Shapes {
		if len(cs.Edges) > 0 {
			n++
		}
	}
	return n
}

// pickCells selects up to n cell positions spread over the index, starting at
// an offset that is part of the case (so the choice replays).
func pickCells(total, n, sel int) []int {
	if total <= n {
		out := make([]int, total)
		for i := range out {
			out[i] = i
		}
		return out
	}
	out := make([]int, 0, n)
	seen := map[int]bool{}
	for k := 0; k < n; k++ {
		i := (sel + k*total/n) % total
		if !seen[i] {
			seen[i] = true
			out = append(out, i)
		}
	}
	return out
}

var modelNames = map[s2.VertexModel]string{s2.VertexModelOpen: "open", s2.VertexModelSemiOpen: "semiopen", s2.VertexModelClosed: "closed"}

// ================================================================ a) ContainsPointQuery

type containsCase struct {
	S   []shp
	P   []gen.P
	Sel int
}

func genContains(t *rapid.T) containsCase {
	S := genShapes(t, 12, edgeBudget(t))
	return containsCase{S: S, P: probePoints(t, S, 20), Sel: rapid.IntRange(0, 1<<20).Draw(t, "sel")}
}

func checkContains(c containsCase) ev.Outcome {
	o := ev.Outcome{Counts: map[string]int{}}
	idx, bs, ok := buildAll(c.S)
	if !ok {
		o.Skip = true
		return o
	}
	cells := s2.VerifIndexCells(idx)
	o.Class = fmt.Sprintf("dims=%s/cells<=%d", dimsOf(bs), bucket(len(cells)))
	var fails []fail

	// the library's reference point of every shape agrees with the construction
	for i, b := range bs {
		if b.dim != 2 {
			continue
		}
		ref := b.shape.ReferencePoint()
		if antipodal(b.spec.K.Pt(), ref.Point) {
			continue
		}
		if want := b.semiOpen(ref.Point.Vector); want != ref.Contained {
			fails = append(fails, fail{"reference-point/" + b.spec.T, fmt.Sprintf("shape %d (%s %s): ReferencePoint() says contained=%v at %v, exact crossing parity from the construction's known point says %v", i, b.spec.T, b.spec.Fam, ref.Contained, ref.Point, want)})
		}
	}

	// probes: the drawn ones plus centres and corners of index cells
	probes := append([]gen.P(nil), c.P...)
	for _, k := range pickCells(len(cells), 6, c.Sel) {
		id := cells[k].ID
		probes = append(probes, gen.FromPt(id.Point()))
		probes = append(probes, gen.FromPt(s2.CellFromCellID(id).Vertex((c.Sel+k)%4)))
		if !id.IsLeaf() {
			probes = append(probes, gen.FromPt(id.Children()[(c.Sel+k)%4].Point()))
		}
	}

	queries := map[s2.VertexModel]*s2.ContainsPointQuery{}
	for m := range modelNames {
		queries[m] = s2.NewContainsPointQuery(idx, m)
	}
	models := []s2.VertexModel{s2.VertexModelOpen, s2.VertexModelSemiOpen, s2.VertexModelClosed}
	multi := false
	for pi, pp := range probes {
		p := pp.Pt()
		bad := false
		for _, b := range bs {
			if b.dim == 2 && antipodal(b.spec.K.Pt(), p) {
				bad = true
			}
		}
		if bad {
			continue
		}
		o.Counts["probes"]++
		if k := locate(cells, p); k >= 0 && shapesWithEdges(cells[k]) >= 2 {
			multi = true
			o.Counts["probes_in_cell_with_edges_of_2+_shapes"]++
		}
		// truth per shape: semi-open parity once, vertex status once
		semi := make([]bool, len(bs))
		isV := make([]bool, len(bs))
		for i, b := range bs {
			isV[i] = b.isVertex(pp)
			if b.dim == 2 {
				semi[i] = b.semiOpen(p.Vector)
			}
			if isV[i] {
				o.Counts["probe_is_vertex_of_shape"]++
			}
		}
		for _, m := range models {
			q := queries[m]
			want := make([]bool, len(bs))
			any := false
			for i, b := range bs {
				switch {
				case b.dim < 2:
					want[i] = m == s2.VertexModelClosed && isV[i]
				case isV[i] && m == s2.VertexModelOpen:
					want[i] = false
				case isV[i] && m == s2.VertexModelClosed:
					want[i] = true
				default:
					want[i] = semi[i]
				}
				any = any || want[i]
			}
			if any {
				o.Counts["contained/"+modelNames[m]]++
			}
			if got := q.Contains(p); got != any {
				fails = append(fails, fail{"contains/" + modelNames[m], fmt.Sprintf("probe %d %v, %s model: Contains=%v, scan over all edges of all %d shapes says %v (per shape %v, vertex of %v)", pi, p, modelNames[m], got, len(bs), any, want, isV)})
			}
			var wantSet []int
			for i, b := range bs {
				if want[i] {
					wantSet = append(wantSet, i)
				}
				if got := q.ShapeContains(b.shape, p); got != want[i] {
					fails = append(fails, fail{fmt.Sprintf("shapecontains/%s/%s/vertex=%v", modelNames[m], b.spec.T, isV[i]), fmt.Sprintf("probe %d %v, %s model: ShapeContains(shape %d: %s %s, %d edges)=%v, scan over all its edges says %v (probe is a vertex of it: %v)", pi, p, modelNames[m], i, b.spec.T, b.spec.Fam, len(b.edges), got, want[i], isV[i])})
				}
			}
			var gotSet []int
			for _, sh := range q.ContainingShapes(p) {
				id := -1
				for i, b := range bs {
					if b.shape == sh {
						id = i
					}
				}
				gotSet = append(gotSet, id)
			}
			sort.Ints(gotSet)
			if !sameInts(gotSet, wantSet) {
				fails = append(fails, fail{"containingshapes/" + modelNames[m], fmt.Sprintf("probe %d %v, %s model: ContainingShapes=%v, scan says %v", pi, p, modelNames[m], gotSet, wantSet)})
			}
		}
		if len(fails) > 8 {
			break
		}
	}
	o.NonTrivial = len(cells) >= 2 && multi
	return pick(o, fails)
}

// ================================================================ b) CrossingEdgeQuery

type crossCase struct {
	S []shp
	E [][2]gen.P
}

func genCross(t *rapid.T) crossCase {
	S := genShapes(t, 12, edgeBudget(t))
	return crossCase{S: S, E: probeEdges(t, S, 16)}
}

func checkCross(c crossCase) ev.Outcome {
	o := ev.Outcome{Counts: map[string]int{}}
	idx, bs, ok := buildAll(c.S)
	if !ok {
		o.Skip = true
		return o
	}
	cells := s2.VerifIndexCells(idx)
	o.Class = fmt.Sprintf("shapes<=%d/cells<=%d", bucket(len(bs)), bucket(len(cells)))
	q := s2.NewCrossingEdgeQuery(idx)
	var fails []fail
	multiFace, hit := false, false
	for qi, e := range c.E {
		a, b := e[0].Pt(), e[1].Pt()
		if a.Dot(b.Vector) < -0.999999 {
			o.Counts["skipped_nearly_antipodal_query"]++
			continue
		}
		o.Counts["queries"]++
		if fa, fb := s2.CellFromPoint(a).Face(), s2.CellFromPoint(b).Face(); fa != fb {
			multiFace = true
			o.Counts["queries_spanning_faces"]++
		}
		if a == b {
			o.Counts["degenerate_queries"]++
		}
		wantI := make([][]int, len(bs))
		wantA := make([][]int, len(bs))
		for i, sh := range bs {
			wantI[i], wantA[i] = sh.crossings(a.Vector, b.Vector)
			if len(wantA[i]) > 0 {
				o.Counts["shape_queries_with_crossings"]++
				if len(sh.edges) > 27 {
					hit = true
				}
			}
			path := "brute"
			if len(sh.edges) > 27 {
				path = "index"
			}
			for _, ct := range []s2.CrossingType{s2.CrossingTypeInterior, s2.CrossingTypeAll} {
				want, name := wantI[i], "interior"
				if ct == s2.CrossingTypeAll {
					want, name = wantA[i], "all"
				}
				got := q.Crossings(a, b, sh.shape, ct)
				if !sortedUnique(got) {
					fails = append(fails, fail{"crossings-unsorted/" + path, fmt.Sprintf("query %d (%v,%v): Crossings(shape %d, %s) = %v is not sorted and unique", qi, a, b, i, name, got)})
				} else if !sameInts(got, want) {
					fails = append(fails, fail{fmt.Sprintf("crossings/%s/%s/%s", name, path, sh.spec.T), fmt.Sprintf("query %d (%v,%v): Crossings(shape %d: %s %s with %d edges, %s) = %v, exact scan over all its edges = %v", qi, a, b, i, sh.spec.T, sh.spec.Fam, len(sh.edges), name, got, want)})
				}
			}
		}
		for _, ct := range []s2.CrossingType{s2.CrossingTypeInterior, s2.CrossingTypeAll} {
			want, name := wantI, "interior"
			if ct == s2.CrossingTypeAll {
				want, name = wantA, "all"
			}
			em := q.CrossingsEdgeMap(a, b, ct)
			seen := 0
			for i, sh := range bs {
				got, present := em[sh.shape]
				if present {
					seen++
				}
				if present && len(got) == 0 {
					fails = append(fails, fail{"edgemap-empty-entry", fmt.Sprintf("query %d (%v,%v): CrossingsEdgeMap(%s) has an entry without edges for shape %d", qi, a, b, name, i)})
				}
				if !sortedUnique(got) {
					fails = append(fails, fail{"edgemap-unsorted", fmt.Sprintf("query %d (%v,%v): CrossingsEdgeMap(%s)[shape %d] = %v is not sorted and unique", qi, a, b, name, i, got)})
				} else if !sameInts(got, want[i]) {
					single := "multi"
					if len(bs) == 1 {
						single = "single"
					}
					fails = append(fails, fail{fmt.Sprintf("edgemap/%s/%s", name, single), fmt.Sprintf("query %d (%v,%v): CrossingsEdgeMap(%s)[shape %d: %s %s, %d edges] = %v, exact scan = %v (index of %d shapes, %d cells)", qi, a, b, name, i, sh.spec.T, sh.spec.Fam, len(sh.edges), got, want[i], len(bs), len(cells))})
				}
			}
			if seen != len(em) {
				fails = append(fails, fail{"edgemap-foreign-key", fmt.Sprintf("query %d: CrossingsEdgeMap(%s) has %d keys, only %d belong to shapes of the index", qi, name, len(em), seen)})
			}
		}
		if len(fails) > 8 {
			break
		}
	}
	o.NonTrivial = (len(cells) >= 2 && hit) || multiFace
	return pick(o, fails)
}

// ================================================================ d) structure of the index (hook)

type structCase struct {
	S   []shp
	Sel int
}

func genStruct(t *rapid.T) structCase {
	return structCase{S: genShapes(t, 12, edgeBudget(t)), Sel: rapid.IntRange(0, 1<<20).Draw(t, "sel")}
}

func checkStruct(c structCase) ev.Outcome {
	o := ev.Outcome{Counts: map[string]int{}, Ratios: map[string]float64{}}
	idx, bs, ok := buildAll(c.S)
	if !ok {
		o.Skip = true
		return o
	}
	cells := s2.VerifIndexCells(idx)
	total := 0
	for _, b := range bs {
		total += len(b.edges)
	}
	o.Class = fmt.Sprintf("edges<=%d/cells<=%d", bucket(total), bucket(len(cells)))
	o.NonTrivial = len(cells) >= 2
	var fails []fail

	// 1. cells sorted, valid, pairwise disjoint; entries well formed
	for k, cl := range cells {
		if !cl.ID.IsValid() {
			fails = append(fails, fail{"cell-invalid", fmt.Sprintf("index cell %d has invalid id %v", k, cl.ID)})
			continue
		}
		if k > 0 && !(cells[k-1].ID.RangeMax() < cl.ID.RangeMin()) {
			fails = append(fails, fail{"cells-overlap-or-unsorted", fmt.Sprintf("index cells %d (%v) and %d (%v) are not in increasing order / overlap", k-1, cells[k-1].ID, k, cl.ID)})
		}
		if len(cl.Shapes) == 0 {
			fails = append(fails, fail{"cell-empty", fmt.Sprintf("index cell %v has no clipped shape", cl.ID)})
		}
		short := 0
		for j, cs := range cl.Shapes {
			if j > 0 && cl.Shapes[j-1].ShapeID >= cs.ShapeID {
				fails = append(fails, fail{"cell-shapes-unsorted", fmt.Sprintf("index cell %v: clipped shapes not in increasing id order", cl.ID)})
			}
			if cs.ShapeID < 0 || int(cs.ShapeID) >= len(bs) {
				fails = append(fails, fail{"cell-foreign-shape", fmt.Sprintf("index cell %v lists shape id %d", cl.ID, cs.ShapeID)})
				continue
			}
			b := bs[cs.ShapeID]
			if !sortedUnique(cs.Edges) || (len(cs.Edges) > 0 && (cs.Edges[0] < 0 || cs.Edges[len(cs.Edges)-1] >= len(b.edges))) {
				fails = append(fails, fail{"cell-edges-unsorted", fmt.Sprintf("index cell %v shape %d: edge ids %v not sorted/unique/in range", cl.ID, cs.ShapeID, cs.Edges)})
				continue
			}
			if cs.ContainsCenter && b.dim != 2 {
				fails = append(fails, fail{"contains-center/nointerior", fmt.Sprintf("index cell %v: containsCenter set for shape %d of dimension %d", cl.ID, cs.ShapeID, b.dim)})
			}
			for _, e := range cs.Edges {
				ed := b.edges[e]
				if cl.ID.Level() < s2.AvgEdgeMetric.MinLevel(ed.V0.Sub(ed.V1.Vector).Norm()) {
					short++
				}
			}
		}
		if r := float64(short) / 10; r > o.Ratios["short edges per cell / 10"] {
			o.Ratios["short edges per cell / 10"] = r
		}
		if short > 10 && !cl.ID.IsLeaf() {
			fails = append(fails, fail{"cell-too-full", fmt.Sprintf("index cell %v (level %d) holds %d edges that are short for its level (limit 10) and was not subdivided", cl.ID, cl.ID.Level(), short)})
		}
	}
	if len(fails) > 0 {
		return pick(o, fails)
	}

	// 1b. counters and iterator positioning agree with a scan over the dumped cells
	if idx.Len() != len(bs) || idx.NumEdges() != total {
		fails = append(fails, fail{"index-counts", fmt.Sprintf("Len()=%d NumEdges()=%d, the collection has %d shapes with %d edges", idx.Len(), idx.NumEdges(), len(bs), total)})
	}
	// 1c. the edge iterator enumerates exactly the edges of every shape, in (shape id, edge id) order
	{
		it := s2.NewEdgeIterator(idx)
		n := 0
	scan:
		for si, b := range bs {
			for ei, ed := range b.edges {
				if it.Done() {
					fails = append(fails, fail{"edge-iterator", fmt.Sprintf("EdgeIterator is done after %d of %d edges", n, total)})
					break scan
				}
				if int(it.ShapeID()) != si || int(it.EdgeID()) != ei || it.Edge() != ed || it.ShapeEdgeID() != (s2.ShapeEdgeID{ShapeID: int32(si), EdgeID: int32(ei)}) {
					fails = append(fails, fail{"edge-iterator", fmt.Sprintf("EdgeIterator position %d is (shape %d, edge %d, %v), the collection has (shape %d, edge %d, %v)", n, it.ShapeID(), it.EdgeID(), it.Edge(), si, ei, ed)})
					break scan
				}
				it.Next()
				n++
			}
		}
		if n == total && !it.Done() {
			fails = append(fails, fail{"edge-iterator", fmt.Sprintf("EdgeIterator is not done after all %d edges", total)})
		}
	}
	{
		limit := 1 + c.Sel%(total+2)
		want := 0
		for _, b := range bs {
			want += len(b.edges)
			if want >= limit {
				break
			}
		}
		if got := idx.NumEdgesUpTo(limit); got != want {
			fails = append(fails, fail{"index-numedgesupto", fmt.Sprintf("NumEdgesUpTo(%d) = %d, running total over the shapes in id order gives %d", limit, got, want)})
		}
	}
	{
		back := idx.End()
		var rev []s2.CellID
		if !back.Done() {
			fails = append(fails, fail{"iterator-end", "End() iterator is not Done()"})
		}
		for back.Prev() {
			rev = append(rev, back.CellID())
			if len(rev) > len(cells) {
				break
			}
		}
		okRev := len(rev) == len(cells)
		for k := 0; okRev && k < len(rev); k++ {
			okRev = rev[k] == cells[len(cells)-1-k].ID
		}
		if !okRev {
			fails = append(fails, fail{"iterator-prev", fmt.Sprintf("walking back from End() with Prev() visits %d cells, forward iteration %d (or in a different order)", len(rev), len(cells))})
		}
		it := idx.Iterator()
		var targets []s2.CellID
		for _, k := range pickCells(len(cells), 10, c.Sel/3) {
			id := cells[k].ID
			targets = append(targets, id, id.Next(), id.Prev())
			if id.Level() > 0 {
				targets = append(targets, id.Parent(id.Level()-1), id.Parent((c.Sel+k)%id.Level()))
			}
			if !id.IsLeaf() {
				ch := id.Children()[(c.Sel+k)%4]
				targets = append(targets, ch, ch.ChildBeginAtLevel(30), ch.RangeMax())
			}
		}
		nvv := 0
		for _, b := range bs {
			for _, v := range b.vlist {
				if nvv++; nvv > 12 {
					break
				}
				targets = append(targets, s2.CellFromPoint(v.Pt()).ID().Parent((c.Sel+7*nvv)%31))
			}
		}
		for _, T := range targets {
			if !T.IsValid() {
				continue
			}
			wantRel, wantPos := s2.Disjoint, s2.CellID(0)
			for _, cl := range cells {
				if cl.ID.Contains(T) {
					wantRel, wantPos = s2.Indexed, cl.ID
					break
				}
				if T.Contains(cl.ID) {
					wantRel, wantPos = s2.Subdivided, cl.ID // the first such cell in id order
					break
				}
			}
			o.Counts[fmt.Sprintf("locatecell/relation=%d", int(wantRel))]++
			got := it.LocateCellID(T)
			if got != wantRel || (wantRel != s2.Disjoint && it.CellID() != wantPos) {
				fails = append(fails, fail{fmt.Sprintf("locatecellid/want=%d", int(wantRel)), fmt.Sprintf("LocateCellID(%v) = %d positioned at %v; scan over the %d index cells: relation %d at %v (0 indexed, 1 subdivided, 2 disjoint)", T, int(got), it.CellID(), len(cells), int(wantRel), wantPos)})
				break
			}
		}
		nvv = 0
		for _, b := range bs {
			for _, v := range b.vlist {
				if nvv++; nvv > 40 {
					break
				}
				p := v.Pt()
				leaf := s2.CellFromPoint(p).ID()
				want := s2.CellID(0)
				for _, cl := range cells {
					if cl.ID.Contains(leaf) {
						want = cl.ID
					}
				}
				if got := it.LocatePoint(p); got != (want != 0) || (got && it.CellID() != want) {
					fails = append(fails, fail{"locatepoint", fmt.Sprintf("LocatePoint(%v) = %v at %v; scan finds containing index cell %v", p, got, it.CellID(), want)})
					break
				}
			}
		}
	}

	// 2. every vertex lies in some index cell
	nv := 0
	for i, b := range bs {
		for _, v := range b.vlist {
			if nv++; nv > 600 {
				break
			}
			if locate(cells, v.Pt()) < 0 {
				fails = append(fails, fail{"vertex-not-covered", fmt.Sprintf("vertex %v of shape %d (%s) lies in no index cell", v, i, b.spec.T)})
				break
			}
		}
	}

	// 3. sampled cells: every edge that meets the cell's exact (unpadded)
	// uv-rectangle is listed; containsCenter equals exact parity at the centre
	fcs := make([]*faceCoords, len(bs))
	for i, b := range bs {
		fcs[i] = newFaceCoords(b.edges)
	}
	nCells := 48
	if total > 2000 {
		nCells = 16
	}
	for _, k := range pickCells(len(cells), nCells, c.Sel) {
		cl := cells[k]
		bx := boxOf(cl.ID)
		listed := map[int32]s2.VerifClippedShape{}
		for _, cs := range cl.Shapes {
			listed[cs.ShapeID] = cs
		}
		centre := cl.ID.Point()
		o.Counts["cells_examined"]++
		for i, b := range bs {
			cs, present := listed[int32(i)]
			in := map[int]bool{}
			for _, e := range cs.Edges {
				in[e] = true
			}
			for e := range b.edges {
				if fcs[i].meets(bx, e) {
					o.Counts["edge_cell_incidences"]++
					if !in[e] {
						fails = append(fails, fail{"edge-missing-from-cell/" + b.spec.T, fmt.Sprintf("edge %d %v of shape %d (%s %s) meets the exact uv-rectangle of index cell %v (face %d level %d) but the cell does not list it (lists %v)", e, b.edges[e], i, b.spec.T, b.spec.Fam, cl.ID, cl.ID.Face(), cl.ID.Level(), cs.Edges)})
						break
					}
				}
			}
			if b.dim == 2 && !antipodal(b.spec.K.Pt(), centre) {
				want := b.semiOpen(centre.Vector)
				got := present && cs.ContainsCenter
				if got != want {
					fails = append(fails, fail{"contains-center/" + b.spec.T, fmt.Sprintf("index cell %v: containsCenter for shape %d (%s %s) is %v (entry present: %v), exact crossing parity at the cell centre says %v", cl.ID, i, b.spec.T, b.spec.Fam, got, present, want)})
				}
			}
		}
		if len(fails) > 8 {
			break
		}
	}

	// 4. sampled edges: the index cells they meet cover them without a gap
	type cand struct{ shape, edge int }
	var cands []cand
	for i, b := range bs {
		for e := range b.edges {
			cands = append(cands, cand{i, e})
		}
	}
	for _, k := range pickCells(len(cands), 6, c.Sel) {
		cd := cands[k]
		ed := bs[cd.shape].edges[cd.edge]
		if antipodal(ed.V0, ed.V1) {
			continue
		}
		type iv struct{ lo, hi *big.Rat }
		var ivs []iv
		for _, cl := range cells {
			bx := boxOf(cl.ID)
			a, b := toUVW(bx.Face, ed.V0.Vector), toUVW(bx.Face, ed.V1.Vector)
			if arcBoxFloat(bx.fvals(a), bx.fvals(b)) < 0 {
				continue
			}
			if lo, hi, ok := arcBoxExact(bx, a, b); ok {
				ivs = append(ivs, iv{lo, hi})
			}
		}
		sort.Slice(ivs, func(i, j int) bool { return ivs[i].lo.Cmp(ivs[j].lo) < 0 })
		cur := new(big.Rat)
		gap := len(ivs) == 0
		for _, v := range ivs {
			if v.lo.Cmp(cur) > 0 {
				gap = true
				break
			}
			if v.hi.Cmp(cur) > 0 {
				cur = v.hi
			}
		}
		o.Counts["edges_coverage_checked"]++
		if gap || cur.Cmp(big.NewRat(1, 1)) < 0 {
			f, _ := cur.Float64()
			fails = append(fails, fail{"edge-not-covered", fmt.Sprintf("edge %d %v of shape %d (%s): the index cells it meets cover it only up to parameter %.17g of [0,1] (%d cells meet it)", cd.edge, ed, cd.shape, bs[cd.shape].spec.T, f, len(ivs))})
		}
	}
	return pick(o, fails)
}

// ================================================================ c) Loop / Polygon cell relations

type cellCase struct {
	S     shp
	Cells []uint64
	Sel   int
}

func genCells(t *rapid.T) cellCase {
	g := newCtx(t)
	var s shp
	switch rapid.IntRange(0, 13).Draw(t, "what") {
	case 12, 13:
		s = g.line("polyline", edgeBudget(t))
	case 0:
		s = shp{T: "loop", Sp: rapid.SampledFrom([]string{"empty", "full"}).Draw(t, "sp"), K: gen.FromPt(g.centre())}
		s.KIn = s.Sp == "full"
	case 1, 2, 3, 4, 5:
		s = g.twoD("loop", edgeBudget(t))
	default:
		s = g.twoD("polygon", edgeBudget(t))
	}
	v := allVerts([]shp{s})
	if len(v) == 0 {
		v = []gen.P{gen.FromPt(g.centre())}
	}
	var cells []uint64
	size := 1 << uint(g.level)
	for i := 0; i < 12; i++ {
		var id s2.CellID
		switch rapid.IntRange(0, 5).Draw(t, "ck") {
		case 0, 1: // a cell around a vertex (or the known point) at any level
			p := v[rapid.IntRange(0, len(v)-1).Draw(t, "vi")].Pt()
			id = s2.CellFromPoint(p).ID().Parent(rapid.IntRange(0, 30).Draw(t, "lvl"))
		case 2: // a neighbour of such a cell
			p := v[rapid.IntRange(0, len(v)-1).Draw(t, "vi")].Pt()
			lvl := rapid.IntRange(1, 30).Draw(t, "lvl")
			nb := s2.CellFromPoint(p).ID().Parent(lvl).AllNeighbors(lvl)
			id = nb[rapid.IntRange(0, len(nb)-1).Draw(t, "nb")]
		case 3: // a cell of the lattice grid (its sides lie on grid lines, like lattice edges), or coarser/finer
			i0 := g.wi + rapid.IntRange(0, g.ws-1).Draw(t, "gi")
			j0 := g.wj + rapid.IntRange(0, g.ws-1).Draw(t, "gj")
			_ = size
			p := uvPoint(g.face, g.level, float64(i0)+0.5, float64(j0)+0.5)
			lvl := maxI(0, minI(30, g.level+rapid.IntRange(-2, 2).Draw(t, "dl")))
			id = s2.CellFromPoint(p).ID().Parent(lvl)
		case 4:
			id = gen.CellID(t, "rnd")
		default: // around the known interior/exterior point
			id = s2.CellFromPoint(s.K.Pt()).ID().Parent(rapid.IntRange(0, 30).Draw(t, "lvl"))
		}
		cells = append(cells, uint64(id))
	}
	return cellCase{S: s, Cells: cells, Sel: rapid.IntRange(0, 1<<20).Draw(t, "sel")}
}

type cellRegion interface {
	ContainsCell(s2.Cell) bool
	IntersectsCell(s2.Cell) bool
}

func checkCells(c cellCase) ev.Outcome {
	o := ev.Outcome{Counts: map[string]int{}}
	if c.S.T != "loop" && c.S.T != "polygon" && c.S.T != "polyline" {
		o.Skip = true
		return o
	}
	b, ok := buildShape(&c.S)
	if !ok {
		o.Skip = true
		return o
	}
	var region cellRegion
	var own *s2.ShapeIndex
	switch x := b.shape.(type) {
	case *s2.Loop:
		region, own = x, s2.VerifLoopIndex(x)
	case *s2.Polygon:
		region, own = x, s2.VerifPolygonIndex(x)
	case *s2.Polyline:
		region = x // no index: ContainsCell is documented to be false, IntersectsCell examines every edge
	}
	var icells []s2.VerifIndexCell
	if own != nil {
		icells = s2.VerifIndexCells(own)
	} else if c.S.T != "polyline" {
		o.Skip = true
		return o
	}
	o.Class = fmt.Sprintf("%s/%s/cells<=%d", c.S.T, c.S.Fam, bucket(len(icells)))

	// targets: the drawn cells plus index cells, their parents, children and neighbours
	var targets []s2.CellID
	seen := map[s2.CellID]bool{}
	add := func(id s2.CellID) {
		if id.IsValid() && !seen[id] {
			seen[id] = true
			targets = append(targets, id)
		}
	}
	for _, u := range c.Cells {
		add(s2.CellID(u))
	}
	for _, k := range pickCells(len(icells), 6, c.Sel) {
		id := icells[k].ID
		add(id)
		if id.Level() > 0 {
			add(id.Parent(id.Level() - 1))
		}
		if !id.IsLeaf() {
			add(id.Children()[(c.Sel+k)%4])
			add(id.Children()[(c.Sel+k+1)%4].ChildBegin())
		}
		if id.Level() > 0 {
			nb := id.EdgeNeighbors()
			add(nb[(c.Sel+k)%4])
		}
	}

	edges := b.edges
	if b.dim == 1 && len(edges) == 0 && len(c.S.L) > 0 && len(c.S.L[0]) == 1 {
		// a one-vertex polyline has no edge; as a region it is that point
		v := c.S.L[0][0].Pt()
		edges = []s2.Edge{{V0: v, V1: v}}
	}
	fc := newFaceCoords(edges)
	var fails []fail
	const margin = 1e-12
	nearSomething := false
	for _, id := range targets {
		cell := s2.CellFromCellID(id)
		bx := boxOf(id)
		centre := cell.Center()
		cin := false
		if b.dim == 2 {
			if antipodal(b.spec.K.Pt(), centre) {
				continue
			}
			cin = b.semiOpen(centre.Vector)
		}
		_, touch := fc.anyMeets(bx)
		near := touch
		if !near {
			_, near = fc.anyMeets(bx.expanded(margin))
		}
		through := false
		if touch && bx.U1-bx.U0 > 4*margin {
			_, through = fc.anyMeets(bx.expanded(-margin))
		}
		gotC, gotI := region.ContainsCell(cell), region.IntersectsCell(cell)
		o.Counts["targets"]++
		kind := "far"
		switch {
		case through:
			kind = "edge-through"
		case touch:
			kind = "edge-touches"
		case near:
			kind = "edge-within-1e-12"
		}
		o.Counts["targets/"+kind]++
		if kind != "far" {
			nearSomething = true
		}
		desc := fmt.Sprintf("cell %v (face %d level %d, %s; centre inside=%v)", id, id.Face(), id.Level(), kind, cin)
		if gotC && (touch || !cin) {
			fails = append(fails, fail{"containscell-overclaims/" + kind, fmt.Sprintf("%s.ContainsCell = true for %s", c.S.T, desc)})
		}
		if !gotI && (through || cin) {
			fails = append(fails, fail{"intersectscell-misses/" + kind, fmt.Sprintf("%s.IntersectsCell = false for %s", c.S.T, desc)})
		}
		if !near {
			if gotC != cin {
				fails = append(fails, fail{"containscell-far", fmt.Sprintf("%s.ContainsCell = %v for %s: no edge comes within 1e-12 of the cell", c.S.T, gotC, desc)})
			}
			if gotI != cin {
				fails = append(fails, fail{"intersectscell-far", fmt.Sprintf("%s.IntersectsCell = %v for %s: no edge comes within 1e-12 of the cell", c.S.T, gotI, desc)})
			}
		}
		if gotC && !gotI {
			fails = append(fails, fail{"contains-without-intersects", fmt.Sprintf("%s contains but does not intersect %s", c.S.T, desc)})
		}
	}
	o.NonTrivial = (len(icells) >= 2 || b.dim == 1) && nearSomething
	return pick(o, fails)
}

// ================================================================ e) shape contract

type shapeCase struct {
	S shp
}

func genShapeCase(t *rapid.T) shapeCase {
	g := newCtx(t)
	typ := rapid.SampledFrom([]string{"loop", "polygon", "polygon", "laxloop", "laxpolygon", "laxpolygon", "polyline", "laxpolyline", "points", "special", "manyloops"}).Draw(t, "type")
	if typ == "manyloops" {
		// more than 12 loops switches Polygon to its cumulative-edge table; lax polygons get the same
		typ = rapid.SampledFrom([]string{"polygon", "laxpolygon"}).Draw(t, "mtype")
		s := shp{T: typ, Fam: "manyloops", KIn: false}
		n := rapid.IntRange(2, 20).Draw(t, "nloops")
		size := 1 << uint(g.level)
		if size < 2*n+1 {
			n = maxI(1, (size-1)/2)
		}
		stride := rapid.SampledFrom([]int{0, 1, 2}).Draw(t, "stride")
		j0 := rapid.IntRange(0, size-1).Draw(t, "j0")
		for k := 0; k < n; k++ {
			h := rapid.IntRange(1, minI(4, size-j0)).Draw(t, "h")
			s.L = append(s.L, rectVerts(g.face, g.level, latRect{I0: 2 * k, J0: j0, I1: 2*k + 1, J1: j0 + h}, stride))
		}
		s.K = gen.FromPt(uvPoint(g.face, g.level, 0.5, float64(j0)+0.5))
		s.KIn = true
		return shapeCase{S: s}
	}
	return shapeCase{S: g.shape(typ, rapid.SampledFrom([]int{4, 8, 30, 30, 100, 400}).Draw(t, "budget"))}
}

// try runs f and turns a panic into an error string.
func try(f func()) (msg string) {
	defer func() {
		if r := recover(); r != nil {
			msg = fmt.Sprintf("panic: %v", r)
		}
	}()
	f()
	return ""
}

func checkShape(c shapeCase) ev.Outcome {
	o := ev.Outcome{}
	s := &c.S
	var sh s2.Shape
	if m := try(func() { sh = s.build() }); m != "" {
		return ev.Outcome{Err: "constructor: " + m, Finding: s.T + "-constructor"}
	}
	if !s.valid(sh) {
		o.Skip = true
		return o
	}
	T := s.T
	var fails []fail
	addf := func(class, format string, a ...any) {
		if len(fails) < 40 {
			fails = append(fails, fail{T + "-" + class, fmt.Sprintf("%s (%s): ", T, s.Fam) + fmt.Sprintf(format, a...)})
		}
	}

	// the expected edge list and chain lengths, from the vertex lists
	model, ok := s.modelEdges()
	var wantChains []int
	switch T {
	case "polygon":
		p := sh.(*s2.Polygon)
		model = polygonEdges(p)
		for k := 0; k < p.NumLoops(); k++ {
			if p.Loop(k).IsFull() {
				wantChains = append(wantChains, 0)
			} else {
				wantChains = append(wantChains, p.Loop(k).NumVertices())
			}
		}
		// the polygon's edges are those of the given loops (each loop in one of its two directions)
		if s.Sp == "" {
			type ue struct{ a, b gen.P }
			have := map[ue]int{}
			for _, e := range model {
				have[ue{gen.FromPt(e.V0), gen.FromPt(e.V1)}]++
			}
			n := 0
			for _, l := range s.L {
				for i := range l {
					a, b := l[i], l[(i+1)%len(l)]
					n++
					if have[ue{a, b}] == 0 && have[ue{b, a}] == 0 {
						addf("edge", "edge (%v,%v) of an input loop is not an edge of the polygon", a, b)
					}
				}
			}
			if n != len(model) {
				addf("numedges", "polygon loops hold %d edges, the input loops %d", len(model), n)
			}
		}
	case "points":
		for range model {
			wantChains = append(wantChains, 1)
		}
	case "polyline", "laxpolyline":
		if len(model) > 0 {
			wantChains = []int{len(model)}
		}
	case "loop":
		switch s.Sp {
		case "empty":
		case "full":
			wantChains = []int{0}
		default:
			wantChains = []int{len(model)}
		}
	case "laxloop":
		if len(model) > 0 {
			wantChains = []int{len(model)}
		}
	case "laxpolygon":
		for _, l := range s.L {
			wantChains = append(wantChains, len(l))
		}
	}
	_ = ok

	n := 0
	if m := try(func() { n = sh.NumEdges() }); m != "" {
		addf("numedges", "NumEdges: %s", m)
	}
	if n != len(model) {
		addf("numedges", "NumEdges() = %d, the vertex lists define %d edges", n, len(model))
		return pick(o, fails)
	}
	if d := sh.Dimension(); d != s.dim() {
		addf("dimension", "Dimension() = %d, want %d", d, s.dim())
	}
	nc := sh.NumChains()
	if nc != len(wantChains) {
		addf("numchains", "NumChains() = %d, want %d (chain lengths %v)", nc, len(wantChains), wantChains)
	}
	o.Class = fmt.Sprintf("%s/%s/chains<=%d/edges<=%d", T, s.Sp, bucket(nc), bucket(n))
	o.NonTrivial = n >= 2

	// edges by id
	for e := 0; e < n; e++ {
		var got s2.Edge
		if m := try(func() { got = sh.Edge(e) }); m != "" {
			addf("edge", "Edge(%d) of %d: %s", e, n, m)
			break
		}
		if got != model[e] {
			addf("edge", "Edge(%d) = %v, the vertex lists say %v", e, got, model[e])
			break
		}
	}

	// chains partition [0,n)
	chains := make([]s2.Chain, 0, nc)
	next := 0
	chainsOK := true
	for i := 0; i < nc; i++ {
		var ch s2.Chain
		if m := try(func() { ch = sh.Chain(i) }); m != "" {
			addf("chain", "Chain(%d) of %d: %s", i, nc, m)
			chainsOK = false
			break
		}
		chains = append(chains, ch)
		if ch.Start != next || ch.Length < 0 {
			addf("chain", "Chain(%d) = %+v, previous chains end at %d", i, ch, next)
			chainsOK = false
			break
		}
		if i < len(wantChains) && ch.Length != wantChains[i] {
			addf("chain", "Chain(%d) = %+v, want length %d", i, ch, wantChains[i])
		}
		next = ch.Start + ch.Length
	}
	if chainsOK && nc > 0 && next != n {
		addf("chain", "the chains end at edge %d, NumEdges() = %d", next, n)
		chainsOK = false
	}
	if !chainsOK {
		return pick(o, fails)
	}

	// (chain, offset) -> edge, and back
	ceBad, cpBad := false, false
	for i, ch := range chains {
		for off := 0; off < ch.Length; off++ {
			e := ch.Start + off
			if !ceBad {
				var got s2.Edge
				if m := try(func() { got = sh.ChainEdge(i, off) }); m != "" {
					addf("chainedge", "ChainEdge(%d,%d) (edge %d of %d; chain %+v): %s", i, off, e, n, ch, m)
					ceBad = true
				} else if got != model[e] {
					addf("chainedge", "ChainEdge(%d,%d) = %v, but Edge(%d) = %v (chain %+v)", i, off, got, e, model[e], ch)
					ceBad = true
				}
			}
			if !cpBad {
				var pos s2.ChainPosition
				if m := try(func() { pos = sh.ChainPosition(e) }); m != "" {
					addf("chainposition", "ChainPosition(%d) of %d: %s", e, n, m)
					cpBad = true
				} else if pos.ChainID != i || pos.Offset != off {
					// with chains of length 0 (full loops) several chains start at the same
					// edge id; an edge still belongs to the one chain that has it
					addf("chainposition", "ChainPosition(%d) = %+v, but edge %d is offset %d of chain %d (%+v); %d chains", e, pos, e, off, i, ch, nc)
					cpBad = true
				}
			}
		}
	}

	// emptiness flags
	wantEmpty := n == 0 && (s.dim() != 2 || nc == 0)
	wantFull := n == 0 && s.dim() == 2 && nc > 0
	if T == "loop" || T == "polygon" {
		wantEmpty, wantFull = s.Sp == "empty", s.Sp == "full"
	}
	if sh.IsEmpty() != wantEmpty || sh.IsFull() != wantFull {
		addf("emptyfull", "IsEmpty()=%v IsFull()=%v, want %v %v (%d edges, %d chains)", sh.IsEmpty(), sh.IsFull(), wantEmpty, wantFull, n, nc)
	}
	return pick(o, fails)
}

// keep the imports used when sub-checks are trimmed during development
var _ = r3.Vector{}
var _ = exact.XCross

func init() {
	ev.Define("shape_contract", ev.Options{
		Rule:  "one shape of each of the seven types (Loop, Polygon, Polyline, LaxLoop, LaxPolygon, LaxPolyline, PointVector) incl. empty/full loops and polygons, lax loops with 0/1/2 vertices, lax polygons with degenerate loops, the full lax polygon, polygons and lax polygons with up to 20 loops (> 12 uses the cumulative table), 0..400 edges. Oracle: the edge list and chain lengths written down from the vertex lists as each type's documentation defines them (for Polygon: its public loops). Checks NumEdges, Dimension, NumChains, Edge(e) for all e, chains partition [0,NumEdges), ChainEdge(c,o) == Edge(Chain(c).Start+o) and ChainPosition(Chain(c).Start+o) == (c,o) for all (c,o), IsEmpty/IsFull. A panic in an accessor is a failure of that accessor. Non-trivial: at least 2 edges.",
		Quick: 40000, Thorough: 2000000}, genShapeCase, checkShape)
	ev.Define("contains_point", ev.Options{
		Rule:  "collections of 1..12 shapes of all seven types (star/regular/ring/lattice-rectangle/cell loops, complements, lax polygons with degeneracies, polylines as walks / through shared vertices / along grid lines / over several faces, point sets incl. duplicates and other shapes' vertices, empty and full shapes), 0..2500 edges (thorough 10^4), on 1, 2, 3 or 6 faces, a shared lattice so edges lie on index-cell boundaries exactly or within 2 ulps; 20 drawn probes (vertices, points on edges +-3 ulps, ulp-neighbours of vertices, cell centres/corners, near and far points, the construction's known points) + centres/corners of index cells. Oracle: per shape, parity of exact crossings (integer determinants + independent symbolic perturbation, documented shared-vertex rule) over ALL edges of the segment from the construction's known interior/exterior point, adjusted for the vertex model as documented; compared with Contains, ShapeContains(every shape) and ContainingShapes under the open, semi-open and closed models; also each shape's ReferencePoint against the same parity. Non-trivial: the index has >= 2 cells and a probe falls in an index cell holding edges of >= 2 shapes.",
		Quick: 16000, Thorough: 600000}, genContains, checkContains)
	ev.Define("crossing_edges", ev.Options{
		Rule:  "same collections; 16 query edges (vertex to vertex, short edges around vertices down to 1e-15, to far points over several faces, exactly an existing edge, an existing edge with 3-ulp noise, between cell corners, from a point on an edge, random). Oracle: exact crossing relation of the query with EVERY edge of every shape (Cross for interior; anything but DoNotCross for all). Compared with Crossings(shape) for both crossing types (brute-force path <= 27 edges and index path) and CrossingsEdgeMap (sorted, unique, no empty entries, no foreign keys). Non-trivial: >= 2 index cells and a query that has a crossing with a shape of > 27 edges, or a query whose endpoints lie on different faces.",
		Quick: 16000, Thorough: 600000}, genCross, checkCross)
	ev.Define("index_structure", ev.Options{
		Rule:  "same collections; through the verif hook the built index is dumped: cell ids valid, increasing, pairwise disjoint; Len/NumEdges/NumEdgesUpTo against the collection; End()+Prev() visits the cells in reverse; LocateCellID (index cells, neighbours along the curve, parents, children, leaf descendants, cells around vertices) and LocatePoint (vertices) return the relation and position found by a linear scan over the cells; clipped shapes and edge ids sorted and in range; no non-leaf cell with > 10 edges that are short for its level; every vertex lies in an index cell; for up to 48 cells spread over the index: every edge whose exact arc meets the cell's exact unpadded uv-rectangle (rational arithmetic behind a float filter with a 1e-14 guard band) is listed in the cell, and containsCenter of every shape equals the exact crossing parity at the cell centre; for 6 edges: the exact parameter intervals of the cells it meets cover the edge without a gap. Non-trivial: >= 2 index cells.",
		Quick: 12000, Thorough: 450000}, genStruct, checkStruct)
	ev.Define("cell_relations", ev.Options{
		Rule:  "one Loop, Polygon (same families; empty/full loops) or Polyline (brute-force IntersectsCell, ContainsCell documented false) and cells: around vertices at any level, their neighbours, cells of the shared lattice grid (sides on edges), around the known point, random cells, plus index cells of the shape's own index with parents, children, leaf descendants and neighbours. Oracle: exact arc/rectangle test of every edge against the cell's uv-rectangle (exactly, shrunk and expanded by 1e-12) and exact parity at the cell centre. Asserted: ContainsCell true => no edge meets the closed cell and the centre is inside; IntersectsCell false => no edge passes through the cell shrunk by 1e-12 and the centre is outside; no edge within 1e-12 of the cell => both equal 'centre inside'. Non-trivial: the shape's index has >= 2 cells (any polyline) and some target cell has an edge within 1e-12.",
		Quick: 20000, Thorough: 800000}, genCells, checkCells)
}
