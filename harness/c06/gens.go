package c06

import (
	"math"

	"github.com/golang/geo/r3"
	"github.com/golang/geo/s2"
	"pgregory.net/rapid"

	"verifharness/internal/ev"
	"verifharness/internal/gen"
)

// shp is the plain-data form of one shape of a collection.
//
// T is one of loop | polygon | polyline | laxloop | laxpolygon | laxpolyline | points.
// L holds the vertex lists exactly as they are handed to the library
// constructor: one list for loop/laxloop/polyline/laxpolyline/points, one per
// loop for polygon (every loop counter-clockwise; PolygonFromLoops finds the
// nesting) and laxpolygon (oriented: interior on the left).
// Sp marks the special shapes "empty" and "full" (no vertex lists).
// For shapes with an interior, K is a point whose membership KIn is known from
// the construction (not from the library); it is never on the boundary.
type shp struct {
	T   string    `json:"t"`
	L   [][]gen.P `json:"l,omitempty"`
	Sp  string    `json:"sp,omitempty"`
	K   gen.P     `json:"k"`
	KIn bool      `json:"kin"`
	Fam string    `json:"fam,omitempty"`
}

func (s *shp) dim() int {
	switch s.T {
	case "points":
		return 0
	case "polyline", "laxpolyline":
		return 1
	}
	return 2
}

func (s *shp) numEdges() int {
	n := 0
	for _, l := range s.L {
		switch s.T {
		case "polyline", "laxpolyline":
			if len(l) > 0 {
				n += len(l) - 1
			}
		default:
			n += len(l)
		}
	}
	return n
}

// build makes the library shape.
func (s *shp) build() s2.Shape {
	switch s.T {
	case "loop":
		switch s.Sp {
		case "empty":
			return s2.EmptyLoop()
		case "full":
			return s2.FullLoop()
		}
		return s2.LoopFromPoints(gen.Pts(s.L[0]))
	case "polygon":
		switch s.Sp {
		case "empty":
			return s2.PolygonFromLoops([]*s2.Loop{s2.EmptyLoop()})
		case "full":
			return s2.FullPolygon()
		}
		var ls []*s2.Loop
		for _, l := range s.L {
			ls = append(ls, s2.LoopFromPoints(gen.Pts(l)))
		}
		return s2.PolygonFromLoops(ls)
	case "polyline":
		var v []gen.P
		if len(s.L) > 0 {
			v = s.L[0]
		}
		p := s2.Polyline(gen.Pts(v))
		return &p
	case "laxloop":
		var v []gen.P
		if len(s.L) > 0 {
			v = s.L[0]
		}
		return s2.LaxLoopFromPoints(gen.Pts(v))
	case "laxpolygon":
		switch s.Sp {
		case "empty":
			return s2.LaxPolygonFromPoints(nil)
		}
		ls := make([][]s2.Point, 0, len(s.L))
		for _, l := range s.L {
			ls = append(ls, gen.Pts(l))
		}
		return s2.LaxPolygonFromPoints(ls)
	case "laxpolyline":
		var v []gen.P
		if len(s.L) > 0 {
			v = s.L[0]
		}
		return s2.LaxPolylineFromPoints(gen.Pts(v))
	case "points":
		var v []gen.P
		if len(s.L) > 0 {
			v = s.L[0]
		}
		pv := s2.PointVector(gen.Pts(v))
		return &pv
	}
	panic("c06: unknown shape type " + s.T)
}

// ---------------------------------------------------------------- geometry helpers (own copies)

func frame(c s2.Point) (x, y r3.Vector) {
	x = c.Ortho()
	y = c.Cross(x).Normalize()
	return x, y
}

func at(c s2.Point, x, y r3.Vector, r, az float64) s2.Point {
	d := x.Mul(math.Cos(az)).Add(y.Mul(math.Sin(az)))
	return gen.Fix(s2.Point{Vector: c.Mul(math.Cos(r)).Add(d.Mul(math.Sin(r))).Normalize()}, c)
}

func reverseP(v []gen.P) []gen.P {
	n := len(v)
	out := make([]gen.P, n)
	for i := range v {
		out[i] = v[n-1-i]
	}
	return out
}

func minI(a, b int) int {
	if a < b {
		return a
	}
	return b
}

func maxI(a, b int) int {
	if a > b {
		return a
	}
	return b
}

func regularVerts(c s2.Point, r float64, n int, az0 float64) []gen.P {
	x, y := frame(c)
	v := make([]gen.P, 0, n)
	for i := 0; i < n; i++ {
		v = append(v, gen.FromPt(at(c, x, y, r, az0+float64(i)*2*math.Pi/float64(n))))
	}
	return v
}

// latRect is a rectangle of grid cells [I0,I1)x[J0,J1) on the level-Level grid of a face.
type latRect struct{ I0, J0, I1, J1 int }

// rectVerts lists the boundary counter-clockwise (in the face's (u,v) frame)
// with a vertex at every stride-th grid point of each side (always at the
// corners). stride 0 means corners only: the four edges then run along grid
// lines, i.e. along the boundaries of index cells of every level >= level.
func rectVerts(face, level int, r latRect, stride int) []gen.P {
	var v []gen.P
	add := func(i, j int) { v = append(v, gen.FromPt(gen.LatticePoint(face, level, i, j))) }
	step := func(lo, hi int) []int {
		out := []int{lo}
		if stride > 0 {
			for x := lo + stride; x < hi; x += stride {
				out = append(out, x)
			}
		}
		return out
	}
	for _, i := range step(r.I0, r.I1) {
		add(i, r.J0)
	}
	for _, j := range step(r.J0, r.J1) {
		add(r.I1, j)
	}
	is := step(r.I0, r.I1)
	for k := range is {
		// walk back from I1 to I0+: mirror the offsets
		add(r.I1-(is[k]-r.I0), r.J1)
	}
	js := step(r.J0, r.J1)
	for k := range js {
		add(r.I0, r.J1-(js[k]-r.J0))
	}
	return v
}

// uvPoint is the point of a face at fractional grid coordinates (fi,fj).
func uvPoint(face, level int, fi, fj float64) s2.Point {
	n := float64(int(1) << uint(level))
	u := gen.STToUV(fi / n)
	v := gen.STToUV(fj / n)
	return gen.Fix(s2.Point{Vector: gen.FaceUVToXYZ(face, u, v).Normalize()}, s2.PointFromCoords(1, 0, 0))
}

// uvToST inverts the published quadratic transform.
func uvToST(u float64) float64 {
	if u >= 0 {
		return 0.5 * math.Sqrt(1+3*u)
	}
	return 1 - 0.5*math.Sqrt(1-3*u)
}

// gridIJ returns the level-`level` grid cell of `face` that contains p
// (clamped to the face; only used to place generated geometry).
func gridIJ(face, level int, p s2.Point) (int, int) {
	q := toUVW(face, p.Vector)
	if q[2] <= 0 {
		return 0, 0
	}
	size := 1 << uint(level)
	cl := func(x float64) int {
		i := int(math.Floor(uvToST(math.Max(-1, math.Min(1, x))) * float64(size)))
		return maxI(0, minI(size-1, i))
	}
	return cl(q[0] / q[2]), cl(q[1] / q[2])
}

// ---------------------------------------------------------------- collection generator

type gctx struct {
	t       *rapid.T
	centres []s2.Point
	spread  float64
	face    int
	level   int
	wi, wj  int // origin of the lattice window (grid coordinates)
	ws      int // side of the lattice window in grid cells
	verts   []gen.P
	n       int
}

// lat is the lattice point at window coordinates (i,j).
func (g *gctx) lat(i, j int) s2.Point { return gen.LatticePoint(g.face, g.level, g.wi+i, g.wj+j) }

// shift moves a window rectangle to face grid coordinates.
func (g *gctx) shift(r latRect) latRect {
	return latRect{I0: r.I0 + g.wi, J0: r.J0 + g.wj, I1: r.I1 + g.wi, J1: r.J1 + g.wj}
}

func (g *gctx) lab(s string) string { return s }

func (g *gctx) centre() s2.Point {
	c := g.centres[g.n%len(g.centres)]
	x, y := frame(c)
	return at(c, x, y, rapid.Float64Range(0, g.spread).Draw(g.t, "off"), rapid.Float64Range(0, 2*math.Pi).Draw(g.t, "offaz"))
}

func (g *gctx) note(s shp) shp {
	for _, l := range s.L {
		if len(g.verts) < 4000 {
			g.verts = append(g.verts, l...)
		}
	}
	g.n++
	return s
}

func (g *gctx) maybePerturb(v []gen.P) []gen.P {
	if len(v) > 400 || rapid.IntRange(0, 3).Draw(g.t, "ulpnoise") != 0 {
		return v
	}
	out := make([]gen.P, len(v))
	for i, p := range v {
		out[i] = gen.FromPt(gen.Perturb(g.t, "pv", p.Pt(), 2))
	}
	return out
}

// drawRects draws up to m pairwise disjoint rectangles (separated by at least
// one grid column) on the context grid, total perimeter <= budget grid steps.
func (g *gctx) drawRects(m, budget int) []latRect {
	t := g.t
	size := g.ws
	var out []latRect
	col := 0
	for k := 0; k < m && col < size; k++ {
		per := maxI(4, budget/(m-k))
		maxSide := maxI(1, minI(size-col, per/2-1))
		w := rapid.IntRange(1, maxSide).Draw(t, "rw")
		hmax := maxI(1, minI(size, per/2-w))
		h := rapid.IntRange(1, hmax).Draw(t, "rh")
		gap := 0
		if col+w < size {
			gap = rapid.IntRange(0, minI(3, size-col-w)).Draw(t, "rgap")
		}
		i0 := col + gap
		if i0+w > size {
			i0 = size - w
		}
		j0 := rapid.IntRange(0, size-h).Draw(t, "rj0")
		out = append(out, latRect{I0: i0, J0: j0, I1: i0 + w, J1: j0 + h})
		budget -= 2 * (w + h)
		col = i0 + w + 1
		if budget < 4 {
			break
		}
	}
	return out
}

// twoD draws a shape with an interior.
func (g *gctx) twoD(typ string, budget int) shp {
	t := g.t
	budget = maxI(budget, 4)
	multi := typ == "polygon" || typ == "laxpolygon"
	s := shp{T: typ}
	var holes []bool // per loop, for orientation of laxpolygon input
	fam := rapid.IntRange(0, 12).Draw(t, "fam")
	if !multi && (fam == 4 || fam == 5) {
		fam = 0
	}
	if !multi && fam == 12 {
		fam = 7
	}
	var innerC s2.Point // centre around which a disc of radius innerR is free of edges
	innerR := 0.0
	switch fam {
	case 0, 1, 2, 3: // star-shaped about a local centre
		c := g.centre()
		lim := g.spread
		if rapid.IntRange(0, 5).Draw(t, "wide") == 0 {
			lim = 0
		}
		l := gen.StarLoopAt(t, "star", c, minI(budget, 300), lim)
		s.L = [][]gen.P{l.V}
		s.K, s.KIn, s.Fam = gen.FromPt(c), true, "star"
		holes = []bool{false}
		innerC = c
		innerR = math.Inf(1)
		for _, p := range l.V {
			if d := float64(c.Distance(p.Pt())); d < innerR {
				innerR = d
			}
		}
		innerR *= 0.05
	case 4, 5: // concentric rings
		c := g.centre()
		k := rapid.IntRange(1, 3).Draw(t, "rings")
		lim := math.Min(g.spread, 70*math.Pi/180)
		if rapid.IntRange(0, 5).Draw(t, "wide") == 0 {
			lim = 70 * math.Pi / 180
		}
		rout := math.Exp(rapid.Float64Range(math.Log(lim*1e-2), math.Log(lim)).Draw(t, "lr"))
		x, y := frame(c)
		for ring := 0; ring < k; ring++ {
			n := rapid.IntRange(8, maxI(8, minI(budget/k, 120))).Draw(t, "rn")
			hiR := rout * math.Pow(0.7, float64(ring))
			loR := hiR * 0.8
			az0 := rapid.Float64Range(0, 2*math.Pi).Draw(t, "az0")
			var v []gen.P
			for i := 0; i < n; i++ {
				r := rapid.Float64Range(loR, hiR).Draw(t, "r")
				v = append(v, gen.FromPt(at(c, x, y, r, az0+float64(i)*2*math.Pi/float64(n))))
			}
			s.L = append(s.L, v)
			holes = append(holes, ring%2 == 1)
			innerR = loR * 0.05
		}
		innerC = c
		s.K, s.KIn, s.Fam = gen.FromPt(c), k%2 == 1, "rings"
	case 6: // regular, possibly very many vertices
		c := g.centre()
		n := rapid.IntRange(3, maxI(3, budget)).Draw(t, "regn")
		lim := math.Min(g.spread, 80*math.Pi/180)
		if rapid.IntRange(0, 5).Draw(t, "wide") == 0 {
			lim = 80 * math.Pi / 180
		}
		r := math.Exp(rapid.Float64Range(math.Log(lim*1e-2), math.Log(lim)).Draw(t, "lr"))
		s.L = [][]gen.P{regularVerts(c, r, n, rapid.Float64Range(0, 2*math.Pi).Draw(t, "az0"))}
		holes = []bool{false}
		s.K, s.KIn, s.Fam = gen.FromPt(c), true, "regular"
		innerC, innerR = c, r*0.05
	case 7, 8, 9, 10: // lattice rectangles on the shared grid
		m := 1
		if multi {
			m = rapid.IntRange(1, 4).Draw(t, "nrect")
		}
		stride := rapid.SampledFrom([]int{1, 1, 1, 0, 0, 2, 3}).Draw(t, "stride")
		b := budget
		if stride == 0 {
			b = 64 << uint(minI(g.level, 4))
		}
		rects := g.drawRects(m, b)
		for k := range rects {
			rects[k] = g.shift(rects[k])
		}
		for k, r := range rects {
			v := rectVerts(g.face, g.level, r, stride)
			s.L = append(s.L, g.maybePerturb(v))
			holes = append(holes, false)
			// a hole strictly inside (needs a margin of one grid cell)
			if multi && r.I1-r.I0 >= 3 && r.J1-r.J0 >= 3 && rapid.IntRange(0, 2).Draw(t, "hole") == 0 {
				hi0 := rapid.IntRange(r.I0+1, r.I1-2).Draw(t, "hi0")
				hi1 := rapid.IntRange(hi0+1, r.I1-1).Draw(t, "hi1")
				hj0 := rapid.IntRange(r.J0+1, r.J1-2).Draw(t, "hj0")
				hj1 := rapid.IntRange(hj0+1, r.J1-1).Draw(t, "hj1")
				s.L = append(s.L, rectVerts(g.face, g.level, latRect{hi0, hj0, hi1, hj1}, stride))
				holes = append(holes, true)
			}
			if k == 0 {
				s.K = gen.FromPt(uvPoint(g.face, g.level, float64(r.I0)+0.5, float64(r.J0)+0.5))
				s.KIn = true
				innerC = s.K.Pt()
				innerR = 0 // sibling pairs for lattice shapes are placed explicitly below
			}
		}
		s.Fam = "lattice"
		if typ == "laxpolygon" && rapid.IntRange(0, 2).Draw(t, "sib") == 0 {
			// a sibling pair (two opposite edges) strictly inside the corner cell of the first rectangle
			r := rects[0]
			a := uvPoint(g.face, g.level, float64(r.I0)+0.25, float64(r.J0)+0.25)
			b := uvPoint(g.face, g.level, float64(r.I0)+0.75, float64(r.J0)+0.25)
			s.L = append(s.L, []gen.P{gen.FromPt(a), gen.FromPt(b)})
			holes = append(holes, false)
		}
	case 12: // many small disjoint rectangles (more than 12 loops switches Polygon to its cumulative table)
		n := rapid.IntRange(2, 20).Draw(t, "nloops")
		if g.ws < 2*n {
			n = maxI(1, g.ws/2)
		}
		stride := rapid.SampledFrom([]int{0, 1}).Draw(t, "stride")
		j0 := rapid.IntRange(0, g.ws-1).Draw(t, "j0")
		for k := 0; k < n; k++ {
			h := rapid.IntRange(1, minI(3, g.ws-j0)).Draw(t, "h")
			s.L = append(s.L, rectVerts(g.face, g.level, g.shift(latRect{I0: 2 * k, J0: j0, I1: 2*k + 1, J1: j0 + h}), stride))
			holes = append(holes, false)
		}
		s.K = gen.FromPt(uvPoint(g.face, g.level, float64(g.wi)+0.5, float64(g.wj+j0)+0.5))
		s.KIn, s.Fam = true, "manyloops"
	default: // one whole cell
		id := s2.CellFromPoint(g.centre()).ID().Parent(rapid.IntRange(0, 24).Draw(t, "celllevel"))
		c := s2.CellFromCellID(id)
		s.L = [][]gen.P{{gen.FromPt(c.Vertex(0)), gen.FromPt(c.Vertex(1)), gen.FromPt(c.Vertex(2)), gen.FromPt(c.Vertex(3))}}
		holes = []bool{false}
		s.K, s.KIn, s.Fam = gen.FromPt(id.Point()), true, "cell"
	}

	// degenerate extras for lax polygons: single-vertex loops and sibling pairs
	if typ == "laxpolygon" && rapid.IntRange(0, 2).Draw(t, "degen") == 0 {
		k := rapid.IntRange(1, 3).Draw(t, "ndegen")
		for i := 0; i < k; i++ {
			switch rapid.IntRange(0, 2).Draw(t, "dk") {
			case 0: // a degenerate edge at an existing vertex of this shape
				l := s.L[rapid.IntRange(0, len(s.L)-1).Draw(t, "dl")]
				s.L = append(s.L, []gen.P{l[rapid.IntRange(0, len(l)-1).Draw(t, "dv")]})
			case 1: // a degenerate edge somewhere near
				s.L = append(s.L, []gen.P{gen.FromPt(g.centre())})
			default: // a sibling pair inside the edge-free disc about the centre
				if innerR > 0 && innerR < 1 {
					x, y := frame(innerC)
					az := rapid.Float64Range(0, 2*math.Pi).Draw(t, "saz")
					a := at(innerC, x, y, innerR*0.4, az)
					b := at(innerC, x, y, innerR*0.9, az+1)
					if a != b && a != innerC && b != innerC {
						s.L = append(s.L, []gen.P{gen.FromPt(a), gen.FromPt(b)})
					}
				}
			}
			holes = append(holes, false)
		}
	}

	// zero-vertex loops (chains of length 0) at drawn positions of a lax polygon:
	// they add no edge, but every cumulative-offset lookup has to step over them
	if typ == "laxpolygon" && rapid.IntRange(0, 2).Draw(t, "zeroloops") == 0 {
		for i, k := 0, rapid.IntRange(1, 2).Draw(t, "nzero"); i < k; i++ {
			pos := rapid.IntRange(0, len(s.L)).Draw(t, "zpos")
			s.L = append(s.L[:pos], append([][]gen.P{{}}, s.L[pos:]...)...)
			for len(holes) < len(s.L)-1 {
				holes = append(holes, false)
			}
			holes = append(holes[:pos], append([]bool{false}, holes[pos:]...)...)
		}
	}

	// orientation handed to the constructor
	if typ == "laxpolygon" {
		for k := range s.L {
			if k < len(holes) && holes[k] && len(s.L[k]) >= 3 {
				s.L[k] = reverseP(s.L[k])
			}
		}
	}
	// complement: reverse every loop (single-loop shapes and lax polygons)
	if (len(s.L) == 1 || typ == "laxpolygon") && rapid.IntRange(0, 4).Draw(t, "invert") == 0 {
		for k := range s.L {
			s.L[k] = reverseP(s.L[k])
		}
		s.KIn = !s.KIn
		s.Fam += "-inv"
	}
	return s
}

// line draws a polyline.
func (g *gctx) line(typ string, budget int) shp {
	t := g.t
	lax := typ == "laxpolyline"
	s := shp{T: typ}
	nmax := maxI(2, minI(budget+1, 40))
	var v []gen.P
	kind := rapid.IntRange(0, 6).Draw(t, "lk")
	if kind == 2 && len(g.verts) == 0 {
		kind = 0
	}
	switch kind {
	case 0, 1: // random walk near a centre
		n := rapid.IntRange(2, nmax).Draw(t, "n")
		p := g.centre()
		v = append(v, gen.FromPt(p))
		step := g.spread / float64(n) * 2
		az := rapid.Float64Range(0, 2*math.Pi).Draw(t, "az")
		for i := 1; i < n; i++ {
			az += rapid.Float64Range(-1.5, 1.5).Draw(t, "turn")
			x, y := frame(p)
			p = at(p, x, y, step*rapid.Float64Range(0.1, 1).Draw(t, "len"), az)
			v = append(v, gen.FromPt(p))
		}
		s.Fam = "walk"
	case 2: // through vertices of earlier shapes (shared vertices, crossings)
		n := rapid.IntRange(2, minI(nmax, 12)).Draw(t, "n")
		for i := 0; i < n; i++ {
			if rapid.IntRange(0, 4).Draw(t, "fresh") == 0 {
				v = append(v, gen.FromPt(g.centre()))
			} else {
				v = append(v, g.verts[rapid.IntRange(0, len(g.verts)-1).Draw(t, "vi")])
			}
		}
		s.Fam = "shared"
	case 3: // along grid lines of the shared lattice (edges on index-cell boundaries)
		size := g.ws
		n := rapid.IntRange(2, minI(nmax, 16)).Draw(t, "n")
		i := rapid.IntRange(0, size).Draw(t, "i")
		j := rapid.IntRange(0, size).Draw(t, "j")
		v = append(v, gen.FromPt(g.lat(i, j)))
		for k := 1; k < n; k++ {
			if rapid.Bool().Draw(t, "horiz") {
				i = rapid.IntRange(0, size).Draw(t, "i")
			} else {
				j = rapid.IntRange(0, size).Draw(t, "j")
			}
			v = append(v, gen.FromPt(g.lat(i, j)))
		}
		v = g.maybePerturb(v)
		s.Fam = "gridline"
	case 4: // long hops over several faces
		n := rapid.IntRange(2, minI(nmax, 8)).Draw(t, "n")
		for i := 0; i < n; i++ {
			v = append(v, gen.FromPt(gen.Base(t, "hop")))
		}
		s.Fam = "hops"
	case 6: // spokes: every edge is incident to one hub vertex (a cell can never separate them)
		k := rapid.IntRange(2, minI(maxI(2, nmax/2), 16)).Draw(t, "spokes")
		hub := g.centre()
		if len(g.verts) > 0 && rapid.Bool().Draw(t, "hubshared") {
			hub = g.verts[rapid.IntRange(0, len(g.verts)-1).Draw(t, "hubi")].Pt()
		}
		x, y := frame(hub)
		v = append(v, gen.FromPt(hub))
		for i := 0; i < k; i++ {
			r := g.spread * math.Pow(10, rapid.Float64Range(-6, 0).Draw(t, "sr"))
			v = append(v, gen.FromPt(at(hub, x, y, r, rapid.Float64Range(0, 2*math.Pi).Draw(t, "saz"))), gen.FromPt(hub))
		}
		s.Fam = "spokes"
	default: // tiny lists
		n := rapid.IntRange(0, 2).Draw(t, "n")
		for i := 0; i < n; i++ {
			v = append(v, gen.FromPt(g.centre()))
		}
		s.Fam = "tiny"
	}
	// adjacent vertices: never antipodal; identical only for lax polylines
	var w []gen.P
	for _, p := range v {
		if len(w) > 0 {
			q := w[len(w)-1].Pt()
			if q.Dot(p.Pt().Vector) < -0.99 {
				continue
			}
			if !lax && q == p.Pt() {
				continue
			}
		}
		w = append(w, p)
		if lax && rapid.IntRange(0, 9).Draw(t, "dup") == 0 {
			w = append(w, p) // a degenerate edge
		}
	}
	s.L = [][]gen.P{w}
	return s
}

func (g *gctx) points(budget int) shp {
	t := g.t
	n := rapid.IntRange(0, maxI(1, minI(budget, 20))).Draw(t, "npts")
	var v []gen.P
	size := g.ws
	if rapid.IntRange(0, 9).Draw(t, "pile") == 0 {
		// many copies of one point (no cell can hold fewer than all of them),
		// sometimes at a cell corner or at another shape's vertex
		var p gen.P
		switch k := rapid.IntRange(0, 2).Draw(t, "pilek"); {
		case k == 0 && len(g.verts) > 0:
			p = g.verts[rapid.IntRange(0, len(g.verts)-1).Draw(t, "vi")]
		case k == 1:
			p = gen.FromPt(g.lat(rapid.IntRange(0, size).Draw(t, "i"), rapid.IntRange(0, size).Draw(t, "j")))
		default:
			p = gen.FromPt(g.centre())
		}
		for i := rapid.IntRange(2, 24).Draw(t, "pilen"); i > 0; i-- {
			v = append(v, p)
		}
		return shp{T: "points", L: [][]gen.P{v}, Fam: "pile"}
	}
	for i := 0; i < n; i++ {
		k := rapid.IntRange(0, 5).Draw(t, "pk")
		if (k == 1 || k == 2) && len(g.verts) == 0 {
			k = 0
		}
		switch k {
		case 0:
			v = append(v, gen.FromPt(g.centre()))
		case 1, 2:
			v = append(v, g.verts[rapid.IntRange(0, len(g.verts)-1).Draw(t, "vi")])
		case 3:
			v = append(v, gen.FromPt(g.lat(rapid.IntRange(0, size).Draw(t, "i"), rapid.IntRange(0, size).Draw(t, "j"))))
		case 4:
			if len(v) > 0 {
				v = append(v, v[rapid.IntRange(0, len(v)-1).Draw(t, "dupi")])
			} else {
				v = append(v, gen.FromPt(g.centre()))
			}
		default:
			v = append(v, gen.FromPt(gen.CellDerived(t, "cd")))
		}
	}
	return shp{T: "points", L: [][]gen.P{v}, Fam: "points"}
}

func (g *gctx) special() shp {
	t := g.t
	k := gen.FromPt(g.centre())
	switch rapid.IntRange(0, 7).Draw(t, "spk") {
	case 0:
		return shp{T: "loop", Sp: "empty", K: k, KIn: false, Fam: "special"}
	case 1:
		return shp{T: "loop", Sp: "full", K: k, KIn: true, Fam: "special"}
	case 2:
		return shp{T: "polygon", Sp: "empty", K: k, KIn: false, Fam: "special"}
	case 3:
		return shp{T: "polygon", Sp: "full", K: k, KIn: true, Fam: "special"}
	case 4:
		return shp{T: "laxpolygon", Sp: "empty", K: k, KIn: false, Fam: "special"}
	case 5:
		// the full lax polygon: one loop without vertices, plus degenerate holes
		s := shp{T: "laxpolygon", L: [][]gen.P{{}}, K: k, KIn: true, Fam: "special"}
		for i := rapid.IntRange(0, 2).Draw(t, "nd"); i > 0; i-- {
			p := gen.FromPt(g.centre())
			if p != k {
				s.L = append(s.L, []gen.P{p})
			}
		}
		return s
	case 6:
		// lax loops with 0, 1 or 2 vertices: empty, one degenerate edge, a sibling pair
		n := rapid.IntRange(0, 2).Draw(t, "n")
		s := shp{T: "laxloop", K: k, KIn: false, Fam: "special"}
		var v []gen.P
		for i := 0; i < n; i++ {
			p := gen.FromPt(g.centre())
			if p != k {
				v = append(v, p)
			}
		}
		s.L = [][]gen.P{v}
		return s
	default:
		// a lax polygon made only of degeneracies (empty apart from them)
		s := shp{T: "laxpolygon", K: k, KIn: false, Fam: "special"}
		for i := rapid.IntRange(1, 3).Draw(t, "nd"); i > 0; i-- {
			p := gen.FromPt(g.centre())
			q := gen.FromPt(g.centre())
			if p == k || q == k {
				continue
			}
			if rapid.Bool().Draw(t, "pair") && p != q {
				s.L = append(s.L, []gen.P{p, q})
			} else {
				s.L = append(s.L, []gen.P{p})
			}
		}
		if len(s.L) == 0 {
			s.Sp = "empty"
		}
		return s
	}
}

var shapeTypes = []string{"loop", "loop", "polygon", "polygon", "laxloop", "laxpolygon", "laxpolygon", "polyline", "polyline", "laxpolyline", "points", "points", "special"}

func (g *gctx) shape(typ string, budget int) shp {
	switch typ {
	case "loop", "polygon", "laxloop", "laxpolygon":
		return g.twoD(typ, budget)
	case "polyline", "laxpolyline":
		return g.line(typ, budget)
	case "points":
		return g.points(budget)
	}
	return g.special()
}

func newCtx(t *rapid.T) *gctx {
	g := &gctx{t: t}
	switch rapid.IntRange(0, 4).Draw(t, "placement") {
	case 0, 1:
		g.centres = []s2.Point{gen.SpecialCenter(t, "c0")}
	case 2:
		g.centres = []s2.Point{gen.SpecialCenter(t, "c0"), gen.SpecialCenter(t, "c1")}
	case 3:
		for f := 0; f < 3; f++ {
			g.centres = append(g.centres, gen.Fix(s2.Point{Vector: gen.FaceUVToXYZ(f*2%6, rapid.Float64Range(-0.9, 0.9).Draw(t, "cu"), rapid.Float64Range(-0.9, 0.9).Draw(t, "cv")).Normalize()}, s2.PointFromCoords(1, 0, 0)))
		}
	default:
		for f := 0; f < 6; f++ {
			g.centres = append(g.centres, gen.Fix(s2.Point{Vector: gen.FaceUVToXYZ(f, rapid.Float64Range(-0.9, 0.9).Draw(t, "cu"), rapid.Float64Range(-0.9, 0.9).Draw(t, "cv")).Normalize()}, s2.PointFromCoords(1, 0, 0)))
		}
	}
	g.spread = math.Exp(rapid.Float64Range(math.Log(1e-4), math.Log(0.8)).Draw(t, "spread"))
	// the lattice lives on the face of the first centre, at a level whose cells
	// are comparable with the spread (so lattice and free shapes overlap)
	g.face = int(s2.CellFromPoint(g.centres[0]).Face())
	lv := int(math.Round(-math.Log2(g.spread))) + rapid.IntRange(0, 4).Draw(t, "dlevel")
	g.level = maxI(1, minI(lv, 20))
	// the lattice window: up to 64x64 grid cells around the first centre
	size := 1 << uint(g.level)
	g.ws = minI(size, 1<<uint(rapid.IntRange(2, 6).Draw(t, "wslog")))
	ci, cj := gridIJ(g.face, g.level, g.centres[0])
	g.wi = maxI(0, minI(ci-g.ws/2, size-g.ws))
	g.wj = maxI(0, minI(cj-g.ws/2, size-g.ws))
	return g
}

// copyOf sometimes returns an earlier single-loop shape again under another
// type (the same edges in two shapes: every vertex and edge is shared), or its
// vertex list as a polyline or a point set.
func (g *gctx) copyOf(prev []shp) (shp, bool) {
	t := g.t
	if len(prev) == 0 || rapid.IntRange(0, 7).Draw(t, "copy") != 0 {
		return shp{}, false
	}
	p := prev[rapid.IntRange(0, len(prev)-1).Draw(t, "copyof")]
	if p.dim() != 2 || p.Sp != "" || len(p.L) != 1 || len(p.L[0]) < 3 || len(p.L[0]) > 300 {
		return shp{}, false
	}
	typ := rapid.SampledFrom([]string{"loop", "laxloop", "polygon", "laxpolygon", "polyline", "laxpolyline", "points"}).Draw(t, "copytype")
	c := shp{T: typ, L: [][]gen.P{append([]gen.P(nil), p.L[0]...)}, K: p.K, KIn: p.KIn, Fam: p.Fam + "-copy"}
	return c, true
}

// genShapes draws a collection of 1..maxShapes shapes with at most maxEdges edges.
func genShapes(t *rapid.T, maxShapes, maxEdges int) []shp {
	g := newCtx(t)
	n := rapid.IntRange(1, maxShapes).Draw(t, "nshapes")
	left := maxEdges
	var out []shp
	for i := 0; i < n; i++ {
		per := maxI(4, left/(n-i))
		if rapid.IntRange(0, 3).Draw(t, "big") == 0 {
			per = maxI(4, left)
		}
		var s shp
		if c, ok := g.copyOf(out); ok {
			s = g.note(c)
		} else {
			s = g.note(g.shape(rapid.SampledFrom(shapeTypes).Draw(t, "type"), per))
		}
		left -= s.numEdges()
		out = append(out, s)
		if left < 0 {
			break
		}
	}
	return out
}

// edgeBudget draws the total edge budget of a collection: mostly small (so the
// 27-edge brute-force threshold and the 10-edges-per-cell threshold are
// straddled), sometimes hundreds, rarely thousands.
func edgeBudget(t *rapid.T) int {
	big := 2500
	if ev.Thorough() {
		big = 10000
	}
	switch rapid.IntRange(0, 19).Draw(t, "budget") {
	case 0, 1, 2, 3:
		return rapid.IntRange(1, 30).Draw(t, "b0")
	case 4, 5, 6, 7, 8, 9, 10, 11:
		return rapid.IntRange(20, 120).Draw(t, "b1")
	case 12, 13, 14, 15, 16, 17:
		return rapid.IntRange(100, 400).Draw(t, "b2")
	case 18:
		return rapid.IntRange(400, 1500).Draw(t, "b3")
	default:
		return rapid.IntRange(1000, big).Draw(t, "b4")
	}
}

func allVerts(S []shp) []gen.P {
	var v []gen.P
	for i := range S {
		for _, l := range S[i].L {
			v = append(v, l...)
		}
		if S[i].dim() == 2 {
			v = append(v, S[i].K)
		}
	}
	return v
}

// probePoints draws query points: the shared probe mix about the collection's
// vertices plus the construction's known points.
func probePoints(t *rapid.T, S []shp, n int) []gen.P {
	v := allVerts(S)
	if len(v) == 0 {
		v = []gen.P{gen.FromPt(gen.Base(t, "pb"))}
	}
	// ProbePoints indexes v[(k+1)%len(v)] for edge points: that treats the list
	// as one closed chain, which is good enough for "points near edges".
	return gen.ProbePoints(t, "q", v, n)
}

// probeEdges draws query edges.
func probeEdges(t *rapid.T, S []shp, n int) [][2]gen.P {
	v := allVerts(S)
	if len(v) == 0 {
		v = []gen.P{gen.FromPt(gen.Base(t, "pb"))}
	}
	// real edges of the collection (for coincident / nearly coincident queries)
	type ed struct{ a, b gen.P }
	var es []ed
	for i := range S {
		for _, l := range S[i].L {
			for k := 0; k+1 < len(l) && len(es) < 2000; k++ {
				es = append(es, ed{l[k], l[k+1]})
			}
		}
	}
	pick := func(label string) s2.Point { return v[rapid.IntRange(0, len(v)-1).Draw(t, label)].Pt() }
	var out [][2]gen.P
	for i := 0; i < n; i++ {
		var a, b s2.Point
		k := rapid.IntRange(0, 9).Draw(t, "ek")
		if (k == 4 || k == 5 || k == 7) && len(es) == 0 {
			k = 1
		}
		switch k {
		case 0: // vertex to vertex (shared endpoints; rarely the same vertex twice: a degenerate query)
			a, b = pick("va"), pick("vb")
		case 1, 2: // a short edge around a vertex
			c := pick("vc")
			x, y := frame(c)
			az := rapid.Float64Range(0, 2*math.Pi).Draw(t, "az")
			ra := math.Pow(10, rapid.Float64Range(-15, -1).Draw(t, "ra"))
			rb := math.Pow(10, rapid.Float64Range(-15, -1).Draw(t, "rb"))
			a = at(c, x, y, ra, az)
			b = at(c, x, y, rb, az+math.Pi+rapid.Float64Range(-1, 1).Draw(t, "daz"))
		case 3: // vertex to a far point (several faces)
			a, b = pick("va"), gen.Base(t, "far")
		case 4: // exactly an existing edge
			e := es[rapid.IntRange(0, len(es)-1).Draw(t, "ei")]
			a, b = e.a.Pt(), e.b.Pt()
			if rapid.Bool().Draw(t, "rev") {
				a, b = b, a
			}
		case 5: // an existing edge with ulp noise on the endpoints (nearly collinear, overlapping)
			e := es[rapid.IntRange(0, len(es)-1).Draw(t, "ei")]
			a = gen.Perturb(t, "pa", e.a.Pt(), 3)
			b = gen.Perturb(t, "pb", e.b.Pt(), 3)
		case 6: // between corners of a cell around a vertex (along or across cell boundaries)
			c := pick("vc")
			id := s2.CellFromPoint(c).ID().Parent(rapid.IntRange(0, 30).Draw(t, "cl"))
			cell := s2.CellFromCellID(id)
			k0 := rapid.IntRange(0, 3).Draw(t, "k0")
			a, b = cell.Vertex(k0), cell.Vertex((k0+rapid.IntRange(1, 3).Draw(t, "dk"))%4)
		case 7: // from a point on an existing edge to a vertex
			e := es[rapid.IntRange(0, len(es)-1).Draw(t, "ei")]
			a = gen.Fix(s2.Interpolate(rapid.Float64Range(0, 1).Draw(t, "f"), e.a.Pt(), e.b.Pt()), e.a.Pt())
			b = pick("vb")
		case 8: // anywhere to anywhere
			a, b = gen.Base(t, "ua"), gen.Base(t, "ub")
		default: // vertex to an ulp-neighbour of another vertex
			a, b = pick("va"), gen.Perturb(t, "pb", pick("vb"), 3)
		}
		a = gen.Fix(a, s2.PointFromCoords(1, 0, 0))
		b = gen.Fix(b, s2.PointFromCoords(0, 1, 0))
		out = append(out, [2]gen.P{gen.FromPt(a), gen.FromPt(b)})
	}
	return out
}
