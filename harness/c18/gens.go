package c18

import (
	"fmt"
	"math"
	"sort"

	"github.com/golang/geo/r3"
	"github.com/golang/geo/s2"
	"pgregory.net/rapid"

	"verifharness/internal/exact"
	"verifharness/internal/gen"
)

func vecs(v []gen.P) []r3.Vector {
	out := make([]r3.Vector, len(v))
	for i, p := range v {
		out[i] = p.Pt().Vector
	}
	return out
}

func rotated(v []s2.Point, r int) []s2.Point {
	n := len(v)
	out := make([]s2.Point, 0, n)
	out = append(out, v[r%n:]...)
	return append(out, v[:r%n]...)
}

func reversedPts(v []s2.Point) []s2.Point {
	n := len(v)
	out := make([]s2.Point, n)
	for i := range v {
		out[i] = v[n-1-i]
	}
	return out
}

// sizeN draws a vertex count in [3,maxN]: mostly small, mass on the 31/32/33
// and 63/64/65 thresholds, a tail up to maxN.
func sizeN(t *rapid.T, label string, maxN int) int {
	if maxN < 3 {
		maxN = 3
	}
	switch rapid.IntRange(0, 11).Draw(t, label+".nk") {
	case 0:
		if n := rapid.SampledFrom([]int{31, 32, 33, 63, 64, 65}).Draw(t, label+".nthr"); n <= maxN {
			return n
		}
	case 1, 2, 3, 4:
		return rapid.IntRange(3, minInt(8, maxN)).Draw(t, label+".nsmall")
	case 5, 6, 7, 8:
		return rapid.IntRange(3, minInt(80, maxN)).Draw(t, label+".nmid")
	case 9, 10:
		return rapid.IntRange(3, minInt(400, maxN)).Draw(t, label+".nbig")
	}
	return rapid.IntRange(3, maxN).Draw(t, label+".n")
}

func minInt(a, b int) int {
	if a < b {
		return a
	}
	return b
}

// rotations draws up to k distinct-ish rotation offsets in [1,n-1] (all of
// them when n-1 <= k); 1 and n-1 are always included.
func rotations(t *rapid.T, label string, n, k int) []int {
	if n-1 <= k {
		out := make([]int, 0, n-1)
		for r := 1; r < n; r++ {
			out = append(out, r)
		}
		return out
	}
	out := []int{1, n - 1}
	for len(out) < k {
		out = append(out, rapid.IntRange(1, n-1).Draw(t, label+".rot"))
	}
	return out
}

func tiny(t *rapid.T, label string, lo10, hi10 float64) float64 {
	switch rapid.IntRange(0, 7).Draw(t, label+".tk") {
	case 0:
		return 0
	}
	s := float64(rapid.SampledFrom([]int{-1, 1}).Draw(t, label+".ts"))
	return s * math.Pow(10, rapid.Float64Range(lo10, hi10).Draw(t, label+".te"))
}

const deg = math.Pi / 180

// bandLoop draws a loop that winds once around the pole N of a frame (X,Y,N):
// vertex i sits at longitude λ_i (strictly increasing, every step < 170° except
// one optional step of π−δ) and latitude φ_i ∈ [−80°,80°]. A great-circle arc
// shorter than 180° that avoids the poles is monotone in longitude, so edges
// over disjoint longitude intervals cannot meet: the loop is simple whatever
// the latitudes are. N is strictly inside (left of eastward travel), −N
// strictly outside. The family covers what the cap-bounded families cannot:
// areas from 0.1 to 4π−0.1 sr, hemispheres (turning angle ≈ 0, exactly
// coplanar vertices when the frame is a coordinate frame and φ = 0), edges up
// to 180°−1e-7, and vertices (nearly) antipodal to vertex 0, which drive the
// fan-origin switch inside Area/Centroid.
func bandLoop(t *rapid.T, label string, maxN int) gen.LoopCase {
	var N, X, Y r3.Vector
	kind := "band"
	exactFrame := rapid.IntRange(0, 2).Draw(t, label+".exactframe") == 0
	if exactFrame {
		ax := [3]r3.Vector{{X: 1}, {Y: 1}, {Z: 1}}
		k := rapid.IntRange(0, 2).Draw(t, label+".axis")
		X, Y, N = ax[k], ax[(k+1)%3], ax[(k+2)%3]
		if rapid.Bool().Draw(t, label+".flip") {
			X, Y, N = Y, X, N.Mul(-1)
		}
	} else {
		c := gen.SpecialCenter(t, label+".c")
		N = c.Vector
		X = c.Ortho()
		Y = N.Cross(X).Normalize()
	}
	n := sizeN(t, label, maxN)
	long := rapid.IntRange(0, 3).Draw(t, label+".long") == 0
	// longitude steps
	w := make([]float64, n)
	sum := 0.0
	for i := range w {
		w[i] = rapid.Float64Range(0.2, 1).Draw(t, label+".w")
		sum += w[i]
	}
	steps := make([]float64, n)
	if long {
		gap := math.Pi - math.Pow(10, rapid.Float64Range(-7, -1.5).Draw(t, label+".gap"))
		at := rapid.IntRange(0, n-1).Draw(t, label+".gapat")
		rest := sum - w[at]
		for i := range steps {
			steps[i] = w[i] / rest * (2*math.Pi - gap)
		}
		steps[at] = gap
		kind += "-long"
	} else {
		maxStep := 0.0
		for i := range steps {
			steps[i] = w[i] / sum * 2 * math.Pi
			maxStep = math.Max(maxStep, steps[i])
		}
		if maxStep > 170*deg {
			for i := range steps {
				steps[i] = 2 * math.Pi / float64(n)
			}
		}
	}
	lon := make([]float64, n)
	lon[0] = rapid.Float64Range(0, 2*math.Pi).Draw(t, label+".lon0")
	if exactFrame && rapid.Bool().Draw(t, label+".lon0zero") {
		lon[0] = 0
	}
	for i := 1; i < n; i++ {
		lon[i] = lon[i-1] + steps[i-1]
	}
	// latitudes
	lat := make([]float64, n)
	lm := rapid.IntRange(0, 5).Draw(t, label+".latmode")
	if long && lm >= 2 && rapid.IntRange(0, 3).Draw(t, label+".longeq") != 0 {
		lm = rapid.IntRange(0, 1).Draw(t, label+".latmode2")
	}
	switch lm {
	case 0:
		kind += "-eq0"
	case 1:
		for i := range lat {
			lat[i] = tiny(t, label+".lt", -17, -3)
		}
		kind += "-eqtiny"
	case 2, 3:
		p0 := rapid.Float64Range(-80*deg, 80*deg).Draw(t, label+".lat0")
		for i := range lat {
			lat[i] = p0
		}
		kind += "-const"
	default:
		p0 := rapid.Float64Range(-80*deg, 80*deg).Draw(t, label+".lat0")
		amp := math.Pow(10, rapid.Float64Range(-6, 0).Draw(t, label+".amp"))
		for i := range lat {
			lat[i] = math.Max(-80*deg, math.Min(80*deg, p0+amp*rapid.Float64Range(-1, 1).Draw(t, label+".lj")))
		}
		kind += "-jitter"
	}
	// a vertex (nearly) antipodal to vertex 0
	if n >= 4 && rapid.IntRange(0, 3).Draw(t, label+".antip") == 0 {
		best, bd := -1, math.Inf(1)
		for j := 2; j <= n-2; j++ {
			if d := math.Abs(lon[j] - lon[0] - math.Pi); d < bd {
				best, bd = j, d
			}
		}
		if best > 0 {
			nl := lon[0] + math.Pi + tiny(t, label+".ad1", -17, -4)
			if nl > lon[best-1]+1e-3 && nl < lon[best+1]-1e-3 && nl-lon[best-1] < 170*deg && lon[best+1]-nl < 170*deg {
				lon[best] = nl
				lat[best] = -lat[0] + tiny(t, label+".ad2", -17, -4)
				kind += "-antip"
			}
		}
	}
	v := make([]gen.P, n)
	for i := range v {
		sl, cl := math.Sincos(lat[i])
		so, co := math.Sincos(lon[i])
		p := N.Mul(sl).Add(X.Mul(co * cl)).Add(Y.Mul(so * cl))
		v[i] = gen.FromPt(gen.Fix(s2.Point{Vector: p.Normalize()}, s2.Point{Vector: X}))
	}
	return gen.LoopCase{V: v, Kind: kind, Inside: gen.P{N.X, N.Y, N.Z}}
}

// octaLoop draws a cycle of 3…6 distinct vertices of an octahedron (the six
// axis directions of an exact or random frame; consecutive ones perpendicular),
// each moved by 0 or 1e-17…1e-6. Distinct octahedron edges meet only at shared
// vertices, so every such cycle is a simple loop of quarter-circle edges. The
// family is aimed at the fan-origin logic of Area/Centroid: vertices antipodal
// to vertex 0 and to the substitute origins (e.g. X, Y, −X, −Z reaches the
// "both pairs antipodal" branch). No interior witness is known by
// construction; the area truth comes from the turning-angle oracle.
func octaLoop(t *rapid.T, label string) gen.LoopCase {
	var fr [3]r3.Vector
	if rapid.Bool().Draw(t, label+".exactframe") {
		fr = [3]r3.Vector{{X: 1}, {Y: 1}, {Z: 1}}
	} else {
		c := gen.Uniform(t, label+".c")
		x := c.Ortho()
		fr = [3]r3.Vector{x, c.Cross(x).Normalize(), c.Vector}
	}
	type ax struct{ k, s int }
	n := rapid.IntRange(3, 6).Draw(t, label+".n")
	var seq []ax
	used := map[ax]bool{}
	// random walk on the octahedron graph with backtracking-free retries (drawn)
	for try := 0; try < 40 && len(seq) < n; try++ {
		a := ax{rapid.IntRange(0, 2).Draw(t, label+".ak"), rapid.SampledFrom([]int{-1, 1}).Draw(t, label+".as")}
		if used[a] {
			continue
		}
		if len(seq) > 0 && seq[len(seq)-1].k == a.k {
			continue
		}
		if len(seq) == n-1 && seq[0].k == a.k {
			continue
		}
		used[a] = true
		seq = append(seq, a)
	}
	if len(seq) < 3 || seq[0].k == seq[len(seq)-1].k {
		seq = []ax{{0, 1}, {1, 1}, {2, 1}}
	}
	v := make([]gen.P, len(seq))
	for i, a := range seq {
		p := fr[a.k].Mul(float64(a.s))
		if rapid.IntRange(0, 2).Draw(t, label+".pert") != 0 {
			p = p.Add(fr[(a.k+1)%3].Mul(tiny(t, label+".p1", -17, -6))).Add(fr[(a.k+2)%3].Mul(tiny(t, label+".p2", -17, -6)))
		}
		v[i] = gen.FromPt(gen.Fix(s2.Point{Vector: p.Normalize()}, s2.Point{Vector: fr[a.k].Mul(float64(a.s))}))
	}
	return gen.LoopCase{V: v, Kind: "octa", Inside: v[0]}
}

// drawLoop mixes the shared valid-by-construction families (regular, star,
// lattice rectangles, cells; all inside an 80° cap about Inside) with band loops.
func drawLoop(t *rapid.T, label string, maxN int) gen.LoopCase {
	src := rapid.IntRange(0, 19).Draw(t, label+".src")
	if src < 11 {
		return gen.Loop(t, label, maxN)
	}
	if src == 19 {
		l := octaLoop(t, label)
		if rapid.Bool().Draw(t, label+".oinv") {
			l = l.Reversed()
		}
		return l
	}
	l := bandLoop(t, label, maxN)
	if rapid.IntRange(0, 3).Draw(t, label+".binv") == 0 {
		l = l.Reversed()
	}
	return l
}

// ---------------------------------------------------------------- triangles

type triCase struct {
	A, B, C gen.P
	Kind    string
}

// perp returns a unit vector perpendicular to p in a drawn direction.
func perp(t *rapid.T, label string, p s2.Point) r3.Vector {
	x := p.Ortho()
	y := p.Cross(x).Normalize()
	th := rapid.Float64Range(0, 2*math.Pi).Draw(t, label+".dir")
	return x.Mul(math.Cos(th)).Add(y.Mul(math.Sin(th)))
}

func offset(p s2.Point, d r3.Vector, ang float64) s2.Point {
	return gen.Fix(s2.Point{Vector: p.Mul(math.Cos(ang)).Add(d.Mul(math.Sin(ang))).Normalize()}, p)
}

func genTriangle(t *rapid.T) triCase {
	var a, b, c s2.Point
	kind := ""
	switch rapid.IntRange(0, 8).Draw(t, "kind") {
	case 0:
		ps := gen.CoplanarTuple(t, "p", 3)
		a, b, c, kind = ps[0], ps[1], ps[2], "coplanar"
	case 1:
		ps := gen.Tuple(t, "p", 3)
		a, b, c, kind = ps[0], ps[1], ps[2], "tuple"
	case 2:
		// small fat triangle of size 1e-7..1e-1
		a = gen.Base(t, "a")
		r := math.Pow(10, rapid.Float64Range(-7, -1).Draw(t, "size"))
		b = offset(a, perp(t, "b", a), r*rapid.Float64Range(0.3, 1).Draw(t, "rb"))
		c = offset(a, perp(t, "c", a), r*rapid.Float64Range(0.3, 1).Draw(t, "rc"))
		kind = "small"
	case 3:
		// needle: b next to a, c anywhere
		a = gen.Base(t, "a")
		b = offset(a, perp(t, "b", a), math.Pow(10, rapid.Float64Range(-15, -3).Draw(t, "sep")))
		c = offset(a, perp(t, "c", a), rapid.Float64Range(1e-3, 3).Draw(t, "far"))
		kind = "needle"
	case 4:
		// c (almost) on the arc ab
		a = gen.Base(t, "a")
		b = offset(a, perp(t, "b", a), rapid.Float64Range(1e-6, 3).Draw(t, "len"))
		f := rapid.Float64Range(0.01, 0.99).Draw(t, "f")
		c = gen.Fix(s2.Interpolate(f, a, b), a)
		c = gen.Perturb(t, "cn", c, 3)
		kind = "flat"
	case 5:
		// one edge close to 180°
		a = gen.Base(t, "a")
		d := perp(t, "b", a)
		b = offset(a, d, math.Pi-math.Pow(10, rapid.Float64Range(-9, -1.5).Draw(t, "gap")))
		c = gen.Uniform(t, "c")
		kind = "long"
	case 6:
		// large triangle near a great circle (area ≈ 2π)
		a = gen.Base(t, "a")
		d := perp(t, "b", a)
		e := a.Cross(d)
		mk := func(l string, ang float64) s2.Point {
			h := tiny(t, l, -16, -2)
			return gen.Fix(s2.Point{Vector: a.Mul(math.Cos(ang)).Add(d.Mul(math.Sin(ang))).Add(e.Mul(h)).Normalize()}, a)
		}
		b = mk("hb", rapid.Float64Range(100*deg, 140*deg).Draw(t, "ab"))
		c = mk("hc", rapid.Float64Range(220*deg, 260*deg).Draw(t, "ac"))
		kind = "hemi"
	default:
		a, b, c, kind = gen.Uniform(t, "a"), gen.Uniform(t, "b"), gen.Uniform(t, "c"), "uniform"
	}
	if rapid.Bool().Draw(t, "swap") {
		b, c = c, b
	}
	return triCase{gen.FromPt(a), gen.FromPt(b), gen.FromPt(c), kind}
}

// ---------------------------------------------------------------- slivers

type sliverCase struct {
	V      []gen.P
	Kind   string
	Probes []gen.P
}

func genSliver(t *rapid.T) sliverCase {
	var v []s2.Point
	kind := ""
	switch k := rapid.IntRange(0, 7).Draw(t, "kind"); k {
	case 0:
		v, kind = gen.CoplanarTuple(t, "p", 3), "tri-coplanar"
	case 1:
		tc := genTriangle(t)
		v, kind = []s2.Point{tc.A.Pt(), tc.B.Pt(), tc.C.Pt()}, "tri-"+tc.Kind
	case 2:
		// exactly coplanar n-gon: points of one plane sorted along the circle,
		// out along every second one and back along the others
		n := rapid.IntRange(4, 7).Draw(t, "n")
		ps := gen.CoplanarTuple(t, "p", n)
		ref := ps[0]
		y := r3.Vector{}
		for _, q := range ps[1:] {
			if cr := ref.Cross(q.Vector); cr.Norm() > 1e-3 {
				y = cr.Cross(ref.Vector).Normalize()
				break
			}
		}
		ang := func(p s2.Point) float64 { return math.Atan2(p.Dot(y), p.Dot(ref.Vector)) }
		for i, q := range ps {
			// keep everything within 80° of ps[0] (the antipode stays in the plane)
			if math.Abs(ang(q)) > 80*deg {
				ps[i] = s2.Point{Vector: q.Mul(-1)}
			}
		}
		sort.SliceStable(ps, func(i, j int) bool { return ang(ps[i]) < ang(ps[j]) })
		var out, back []s2.Point
		for i, p := range ps {
			if i == 0 || i == len(ps)-1 || rapid.Bool().Draw(t, "side") {
				out = append(out, p)
			} else {
				back = append([]s2.Point{p}, back...)
			}
		}
		v, kind = append(out, back...), "ngon-coplanar"
	default:
		// thin lens about a base arc U→W
		u := gen.Base(t, "u")
		d := perp(t, "d", u)
		nn := u.Cross(d).Normalize()
		L := math.Pow(10, rapid.Float64Range(-6, 0.45).Draw(t, "len"))
		if L > 170*deg {
			L = 170 * deg
		}
		H := 0.0
		if rapid.IntRange(0, 5).Draw(t, "h0") != 0 {
			H = math.Pow(10, rapid.Float64Range(-18, -3).Draw(t, "h")) * L
		}
		mk := func(s, h float64) s2.Point {
			return gen.Fix(s2.Point{Vector: u.Mul(math.Cos(s * L)).Add(d.Mul(math.Sin(s * L))).Add(nn.Mul(h)).Normalize()}, u)
		}
		chain := func(label string, m int, sgn float64) []s2.Point {
			ss := make([]float64, m)
			for i := range ss {
				ss[i] = rapid.Float64Range(0.02, 0.98).Draw(t, label+".s")
			}
			sort.Float64s(ss)
			var out []s2.Point
			for _, s := range ss {
				out = append(out, mk(s, sgn*H*rapid.Float64Range(0, 1).Draw(t, label+".g")))
			}
			return out
		}
		up := chain("up", rapid.IntRange(0, 4).Draw(t, "mu"), 1)
		lo := chain("lo", rapid.IntRange(0, 4).Draw(t, "ml"), -1)
		if len(up)+len(lo) == 0 {
			up = chain("up1", 1, 1)
		}
		v = append(v, mk(0, 0))
		v = append(v, lo...)
		v = append(v, mk(1, 0))
		for i := len(up) - 1; i >= 0; i-- {
			v = append(v, up[i])
		}
		kind = fmt.Sprintf("lens")
	}
	if rapid.Bool().Draw(t, "rev") {
		v = reversedPts(v)
	}
	if r := rapid.IntRange(0, len(v)-1).Draw(t, "rot"); r > 0 {
		v = rotated(v, r)
	}
	probes := make([]gen.P, 0, 10)
	for i := 0; i < 6; i++ {
		probes = append(probes, gen.FromPt(gen.Base(t, fmt.Sprintf("q%d", i))))
	}
	for i := 0; i < 4; i++ {
		k := rapid.IntRange(0, len(v)-1).Draw(t, "pe")
		a, b := v[k], v[(k+1)%len(v)]
		p := a
		if a != b && a.Vector != b.Mul(-1) {
			p = gen.Fix(s2.Interpolate(rapid.Float64Range(0, 1).Draw(t, "pf"), a, b), a)
		}
		probes = append(probes, gen.FromPt(gen.Perturb(t, "pn", p, 3)))
	}
	return sliverCase{V: gen.FromPts(v), Kind: kind, Probes: probes}
}

// ---------------------------------------------------------------- polygons

// hugSystem: a regular-ish shell of 4..8 vertices (radius r about c) and a hole
// (p, q, in) where p, q are interpolated on one shell edge and moved inwards by
// ulps until the exact orientation test puts them strictly left of that edge,
// and in is halfway to the centre.
func hugSystem(t *rapid.T, l string, c s2.Point, x, y r3.Vector, r float64) (ringSystem, bool) {
	n := rapid.IntRange(4, 8).Draw(t, l+".hn")
	az0 := rapid.Float64Range(0, 2*math.Pi).Draw(t, l+".haz")
	shell := make([]s2.Point, n)
	for i := range shell {
		az := az0 + float64(i)*2*math.Pi/float64(n)
		dir := x.Mul(math.Cos(az)).Add(y.Mul(math.Sin(az)))
		shell[i] = gen.Fix(s2.Point{Vector: c.Mul(math.Cos(r)).Add(dir.Mul(math.Sin(r))).Normalize()}, c)
	}
	e := rapid.IntRange(0, n-1).Draw(t, l+".he")
	a, b := shell[e], shell[(e+1)%n]
	f1 := rapid.Float64Range(0.05, 0.6).Draw(t, l+".hf1")
	f2 := f1 + rapid.Float64Range(0.05, 0.35).Draw(t, l+".hf2")
	inside := func(p s2.Point) (s2.Point, bool) {
		for k := 0; k < 40; k++ {
			if exact.Sign(a.Vector, b.Vector, p.Vector) > 0 {
				return p, true
			}
			p = s2.Point{Vector: p.Add(c.Mul(float64(k+1) * 0x1p-53)).Normalize()}
		}
		return p, false
	}
	p, ok1 := inside(s2.Interpolate(f1, a, b))
	q, ok2 := inside(s2.Interpolate(f2, a, b))
	in := s2.Interpolate(0.5, s2.Interpolate((f1+f2)/2, a, b), c)
	if !ok1 || !ok2 || p == q {
		return ringSystem{}, false
	}
	return ringSystem{Center: gen.FromPt(c), Rings: [][]gen.P{gen.FromPts(shell), gen.FromPts([]s2.Point{p, q, in})}}, true
}

// ringSystem: concentric rings about one centre, outermost first; ring k is
// strictly inside ring k-1 (radius bands [0.8,1]·R·0.7^k, ≥ 8 vertices each), so
// its nesting depth is k.
type ringSystem struct {
	Center gen.P
	Rings  [][]gen.P
}

type polyCase struct {
	Sys   []ringSystem
	Order []int // permutation of the loops handed to the constructor
}

func genPolygon(t *rapid.T) polyCase {
	// up to 4 systems about well-separated centres (face centres of the cube,
	// jittered by ≤ 0.1 rad; radius ≤ 0.5 rad, so caps of radius 0.6 about
	// centres ≥ 90°−0.2 rad apart are disjoint)
	ns := rapid.IntRange(1, 4).Draw(t, "nsys")
	faces := rapid.Permutation([]int{0, 1, 2, 3, 4, 5}).Draw(t, "faces")
	var pc polyCase
	total := 0
	maxN := 40
	if rapid.IntRange(0, 9).Draw(t, "bigrings") == 0 {
		maxN = 400
	}
	for s := 0; s < ns; s++ {
		l := fmt.Sprintf("s%d", s)
		fc := s2.Point{Vector: gen.FaceUVToXYZ(faces[s], 0, 0)}
		c := fc
		if rapid.Bool().Draw(t, l+".jit") {
			c = offset(fc, perp(t, l+".jd", fc), rapid.Float64Range(0, 0.1).Draw(t, l+".jr"))
		}
		x := c.Ortho()
		y := c.Cross(x).Normalize()
		k := rapid.IntRange(1, 4).Draw(t, l+".rings")
		rout := math.Exp(rapid.Float64Range(math.Log(1e-6), math.Log(0.5)).Draw(t, l+".lr"))
		rs := ringSystem{Center: gen.FromPt(c)}
		if rapid.IntRange(0, 3).Draw(t, l+".hug") == 0 {
			// a shell of 4..8 long edges and a triangular hole with one edge lying
			// along (strictly inside, within rounding of) a shell edge: the two
			// loops' bounding rectangles then differ by rounding only on that side
			if rapid.Bool().Draw(t, l+".touch") {
				// ... or a hole sharing exactly one vertex with a shell of 5..16 vertices
				if tr, ok := gen.TouchRings(t, l, c, math.Max(rout, 1e-4)); ok {
					pc.Sys = append(pc.Sys, ringSystem{Center: tr.Center, Rings: tr.Rings})
					total += 2
					continue
				}
			}
			if hs, ok := hugSystem(t, l, c, x, y, math.Max(rout, 0.05)); ok {
				pc.Sys = append(pc.Sys, hs)
				total += 2
				continue
			}
		}
		for ring := 0; ring < k; ring++ {
			n := rapid.IntRange(8, maxN).Draw(t, l+".n")
			hi := rout * math.Pow(0.7, float64(ring))
			lo := hi * 0.8
			az0 := rapid.Float64Range(0, 2*math.Pi).Draw(t, l+".az0")
			ringV := make([]gen.P, n)
			for i := 0; i < n; i++ {
				r := rapid.Float64Range(lo, hi).Draw(t, l+".r")
				az := az0 + float64(i)*2*math.Pi/float64(n)
				dir := x.Mul(math.Cos(az)).Add(y.Mul(math.Sin(az)))
				ringV[i] = gen.FromPt(gen.Fix(s2.Point{Vector: c.Mul(math.Cos(r)).Add(dir.Mul(math.Sin(r))).Normalize()}, c))
			}
			rs.Rings = append(rs.Rings, ringV)
			total++
		}
		pc.Sys = append(pc.Sys, rs)
	}
	idx := make([]int, total)
	for i := range idx {
		idx[i] = i
	}
	pc.Order = rapid.Permutation(idx).Draw(t, "order")
	return pc
}
