package c18

// Independent oracles for turning angle, area and centroid.
//
// Every product (cross products, determinants, dot products, norms) is formed
// from the float64 inputs in 320-bit arithmetic (internal/hp; relative error
// 2^-319 per operation, ignored) and, where a sign decides something, from
// exact integers (internal/exact, incl. the symbolic perturbation). The only
// float64 step is one math.Atan2 per item on the correctly rounded arguments;
// its error (≤ 1 ulp of the result plus the two argument roundings) is
// carried as an explicit oracle-error term by every caller.
//
//   turning angle at B (A→B→C):  atan2(|det(A,B,C)|·|B|, (A×B)·(B×C)), signed by the exact orientation
//   signed triangle area (Eriksson / Van Oosterom–Strackee):
//        E = 2·atan2(det(A,B,C), |A||B||C| + (A·B)|C| + (B·C)|A| + (C·A)|B|)
//   loop area: Σ E(O, v_i, v_{i+1}) over a fan about an apex O; no triangle with
//        sides < π contains −O, so the sum is Area if −O is outside and Area − 4π if −O is inside
//   centroid·area (= vector area): ½ ∮ x × dx = ½ Σ θ_i · (v_i × v_{i+1}) / |v_i × v_{i+1}|
//
// Products are exact integers (see hpLoop), not fixed-precision floats.
//
// None of this shares a formula with the library (which uses l'Huilier /
// Girard for areas, Cramer's rule per fan triangle for centroids and
// RobustCrossProd+Angle for turning angles).

import (
	"math"
	"math/big"

	"github.com/golang/geo/r3"

	"verifharness/internal/exact"
	"verifharness/internal/hp"
)

const eps = 0x1p-52 // DBL_EPSILON, the unit of the library's documented bounds

// atan2Big evaluates atan2(y, x) for high-precision arguments: both are scaled
// by one power of two into the float64 range, rounded, and handed to math.Atan2.
func atan2Big(y, x *big.Float) float64 {
	if y.Sign() == 0 && x.Sign() == 0 {
		return 0
	}
	e := math.MinInt32
	if y.Sign() != 0 {
		e = y.MantExp(nil)
	}
	if x.Sign() != 0 {
		if ex := x.MantExp(nil); ex > e {
			e = ex
		}
	}
	ys := new(big.Float).SetMantExp(y, -e)
	xs := new(big.Float).SetMantExp(x, -e)
	fy, _ := ys.Float64()
	fx, _ := xs.Float64()
	return math.Atan2(fy, fx)
}

// acc is an exact accumulator of float64 terms.
type acc struct{ s *big.Float }

func newAcc() *acc             { return &acc{hp.F(0)} }
func (a *acc) add(x float64)   { a.s = hp.Add(a.s, hp.F(x)) }
func (a *acc) float() float64  { return hp.Float(a.s) }
func (a *acc) big() *big.Float { return a.s }

// bf converts an exact integer to a big.Float without rounding.
func bf(x *big.Int) *big.Float {
	prec := uint(x.BitLen() + 64)
	if prec < hp.Prec {
		prec = hp.Prec
	}
	return new(big.Float).SetPrec(prec).SetInt(x)
}

func fmul(a, b *big.Float) *big.Float {
	p := a.Prec()
	if b.Prec() > p {
		p = b.Prec()
	}
	return new(big.Float).SetPrec(p).Mul(a, b)
}

func fadd(a, b *big.Float) *big.Float {
	p := a.Prec()
	if b.Prec() > p {
		p = b.Prec()
	}
	return new(big.Float).SetPrec(p).Add(a, b)
}

func fsqrt(a *big.Float) *big.Float {
	if a.Sign() <= 0 {
		return new(big.Float).SetPrec(a.Prec())
	}
	return new(big.Float).SetPrec(a.Prec()).Sqrt(a)
}

// hpLoop holds a vertex chain scaled by one power of two to integer vectors
// (exact.IntVecs), so that cross products, dot products and determinants are
// exact integers whatever the exponent spread of the coordinates is (a
// fixed-precision float would lose a 1e-180 coordinate next to a 0.5 one, and
// with it the whole determinant of a needle triangle). Only norms (square
// roots, no cancellation) and the final quotients are rounded, at ≥ 320 bits.
type hpLoop struct {
	n  int
	v  []r3.Vector
	iv []exact.Vec
	cr []exact.Vec  // cr[i] = v[i] × v[i+1]   (scale 2^2E)
	nr []*big.Float // |v[i]|                  (scale 2^E)
}

func newHPLoop(v []r3.Vector) *hpLoop {
	n := len(v)
	iv, _ := exact.IntVecs(v...)
	l := &hpLoop{n: n, v: v, iv: iv, cr: make([]exact.Vec, n), nr: make([]*big.Float, n)}
	for i := range v {
		l.nr[i] = fsqrt(bf(exact.Norm2(iv[i])))
		l.cr[i] = exact.Cross(iv[i], iv[(i+1)%n])
	}
	return l
}

// turnAt is the signed exterior angle at vertex i:
// atan2(|det(a,b,c)|·|b|, (a×b)·(b×c)) (both of scale 2^4E), signed by the
// exact, symbolically perturbed orientation.
func (l *hpLoop) turnAt(i int) float64 {
	n := l.n
	p, nx := (i+n-1)%n, (i+1)%n
	dot := bf(exact.Dot(l.cr[p], l.cr[i]))
	det := exact.Dot(l.iv[p], l.cr[i]) // a·(b×c)
	sin := fmul(bf(new(big.Int).Abs(det)), l.nr[i])
	ang := atan2Big(sin, dot)
	if exact.Sign(l.v[p], l.v[i], l.v[nx]) > 0 {
		return ang
	}
	return -ang
}

// turning returns Σ turn angles (exact sum of the per-vertex float64 values)
// and the oracle's own error bound: per vertex ≤ 1 ulp(π) for Atan2 plus the
// two argument roundings (≤ 2^-53 rad each) < 4·eps.
func (l *hpLoop) turning() (t, oerr float64) {
	a := newAcc()
	for i := 0; i < l.n; i++ {
		a.add(l.turnAt(i))
	}
	return a.float(), 4 * eps * float64(l.n)
}

// eriksson: 2·atan2(det, |o||a||b| + (o·a)|b| + (a·b)|o| + (b·o)|a|), all of scale 2^3E.
func eriksson(o, a, b exact.Vec, crab exact.Vec, no, na, nb *big.Float) float64 {
	det := bf(exact.Dot(o, crab))
	den := fmul(fmul(no, na), nb)
	den = fadd(den, fmul(bf(exact.Dot(o, a)), nb))
	den = fadd(den, fmul(bf(exact.Dot(a, b)), no))
	den = fadd(den, fmul(bf(exact.Dot(b, o)), na))
	return 2 * atan2Big(det, den)
}

// TriArea is the signed area (in (−2π, 2π)) of a triangle of float64 points.
func TriArea(a, b, c r3.Vector) float64 {
	iv, _ := exact.IntVecs(a, b, c)
	n := func(v exact.Vec) *big.Float { return fsqrt(bf(exact.Norm2(v))) }
	return eriksson(iv[0], iv[1], iv[2], exact.Cross(iv[1], iv[2]), n(iv[0]), n(iv[1]), n(iv[2]))
}

// fanArea returns S = Σ E(o, v_i, v_{i+1}) and Σ|E|. The oracle error is
// ≤ 3·eps·Σ|E| (1 ulp of Atan2 and two argument roundings, relative).
func (l *hpLoop) fanArea(o r3.Vector) (s, sumAbs float64) {
	all := append(append([]r3.Vector{}, l.v...), o)
	iv, _ := exact.IntVecs(all...)
	io := iv[l.n]
	nr := make([]*big.Float, l.n+1)
	for i := range iv {
		nr[i] = fsqrt(bf(exact.Norm2(iv[i])))
	}
	a, b := newAcc(), newAcc()
	for i := 0; i < l.n; i++ {
		j := (i + 1) % l.n
		e := eriksson(io, iv[i], iv[j], exact.Cross(iv[i], iv[j]), nr[l.n], nr[i], nr[j])
		a.add(e)
		b.add(math.Abs(e))
	}
	return a.float(), b.float()
}

func (l *hpLoop) edgeAngle(i int) (th float64, crossNorm *big.Float) {
	j := (i + 1) % l.n
	cn := fsqrt(bf(exact.Norm2(l.cr[i])))
	return atan2Big(cn, bf(exact.Dot(l.iv[i], l.iv[j]))), cn
}

// centroid returns ½ Σ θ_i n̂_i (the integral of position over the interior,
// = minus the integral over the exterior) and the perimeter Σ θ_i. The oracle
// error is ≤ eps·perimeter in each coordinate (θ_i has relative error < 2·eps).
func (l *hpLoop) centroid() (c r3.Vector, perimeter float64) {
	sum := [3]*big.Float{hp.F(0), hp.F(0), hp.F(0)}
	per := newAcc()
	for i := 0; i < l.n; i++ {
		th, cn := l.edgeAngle(i)
		if cn.Sign() == 0 {
			continue
		}
		per.add(th)
		f := new(big.Float).SetPrec(cn.Prec()).Quo(hp.F(th), cn)
		for k := 0; k < 3; k++ {
			sum[k] = fadd(sum[k], fmul(bf(l.cr[i][k]), f))
		}
	}
	x, _ := sum[0].Float64()
	y, _ := sum[1].Float64()
	z, _ := sum[2].Float64()
	return r3.Vector{X: x / 2, Y: y / 2, Z: z / 2}, per.float()
}

// maxEdge returns the longest edge (radians).
func (l *hpLoop) maxEdge() float64 {
	m := 0.0
	for i := 0; i < l.n; i++ {
		if th, _ := l.edgeAngle(i); th > m {
			m = th
		}
	}
	return m
}

// triCentroid is the integral of position over the triangle (a,b,c), signed
// by its orientation: ½ Σ over the three edges of θ·n̂.
func triCentroid(a, b, c r3.Vector) (r3.Vector, float64) {
	l := newHPLoop([]r3.Vector{a, b, c})
	return l.centroid()
}

// parallel reports whether a × b is exactly the zero vector.
func parallel(a, b r3.Vector) bool {
	return exact.IsZero(exact.Cross(exact.IntVec(a), exact.IntVec(b)))
}

// simpleExact reports whether the closed chain v is a valid loop in the
// library's sense, decided with exact predicates: at least 3 vertices, no
// duplicate vertices, no edge between antipodal points, and no two
// non-adjacent edges cross or touch (exact CrossingSign must be DoNotCross).
// O(n²); used for small hand-made degenerate loops only.
func simpleExact(v []r3.Vector) bool {
	n := len(v)
	if n < 3 {
		return false
	}
	for i := 0; i < n; i++ {
		for j := i + 1; j < n; j++ {
			// identical or same/opposite direction (lengths differing by an
			// ulp): a degenerate or antipodal pair, outside every documented domain
			if v[i] == v[j] || parallel(v[i], v[j]) {
				return false
			}
		}
	}
	for i := 0; i < n; i++ {
		for j := i + 2; j < n; j++ {
			if i == 0 && j == n-1 {
				continue
			}
			if exact.CrossingSign(v[i], v[(i+1)%n], v[j], v[(j+1)%n]) != exact.XDoNotCross {
				return false
			}
		}
	}
	return true
}
