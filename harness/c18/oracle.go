package c18

// Independent oracles for turning angle, area and centroid.
//
// Every product (cross products, determinants, dot products, norms) is formed
// from the float64 inputs in 320-bit arithmetic (internal/hp; relative error
// 2^-319 per operation, ignored) and, where a sign decides something, from
// exact integers (internal/exact, incl. the symbolic perturbation). The only
// float64 step is one math.Atan2 per item on the correctly rounded arguments;
// its error (≤ 1 ulp of the result plus the two argument roundings) is
// carried as an explicit oracle-error term by every caller.
//
//   turning angle at B (A→B→C):  atan2(|det(A,B,C)|·|B|, (A×B)·(B×C)), signed by the exact orientation
//   signed triangle area (Eriksson / Van Oosterom–Strackee):
//        E = 2·atan2(det(A,B,C), |A||B||C| + (A·B)|C| + (B·C)|A| + (C·A)|B|)
//   loop area: Σ E(O, v_i, v_{i+1}) over a fan about an apex O; no triangle with
//        sides < π contains −O, so the sum is Area if −O is outside and Area − 4π if −O is inside
//   centroid·area (= vector area): ½ ∮ x × dx = ½ Σ θ_i · (v_i × v_{i+1}) / |v_i × v_{i+1}|
//
// None of this shares a formula with the library (which uses l'Huilier /
// Girard for areas, Cramer's rule per fan triangle for centroids and
// RobustCrossProd+Angle for turning angles).

import (
	"math"
	"math/big"

	"github.com/golang/geo/r3"

	"verifharness/internal/exact"
	"verifharness/internal/hp"
)

const eps = 0x1p-52 // DBL_EPSILON, the unit of the library's documented bounds

// atan2Big evaluates atan2(y, x) for high-precision arguments: both are scaled
// by one power of two into the float64 range, rounded, and handed to math.Atan2.
func atan2Big(y, x *big.Float) float64 {
	if y.Sign() == 0 && x.Sign() == 0 {
		return 0
	}
	e := math.MinInt32
	if y.Sign() != 0 {
		e = y.MantExp(nil)
	}
	if x.Sign() != 0 {
		if ex := x.MantExp(nil); ex > e {
			e = ex
		}
	}
	ys := new(big.Float).SetMantExp(y, -e)
	xs := new(big.Float).SetMantExp(x, -e)
	fy, _ := ys.Float64()
	fx, _ := xs.Float64()
	return math.Atan2(fy, fx)
}

// acc is an exact accumulator of float64 terms.
type acc struct{ s *big.Float }

func newAcc() *acc             { return &acc{hp.F(0)} }
func (a *acc) add(x float64)   { a.s = hp.Add(a.s, hp.F(x)) }
func (a *acc) float() float64  { return hp.Float(a.s) }
func (a *acc) big() *big.Float { return a.s }

type hpLoop struct {
	n  int
	v  []r3.Vector
	h  []hp.V
	cr []hp.V       // cr[i] = v[i] × v[i+1]
	nr []*big.Float // |v[i]|
}

func newHPLoop(v []r3.Vector) *hpLoop {
	n := len(v)
	l := &hpLoop{n: n, v: v, h: make([]hp.V, n), cr: make([]hp.V, n), nr: make([]*big.Float, n)}
	for i := range v {
		l.h[i] = hp.Vec(v[i])
		l.nr[i] = l.h[i].Norm()
	}
	for i := range v {
		l.cr[i] = l.h[i].Cross(l.h[(i+1)%n])
	}
	return l
}

// turnAt is the signed exterior angle at vertex i and the exact orientation used.
func (l *hpLoop) turnAt(i int) float64 {
	n := l.n
	p, nx := (i+n-1)%n, (i+1)%n
	ab, bc := l.cr[p], l.cr[i]
	dot := ab.Dot(bc)
	det := l.h[p].Dot(bc) // a·(b×c)
	sin := hp.Mul(hp.Abs(det), l.nr[i])
	ang := atan2Big(sin, dot)
	if exact.Sign(l.v[p], l.v[i], l.v[nx]) > 0 {
		return ang
	}
	return -ang
}

// turning returns Σ turn angles (exact sum of the per-vertex float64 values)
// and the oracle's own error bound: per vertex ≤ 1 ulp(π) for Atan2 plus the
// two argument roundings (≤ 2^-53 rad each) < 4·eps.
func (l *hpLoop) turning() (t, oerr float64) {
	a := newAcc()
	for i := 0; i < l.n; i++ {
		a.add(l.turnAt(i))
	}
	return a.float(), 4 * eps * float64(l.n)
}

// triArea is the signed area of (a,b,c) by Eriksson's formula, in (−2π, 2π).
func triArea(a, b, c hp.V, na, nb, nc *big.Float) float64 {
	det := a.Dot(b.Cross(c))
	den := hp.Mul(hp.Mul(na, nb), nc)
	den = hp.Add(den, hp.Mul(a.Dot(b), nc))
	den = hp.Add(den, hp.Mul(b.Dot(c), na))
	den = hp.Add(den, hp.Mul(c.Dot(a), nb))
	return 2 * atan2Big(det, den)
}

// TriArea is the signed area of a triangle of float64 points.
func TriArea(a, b, c r3.Vector) float64 {
	ha, hb, hc := hp.Vec(a), hp.Vec(b), hp.Vec(c)
	return triArea(ha, hb, hc, ha.Norm(), hb.Norm(), hc.Norm())
}

// fanArea returns S = Σ E(o, v_i, v_{i+1}) and Σ|E|. The oracle error is
// ≤ 3·eps·Σ|E| (1 ulp of Atan2 and two argument roundings, relative).
func (l *hpLoop) fanArea(o r3.Vector) (s, sumAbs float64) {
	ho := hp.Vec(o)
	no := ho.Norm()
	a, b := newAcc(), newAcc()
	for i := 0; i < l.n; i++ {
		j := (i + 1) % l.n
		// det(o, v_i, v_j) = o·cr[i]
		det := ho.Dot(l.cr[i])
		den := hp.Mul(hp.Mul(no, l.nr[i]), l.nr[j])
		den = hp.Add(den, hp.Mul(ho.Dot(l.h[i]), l.nr[j]))
		den = hp.Add(den, hp.Mul(l.h[i].Dot(l.h[j]), no))
		den = hp.Add(den, hp.Mul(l.h[j].Dot(ho), l.nr[i]))
		e := 2 * atan2Big(det, den)
		a.add(e)
		b.add(math.Abs(e))
	}
	return a.float(), b.float()
}

// centroid returns ½ Σ θ_i n̂_i (the integral of position over the interior,
// = minus the integral over the exterior) and the perimeter Σ θ_i. The oracle
// error is ≤ eps·perimeter in each coordinate (θ_i has relative error < 2·eps).
func (l *hpLoop) centroid() (c r3.Vector, perimeter float64) {
	sum := hp.Vec(r3.Vector{})
	per := newAcc()
	for i := 0; i < l.n; i++ {
		j := (i + 1) % l.n
		cn := l.cr[i].Norm()
		if cn.Sign() == 0 {
			continue
		}
		th := atan2Big(cn, l.h[i].Dot(l.h[j]))
		per.add(th)
		sum = sum.Add(l.cr[i].Scale(hp.Quo(hp.F(th), cn)))
	}
	return sum.Scale(hp.F(0.5)).R3(), per.float()
}

// maxEdge returns the longest edge (radians).
func (l *hpLoop) maxEdge() float64 {
	m := 0.0
	for i := 0; i < l.n; i++ {
		j := (i + 1) % l.n
		if th := atan2Big(l.cr[i].Norm(), l.h[i].Dot(l.h[j])); th > m {
			m = th
		}
	}
	return m
}

// triCentroid is the integral of position over the triangle (a,b,c), signed
// by its orientation: ½ Σ over the three edges of θ·n̂.
func triCentroid(a, b, c r3.Vector) (r3.Vector, float64) {
	l := newHPLoop([]r3.Vector{a, b, c})
	return l.centroid()
}

// simpleExact reports whether the closed chain v is a valid loop in the
// library's sense, decided with exact predicates: at least 3 vertices, no
// duplicate vertices, no edge between antipodal points, and no two
// non-adjacent edges cross or touch (exact CrossingSign must be DoNotCross).
// O(n²); used for small hand-made degenerate loops only.
func simpleExact(v []r3.Vector) bool {
	n := len(v)
	if n < 3 {
		return false
	}
	for i := 0; i < n; i++ {
		for j := i + 1; j < n; j++ {
			if v[i] == v[j] {
				return false
			}
		}
		if v[i] == v[(i+1)%n].Mul(-1) {
			return false
		}
	}
	for i := 0; i < n; i++ {
		for j := i + 2; j < n; j++ {
			if i == 0 && j == n-1 {
				continue
			}
			if exact.CrossingSign(v[i], v[(i+1)%n], v[j], v[(j+1)%n]) != exact.XDoNotCross {
				return false
			}
		}
	}
	return true
}
