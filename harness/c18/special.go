package c18

import (
	"fmt"
	"math"

	"github.com/golang/geo/r3"
	"github.com/golang/geo/s2"
	"pgregory.net/rapid"

	"verifharness/internal/ev"
)

// special_measures: the empty and the full loop / polygon. Their measures are
// known exactly: area 0 / 4π (and the two sum to the sphere), turning angle
// +2π / −2π (exactly negated by inversion), centroid the zero vector, and a
// polygon made of them is the signed sum. Agreement "with which points the loop
// actually contains" is checked at the poles and at OriginPoint.

type specialM struct {
	Kind string
	// an ordinary loop about a drawn centre is added to polygon forms "plus"
	Twice bool // invert twice before measuring
}

var specialMKinds = []string{
	"emptyloop", "fullloop", "invert(emptyloop)", "invert(fullloop)",
	"emptypoly:noloops", "emptypoly:emptyloop", "fullpoly:FullPolygon", "fullpoly:fullloop",
	"invert(emptypoly)", "invert(fullpoly)",
}

func genSpecialM(t *rapid.T) specialM {
	return specialM{Kind: rapid.SampledFrom(specialMKinds).Draw(t, "kind"), Twice: rapid.Bool().Draw(t, "twice")}
}

func checkSpecialM(c specialM) ev.Outcome {
	o := ev.Outcome{Class: c.Kind, NonTrivial: true}
	probes := []s2.Point{s2.OriginPoint(), {Vector: r3.Vector{Z: 1}}, {Vector: r3.Vector{Z: -1}}, {Vector: r3.Vector{X: 1}}}
	var area, turn float64
	var cen s2.Point
	var contains func(s2.Point) bool
	full := false
	isLoop := false
	switch c.Kind {
	case "emptyloop", "fullloop", "invert(emptyloop)", "invert(fullloop)":
		isLoop = true
		var l *s2.Loop
		switch c.Kind {
		case "emptyloop":
			l = s2.EmptyLoop()
		case "fullloop":
			l, full = s2.FullLoop(), true
		case "invert(emptyloop)":
			l, full = s2.EmptyLoop(), true
			l.Invert()
		default:
			l = s2.FullLoop()
			l.Invert()
		}
		if c.Twice {
			l.Invert()
			l.Invert()
		}
		if l.IsFull() != full || l.IsEmpty() == full {
			o.Err = fmt.Sprintf("%s: IsFull=%v IsEmpty=%v", c.Kind, l.IsFull(), l.IsEmpty())
			return o
		}
		area, turn, cen, contains = l.Area(), l.TurningAngle(), l.Centroid(), l.ContainsPoint
		if l.IsNormalized() == full {
			o.Err = fmt.Sprintf("%s: IsNormalized=%v", c.Kind, l.IsNormalized())
			return o
		}
	default:
		var p *s2.Polygon
		switch c.Kind {
		case "emptypoly:noloops":
			p = s2.PolygonFromLoops(nil)
		case "emptypoly:emptyloop":
			p = s2.PolygonFromLoops([]*s2.Loop{s2.EmptyLoop()})
		case "fullpoly:FullPolygon":
			p, full = s2.FullPolygon(), true
		case "fullpoly:fullloop":
			p, full = s2.PolygonFromLoops([]*s2.Loop{s2.FullLoop()}), true
		case "invert(emptypoly)":
			p, full = s2.PolygonFromLoops(nil), true
			p.Invert()
		default:
			p = s2.FullPolygon()
			p.Invert()
		}
		if c.Twice {
			p.Invert()
			p.Invert()
		}
		if p.IsFull() != full || p.IsEmpty() == full {
			o.Err = fmt.Sprintf("%s: IsFull=%v IsEmpty=%v", c.Kind, p.IsFull(), p.IsEmpty())
			return o
		}
		area, cen, contains = p.Area(), p.Centroid(), p.ContainsPoint
	}
	wantArea, wantTurn := 0.0, 2*math.Pi
	if full {
		wantArea, wantTurn = 4*math.Pi, -2*math.Pi
	}
	if area != wantArea {
		o.Err = fmt.Sprintf("%s: Area = %.17g, want exactly %.17g", c.Kind, area, wantArea)
		return o
	}
	if isLoop && turn != wantTurn {
		o.Err = fmt.Sprintf("%s: TurningAngle = %.17g, want exactly %.17g", c.Kind, turn, wantTurn)
		return o
	}
	if cen.Vector != (r3.Vector{}) {
		o.Err = fmt.Sprintf("%s: Centroid = %v, want the zero vector", c.Kind, cen.Vector)
		return o
	}
	for _, q := range probes {
		if contains(q) != full {
			o.Err = fmt.Sprintf("%s: ContainsPoint(%v) = %v but the area is %v", c.Kind, q.Vector, contains(q), area)
			return o
		}
	}
	return o
}

func init() {
	ev.Define("special_measures", ev.Options{
		Rule:  "the empty and full loop / polygon in each construction (constants, polygon of the loop, Invert of the opposite, optionally inverted twice more): Area exactly 0 / 4π, TurningAngle exactly ±2π (negated by Invert), zero Centroid, IsNormalized, IsEmpty/IsFull, ContainsPoint at 4 probes in agreement with the area. A finite enumeration (20 cases) drawn repeatedly.",
		Quick: 400, Thorough: 2000}, genSpecialM, checkSpecialM)
}
