// Package c18: area, curvature (turning angle) and centroid are consistent with
// containment and orientation.
package c18

import (
	"fmt"
	"math"
	"math/big"

	"github.com/golang/geo/r3"
	"github.com/golang/geo/s2"
	"pgregory.net/rapid"

	"verifharness/internal/ev"
	"verifharness/internal/exact"
	"verifharness/internal/gen"
	"verifharness/internal/hp"
)

// ---------------------------------------------------------------- bounds
//
// Written down before running (DESIGN §2.5):
//
//	turning angle            11.25·ε·n           Loop.turningAngleMaxError doc
//	loop area                11.25·ε·n + 8ε      the error estimate Area() itself uses, + 2 ulp(4π) for results near 4π
//	Area(L)+Area(L')         2·(11.25·ε·n) + 4π·1e-15       design (a)
//	PointArea / GirardArea   1e-14               "maximum error is about 5e-15", factor 2
//	TurnAngle / Angle        9.25·ε              3+3+3.25 ε from the turningAngleMaxError breakdown
//	centroid (no doc bound)  a priori, see centroidTol
//
// Every comparison adds the oracle's own error term (oracle.go).

func turnBound(n int) float64 { return 11.25 * eps * float64(n) }
func areaBound(n int) float64 { return 11.25*eps*float64(n) + 8*eps }

const triAreaBound = 1e-14

type loopCase struct {
	L   gen.LoopCase
	Rot []int
}

func genLoopCase(t *rapid.T) loopCase {
	maxN := 2000
	if ev.Thorough() {
		maxN = 10000
	}
	if rapid.IntRange(0, 9).Draw(t, "bigcap") != 0 {
		maxN = 300
	}
	l := drawLoop(t, "l", maxN)
	k := 6
	if len(l.V) <= 64 {
		k = 16
	}
	return loopCase{L: l, Rot: rotations(t, "r", len(l.V), k)}
}

func sizeClass(n int) string {
	switch {
	case n <= 8:
		return "n<=8"
	case n <= 32:
		return "n<=32"
	case n <= 300:
		return "n<=300"
	}
	return "n>300"
}

type loopFacts struct {
	pts     []s2.Point
	n       int
	hl      *hpLoop
	tOr     float64 // oracle turning angle
	tErr    float64
	aOr     float64 // oracle area in [0,4π]
	aErr    float64
	maxEdge float64
}

// facts computes the oracle values of a loop case. The fan apex is the
// construction's Inside point O: O is inside and −O outside the non-inverted loop.
func facts(l gen.LoopCase) loopFacts {
	f := loopFacts{pts: gen.Pts(l.V), n: len(l.V)}
	f.hl = newHPLoop(vecs(l.V))
	f.tOr, f.tErr = f.hl.turning()
	f.maxEdge = f.hl.maxEdge()
	if !hasWitness(l) {
		// Gauss–Bonnet on the turning-angle oracle (absolute accuracy only)
		f.aOr, f.aErr = 2*math.Pi-f.tOr, f.tErr
		return f
	}
	s, sumAbs := f.hl.fanArea(l.Inside.Pt().Vector)
	f.aErr = 3*eps*sumAbs + 8*eps
	f.aOr = s
	if l.Inverted {
		f.aOr = s + 4*math.Pi
	}
	return f
}

// hasWitness: every family except "octa" fixes a point O strictly inside
// (and −O strictly outside) the non-inverted loop.
func hasWitness(l gen.LoopCase) bool { return l.Kind != "octa" }

func (f loopFacts) nonTrivial() bool {
	return f.aOr < 1e-10 || f.aOr > 4*math.Pi-1e-10 || math.Abs(f.tOr) < 100*turnBound(f.n) || f.maxEdge > 179*deg
}

func (f loopFacts) tags() string {
	s := ""
	if f.aOr < 1e-10 || f.aOr > 4*math.Pi-1e-10 {
		s += "/tiny"
	}
	if math.Abs(f.tOr) < 100*turnBound(f.n) {
		s += "/hemi"
	}
	if f.maxEdge > 179*deg {
		s += "/edge>179"
	}
	return s
}

// selfCheck: the two oracles must satisfy Gauss–Bonnet between themselves.
func (f loopFacts) selfCheck() string {
	if d := math.Abs(f.tOr - (2*math.Pi - f.aOr)); d > f.tErr+f.aErr+1e-13 {
		return fmt.Sprintf("harness: oracle turning angle %v and oracle area %v violate Gauss–Bonnet by %g", f.tOr, f.aOr, d)
	}
	return ""
}

func clampTurn(t float64) float64 {
	const m = 2*math.Pi - 4*eps
	return math.Max(-m, math.Min(m, t))
}

// ---------------------------------------------------------------- turning angle

func checkTurning(c loopCase) ev.Outcome {
	o := ev.Outcome{}
	l := c.L.Loop()
	if l.Validate() != nil {
		o.Skip = true
		return o
	}
	f := facts(c.L)
	if msg := f.selfCheck(); msg != "" {
		o.Err, o.Finding = msg, "harness"
		return o
	}
	n := f.n
	o.Class = c.L.Kind + "/" + sizeClass(n) + f.tags()
	o.NonTrivial = f.nonTrivial()
	got := l.TurningAngle()
	bound := turnBound(n) + f.tErr
	d := math.Abs(got - clampTurn(f.tOr))
	o.Ratios = map[string]float64{"turning_err/(documented+oracle)": d / bound}
	if d > bound {
		o.Err = fmt.Sprintf("TurningAngle=%v, oracle %v: error %g > %g (n=%d)", got, f.tOr, d, bound, n)
		o.Finding = "turning-angle-error"
		return o
	}
	// orientation: positive iff area < 2π, outside the error band
	if math.Abs(f.tOr) > 2*bound && (got > 0) != (f.tOr > 0) {
		o.Err = fmt.Sprintf("TurningAngle=%v has the wrong sign (oracle %v)", got, f.tOr)
		return o
	}
	// rotation: bit-identical
	for _, r := range c.Rot {
		lr := s2.LoopFromPoints(rotated(f.pts, r))
		if g := lr.TurningAngle(); g != got {
			o.Err = fmt.Sprintf("TurningAngle changes under rotation by %d: %v vs %v (diff %g)", r, g, got, g-got)
			o.Finding = "turning-rotation"
			return o
		}
	}
	// reversal: exactly negated (fresh loop, rotated fresh loop, Invert in place)
	rp := reversedPts(f.pts)
	if g := s2.LoopFromPoints(rp).TurningAngle(); g != -got {
		o.Err = fmt.Sprintf("TurningAngle of the reversed loop is %v, want exactly %v (diff %g)", g, -got, g+got)
		o.Finding = "turning-reversal"
		return o
	}
	if len(c.Rot) > 0 {
		if g := s2.LoopFromPoints(rotated(rp, c.Rot[len(c.Rot)-1])).TurningAngle(); g != -got {
			o.Err = fmt.Sprintf("TurningAngle of the reversed+rotated loop is %v, want exactly %v", g, -got)
			o.Finding = "turning-reversal"
			return o
		}
	}
	inv := c.L.Loop()
	inv.Invert()
	if g := inv.TurningAngle(); g != -got {
		o.Err = fmt.Sprintf("TurningAngle after Invert() is %v, want exactly %v", g, -got)
		o.Finding = "turning-reversal"
		return o
	}
	// IsNormalized ⇔ area ≤ 2π outside the documented ambiguity band:
	// IsNormalized is TurningAngle ≥ −maxError, TurningAngle is within maxError of the truth.
	norm := l.IsNormalized()
	if f.tOr >= f.tErr && !norm {
		o.Err = fmt.Sprintf("IsNormalized=false but the turning angle is %v ≥ 0 (area %v)", f.tOr, f.aOr)
		o.Finding = "is-normalized"
		return o
	}
	if f.tOr < -(2*turnBound(n)+f.tErr) && norm {
		o.Err = fmt.Sprintf("IsNormalized=true but the turning angle is %v (area %v > 2π)", f.tOr, f.aOr)
		o.Finding = "is-normalized"
		return o
	}
	return o
}

// ---------------------------------------------------------------- area

func checkArea(c loopCase) ev.Outcome {
	o := ev.Outcome{}
	l := c.L.Loop()
	if l.Validate() != nil {
		o.Skip = true
		return o
	}
	f := facts(c.L)
	if msg := f.selfCheck(); msg != "" {
		o.Err, o.Finding = msg, "harness"
		return o
	}
	n := f.n
	_, sw := fanTriangles(f.pts)
	o.Class = c.L.Kind + "/" + sizeClass(n) + f.tags() + sw
	if c.L.Inverted {
		o.Class += "/inv"
	}
	o.NonTrivial = f.nonTrivial() || sw != ""
	longEdge := f.maxEdge > 170*deg
	got := l.Area()
	o.Ratios = map[string]float64{}
	if !(got >= 0 && got <= 4*math.Pi) {
		o.Err = fmt.Sprintf("Area=%v outside [0,4π]", got)
		return o
	}
	bound := areaBound(n) + f.aErr
	d := math.Abs(got - f.aOr)
	key := "area_err/(documented+oracle)"
	if longEdge {
		key += " [edge>170°]"
	}
	o.Ratios[key] = d / bound
	if d > bound {
		o.Err = fmt.Sprintf("Area=%v, oracle %v: error %g > %g (n=%d, kind %s)", got, f.aOr, d, bound, n, c.L.Kind)
		o.Finding = "area-error"
		return o
	}
	// whichever edges: the coarse agreement with containment
	if math.Abs(f.aOr-2*math.Pi) > 1e-6 && (got > 2*math.Pi) != (f.aOr > 2*math.Pi) {
		o.Err = fmt.Sprintf("Area=%v is on the wrong side of 2π (oracle %v)", got, f.aOr)
		o.Finding = "area-side"
		return o
	}
	// containment witnesses (the octahedron family has none)
	in := c.L.Inside.Pt()
	if g := l.ContainsPoint(in); hasWitness(c.L) && g != !c.L.Inverted {
		o.Err = fmt.Sprintf("ContainsPoint(known inside point)=%v, inverted=%v", g, c.L.Inverted)
		o.Finding = "contains"
		return o
	}
	if g := l.ContainsPoint(s2.Point{Vector: in.Mul(-1)}); hasWitness(c.L) && g != c.L.Inverted {
		o.Err = fmt.Sprintf("ContainsPoint(known outside point)=%v, inverted=%v", g, c.L.Inverted)
		o.Finding = "contains"
		return o
	}
	// small regular loops: relative accuracy (l'Huilier: relative error about
	// 1e-16·s/dmin per triangle, s/dmin ≤ 4n²/π² in a regular fan; factor 10)
	if c.L.Kind == "regular" && n <= 200 {
		small := math.Min(f.aOr, 4*math.Pi-f.aOr)
		gs := math.Min(got, 4*math.Pi-got)
		if small > 0 && small < 1e-3 {
			rel := math.Abs(gs-small) / small
			rb := 1e-14 + 4e-16*float64(n*n)
			o.Ratios["regular_small_area_relerr/(1e-14+4e-16 n^2)"] = rel / rb
			if !c.L.Inverted && rel > rb {
				o.Err = fmt.Sprintf("Area=%v of a small regular loop, oracle %v: relative error %g > %g (n=%d)", got, f.aOr, rel, rb, n)
				o.Finding = "area-relative"
				return o
			}
		}
	}
	// complement
	rp := reversedPts(f.pts)
	lrev := s2.LoopFromPoints(rp)
	arev := lrev.Area()
	cb := 2*turnBound(n) + 4*math.Pi*1e-15
	dc := math.Abs(got + arev - 4*math.Pi)
	ckey := "complement_err/bound"
	if longEdge {
		ckey += " [edge>170°]"
	}
	o.Ratios[ckey] = dc / cb
	if dc > cb {
		o.Err = fmt.Sprintf("Area=%v, Area(reversed)=%v: sum misses 4π by %g > %g (n=%d)", got, arev, dc, cb, n)
		o.Finding = "area-complement"
		return o
	}
	inv := c.L.Loop()
	inv.Invert()
	if g := inv.Area(); g != arev {
		o.Err = fmt.Sprintf("Area after Invert()=%v differs from the area of a fresh reversed loop %v", g, arev)
		o.Finding = "area-invert"
		return o
	}
	// starting vertex
	rb := 2*areaBound(n) + 2*f.aErr
	for _, r := range c.Rot {
		g := s2.LoopFromPoints(rotated(f.pts, r)).Area()
		dr := math.Abs(g - got)
		rkey := "rotation_err/bound"
		if longEdge {
			rkey += " [edge>170°]"
		}
		if v := dr / rb; v > o.Ratios[rkey] {
			o.Ratios[rkey] = v
		}
		if dr > rb {
			o.Err = fmt.Sprintf("Area changes from %v to %v when the vertex order is rotated by %d: %g > %g", got, g, r, dr, rb)
			o.Finding = "area-rotation"
			return o
		}
		if math.Abs(f.aOr-2*math.Pi) > 1e-6 && (g > 2*math.Pi) != (got > 2*math.Pi) {
			o.Err = fmt.Sprintf("Area jumps across 2π under rotation by %d: %v vs %v", r, g, got)
			o.Finding = "area-side"
			return o
		}
	}
	// Gauss–Bonnet between the library's two algorithms
	gb := math.Abs(got - (2*math.Pi - l.TurningAngle()))
	gbb := areaBound(n) + turnBound(n) + 2*f.aErr
	gkey := "gauss_bonnet_err/bound"
	if longEdge {
		gkey += " [edge>170°]"
	}
	o.Ratios[gkey] = gb / gbb
	if gb > gbb {
		o.Err = fmt.Sprintf("Area=%v and TurningAngle=%v violate Gauss–Bonnet by %g > %g", got, l.TurningAngle(), gb, gbb)
		o.Finding = "gauss-bonnet"
		return o
	}
	return o
}

// ---------------------------------------------------------------- centroid

// Centroid tolerance. No documented bound exists, so it is a priori: the
// library sums TrueCentroid over a fan of triangles; for one triangle the
// result has size ≈ its area and is computed from the factors θ/sin θ of its
// three sides, whose rounding error grows like ε·κ² with κ = max θ/sin θ, and
// from 2×2 minors of vertex differences of size ≤ perimeter.
// Tolerance per fan triangle: 20·ε·(|area| + 0.01)·κ² + 4·ε·perimeter·κ; plus
// the oracle's 2·ε·perimeter of the loop. The fan is the one Loop.surfaceIntegral documents (vertex 0
// as apex, substitute apexes when a chord would exceed π−1e-5); its control
// flow is mirrored here only to size the tolerance and label cases — the
// expected value never depends on it.
func fanTriangles(p []s2.Point) (tris [][3]s2.Point, label string) {
	const maxLength = math.Pi - 1e-5
	origin := p[0]
	n := len(p)
	var s1, s2_, s3 bool
	for i := 1; i+1 < n; i++ {
		if float64(p[i+1].Angle(origin.Vector)) > maxLength {
			old := origin
			if origin == p[0] {
				origin = s2.Point{Vector: p[0].PointCross(p[i]).Normalize()}
				s1 = true
			} else if float64(p[i].Angle(p[0].Vector)) < maxLength {
				origin = p[0]
				s2_ = true
			} else {
				origin = s2.Point{Vector: p[0].Cross(old.Vector)}
				tris = append(tris, [3]s2.Point{p[0], old, origin})
				s3 = true
			}
			tris = append(tris, [3]s2.Point{old, p[i], origin})
		}
		tris = append(tris, [3]s2.Point{origin, p[i], p[i+1]})
	}
	if origin != p[0] {
		tris = append(tris, [3]s2.Point{origin, p[n-1], p[0]})
	}
	if s1 {
		label += "/sw1"
	}
	if s2_ {
		label += "/sw2"
	}
	if s3 {
		label += "/sw3"
	}
	return tris, label
}

func thetaOverSin(a, b s2.Point) float64 {
	th := float64(a.Distance(b))
	if s := math.Sin(th); s > 0 && th > 1e-8 {
		return th / s
	}
	if th <= 1e-8 {
		return 1
	}
	return math.Inf(1)
}

func triCentroidTol(t [3]s2.Point) (tol, kappa float64) {
	kappa = math.Max(thetaOverSin(t[0], t[1]), math.Max(thetaOverSin(t[1], t[2]), thetaOverSin(t[2], t[0])))
	per := float64(t[0].Distance(t[1]) + t[1].Distance(t[2]) + t[2].Distance(t[0]))
	return 20*eps*(math.Abs(TriAreaFloat(t[0], t[1], t[2]))+1e-2)*kappa*kappa + 4*eps*per*kappa, kappa
}

// fanCentroidTol returns the tolerance for Loop.Centroid of the vertex list p
// (without the oracle term) and the worst κ in its fan.
func fanCentroidTol(p []s2.Point) (tol, kappa float64, label string) {
	tris, label := fanTriangles(p)
	kappa = 1
	for _, t := range tris {
		tt, k := triCentroidTol(t)
		tol += tt
		kappa = math.Max(kappa, k)
	}
	return tol, kappa, label
}

func checkCentroid(c loopCase) ev.Outcome {
	o := ev.Outcome{}
	l := c.L.Loop()
	if l.Validate() != nil {
		o.Skip = true
		return o
	}
	f := facts(c.L)
	n := f.n
	tol, kappa, sw := fanCentroidTol(f.pts)
	if math.IsInf(tol, 0) || math.IsNaN(tol) {
		o.Skip = true
		return o
	}
	o.Class = c.L.Kind + "/" + sizeClass(n) + f.tags() + sw
	o.NonTrivial = f.nonTrivial() || sw != ""
	want, per := f.hl.centroid()
	tol += 2*eps*per + 1e-300
	got := l.Centroid().Vector
	kc := " [κ<10]"
	switch {
	case kappa >= 1000:
		kc = " [κ≥1000]"
	case kappa >= 10:
		kc = " [κ≥10]"
	}
	d := got.Sub(want).Norm()
	o.Ratios = map[string]float64{"centroid_err/tol" + kc: d / tol}
	if d > tol {
		o.Err = fmt.Sprintf("Centroid=%v, oracle %v: error %g > %g (n=%d, kind %s, κ=%g)", got, want, d, tol, n, c.L.Kind, kappa)
		o.Finding = "centroid-error"
		return o
	}
	// |∫x dA| ≤ min(area, 4π − area)
	small := math.Min(f.aOr, 4*math.Pi-f.aOr)
	if got.Norm() > small+tol+f.aErr {
		o.Err = fmt.Sprintf("|Centroid|=%g exceeds min(area, 4π−area)=%g", got.Norm(), small)
		o.Finding = "centroid-norm"
		return o
	}
	// the reversed loop integrates over the complement: the exact negative in exact arithmetic
	rp := reversedPts(f.pts)
	rtol, _, _ := fanCentroidTol(rp)
	rev := s2.LoopFromPoints(rp).Centroid().Vector
	if dr := rev.Add(got).Norm(); dr > tol+rtol+2*eps*per {
		o.Err = fmt.Sprintf("Centroid(reversed)=%v is not the negative of Centroid=%v: %g > %g", rev, got, dr, tol+rtol+2*eps*per)
		o.Finding = "centroid-reversal"
		return o
	}
	for _, r := range c.Rot[:minInt(4, len(c.Rot))] {
		pr := rotated(f.pts, r)
		t2, _, _ := fanCentroidTol(pr)
		if math.IsInf(t2, 0) || math.IsNaN(t2) {
			continue
		}
		g := s2.LoopFromPoints(pr).Centroid().Vector
		if dr := g.Sub(want).Norm(); dr > t2+2*eps*per {
			o.Err = fmt.Sprintf("Centroid=%v after rotating the vertex order by %d, oracle %v: %g > %g", g, r, want, dr, t2+2*eps*per)
			o.Finding = "centroid-rotation"
			return o
		}
	}
	return o
}

// TriAreaFloat is a plain float64 Eriksson area (conditioning estimates only).
func TriAreaFloat(a, b, c s2.Point) float64 {
	det := a.Dot(b.Cross(c.Vector))
	den := 1 + a.Dot(b.Vector) + b.Dot(c.Vector) + c.Dot(a.Vector)
	return 2 * math.Atan2(det, den)
}

// ---------------------------------------------------------------- triangles

// Two finding classes share one root cause: Point.PointCross is the legacy
// (a+b)×(b−a) formula without the error test and exact fallback of
// RobustCrossProd, and Vector.Angle squares its result.
//
//	pointcross-cancellation  for some edge (a,b) of the loop/triangle — a ≠ b,
//	                     not exactly parallel — the float64 value of (a+b)×(b−a)
//	                     is the zero vector (PointCross then returns an arbitrary
//	                     Ortho(a)) or points more than 3ε (the error the turning-angle analysis assumes for RobustCrossProd) away from the
//	                     exact a×b. Happens only for edges shorter than ~1e-15 rad
//	                     (ulp neighbours, same direction up to a length difference).
//	tiny-edge-underflow  PointCross is accurate on every edge, but some vertex
//	                     has incident edges whose lengths (sines) multiply to
//	                     < 1e-150: the squared norm inside Vector.Angle underflows
//	                     and TurnAngle collapses to 0 or π.
//
// Both lie below the 1e-14 sr the property quantifies over but inside "zero-area
// and nearly degenerate loops"; failures in them are labelled, not hidden.
// (tiny-edge-underflow was repaired in /repo by 4602f1b + f154637, which rescale
// PointCross's factors and result by powers of two; the label is kept so that a
// regression is attributed correctly.)
func shortEdgeClass(v []r3.Vector) string {
	n := len(v)
	iv, e := exact.IntVecs(v...)
	sep := make([]float64, n)
	bad := false
	for i := range v {
		a, b := v[i], v[(i+1)%n]
		cr := exact.Cross(iv[i], iv[(i+1)%n])
		cn := fsqrt(bf(exact.Norm2(cr)))
		sn := new(big.Float).SetMantExp(cn, 2*e)
		sep[i], _ = sn.Float64()
		if cn.Sign() == 0 {
			continue // exactly parallel: outside every domain, skipped by the checks
		}
		xf := a.Add(b).Cross(b.Sub(a))
		if xf == (r3.Vector{}) {
			bad = true
			continue
		}
		// sin of the angle between xf and the exact cross product
		hx := hp.Vec(xf)
		he := hp.V{bf(cr[0]), bf(cr[1]), bf(cr[2])}
		num := hx.Cross(he).Norm()
		den := hp.Mul(hx.Norm(), cn)
		if r, _ := hp.Quo(num, den).Float64(); r > 3*eps || hx.Dot(he).Sign() < 0 {
			bad = true
		}
	}
	if bad {
		return "pointcross-cancellation"
	}
	for i := range sep {
		if sep[(i+n-1)%n]*sep[i] < 1e-150 {
			return "tiny-edge-underflow"
		}
	}
	return ""
}

func classifyShortEdges(o *ev.Outcome, v []r3.Vector) {
	if o.Skip {
		return
	}
	cl := shortEdgeClass(v)
	if cl == "" {
		return
	}
	o.Class += "/" + cl
	if o.Err != "" {
		o.Finding = cl
	}
	o.Ratios = nil // reported as findings, kept out of the worst-ratio table
}

func angleBetween(a, b s2.Point) float64 { return float64(a.Distance(b)) }

func checkTriangle(c triCase) (o ev.Outcome) {
	a, b, cc := c.A.Pt(), c.B.Pt(), c.C.Pt()
	defer func() {
		classifyShortEdges(&o, []r3.Vector{a.Vector, b.Vector, cc.Vector})
	}()
	if !gen.Unit(a) || !gen.Unit(b) || !gen.Unit(cc) || a == b || b == cc || a == cc ||
		parallel(a.Vector, b.Vector) || parallel(b.Vector, cc.Vector) || parallel(a.Vector, cc.Vector) {
		// identical, same direction with lengths an ulp apart, or exactly antipodal: undefined by the docs
		o.Skip = true
		return o
	}
	maxE := math.Max(angleBetween(a, b), math.Max(angleBetween(b, cc), angleBetween(a, cc)))
	if maxE > math.Pi-1e-9 {
		// "no two points should be antipodal"
		o.Skip = true
		return o
	}
	eclass := "edge<=170"
	switch {
	case maxE > 179.9*deg:
		eclass = "edge>179.9"
	case maxE > 179*deg:
		eclass = "edge>179"
	case maxE > 170*deg:
		eclass = "edge>170"
	}
	sgn := exact.Sign(a.Vector, b.Vector, cc.Vector)
	detZero := exact.DetSign(a.Vector, b.Vector, cc.Vector) == 0
	E := TriArea(a.Vector, b.Vector, cc.Vector) // signed by the determinant
	absE := math.Abs(E)
	o.Class = c.Kind + "/" + eclass
	if detZero {
		o.Class += "/det0"
	}
	o.NonTrivial = detZero || absE < 1e-10 || maxE > 179*deg || math.Abs(absE-2*math.Pi) < 1e-6
	tight := true // asserted for every edge length up to π−1e-9; ratios are still reported per edge class
	o.Ratios = map[string]float64{}

	pa := s2.PointArea(a, b, cc)
	ga := s2.GirardArea(a, b, cc)
	sa := s2.SignedArea(a, b, cc)
	if !(pa >= 0) || !(ga >= 0) {
		o.Err = fmt.Sprintf("negative or NaN area: PointArea=%v GirardArea=%v", pa, ga)
		return o
	}
	if want := float64(sgn) * pa; sa != want {
		o.Err = fmt.Sprintf("SignedArea=%v, want exact orientation %d times PointArea=%v", sa, sgn, pa)
		o.Finding = "signed-area-sign"
		return o
	}
	oerr := 3*eps*absE + 1e-300
	dp := math.Abs(pa - absE)
	o.Ratios["PointArea_err/1e-14 ["+eclass+"]"] = dp / (triAreaBound + oerr)
	if tight && dp > triAreaBound+oerr {
		o.Err = fmt.Sprintf("PointArea=%v, oracle %v: error %g", pa, absE, dp)
		o.Finding = "point-area-error"
		return o
	}
	dg := math.Abs(ga - absE)
	o.Ratios["GirardArea_err/1e-14 ["+eclass+"]"] = dg / (triAreaBound + oerr)
	if tight && dg > triAreaBound+oerr {
		o.Err = fmt.Sprintf("GirardArea=%v, oracle %v: error %g", ga, absE, dg)
		o.Finding = "girard-area-error"
		return o
	}
	// small fat triangles: relative accuracy of PointArea (doc: error about
	// 1e-16·s/dmin relative)
	sab, sbc, sca := angleBetween(a, b), angleBetween(b, cc), angleBetween(cc, a)
	s := 0.5 * (sab + sbc + sca)
	dmin := s - math.Max(sab, math.Max(sbc, sca))
	if c.Kind == "small" && dmin > 0.05*s && absE > 0 {
		rel := dp / absE
		o.Ratios["PointArea_small_fat_relerr/1e-13"] = rel / 1e-13
		if rel > 1e-13 {
			o.Err = fmt.Sprintf("PointArea=%v of a small fat triangle, oracle %v: relative error %g", pa, absE, rel)
			o.Finding = "point-area-relative"
			return o
		}
	}

	// TurnAngle / Angle at b
	hl := newHPLoop([]r3.Vector{a.Vector, b.Vector, cc.Vector})
	wantTurn := hl.turnAt(1)
	ta := float64(s2.TurnAngle(a, b, cc))
	tb := float64(s2.TurnAngle(cc, b, a))
	if ta != -tb {
		o.Err = fmt.Sprintf("TurnAngle(a,b,c)=%v is not exactly −TurnAngle(c,b,a)=%v", ta, tb)
		o.Finding = "turnangle-antisymmetry"
		return o
	}
	tBound := 9.25*eps + 4*eps
	dt := math.Abs(ta - wantTurn)
	o.Ratios["TurnAngle_err/(9.25ε+oracle)"] = dt / tBound
	if dt > tBound {
		o.Err = fmt.Sprintf("TurnAngle=%v, oracle %v: error %g > %g", ta, wantTurn, dt, tBound)
		o.Finding = "turnangle-error"
		return o
	}
	an := float64(s2.Angle(a, b, cc))
	if an2 := float64(s2.Angle(cc, b, a)); an != an2 {
		o.Err = fmt.Sprintf("Angle(a,b,c)=%v differs from Angle(c,b,a)=%v", an, an2)
		o.Finding = "angle-symmetry"
		return o
	}
	if d := math.Abs(an - (math.Pi - math.Abs(wantTurn))); d > tBound {
		o.Err = fmt.Sprintf("Angle=%v, oracle %v: error %g", an, math.Pi-math.Abs(wantTurn), d)
		o.Finding = "angle-error"
		return o
	}

	// TrueCentroid
	wantC, per := triCentroid(a.Vector, b.Vector, cc.Vector)
	tc := s2.TrueCentroid(a, b, cc).Vector
	kappa := 1.0
	for _, th := range []float64{sab, sbc, sca} {
		kappa = math.Max(kappa, th/math.Sin(th))
	}
	ctol := 20*eps*(absE+1e-2)*kappa*kappa + 4*eps*per*kappa + 2*eps*per
	dcn := tc.Sub(wantC).Norm()
	o.Ratios["TrueCentroid_err/tol ["+eclass+"]"] = dcn / ctol
	if tight && dcn > ctol {
		o.Err = fmt.Sprintf("TrueCentroid=%v, oracle %v: error %g > %g", tc, wantC, dcn, ctol)
		o.Finding = "true-centroid-error"
		return o
	}

	// the triangle as a loop
	l := s2.LoopFromPoints([]s2.Point{a, b, cc})
	wantA := absE
	if sgn < 0 {
		wantA = 4*math.Pi - absE
	}
	la := l.Area()
	dl := math.Abs(la - wantA)
	ab := areaBound(3) + oerr
	o.Ratios["loop_area_err/bound ["+eclass+"]"] = dl / ab
	if tight && dl > ab {
		o.Err = fmt.Sprintf("Loop(a,b,c).Area=%v, want %v (exact orientation %d, triangle area %v): error %g", la, wantA, sgn, absE, dl)
		o.Finding = "triangle-loop-area"
		return o
	}
	if math.Abs(wantA-2*math.Pi) > 1e-6 && (la > 2*math.Pi) != (wantA > 2*math.Pi) {
		o.Err = fmt.Sprintf("Loop(a,b,c).Area=%v on the wrong side of 2π (exact orientation %d, triangle area %v)", la, sgn, absE)
		o.Finding = "triangle-loop-side"
		return o
	}
	return o
}

// ---------------------------------------------------------------- slivers

// triContains is the exact truth for a triangle loop: the interior of a
// counter-clockwise triangle is the intersection of the three left half-spheres;
// a clockwise one contains the complement of the reversed triangle.
func triContains(a, b, c, p r3.Vector) bool {
	s := exact.Sign(a, b, c)
	if s > 0 {
		return exact.Sign(a, b, p) > 0 && exact.Sign(b, c, p) > 0 && exact.Sign(c, a, p) > 0
	}
	return !(exact.Sign(c, b, p) > 0 && exact.Sign(b, a, p) > 0 && exact.Sign(a, c, p) > 0)
}

func checkSliver(c sliverCase) (o ev.Outcome) {
	v := vecs(c.V)
	defer func() {
		classifyShortEdges(&o, v)
	}()
	n := len(v)
	for _, p := range c.V {
		if !gen.Unit(p.Pt()) {
			o.Skip = true
			return o
		}
	}
	if !simpleExact(v) {
		o.Skip = true
		return o
	}
	hl := newHPLoop(v)
	for i := 0; i < n; i++ {
		for j := i + 1; j < n; j++ {
			// slivers live inside a cap: all chords (edges and fan diagonals) stay below 170°
			if v[i].Angle(v[j]).Radians() > 170*deg {
				o.Skip = true
				return o
			}
		}
	}
	tOr, tErr := hl.turning()
	// fan about the first vertex: O = v[0] is on the boundary; use the oracle
	// only through Gauss–Bonnet here: Area = 2π − T.
	wantA := 2*math.Pi - tOr
	ccw := tOr > 0
	// relative-accuracy value for thin loops from the fan oracle about v[0]
	// (every fan triangle has sides < π; v[0] and −v[0]: −v[0] is outside a thin CCW loop)
	s, sumAbs := hl.fanArea(v[0])
	thin := sumAbs < 1e-6
	o.Class = fmt.Sprintf("%s/n=%d", c.Kind, n)
	if thin {
		o.Class += "/thin"
	}
	if !ccw {
		o.Class += "/cw"
	}
	o.NonTrivial = thin
	pts := gen.Pts(c.V)
	l := s2.LoopFromPoints(pts)
	if l.Validate() != nil {
		o.Skip = true
		return o
	}
	got := l.Area()
	ta := l.TurningAngle()
	o.Ratios = map[string]float64{}
	tb := turnBound(n) + tErr
	o.Ratios["turning_err/(documented+oracle)"] = math.Abs(ta-clampTurn(tOr)) / tb
	if math.Abs(ta-clampTurn(tOr)) > tb {
		o.Err = fmt.Sprintf("TurningAngle=%v, oracle %v (n=%d)", ta, tOr, n)
		o.Finding = "sliver-turning"
		return o
	}
	ab := areaBound(n) + tErr + 3*eps*sumAbs
	if thin {
		// the sharper value
		wantA = s
		if !ccw {
			wantA = 4*math.Pi + s
		}
	}
	o.Ratios["area_err/(documented+oracle)"] = math.Abs(got-wantA) / ab
	if math.Abs(got-wantA) > ab {
		o.Err = fmt.Sprintf("Area=%v, want %v (oracle turning angle %v, n=%d, kind %s)", got, wantA, tOr, n, c.Kind)
		o.Finding = "sliver-area"
		return o
	}
	if thin {
		if (got > 2*math.Pi) == ccw {
			o.Err = fmt.Sprintf("thin loop: Area=%v but the loop is ccw=%v", got, ccw)
			o.Finding = "sliver-area-side"
			return o
		}
		if l.IsNormalized() != ccw {
			o.Err = fmt.Sprintf("thin loop: IsNormalized=%v but the loop is ccw=%v", l.IsNormalized(), ccw)
			o.Finding = "sliver-normalized"
			return o
		}
	}
	arev := s2.LoopFromPoints(reversedPts(pts)).Area()
	if d := math.Abs(got + arev - 4*math.Pi); d > 2*turnBound(n)+4*math.Pi*1e-15 {
		o.Err = fmt.Sprintf("Area=%v, Area(reversed)=%v: sum misses 4π by %g", got, arev, d)
		o.Finding = "sliver-complement"
		return o
	}
	// containment: exact truth for triangles; for thin loops any probe farther
	// than 0.02 rad from every vertex-to-vertex chord is outside the thin side.
	total := 0
	for i, pp := range c.Probes {
		p := pp.Pt()
		if !gen.Unit(p) {
			continue
		}
		isV := false
		for _, q := range pts {
			if q == p {
				isV = true
			}
		}
		if isV {
			continue
		}
		var want, known bool
		if n == 3 {
			want, known = triContains(v[0], v[1], v[2], p.Vector), true
		} else if thin {
			far := true
			for k := 0; k < n; k++ {
				if float64(s2.DistanceFromSegment(p, pts[k], pts[(k+1)%n])) < 0.02 {
					far = false
				}
			}
			want, known = !ccw, far
		}
		if !known {
			continue
		}
		total++
		g := l.ContainsPoint(p)
		if g != want {
			o.Err = fmt.Sprintf("probe %d: ContainsPoint=%v, truth %v (ccw=%v, Area=%v)", i, g, want, ccw, got)
			o.Finding = "sliver-contains"
			if want && !l.RectBound().ContainsPoint(p) {
				// the crossing parity says inside; ContainsPoint says no only because
				// of its bounding-rectangle shortcut: the loop's RectBound is not
				// conservative (seen for an edge running exactly through a pole)
				o.Finding = "bound-excludes-contained-point"
				o.Err += fmt.Sprintf("; RectBound %v excludes the probe %v", l.RectBound(), s2.LatLngFromPoint(p))
			}
			return o
		}
	}
	o.Counts = map[string]int{"probes_with_truth": total}
	return o
}

// ---------------------------------------------------------------- polygons

func ringCentroidTol(r []gen.P, per float64) float64 {
	t, _, _ := fanCentroidTol(gen.Pts(r))
	return t + 2*eps*per
}

func checkPolygon(c polyCase) ev.Outcome {
	o := ev.Outcome{}
	type ringInfo struct {
		depth int
		v     []gen.P
		area  float64
		aerr  float64
		cen   r3.Vector
		cerr  float64
		n     int
	}
	var rings []ringInfo
	for _, s := range c.Sys {
		for k, r := range s.Rings {
			hl := newHPLoop(vecs(r))
			a, sumAbs := hl.fanArea(s.Center.Pt().Vector)
			cen, per := hl.centroid()
			rings = append(rings, ringInfo{depth: k, v: r, area: a, aerr: 3*eps*sumAbs + areaBound(len(r)),
				cen: cen, cerr: ringCentroidTol(r, per), n: len(r)})
		}
	}
	if len(c.Order) != len(rings) {
		o.Skip = true
		return o
	}
	mk := func(oriented bool) []*s2.Loop {
		var ls []*s2.Loop
		for _, i := range c.Order {
			if i < 0 || i >= len(rings) {
				return nil
			}
			p := gen.Pts(rings[i].v)
			if oriented && rings[i].depth%2 == 1 {
				p = reversedPts(p)
			}
			ls = append(ls, s2.LoopFromPoints(p))
		}
		return ls
	}
	loops := mk(false)
	if loops == nil {
		o.Skip = true
		return o
	}
	for _, l := range loops {
		if l.Validate() != nil {
			o.Skip = true
			return o
		}
	}
	wantA, tolA := 0.0, 0.0
	var wantC r3.Vector
	tolC := 0.0
	holes := 0
	for _, r := range rings {
		sg := 1.0
		if r.depth%2 == 1 {
			sg = -1
			holes++
		}
		wantA += sg * r.area
		tolA += r.aerr
		wantC = wantC.Add(r.cen.Mul(sg))
		tolC += r.cerr
	}
	hug := false
	for _, s := range c.Sys {
		hug = hug || (len(s.Rings) == 2 && len(s.Rings[1]) == 3)
	}
	o.Class = fmt.Sprintf("systems=%d/loops>12=%v/holes=%v/hug=%v", len(c.Sys), len(rings) > 12, holes > 0, hug)
	o.NonTrivial = holes > 0 && (len(c.Sys) > 1 || hug)
	o.Ratios = map[string]float64{}

	p := s2.PolygonFromLoops(loops)
	// nesting as constructed (depth parity per ring, found by its first vertex)
	for k := 0; k < p.NumLoops(); k++ {
		pl := p.Loop(k)
		found := false
		for _, r := range rings {
			if r.n == pl.NumVertices() && r.v[0].Pt() == pl.Vertex(0) {
				found = true
				if (r.depth%2 == 1) != pl.IsHole() {
					o.Err = fmt.Sprintf("loop %d: IsHole=%v but it was constructed at nesting depth %d", k, pl.IsHole(), r.depth)
					o.Finding = "polygon-nesting"
					return o
				}
			}
		}
		if !found {
			o.Err = fmt.Sprintf("loop %d of the polygon is none of the input rings", k)
			o.Finding = "polygon-nesting"
			return o
		}
	}
	got := p.Area()
	o.Ratios["polygon_area_err/bound"] = math.Abs(got-wantA) / tolA
	if math.Abs(got-wantA) > tolA {
		o.Err = fmt.Sprintf("Polygon.Area=%v, signed sum of the oracle ring areas %v: error %g > %g", got, wantA, math.Abs(got-wantA), tolA)
		o.Finding = "polygon-area"
		return o
	}
	gc := p.Centroid().Vector
	o.Ratios["polygon_centroid_err/tol"] = gc.Sub(wantC).Norm() / tolC
	if gc.Sub(wantC).Norm() > tolC {
		o.Err = fmt.Sprintf("Polygon.Centroid=%v, signed sum of the oracle ring centroids %v: error %g > %g", gc, wantC, gc.Sub(wantC).Norm(), tolC)
		o.Finding = "polygon-centroid"
		return o
	}
	// same operations in the same order: bit-equal
	sa := 0.0
	var sc r3.Vector
	for _, l := range p.Loops() {
		if l.IsHole() {
			sa -= l.Area()
			sc = sc.Sub(l.Centroid().Vector)
		} else {
			sa += l.Area()
			sc = sc.Add(l.Centroid().Vector)
		}
	}
	if sa != got || sc != gc {
		o.Err = fmt.Sprintf("Polygon.Area/Centroid (%v, %v) differ from the signed sums over its loops (%v, %v)", got, gc, sa, sc)
		o.Finding = "polygon-sum"
		return o
	}
	// oriented constructor: holes handed in clockwise
	po := s2.PolygonFromOrientedLoops(mk(true))
	if g := po.Area(); math.Abs(g-wantA) > tolA {
		o.Err = fmt.Sprintf("PolygonFromOrientedLoops.Area=%v, want %v", g, wantA)
		o.Finding = "polygon-oriented-area"
		return o
	}
	// a loop OBJECT that is a hole of p, handed alone to a new polygon, is that
	// polygon's only shell: its area is the ring's, not the negated one
	for k := 0; k < p.NumLoops(); k++ {
		if !p.Loop(k).IsHole() {
			continue
		}
		hl := p.Loop(k)
		for _, r := range rings {
			if r.n == hl.NumVertices() && r.v[0].Pt() == hl.Vertex(0) {
				q := s2.PolygonFromLoops([]*s2.Loop{hl})
				if g := q.Area(); math.Abs(g-r.area) > r.aerr {
					o.Err = fmt.Sprintf("single-loop polygon built from a loop that was a hole before: Area=%v, ring area %v", g, r.area)
					o.Finding = "polygon-reused-loop"
					return o
				}
				if d := q.Centroid().Vector.Sub(r.cen).Norm(); d > r.cerr {
					o.Err = fmt.Sprintf("single-loop polygon built from a loop that was a hole before: Centroid=%v, ring centroid %v", q.Centroid().Vector, r.cen)
					o.Finding = "polygon-reused-loop"
					return o
				}
			}
		}
		break // one is enough (the old polygon p is not used for these loops afterwards except through Invert below, so rebuild it)
	}
	p = s2.PolygonFromLoops(mk(false))
	// complement
	p.Invert()
	gi := p.Area()
	if d := math.Abs(gi - (4*math.Pi - wantA)); d > tolA+8*eps {
		o.Err = fmt.Sprintf("Area after Polygon.Invert()=%v, want 4π−%v: error %g > %g", gi, wantA, d, tolA+8*eps)
		o.Finding = "polygon-invert-area"
		return o
	}
	if d := p.Centroid().Vector.Add(wantC).Norm(); d > tolC {
		o.Err = fmt.Sprintf("Centroid after Polygon.Invert()=%v, want %v", p.Centroid().Vector, wantC.Mul(-1))
		o.Finding = "polygon-invert-centroid"
		return o
	}
	return o
}

func init() {
	ev.Define("turning_angle", ev.Options{
		Rule:  "valid-by-construction loops: regular / star / lattice rectangles / cells inside an 80° cap; band loops winding once round a pole at latitudes in ±80° (areas 0.1…4π−0.1, exact and near hemispheres, edges up to 180°−1e-7, vertices antipodal to vertex 0); octahedron cycles (3…6 quarter-circle edges, vertices ±1e-17…1e-6 off the axes); each also reversed; 3…2000 (10000 thorough) vertices. Oracle: per-vertex atan2 of the exact-integer determinant and dot product, signed by the exact symbolically-perturbed orientation, cross-checked against the area oracle through Gauss–Bonnet; compared within 11.25εn + oracle 4εn; bit-identical under all (n≤17) or 6…16 sampled rotations; exactly negated by reversal, reversal+rotation and Invert(); IsNormalized outside the documented ambiguity band. Non-trivial: area < 1e-10 or > 4π−1e-10, or |turning angle| < 100·max error, or an edge > 179°.",
		Quick: 16000, Thorough: 500000}, genLoopCase, checkTurning)
	ev.Define("loop_area", ev.Options{
		Rule:  "same loops. Oracle: Eriksson signed triangle areas (exact-integer products, one atan2 each) over a fan about the construction's interior point, Area = sum (+4π when the loop is the inverted one; turning-angle oracle for the witness-less octahedron cycles). Area within 11.25εn+8ε+oracle of it; Area>2π iff truth; ContainsPoint of the inside/outside witnesses; small regular loops to relative 1e-14+4e-16n²; Area+Area(reversed)=4π within 2·11.25εn+4π·1e-15; Invert() equals a fresh reversed loop bit-for-bit; rotations within twice the bound; Gauss–Bonnet against the library's own TurningAngle. Non-trivial as above, or the loop reaches one of the three fan-origin-switch branches of Loop.surfaceIntegral (labels /sw1 /sw2 /sw3).",
		Quick: 16000, Thorough: 500000}, genLoopCase, checkArea)
	ev.Define("loop_centroid", ev.Options{
		Rule:  "same loops. Oracle: vector area ½Σθ_i·n̂_i (exact cross products, one atan2 per edge). Centroid within an a-priori tolerance Σ over the documented fan's triangles of 20ε(|area|+0.01)κ²+4ε·perimeter·κ, κ = max θ/sinθ of the triangle's sides, + 2ε·loop perimeter; |Centroid| ≤ min(area,4π−area); the reversed loop gives the negative (the design's 'agree' is a slip: the integral over the complement is minus the integral over the interior); rotations agree with the oracle. Non-trivial as for loop_area.",
		Quick: 10000, Thorough: 300000}, genLoopCase, checkCentroid)
	ev.Define("triangle_measures", ev.Options{
		Rule:  "triangles: exactly coplanar, related tuples (duplicates/antipodes/ulp neighbours; identical, exactly parallel and antipodal-within-1e-9 pairs discarded), small fat (1e-7…1e-1), needles (1e-15…1e-3), third point within ulps of an edge, one edge 180°−(1e-9…0.03), near-hemisphere, uniform. PointArea and GirardArea within 1e-14 of the Eriksson oracle, small fat triangles to relative 1e-13, SignedArea = exact orientation × PointArea, TurnAngle/Angle within 9.25ε+oracle and exactly antisymmetric/symmetric, TrueCentroid against ½Σθn̂ within 20ε(|area|+0.01)κ²+4ε·perimeter·κ, the 3-vertex loop's Area on the side the exact orientation dictates. Non-trivial: exact determinant zero, area < 1e-10, an edge > 179°, or area within 1e-6 of 2π.",
		Quick: 60000, Thorough: 3000000}, genTriangle, checkTriangle)
	ev.Define("sliver_loops", ev.Options{
		Rule:  "degenerate and nearly degenerate loops of 3…10 vertices inside a cap (all chords < 170°): exactly coplanar triangles and n-gons, triangles of all the families above, thin lenses about an arc of 1e-6…170° with half-width 0 or 1e-18…1e-3 of the length; validity decided with exact predicates (invalid ones discarded, about half). Truth: orientation from the exact-sign turning-angle oracle, area 0/4π accordingly (fan oracle for thin loops), exact half-sphere test for probes of triangles, probes ≥ 0.02 rad from every edge for thin n-gons. Area, TurningAngle, IsNormalized, Area(reversed) and ContainsPoint must all agree with it. Non-trivial: thin (Σ|fan areas| < 1e-6).",
		Quick: 40000, Thorough: 1500000}, genSliver, checkSliver)
	ev.Define("polygon_sums", ev.Options{
		Rule:  "polygons of 1…4 disjoint systems of 1…4 concentric rings (nesting depth known by construction, 8…40/400 vertices per ring, radius 1e-6…0.5), loops handed over in a drawn order; a quarter of the systems is instead a shell of 4…8 long edges with a triangular hole one edge of which lies along a shell edge, strictly inside by the exact orientation test but within rounding of it (the two bounding rectangles then differ by rounding only), or a shell of 5…16 vertices with a triangular hole that shares exactly one vertex with it (shell vertex 0 in a third of the cases; the shared vertex is the hole's vertex 0, 1 or 2). Area and Centroid against the signed sums of the per-ring oracles; bit-equal to the signed sums over Loops(); PolygonFromOrientedLoops with clockwise holes; Invert() gives 4π−area and the negated centroid. Non-trivial: at least one hole and more than one system, or a hole along a shell edge.",
		Quick: 6000, Thorough: 60000}, genPolygon, checkPolygon)
}
