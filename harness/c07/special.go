package c07

import (
	"fmt"

	"github.com/golang/geo/s2"
	"pgregory.net/rapid"

	"verifharness/internal/ev"
	"verifharness/internal/gen"
)

// special_operands: the empty and the full loop / polygon (valid values with no
// boundary) as one or both operands. Their point sets are known by definition,
// so the set-algebra truth needs no geometry: ∅ ⊆ X ⊆ S² for every X.

// operand kinds. "ord*" is an ordinary region (neither empty nor full).
var loopKinds = []string{"empty", "full", "ord", "ordinv"}
var polyKinds = []string{
	"empty:noloops", "empty:emptyloop", "empty:invertfull", "empty:oriented",
	"full:FullPolygon", "full:fullloop", "full:invertempty", "full:invertnoloops", "full:oriented",
	"ord", "ordinv", "ord:oriented",
}

type specialCase struct {
	Poly   bool // polygon operands (else loops)
	KA, KB string
	L      gen.LoopCase     // ordinary loop operand
	R      gen.RingsPolygon // ordinary polygon operand: rings selected by Sel
	Sel    []bool
	Shared bool // A and B ordinary: identical (true) or A vs its own complement (false)
}

func genSpecial(t *rapid.T) specialCase {
	c := specialCase{Poly: rapid.Bool().Draw(t, "poly")}
	kinds := loopKinds
	if c.Poly {
		kinds = polyKinds
	}
	c.KA = rapid.SampledFrom(kinds).Draw(t, "ka")
	c.KB = rapid.SampledFrom(kinds).Draw(t, "kb")
	if rapid.Bool().Draw(t, "forceSpecial") {
		// at least one operand empty or full
		c.KA = rapid.SampledFrom(kinds[:len(kinds)-3+btoi(!c.Poly)]).Draw(t, "ka2")
	}
	c.L = gen.StarLoop(t, "l", 80)
	c.R = gen.DrawRings(t, "r", 4, 40)
	any := false
	for range c.R.Rings {
		s := rapid.Bool().Draw(t, "sel")
		c.Sel = append(c.Sel, s)
		any = any || s
	}
	if !any {
		c.Sel[0] = true
	}
	c.Shared = rapid.Bool().Draw(t, "shared")
	return c
}

func btoi(b bool) int {
	if b {
		return 1
	}
	return 0
}

// set: 0 empty, 1 ordinary, 2 ordinary complement, 3 full
func setOf(kind string) int {
	switch {
	case len(kind) >= 5 && kind[:5] == "empty":
		return 0
	case len(kind) >= 4 && kind[:4] == "full":
		return 3
	case kind == "ordinv":
		return 2
	}
	return 1
}

func (c specialCase) loop(kind string) *s2.Loop {
	switch kind {
	case "empty":
		return s2.EmptyLoop()
	case "full":
		return s2.FullLoop()
	case "ordinv":
		return c.L.Reversed().Loop()
	}
	return c.L.Loop()
}

func (c specialCase) rings(oriented bool) []*s2.Loop {
	var ls []*s2.Loop
	depth := 0
	for i, r := range c.R.Rings {
		if i < len(c.Sel) && c.Sel[i] {
			if oriented && depth%2 == 1 {
				ls = append(ls, loopOf(rev(r)))
			} else {
				ls = append(ls, loopOf(r))
			}
			depth++
		}
	}
	return ls
}

func (c specialCase) polygon(kind string) *s2.Polygon {
	switch kind {
	case "empty:noloops":
		return s2.PolygonFromLoops(nil)
	case "empty:emptyloop":
		return s2.PolygonFromLoops([]*s2.Loop{s2.EmptyLoop()})
	case "empty:invertfull":
		p := s2.FullPolygon()
		p.Invert()
		return p
	case "empty:oriented":
		return s2.PolygonFromOrientedLoops([]*s2.Loop{s2.EmptyLoop()})
	case "full:FullPolygon":
		return s2.FullPolygon()
	case "full:fullloop":
		return s2.PolygonFromLoops([]*s2.Loop{s2.FullLoop()})
	case "full:invertempty":
		p := s2.PolygonFromLoops([]*s2.Loop{s2.EmptyLoop()})
		p.Invert()
		return p
	case "full:invertnoloops":
		p := s2.PolygonFromLoops(nil)
		p.Invert()
		return p
	case "full:oriented":
		return s2.PolygonFromOrientedLoops([]*s2.Loop{s2.FullLoop()})
	case "ordinv":
		p := s2.PolygonFromLoops(c.rings(false))
		p.Invert()
		return p
	case "ord:oriented":
		return s2.PolygonFromOrientedLoops(c.rings(true))
	}
	return s2.PolygonFromLoops(c.rings(false))
}

// truth of contains / intersects for the four set classes; ordinary operands are
// the same region X (or X and its complement).
func specialTruth(sa, sb int) (contains, intersects bool) {
	switch {
	case sb == 0:
		return true, false
	case sa == 0:
		return false, false
	case sa == 3:
		return true, true
	case sb == 3:
		return false, true
	}
	// both ordinary: X or X'
	return sa == sb, sa == sb
}

func checkSpecial(c specialCase) ev.Outcome {
	o := ev.Outcome{}
	sa, sb := setOf(c.KA), setOf(c.KB)
	if len(c.L.V) < 3 || len(c.R.Rings) == 0 || len(c.Sel) != len(c.R.Rings) {
		o.Skip = true
		return o
	}
	wantC, wantI := specialTruth(sa, sb)
	o.Class = fmt.Sprintf("poly=%v/%s/%s", c.Poly, []string{"empty", "ord", "ord'", "full"}[sa], []string{"empty", "ord", "ord'", "full"}[sb])
	o.NonTrivial = sa == 0 || sa == 3 || sb == 0 || sb == 3
	var gotC, gotI, gotIr, selfC, selfI, isE, isF bool
	var probeIn [2]bool
	probes := [2]s2.Point{c.L.Inside.Pt(), c.R.Center.Pt()}
	if c.Poly {
		a, b := c.polygon(c.KA), c.polygon(c.KB)
		if a.Validate() != nil || b.Validate() != nil {
			if sa == 1 || sa == 2 || sb == 1 || sb == 2 {
				if (sa == 0 || sa == 3 || a.Validate() == nil) && (sb == 0 || sb == 3 || b.Validate() == nil) {
					o.Err = fmt.Sprintf("the %s / %s polygon does not validate: %v / %v", c.KA, c.KB, a.Validate(), b.Validate())
					return o
				}
				o.Skip = true // the drawn rings are not a valid polygon (never observed)
				return o
			}
			o.Err = fmt.Sprintf("the %s / %s polygon does not validate: %v / %v", c.KA, c.KB, a.Validate(), b.Validate())
			return o
		}
		gotC, gotI, gotIr = a.Contains(b), a.Intersects(b), b.Intersects(a)
		selfC, selfI = a.Contains(a), a.Intersects(a)
		isE, isF = a.IsEmpty(), a.IsFull()
		for i, p := range probes {
			probeIn[i] = a.ContainsPoint(p)
		}
	} else {
		a, b := c.loop(c.KA), c.loop(c.KB)
		gotC, gotI, gotIr = a.Contains(b), a.Intersects(b), b.Intersects(a)
		selfC, selfI = a.Contains(a), a.Intersects(a)
		isE, isF = a.IsEmpty(), a.IsFull()
		for i, p := range probes {
			probeIn[i] = a.ContainsPoint(p)
		}
	}
	if isE != (sa == 0) || isF != (sa == 3) {
		o.Err = fmt.Sprintf("operand A (%s): IsEmpty=%v IsFull=%v", c.KA, isE, isF)
		return o
	}
	if sa == 0 || sa == 3 {
		for i, in := range probeIn {
			if in != (sa == 3) {
				o.Err = fmt.Sprintf("operand A (%s): ContainsPoint(probe %d)=%v", c.KA, i, in)
				return o
			}
		}
	}
	if gotC != wantC {
		o.Err = fmt.Sprintf("A(%s).Contains(B(%s)) = %v, by definition %v", c.KA, c.KB, gotC, wantC)
		return o
	}
	if gotI != wantI || gotIr != wantI {
		o.Err = fmt.Sprintf("A(%s).Intersects(B(%s)) = %v, B.Intersects(A) = %v, by definition %v", c.KA, c.KB, gotI, gotIr, wantI)
		return o
	}
	if !selfC || selfI != (sa != 0) {
		o.Err = fmt.Sprintf("A(%s): Contains(self)=%v Intersects(self)=%v", c.KA, selfC, selfI)
		return o
	}
	return o
}

func init() {
	ev.Define("special_operands", ev.Options{
		Rule:  "pairs in which one or both operands are the empty or the full loop / polygon in each of their constructions (EmptyLoop, FullLoop, PolygonFromLoops(nil), polygon of the empty/full loop, FullPolygon, Invert of the opposite, PolygonFromOrientedLoops), the other an ordinary star loop / nested-ring polygon or its complement. Truth by definition (∅ ⊆ X ⊆ S²): Contains, Intersects (both orders), self relations, IsEmpty/IsFull, ContainsPoint at two probes. Non-trivial = at least one operand empty or full.",
		Quick: 8000, Thorough: 100000}, genSpecial, checkSpecial)
}
