package c07

import (
	"fmt"

	"github.com/golang/geo/s2"
	"pgregory.net/rapid"

	"verifharness/internal/ev"
	"verifharness/internal/gen"
)

// lattice_polygons: multi-loop polygons on one face grid whose loops touch each
// other at vertices (never along an edge): an optional shell rectangle and
// "pieces" - squares of side S placed on a checkerboard (so two pieces share
// at most a corner) strictly inside the shell (holes) or, without a shell, as
// shells of their own. Both polygons live on the same grid, so their boundaries
// coincide bit for bit wherever the integer boundaries do (shared edges and
// shared vertices between the two polygons, vertex-touching loops inside one).
// Truth is integer set algebra on the grid cells plus the rest of the sphere.

type latticePoly struct {
	Shell  bool
	R      gen.LatticeRect // the shell
	Notch  int             // side of a square notch cut out of corner Corner of the shell (0 = none): its reflex vertex can touch the corner of a hole
	Corner int             // 0: (I0,J0)  1: (I1,J0)  2: (I1,J1)  3: (I0,J1)
	Rot    int             // the vertex list of every piece starts Rot corners further on
	S      int             // side of a piece in grid steps
	Pieces [][2]int        // lower-left corner (i,j) of every piece
	Inv    bool            // complemented with Polygon.Invert()
	Perm   []int           // input order of the loops
}

type latticePolyPair struct {
	Face, Level int
	A, B        latticePoly
}

func drawLatticePoly(t *rapid.T, l string, face, level int, other *latticePoly) latticePoly {
	n := 1 << uint(level)
	p := latticePoly{S: rapid.SampledFrom([]int{1, 1, 2}).Draw(t, l+".s")}
	if other != nil && rapid.Bool().Draw(t, l+".sameS") {
		p.S = other.S
	}
	p.Shell = rapid.IntRange(0, 3).Draw(t, l+".shell") != 0
	lo, hi := 0, n // pieces live in [lo,hi)²-aligned blocks
	if p.Shell {
		if other != nil && other.Shell && rapid.Bool().Draw(t, l+".sameShell") {
			p.R = other.R
		} else {
			w := rapid.IntRange(3, n).Draw(t, l+".w")
			h := rapid.IntRange(3, n).Draw(t, l+".h")
			i0 := rapid.IntRange(0, n-w).Draw(t, l+".i0")
			j0 := rapid.IntRange(0, n-h).Draw(t, l+".j0")
			p.R = gen.LatticeRect{Face: face, Level: level, I0: i0, J0: j0, I1: i0 + w, J1: j0 + h}
		}
	}
	_ = lo
	_ = hi
	if p.Shell && (other == nil || p.R != other.R || !other.Shell) && rapid.Bool().Draw(t, l+".notched") {
		m := minI(p.R.I1-p.R.I0, p.R.J1-p.R.J0) - 2
		if m >= 1 {
			p.Notch = rapid.IntRange(1, minI(m, 3)).Draw(t, l+".notch")
			p.Corner = rapid.IntRange(0, 3).Draw(t, l+".corner")
		}
	} else if p.Shell && other != nil && other.Shell && p.R == other.R {
		p.Notch, p.Corner = other.Notch, other.Corner
	}
	p.Rot = rapid.IntRange(0, 3).Draw(t, l+".rot")
	// candidate blocks: aligned to S, checkerboard parity par, strictly inside the shell if any
	par := rapid.IntRange(0, 1).Draw(t, l+".par")
	if p.Notch > 0 && rapid.IntRange(0, 3).Draw(t, l+".atreflex") != 0 {
		// the block diagonally opposite the notch at its reflex vertex, if aligned
		ni0, nj0, ni1, nj1 := p.notchRect()
		bi, bj := ni1, nj1
		if p.Corner == 1 || p.Corner == 2 {
			bi = ni0 - p.S
		}
		if p.Corner == 2 || p.Corner == 3 {
			bj = nj0 - p.S
		}
		if bi >= 0 && bj >= 0 && bi%p.S == 0 && bj%p.S == 0 {
			par = (bi/p.S + bj/p.S) % 2
		}
	}
	var cand [][2]int
	for bi := 0; bi*p.S+p.S <= n; bi++ {
		for bj := 0; bj*p.S+p.S <= n; bj++ {
			if (bi+bj)%2 != par {
				continue
			}
			i, j := bi*p.S, bj*p.S
			if p.Shell && !p.pieceFits(i, j) {
				continue
			}
			cand = append(cand, [2]int{i, j})
		}
	}
	maxPieces := 6
	if rapid.IntRange(0, 3).Draw(t, l+".many") == 0 {
		maxPieces = 20
	}
	if len(cand) > 0 {
		k := rapid.IntRange(0, minI(maxPieces, len(cand))).Draw(t, l+".k")
		if !p.Shell && k == 0 {
			k = 1
		}
		// a contiguous run of the candidate list keeps neighbours (corner contacts) likely
		start := rapid.IntRange(0, len(cand)-k).Draw(t, l+".start")
		for _, c := range cand[start : start+k] {
			if rapid.IntRange(0, 4).Draw(t, l+".drop") != 0 {
				p.Pieces = append(p.Pieces, c)
			}
		}
		if !p.Shell && len(p.Pieces) == 0 {
			p.Pieces = append(p.Pieces, cand[start])
		}
	}
	p.Inv = rapid.IntRange(0, 3).Draw(t, l+".inv") == 0
	nl := len(p.Pieces)
	if p.Shell {
		nl++
	}
	p.Perm = rapid.Permutation(seq(nl)).Draw(t, l+".perm")
	return p
}

// notchRect: the cells [i0,i1)×[j0,j1) cut out of the shell rectangle.
func (p latticePoly) notchRect() (i0, j0, i1, j1 int) {
	k := p.Notch
	switch p.Corner {
	case 0:
		return p.R.I0, p.R.J0, p.R.I0 + k, p.R.J0 + k
	case 1:
		return p.R.I1 - k, p.R.J0, p.R.I1, p.R.J0 + k
	case 2:
		return p.R.I1 - k, p.R.J1 - k, p.R.I1, p.R.J1
	}
	return p.R.I0, p.R.J1 - k, p.R.I0 + k, p.R.J1
}

// pieceFits: the closed piece [i,i+S]×[j,j+S] lies in the open shell rectangle
// and meets the closed notch in at most one point.
func (p latticePoly) pieceFits(i, j int) bool {
	if !(i > p.R.I0 && i+p.S < p.R.I1 && j > p.R.J0 && j+p.S < p.R.J1) {
		return false
	}
	if p.Notch == 0 {
		return true
	}
	ni0, nj0, ni1, nj1 := p.notchRect()
	// lengths of the overlaps of the closed intervals
	ox := minI(i+p.S, ni1) - maxI(i, ni0)
	oy := minI(j+p.S, nj1) - maxI(j, nj0)
	if ox < 0 || oy < 0 {
		return true // disjoint
	}
	return ox == 0 && oy == 0 // a single common point
}

func maxI(a, b int) int {
	if a > b {
		return a
	}
	return b
}

// shellVertices: boundary of the (notched) shell, CCW, a vertex at every grid point.
func (p latticePoly) shellVertices() []gen.P {
	if p.Notch == 0 {
		return p.R.Vertices()
	}
	ni0, nj0, ni1, nj1 := p.notchRect()
	// corner path CCW starting at (I0,J0), with the notch corner replaced by its three inner corners
	type pt struct{ i, j int }
	var cs []pt
	add := func(q ...pt) { cs = append(cs, q...) }
	if p.Corner == 0 {
		add(pt{ni1, p.R.J0})
	} else {
		add(pt{p.R.I0, p.R.J0})
	}
	if p.Corner == 1 {
		add(pt{ni0, p.R.J0}, pt{ni0, nj1}, pt{p.R.I1, nj1})
	} else {
		add(pt{p.R.I1, p.R.J0})
	}
	if p.Corner == 2 {
		add(pt{p.R.I1, nj0}, pt{ni0, nj0}, pt{ni0, p.R.J1})
	} else {
		add(pt{p.R.I1, p.R.J1})
	}
	if p.Corner == 3 {
		add(pt{ni1, p.R.J1}, pt{ni1, nj0}, pt{p.R.I0, nj0})
	} else {
		add(pt{p.R.I0, p.R.J1})
	}
	if p.Corner == 0 {
		add(pt{p.R.I0, nj1}, pt{ni1, nj1})
	}
	var v []gen.P
	for k := range cs {
		a, b := cs[k], cs[(k+1)%len(cs)]
		di, dj := sgn(b.i-a.i), sgn(b.j-a.j)
		for q := a; q != b; q = (pt{q.i + di, q.j + dj}) {
			v = append(v, gen.FromPt(gen.LatticePoint(p.R.Face, p.R.Level, q.i, q.j)))
		}
	}
	return v
}

func sgn(x int) int {
	switch {
	case x > 0:
		return 1
	case x < 0:
		return -1
	}
	return 0
}

func (p latticePoly) inShell(i, j int) bool {
	if !p.R.ContainsCellIJ(i, j) {
		return false
	}
	if p.Notch > 0 {
		ni0, nj0, ni1, nj1 := p.notchRect()
		if ni0 <= i && i < ni1 && nj0 <= j && j < nj1 {
			return false
		}
	}
	return true
}

func (p latticePoly) pieceVertices(face, level, k int) []gen.P {
	v := p.piece(face, level, k).Vertices()
	r := ((p.Rot % 4) + 4) % 4 * p.S
	return append(append([]gen.P{}, v[r:]...), v[:r]...)
}

func minI(a, b int) int {
	if a < b {
		return a
	}
	return b
}

func genLatticePolyPair(t *rapid.T) latticePolyPair {
	c := latticePolyPair{Face: rapid.IntRange(0, 5).Draw(t, "face"), Level: rapid.IntRange(2, 5).Draw(t, "level")}
	c.A = drawLatticePoly(t, "a", c.Face, c.Level, nil)
	c.B = drawLatticePoly(t, "b", c.Face, c.Level, &c.A)
	if rapid.IntRange(0, 5).Draw(t, "same") == 0 {
		c.B = c.A
		c.B.Inv = rapid.Bool().Draw(t, "sameinv")
	}
	return c
}

func (p latticePoly) piece(face, level int, k int) gen.LatticeRect {
	return gen.LatticeRect{Face: face, Level: level, I0: p.Pieces[k][0], J0: p.Pieces[k][1], I1: p.Pieces[k][0] + p.S, J1: p.Pieces[k][1] + p.S}
}

// member: integer truth for the grid cell (i,j); i < 0 is the rest of the sphere.
func (p latticePoly) member(face, level, i, j int) bool {
	in := false
	if i >= 0 {
		if p.Shell {
			in = p.inShell(i, j)
		}
		for k := range p.Pieces {
			if p.piece(face, level, k).ContainsCellIJ(i, j) {
				in = !in
			}
		}
	}
	return in != p.Inv
}

func (p latticePoly) ok(face, level int) bool {
	n := 1 << uint(level)
	if p.S < 1 || p.S > 2 || (!p.Shell && len(p.Pieces) == 0) {
		return false
	}
	if p.Shell && !(p.R.Face == face && p.R.Level == level && 0 <= p.R.I0 && p.R.I0 < p.R.I1 && p.R.I1 <= n && 0 <= p.R.J0 && p.R.J0 < p.R.J1 && p.R.J1 <= n) {
		return false
	}
	seen := map[[2]int]bool{}
	par := -1
	for _, c := range p.Pieces {
		i, j := c[0], c[1]
		if i < 0 || j < 0 || i+p.S > n || j+p.S > n || i%p.S != 0 || j%p.S != 0 || seen[c] {
			return false
		}
		seen[c] = true
		q := (i/p.S + j/p.S) % 2
		if par >= 0 && q != par {
			return false
		}
		par = q
		if p.Shell && !p.pieceFits(i, j) {
			return false
		}
	}
	if p.Notch < 0 || p.Corner < 0 || p.Corner > 3 || (p.Notch > 0 && (!p.Shell || p.Notch > minI(p.R.I1-p.R.I0, p.R.J1-p.R.J0)-2)) {
		return false
	}
	return true
}

func (p latticePoly) build(face, level int) *s2.Polygon {
	var loops []*s2.Loop
	if p.Shell {
		loops = append(loops, loopOf(p.shellVertices()))
	}
	for k := range p.Pieces {
		loops = append(loops, loopOf(p.pieceVertices(face, level, k)))
	}
	var in []*s2.Loop
	used := map[int]bool{}
	for _, k := range p.Perm {
		if k >= 0 && k < len(loops) && !used[k] {
			used[k] = true
			in = append(in, loops[k])
		}
	}
	for k := range loops {
		if !used[k] {
			in = append(in, loops[k])
		}
	}
	poly := s2.PolygonFromLoops(in)
	if p.Inv {
		poly.Invert()
	}
	return poly
}

// corner contacts between pieces of one polygon
func (p latticePoly) contacts() int {
	set := map[[2]int]bool{}
	for _, c := range p.Pieces {
		set[c] = true
	}
	n := 0
	for _, c := range p.Pieces {
		if set[[2]int{c[0] + p.S, c[1] + p.S}] {
			n++
		}
		if set[[2]int{c[0] + p.S, c[1] - p.S}] {
			n++
		}
	}
	return n + p.reflexContacts()
}

// reflexContacts: pieces whose corner is the reflex vertex of the notched shell.
func (p latticePoly) reflexContacts() int {
	if p.Notch == 0 || !p.Shell {
		return 0
	}
	ni0, nj0, ni1, nj1 := p.notchRect()
	ri, rj := ni1, nj1
	if p.Corner == 1 || p.Corner == 2 {
		ri = ni0
	}
	if p.Corner == 2 || p.Corner == 3 {
		rj = nj0
	}
	n := 0
	for _, c := range p.Pieces {
		for _, d := range [4][2]int{{0, 0}, {p.S, 0}, {p.S, p.S}, {0, p.S}} {
			if c[0]+d[0] == ri && c[1]+d[1] == rj {
				n++
			}
		}
	}
	return n
}

func checkLatticePolyPair(c latticePolyPair) ev.Outcome {
	o := ev.Outcome{}
	if c.Face < 0 || c.Face > 5 || c.Level < 2 || c.Level > 6 || !c.A.ok(c.Face, c.Level) || !c.B.ok(c.Face, c.Level) {
		o.Skip = true
		return o
	}
	pa, pb := c.A.build(c.Face, c.Level), c.B.build(c.Face, c.Level)
	for name, p := range map[string]*s2.Polygon{"A": pa, "B": pb} {
		if err := p.Validate(); err != nil {
			o.Err = fmt.Sprintf("polygon %s (loops touching only at vertices) does not validate: %v", name, err)
			o.Finding = "lattice-polygon-invalid"
			return o
		}
	}
	n := 1 << uint(c.Level)
	wantContains, wantIntersects := true, false
	grid := gen.LatticeRect{Face: c.Face, Level: c.Level, I0: 0, J0: 0, I1: n, J1: n}
	for i := -1; i < n; i++ {
		for j := 0; j < n; j++ {
			if i == -1 && j > 0 {
				break
			}
			ma, mb := c.A.member(c.Face, c.Level, i, j), c.B.member(c.Face, c.Level, i, j)
			if mb && !ma {
				wantContains = false
			}
			if ma && mb {
				wantIntersects = true
			}
			if i >= 0 {
				ctr := grid.CenterOfCell(i, j)
				if g := pa.ContainsPoint(ctr); g != ma {
					o.Err = fmt.Sprintf("A.ContainsPoint(centre of grid cell %d,%d) = %v, integer truth %v", i, j, g, ma)
					o.Finding = "lattice-polygon-membership"
					return o
				}
			}
		}
	}
	ca, cb := c.A.contacts(), c.B.contacts()
	o.Class = fmt.Sprintf("shell=%v,%v/inv=%v,%v/contacts>0=%v,%v/reflex=%v,%v/contains=%v/intersects=%v", c.A.Shell, c.B.Shell, c.A.Inv, c.B.Inv, ca > 0, cb > 0, c.A.reflexContacts() > 0, c.B.reflexContacts() > 0, wantContains, wantIntersects)
	o.NonTrivial = ca > 0 || cb > 0
	// nesting: with a shell every piece is a hole of depth 1, without one every piece is a shell
	for k := 0; k < pa.NumLoops(); k++ {
		l := pa.Loop(k)
		if c.A.Inv {
			break // Invert re-labels the hierarchy; membership above already checks the result
		}
		isShell := c.A.Shell && l.NumVertices() == len(c.A.shellVertices()) && l.NumVertices() > 4*c.A.S
		wantHole := c.A.Shell && !isShell
		if l.IsHole() != wantHole {
			o.Err = fmt.Sprintf("loop %d of A: IsHole=%v, want %v (shell=%v, %d pieces)", k, l.IsHole(), wantHole, c.A.Shell, len(c.A.Pieces))
			o.Finding = "nesting"
			return o
		}
	}
	if g := pa.Contains(pb); g != wantContains {
		o.Err = fmt.Sprintf("Polygon.Contains=%v, integer truth=%v (%s)", g, wantContains, o.Class)
		o.Finding = "polygon-relation"
		return o
	}
	if g, h := pa.Intersects(pb), pb.Intersects(pa); g != wantIntersects || h != wantIntersects {
		o.Err = fmt.Sprintf("Polygon.Intersects=%v / reversed %v, integer truth=%v (%s)", g, h, wantIntersects, o.Class)
		o.Finding = "polygon-relation"
		return o
	}
	// complement laws with Invert()ed copies
	ac, bc := c.A, c.B
	ac.Inv, bc.Inv = !ac.Inv, !bc.Inv
	pac, pbc := ac.build(c.Face, c.Level), bc.build(c.Face, c.Level)
	if g := pac.Contains(pb); g == wantIntersects {
		o.Err = fmt.Sprintf("A.Intersects(B)=%v but A'.Contains(B)=%v (%s)", wantIntersects, g, o.Class)
		o.Finding = "polygon-relation"
		return o
	}
	if g := pbc.Contains(pac); g != wantContains {
		o.Err = fmt.Sprintf("A.Contains(B)=%v but B'.Contains(A')=%v (%s)", wantContains, g, o.Class)
		o.Finding = "polygon-relation"
		return o
	}
	if !pa.Contains(pa) || pa.Intersects(pa) == pa.IsEmpty() {
		o.Err = "polygon does not contain / intersect itself"
		o.Finding = "polygon-relation"
		return o
	}
	return o
}

func init() {
	ev.Define("lattice_polygons", ev.Options{
		Rule:  "two multi-loop polygons on one face grid (levels 2..5): an optional shell rectangle with a vertex at every grid point plus up to 20 square pieces of side 1 or 2 on a checkerboard (pieces touch each other only at corners; holes strictly inside the shell, or shells of their own), loops given in shuffled order, each polygon optionally complemented with Invert(); B drawn independently on the same grid, with the same shell, or identical. Truth = integer set algebra on grid cells + the rest of the sphere: ContainsPoint at every cell centre, IsHole, Contains, Intersects (both orders), complement laws, self relations; both polygons must validate. Non-trivial = some pieces of a polygon touch at a corner.",
		Quick: 12000, Thorough: 200000}, genLatticePolyPair, checkLatticePolyPair)
}
