// Package c07: loop and polygon containment/intersection obey point-set semantics.
package c07

import (
	"fmt"
	"math"

	"github.com/golang/geo/s2"
	"pgregory.net/rapid"

	"verifharness/internal/ev"
	"verifharness/internal/gen"
)

func loopOf(v []gen.P) *s2.Loop { return s2.LoopFromPoints(gen.Pts(v)) }

func rev(v []gen.P) []gen.P {
	n := len(v)
	out := make([]gen.P, n)
	for i := range v {
		out[i] = v[n-1-i]
	}
	return out
}

func indexCells(l *s2.Loop) int {
	n := 0
	for it := s2.VerifLoopIndex(l).Iterator(); !it.Done(); it.Next() {
		n++
	}
	return n
}

// ------------------------------------------------------------------ lattice pairs (integer truth)

type latticePair struct {
	A, B       gen.LatticeRect
	InvA, InvB bool
}

func genLatticePair(t *rapid.T) latticePair {
	face := rapid.IntRange(0, 5).Draw(t, "face")
	level := rapid.IntRange(1, 6).Draw(t, "level")
	maxPerim := 48
	if rapid.IntRange(0, 2).Draw(t, "big") == 0 {
		maxPerim = 256
	}
	a := gen.DrawLatticeRect(t, "a", face, level, maxPerim)
	var b gen.LatticeRect
	size := 1 << uint(level)
	switch rapid.IntRange(0, 4).Draw(t, "rel") {
	case 0:
		b = gen.DrawLatticeRect(t, "b", face, level, maxPerim)
	case 1: // nested inside a, possibly sharing sides
		i0 := rapid.IntRange(a.I0, a.I1-1).Draw(t, "bi0")
		i1 := rapid.IntRange(i0+1, a.I1).Draw(t, "bi1")
		j0 := rapid.IntRange(a.J0, a.J1-1).Draw(t, "bj0")
		j1 := rapid.IntRange(j0+1, a.J1).Draw(t, "bj1")
		b = gen.LatticeRect{Face: face, Level: level, I0: i0, I1: i1, J0: j0, J1: j1}
	case 2: // adjacent: shares the side i = a.I1 (if room), same or different j-range
		if a.I1 < size {
			w := rapid.IntRange(1, size-a.I1).Draw(t, "bw")
			j0 := rapid.IntRange(0, size-1).Draw(t, "bj0")
			j1 := rapid.IntRange(j0+1, size).Draw(t, "bj1")
			b = gen.LatticeRect{Face: face, Level: level, I0: a.I1, I1: a.I1 + w, J0: j0, J1: j1}
		} else {
			b = gen.DrawLatticeRect(t, "b", face, level, maxPerim)
		}
	case 3: // touching at a corner only
		if a.I1 < size && a.J1 < size {
			b = gen.LatticeRect{Face: face, Level: level, I0: a.I1, I1: rapid.IntRange(a.I1+1, size).Draw(t, "bi1"), J0: a.J1, J1: rapid.IntRange(a.J1+1, size).Draw(t, "bj1")}
		} else {
			b = gen.DrawLatticeRect(t, "b", face, level, maxPerim)
		}
	default: // equal
		b = a
	}
	return latticePair{A: a, B: b, InvA: rapid.IntRange(0, 2).Draw(t, "inva") == 0, InvB: rapid.IntRange(0, 2).Draw(t, "invb") == 0}
}

// region as a predicate over atoms: grid cells (i,j) and the atom "rest of the sphere" (i = -1).
func latticeMember(r gen.LatticeRect, inv bool, i, j int) bool {
	in := i >= 0 && r.ContainsCellIJ(i, j)
	return in != inv
}

func checkLatticePair(c latticePair) ev.Outcome {
	o := ev.Outcome{}
	va, vb := c.A.Vertices(), c.B.Vertices()
	if c.InvA {
		va = rev(va)
	}
	if c.InvB {
		vb = rev(vb)
	}
	a, b := loopOf(va), loopOf(vb)
	size := 1 << uint(c.A.Level)
	wantContains, wantIntersects := true, false
	for i := -1; i < size; i++ {
		for j := 0; j < size; j++ {
			if i == -1 && j > 0 {
				break
			}
			ma, mb := latticeMember(c.A, c.InvA, i, j), latticeMember(c.B, c.InvB, i, j)
			if mb && !ma {
				wantContains = false
			}
			if ma && mb {
				wantIntersects = true
			}
		}
	}
	o.Class = fmt.Sprintf("inv=%v,%v/contains=%v/intersects=%v", c.InvA, c.InvB, wantContains, wantIntersects)
	o.NonTrivial = len(va) > 32 && len(vb) > 32 && indexCells(a) >= 2 && indexCells(b) >= 2
	if g := a.Contains(b); g != wantContains {
		o.Err = fmt.Sprintf("Loop.Contains=%v, integer truth=%v (A=%+v inv=%v, B=%+v inv=%v)", g, wantContains, c.A, c.InvA, c.B, c.InvB)
		o.Finding = findingFor(len(va), len(vb))
		return o
	}
	if g := a.Intersects(b); g != wantIntersects {
		o.Err = fmt.Sprintf("Loop.Intersects=%v, integer truth=%v (A=%+v inv=%v, B=%+v inv=%v)", g, wantIntersects, c.A, c.InvA, c.B, c.InvB)
		o.Finding = findingFor(len(va), len(vb))
		return o
	}
	if g := b.Intersects(a); g != wantIntersects {
		o.Err = fmt.Sprintf("Loop.Intersects not symmetric: B.Intersects(A)=%v, truth=%v", g, wantIntersects)
		o.Finding = findingFor(len(va), len(vb))
		return o
	}
	// polygons with one loop answer like the loops
	pa, pb := s2.PolygonFromOrientedLoops([]*s2.Loop{loopOf(va)}), s2.PolygonFromOrientedLoops([]*s2.Loop{loopOf(vb)})
	if g := pa.Contains(pb); g != wantContains {
		o.Err = fmt.Sprintf("single-loop Polygon.Contains=%v, integer truth=%v", g, wantContains)
		o.Finding = "polygon-" + findingFor(len(va), len(vb))
		return o
	}
	if g := pa.Intersects(pb); g != wantIntersects {
		o.Err = fmt.Sprintf("single-loop Polygon.Intersects=%v, integer truth=%v", g, wantIntersects)
		o.Finding = "polygon-" + findingFor(len(va), len(vb))
		return o
	}
	return o
}

func findingFor(na, nb int) string {
	if na > 32 && nb > 32 {
		return "both-indexed"
	}
	return "small"
}

// ------------------------------------------------------------------ set-algebra laws on arbitrary pairs

type loopPair struct {
	A, B gen.LoopCase
}

func genLoopPair(t *rapid.T) loopPair {
	maxN := 200
	if ev.Thorough() {
		maxN = 2000
	}
	a := gen.Loop(t, "a", maxN)
	var b gen.LoopCase
	switch rapid.IntRange(0, 4).Draw(t, "rel") {
	case 0:
		b = gen.Loop(t, "b", maxN)
	case 1, 2:
		// about (nearly) the same centre: nested / crossing discs
		c := a.Inside.Pt()
		if rapid.Bool().Draw(t, "shift") {
			c = gen.Related(t, "bc", []s2.Point{c})
		}
		b = gen.StarLoopAt(t, "b", c, maxN, 0)
	case 3:
		// shares a vertex with a
		b = gen.StarLoopAt(t, "b", a.V[rapid.IntRange(0, len(a.V)-1).Draw(t, "vi")].Pt(), maxN, 0)
	default:
		b = a // identical boundary
		if rapid.Bool().Draw(t, "rotate") && len(a.V) > 3 {
			k := rapid.IntRange(1, len(a.V)-1).Draw(t, "rot")
			v := append(append([]gen.P{}, a.V[k:]...), a.V[:k]...)
			b = gen.LoopCase{V: v, Kind: a.Kind, Inside: a.Inside, Inverted: a.Inverted}
		}
	}
	if rapid.IntRange(0, 3).Draw(t, "invb") == 0 {
		b = b.Reversed()
	}
	return loopPair{A: a, B: b}
}

func probesFor(l gen.LoopCase) []s2.Point {
	var out []s2.Point
	n := len(l.V)
	step := 1
	if n > 40 {
		step = n / 40
	}
	for i := 0; i < n; i += step {
		out = append(out, l.V[i].Pt())
		m := gen.Fix(s2.Interpolate(0.5, l.V[i].Pt(), l.V[(i+1)%n].Pt()), l.V[i].Pt())
		out = append(out, m)
	}
	out = append(out, l.Inside.Pt())
	return out
}

func checkLaws(c loopPair) ev.Outcome {
	o := ev.Outcome{}
	a, b := c.A.Loop(), c.B.Loop()
	if a.Validate() != nil || b.Validate() != nil {
		o.Skip = true
		return o
	}
	ac, bc := c.A.Reversed().Loop(), c.B.Reversed().Loop() // complements as fresh loops
	na, nb := len(c.A.V), len(c.B.V)
	o.NonTrivial = na > 32 && nb > 32 && indexCells(a) >= 2 && indexCells(b) >= 2
	fc := findingFor(na, nb)
	aCb, bCa := a.Contains(b), b.Contains(a)
	aIb, bIa := a.Intersects(b), b.Intersects(a)
	o.Class = fmt.Sprintf("%s-%s/A⊇B=%v/B⊇A=%v/∩=%v/%s", c.A.Kind, c.B.Kind, aCb, bCa, aIb, fc)
	fail := func(format string, args ...any) ev.Outcome {
		o.Err = fmt.Sprintf(format, args...)
		o.Finding = fc
		return o
	}
	if aIb != bIa {
		return fail("Intersects not symmetric: A∩B=%v B∩A=%v", aIb, bIa)
	}
	if !a.Contains(a) || !b.Contains(b) {
		return fail("a loop does not contain itself")
	}
	if !a.Intersects(a) || !b.Intersects(b) {
		return fail("a non-empty loop does not intersect itself")
	}
	// A intersects B iff complement(A) does not contain B
	if g := ac.Contains(b); g == aIb {
		return fail("A.Intersects(B)=%v but A'.Contains(B)=%v", aIb, g)
	}
	// A contains B iff B' contains A'
	if g := bc.Contains(ac); g != aCb {
		return fail("A.Contains(B)=%v but B'.Contains(A')=%v", aCb, g)
	}
	// A ⊇ B  ⇒  A ∩ B ≠ ∅ (B non-empty), and A' ∩ B = ∅
	if aCb && !aIb {
		return fail("A contains B but does not intersect it")
	}
	if aCb && ac.Intersects(b) {
		return fail("A contains B but A' intersects B")
	}
	// Invert() gives the same answers as fresh reversed loops
	ai := c.A.Loop()
	ai.Invert()
	if g := ai.Contains(b); g != ac.Contains(b) {
		return fail("Invert()ed A and fresh reversed A disagree on Contains(B)")
	}
	if g := ai.Intersects(b); g != ac.Intersects(b) {
		return fail("Invert()ed A and fresh reversed A disagree on Intersects(B)")
	}
	// single-loop polygons answer like loops
	pa := s2.PolygonFromOrientedLoops([]*s2.Loop{c.A.Loop()})
	pb := s2.PolygonFromOrientedLoops([]*s2.Loop{c.B.Loop()})
	if g := pa.Contains(pb); g != aCb {
		o.Err = fmt.Sprintf("single-loop Polygon.Contains=%v but Loop.Contains=%v", g, aCb)
		o.Finding = "polygon-" + fc
		return o
	}
	if g := pa.Intersects(pb); g != aIb {
		o.Err = fmt.Sprintf("single-loop Polygon.Intersects=%v but Loop.Intersects=%v", g, aIb)
		o.Finding = "polygon-" + fc
		return o
	}
	// point-sample refutation (one-directional). Probes exactly on the other
	// loop's boundary are skipped only when they are shared vertices/edge points
	// by construction (identical boundaries); otherwise semi-open membership is exact.
	if aCb {
		for _, p := range probesFor(c.B) {
			if b.ContainsPoint(p) && !a.ContainsPoint(p) {
				return fail("A.Contains(B) but point %v is in B and not in A", p)
			}
		}
	}
	if !aIb {
		for _, p := range append(probesFor(c.A), probesFor(c.B)...) {
			if a.ContainsPoint(p) && b.ContainsPoint(p) {
				return fail("A, B reported disjoint but point %v is in both", p)
			}
		}
	}
	return o
}

// ------------------------------------------------------------------ nested/disjoint discs with known relation

type discPair struct {
	R       gen.RingsPolygon // nested rings about one centre: ring k strictly inside ring k-1
	I, J    int              // two ring indices
	InvI    bool
	InvJ    bool
	Far     gen.LoopCase // a loop far away from all rings (disjoint from every ring)
	UseFar  bool
	RotateJ int
}

func genDiscPair(t *rapid.T) discPair {
	maxN := 150
	if ev.Thorough() {
		maxN = 1500
	}
	rp := gen.DrawRings(t, "rp", 4, maxN)
	if len(rp.Rings) < 2 {
		rp = gen.DrawRings(t, "rp2", 4, maxN)
	}
	d := discPair{R: rp}
	k := len(rp.Rings)
	d.I = rapid.IntRange(0, k-1).Draw(t, "i")
	d.J = rapid.IntRange(0, k-1).Draw(t, "j")
	d.InvI = rapid.IntRange(0, 2).Draw(t, "invi") == 0
	d.InvJ = rapid.IntRange(0, 2).Draw(t, "invj") == 0
	d.UseFar = rapid.IntRange(0, 3).Draw(t, "far") == 0
	// far loop: centred at the antipode of the ring centre, radius ≤ 60°; rings have radius ≤ 70°.
	c := rp.Center.Pt()
	d.Far = gen.StarLoopAt(t, "far", s2.Point{Vector: c.Mul(-1)}, maxN, 60*math.Pi/180)
	d.RotateJ = rapid.IntRange(0, 1000).Draw(t, "rotj")
	return d
}

func checkDiscPair(c discPair) ev.Outcome {
	o := ev.Outcome{}
	k := len(c.R.Rings)
	if k == 0 || c.I >= k || c.J >= k {
		o.Skip = true
		return o
	}
	va := c.R.Rings[c.I]
	var vb []gen.P
	// atoms: 0 = outside ring 0, a = between ring a-1 and ring a, k = inside ring k-1, k+1.. = far loop interior
	// membership of a disc "inside ring r": atoms > r (excluding far atom), far loop: only atom far.
	const far = 1 << 20
	memA := func(atom int) bool { in := atom != far && atom > c.I; return in != c.InvI }
	var memB func(atom int) bool
	if c.UseFar {
		vb = c.Far.V
		memB = func(atom int) bool { in := atom == far; return in != c.InvJ }
	} else {
		vb = c.R.Rings[c.J]
		if n := len(vb); n > 0 {
			r := c.RotateJ % n
			vb = append(append([]gen.P{}, vb[r:]...), vb[:r]...)
		}
		memB = func(atom int) bool { in := atom != far && atom > c.J; return in != c.InvJ }
	}
	if c.InvI {
		va = rev(va)
	}
	if c.InvJ {
		vb = rev(vb)
	}
	a, b := loopOf(va), loopOf(vb)
	if a.Validate() != nil || b.Validate() != nil {
		o.Skip = true
		return o
	}
	wantContains, wantIntersects := true, false
	atoms := []int{far}
	for x := 0; x <= k; x++ {
		atoms = append(atoms, x)
	}
	for _, x := range atoms {
		if memB(x) && !memA(x) {
			wantContains = false
		}
		if memA(x) && memB(x) {
			wantIntersects = true
		}
	}
	na, nb := len(va), len(vb)
	o.NonTrivial = na > 32 && nb > 32 && indexCells(a) >= 2 && indexCells(b) >= 2
	fc := findingFor(na, nb)
	o.Class = fmt.Sprintf("far=%v/same=%v/inv=%v,%v/contains=%v/intersects=%v/%s", c.UseFar, !c.UseFar && c.I == c.J, c.InvI, c.InvJ, wantContains, wantIntersects, fc)
	if g := a.Contains(b); g != wantContains {
		o.Err = fmt.Sprintf("Loop.Contains=%v, construction truth=%v (rings %d,%d of %d, far=%v, inv=%v,%v, n=%d,%d)", g, wantContains, c.I, c.J, k, c.UseFar, c.InvI, c.InvJ, na, nb)
		o.Finding = fc
		return o
	}
	if g := a.Intersects(b); g != wantIntersects {
		o.Err = fmt.Sprintf("Loop.Intersects=%v, construction truth=%v (rings %d,%d of %d, far=%v, inv=%v,%v, n=%d,%d)", g, wantIntersects, c.I, c.J, k, c.UseFar, c.InvI, c.InvJ, na, nb)
		o.Finding = fc
		return o
	}
	return o
}

// ------------------------------------------------------------------ polygons with holes: nesting and relations

type ringPolys struct {
	R      gen.RingsPolygon
	SA, SB []bool // subsets of rings forming polygons A and B
	Perm   []int  // input order shuffle for A
}

func genRingPolys(t *rapid.T) ringPolys {
	maxN := 40
	if ev.Thorough() {
		maxN = 300
	}
	maxRings := 5
	if rapid.IntRange(0, 7).Draw(t, "many") == 0 {
		maxRings = 15
		maxN = 10
	}
	rp := gen.DrawRings(t, "rp", maxRings, maxN)
	if rapid.IntRange(0, 5).Draw(t, "hug") == 0 {
		// shell of long edges + a hole one edge of which lies along a shell edge
		if rapid.Bool().Draw(t, "band") {
			// ... the shell being a band more than 180 degrees of longitude wide
			if h, ok := gen.HugBand(t, "hb"); ok {
				rp = h
			}
		} else if h, ok := gen.HugRings(t, "h", gen.SpecialCenter(t, "hc"), rapid.Float64Range(0.05, 0.6).Draw(t, "hugr")); ok {
			rp = h
		}
	}
	k := len(rp.Rings)
	c := ringPolys{R: rp}
	for i := 0; i < k; i++ {
		c.SA = append(c.SA, rapid.IntRange(0, 3).Draw(t, "sa") != 0)
		c.SB = append(c.SB, rapid.Bool().Draw(t, "sb"))
	}
	c.Perm = rapid.Permutation(seq(k)).Draw(t, "perm")
	return c
}

func seq(n int) []int {
	out := make([]int, n)
	for i := range out {
		out[i] = i
	}
	return out
}

func checkRingPolys(c ringPolys) ev.Outcome {
	o := ev.Outcome{}
	k := len(c.R.Rings)
	build := func(sel []bool, perm []int) (*s2.Polygon, []int) {
		var loops []*s2.Loop
		var which []int
		for _, idx := range perm {
			if idx < len(sel) && sel[idx] {
				loops = append(loops, loopOf(c.R.Rings[idx]))
				which = append(which, idx)
			}
		}
		if len(loops) == 0 {
			return nil, nil
		}
		return s2.PolygonFromLoops(loops), which
	}
	pa, _ := build(c.SA, c.Perm)
	pb, _ := build(c.SB, seq(k))
	if pa == nil || pb == nil {
		o.Skip = true
		return o
	}
	if ea, eb := pa.Validate(), pb.Validate(); ea != nil || eb != nil {
		if constructionValid([]gen.RingsPolygon{c.R}, func(_, i int) bool { return ea != nil && c.SA[i] || ea == nil && c.SB[i] }) {
			o.Err = fmt.Sprintf("Polygon.Validate rejects a polygon whose rings are exactly non-crossing and properly nested: %v %v", ea, eb)
			o.Finding = "nesting"
			o.NonTrivial = true
			return o
		}
		o.Skip = true
		return o
	}
	// nesting of A: selected rings sorted by index are nested; the m-th selected ring has depth m.
	var selA []int
	for i, s := range c.SA {
		if s {
			selA = append(selA, i)
		}
	}
	if pa.NumLoops() != len(selA) {
		o.Err = fmt.Sprintf("polygon has %d loops, %d were given", pa.NumLoops(), len(selA))
		return o
	}
	// identify each polygon loop by its first vertex set membership
	ringOf := func(l *s2.Loop) int {
		for _, idx := range selA {
			for _, v := range c.R.Rings[idx] {
				if v.Pt() == l.Vertex(0) {
					return idx
				}
			}
		}
		return -1
	}
	nv := 0
	for m := 0; m < pa.NumLoops(); m++ {
		l := pa.Loop(m)
		nv += l.NumVertices()
		idx := ringOf(l)
		depth := -1
		for d, s := range selA {
			if s == idx {
				depth = d
			}
		}
		if depth < 0 {
			o.Err = "polygon loop not among the input rings"
			return o
		}
		if l.IsHole() != (depth%2 == 1) {
			o.Err = fmt.Sprintf("ring %d is enclosed by %d other loops but IsHole=%v (input order %v)", idx, depth, l.IsHole(), c.Perm)
			o.Finding = "nesting"
			return o
		}
		if par, ok := pa.Parent(m); depth == 0 && ok || depth > 0 && (!ok || ringOf(pa.Loop(par)) != selA[depth-1]) {
			o.Err = fmt.Sprintf("ring %d (depth %d): Parent() inconsistent with the nesting (input order %v)", idx, depth, c.Perm)
			o.Finding = "nesting"
			return o
		}
	}
	// relations by atoms: atom x (0..k) lies inside rings 0..x-1.
	mem := func(sel []bool, x int) bool {
		n := 0
		for r := 0; r < x && r < len(sel); r++ {
			if sel[r] {
				n++
			}
		}
		return n%2 == 1
	}
	wantContains, wantIntersects := true, false
	for x := 0; x <= k; x++ {
		ma, mb := mem(c.SA, x), mem(c.SB, x)
		if mb && !ma {
			wantContains = false
		}
		if ma && mb {
			wantIntersects = true
		}
	}
	o.Class = fmt.Sprintf("loops=%d,%d/contains=%v/intersects=%v", pa.NumLoops(), pb.NumLoops(), wantContains, wantIntersects)
	o.NonTrivial = pa.NumLoops() >= 2 && pb.NumLoops() >= 1 && nv > 32
	if g := pa.Contains(pb); g != wantContains {
		o.Err = fmt.Sprintf("Polygon.Contains=%v, band truth=%v (A rings %v, B rings %v)", g, wantContains, c.SA, c.SB)
		o.Finding = "polygon-relation"
		return o
	}
	if g := pa.Intersects(pb); g != wantIntersects {
		o.Err = fmt.Sprintf("Polygon.Intersects=%v, band truth=%v (A rings %v, B rings %v)", g, wantIntersects, c.SA, c.SB)
		o.Finding = "polygon-relation"
		return o
	}
	if g := pb.Intersects(pa); g != wantIntersects {
		o.Err = fmt.Sprintf("Polygon.Intersects not symmetric")
		o.Finding = "polygon-relation"
		return o
	}
	if !pa.Contains(pa) || (!pa.IsEmpty() && !pa.Intersects(pa)) {
		o.Err = "polygon does not contain/intersect itself"
		o.Finding = "polygon-relation"
		return o
	}
	// A loop OBJECT that was a hole of A, handed alone to PolygonFromLoops, is the
	// only shell of the new polygon: the disc of its ring (atoms x > ring index).
	// (A is not used any more after this.)
	for m := 0; m < pa.NumLoops(); m++ {
		hl := pa.Loop(m)
		if !hl.IsHole() {
			continue
		}
		r := ringOf(hl)
		q := s2.PolygonFromLoops([]*s2.Loop{hl})
		if err := q.Validate(); err != nil || q.NumLoops() != 1 || q.Loop(0).IsHole() {
			o.Err = fmt.Sprintf("single-loop polygon built from a loop that was a hole before: Validate=%v loops=%d IsHole=%v", err, q.NumLoops(), q.NumLoops() == 1 && q.Loop(0).IsHole())
			o.Finding = "polygon-reused-loop"
			return o
		}
		wc, wi := true, false
		for x := 0; x <= k; x++ {
			mq, mb := x > r, mem(c.SB, x)
			if mb && !mq {
				wc = false
			}
			if mq && mb {
				wi = true
			}
		}
		if g, h, i := q.Contains(pb), q.Intersects(pb), pb.Intersects(q); g != wc || h != wi || i != wi {
			o.Err = fmt.Sprintf("polygon of the former hole ring %d vs B: Contains=%v (truth %v) Intersects=%v / %v (truth %v)", r, g, wc, h, i, wi)
			o.Finding = "polygon-reused-loop"
			return o
		}
		if !q.ContainsPoint(c.R.Center.Pt()) {
			o.Err = "polygon of a former hole ring does not contain the common centre"
			o.Finding = "polygon-reused-loop"
			return o
		}
		break
	}
	return o
}

// ------------------------------------------------------------------ multi-shell polygons, complements

// families: up to 3 ring families about far-apart centres (distinct cube face
// centres, radius ≤ 25°), so a polygon can have several top-level shells.
type multiPolys struct {
	F          []gen.RingsPolygon
	SA, SB     [][]bool // per family, per ring: selected for A / B
	Perm       []int    // input order of A's loops (index into the flattened selection)
	InvA, InvB bool     // complement via Polygon.Invert()
	Oriented   bool     // build A with PolygonFromOrientedLoops (holes given clockwise)
}

func genMultiPolys(t *rapid.T) multiPolys {
	maxN := 24
	if ev.Thorough() {
		maxN = 120
	}
	nf := rapid.IntRange(1, 3).Draw(t, "families")
	faces := rapid.Permutation([]int{0, 1, 2, 3, 4, 5}).Draw(t, "faces")
	if rapid.Bool().Draw(t, "pole") {
		// make sure a family sits on the north pole, next to s2.OriginPoint(),
		// in a drawn position of the input order
		k := rapid.IntRange(0, nf-1).Draw(t, "polepos")
		for i, f := range faces {
			if f == 2 {
				faces[i], faces[k] = faces[k], faces[i]
			}
		}
	}
	c := multiPolys{Oriented: rapid.Bool().Draw(t, "oriented")}
	total := 0
	for f := 0; f < nf; f++ {
		centre := s2.Point{Vector: gen.FaceUVToXYZ(faces[f], 0, 0)}
		k := rapid.IntRange(1, 3).Draw(t, "rings")
		rp := gen.DrawRingsAt(t, fmt.Sprintf("f%d", f), centre, k, maxN, 25*math.Pi/180)
		if rapid.IntRange(0, 3).Draw(t, "hug") == 0 {
			// a shell of long edges and a hole one edge of which lies along a shell
			// edge (strictly inside, within rounding): bounds differ by rounding only
			if h, ok := gen.HugRings(t, fmt.Sprintf("h%d", f), centre, rapid.Float64Range(0.05, 0.4).Draw(t, "hugr")); ok {
				rp, k = h, 2
			}
		}
		c.F = append(c.F, rp)
		var sa, sb []bool
		for i := 0; i < k; i++ {
			sa = append(sa, rapid.IntRange(0, 3).Draw(t, "sa") != 0)
			sb = append(sb, rapid.Bool().Draw(t, "sb"))
			total++
		}
		c.SA, c.SB = append(c.SA, sa), append(c.SB, sb)
	}
	c.Perm = rapid.Permutation(seq(total)).Draw(t, "perm")
	c.InvA = rapid.IntRange(0, 2).Draw(t, "inva") == 0
	c.InvB = rapid.IntRange(0, 2).Draw(t, "invb") == 0
	return c
}

func checkMultiPolys(c multiPolys) ev.Outcome {
	o := ev.Outcome{}
	build := func(sel [][]bool, perm []int) *s2.Polygon {
		var flat []*s2.Loop
		oriented := c.Oriented && perm != nil // only A is built from oriented loops
		for f, rp := range c.F {
			depth := 0
			for i, ring := range rp.Rings {
				if f < len(sel) && i < len(sel[f]) && sel[f][i] {
					if oriented && depth%2 == 1 {
						flat = append(flat, loopOf(rev(ring))) // a hole: clockwise
					} else {
						flat = append(flat, loopOf(ring))
					}
					depth++
				}
			}
		}
		if len(flat) == 0 {
			return nil
		}
		var loops []*s2.Loop
		if perm != nil {
			used := map[int]bool{}
			for _, k := range perm {
				if k < len(flat) && !used[k] {
					used[k] = true
					loops = append(loops, flat[k])
				}
			}
			for k := range flat {
				if !used[k] {
					loops = append(loops, flat[k])
				}
			}
		} else {
			loops = flat
		}
		if oriented {
			return s2.PolygonFromOrientedLoops(loops)
		}
		return s2.PolygonFromLoops(loops)
	}
	pa, pb := build(c.SA, c.Perm), build(c.SB, nil)
	if pa == nil || pb == nil {
		o.Skip = true
		return o
	}
	if ea, eb := pa.Validate(), pb.Validate(); ea != nil || eb != nil {
		sel := c.SA
		if ea == nil {
			sel = c.SB
		}
		if constructionValid(c.F, func(f, i int) bool { return f < len(sel) && i < len(sel[f]) && sel[f][i] }) {
			o.Err = fmt.Sprintf("Polygon.Validate rejects a polygon whose rings are exactly non-crossing and properly nested: %v %v", ea, eb)
			o.Finding = "polygon-nesting"
			o.NonTrivial = true
			return o
		}
		o.Skip = true
		return o
	}
	shellsA := 0
	for k := 0; k < pa.NumLoops(); k++ {
		if _, ok := pa.Parent(k); !ok {
			shellsA++
		}
	}
	if c.InvA {
		pa.Invert()
	}
	if c.InvB {
		pb.Invert()
	}
	// atoms: (family f, band x) for x = 1..k_f (inside rings 0..x-1 of family f), plus the rest of the sphere.
	memSel := func(sel [][]bool, f, x int) bool {
		n := 0
		for r := 0; r < x && r < len(sel[f]); r++ {
			if sel[f][r] {
				n++
			}
		}
		return n%2 == 1
	}
	wantContains, wantIntersects := true, false
	consider := func(ma, mb bool) {
		ma, mb = ma != c.InvA, mb != c.InvB
		if mb && !ma {
			wantContains = false
		}
		if ma && mb {
			wantIntersects = true
		}
	}
	consider(false, false) // the rest of the sphere
	for f, rp := range c.F {
		for x := 1; x <= len(rp.Rings); x++ {
			consider(memSel(c.SA, f, x), memSel(c.SB, f, x))
		}
	}
	o.Class = fmt.Sprintf("families=%d/shellsA=%d/oriented=%v/inv=%v,%v/contains=%v/intersects=%v", len(c.F), shellsA, c.Oriented, c.InvA, c.InvB, wantContains, wantIntersects)
	o.NonTrivial = shellsA >= 2 || c.InvA || c.InvB
	// membership of the known atom centres after inversion (centre of family f is in band k_f)
	for f, rp := range c.F {
		k := len(rp.Rings)
		want := memSel(c.SA, f, k) != c.InvA
		if got := pa.ContainsPoint(rp.Center.Pt()); got != want {
			o.Err = fmt.Sprintf("A (inverted=%v) ContainsPoint(centre of family %d)=%v, band truth=%v", c.InvA, f, got, want)
			o.Finding = "polygon-invert"
			return o
		}
	}
	if g := pa.Contains(pb); g != wantContains {
		o.Err = fmt.Sprintf("Polygon.Contains=%v, band truth=%v (%s)", g, wantContains, o.Class)
		o.Finding = "polygon-relation"
		return o
	}
	if g := pa.Intersects(pb); g != wantIntersects {
		o.Err = fmt.Sprintf("Polygon.Intersects=%v, band truth=%v (%s)", g, wantIntersects, o.Class)
		o.Finding = "polygon-relation"
		return o
	}
	if g := pb.Intersects(pa); g != wantIntersects {
		o.Err = "Polygon.Intersects not symmetric"
		o.Finding = "polygon-relation"
		return o
	}
	// laws with complements:  A∩B ⇔ ¬(A'⊇B);  A⊇B ⇔ B'⊇A'
	ac, bc := build(c.SA, c.Perm), build(c.SB, nil)
	if !c.InvA {
		ac.Invert()
	}
	if !c.InvB {
		bc.Invert()
	}
	if g := ac.Contains(pb); g == wantIntersects {
		o.Err = fmt.Sprintf("A.Intersects(B)=%v but A'.Contains(B)=%v", wantIntersects, g)
		o.Finding = "polygon-relation"
		return o
	}
	if g := bc.Contains(ac); g != wantContains {
		o.Err = fmt.Sprintf("A.Contains(B)=%v but B'.Contains(A')=%v", wantContains, g)
		o.Finding = "polygon-relation"
		return o
	}
	// double inversion restores the polygon's answers
	twice := build(c.SA, c.Perm)
	twice.Invert()
	twice.Invert()
	if c.InvA {
		twice.Invert()
	}
	if g := twice.Contains(pb); g != wantContains {
		o.Err = "inverting A twice changes Contains"
		o.Finding = "polygon-invert"
		return o
	}
	return o
}

func init() {
	ev.Define("lattice_pairs", ev.Options{
		Rule:  "two lattice rectangles on one face grid (levels 1..6; random, nested sharing sides, adjacent sharing a side, touching at a corner, equal), each optionally complemented, boundaries with a vertex at every grid point (4..256 vertices); truth = set algebra on the grid-cell atoms + the atom 'rest of the sphere'; Loop.Contains/Intersects (both orders) and single-loop Polygon. Non-trivial: both loops > 32 vertices and both indexes ≥ 2 cells.",
		Quick: 36000, Thorough: 500000}, genLatticePair, checkLatticePair)
	ev.Define("loop_laws", ev.Options{
		Rule:  "arbitrary valid loop pairs (independent, about nearly the same centre, sharing a vertex, identical boundary incl. rotated start; 1/4 complemented; 3..200 vertices, thorough 2000): Intersects symmetric; self containment/intersection; A∩B ⇔ ¬(A'⊇B); A⊇B ⇔ B'⊇A' with complements as fresh reversed loops and via Invert(); single-loop polygons; one-directional point refutation with vertices/edge midpoints/known interior points. Non-trivial: both > 32 vertices and multi-cell indexes.",
		Quick: 18000, Thorough: 200000}, genLoopPair, checkLaws)
	ev.Define("disc_pairs", ev.Options{
		Rule:  "two rings of a family of strictly nested star rings about one centre (or one ring and a far-away loop about the antipode), each optionally complemented, one with rotated start vertex; truth = band atoms from the construction. Non-trivial: both > 32 vertices and multi-cell indexes (the path the unit tests never reach).",
		Quick: 36000, Thorough: 400000}, genDiscPair, checkDiscPair)
	ev.Define("polygon_multi", ev.Options{
		Rule:  "polygons assembled from shuffled subsets of 1..3 families of strictly nested rings about distinct cube-face centres (several top-level shells, holes, islands; a quarter of the families is a shell of 4..8 long edges and a triangular hole one edge of which lies strictly inside but within rounding of a shell edge; Validate rejections are decided the same way as in polygon_rings), each polygon optionally complemented with Polygon.Invert(); truth = set algebra on band atoms + the rest of the sphere; Contains/Intersects (symmetric), the complement laws with Invert()ed copies, double inversion, ContainsPoint at the family centres. Non-trivial: A has ≥ 2 top-level shells or a polygon is complemented.",
		Quick: 24000, Thorough: 300000}, genMultiPolys, checkMultiPolys)
	ev.Define("polygon_rings", ev.Options{
		Rule:  "polygons assembled by PolygonFromLoops from shuffled subsets of up to 5 (1 in 8: 15) strictly nested rings (1 in 6: a shell of 4..8 long edges - or a band between two parallels more than 180 degrees of longitude wide - and a triangular hole one edge of which lies strictly inside but within rounding of a shell edge); a polygon that Validate rejects is reported when exact predicates confirm the rings are non-crossing and properly nested, skipped otherwise: IsHole ⇔ odd number of enclosing input loops, Parent() = next enclosing selected ring; Polygon.Contains/Intersects between two such polygons = set algebra on band atoms (shared rings are bit-identical boundaries). Non-trivial: A has ≥ 2 loops and > 32 vertices.",
		Quick: 24000, Thorough: 300000}, genRingPolys, checkRingPolys)
}
