package c07

import (
	"github.com/golang/geo/r3"

	"verifharness/internal/exact"
	"verifharness/internal/gen"
)

// constructionValid decides with exact predicates whether the selected rings of
// the families really are what the generator means them to be: boundaries that
// neither cross nor touch, ring i+1 of a family inside ring i, rings of
// different families outside each other. It is consulted only when
// Polygon.Validate rejects a polygon built from them: if the construction is
// exactly valid, the rejection is the library's nesting decision going wrong,
// not a generator accident, and is reported instead of skipped.
// Each ring is star-shaped about its family centre (that is the construction),
// so the centre is inside every ring of its family.
func constructionValid(fams []gen.RingsPolygon, selected func(f, i int) bool) bool {
	type ring struct {
		f, i int
		v    []r3.Vector
		c    r3.Vector
	}
	var rs []ring
	for f, rp := range fams {
		for i, r := range rp.Rings {
			if selected(f, i) {
				v := make([]r3.Vector, len(r))
				for k, p := range r {
					v[k] = p.Pt().Vector
				}
				if len(v) < 3 {
					return false
				}
				rs = append(rs, ring{f, i, v, rp.Center.Pt().Vector})
			}
		}
	}
	for x := 0; x < len(rs); x++ {
		for y := x + 1; y < len(rs); y++ {
			a, b := rs[x], rs[y]
			for i := range a.v {
				for j := range b.v {
					if exact.CrossingSign(a.v[i], a.v[(i+1)%len(a.v)], b.v[j], b.v[(j+1)%len(b.v)]) != exact.XDoNotCross {
						return false
					}
				}
			}
			// boundaries are disjoint: one vertex decides the relation
			bInA := exact.ParityContains([][]r3.Vector{a.v}, a.c, true, b.v[0])
			aInB := exact.ParityContains([][]r3.Vector{b.v}, b.c, true, a.v[0])
			if a.f == b.f {
				// same family: the later ring is inside the earlier one
				if !bInA || aInB {
					return false
				}
			} else if bInA || aInB {
				return false
			}
		}
	}
	return true
}
