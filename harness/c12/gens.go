package c12

import (
	"fmt"
	"math"

	"github.com/golang/geo/r3"
	"github.com/golang/geo/s2"
	"pgregory.net/rapid"

	"verifharness/internal/gen"
)

func pow10(t *rapid.T, label string, lo, hi float64) float64 {
	return math.Pow(10, rapid.Float64Range(lo, hi).Draw(t, label))
}

func sign(t *rapid.T, label string) float64 {
	return float64(rapid.SampledFrom([]int{-1, 1}).Draw(t, label))
}

func fromUV(face int, u, v float64) s2.Point {
	return s2.Point{Vector: gen.FaceUVToXYZ(face, u, v).Normalize()}
}

func safeNorm(v r3.Vector, fallback s2.Point) s2.Point {
	n := v.Norm2()
	if n == 0 || math.IsNaN(n) || math.IsInf(n, 0) {
		return fallback
	}
	return s2.Point{Vector: v.Normalize()}
}

// along draws a coordinate on [lo,hi]: an endpoint, the middle, inside, or beyond.
func along(t *rapid.T, label string, lo, hi float64) float64 {
	switch rapid.IntRange(0, 5).Draw(t, label+".k") {
	case 0:
		return lo
	case 1:
		return hi
	case 2:
		return lo + 0.5*(hi-lo)
	case 3:
		return lo + rapid.Float64Range(-1.5, 2.5).Draw(t, label+".f")*(hi-lo)
	case 4:
		// just beyond / before an endpoint
		e := pow10(t, label+".e", -17, -1) * sign(t, label+".s")
		if rapid.Bool().Draw(t, label+".abs") {
			e *= (hi - lo)
		}
		if rapid.Bool().Draw(t, label+".end") {
			return hi + e
		}
		return lo + e
	default:
		return lo + rapid.Float64Range(0, 1).Draw(t, label+".g")*(hi-lo)
	}
}

// genNear draws a unit point placed relative to the cell: inside, on a side, at
// a vertex, outside at a log-uniform offset from a side, on the boundary
// between "closest to side interior" and "closest to vertex", at the pole of a
// side's great circle (90° from the side), at 90° from a vertex or the centre,
// unrelated; optionally mapped to the antipode and perturbed by ulps.
func genNear(t *rapid.T, l string, id s2.CellID) s2.Point {
	c := s2.CellFromCellID(id)
	b := c.BoundUV()
	f := c.Face()
	du, dv := b.X.Hi-b.X.Lo, b.Y.Hi-b.Y.Lo
	center := c.Center()
	var p s2.Point
	switch rapid.IntRange(0, 11).Draw(t, l+".mode") {
	case 0: // inside
		u := b.X.Lo + rapid.Float64Range(0, 1).Draw(t, l+".fu")*du
		v := b.Y.Lo + rapid.Float64Range(0, 1).Draw(t, l+".fv")*dv
		p = fromUV(f, u, v)
	case 1: // exactly on a side's u or v value
		if rapid.Bool().Draw(t, l+".uside") {
			u := rapid.SampledFrom([]float64{b.X.Lo, b.X.Hi}).Draw(t, l+".u")
			p = fromUV(f, u, along(t, l+".v", b.Y.Lo, b.Y.Hi))
		} else {
			v := rapid.SampledFrom([]float64{b.Y.Lo, b.Y.Hi}).Draw(t, l+".v")
			p = fromUV(f, along(t, l+".u", b.X.Lo, b.X.Hi), v)
		}
	case 2: // vertex ± ulps
		p = c.Vertex(rapid.IntRange(0, 3).Draw(t, l+".vk"))
		p = gen.Perturb(t, l+".vp", p, 3)
	case 3, 4, 5: // outside (or inside) at a log-uniform offset from a side
		d := pow10(t, l+".off", -17, 0.5)
		if rapid.Bool().Draw(t, l+".rel") {
			d *= math.Max(du, dv)
		}
		if rapid.IntRange(0, 5).Draw(t, l+".inward") == 0 {
			d = -d
		}
		switch rapid.IntRange(0, 3).Draw(t, l+".side") {
		case 0:
			p = fromUV(f, along(t, l+".a", b.X.Lo, b.X.Hi), b.Y.Lo-d)
		case 1:
			p = fromUV(f, b.X.Hi+d, along(t, l+".a", b.Y.Lo, b.Y.Hi))
		case 2:
			p = fromUV(f, along(t, l+".a", b.X.Lo, b.X.Hi), b.Y.Hi+d)
		default:
			p = fromUV(f, b.X.Lo-d, along(t, l+".a", b.Y.Lo, b.Y.Hi))
		}
	case 6: // on the plane through a vertex perpendicular to a side (closest-feature switch)
		k := rapid.IntRange(0, 3).Draw(t, l+".k")
		v0, v1 := c.Vertex(k), c.Vertex((k+1)&3)
		v := v0
		if rapid.Bool().Draw(t, l+".end") {
			v = v1
		}
		out := c.Edge(k).Mul(-1)
		th := pow10(t, l+".th", -16, 0.19)
		q := v.Mul(math.Cos(th)).Add(out.Mul(math.Sin(th)))
		dir := v1.Sub(v0.Vector)
		if dir.Norm2() > 0 {
			dir = dir.Normalize()
		}
		if rapid.IntRange(0, 2).Draw(t, l+".slide") > 0 {
			q = q.Add(dir.Mul(sign(t, l+".ss") * pow10(t, l+".sl", -18, -5) * math.Sin(th)))
		}
		p = safeNorm(q, v)
	case 7: // pole of a side's great circle (90° from every point of the side)
		k := rapid.IntRange(0, 3).Draw(t, l+".k")
		n := c.Edge(k).Mul(sign(t, l+".ps"))
		r := r3.Vector{X: rapid.Float64Range(-1, 1).Draw(t, l+".rx"), Y: rapid.Float64Range(-1, 1).Draw(t, l+".ry"), Z: rapid.Float64Range(-1, 1).Draw(t, l+".rz")}
		p = safeNorm(n.Add(r.Mul(pow10(t, l+".pe", -17, -1))), s2.Point{Vector: n})
	case 8: // 90° from a vertex or from the centre
		v := center
		if k := rapid.IntRange(0, 4).Draw(t, l+".ok"); k < 4 {
			v = c.Vertex(k)
		}
		r := gen.Uniform(t, l+".or")
		q := v.Cross(r.Vector)
		p = safeNorm(q, s2.Point{Vector: v.Ortho()})
		if rapid.Bool().Draw(t, l+".otilt") {
			p = safeNorm(p.Add(v.Mul(sign(t, l+".os")*pow10(t, l+".oe", -17, -2))), p)
		}
	case 9: // related to centre / vertices
		p = gen.Related(t, l+".rel", []s2.Point{center, c.Vertex(0), c.Vertex(2)})
	default:
		p = gen.Base(t, l+".base")
	}
	if rapid.IntRange(0, 2).Draw(t, l+".anti") == 0 {
		p = s2.Point{Vector: p.Mul(-1)}
	}
	if rapid.IntRange(0, 3).Draw(t, l+".noise") == 0 {
		p = gen.Perturb(t, l+".np", p, 2)
	}
	return gen.Fix(p, center)
}

type idCase struct {
	ID uint64
}

type ptCase struct {
	ID uint64
	P  gen.P
}

type edgeCase struct {
	ID   uint64
	A, B gen.P
}

type pairCase struct {
	A, B uint64
}

type padCase struct {
	ID      uint64
	Padding float64
}

func genID(t *rapid.T) idCase { return idCase{uint64(gen.CellID(t, "cell"))} }

func genPt(t *rapid.T) ptCase {
	id := gen.CellID(t, "cell")
	return ptCase{uint64(id), gen.FromPt(genNear(t, "p", id))}
}

// genContains: half of the cases take an arbitrary point and an ancestor of
// its leaf cell (the documented CellFromPoint(p).ContainsPoint(p) guarantee).
// genSnapped: a point whose exact ratios (u,v) are within 8 ulps of a boundary
// value of a fine cell (level 22..30); half of them in s,t ∈ [0.2,0.3), where the
// ulp of u is small while du/ds > 2, so that the uv->st->ij round trip of
// cellIDFromPoint is least accurate in ulps of u. The point is the normalised
// exact boundary point with each minor coordinate re-set to fl(ratio·major) ± k ulps.
var ulpSteps = []int{-8, -7, -6, -5, -4, -3, -2, -1, 0, 1, 2, 3, 4, 5, 6, 7, 8}

func genSnapped(t *rapid.T, l string) s2.Point {
	lv := rapid.IntRange(22, 30).Draw(t, l+".lv")
	n := int64(1) << uint(lv)
	lo, hi := int64(0), n
	if rapid.IntRange(0, 3).Draw(t, l+".band") > 0 {
		lo, hi = n/5, 3*n/10
	}
	bound := func(l string) float64 {
		i := rapid.Int64Range(0, hi-lo).Draw(t, l+".i")
		if rapid.Bool().Draw(t, l+".uni") {
			i = int64(rapid.Float64Range(0, 1).Draw(t, l+".f") * float64(hi-lo))
		}
		return gen.STToUV(float64(lo+i) / float64(n))
	}
	u, v := bound(l+".u"), bound(l+".v")
	switch rapid.IntRange(0, 3).Draw(t, l+".free") {
	case 0:
		u = rapid.Float64Range(-1, 1).Draw(t, l+".fu")
	case 1:
		v = rapid.Float64Range(-1, 1).Draw(t, l+".fv")
	}
	face := rapid.IntRange(0, 5).Draw(t, l+".face")
	raw := gen.FaceUVToXYZ(face, u, v)
	q := raw.Normalize()
	rc := [3]float64{raw.X, raw.Y, raw.Z}
	qc := [3]float64{q.X, q.Y, q.Z}
	w := face % 3
	for a := 0; a < 3; a++ {
		if a == w {
			continue
		}
		// uniform over -8..8 (rapid's IntRange favours small magnitudes; the round-off
		// that matters is 4..7 ulps of the coordinate)
		k := rapid.SampledFrom(ulpSteps).Draw(t, fmt.Sprintf("%s.k%d", l, a))
		qc[a] = gen.Ulps(rc[a]*rc[w]*qc[w], k)
	}
	p := s2.Point{Vector: r3.Vector{X: qc[0], Y: qc[1], Z: qc[2]}}
	if gen.Unit(p) {
		return p
	}
	return gen.Fix(s2.Point{Vector: q}, s2.Point{Vector: r3.Vector{X: 1}})
}

func genContains(t *rapid.T) ptCase {
	if rapid.Bool().Draw(t, "fromPoint") {
		var p s2.Point
		if rapid.Bool().Draw(t, "snapped") {
			p = genSnapped(t, "p")
			leaf := s2.CellFromPoint(p).ID()
			lv := 30
			if rapid.Bool().Draw(t, "anc") {
				lv = rapid.IntRange(0, 30).Draw(t, "level")
			}
			return ptCase{uint64(leaf.Parent(lv)), gen.FromPt(p)}
		}
		if rapid.Bool().Draw(t, "cellish") {
			p = genNear(t, "p", gen.CellID(t, "near"))
		} else {
			p = gen.Base(t, "p")
		}
		leaf := s2.CellFromPoint(p).ID()
		return ptCase{uint64(leaf.Parent(rapid.IntRange(0, 30).Draw(t, "level"))), gen.FromPt(p)}
	}
	return genPt(t)
}

func antipodalTooClose(a, b s2.Point) bool { return a.Add(b.Vector).Norm2() < 1e-12 }

func genEdge(t *rapid.T) edgeCase {
	id := gen.CellID(t, "cell")
	c := s2.CellFromCellID(id)
	a := genNear(t, "a", id)
	var b s2.Point
	switch rapid.IntRange(0, 6).Draw(t, "emode") {
	case 0, 1:
		b = genNear(t, "b", id)
	case 2:
		b = gen.Related(t, "b", []s2.Point{a})
	case 3: // through the cell: reflect a through a point of the cell, then rescale
		bu := c.BoundUV()
		m := fromUV(c.Face(), along(t, "mu", bu.X.Lo, bu.X.Hi), along(t, "mv", bu.Y.Lo, bu.Y.Hi))
		r := safeNorm(m.Mul(2*m.Dot(a.Vector)).Sub(a.Vector), m)
		b = r
		if !antipodalTooClose(a, r) && rapid.Bool().Draw(t, "rescale") {
			b = s2.Interpolate(rapid.Float64Range(0, 1.2).Draw(t, "rf"), a, r)
		}
	case 4: // grazing a vertex
		v := c.Vertex(rapid.IntRange(0, 3).Draw(t, "gk"))
		w := safeNorm(v.Cross(gen.Uniform(t, "gw").Vector), s2.Point{Vector: v.Ortho()})
		ta, tb := pow10(t, "gta", -12, 0.3), pow10(t, "gtb", -12, 0.3)
		a = safeNorm(v.Add(w.Mul(ta)), v)
		b = safeNorm(v.Sub(w.Mul(tb)), v)
		if rapid.Bool().Draw(t, "gtilt") {
			o := v.Cross(w.Vector)
			e := sign(t, "gs") * pow10(t, "ge", -18, -6)
			a = safeNorm(a.Add(o.Mul(e)), a)
			b = safeNorm(b.Add(o.Mul(e)), b)
		}
		if rapid.IntRange(0, 3).Draw(t, "ganti") == 0 {
			a, b = s2.Point{Vector: a.Mul(-1)}, s2.Point{Vector: b.Mul(-1)}
		}
	case 5: // along a side's great circle
		k := rapid.IntRange(0, 3).Draw(t, "sk")
		v0, v1 := c.Vertex(k), c.Vertex((k+1)&3)
		a = s2.Interpolate(rapid.Float64Range(-1, 2).Draw(t, "sa"), v0, v1)
		b = s2.Interpolate(rapid.Float64Range(-1, 2).Draw(t, "sb"), v0, v1)
		if rapid.IntRange(0, 3).Draw(t, "santi") == 0 {
			a, b = s2.Point{Vector: a.Mul(-1)}, s2.Point{Vector: b.Mul(-1)}
		}
	default: // degenerate
		b = a
	}
	a = gen.Fix(a, c.Center())
	b = gen.Fix(b, a)
	if antipodalTooClose(a, b) {
		b = a
	}
	return edgeCase{uint64(id), gen.FromPt(a), gen.FromPt(b)}
}

func genPair(t *rapid.T) pairCase {
	a := gen.CellID(t, "a")
	var b s2.CellID
	switch rapid.IntRange(0, 7).Draw(t, "pmode") {
	case 0:
		b = gen.CellID(t, "b")
	case 1: // ancestor or descendant
		l := rapid.IntRange(0, 30).Draw(t, "l")
		if l <= a.Level() {
			b = a.Parent(l)
		} else {
			b = descend(t, "desc", a, l-a.Level())
		}
	case 2: // edge neighbour, possibly refined or coarsened
		b = a.EdgeNeighbors()[rapid.IntRange(0, 3).Draw(t, "nk")]
		b = relevel(t, "nl", b)
	case 3: // any neighbour at a finer level
		l := a.Level() + rapid.IntRange(0, 3).Draw(t, "dl")
		if l > 30 {
			l = 30
		}
		ns := a.AllNeighbors(l)
		if len(ns) == 0 {
			b = a
		} else {
			b = ns[rapid.IntRange(0, len(ns)-1).Draw(t, "ak")]
		}
	case 4, 5: // cell around a point placed relative to a (touching, near, antipodal, ...)
		p := genNear(t, "p", a)
		b = s2.CellFromPoint(p).ID().Parent(rapid.IntRange(0, 30).Draw(t, "pl"))
		if rapid.Bool().Draw(t, "samelevel") {
			b = s2.CellFromPoint(p).ID().Parent(a.Level())
		}
	default: // antipodal cell and its surroundings
		p := s2.Point{Vector: a.Point().Mul(-1)}
		b = s2.CellFromPoint(p).ID().Parent(a.Level())
		switch rapid.IntRange(0, 3).Draw(t, "am") {
		case 0:
		case 1:
			b = b.EdgeNeighbors()[rapid.IntRange(0, 3).Draw(t, "ank")]
		case 2:
			ns := b.AllNeighbors(b.Level())
			if len(ns) > 0 {
				b = ns[rapid.IntRange(0, len(ns)-1).Draw(t, "aak")]
			}
		default:
			b = relevel(t, "arl", b)
		}
	}
	if !b.IsValid() {
		b = a
	}
	return pairCase{uint64(a), uint64(b)}
}

// descend walks depth levels down with a patterned choice of child positions.
func descend(t *rapid.T, l string, b s2.CellID, depth int) s2.CellID {
	k1 := rapid.IntRange(0, 3).Draw(t, l+".k1")
	k2 := rapid.IntRange(0, 3).Draw(t, l+".k2")
	noise := rapid.IntRange(0, 30).Draw(t, l+".noise")
	for d := 0; d < depth && b.Level() < 30; d++ {
		k := k1
		if d%2 == 1 {
			k = k2
		}
		if d == noise {
			k = (k + 1) & 3
		}
		b = b.Children()[k]
	}
	return b
}

// relevel moves to an ancestor or a (corner/edge-hugging) descendant.
func relevel(t *rapid.T, l string, b s2.CellID) s2.CellID {
	d := rapid.IntRange(-3, 4).Draw(t, l+".d")
	for ; d < 0 && b.Level() > 0; d++ {
		b = b.Parent(b.Level() - 1)
	}
	k := rapid.IntRange(0, 3).Draw(t, l+".k")
	for ; d > 0 && b.Level() < 30; d-- {
		b = b.Children()[k]
	}
	return b
}

func genPad(t *rapid.T) padCase {
	id := gen.CellID(t, "cell")
	pad := rapid.SampledFrom([]float64{0, 0x1p-52, 1e-15, 1e-9, 1e-3, 0.1, 0.5}).Draw(t, "pad")
	if rapid.Bool().Draw(t, "padrand") {
		pad = pow10(t, "pade", -16, -0.3)
	}
	return padCase{uint64(id), pad}
}
