package c12

// Independent model of an S2 cell.
//
//  1. Lattice model: the cell id is decoded bit by bit with the *definition* of
//     the S2 Hilbert curve (one level at a time, the 4x4 pos->ij table and the
//     pos->orientation rule), giving face, level, the integer leaf-coordinate
//     square [i0,i0+size]x[j0,j0+size] and the curve orientation.  The library
//     decodes ids with 8-bit lookup tables and a final swap fix-up; nothing of
//     that is used here.
//  2. Exact cell: the (u,v) bounds are the float64 values of the published
//     quadratic st->uv transform at the lattice coordinates; the four corners
//     are the exactly representable vectors faceUVToXYZ(face,u,v); the sides are
//     great-circle arcs between them.  Membership of a float64 point is decided
//     exactly (products of two float64 compared at 320 bits are exact).
//  3. Distances from points / edges / cells to that exact cell are evaluated
//     with 320-bit big.Float (internal/hp) as squared chord lengths.

import (
	"math"
	"math/big"
	"math/bits"

	"github.com/golang/geo/r3"

	"verifharness/internal/gen"
	"verifharness/internal/hp"
)

const eps = 0x1p-52

// Definition of the S2 Hilbert curve (s2 documentation: canonical order
// (0,0),(0,1),(1,1),(1,0); axes swapped; bits inverted; swapped & inverted).
var mPosToIJ = [4][4]int{
	{0, 1, 3, 2},
	{0, 2, 3, 1},
	{3, 2, 0, 1},
	{3, 1, 0, 2},
}

const (
	mSwap   = 1
	mInvert = 2
)

var mPosToOrient = [4]int{mSwap, 0, 0, mInvert | mSwap}

type mcell struct {
	face, level  int
	i0, j0, size int // leaf coordinates of the lower-left corner, edge length 2^(30-level)
	orient       int
	u, v         [2]float64
}

func validID(id uint64) bool {
	if id>>61 > 5 {
		return false
	}
	lsb := id & -id
	return lsb != 0 && lsb&0x1555555555555555 != 0
}

func levelOf(id uint64) int { return 30 - bits.TrailingZeros64(id)/2 }

func childPos(id uint64, level int) int { return int(id>>uint(2*(30-level)+1)) & 3 }

// mSTtoUV is the published quadratic transform.
func mSTtoUV(s float64) float64 {
	if s >= 0.5 {
		return (1 / 3.) * (4*s*s - 1)
	}
	return (1 / 3.) * (1 - 4*(1-s)*(1-s))
}

func latticeUV(i int) float64 { return mSTtoUV(float64(i) / (1 << 30)) }

func modelCell(id uint64) mcell {
	face := int(id >> 61)
	level := levelOf(id)
	orient := face & mSwap
	i, j := 0, 0
	for l := 1; l <= level; l++ {
		ij := mPosToIJ[orient][childPos(id, l)]
		i = i<<1 | ij>>1
		j = j<<1 | ij&1
		orient ^= mPosToOrient[childPos(id, l)]
	}
	size := 1 << uint(30-level)
	m := mcell{face: face, level: level, i0: i * size, j0: j * size, size: size, orient: orient}
	m.u = [2]float64{latticeUV(m.i0), latticeUV(m.i0 + size)}
	m.v = [2]float64{latticeUV(m.j0), latticeUV(m.j0 + size)}
	return m
}

// cornerUV returns the (u,v) of corner k in CCW order (k = 0..3).
func (m mcell) cornerUV(k int) (float64, float64) {
	switch k & 3 {
	case 0:
		return m.u[0], m.v[0]
	case 1:
		return m.u[1], m.v[0]
	case 2:
		return m.u[1], m.v[1]
	}
	return m.u[0], m.v[1]
}

// cubeBox returns the integer axis-aligned box of the cell on the cube
// [-2^30,2^30]^3 (linear st coordinates; the st->uv transform is a coordinate-wise
// odd monotone bijection, so contact of cells on the sphere is contact of these boxes).
func (m mcell) cubeBox() (lo, hi [3]int64) {
	const M = 1 << 30
	corner := func(i, j int) [3]int64 {
		v := gen.FaceUVToXYZ(m.face, float64(2*i-M), float64(2*j-M))
		// FaceUVToXYZ puts ±1 on the face axis; scale it to ±M.
		w := gen.FaceUVToXYZ(m.face, 0, 0)
		return [3]int64{int64(v.X + w.X*(M-1)), int64(v.Y + w.Y*(M-1)), int64(v.Z + w.Z*(M-1))}
	}
	a := corner(m.i0, m.j0)
	b := corner(m.i0+m.size, m.j0+m.size)
	for k := 0; k < 3; k++ {
		lo[k], hi[k] = a[k], b[k]
		if lo[k] > hi[k] {
			lo[k], hi[k] = hi[k], lo[k]
		}
	}
	return
}

func boxesMeet(alo, ahi, blo, bhi [3]int64) bool {
	for k := 0; k < 3; k++ {
		if ahi[k] < blo[k] || bhi[k] < alo[k] {
			return false
		}
	}
	return true
}

func negBox(lo, hi [3]int64) (nlo, nhi [3]int64) {
	for k := 0; k < 3; k++ {
		nlo[k], nhi[k] = -hi[k], -lo[k]
	}
	return
}

// ---------------------------------------------------------------------------

type hv = hp.V

func neg(a hv) hv { return hv{hp.Neg(a[0]), hp.Neg(a[1]), hp.Neg(a[2])} }

// quad is a spherical convex quadrilateral given by unit corners in CCW order
// (seen from outside the sphere) with inward side normals n[k] = c[k] x c[k+1].
type quad struct {
	c  [4]hv
	n  [4]hv
	nn [4]*big.Float
}

func makeQuad(c [4]hv) quad {
	q := quad{c: c}
	for k := 0; k < 4; k++ {
		q.n[k] = c[k].Cross(c[(k+1)&3])
		q.nn[k] = q.n[k].Norm()
	}
	return q
}

// antipode returns the antipodal quadrilateral (corner order reversed so that
// the normals stay inward).
func (q quad) antipode() quad {
	return makeQuad([4]hv{neg(q.c[3]), neg(q.c[2]), neg(q.c[1]), neg(q.c[0])})
}

type geom struct {
	m       mcell
	U, V, W r3.Vector
	raw     [4]r3.Vector // exact corners (exactly representable)
	q       quad
}

func newGeom(id uint64) *geom {
	g := &geom{m: modelCell(id)}
	g.W = gen.FaceUVToXYZ(g.m.face, 0, 0)
	g.U = gen.FaceUVToXYZ(g.m.face, 1, 0).Sub(g.W)
	g.V = gen.FaceUVToXYZ(g.m.face, 0, 1).Sub(g.W)
	var c [4]hv
	for k := 0; k < 4; k++ {
		u, v := g.m.cornerUV(k)
		g.raw[k] = gen.FaceUVToXYZ(g.m.face, u, v)
		c[k] = hp.Vec(g.raw[k]).Unit()
	}
	g.q = makeQuad(c)
	return g
}

func mulCmp(a, b, c float64) int { return hp.Mul(hp.F(a), hp.F(b)).Cmp(hp.F(c)) }

// uvw returns the exact coordinates of p in the face frame.
func (g *geom) uvw(p r3.Vector) (pu, pv, pw float64) {
	return p.Dot(g.U), p.Dot(g.V), p.Dot(g.W)
}

// inside reports exactly whether the direction of p lies in the closed exact cell.
func (g *geom) inside(p r3.Vector) bool {
	pu, pv, pw := g.uvw(p)
	if !(pw > 0) {
		return false
	}
	return mulCmp(g.m.u[0], pw, pu) <= 0 && mulCmp(g.m.u[1], pw, pu) >= 0 &&
		mulCmp(g.m.v[0], pw, pv) <= 0 && mulCmp(g.m.v[1], pw, pv) >= 0
}

// farOutside reports (exactly) that p is outside the cell by more than the
// documented ContainsPoint margin: on the wrong side of the face plane, or its
// exact u (or v) is beyond the bound by more than 8ε(1+|u|). The implementation
// expands the bound by a few ε (3ε since /repo commit debd1e1, ε before) and its
// division has relative error ε/2; 8ε leaves room so that a repair of the
// documented guarantee CellFromPoint(p).ContainsPoint(p) does not turn this
// (one-sided, not part of the property statement) rejection test red.
func (g *geom) farOutside(p r3.Vector) bool {
	pu, pv, pw := g.uvw(p)
	if !(pw > 0) {
		return true
	}
	m := hp.F(8 * eps)
	beyond := func(lo, hi, x float64) bool {
		slack := hp.Mul(m, hp.Abs(hp.F(x)))
		l := hp.Sub(hp.Mul(hp.Sub(hp.F(lo), m), hp.F(pw)), slack) // (lo-2ε)·pw − 2ε|x|
		h := hp.Add(hp.Mul(hp.Add(hp.F(hi), m), hp.F(pw)), slack)
		return hp.F(x).Cmp(l) < 0 || hp.F(x).Cmp(h) > 0
	}
	return beyond(g.m.u[0], g.m.u[1], pu) || beyond(g.m.v[0], g.m.v[1], pv)
}

// uvMargin returns (approximately, float64) how far inside the uv rectangle p
// is (negative outside); -inf for the wrong hemisphere.  Only used for labels.
func (g *geom) uvMargin(p r3.Vector) float64 {
	pu, pv, pw := g.uvw(p)
	if !(pw > 0) {
		return math.Inf(-1)
	}
	u, v := pu/pw, pv/pw
	return math.Min(math.Min(u-g.m.u[0], g.m.u[1]-u), math.Min(v-g.m.v[0], g.m.v[1]-v))
}

// peRes is the result of a point-to-arc evaluation.
type peRes struct {
	d2       *big.Float
	interior bool
	sn       float64 // signed sine of the elevation of x above the arc's plane (sign of x·n)
	cosp     float64 // cosine of that elevation
	w1, w2   float64 // normalised wedge coordinates (>0 both: closest point is interior)
}

var (
	bigOne = hp.F(1)
	bigTwo = hp.F(2)
)

// pointArc: squared chord distance from unit x to the arc (a,b) (unit, less
// than 180° apart) with n = a x b and nn = |n|.
func pointArc(x, a, b, n hv, nn *big.Float) peRes {
	da := x.Sub(a).Norm2()
	db := x.Sub(b).Norm2()
	r := peRes{d2: hp.Min(da, db), cosp: 1}
	// An arc shorter than 1e-40 is treated as a point pair: the wedge test below
	// subtracts quantities that agree to |a×b| relative, and the 320-bit oracle
	// arithmetic (96 digits) has nothing left for arcs around 1e-97 (first full
	// thorough run at seed 1: an edge of 4.5e-97 rad with a denormal coordinate was
	// "interior" by noise). The distance differs from the endpoint distance by less
	// than the arc length.
	if nn.Sign() == 0 || hp.Float(nn) < 1e-40 {
		return r
	}
	w1 := hp.Quo(a.Cross(x).Dot(n), nn)
	w2 := hp.Quo(x.Cross(b).Dot(n), nn)
	s := hp.Quo(x.Dot(n), nn)
	s2 := hp.Mul(s, s)
	c := hp.Sqrt(hp.Sub(bigOne, s2))
	r.w1, r.w2, r.sn, r.cosp = hp.Float(w1), hp.Float(w2), hp.Float(s), hp.Float(c)
	if w1.Sign() > 0 && w2.Sign() > 0 {
		r.interior = true
		r.d2 = hp.Quo(hp.Mul(bigTwo, s2), hp.Add(bigOne, c))
	}
	return r
}

// pcRes describes a point relative to a cell.
type pcRes struct {
	inside    bool
	d2        float64 // true squared chord distance to the closed cell
	bd2       float64 // true squared chord distance to the boundary
	feature   string  // closest boundary feature: "edge" or "vertex"
	slack     float64 // extra tolerance for the documented accuracy loss of edgeDistance near 90°
	minOutCos float64 // smallest cos(elevation) over sides the point is outside of and (nearly) in the wedge of
	minCos    float64 // smallest cos(elevation) over all four sides' great circles
	wedgeNear bool    // the interior/endpoint decision of the closest side is within 1e-9 of switching
}

// near90Slack: Cell.edgeDistance derives cos(d) from sin²(d) ("this calculation
// loses accuracy as angle POQ approaches Pi/2"): an absolute error of ~9ε in
// sin² becomes ~18ε/cos in the squared chord, saturating at 2·sqrt(9ε).
func near90Slack(cosp float64) float64 {
	if cosp >= 0.1 {
		return 0
	}
	if cosp < 1e-9 {
		return 1.2e-7
	}
	return math.Min(24*eps/cosp, 1.2e-7)
}

func pointQuad(q quad, x hv) (bd2 *big.Float, feature string, slack, minOutCos, minCos float64, wedgeNear bool) {
	minOutCos, minCos = 1, 1
	for k := 0; k < 4; k++ {
		r := pointArc(x, q.c[k], q.c[(k+1)&3], q.n[k], q.nn[k])
		if r.cosp < minCos {
			minCos = r.cosp
		}
		if bd2 == nil || r.d2.Cmp(bd2) < 0 {
			bd2 = r.d2
			feature = "vertex"
			if r.interior {
				feature = "edge"
			}
			wedgeNear = math.Min(math.Abs(r.w1), math.Abs(r.w2)) < 1e-9
		}
		if r.sn <= 1e-12 && r.w1 > -1e-6 && r.w2 > -1e-6 {
			if r.cosp < minOutCos {
				minOutCos = r.cosp
			}
			if s := near90Slack(r.cosp); s > slack {
				slack = s
			}
		}
	}
	return
}

func (g *geom) pointCell(p r3.Vector) pcRes {
	x := hp.Vec(p).Unit()
	bd2, feat, slack, moc, mc, wn := pointQuad(g.q, x)
	r := pcRes{inside: g.inside(p), bd2: hp.Float(bd2), feature: feat, slack: slack, minOutCos: moc, minCos: mc, wedgeNear: wn}
	if !r.inside {
		r.d2 = r.bd2
	}
	return r
}

// arcsMeet decides at working precision whether the arcs (a,b) and (c,d)
// (each shorter than 180°) share a point.  Collinear arcs are left to the
// endpoint distances (an overlapping collinear pair has an endpoint of one on
// the other, distance 0).
func arcsMeet(a, b, nab, c, d, ncd hv) bool {
	x := nab.Cross(ncd)
	if x.IsZero() {
		return false
	}
	for s := 0; s < 2; s++ {
		if s == 1 {
			x = neg(x)
		}
		if a.Cross(x).Dot(nab).Sign() >= 0 && x.Cross(b).Dot(nab).Sign() >= 0 &&
			c.Cross(x).Dot(ncd).Sign() >= 0 && x.Cross(d).Dot(ncd).Sign() >= 0 {
			return true
		}
	}
	return false
}

// ecRes describes an edge relative to a cell.
type ecRes struct {
	d2        float64
	class     string  // endpoint-inside, crossing, vertex-to-edge, endpoint-to-side
	slack     float64 // near-90 slack inherited from the endpoints
	minOutCos float64
	graze     float64 // smallest true chord distance from a cell corner to the edge
	endBd     float64 // smallest chord distance of an endpoint to the cell boundary
}

// edgeQuad: true squared chord distance between the arc (a,b) (unit vectors,
// possibly equal, not antipodal) and the closed quadrilateral q.
// insideA/insideB are the exact membership decisions for the endpoints.
func edgeQuad(q quad, a, b hv, insideA, insideB bool) ecRes {
	r := ecRes{minOutCos: 1}
	bda, _, sa, ca, _, _ := pointQuad(q, a)
	bdb, _, sb, cb, _, _ := pointQuad(q, b)
	r.slack = math.Max(sa, sb)
	r.minOutCos = math.Min(ca, cb)
	end := hp.Min(bda, bdb)
	r.endBd = math.Sqrt(hp.Float(end))
	nab := a.Cross(b)
	nnab := nab.Norm()
	var vmin *big.Float
	vint := false
	for k := 0; k < 4; k++ {
		pr := pointArc(q.c[k], a, b, nab, nnab)
		if vmin == nil || pr.d2.Cmp(vmin) < 0 {
			vmin, vint = pr.d2, pr.interior
		}
	}
	r.graze = math.Sqrt(hp.Float(vmin))
	if insideA || insideB {
		r.class = "endpoint-inside"
		return r
	}
	if !nab.IsZero() && hp.Float(nnab) >= 1e-40 {
		for k := 0; k < 4; k++ {
			if arcsMeet(a, b, nab, q.c[k], q.c[(k+1)&3], q.n[k]) {
				r.class = "crossing"
				return r
			}
		}
	}
	if vmin.Cmp(end) < 0 {
		r.d2 = hp.Float(vmin)
		r.class = "vertex-to-endpoint"
		if vint {
			r.class = "vertex-to-edge-interior"
		}
	} else {
		r.d2 = hp.Float(end)
		r.class = "endpoint-to-cell"
	}
	return r
}

// quadQuad: true squared chord distance between two quadrilaterals known to be
// disjoint (closed): the minimum is attained between a vertex of one and a
// side (or vertex) of the other.
func quadQuad(p, q quad) (d2 float64, interior bool) {
	var best *big.Float
	for i := 0; i < 4; i++ {
		for k := 0; k < 4; k++ {
			r := pointArc(p.c[i], q.c[k], q.c[(k+1)&3], q.n[k], q.nn[k])
			if best == nil || r.d2.Cmp(best) < 0 {
				best, interior = r.d2, r.interior
			}
			r = pointArc(q.c[i], p.c[k], p.c[(k+1)&3], p.n[k], p.nn[k])
			if r.d2.Cmp(best) < 0 {
				best, interior = r.d2, r.interior
			}
		}
	}
	return hp.Float(best), interior
}

// dirErr returns sin of the angle between float vector v and exact direction w
// (hp), i.e. the direction error of v.
func dirErr(v r3.Vector, w hv) float64 {
	return math.Sqrt(hp.Float(hp.Sin2Angle(hp.Vec(v), w)))
}
