// Package c12: cell geometry agrees with cell ids — containment, children,
// bounds, and the distance functions of s2.Cell are true, attained bounds.
//
// Oracle (oracle.go): a lattice model decoded from the id bits with the
// definition of the Hilbert curve, the exact cell spanned by the exactly
// representable corner vectors, exact membership, and 320-bit evaluation of the
// true squared chord distances to that exact cell.
//
// Tolerances, fixed before running (DESIGN §2.5 gives "1e-14 relative + 1e-15
// absolute" for cell distances; the absolute part is tightened here because an
// absolute 1e-15 on a squared chord is 3e-8 rad at distance zero):
//
//	tol(d²) = 1e-14·d² + 2·d·δ + δ²,  δ = 4e-15  (absolute error δ on the chord
//	length itself: ≈ 2.5 × the documented 1.2e-15 rad of UpdateMinDistance plus
//	the ≤ 1ε direction error of the normalised cell vertices)
//
// plus, only where the target is (nearly) in the wedge of a cell side and more
// than 84° from that side's great circle, the accuracy loss that the source
// documents for edgeDistance ("loses accuracy as angle POQ approaches Pi/2"):
// min(24ε/cos, 1.2e-7), see near90Slack.
package c12

import (
	"fmt"
	"math"

	"github.com/golang/geo/r2"
	"github.com/golang/geo/s1"
	"github.com/golang/geo/s2"
	"pgregory.net/rapid"

	"verifharness/internal/ev"
	"verifharness/internal/exact"
	"verifharness/internal/gen"
	"verifharness/internal/hp"
)

const (
	relTol  = 1e-14
	deltaCh = 4e-15
)

func tol(d2 float64) float64 {
	if d2 < 0 {
		d2 = 0
	}
	return relTol*d2 + 2*math.Sqrt(d2)*deltaCh + deltaCh*deltaCh
}

func tol2(a, b float64) float64 { return math.Max(tol(a), tol(b)) }

func ratio(o *ev.Outcome, key string, v float64) {
	if o.Ratios == nil {
		o.Ratios = map[string]float64{}
	}
	if v > o.Ratios[key] {
		o.Ratios[key] = v
	}
}

func count(o *ev.Outcome, key string) {
	if o.Counts == nil {
		o.Counts = map[string]int{}
	}
	o.Counts[key]++
}

// within compares a reported squared chord with the true one; it records the
// one-sided ratios (over: reported minimum too large / reported maximum too
// large; under: too small) and returns a message on breach.
func within(o *ev.Outcome, name string, got, want, t float64) string {
	if math.IsNaN(got) {
		return fmt.Sprintf("%s returned NaN (true squared chord %.17g)", name, want)
	}
	if got < 0 || got > 4 {
		// class "chord-above-4": the value is the true distance up to rounding
		// but exceeds StraightChordAngle (updateMinDistance does not clamp the
		// endpoint distance the way ChordAngleBetweenPoints does).
		if got > 4 && got <= 4+1e-14 && want >= 4-1e-13 {
			o.Finding = "chord-above-4"
		}
		return fmt.Sprintf("%s = %.17g is not a valid squared chord length (true %.17g)", name, got, want)
	}
	d := got - want
	if math.Abs(d) > t {
		return fmt.Sprintf("%s = %.17g, true squared chord %.17g, |diff| %.3g > tol %.3g", name, got, want, math.Abs(d), t)
	}
	if d >= 0 {
		ratio(o, name+" (reported-true)/tol", d/t)
	} else {
		ratio(o, name+" (true-reported)/tol", -d/t)
	}
	return ""
}

func boundMismatch(c s2.Cell, m mcell) string {
	b := c.BoundUV()
	if c.Face() != m.face || c.Level() != m.level {
		return fmt.Sprintf("Cell face/level %d/%d, id bits say %d/%d", c.Face(), c.Level(), m.face, m.level)
	}
	if b.X.Lo != m.u[0] || b.X.Hi != m.u[1] || b.Y.Lo != m.v[0] || b.Y.Hi != m.v[1] {
		return fmt.Sprintf("BoundUV %v differs from the lattice model u=%v v=%v (i0=%d j0=%d size=%d)", b, m.u, m.v, m.i0, m.j0, m.size)
	}
	return ""
}

// nanFinding: a NaN result is attributed to the narrow class "edgedist-nan-90deg"
// when the target is within 1e-6 of 90° from the great circle of one of the
// cell's sides (cos of its elevation over that plane < 1e-6).
func nanFinding(cos float64) string {
	if cos < 1e-6 {
		return "edgedist-nan-90deg"
	}
	return "nan"
}

// ---------------------------------------------------------------------------
// point targets

func checkPoint(c ptCase) ev.Outcome {
	o := ev.Outcome{}
	p := c.P.Pt()
	if !validID(c.ID) || !gen.Unit(p) {
		o.Skip = true
		return o
	}
	g := newGeom(c.ID)
	cell := s2.CellFromCellID(s2.CellID(c.ID))
	if e := boundMismatch(cell, g.m); e != "" {
		o.Err, o.Finding = e, "bounduv-model"
		return o
	}
	q := s2.Point{Vector: p.Mul(-1)}
	r := g.pointCell(p.Vector)
	ra := g.pointCell(q.Vector)

	feat := r.feature
	if r.inside {
		feat = "inside"
	}
	afeat := ra.feature
	if ra.inside {
		afeat = "inside"
	}
	o.Class = feat + "|antipode:" + afeat
	if r.slack > 0 || ra.slack > 0 {
		o.Class += "|near90"
	}
	o.NonTrivial = math.Min(r.bd2, ra.bd2) <= 1e-18 || r.wedgeNear || ra.wedgeNear || r.slack > 0 || ra.slack > 0 ||
		math.Abs(2-ra.d2) < 1e-9

	gotD := float64(cell.Distance(p))
	gotB := float64(cell.BoundaryDistance(p))
	gotM := float64(cell.MaxDistance(p))

	fail := func(msg, finding string) ev.Outcome {
		o.Err = msg
		if finding != "" {
			o.Finding = finding
		}
		return o
	}
	if math.IsNaN(gotD) || math.IsNaN(gotB) {
		return fail(fmt.Sprintf("Distance=%v BoundaryDistance=%v (true %.17g / %.17g; smallest cos of elevation over a side's great circle %.3g)", gotD, gotB, r.d2, r.bd2, r.minCos), nanFinding(r.minCos))
	}
	if math.IsNaN(gotM) {
		return fail(fmt.Sprintf("MaxDistance=NaN (true %.17g; antipode's smallest cos of elevation over a side's great circle %.3g)", 4-ra.d2, ra.minCos), nanFinding(ra.minCos))
	}
	if e := within(&o, "Distance", gotD, r.d2, tol(r.d2)+r.slack); e != "" {
		return fail(e+" ["+o.Class+"]", "")
	}
	if r.inside {
		if gotD == 0 {
			count(&o, "inside: Distance exactly 0")
		} else {
			count(&o, "inside: Distance tiny non-zero")
			if g.uvMargin(p.Vector) > 4*eps {
				return fail(fmt.Sprintf("point inside the cell by more than 4ε in uv but Distance = %.3g != 0", gotD), "")
			}
		}
	}
	if e := within(&o, "BoundaryDistance", gotB, r.bd2, tol(r.bd2)+r.slack); e != "" {
		return fail(e+" ["+o.Class+"]", "")
	}
	wantM := 4 - ra.d2
	if e := within(&o, "MaxDistance", gotM, wantM, tol2(wantM, ra.d2)+ra.slack); e != "" {
		return fail(e+" ["+o.Class+"]", "")
	}
	// closed-set containment agrees with the exact cell
	cp := cell.ContainsPoint(p)
	if r.inside && !cp {
		return fail("point is in the exact closed cell but ContainsPoint is false", "")
	}
	if !r.inside && cp && g.farOutside(p.Vector) {
		return fail("point is outside the cell by more than the documented margin but ContainsPoint is true", "")
	}
	return o
}

// ---------------------------------------------------------------------------
// containment

func checkContains(c ptCase) ev.Outcome {
	o := ev.Outcome{}
	p := c.P.Pt()
	if !validID(c.ID) || !gen.Unit(p) {
		o.Skip = true
		return o
	}
	g := newGeom(c.ID)
	id := s2.CellID(c.ID)
	cell := s2.CellFromCellID(id)
	if e := boundMismatch(cell, g.m); e != "" {
		o.Err, o.Finding = e, "bounduv-model"
		return o
	}
	got := cell.ContainsPoint(p)
	leaf := uint64(s2.CellFromPoint(p).ID())
	lsb := c.ID & -c.ID
	inRange := leaf >= c.ID-(lsb-1) && leaf <= c.ID+(lsb-1)
	in := g.inside(p.Vector)
	far := g.farOutside(p.Vector)
	mg := g.uvMargin(p.Vector)
	switch {
	case in && inRange:
		o.Class = "inside,leaf-in-range"
	case in:
		o.Class = "inside,leaf-elsewhere(boundary)"
	case inRange:
		o.Class = "margin-zone,leaf-in-range"
	case far:
		o.Class = "outside-beyond-margin"
	default:
		o.Class = "margin-zone"
	}
	o.NonTrivial = math.Abs(mg) <= 8*eps || (inRange && !in) || (in && !inRange)
	if inRange && !got {
		o.Err = fmt.Sprintf("leaf cell of p (%#x) is within the id range of the cell but ContainsPoint is false (uv margin %.3g)", leaf, mg)
		return o
	}
	if in && !got {
		o.Err = fmt.Sprintf("p is in the exact closed cell but ContainsPoint is false (uv margin %.3g)", mg)
		return o
	}
	if far && got {
		o.Err = fmt.Sprintf("p is outside by more than the documented margin but ContainsPoint is true (uv margin %.3g)", mg)
		return o
	}
	if inRange && far {
		o.Err = fmt.Sprintf("leaf cell of p is within the id range of the cell but p is outside the exact cell beyond the margin (uv margin %.3g)", mg)
		return o
	}
	// the leaf cell itself contains p
	if !s2.CellFromPoint(p).ContainsPoint(p) {
		o.Err = "CellFromPoint(p).ContainsPoint(p) is false"
		return o
	}
	return o
}

// ---------------------------------------------------------------------------
// edge targets

func checkEdge(c edgeCase) ev.Outcome {
	o := ev.Outcome{}
	a, b := c.A.Pt(), c.B.Pt()
	if !validID(c.ID) || !gen.Unit(a) || !gen.Unit(b) || antipodalTooClose(a, b) {
		o.Skip = true
		return o
	}
	g := newGeom(c.ID)
	cell := s2.CellFromCellID(s2.CellID(c.ID))
	if e := boundMismatch(cell, g.m); e != "" {
		o.Err, o.Finding = e, "bounduv-model"
		return o
	}
	xa, xb := hp.Vec(a.Vector).Unit(), hp.Vec(b.Vector).Unit()
	na, nb := s2.Point{Vector: a.Mul(-1)}, s2.Point{Vector: b.Mul(-1)}
	r := edgeQuad(g.q, xa, xb, g.inside(a.Vector), g.inside(b.Vector))
	rr := edgeQuad(g.q, neg(xa), neg(xb), g.inside(na.Vector), g.inside(nb.Vector))
	o.Class = r.class + "|antipode:" + rr.class
	if a == b {
		o.Class = "degenerate:" + o.Class
	}
	o.NonTrivial = math.Min(math.Min(r.graze, r.endBd), math.Min(rr.graze, rr.endBd)) <= 1e-9 ||
		r.slack > 0 || rr.slack > 0 || math.Abs(2-rr.d2) < 1e-9

	nanCause := func() string {
		for _, x := range []s2.Point{a, b, na, nb} {
			if math.IsNaN(float64(cell.Distance(x))) {
				return "edgedist-nan-90deg"
			}
		}
		return ""
	}
	// ulpEdge: the edge is only a few ulps long (chord ≤ 1e-15, A != B).
	// UpdateMinDistance's test "is the closest point interior to AB" is then
	// decided by rounding noise for a cell vertex in the hemisphere opposite
	// to the edge, and the distance to the great circle (≈ 0 near the
	// antipode) is returned instead of the distance to A (confirmed defect,
	// class "ulp-edge-far-vertex").
	ulpEdge := func() string {
		if a != b && a.Sub(b.Vector).Norm() <= 1e-15 {
			return "ulp-edge-far-vertex"
		}
		return ""
	}
	fail := func(msg string) ev.Outcome {
		o.Err = msg + " [" + o.Class + "]"
		if o.Finding == "" {
			o.Finding = nanCause()
		}
		if o.Finding == "" {
			o.Finding = ulpEdge()
		}
		return o
	}
	got := float64(cell.DistanceToEdge(a, b))
	if e := within(&o, "DistanceToEdge", got, r.d2, tol(r.d2)+r.slack); e != "" {
		return fail(e)
	}
	if got2 := float64(cell.DistanceToEdge(b, a)); got2 != got {
		if e := within(&o, "DistanceToEdge", got2, r.d2, tol(r.d2)+r.slack); e != "" {
			return fail("(endpoints swapped) " + e)
		}
	}
	wantM := 4 - rr.d2
	gotM := float64(cell.MaxDistanceToEdge(a, b))
	if e := within(&o, "MaxDistanceToEdge", gotM, wantM, tol2(wantM, rr.d2)+rr.slack); e != "" {
		return fail(e)
	}
	return o
}

// ---------------------------------------------------------------------------
// cell targets

func checkPair(c pairCase) ev.Outcome {
	o := ev.Outcome{}
	if !validID(c.A) || !validID(c.B) {
		o.Skip = true
		return o
	}
	ga, gb := newGeom(c.A), newGeom(c.B)
	ca, cb := s2.CellFromCellID(s2.CellID(c.A)), s2.CellFromCellID(s2.CellID(c.B))
	for _, x := range []struct {
		c s2.Cell
		m mcell
	}{{ca, ga.m}, {cb, gb.m}} {
		if e := boundMismatch(x.c, x.m); e != "" {
			o.Err, o.Finding = e, "bounduv-model"
			return o
		}
	}
	alo, ahi := ga.m.cubeBox()
	blo, bhi := gb.m.cubeBox()
	meet := boxesMeet(alo, ahi, blo, bhi)
	nlo, nhi := negBox(blo, bhi)
	antiMeet := boxesMeet(alo, ahi, nlo, nhi)
	lsbA, lsbB := c.A&-c.A, c.B&-c.B
	nested := (c.B >= c.A-(lsbA-1) && c.B <= c.A+(lsbA-1)) || (c.A >= c.B-(lsbB-1) && c.A <= c.B+(lsbB-1))

	want, wantInt := 0.0, false
	if !meet {
		want, wantInt = quadQuad(ga.q, gb.q)
	}
	antiD := 0.0
	if !antiMeet {
		antiD, _ = quadQuad(ga.q, gb.q.antipode())
	}
	wantM := 4 - antiD

	faces := "same-face"
	switch {
	case ga.m.face == (gb.m.face+3)%6:
		faces = "opposite-face"
	case ga.m.face != gb.m.face:
		faces = "adjacent-face"
	}
	switch {
	case nested:
		o.Class = "nested"
	case meet:
		o.Class = "touching," + faces
	case wantInt:
		o.Class = "apart(vertex-side)," + faces
	default:
		o.Class = "apart(vertex-vertex)," + faces
	}
	if antiMeet {
		o.Class += "|antipode-meets"
	}
	o.NonTrivial = !nested && (meet || want <= 1e-12 || antiMeet || antiD <= 1e-12 || faces != "same-face")

	fail := func(msg string) ev.Outcome {
		o.Err = msg + " [" + o.Class + "]"
		return o
	}
	// id-range relations agree with the lattice squares decoded from the id bits
	sqIn := func(x, y mcell) bool { // x within y
		return x.face == y.face && x.i0 >= y.i0 && x.j0 >= y.j0 && x.i0+x.size <= y.i0+y.size && x.j0+x.size <= y.j0+y.size
	}
	bInA, aInB := sqIn(gb.m, ga.m), sqIn(ga.m, gb.m)
	if ca.ContainsCell(cb) != bInA || cb.ContainsCell(ca) != aInB || ca.IntersectsCell(cb) != (bInA || aInB) || nested != (bInA || aInB) {
		return fail(fmt.Sprintf("ContainsCell/IntersectsCell (%v,%v,%v) disagree with the lattice squares (B in A %v, A in B %v)", ca.ContainsCell(cb), cb.ContainsCell(ca), ca.IntersectsCell(cb), bInA, aInB))
	}
	// corners that coincide on the integer cube are the same Point, bit for bit
	cubeCorner := func(m mcell, k int) [3]int64 {
		const M = 1 << 30
		i, j := m.i0, m.j0
		if k == 1 || k == 2 {
			i += m.size
		}
		if k >= 2 {
			j += m.size
		}
		v := gen.FaceUVToXYZ(m.face, float64(2*i-M), float64(2*j-M))
		w := gen.FaceUVToXYZ(m.face, 0, 0)
		return [3]int64{int64(v.X + w.X*(M-1)), int64(v.Y + w.Y*(M-1)), int64(v.Z + w.Z*(M-1))}
	}
	for k := 0; k < 4; k++ {
		for l := 0; l < 4; l++ {
			if cubeCorner(ga.m, k) == cubeCorner(gb.m, l) {
				count(&o, "shared lattice corner")
				if ca.Vertex(k) != cb.Vertex(l) {
					return fail(fmt.Sprintf("cells share a lattice corner but Vertex(%d)=%v and Vertex(%d)=%v differ", k, ca.Vertex(k), l, cb.Vertex(l)))
				}
			}
		}
	}
	for i, pr := range [][2]s2.Cell{{ca, cb}, {cb, ca}} {
		sw := ""
		if i == 1 {
			sw = "(swapped) "
		}
		got := float64(pr[0].DistanceToCell(pr[1]))
		if e := within(&o, "DistanceToCell", got, want, tol(want)); e != "" {
			return fail(sw + e)
		}
		// Cells of one face that are in lattice contact have (u,v) rectangles that share
		// the bit-identical coordinate of the common lattice line, so "the target lies in
		// or crosses the cell" is decided exactly and the distance is zero, not merely
		// small (seeded change C12-r121: a vertex of the finer cell on a side of the
		// coarser one otherwise yields ~1e-32). Across faces the contact is only found
		// through the vertex/side distances, where a rounding residue is legitimate.
		if meet && faces == "same-face" {
			count(&o, "exact-zero(same-face contact)")
			if got != 0 {
				return fail(fmt.Sprintf("%sDistanceToCell = %g for cells of one face in lattice contact; it is exactly 0 when the target lies in or crosses the cell", sw, got))
			}
		}
		gotM := float64(pr[0].MaxDistanceToCell(pr[1]))
		if e := within(&o, "MaxDistanceToCell", gotM, wantM, tol2(wantM, antiD)); e != "" {
			return fail(sw + e)
		}
	}
	return o
}

// ---------------------------------------------------------------------------
// bounds

func genInside(t *rapid.T) ptCase {
	id := gen.CellID(t, "cell")
	c := s2.CellFromCellID(id)
	b := c.BoundUV()
	g := newGeom(uint64(id))
	clamp := func(x, lo, hi float64) float64 { return math.Max(lo, math.Min(hi, x)) }
	var u, v float64
	switch rapid.IntRange(0, 9).Draw(t, "imode") {
	case 7, 8, 9:
		// 0..4 ulps inside a corner in u and in v (the corners are where the
		// bounding cap and rectangle are attained)
		u = rapid.SampledFrom([]float64{b.X.Lo, b.X.Hi}).Draw(t, "u")
		v = rapid.SampledFrom([]float64{b.Y.Lo, b.Y.Hi}).Draw(t, "v")
		if rapid.IntRange(0, 2).Draw(t, "far") > 0 {
			// the corner farthest from the centre of the bounding cap (only steers the generator)
			ctr, best := c.CapBound().Center(), -1.0
			for _, cu := range []float64{b.X.Lo, b.X.Hi} {
				for _, cv := range []float64{b.Y.Lo, b.Y.Hi} {
					if d := fromUV(c.Face(), cu, cv).Sub(ctr.Vector).Norm2(); d > best {
						best, u, v = d, cu, cv
					}
				}
			}
		}
		ku, kv := rapid.IntRange(0, 4).Draw(t, "ku"), rapid.IntRange(0, 4).Draw(t, "kv")
		if u == b.X.Hi {
			ku = -ku
		}
		if v == b.Y.Hi {
			kv = -kv
		}
		u, v = gen.Ulps(u, ku), gen.Ulps(v, kv)
	case 0, 5, 6:
		u = b.X.Lo + rapid.Float64Range(0, 1).Draw(t, "fu")*(b.X.Hi-b.X.Lo)
		v = b.Y.Lo + rapid.Float64Range(0, 1).Draw(t, "fv")*(b.Y.Hi-b.Y.Lo)
	case 1:
		u = rapid.SampledFrom([]float64{b.X.Lo, b.X.Hi}).Draw(t, "u")
		v = rapid.SampledFrom([]float64{b.Y.Lo, b.Y.Hi}).Draw(t, "v")
	case 2:
		u = rapid.SampledFrom([]float64{b.X.Lo, b.X.Hi}).Draw(t, "u")
		v = clamp(along(t, "v", b.Y.Lo, b.Y.Hi), b.Y.Lo, b.Y.Hi)
	case 3:
		u = clamp(along(t, "u", b.X.Lo, b.X.Hi), b.X.Lo, b.X.Hi)
		v = rapid.SampledFrom([]float64{b.Y.Lo, b.Y.Hi}).Draw(t, "v")
	default:
		u = clamp(along(t, "u", b.X.Lo, b.X.Hi), b.X.Lo, b.X.Hi)
		v = clamp(along(t, "v", b.Y.Lo, b.Y.Hi), b.Y.Lo, b.Y.Hi)
	}
	uc, vc := 0.5*(b.X.Lo+b.X.Hi), 0.5*(b.Y.Lo+b.Y.Hi)
	p := fromUV(c.Face(), u, v)
	for k := 1; k <= 8 && !(gen.Unit(p) && g.inside(p.Vector)); k *= 2 {
		// move k ulps towards the middle of the cell
		if u < uc {
			u = gen.Ulps(u, k)
		} else {
			u = gen.Ulps(u, -k)
		}
		if v < vc {
			v = gen.Ulps(v, k)
		} else {
			v = gen.Ulps(v, -k)
		}
		p = fromUV(c.Face(), u, v)
	}
	if !(gen.Unit(p) && g.inside(p.Vector)) {
		p = c.Center()
	}
	return ptCase{uint64(id), gen.FromPt(p)}
}

func checkBounds(c ptCase) ev.Outcome {
	o := ev.Outcome{}
	p := c.P.Pt()
	if !validID(c.ID) || !gen.Unit(p) {
		o.Skip = true
		return o
	}
	g := newGeom(c.ID)
	if !g.inside(p.Vector) {
		o.Skip = true
		return o
	}
	cell := s2.CellFromCellID(s2.CellID(c.ID))
	if e := boundMismatch(cell, g.m); e != "" {
		o.Err, o.Finding = e, "bounduv-model"
		return o
	}
	mg := g.uvMargin(p.Vector)
	size := math.Min(g.m.u[1]-g.m.u[0], g.m.v[1]-g.m.v[0])
	switch {
	case mg <= 4*eps:
		o.Class = "on-boundary(≤4ε)"
	case mg <= 1e-6*size:
		o.Class = "near-boundary"
	default:
		o.Class = "interior"
	}
	if g.m.level == 0 {
		o.Class += ",face-cell"
	}
	o.NonTrivial = mg <= 1e-6*size
	if !cell.ContainsPoint(p) {
		o.Err = "point of the exact cell rejected by ContainsPoint"
		return o
	}
	rect := cell.RectBound()
	if !rect.IsValid() {
		o.Err = fmt.Sprintf("RectBound %v is not valid", rect)
		return o
	}
	if !rect.ContainsLatLng(s2.LatLngFromPoint(p)) || !rect.ContainsPoint(p) {
		ll := s2.LatLngFromPoint(p)
		o.Err = fmt.Sprintf("RectBound lat[%.17g,%.17g] lng[%.17g,%.17g] does not contain the point of the cell at lat %.17g lng %.17g", rect.Lat.Lo, rect.Lat.Hi, rect.Lng.Lo, rect.Lng.Hi, ll.Lat.Radians(), ll.Lng.Radians())
		return o
	}
	for k := 0; k < 4; k++ {
		if !rect.ContainsLatLng(s2.LatLngFromPoint(cell.Vertex(k))) {
			o.Err = fmt.Sprintf("RectBound does not contain Vertex(%d)", k)
			return o
		}
	}
	cap := cell.CapBound()
	if !cap.IsValid() || cap.IsEmpty() {
		o.Err = "CapBound invalid or empty"
		return o
	}
	rad := 2 * cap.Height() // squared chord radius
	capTol := 10*eps*rad + 4*eps*math.Sqrt(rad) + 32*eps*eps
	ctr := hp.Vec(cap.Center().Vector)
	d2 := hp.Float(hp.Chord2(ctr, hp.Vec(p.Vector)))
	if !cap.ContainsPoint(p) {
		// strict since /repo 8e82816 rounds the radius up (before that, misses by an
		// ulp were the finding F41 of C10 and only counted here)
		o.Err = fmt.Sprintf("CapBound (centre %v, squared chord radius %.17g) does not contain a point of the cell at squared chord %.17g", cap.Center().Vector, rad, d2)
		o.Finding = "cell-capbound-misses-point"
		return o
	}
	if d2 > rad {
		ratio(&o, "cap excess/capTol", (d2-rad)/capTol)
	}
	if d2 > rad+capTol {
		o.Err = fmt.Sprintf("point of the cell at squared chord %.17g from the CapBound centre, radius %.17g", d2, rad)
		return o
	}
	for k := 0; k < 4; k++ {
		dk := hp.Float(hp.Chord2(ctr, g.q.c[k]))
		if dk > rad {
			ratio(&o, "cap excess/capTol", (dk-rad)/capTol)
		}
		if dk > rad+capTol {
			o.Err = fmt.Sprintf("exact corner %d at squared chord %.17g from the CapBound centre, radius %.17g", k, dk, rad)
			return o
		}
	}
	return o
}

// ---------------------------------------------------------------------------
// children and accessors down a root-to-cell path

func cellDiff(a, b s2.Cell) string {
	switch {
	case a.ID() != b.ID():
		return fmt.Sprintf("ID %#x vs %#x", uint64(a.ID()), uint64(b.ID()))
	case a.Face() != b.Face():
		return fmt.Sprintf("Face %d vs %d", a.Face(), b.Face())
	case a.Level() != b.Level():
		return fmt.Sprintf("Level %d vs %d", a.Level(), b.Level())
	case a.BoundUV() != b.BoundUV():
		return fmt.Sprintf("BoundUV %v vs %v", a.BoundUV(), b.BoundUV())
	}
	return "unexported orientation"
}

// accessors checks every exported accessor of one cell against the model.
func accessors(cell s2.Cell, id uint64) string {
	g := newGeom(id)
	m := g.m
	if e := boundMismatch(cell, m); e != "" {
		return e
	}
	if uint64(cell.ID()) != id {
		return "ID() differs"
	}
	if cell.IsLeaf() != (m.level == 30) || cell.SizeIJ() != m.size || cell.SizeST() != math.Ldexp(1, -m.level) {
		return fmt.Sprintf("IsLeaf/SizeIJ/SizeST = %v/%d/%g at level %d", cell.IsLeaf(), cell.SizeIJ(), cell.SizeST(), m.level)
	}
	wantIJ := [4]int{m.j0, m.i0 + m.size, m.j0 + m.size, m.i0}
	wantUV := [4]float64{m.v[0], m.u[1], m.v[1], m.u[0]}
	for k := 0; k < 4; k++ {
		if cell.IJCoordOfEdge(k) != wantIJ[k] || cell.UVCoordOfEdge(k) != wantUV[k] {
			return fmt.Sprintf("edge %d: IJCoordOfEdge %d want %d, UVCoordOfEdge %.17g want %.17g", k, cell.IJCoordOfEdge(k), wantIJ[k], cell.UVCoordOfEdge(k), wantUV[k])
		}
		if cell.VertexRaw(k).Vector != g.raw[k] {
			return fmt.Sprintf("VertexRaw(%d) = %v, exact corner %v", k, cell.VertexRaw(k), g.raw[k])
		}
		v := cell.Vertex(k)
		if !gen.Unit(v) || dirErr(v.Vector, g.q.c[k]) > 2*eps {
			return fmt.Sprintf("Vertex(%d) = %v is not the unit vector of the exact corner within 2ε (direction error %.3g)", k, v, dirErr(v.Vector, g.q.c[k]))
		}
		er := cell.EdgeRaw(k)
		if exact.SignDot(er.Vector, g.raw[k]) != 0 || exact.SignDot(er.Vector, g.raw[(k+1)&3]) != 0 {
			return fmt.Sprintf("EdgeRaw(%d) = %v is not exactly orthogonal to corners %d and %d", k, er, k, (k+1)&3)
		}
		if exact.SignDot(er.Vector, g.raw[(k+2)&3]) <= 0 {
			return fmt.Sprintf("EdgeRaw(%d) = %v does not face inward", k, er)
		}
		e := cell.Edge(k)
		if !gen.Unit(e) || dirErr(e.Vector, hp.Vec(er.Vector)) > 2*eps {
			return fmt.Sprintf("Edge(%d) is not EdgeRaw(%d) normalised", k, k)
		}
	}
	if exact.DetSign(g.raw[0], g.raw[1], g.raw[2]) <= 0 || exact.DetSign(g.raw[0], g.raw[2], g.raw[3]) <= 0 {
		return "vertices are not in CCW order"
	}
	ctr := cell.Center()
	if ctr != cell.ID().Point() {
		return "Center() != ID().Point()"
	}
	uc, vc := mSTtoUV(float64(2*m.i0+m.size)/(1<<31)), mSTtoUV(float64(2*m.j0+m.size)/(1<<31))
	if !gen.Unit(ctr) || dirErr(ctr.Vector, hp.Vec(gen.FaceUVToXYZ(m.face, uc, vc))) > 2*eps || !g.inside(ctr.Vector) {
		return fmt.Sprintf("Center() %v is not the st-centre of the lattice square", ctr)
	}
	if !(m.u[0] < uc && uc < m.u[1] && m.v[0] < vc && vc < m.v[1]) {
		return "uv bounds are not strictly increasing through the centre"
	}
	return ""
}

// uvTransformErr: the float bound against the exactly evaluated quadratic transform.
func uvTransformErr(i int, got float64) float64 {
	s := hp.Quo(hp.F(float64(i)), hp.F(1<<30))
	four, three, one := hp.F(4), hp.F(3), hp.F(1)
	var u = hp.F(0)
	if i >= 1<<29 {
		u = hp.Quo(hp.Sub(hp.Mul(four, hp.Mul(s, s)), one), three)
	} else {
		w := hp.Sub(one, s)
		u = hp.Quo(hp.Sub(one, hp.Mul(four, hp.Mul(w, w))), three)
	}
	return math.Abs(hp.Float(hp.Sub(hp.F(got), u)))
}

func checkChildren(c idCase) ev.Outcome {
	o := ev.Outcome{}
	if !validID(c.ID) {
		o.Skip = true
		return o
	}
	level := levelOf(c.ID)
	face := int(c.ID >> 61)
	o.Class = fmt.Sprintf("level %02d-%02d", level/5*5, level/5*5+4)
	o.NonTrivial = level >= 1
	cur := s2.CellFromCellID(s2.CellIDFromFace(face))
	curID := uint64(face)<<61 | 1<<60
	if uint64(cur.ID()) != curID {
		o.Err = "face cell id"
		return o
	}
	// step compares all four children with the directly constructed cells and
	// checks the accessors of child `follow` (all four if follow < 0) against the model.
	step := func(parent s2.Cell, pid uint64, follow int) ([4]s2.Cell, string) {
		kids, ok := parent.Children()
		if !ok {
			return kids, fmt.Sprintf("Children() of non-leaf %#x returned false", pid)
		}
		lsb := pid & -pid
		idKids := parent.ID().Children()
		for k := 0; k < 4; k++ {
			want := pid - lsb + uint64(k)*(lsb>>1) + lsb>>2
			if uint64(idKids[k]) != want || uint64(kids[k].ID()) != want {
				return kids, fmt.Sprintf("child %d of %#x: CellID.Children %#x, Cell.Children %#x, bits say %#x", k, pid, uint64(idKids[k]), uint64(kids[k].ID()), want)
			}
			direct := s2.CellFromCellID(s2.CellID(want))
			if kids[k] != direct {
				return kids, fmt.Sprintf("Children()[%d] of %#x differs from CellFromCellID(%#x): %s", k, pid, want, cellDiff(kids[k], direct))
			}
			if !parent.ContainsCell(kids[k]) || !parent.IntersectsCell(kids[k]) || kids[k].ContainsCell(parent) {
				return kids, "ContainsCell/IntersectsCell between parent and child"
			}
			if follow >= 0 && k != follow {
				if e := boundMismatch(kids[k], modelCell(want)); e != "" {
					return kids, fmt.Sprintf("cell %#x: %s", want, e)
				}
				continue
			}
			if e := accessors(kids[k], want); e != "" {
				return kids, fmt.Sprintf("cell %#x: %s", want, e)
			}
		}
		return kids, ""
	}
	if e := accessors(cur, curID); e != "" {
		o.Err = fmt.Sprintf("cell %#x: %s", curID, e)
		return o
	}
	for l := 1; l <= level; l++ {
		k := childPos(c.ID, l)
		kids, e := step(cur, curID, k)
		if e != "" {
			o.Err = e
			return o
		}
		cur = kids[k]
		curID = uint64(cur.ID())
	}
	if curID != c.ID {
		o.Err = fmt.Sprintf("walking the child positions of %#x arrived at %#x", c.ID, curID)
		return o
	}
	m := modelCell(c.ID)
	for _, x := range []struct {
		i int
		u float64
	}{{m.i0, m.u[0]}, {m.i0 + m.size, m.u[1]}, {m.j0, m.v[0]}, {m.j0 + m.size, m.v[1]}} {
		ratio(&o, "uv bound error/ε", uvTransformErr(x.i, x.u)/eps)
		if uvTransformErr(x.i, x.u) > 2*eps {
			o.Err = fmt.Sprintf("uv bound %.17g at lattice coordinate %d is more than 2ε from the quadratic transform", x.u, x.i)
			return o
		}
	}
	if level == 30 {
		if _, ok := cur.Children(); ok {
			o.Err = "Children() of a leaf cell returned true"
		}
		return o
	}
	if _, e := step(cur, curID, -1); e != "" {
		o.Err = e
	}
	return o
}

// ---------------------------------------------------------------------------
// padded cells

func padDiff(a, b *s2.PaddedCell) string {
	switch {
	case a.CellID() != b.CellID():
		return "CellID"
	case a.Level() != b.Level():
		return fmt.Sprintf("Level %d vs %d", a.Level(), b.Level())
	case a.Padding() != b.Padding():
		return "Padding"
	case a.Bound() != b.Bound():
		return fmt.Sprintf("Bound %v vs %v", a.Bound(), b.Bound())
	case a.Middle() != b.Middle():
		return fmt.Sprintf("Middle %v vs %v", a.Middle(), b.Middle())
	case a.Center() != b.Center():
		return "Center"
	case a.EntryVertex() != b.EntryVertex():
		return "EntryVertex"
	case a.ExitVertex() != b.ExitVertex():
		return "ExitVertex"
	}
	for pos := 0; pos < 4; pos++ {
		ai, aj := a.ChildIJ(pos)
		bi, bj := b.ChildIJ(pos)
		if ai != bi || aj != bj {
			return fmt.Sprintf("ChildIJ(%d)", pos)
		}
	}
	return ""
}

// padModel checks one padded cell against the lattice model.
func padModel(p *s2.PaddedCell, id uint64, pad float64) string {
	m := modelCell(id)
	if uint64(p.CellID()) != id || p.Level() != m.level || p.Padding() != pad {
		return "CellID/Level/Padding"
	}
	wb := r2.RectFromPoints(r2.Point{X: m.u[0] - pad, Y: m.v[0] - pad}, r2.Point{X: m.u[1] + pad, Y: m.v[1] + pad})
	if p.Bound() != wb {
		return fmt.Sprintf("Bound %v, model %v", p.Bound(), wb)
	}
	uc, vc := mSTtoUV(float64(2*m.i0+m.size)/(1<<31)), mSTtoUV(float64(2*m.j0+m.size)/(1<<31))
	wm := r2.RectFromPoints(r2.Point{X: uc - pad, Y: vc - pad}, r2.Point{X: uc + pad, Y: vc + pad})
	if p.Middle() != wm {
		return fmt.Sprintf("Middle %v, model %v", p.Middle(), wm)
	}
	if p.Center() != s2.CellID(id).Point() {
		return "Center != CellID.Point()"
	}
	for pos := 0; pos < 4; pos++ {
		i, j := p.ChildIJ(pos)
		if ij := mPosToIJ[m.orient][pos]; i != ij>>1 || j != ij&1 {
			return fmt.Sprintf("ChildIJ(%d) = (%d,%d), curve definition says (%d,%d) for orientation %d", pos, i, j, ij>>1, ij&1, m.orient)
		}
	}
	// The curve enters at the corner of the cell that belongs to its first leaf
	// (RangeMin) and leaves at the corner that belongs to its last leaf.
	lsb := id & -id
	corner := func(leaf uint64) s2.Point {
		lm := modelCell(leaf)
		u, v := m.u[0], m.v[0]
		if lm.i0 != m.i0 {
			u = m.u[1]
		}
		if lm.j0 != m.j0 {
			v = m.v[1]
		}
		if (lm.i0 != m.i0 && lm.i0+1 != m.i0+m.size) || (lm.j0 != m.j0 && lm.j0+1 != m.j0+m.size) {
			return s2.Point{}
		}
		return fromUV(m.face, u, v)
	}
	if m.level < 30 {
		if e := corner(id - (lsb - 1)); p.EntryVertex() != e {
			return fmt.Sprintf("EntryVertex %v, corner of the first leaf %v", p.EntryVertex(), e)
		}
		if e := corner(id + (lsb - 1)); p.ExitVertex() != e {
			return fmt.Sprintf("ExitVertex %v, corner of the last leaf %v", p.ExitVertex(), e)
		}
	}
	return ""
}

func checkPadded(c padCase) ev.Outcome {
	o := ev.Outcome{}
	if !validID(c.ID) || !(c.Padding >= 0 && c.Padding <= 1) {
		o.Skip = true
		return o
	}
	level := levelOf(c.ID)
	face := int(c.ID >> 61)
	o.Class = fmt.Sprintf("level %02d-%02d", level/5*5, level/5*5+4)
	o.NonTrivial = level >= 1
	curID := uint64(face)<<61 | 1<<60
	cur := s2.PaddedCellFromCellID(s2.CellID(curID), c.Padding)
	if e := padModel(cur, curID, c.Padding); e != "" {
		o.Err = fmt.Sprintf("padded face cell %#x: %s", curID, e)
		return o
	}
	for l := 1; l <= level; l++ {
		pos := childPos(c.ID, l)
		lsb := curID & -curID
		next := curID - lsb + uint64(pos)*(lsb>>1) + lsb>>2
		var follow *s2.PaddedCell
		for p := 0; p < 4; p++ {
			i, j := cur.ChildIJ(p)
			want := curID - lsb + uint64(p)*(lsb>>1) + lsb>>2
			child := s2.PaddedCellFromParentIJ(cur, i, j)
			direct := s2.PaddedCellFromCellID(s2.CellID(want), c.Padding)
			if uint64(child.CellID()) != want {
				o.Err = fmt.Sprintf("PaddedCellFromParentIJ(%#x, ChildIJ(%d)) has id %#x, want %#x", curID, p, uint64(child.CellID()), want)
				return o
			}
			if d := padDiff(child, direct); d != "" {
				o.Err = fmt.Sprintf("PaddedCellFromParentIJ(%#x,%d,%d) differs from PaddedCellFromCellID(%#x) in %s", curID, i, j, want, d)
				return o
			}
			if e := padModel(child, want, c.Padding); e != "" {
				o.Err = fmt.Sprintf("padded cell %#x: %s", want, e)
				return o
			}
			if p == pos {
				follow = child
			}
		}
		cur, curID = follow, next
	}
	// ShrinkToFit (the index uses it to skip subdivision steps): for the bound of the
	// cell itself as rectangle - its sides lie exactly on boundary lines of its level -
	// the result, taken from several ancestors, is the ancestor or a descendant of it
	// and still contains every same-level edge neighbour inside that ancestor (their
	// closed bounds touch the rectangle), as documented: "all descendants of this
	// padded cell whose bounds intersect the given rect".
	d := s2.CellID(c.ID)
	rect := s2.CellFromCellID(d).BoundUV()
	for al := level; al >= 0; al -= 1 + (level-al)/2 {
		a := d.Parent(al)
		r := s2.PaddedCellFromCellID(a, c.Padding).ShrinkToFit(rect)
		if !r.IsValid() || !a.Contains(r) {
			o.Err = fmt.Sprintf("PaddedCell(%v, %g).ShrinkToFit(bound of %v) = %v is not the cell or a descendant", a, c.Padding, d, r)
			return o
		}
		if !r.Contains(d) {
			o.Err = fmt.Sprintf("PaddedCell(%v, %g).ShrinkToFit(bound of %v) = %v does not contain %v itself", a, c.Padding, d, r, d)
			return o
		}
		// "smallest": the descendants whose bounds meet the rectangle are the cell, its
		// edge and its vertex neighbours inside the ancestor (closed bounds touch; the
		// next cells are a whole cell away, far more than the 1e-15 padding margin as
		// long as cells are not tiny), so the result is their lowest common ancestor
		if level <= 24 && c.Padding < 1e-9 {
			lo, hi := d, d
			for _, nb := range d.AllNeighbors(level) {
				if a.Contains(nb) {
					if nb < lo {
						lo = nb
					}
					if nb > hi {
						hi = nb
					}
				}
			}
			lca := a
			if l, ok := lo.CommonAncestorLevel(hi); ok && l > al {
				lca = d.Parent(l)
			}
			if r != lca {
				o.Err = fmt.Sprintf("PaddedCell(%v, %g).ShrinkToFit(bound of %v) = %v (level %d), the smallest cell containing %v and its neighbours inside %v is %v (level %d)", a, c.Padding, d, r, r.Level(), d, a, lca, lca.Level())
				o.Finding = "shrinktofit-not-smallest"
				return o
			}
		}
		for _, nb := range d.EdgeNeighbors() {
			if a.Contains(nb) && !r.Contains(nb) {
				o.Err = fmt.Sprintf("PaddedCell(%v, %g).ShrinkToFit(bound of %v) = %v (level %d) excludes the edge neighbour %v, whose bound touches the rectangle", a, c.Padding, d, r, r.Level(), nb)
				o.Finding = "shrinktofit-drops-neighbour"
				return o
			}
		}
	}
	return o
}

var _ = s1.ChordAngle(0)

func init() {
	ev.Define("point_distance", ev.Options{
		Rule:  "cell from gen.CellID (all faces, levels 0-30, path-biased to face edges/corners); target point placed relative to the cell: inside, exactly on a side's u/v, vertex ± ulps, log-uniform offset 1e-17..3 from a side, on the plane where the closest feature switches from side interior to vertex, at the pole of a side's great circle, 90° from a vertex/centre, unrelated; 1/3 mapped to the antipode. Oracle: exact membership + 320-bit distance to the exact cell; Distance, BoundaryDistance, MaxDistance within tol(d²)=1e-14·d²+2d·4e-15+(4e-15)² (+ documented near-90° loss), Distance exactly 0 when inside by > 4ε, ContainsPoint consistent with exact membership. Non-trivial = target or its antipode within chord 1e-9 of the boundary, or the side-interior/vertex decision within 1e-9 of switching, or near-90° regime, or farthest vertex within 1e-9 of 90°.",
		Quick: 80000, Thorough: 3000000}, genPt, checkPoint)
	ev.Define("edge_distance", ev.Options{
		Rule:  "cell as above; edge endpoints from the point placements above, related pairs, edges reflected through a point of the cell (crossing), edges through a vertex (grazing, ± tilt 1e-18..1e-6), edges along a side's great circle, degenerate edges, 1/4 antipodal; endpoints not within 1e-6 of antipodal. Oracle: 0 if an endpoint is in the exact cell or the edge meets a side (320-bit), else min over corner→edge and endpoint→sides. DistanceToEdge (both endpoint orders) and MaxDistanceToEdge (= π − distance to the antipodal edge) within tol. Non-trivial = a corner within chord 1e-9 of the edge or an endpoint within 1e-9 of the boundary (for the edge or its antipode), near-90° regime, or max within 1e-9 of 90°.",
		Quick: 40000, Thorough: 1500000}, genEdge, checkEdge)
	ev.Define("cell_distance", ev.Options{
		Rule:  "cell pairs: independent, ancestor/descendant, edge neighbours (re-levelled ±3), all neighbours at finer levels, the cell around a point placed relative to the first cell, the antipodal cell and its neighbours. Oracle: contact decided on the integer cube lattice (also across faces); otherwise 320-bit min over the 32 vertex/side pairs of the exact cells; MaxDistanceToCell = π − distance to the antipodal cell (contact: integer lattice of the negated box). Both argument orders; cells of one face in lattice contact must give exactly 0 (their (u,v) rectangles share a bit-identical coordinate). Non-trivial = not nested and (touching, or distance² ≤ 1e-12, or antipode touching/≤1e-12, or different faces).",
		Quick: 25000, Thorough: 1000000}, genPair, checkPair)
	ev.Define("contains_point", ev.Options{
		Rule:  "quarter: point with (u,v) within 8 ulps of leaf-resolution boundary values (3/4 in the s,t band [0.2,0.3) where the uv->st->ij round trip is least accurate) and its leaf cell or an ancestor; quarter: arbitrary/cell-derived point and an ancestor (any level) of CellFromPoint(p); half: point placed relative to a cell. Leaf id within the cell's id range ⇒ ContainsPoint; point in the exact closed cell (decided exactly) ⇒ ContainsPoint; outside by more than 2ε(1+|u|) or on the wrong side of the face plane ⇒ not contained. Non-trivial = |uv margin| ≤ 8ε, or leaf-range and exact membership disagree.",
		Quick: 800000, Thorough: 16000000}, genContains, checkContains)
	ev.Define("bounds", ev.Options{
		Rule:  "points decided exactly to lie in the closed exact cell (interior, on sides, at corners, 0..4 ulps of u and v inside a corner, moved ≤ 8 ulps inward if rounding put them outside): RectBound contains LatLngFromPoint(p) and the four vertices (strict), CapBound.ContainsPoint(p) strictly, and the exact corners up to 10ε·r+4ε·√r. Non-trivial = within 1e-6 of the cell size of the boundary.",
		Quick: 500000, Thorough: 6000000}, genInside, checkBounds)
	ev.Define("children", ev.Options{
		Rule:  "random cell id; walk from the face cell along its child positions: at every level all four Children() are bit-identical (struct equality, incl. unexported orientation) to CellFromCellID(child id), ids match the bit layout, BoundUV of all four matches the lattice model, and for the followed child (all four at the last level) every exported accessor (BoundUV, VertexRaw, Vertex, EdgeRaw, Edge, Center, IJ/UVCoordOfEdge, SizeIJ/ST, IsLeaf) matches the lattice model decoded from the id bits; uv bounds within 2ε of the exact quadratic transform. Non-trivial = level ≥ 1.",
		Quick: 5000, Thorough: 150000}, genID, checkChildren)
	ev.Define("padded_cell", ev.Options{
		Rule:  "random cell id and padding in [0,0.5]: down the path, PaddedCellFromParentIJ(parent, ChildIJ(pos)) equals PaddedCellFromCellID(child) on every accessor and both match the lattice model (Bound, Middle, Center, ChildIJ vs curve definition, Entry/ExitVertex = corner owned by the first/last leaf of the id range); ShrinkToFit of the cell's own bound from several ancestors keeps the cell and its same-level edge neighbours. Non-trivial = level ≥ 1.",
		Quick: 40000, Thorough: 800000}, genPad, checkPadded)
}
