// Package c02: orientation and distance predicates return the sign of the exact quantity.
package c02

import (
	"fmt"
	"math"
	"math/big"

	"github.com/golang/geo/r3"
	"github.com/golang/geo/s1"
	"github.com/golang/geo/s2"
	"pgregory.net/rapid"

	"verifharness/internal/ev"
	"verifharness/internal/exact"
	"verifharness/internal/gen"
)

// strictlyUnit: the error analysis of the floating-point stages assumes points
// produced by Normalize (|p|² within a few ε of 1); stage-soundness is only
// judged on such points. The final answers are judged on all generated points.
func strictlyUnit(ps ...s2.Point) bool {
	for _, p := range ps {
		if !gen.Unit(p) {
			return false
		}
	}
	return true
}

type triple struct{ A, B, C gen.P }

// closePair: a, b closer than ~1e-154 (so squared distances underflow) and a
// third point on or next to their great circle / antipodal to one of them.
func closeFamily(t *rapid.T, n int) []s2.Point {
	a := gen.Base(t, "ua")
	ps := []s2.Point{a}
	for len(ps) < n {
		l := fmt.Sprintf("u%d", len(ps))
		q := ps[rapid.IntRange(0, len(ps)-1).Draw(t, l+".from")]
		switch rapid.IntRange(0, 3).Draw(t, l+".kind") {
		case 0, 1:
			// tiny offset in one coordinate: 2^-k, k in [500,1074]
			k := rapid.IntRange(500, 1074).Draw(t, l+".k")
			d := math.Ldexp(float64(rapid.SampledFrom([]int{-1, 1}).Draw(t, l+".s")), -k)
			v := q.Vector
			switch rapid.IntRange(0, 2).Draw(t, l+".axis") {
			case 0:
				v.X += d
			case 1:
				v.Y += d
			default:
				v.Z += d
			}
			ps = append(ps, gen.Fix(s2.Point{Vector: v}, q))
		case 2:
			ps = append(ps, s2.Point{Vector: q.Mul(-1)})
		default:
			ps = append(ps, gen.Related(t, l, ps))
		}
	}
	// shuffle by a drawn rotation so the close pair is not always first
	r := rapid.IntRange(0, n-1).Draw(t, "urot")
	return append(ps[r:], ps[:r]...)
}

func genTriple(t *rapid.T) triple {
	var ps []s2.Point
	switch rapid.IntRange(0, 4).Draw(t, "family") {
	case 0:
		ps = gen.CoplanarTuple(t, "p", 3)
	case 1:
		ps = closeFamily(t, 3)
	default:
		ps = gen.Tuple(t, "p", 3)
	}
	return triple{gen.FromPt(ps[0]), gen.FromPt(ps[1]), gen.FromPt(ps[2])}
}

// oracleSign: exact determinant sign, SoS when it vanishes, 0 iff two identical.
func oracleSign(a, b, c s2.Point) (sign int, detZero bool) {
	if a == b || b == c || a == c {
		return 0, true
	}
	d := exact.DetSign(a.Vector, b.Vector, c.Vector)
	if d != 0 {
		return d, false
	}
	return exact.SoSSign(a.Vector, b.Vector, c.Vector), true
}

func checkSign(c triple) ev.Outcome {
	a, b, cc := c.A.Pt(), c.B.Pt(), c.C.Pt()
	o := ev.Outcome{}
	if !strictlyUnit(a, b, cc) {
		o.Skip = true
		return o
	}
	want, detZero := oracleSign(a, b, cc)
	got := int(s2.RobustSign(a, b, cc))
	tri := int(s2.VerifTriageSign(a, b, cc))
	stab := 0
	distinct := a != b && b != cc && a != cc
	if distinct {
		stab = int(s2.VerifStableSign(a, b, cc))
	}
	switch {
	case !distinct:
		o.Class = "identical-pair"
	case tri != 0:
		o.Class = "triage"
	case stab != 0:
		o.Class = "stable"
	case !detZero:
		o.Class = "exact-nonzero"
	default:
		o.Class = "symbolic"
	}
	o.NonTrivial = tri == 0
	if got != want {
		o.Err = fmt.Sprintf("RobustSign=%d want %d (detZero=%v, stage=%s)", got, want, detZero, o.Class)
		return o
	}
	// permutations: rotation invariance, swap antisymmetry (bit-for-bit on the result)
	perms := [][3]s2.Point{{b, cc, a}, {cc, a, b}}
	for _, p := range perms {
		if g := int(s2.RobustSign(p[0], p[1], p[2])); g != want {
			o.Err = fmt.Sprintf("rotation changes RobustSign: %d vs %d", g, want)
			return o
		}
	}
	swaps := [][3]s2.Point{{b, a, cc}, {a, cc, b}, {cc, b, a}}
	for _, p := range swaps {
		if g := int(s2.RobustSign(p[0], p[1], p[2])); g != -want {
			o.Err = fmt.Sprintf("swap does not negate RobustSign: %d vs %d", g, -want)
			return o
		}
	}
	// stage soundness
	exactDet := exact.DetSign(a.Vector, b.Vector, cc.Vector)
	if strictlyUnit(a, b, cc) {
		if tri != 0 && tri != exactDet {
			o.Err = fmt.Sprintf("triageSign=%d but exact determinant sign=%d", tri, exactDet)
			o.Finding = "stage-triage"
			return o
		}
		if stab != 0 && stab != exactDet {
			o.Err = fmt.Sprintf("stableSign=%d but exact determinant sign=%d", stab, exactDet)
			o.Finding = "stage-stable"
			return o
		}
	}
	if g := int(s2.VerifExactSign(a, b, cc, false)); g != exactDet {
		o.Err = fmt.Sprintf("exactSign(perturb=false)=%d but exact determinant sign=%d", g, exactDet)
		return o
	}
	if distinct {
		if g := int(s2.VerifExactSign(a, b, cc, true)); g != want {
			o.Err = fmt.Sprintf("exactSign(perturb=true)=%d want %d", g, want)
			return o
		}
	}
	// Sign (non-robust): Sign(a,b,c) => !Sign(c,b,a)
	if s2.Sign(a, b, cc) && s2.Sign(cc, b, a) {
		o.Err = "Sign(a,b,c) && Sign(c,b,a)"
		return o
	}
	// worst observed float determinant error against maxDeterminantError (1.8274 ε)
	if !detZero || true {
		det := a.Cross(b.Vector).Dot(cc.Vector)
		if exactDet == 0 {
			o.Ratios = map[string]float64{"abs_float_det_when_exact_zero/maxDeterminantError": math.Abs(det) / (1.8274 * 0x1p-52)}
		}
	}
	return o
}

type five struct{ P [5]gen.P }

func genFive(t *rapid.T) five {
	var ps []s2.Point
	switch rapid.IntRange(0, 3).Draw(t, "mode") {
	case 0:
		ps = gen.CoplanarTuple(t, "p", 5)
	case 1:
		ps = closeFamily(t, 5)
	default:
		ps = gen.Tuple(t, "p", 5)
	}
	var f five
	for i := range ps {
		f.P[i] = gen.FromPt(ps[i])
	}
	return f
}

// checkFive: the 10 answers on a 5-tuple are realisable: every three-term
// Grassmann–Plücker relation  [abc][ade] − [abd][ace] + [abe][acd] = 0  must be
// satisfiable in sign, i.e. the three terms are not all of one strict sign
// (and not exactly one non-zero).
func checkFive(f five) ev.Outcome {
	var p [5]s2.Point
	for i := range p {
		p[i] = f.P[i].Pt()
	}
	o := ev.Outcome{}
	for i := 0; i < 5; i++ {
		if !strictlyUnit(p[i]) {
			o.Skip = true
			return o
		}
		for j := i + 1; j < 5; j++ {
			if p[i] == p[j] {
				o.Skip = true
				return o
			}
		}
	}
	chi := func(i, j, k int) int { return int(s2.RobustSign(p[i], p[j], p[k])) }
	zeroDets := 0
	for i := 0; i < 5; i++ {
		for j := i + 1; j < 5; j++ {
			for k := j + 1; k < 5; k++ {
				if exact.DetSign(p[i].Vector, p[j].Vector, p[k].Vector) == 0 {
					zeroDets++
				}
			}
		}
	}
	o.NonTrivial = zeroDets > 0
	o.Class = fmt.Sprintf("zero-dets=%d", zeroDets)
	idx := []int{0, 1, 2, 3, 4}
	for _, a := range idx {
		var rest []int
		for _, x := range idx {
			if x != a {
				rest = append(rest, x)
			}
		}
		for bi := 0; bi < 4; bi++ {
			b := rest[bi]
			var r3_ []int
			for _, x := range rest {
				if x != b {
					r3_ = append(r3_, x)
				}
			}
			c, d, e := r3_[0], r3_[1], r3_[2]
			t1 := chi(a, b, c) * chi(a, d, e)
			t2 := -chi(a, b, d) * chi(a, c, e)
			t3 := chi(a, b, e) * chi(a, c, d)
			pos, neg := 0, 0
			for _, t := range []int{t1, t2, t3} {
				if t > 0 {
					pos++
				} else if t < 0 {
					neg++
				}
			}
			if (pos > 0 && neg == 0) || (neg > 0 && pos == 0) {
				o.Err = fmt.Sprintf("Grassmann-Plücker violated for a=%d b=%d c=%d d=%d e=%d: terms %d %d %d", a, b, c, d, e, t1, t2, t3)
				return o
			}
		}
	}
	return o
}

type xab struct{ X, A, B gen.P }

func genXAB(t *rapid.T) xab {
	x := gen.Base(t, "x")
	var a, b s2.Point
	switch rapid.IntRange(0, 5).Draw(t, "mode") {
	case 0:
		ps := gen.Tuple(t, "p", 3)
		x, a, b = ps[0], ps[1], ps[2]
	case 1:
		// exactly equal distances by reflecting across a coordinate plane through x:
		// x in plane coordinate k == 0, b = a with coordinate k negated.
		k := rapid.IntRange(0, 2).Draw(t, "k")
		xv := x.Vector
		a = gen.Base(t, "a")
		bv := a.Vector
		switch k {
		case 0:
			xv.X = 0
			bv.X = -bv.X
		case 1:
			xv.Y = 0
			bv.Y = -bv.Y
		default:
			xv.Z = 0
			bv.Z = -bv.Z
		}
		if xv.Norm2() == 0 {
			xv = r3.Vector{X: 0, Y: 0.6, Z: 0.8}
			if k != 0 {
				xv = r3.Vector{X: 1}
			}
		}
		x = s2.Point{Vector: xv.Normalize()}
		b = s2.Point{Vector: bv}
	case 2:
		// coordinate permutation: x = (t,t,t)/|.|, b = cyclic permutation of a
		x = s2.Point{Vector: r3.Vector{X: 1, Y: 1, Z: 1}.Normalize()}
		a = gen.Base(t, "a")
		b = s2.Point{Vector: r3.Vector{X: a.Y, Y: a.Z, Z: a.X}}
	case 3:
		// a and b at nearly the same distance: b = a rotated about x, plus ulp noise
		a = gen.Related(t, "a", []s2.Point{x})
		if a == x {
			a = gen.Base(t, "a2")
		}
		ang := rapid.Float64Range(-math.Pi, math.Pi).Draw(t, "rot")
		b = s2.Rotate(a, x, s1.Angle(ang))
		b = gen.Perturb(t, "bn", b, 2)
	case 4:
		// same direction, different length
		a = gen.Base(t, "a")
		b = s2.Point{Vector: a.Mul(rapid.SampledFrom([]float64{1 + 0x1p-52, 1 - 0x1p-53, 1}).Draw(t, "len"))}
	default:
		a = gen.Related(t, "a", []s2.Point{x})
		b = gen.Related(t, "b", []s2.Point{x, a})
	}
	return xab{gen.FromPt(x), gen.FromPt(a), gen.FromPt(b)}
}

func validPt(ps ...s2.Point) bool { return strictlyUnit(ps...) }

func checkCompareDistances(c xab) ev.Outcome {
	x, a, b := c.X.Pt(), c.A.Pt(), c.B.Pt()
	o := ev.Outcome{}
	if !validPt(x, a, b) {
		o.Skip = true
		return o
	}
	ex := exact.CompareDistances(x.Vector, a.Vector, b.Vector)
	want := ex
	if ex == 0 {
		// documented symbolic rule: if A < B then A stands on the higher pedestal, AX > BX
		want = -exact.Cmp(a.Vector, b.Vector) // a<b -> +1
		if a == b {
			want = 0
		}
	}
	got := s2.CompareDistances(x, a, b)
	cosT := s2.VerifTriageCompareCosDistances(x, a, b)
	switch {
	case a == b:
		o.Class = "identical"
	case cosT != 0:
		o.Class = "triage-cos"
	case ex == 0:
		o.Class = "symbolic"
	default:
		o.Class = "sin2-or-exact"
	}
	o.NonTrivial = cosT == 0 && a != b
	if got != want {
		o.Err = fmt.Sprintf("CompareDistances=%d want %d (exact=%d, class=%s)", got, want, ex, o.Class)
		return o
	}
	if g := s2.CompareDistances(x, b, a); g != -want {
		o.Err = fmt.Sprintf("CompareDistances not antisymmetric: (x,a,b)=%d (x,b,a)=%d", got, g)
		return o
	}
	if a != b && got == 0 {
		o.Err = "CompareDistances==0 for distinct points"
		return o
	}
	if strictlyUnit(x, a, b) {
		if cosT != 0 && cosT != ex {
			o.Err = fmt.Sprintf("triageCompareCosDistances=%d but exact=%d", cosT, ex)
			o.Finding = "stage-cos"
			return o
		}
		if cosT == 0 && a != b {
			cosAX := a.Dot(x.Vector)
			s := 0
			if cosAX > 1/math.Sqrt2 {
				s = s2.VerifTriageCompareSin2Distances(x, a, b)
			} else if cosAX < -1/math.Sqrt2 {
				s = -s2.VerifTriageCompareSin2Distances(x, a, b)
			}
			if s != 0 {
				o.Class = "triage-sin2"
				if s != ex {
					o.Err = fmt.Sprintf("triageCompareSin2Distances stage=%d but exact=%d", s, ex)
					o.Finding = "stage-sin2"
					return o
				}
			}
		}
	}
	if g := s2.VerifExactCompareDistances(x, a, b); g != ex {
		o.Err = fmt.Sprintf("exactCompareDistances=%d but exact=%d", g, ex)
		return o
	}
	return o
}

type xabc struct{ X, A, B, C gen.P }

func genXABC(t *rapid.T) xabc {
	c := genXAB(t)
	x, a, b := c.X.Pt(), c.A.Pt(), c.B.Pt()
	cc := gen.Related(t, "c", []s2.Point{a, b, x})
	if rapid.Bool().Draw(t, "rotc") {
		cc = s2.Rotate(a, x, s1.Angle(rapid.Float64Range(-math.Pi, math.Pi).Draw(t, "rot2")))
	}
	return xabc{c.X, c.A, c.B, gen.FromPt(cc)}
}

// transitivity: "closer to x" is a strict total order on distinct points.
func checkTransitive(c xabc) ev.Outcome {
	x, p := c.X.Pt(), []s2.Point{c.A.Pt(), c.B.Pt(), c.C.Pt()}
	o := ev.Outcome{}
	if !validPt(x, p[0], p[1], p[2]) {
		o.Skip = true
		return o
	}
	ties := 0
	for i := 0; i < 3; i++ {
		for j := 0; j < 3; j++ {
			if i != j && exact.CompareDistances(x.Vector, p[i].Vector, p[j].Vector) == 0 {
				ties++
			}
		}
	}
	o.NonTrivial = ties > 0
	o.Class = fmt.Sprintf("ties=%d", ties/2)
	for i := 0; i < 3; i++ {
		for j := 0; j < 3; j++ {
			for k := 0; k < 3; k++ {
				if i == j || j == k || i == k {
					continue
				}
				if s2.CompareDistances(x, p[i], p[j]) < 0 && s2.CompareDistances(x, p[j], p[k]) < 0 &&
					!(s2.CompareDistances(x, p[i], p[k]) < 0) {
					o.Err = fmt.Sprintf("not transitive: %d<%d, %d<%d but not %d<%d", i, j, j, k, i, k)
					return o
				}
			}
		}
	}
	return o
}

type xyr struct {
	X, Y gen.P
	R    float64
}

func genXYR(t *rapid.T) xyr {
	x := gen.Base(t, "x")
	y := gen.Related(t, "y", []s2.Point{x})
	var r float64
	switch rapid.IntRange(0, 4).Draw(t, "rmode") {
	case 0:
		r = rapid.SampledFrom([]float64{0, 5e-324, 1e-300, 1e-30, 2 - math.Sqrt2, 2, 4, 1, 3, 3.9999999999999996}).Draw(t, "rconst")
	case 1:
		r = rapid.Float64Range(0, 4).Draw(t, "r")
	default:
		// the computed chord² rounded, moved by a few ulps
		r = x.Sub(y.Vector).Norm2()
		if rapid.Bool().Draw(t, "alt") {
			r = float64(s2.ChordAngleBetweenPoints(x, y))
		}
		r = gen.Ulps(r, rapid.IntRange(-3, 3).Draw(t, "ulps"))
		if r < 0 {
			r = 0
		}
		if r > 4 {
			r = 4
		}
	}
	return xyr{gen.FromPt(x), gen.FromPt(y), r}
}

func checkCompareDistance(c xyr) ev.Outcome {
	x, y := c.X.Pt(), c.Y.Pt()
	o := ev.Outcome{}
	if !validPt(x, y) || !(c.R >= 0 && c.R <= 4) {
		o.Skip = true
		return o
	}
	want := exact.CompareChord2(x.Vector, y.Vector, c.R)
	got := s2.CompareDistance(x, y, s1.ChordAngle(c.R))
	cosT := s2.VerifTriageCompareCosDistance(x, y, c.R)
	o.NonTrivial = cosT == 0
	switch {
	case cosT != 0:
		o.Class = "triage-cos"
	case want == 0:
		o.Class = "exact-equal"
	default:
		o.Class = "sin2-or-exact"
	}
	if got != want {
		o.Err = fmt.Sprintf("CompareDistance=%d want %d (class %s)", got, want, o.Class)
		return o
	}
	if g := s2.CompareDistance(y, x, s1.ChordAngle(c.R)); g != want {
		o.Err = fmt.Sprintf("CompareDistance not symmetric in x,y: %d vs %d", got, g)
		return o
	}
	if strictlyUnit(x, y) {
		if cosT != 0 && cosT != want {
			o.Err = fmt.Sprintf("triageCompareCosDistance=%d but exact=%d", cosT, want)
			o.Finding = "stage-cos-r"
			return o
		}
		if cosT == 0 && c.R < 2-math.Sqrt2 {
			if s := s2.VerifTriageCompareSin2Distance(x, y, c.R); s != 0 {
				o.Class = "triage-sin2"
				if s != want {
					o.Err = fmt.Sprintf("triageCompareSin2Distance=%d but exact=%d", s, want)
					o.Finding = "stage-sin2-r"
					return o
				}
			}
		}
	}
	if g := s2.VerifExactCompareDistance(x, y, s1.ChordAngle(c.R)); g != want {
		o.Err = fmt.Sprintf("exactCompareDistance=%d but exact=%d", g, want)
		return o
	}
	return o
}

type ab struct{ A, B gen.P }

func genDotPair(t *rapid.T) ab {
	a := gen.Base(t, "a")
	var b s2.Point
	switch rapid.IntRange(0, 4).Draw(t, "mode") {
	case 0:
		b = s2.Point{Vector: a.Ortho()}
	case 1:
		c := gen.Related(t, "c", []s2.Point{a})
		b = s2.Point{Vector: a.Cross(c.Vector)} // un-normalised, |b| ≤ 1, exactly ⟂ only up to rounding
		if b.Norm2() == 0 {
			b = s2.Point{Vector: a.Ortho()}
		}
	case 2:
		b = gen.Perturb(t, "pb", s2.Point{Vector: a.Ortho()}, 3)
	case 3:
		ps := gen.CoplanarTuple(t, "q", 2)
		a, b = ps[0], ps[1]
	default:
		b = gen.Related(t, "b", []s2.Point{a})
	}
	return ab{gen.FromPt(a), gen.FromPt(b)}
}

func checkSignDot(c ab) ev.Outcome {
	a, b := c.A.Pt(), c.B.Pt()
	o := ev.Outcome{}
	if !(a.Norm2() <= 2 && b.Norm2() <= 2) {
		o.Skip = true
		return o
	}
	want := exact.SignDot(a.Vector, b.Vector)
	got := s2.SignDotProd(a, b)
	tri := s2.VerifTriageSignDotProd(a, b)
	o.NonTrivial = tri == 0
	if tri != 0 {
		o.Class = "triage"
	} else if want == 0 {
		o.Class = "exact-zero"
	} else {
		o.Class = "exact-nonzero"
	}
	if got != want {
		o.Err = fmt.Sprintf("SignDotProd=%d want %d", got, want)
		return o
	}
	if tri != 0 && tri != want {
		o.Err = fmt.Sprintf("triageSignDotProd=%d but exact=%d", tri, want)
		return o
	}
	if g := s2.SignDotProd(b, a); g != want {
		o.Err = "SignDotProd not symmetric"
		return o
	}
	return o
}

type abco struct{ A, B, C, O gen.P }

func genCCW(t *rapid.T) abco {
	o := gen.Base(t, "o")
	ps := []s2.Point{o}
	var q [3]s2.Point
	for i := range q {
		q[i] = gen.Related(t, fmt.Sprintf("q%d", i), ps)
		if q[i] == o {
			q[i] = gen.Base(t, fmt.Sprintf("qq%d", i))
		}
		ps = append(ps, q[i])
	}
	return abco{gen.FromPt(q[0]), gen.FromPt(q[1]), gen.FromPt(q[2]), gen.FromPt(o)}
}

// OrderedCCW documented properties (1)–(5).
func checkOrderedCCW(c abco) ev.Outcome {
	a, b, cc, o := c.A.Pt(), c.B.Pt(), c.C.Pt(), c.O.Pt()
	out := ev.Outcome{}
	if a == o || b == o || cc == o || !strictlyUnit(a, b, cc, o) {
		out.Skip = true
		return out
	}
	dz := 0
	for _, tr := range [][3]s2.Point{{b, o, a}, {cc, o, b}, {a, o, cc}} {
		if exact.DetSign(tr[0].Vector, tr[1].Vector, tr[2].Vector) == 0 {
			dz++
		}
	}
	out.NonTrivial = dz > 0
	out.Class = fmt.Sprintf("zero-dets=%d", dz)
	f := s2.OrderedCCW
	if f(a, b, cc, o) && f(b, a, cc, o) && a != b {
		out.Err = "OrderedCCW property (1) violated"
	} else if f(a, b, cc, o) && f(a, cc, b, o) && b != cc {
		out.Err = "OrderedCCW property (2) violated"
	} else if f(a, b, cc, o) && f(cc, b, a, o) && a != b && b != cc && a != cc {
		// The documented (3) says "then a == b == c", which contradicts (4) for
		// a == b != c; only the consistent reading (distinct points cannot be
		// ordered both ways) is asserted.
		out.Err = "OrderedCCW property (3) violated: distinct a,b,c ordered both ways"
	} else if (a == b || b == cc) && !f(a, b, cc, o) {
		out.Err = "OrderedCCW property (4) violated"
	} else if a != b && b != cc && a == cc && f(a, b, cc, o) {
		out.Err = "OrderedCCW property (5) violated"
	}
	return out
}

// ---------------------------------------------------------------- triage band (directed)

// nbhd: a, b and a point c0 on (or next to) their great circle; the Check
// enumerates the whole lattice of ±3-ulp perturbations of c0 (343 points), so
// that many triples have a floating-point determinant right at the triage
// threshold, where a too-small error constant gives a wrong certain answer.
type nbhd struct{ A, B, C gen.P }

func genNbhd(t *rapid.T) nbhd {
	// all three coordinates substantial: the rounding error of the determinant is largest there
	bigPt := func(label string) s2.Point {
		co := func(l string) float64 {
			v := 0.3 + 0.45*float64(rapid.Uint32().Draw(t, l))/float64(math.MaxUint32)
			if rapid.Bool().Draw(t, l+"s") {
				v = -v
			}
			return v
		}
		return gen.Fix(s2.Point{Vector: r3.Vector{X: co(label + "x"), Y: co(label + "y"), Z: co(label + "z")}.Normalize()}, s2.Point{Vector: r3.Vector{X: 1}})
	}
	a := bigPt("a")
	var b s2.Point
	switch rapid.IntRange(0, 3).Draw(t, "bkind") {
	case 0:
		b = gen.Related(t, "b", []s2.Point{a})
	case 1:
		b = bigPt("b")
	default:
		// roughly perpendicular to a: |a×b| ≈ 1 maximises the absolute rounding error
		r := bigPt("r")
		b = gen.Fix(s2.Point{Vector: a.Cross(r.Vector).Normalize()}, r)
	}
	if b == a || b.Vector == a.Mul(-1) {
		b = bigPt("b2")
	}
	// c0 on the great circle of (a,b). In half of the cases its position is
	// chosen adversarially: the rounding error dn of the float cross product
	// n = a×b is computed exactly, and c0 is aligned with the component of dn in
	// the plane of the great circle, which maximises the error dn·c of the
	// float determinant (n+dn)·c at a point where the exact determinant is ~0.
	th := rapid.Float64Range(-math.Pi, math.Pi).Draw(t, "th")
	bp := a.Cross(b.Vector).Cross(a.Vector).Normalize()
	c := gen.Fix(s2.Point{Vector: a.Mul(math.Cos(th)).Add(bp.Mul(math.Sin(th))).Normalize()}, a)
	if rapid.Bool().Draw(t, "adversarial") {
		nf := a.Cross(b.Vector)
		vs, e := exact.IntVecs(a.Vector, b.Vector)
		ne := exact.Cross(vs[0], vs[1]) // exact a×b, scaled by 2^(2e)
		var dn r3.Vector
		for i, comp := range []float64{nf.X, nf.Y, nf.Z} {
			x := new(big.Float).SetPrec(400).SetInt(ne[i])
			x.SetMantExp(x, 2*e)
			d, _ := new(big.Float).SetPrec(400).Sub(new(big.Float).SetPrec(400).SetFloat64(comp), x).Float64()
			switch i {
			case 0:
				dn.X = d
			case 1:
				dn.Y = d
			default:
				dn.Z = d
			}
		}
		nh := nf.Normalize()
		inPlane := dn.Sub(nh.Mul(dn.Dot(nh)))
		if inPlane.Norm2() > 0 {
			sgn := 1.0
			if rapid.Bool().Draw(t, "flip") {
				sgn = -1
			}
			c = gen.Fix(s2.Point{Vector: inPlane.Mul(sgn).Normalize()}, c)
		}
	}
	return nbhd{gen.FromPt(a), gen.FromPt(b), gen.FromPt(c)}
}

func checkTriageBand(c nbhd) ev.Outcome {
	a, b, c0 := c.A.Pt(), c.B.Pt(), c.C.Pt()
	o := ev.Outcome{Counts: map[string]int{}}
	if !strictlyUnit(a, b, c0) || a == b {
		o.Skip = true
		return o
	}
	worst := 0.0
	for dx := -3; dx <= 3; dx++ {
		for dy := -3; dy <= 3; dy++ {
			for dz := -3; dz <= 3; dz++ {
				cc := s2.Point{Vector: r3.Vector{X: gen.Ulps(c0.X, dx), Y: gen.Ulps(c0.Y, dy), Z: gen.Ulps(c0.Z, dz)}}
				if !gen.Unit(cc) {
					continue
				}
				o.Counts["lattice_points"]++
				tri := int(s2.VerifTriageSign(a, b, cc))
				det := a.Cross(b.Vector).Dot(cc.Vector)
				if math.Abs(det) > 2e-15 {
					continue // far above any plausible threshold: covered by the sign sub-check
				}
				o.Counts["near_threshold"]++
				ex := exact.DetSign(a.Vector, b.Vector, cc.Vector)
				if tri != 0 {
					o.Counts["triage_decided_near_threshold"]++
					if tri != ex {
						o.Err = fmt.Sprintf("triageSign=%d with float determinant %.4g, but the exact determinant sign is %d (c = c0 %+d,%+d,%+d ulps)", tri, det, ex, dx, dy, dz)
						return o
					}
				}
				if got := int(s2.RobustSign(a, b, cc)); ex != 0 && got != ex {
					o.Err = fmt.Sprintf("RobustSign=%d, exact determinant sign %d (float determinant %.4g; c = c0 %+d,%+d,%+d ulps)", got, ex, det, dx, dy, dz)
					return o
				}
				if ex == 0 {
					if r := math.Abs(det) / (1.8274 * 0x1p-52); r > worst {
						worst = r
					}
				}
			}
		}
	}
	o.NonTrivial = o.Counts["near_threshold"] > 0
	o.Ratios = map[string]float64{"abs_float_det_when_exact_zero/maxDeterminantError": worst}
	return o
}

// ---------------------------------------------------------------- triage on identical arguments (directed, bulk)

// With two identical arguments the exact determinant is 0, so any non-zero
// answer of the floating-point triage stage is wrong and the float
// determinant IS its rounding error. Each case expands one drawn seed into
// 2000 point pairs (a pure function of the draws) so that errors near the
// top of the distribution are reached: a too-small error constant shows up as
// a certain non-zero sign for a repeated point.
type bulkPairs struct {
	Seed uint64
	N    int
}

func genBulkPairs(t *rapid.T) bulkPairs {
	return bulkPairs{Seed: rapid.Uint64().Draw(t, "seed"), N: 2000}
}

func splitmix(x *uint64) uint64 {
	*x += 0x9e3779b97f4a7c15
	z := *x
	z = (z ^ (z >> 30)) * 0xbf58476d1ce4e5b9
	z = (z ^ (z >> 27)) * 0x94d049bb133111eb
	return z ^ (z >> 31)
}

func unitFrom(x *uint64) s2.Point {
	for {
		f := func() float64 { return float64(int64(splitmix(x)>>11))/float64(1<<52) - 1 } // [-1,1)
		v := r3.Vector{X: f(), Y: f(), Z: f()}
		if n := v.Norm2(); n > 0.01 && n <= 1 {
			p := s2.Point{Vector: v.Normalize()}
			if gen.Unit(p) {
				return p
			}
		}
	}
}

func checkBulkIdentical(c bulkPairs) ev.Outcome {
	o := ev.Outcome{NonTrivial: true, Counts: map[string]int{}}
	st := c.Seed
	worst := 0.0
	for k := 0; k < c.N; k++ {
		a, b := unitFrom(&st), unitFrom(&st)
		if a == b {
			continue
		}
		for _, tr := range [][3]s2.Point{{a, b, a}, {a, a, b}, {b, a, a}} {
			det := tr[0].Cross(tr[1].Vector).Dot(tr[2].Vector)
			if r := math.Abs(det) / (1.8274 * 0x1p-52); r > worst {
				worst = r
			}
			if g := s2.VerifTriageSign(tr[0], tr[1], tr[2]); g != 0 {
				o.Err = fmt.Sprintf("triageSign(%v, %v, %v) = %d with two identical arguments (float determinant %.4g, exact determinant 0)", tr[0], tr[1], tr[2], g, det)
				return o
			}
			if g := s2.RobustSign(tr[0], tr[1], tr[2]); g != 0 {
				o.Err = fmt.Sprintf("RobustSign(%v, %v, %v) = %d with two identical arguments", tr[0], tr[1], tr[2], g)
				return o
			}
		}
		o.Counts["pairs"]++
	}
	o.Ratios = map[string]float64{"abs_float_det_of_repeated_point/maxDeterminantError": worst}
	return o
}

func init() {
	ev.Define("sign", ev.Options{
		Rule:  "triples from uniform/cube-symmetric/huge-exponent-spread/cell-derived/exactly-coplanar points and relatives (duplicates, same direction, near-duplicates 1e-300..1e-1, antipodes, near great circle, ±4 ulps); oracle = exact integer determinant sign, independent SoS polynomial when it is zero; all 6 permutations; stage soundness via hooks. Non-trivial = not decided by triageSign.",
		Quick: 600000, Thorough: 18000000}, genTriple, checkSign)
	ev.Define("triage_band", ev.Options{
		Rule:  "a, b with all coordinates > 0.25 (largest determinant rounding error) and c0 on their great circle; the Check enumerates all 343 points of the ±3-ulp lattice around c0 and, for every lattice point whose float determinant is below 2e-15, requires a non-zero triageSign to equal the exact determinant sign and RobustSign to equal it too. Directed at error constants that are too small by a small factor. Non-trivial: at least one lattice point near the threshold.",
		Quick: 60000, Thorough: 500000}, genNbhd, checkTriageBand)
	ev.Define("triage_identical_bulk", ev.Options{
		Rule:  "each case expands one drawn 64-bit seed (splitmix, a pure function of the draw) into 2000 uniformly distributed unit point pairs (a,b); for (a,b,a), (a,a,b), (b,a,a) the exact determinant is 0, so triageSign and RobustSign must be 0; the float determinant is its own rounding error and the worst error/constant ratio is reported. All cases non-trivial.",
		Quick: 40000, Thorough: 1000000}, genBulkPairs, checkBulkIdentical)
	ev.Define("sign5_realizable", ev.Options{
		Rule:  "5-tuples of distinct points (1/3 fully coplanar); the 20 three-term Grassmann–Plücker sign relations on the 10 RobustSign answers. Non-trivial = at least one triple has an exactly zero determinant.",
		Quick: 100000, Thorough: 3000000}, genFive, checkFive)
	ev.Define("compare_distances", ev.Options{
		Rule:  "x,a,b with a,b at exactly equal (reflections, coordinate permutations, same direction different length) or nearly equal (rotations about x ± ulps) distance from x; oracle = exact sign of (x·a)|b| − (x·b)|a| in integers, documented pedestal tie-break; antisymmetry; stage soundness. Non-trivial = cosine triage undecided and a≠b.",
		Quick: 600000, Thorough: 18000000}, genXAB, checkCompareDistances)
	ev.Define("compare_distances_transitive", ev.Options{
		Rule:  "x and three points; 'closer to x' must be transitive over all orderings. Non-trivial = at least one exact tie among the three.",
		Quick: 200000, Thorough: 6000000}, genXABC, checkTransitive)
	ev.Define("compare_distance_threshold", ev.Options{
		Rule:  "x,y and chord² threshold r in {constants 0, tiny, 2−√2, 2, 4; uniform; the computed chord² ±0..3 ulps}; oracle = exact sign of (2−r)|x||y| − 2x·y. Non-trivial = cosine triage undecided.",
		Quick: 600000, Thorough: 18000000}, genXYR, checkCompareDistance)
	ev.Define("sign_dot_prod", ev.Options{
		Rule:  "pairs that are perpendicular exactly / up to rounding / ±3 ulps, incl. un-normalised cross products (|b|²≤2 as documented); oracle = exact integer dot product sign. Non-trivial = triage undecided.",
		Quick: 300000, Thorough: 9000000}, genDotPair, checkSignDot)
	ev.Define("ordered_ccw", ev.Options{
		Rule:  "a,b,c around o from related points; documented properties (1)–(5) of OrderedCCW. Non-trivial = at least one of the three determinants is exactly zero.",
		Quick: 200000, Thorough: 6000000}, genCCW, checkOrderedCCW)
}
