package c19

import (
	"math"
	"math/bits"
	"sort"
)

// The membership model.
//
// All interval and rectangle operations of r1/s1/r2/s2.Rect only compare and
// select endpoints, so their point-set semantics over the REAL line / circle
// can be decided exactly on a finite order model: take all float64 values that
// occur (operand endpoints, result endpoints, probe points), sort them, and
// give every distinct value one position and every open gap between two
// neighbouring values one position. A closed interval is then the set of
// positions from its Lo to its Hi; subset, intersection, union, interior and
// complement of such sets are exactly the real-number relations, because a gap
// position stands for "any real strictly between two neighbouring values".
//
// The model is written without using any r1/s1 method.

const pi = math.Pi

// normPi maps the second representation of the point (-1,0) to the first.
func normPi(p float64) float64 {
	if p == -pi {
		return pi
	}
	return p
}

type bset uint64

func (a bset) subsetOf(b bset) bool { return a&^b == 0 }
func (a bset) has(i int) bool       { return i >= 0 && a>>uint(i)&1 == 1 }

// axis is a sorted set of distinct values on the line (circ=false) or on the
// circle (-π,π] (circ=true).
//
//	line:   positions 0..2n    value i ↔ 2i+1, gaps at even positions (0 = below all, 2n = above all)
//	circle: positions 0..2n-1  value i ↔ 2i,   gap after value i ↔ 2i+1 (the last gap wraps through ±π)
type axis struct {
	vals []float64
	circ bool
}

const maxAxisVals = 31

func newAxis(circ bool, vs ...float64) axis {
	w := make([]float64, 0, len(vs)+1)
	for _, v := range vs {
		if circ {
			v = normPi(v)
		}
		w = append(w, v)
	}
	if len(w) == 0 {
		w = append(w, 0)
	}
	sort.Float64s(w)
	out := w[:0]
	for i, v := range w {
		if i == 0 || v != out[len(out)-1] {
			out = append(out, v)
		}
	}
	if len(out) > maxAxisVals {
		panic("c19 harness: too many values on one axis")
	}
	return axis{out, circ}
}

func (m axis) npos() int {
	if m.circ {
		return 2 * len(m.vals)
	}
	return 2*len(m.vals) + 1
}

func (m axis) all() bset { return bset(1)<<uint(m.npos()) - 1 }

// pos returns the position of value v, or -1 if v is not on the axis.
func (m axis) pos(v float64) int {
	if m.circ {
		v = normPi(v)
	}
	i := sort.SearchFloat64s(m.vals, v)
	if i >= len(m.vals) || m.vals[i] != v {
		return -1
	}
	if m.circ {
		return 2 * i
	}
	return 2*i + 1
}

// valAt returns the value at an (even on the circle / odd on the line) position.
func (m axis) valAt(p int) float64 {
	if m.circ {
		return m.vals[p/2]
	}
	return m.vals[(p-1)/2]
}

// seg is the closed interval [lo,hi] on the line (empty if lo > hi).
func (m axis) seg(lo, hi float64) (bset, bool) {
	if lo > hi {
		return 0, true
	}
	a, b := m.pos(lo), m.pos(hi)
	if a < 0 || b < 0 {
		return 0, false
	}
	return (bset(1)<<uint(b+1) - 1) &^ (bset(1)<<uint(a) - 1), true
}

// segInterior is the open interval (lo,hi) on the line.
func (m axis) segInterior(lo, hi float64) (bset, bool) {
	s, ok := m.seg(lo, hi)
	if !ok || s == 0 {
		return 0, ok
	}
	return s &^ (bset(1) << uint(m.pos(lo))) &^ (bset(1) << uint(m.pos(hi))), true
}

// arc is the closed arc from lo counter-clockwise to hi on the circle, with
// the two special encodings [π,-π] = empty and [-π,π] = full.
func (m axis) arc(lo, hi float64) (bset, bool) {
	if lo == pi && hi == -pi {
		return 0, true
	}
	if lo == -pi && hi == pi {
		return m.all(), true
	}
	a, b := m.pos(lo), m.pos(hi)
	if a < 0 || b < 0 {
		return 0, false
	}
	n := m.npos()
	var s bset
	for i := a; ; i = (i + 1) % n {
		s |= bset(1) << uint(i)
		if i == b {
			break
		}
	}
	return s, true
}

// arcInterior: the interior of the arc (the full circle has no boundary).
func (m axis) arcInterior(lo, hi float64) (bset, bool) {
	s, ok := m.arc(lo, hi)
	if !ok || s == 0 {
		return 0, ok
	}
	if lo == -pi && hi == pi {
		return s, true
	}
	return s &^ (bset(1) << uint(m.pos(lo))) &^ (bset(1) << uint(m.pos(hi))), true
}

// runs counts the maximal runs of set positions (cyclically on the circle).
func (m axis) runs(s bset) int {
	n := m.npos()
	if s == 0 {
		return 0
	}
	if s == m.all() {
		return 1
	}
	c := 0
	for i := 0; i < n; i++ {
		prev := i - 1
		if prev < 0 {
			if !m.circ {
				if s.has(i) {
					c++
				}
				continue
			}
			prev = n - 1
		}
		if s.has(i) && !s.has(prev) {
			c++
		}
	}
	return c
}

// hull is the smallest segment of the line containing s.
func (m axis) hull(s bset) bset {
	if s == 0 {
		return 0
	}
	lo := bits.TrailingZeros64(uint64(s))
	hi := 63 - bits.LeadingZeros64(uint64(s))
	return (bset(1)<<uint(hi+1) - 1) &^ (bset(1)<<uint(lo) - 1)
}

// gap describes one maximal run of clear positions of a set on the circle that
// is bounded by two value positions of the set.
type gap struct {
	mask     bset
	from, to float64 // the set's values just before and just after the gap
}

func (m axis) gaps(s bset) []gap {
	n := m.npos()
	var out []gap
	if s == 0 || s == m.all() {
		return nil
	}
	for i := 0; i < n; i++ {
		if !(s.has(i) && !s.has((i+1)%n)) {
			continue
		}
		g := gap{}
		j := (i + 1) % n
		for !s.has(j) {
			g.mask |= bset(1) << uint(j)
			j = (j + 1) % n
		}
		// arcs begin and end on value positions, so i and j are even
		g.from, g.to = m.vals[i/2], m.vals[j/2]
		out = append(out, g)
	}
	return out
}

// posDist is the counter-clockwise distance from a to b on the circle, for
// normalised a, b, in float64 (error ≤ 2 ulp(2π) ≈ 1.8e-15; only used with a
// tolerance on near ties).
func posDist(a, b float64) float64 {
	d := b - a
	if d >= 0 {
		return d
	}
	return (b + pi) - (a - pi) // no cancellation for a ≈ π, b ≈ −π
}

// circDist is the distance between two normalised points on the circle.
func circDist(a, b float64) float64 { return math.Min(posDist(a, b), posDist(b, a)) }

// tieTol is the tolerance used when the documentation says "smallest"/"closest"
// and two candidates are compared by length: candidates whose lengths differ by
// less than this are both accepted (float64 evaluation of a length in [0,2π]
// is accurate to a few ulp(2π) = 8.9e-16).
const tieTol = 4e-15
