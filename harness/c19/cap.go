package c19

import (
	"fmt"
	"math"
	"math/big"

	"github.com/golang/geo/r3"
	"github.com/golang/geo/s1"
	"github.com/golang/geo/s2"
	"pgregory.net/rapid"

	"verifharness/internal/ev"
	"verifharness/internal/gen"
	"verifharness/internal/hp"
)

// Tolerance for caps, stated before running (DESIGN §2.5 gives "1e-14 relative +
// 1e-15 absolute in the unit of the result" for cap algebra). Cap operations go
// through rounded chord / angle arithmetic, so every cap claim is judged with a
// slack measured in CHORD LENGTH (2·sin(θ/2), which never changes faster than
// the angle θ itself):
//
//	δ(x) = 2e-15 + 1e-14·x        x = the chord lengths entering the comparison
//
// (the absolute part is 2e-15 rather than 1e-15 because two points of the
// documented unit-length tolerance in the same direction are already 8.9e-16
// apart as vectors). A predicate must be true when the exact slack is ≥ δ,
// false when it is ≤ −δ, and is free in between; a constructed cap must cover
// what it has to cover up to δ and must not be larger than the minimal one by
// more than δ. The worst observed |slack|/δ of every such claim is reported.
func capTol(x float64) float64 { return 2e-15 + 1e-14*math.Abs(x) }

func f64(x *big.Float) float64 { return hp.Float(x) }

type capSpec struct {
	C gen.P
	R float64 // squared chord radius: −1 (empty) or in [0,4]
}

func (s capSpec) build() s2.Cap { return s2.CapFromCenterChordAngle(s.C.Pt(), s1.ChordAngle(s.R)) }
func (s capSpec) ok() bool {
	// radii below 1e-300 are excluded: the harness reads radii back as 2·Height(),
	// which is exact only for normal numbers
	return gen.Unit(s.C.Pt()) && !math.IsNaN(s.R) && (s.R == -1 || s.R == 0 || s.R >= 1e-300 && s.R <= 4)
}
func (s capSpec) kind() string {
	switch {
	case s.R < 0:
		return "E"
	case s.R == 4:
		return "F"
	case s.R == 0:
		return "P"
	}
	return "N"
}

func capRadius2(c s2.Cap) float64 { return 2 * c.Height() }

var specialCentres = []r3.Vector{
	{X: 1}, {X: -1}, {Y: 1}, {Y: -1}, {Z: 1}, {Z: -1},
	{X: -1, Y: math.Copysign(0, -1)}, {X: -1, Y: math.Copysign(0, -1), Z: math.Copysign(0, -1)},
	{X: math.Copysign(0, -1), Y: math.Copysign(0, -1), Z: 1}, {X: 1, Y: math.Copysign(0, -1)},
}

func genCentre(t *rapid.T, label string, prev []s2.Point) s2.Point {
	switch rapid.IntRange(0, 9).Draw(t, label+".cmode") {
	case 0:
		return s2.Point{Vector: rapid.SampledFrom(specialCentres).Draw(t, label+".special")}
	case 1:
		// close to a pole
		d := gen.TinyAngle(t, label+".pole")
		th := rapid.Float64Range(-pi, pi).Draw(t, label+".poleth")
		z := float64(rapid.SampledFrom([]int{-1, 1}).Draw(t, label+".polez"))
		return gen.Fix(s2.Point{Vector: r3.Vector{X: d * math.Cos(th), Y: d * math.Sin(th), Z: z}.Normalize()}, s2.Point{Vector: r3.Vector{Z: z}})
	case 2:
		// on the ±π meridian / the equator
		lat := angleVal(t, label+".lat", pi/2, nil)
		lng := rapid.SampledFrom([]float64{pi, -pi, gen.Ulps(pi, -1), -gen.Ulps(pi, -1), 0, pi / 2}).Draw(t, label+".lng")
		return gen.Fix(s2.PointFromLatLng(s2.LatLng{Lat: s1.Angle(lat), Lng: s1.Angle(lng)}), s2.Point{Vector: r3.Vector{X: -1}})
	case 3, 4, 5:
		if len(prev) > 0 {
			return gen.Related(t, label, prev)
		}
	}
	return gen.Base(t, label)
}

var critRadii = []float64{2 - math.Sqrt2, 1, 2, 3, 2 + math.Sqrt2, 4}

// genRadius2 draws a squared chord radius; hints are angles (radians) that make
// the cap touch something (another cap from inside/outside, a pole).
func genRadius2(t *rapid.T, label string, hints []float64) float64 {
	mode := rapid.IntRange(0, 11).Draw(t, label+".rmode")
	switch {
	case mode == 0:
		return -1
	case mode == 1:
		return 0
	case mode == 2:
		return gen.Ulps(4, -rapid.IntRange(0, 3).Draw(t, label+".fu"))
	case mode == 3:
		return math.Pow(10, rapid.Float64Range(-299, -8).Draw(t, label+".tiny"))
	case mode == 4:
		r := gen.Ulps(rapid.SampledFrom(critRadii).Draw(t, label+".crit"), rapid.IntRange(-2, 2).Draw(t, label+".cu"))
		return math.Min(4, r)
	case mode <= 8 && len(hints) > 0:
		a := hints[rapid.IntRange(0, len(hints)-1).Draw(t, label+".hi")]
		if math.IsNaN(a) || a < 0 {
			a = 0
		}
		r := float64(s1.ChordAngleFromAngle(s1.Angle(a)))
		r = gen.Ulps(r, rapid.IntRange(-3, 3).Draw(t, label+".hu"))
		if r < 1e-300 {
			return 0
		}
		return math.Min(4, r)
	case mode == 9:
		if r := float64(s1.ChordAngleFromAngle(s1.Angle(rapid.Float64Range(0, pi).Draw(t, label+".ang")))); r >= 1e-300 {
			return r
		}
		return 0
	default:
		return rapid.Float64Range(0, 4).Draw(t, label+".u")
	}
}

// pointAt returns the point at angle theta from c in the direction phi
// (0 = towards the north pole, π/2 = east). Only a generator: its rounding is
// irrelevant because the oracle classifies the resulting float64 point.
func pointAt(c s2.Point, theta, phi float64) s2.Point {
	e := r3.Vector{X: -c.Y, Y: c.X}
	if e.Norm2() < 1e-30 {
		e = r3.Vector{Y: 1}
	}
	e = e.Normalize()
	n := c.Cross(e)
	dir := n.Mul(math.Cos(phi)).Add(e.Mul(math.Sin(phi)))
	return gen.Fix(s2.Point{Vector: c.Mul(math.Cos(theta)).Add(dir.Mul(math.Sin(theta))).Normalize()}, c)
}

func genProbe(t *rapid.T, label string, caps []capSpec) s2.Point {
	k := caps[rapid.IntRange(0, len(caps)-1).Draw(t, label+".cap")]
	c := k.C.Pt()
	theta := 0.0
	if k.R > 0 {
		theta = 2 * math.Asin(0.5*math.Sqrt(math.Min(4, k.R)))
	}
	switch rapid.IntRange(0, 7).Draw(t, label+".pmode") {
	case 0:
		return c
	case 1:
		return s2.Point{Vector: c.Mul(-1)}
	case 2:
		return gen.Base(t, label)
	case 3:
		return gen.Related(t, label, []s2.Point{c})
	default:
		f := rapid.SampledFrom([]float64{0.5, 1 - 1e-6, 1 - 1e-9, 1 - 1e-12, 1 - 1e-14, 1, 1 + 1e-14, 1 + 1e-12, 1 + 1e-9, 1.5}).Draw(t, label+".f")
		phi := rapid.SampledFrom([]float64{0, pi / 2, pi, -pi / 2}).Draw(t, label+".phi")
		if rapid.Bool().Draw(t, label+".rphi") {
			phi = rapid.Float64Range(-pi, pi).Draw(t, label+".phir")
		}
		th := theta * f
		if rapid.IntRange(0, 3).Draw(t, label+".abs") == 0 {
			th = theta + rapid.SampledFrom([]float64{-1e-7, -1e-10, -1e-13, 1e-13, 1e-10, 1e-7}).Draw(t, label+".dth")
		}
		return pointAt(c, math.Max(0, math.Min(pi, th)), phi)
	}
}

// ---------------------------------------------------------------------------
// pairs of caps

type capPairCase struct {
	A, B capSpec
	P    []gen.P
}

func genCapPair(t *rapid.T) capPairCase {
	ca := genCentre(t, "a", nil)
	ra := genRadius2(t, "a", nil)
	cb := genCentre(t, "b", []s2.Point{ca})
	d := float64(ca.Distance(cb))
	ta := 0.0
	if ra > 0 {
		ta = 2 * math.Asin(0.5*math.Sqrt(ra))
	}
	rb := genRadius2(t, "b", []float64{ta - d, d - ta, ta + d, d, ta, pi - ta, pi - d, 2*pi - d - ta})
	c := capPairCase{A: capSpec{gen.FromPt(ca), ra}, B: capSpec{gen.FromPt(cb), rb}}
	n := rapid.IntRange(0, 3).Draw(t, "np")
	for i := 0; i < n; i++ {
		c.P = append(c.P, gen.FromPt(genProbe(t, fmt.Sprintf("p%d", i), []capSpec{c.A, c.B})))
	}
	return c
}

type ratioRec map[string]float64

func (r ratioRec) add(k string, v float64) {
	if v > r[k] {
		r[k] = v
	}
}

// findingUnionExcludesPoint: see the Union section of checkCapPair and known_findings.json.
const findingUnionExcludesPoint = "cap-union-excludes-operand-point"

func checkCapPair(c capPairCase) ev.Outcome {
	o := ev.Outcome{Counts: map[string]int{}}
	if !c.A.ok() || !c.B.ok() || len(c.P) > 4 {
		o.Skip = true
		return o
	}
	for _, p := range c.P {
		if !gen.Unit(p.Pt()) {
			o.Skip = true
			return o
		}
	}
	a, b := c.A.build(), c.B.build()
	ca, cb := c.A.C.Pt(), c.B.C.Pt()
	pfx := fmt.Sprintf("cap: a={%v r2=%.17g} b={%v r2=%.17g}: ", ca.Vector, c.A.R, cb.Vector, c.B.R)
	fail := func(f string, args ...any) ev.Outcome { o.Err = pfx + fmt.Sprintf(f, args...); return o }
	failAs := func(finding, f string, args ...any) ev.Outcome {
		o.Err, o.Finding, o.NonTrivial = pfx+fmt.Sprintf(f, args...), finding, true
		return o
	}
	farProbes, unionProbes, unionShort := 0, 0, ""
	defer func() { // the map is shared with the returned copy
		o.Counts["addcap_far_rim_probes"] += farProbes
		o.Counts["union_far_rim_probes"] += unionProbes
	}()
	rat := ratioRec{}
	o.Ratios = rat

	for k, x := range []s2.Cap{a, b} {
		s := c.A
		if k == 1 {
			s = c.B
		}
		if !x.IsValid() || x.IsEmpty() != (s.R < 0) || x.IsFull() != (s.R == 4) {
			return fail("operand %d: IsValid/IsEmpty/IsFull wrong (%v %v %v)", k, x.IsValid(), x.IsEmpty(), x.IsFull())
		}
	}
	eA, eB := c.A.R < 0, c.B.R < 0
	var hA, hB, hD half
	if !eA {
		hA = halfFromChord2F(c.A.R)
	}
	if !eB {
		hB = halfFromChord2F(c.B.R)
	}
	hD = halfBetween(ca, cb)
	chD := f64(hD.chord())

	// classification
	rel := "-"
	minAbs := math.Inf(1)
	if !eA && !eB {
		sInt := f64(hp.Sub(hA.add(hB).chord(), hD.chord()))
		sAB := f64(hp.Sub(hA.chord(), hD.add(hB).chord()))
		sBA := f64(hp.Sub(hB.chord(), hD.add(hA).chord()))
		minAbs = math.Min(math.Abs(sInt), math.Min(math.Abs(sAB), math.Abs(sBA)))
		switch {
		case sInt < 0:
			rel = "disjoint"
		case sAB >= 0 || sBA >= 0:
			rel = "nested"
		default:
			rel = "overlap"
		}
		if minAbs < 1e-12 {
			rel += "+touching"
		}
	}
	o.Class = c.A.kind() + c.B.kind() + "/" + rel
	o.NonTrivial = eA || eB || c.A.R == 4 || c.B.R == 4 || minAbs < 1e-9 || chD == 0 || chD == 2

	// judge(pred, slack, scale): the predicate against the exact slack
	judge := func(name string, got bool, slack *big.Float, scale float64) string {
		s := f64(slack)
		d := capTol(scale)
		if got != (s >= 0) {
			rat.add(name+": |slack| of a wrong-side answer / δ", math.Abs(s)/d)
		}
		if s >= d && !got {
			return fmt.Sprintf("%s = false but the exact slack is %.6g ≥ δ=%.3g (chord length)", name, s, d)
		}
		if s <= -d && got {
			return fmt.Sprintf("%s = true but the exact slack is %.6g ≤ −δ=−%.3g (chord length)", name, s, d)
		}
		return ""
	}

	// Contains, both orders
	for k := 0; k < 2; k++ {
		x, y, sx, sy, hx, hy := a, b, c.A, c.B, hA, hB
		if k == 1 {
			x, y, sx, sy, hx, hy = b, a, c.B, c.A, hB, hA
		}
		got := x.Contains(y)
		name := fmt.Sprintf("Contains (order %d)", k)
		switch {
		case sx.R == 4 || sy.R < 0:
			if !got {
				return fail("%s = false although the container is full or the other cap is empty", name)
			}
		case sx.R < 0:
			if got {
				return fail("%s = true for an empty container and a non-empty cap", name)
			}
		default:
			need := hD.add(hy).chord()
			if e := judge(name, got, hp.Sub(hx.chord(), need), f64(hx.chord())+f64(need)); e != "" {
				return fail("%s", e)
			}
		}
	}
	// Intersects / InteriorIntersects
	{
		g1, g2 := a.Intersects(b), b.Intersects(a)
		if g1 != g2 {
			return fail("Intersects is not symmetric: %v vs %v", g1, g2)
		}
		if eA || eB {
			if g1 || a.InteriorIntersects(b) || b.InteriorIntersects(a) {
				return fail("Intersects/InteriorIntersects = true with an empty operand")
			}
		} else {
			reach := hA.add(hB).chord()
			slack := hp.Sub(reach, hD.chord())
			scale := f64(reach) + chD
			if e := judge("Intersects", g1, slack, scale); e != "" {
				return fail("%s", e)
			}
			for k := 0; k < 2; k++ {
				x, y, sx := a, b, c.A
				if k == 1 {
					x, y, sx = b, a, c.B
				}
				got := x.InteriorIntersects(y)
				if sx.R == 0 {
					if got {
						return fail("InteriorIntersects (order %d) = true for a cap without interior", k)
					}
					continue
				}
				if e := judge(fmt.Sprintf("InteriorIntersects (order %d)", k), got, slack, scale); e != "" {
					return fail("%s", e)
				}
			}
		}
	}
	// covers(U, X): U must contain cap X up to δ. Returns the violation amount / δ.
	covers := func(u s2.Cap, x capSpec, hx half) (float64, float64) {
		ru := capRadius2(u)
		if ru == 4 {
			return -1, 1
		}
		if ru < 0 {
			return math.Inf(1), 1
		}
		need := halfBetween(u.Center(), x.C.Pt()).add(hx).chord()
		have := halfFromChord2F(ru).chord()
		return f64(hp.Sub(need, have)), capTol(f64(need) + f64(have))
	}
	// InterpolateAtDistance (used by Union) divides by the norm of (a×b)×a. For
	// centres that are antipodal up to ~1e-150 the squared norm is a subnormal
	// number (precision loss: the centre is off by up to 1e-12) or zero (NaN centre).
	const minNormal = 2.2250738585072014e-308
	antipodalUnderflow := chD > 1.99 && (ca.PointCross(cb).Cross(ca.Vector).Norm2() < minNormal || cb.PointCross(ca).Cross(cb.Vector).Norm2() < minNormal)
	// Union, both orders
	for k := 0; k < 2; k++ {
		x, y, sx, sy := a, b, c.A, c.B
		if k == 1 {
			x, y, sx, sy = b, a, c.B, c.A
		}
		u := x.Union(y)
		name := fmt.Sprintf("Union (order %d)", k)
		ru := capRadius2(u)
		if !u.IsValid() || math.IsNaN(ru) {
			// InterpolateAtDistance divides by the norm of (a×b)×a; for centres that are
			// antipodal up to ~1e-162 that norm underflows to zero although PointCross
			// returned a non-zero vector, and the centre becomes NaN.
			if antipodalUnderflow {
				o.Finding = findingUnionAntipodalUnderflow
			}
			return fail("%s = %v (r2=%.17g) is not valid", name, u, ru)
		}
		switch {
		case sx.R < 0 && sy.R < 0:
			if !u.IsEmpty() {
				return fail("%s of two empty caps is not empty", name)
			}
			continue
		case sx.R < 0:
			if !u.Equal(y) {
				return fail("%s with an empty operand is not the other operand", name)
			}
			continue
		case sy.R < 0:
			if !u.Equal(x) {
				return fail("%s with an empty operand is not the other operand", name)
			}
			continue
		}
		for j, s := range []capSpec{c.A, c.B} {
			h := hA
			if j == 1 {
				h = hB
			}
			v, d := covers(u, s, h)
			if !antipodalUnderflow {
				rat.add("Union: uncovered chord length / δ", v/d)
			}
			if v > d {
				if antipodalUnderflow {
					o.Finding = findingUnionAntipodalUnderflow
				}
				return fail("%s = {%v r2=%.17g} does not contain operand %d: short by %.6g chord length (δ=%.3g)", name, u.Center().Vector, ru, j, v, d)
			}
		}
		// The strict reading, without δ: the point of each operand farthest from the
		// union's centre, if the operand says it contains it, should be in the union.
		// Union works in the angle domain with a computed centre and misses such points
		// by up to ~1e-15 in chord length: known finding cap-union-excludes-operand-point
		// (anything beyond 4e-15 has already failed the δ rule above). Recorded here,
		// returned only after every other assertion of this case has been made.
		if unionShort == "" && !u.IsFull() && !antipodalUnderflow {
			for j, op := range []s2.Cap{a, b} {
				oc, uc := op.Center(), u.Center()
				if op.IsFull() || op.IsEmpty() || oc == uc || oc.Dot(uc.Vector) < -0.999999 {
					continue
				}
				q := s2.InterpolateAtDistance(uc.Distance(oc)+op.Radius(), uc, oc)
				for step := 0; step < 4 && !op.ContainsPoint(q); step++ {
					q = s2.Point{Vector: q.Add(oc.Mul(float64(step+1) * 1e-16 * math.Max(1e-300, float64(op.Radius())))).Normalize()}
				}
				if !q.IsUnit() || !op.ContainsPoint(q) {
					continue
				}
				unionProbes++
				if !u.ContainsPoint(q) {
					short := math.Sqrt(float64(s2.ChordAngleBetweenPoints(uc, q))) - math.Sqrt(ru)
					if short <= 4e-15 {
						unionShort = fmt.Sprintf("%s = {%v r2=%.17g} does not contain %v, which operand %d contains (ContainsPoint): short by %.3g chord length", name, uc.Vector, ru, q, j, short)
					} else {
						return fail("%s = {%v r2=%.17g} does not contain %v, which operand %d contains: short by %.6g chord length", name, uc.Vector, ru, q, j, short)
					}
				}
			}
		}
		// minimality: radius ≤ max(θA, θB, (D+θA+θB)/2) + δ
		ideal := hp.Max(hA.chord(), hB.chord())
		s := hD.add(hA)
		if hp.Add(hB.c, s.c).Sign() <= 0 {
			ideal = hp.F(2)
		} else {
			ideal = hp.Max(ideal, s.add(hB).halve().chord())
		}
		have := hp.F(2)
		if ru < 4 {
			have = halfFromChord2F(ru).chord()
		}
		ex := f64(hp.Sub(have, ideal))
		d := capTol(f64(have) + f64(ideal))
		rat.add("Union: excess radius chord length / δ", ex/d)
		if ex > d {
			return fail("%s = {%v r2=%.17g} is larger than the smallest enclosing cap by %.6g chord length (δ=%.3g)", name, u.Center().Vector, ru, ex, d)
		}
		for i, p := range c.P {
			pp := p.Pt()
			for j, s := range []capSpec{c.A, c.B} {
				h := hA
				if j == 1 {
					h = hB
				}
				// the property statement itself, on the exact caps: a point of an operand
				// is a point of the union (up to δ in chord length)
				in := f64(hp.Sub(h.chord(), halfBetween(s.C.Pt(), pp).chord()))
				if in >= 0 && ru < 4 {
					out := f64(hp.Sub(halfBetween(u.Center(), pp).chord(), halfFromChord2F(ru).chord()))
					dd := capTol(4)
					rat.add("Union: probe of an operand outside the union by / δ", out/dd)
					if out > dd {
						return fail("%s does not contain probe %d of operand %d: outside by %.6g chord length (δ=%.3g)", name, i, j, out, dd)
					}
				}
			}
		}
	}
	// AddCap, both orders
	for k := 0; k < 2; k++ {
		x, y, sx, sy, hx, hy := a, b, c.A, c.B, hA, hB
		if k == 1 {
			x, y, sx, sy, hx, hy = b, a, c.B, c.A, hB, hA
		}
		r := x.AddCap(y)
		name := fmt.Sprintf("AddCap (order %d)", k)
		rr := capRadius2(r)
		if !r.IsValid() || math.IsNaN(rr) {
			return fail("%s = %v is not valid", name, r)
		}
		switch {
		case sx.R < 0:
			if !r.Equal(y) {
				return fail("%s to an empty cap is not the other cap", name)
			}
			continue
		case sy.R < 0:
			if !r.Equal(x) {
				return fail("%s of an empty cap changed the cap", name)
			}
			continue
		}
		if r.Center() != x.Center() || rr < sx.R {
			return fail("%s moved the centre or shrank the radius (r2 %.17g → %.17g)", name, sx.R, rr)
		}
		if !r.Contains(y) {
			return fail("%s = {r2=%.17g}: Contains(other) is false afterwards", name, rr)
		}
		need := hD.add(hy).chord()
		have := halfFromChord2F(rr).chord()
		short := f64(hp.Sub(need, have))
		d := capTol(f64(need) + f64(have))
		rat.add("AddCap: uncovered chord length / δ", short/d)
		if short > d {
			return fail("%s = {r2=%.17g} does not contain the other cap: short by %.6g (δ=%.3g)", name, rr, short, d)
		}
		// Strict membership at the far rim. AddCap "rounds up the distance to ensure
		// that the cap is actually contained" (its own comment): the point of the
		// other cap farthest from this centre, and its neighbours, if the other cap
		// says it contains them (ContainsPoint), must be contained by the result.
		// No tolerance: both sides are the library's own membership predicate.
		if !r.IsFull() && !y.IsFull() {
			xc, yc := x.Center(), y.Center()
			far := yc
			if xc != yc && xc.Dot(yc.Vector) > -0.999999 {
				far = s2.InterpolateAtDistance(xc.Distance(yc)+y.Radius(), xc, yc)
			}
			cands := []s2.Point{far}
			for _, pp := range c.P {
				// rim points of the other cap in directions close to the far one
				dir := s2.Point{Vector: far.Add(pp.Pt().Mul(1e-9)).Normalize()}
				if dir != yc && dir.Dot(yc.Vector) > -0.999999 {
					cands = append(cands, s2.InterpolateAtDistance(y.Radius(), yc, dir))
				}
			}
			for _, q := range cands {
				for step := 0; step < 4 && !y.ContainsPoint(q); step++ {
					q = s2.Point{Vector: q.Add(yc.Mul(float64(step+1) * 1e-16 * math.Max(1e-300, float64(y.Radius())))).Normalize()}
				}
				if !q.IsUnit() || !y.ContainsPoint(q) {
					continue
				}
				farProbes++
				if !r.ContainsPoint(q) {
					return failAs("addcap-excludes-operand-point", "%s = {r2=%.17g} does not contain %v, which the added cap {centre %v r2=%.17g} contains (ContainsPoint): squared chord from the centre %.17g", name, rr, q, yc, sy.R, float64(s2.ChordAngleBetweenPoints(xc, q)))
				}
			}
		}
		ex := f64(hp.Sub(have, hp.Max(need, hx.chord())))
		rat.add("AddCap: excess radius chord length / δ", ex/d)
		if ex > d {
			return fail("%s = {r2=%.17g} grew more than necessary by %.6g (δ=%.3g)", name, rr, ex, d)
		}
	}
	// probes: Contains(other) ⇒ every point of the other cap is a point of this cap (exact caps, up to δ)
	for i, p := range c.P {
		pp := p.Pt()
		for k := 0; k < 2; k++ {
			x, y, sx, sy, hx, hy := a, b, c.A, c.B, hA, hB
			if k == 1 {
				x, y, sx, sy, hx, hy = b, a, c.B, c.A, hB, hA
			}
			if sx.R < 0 || sy.R < 0 || sx.R == 4 || !x.Contains(y) {
				continue
			}
			if f64(hp.Sub(hy.chord(), halfBetween(sy.C.Pt(), pp).chord())) < 0 {
				continue
			}
			out := f64(hp.Sub(halfBetween(sx.C.Pt(), pp).chord(), hx.chord()))
			dd := capTol(4)
			rat.add("Contains: probe of the contained cap outside the container by / δ", out/dd)
			if out > dd {
				return fail("Contains (order %d) is true but probe %d of the contained cap is outside the container by %.6g chord length (δ=%.3g)", k, i, out, dd)
			}
		}
	}
	if unionShort != "" {
		return failAs(findingUnionExcludesPoint, "%s", unionShort)
	}
	return o
}

// ---------------------------------------------------------------------------
// one cap: points, complement, expansion, constructors, rectangle bound

type capPointCase struct {
	A      capSpec
	P      []gen.P
	Dist   float64 // Expanded distance (radians, ≥ 0)
	Angle  float64 // CapFromCenterAngle argument
	Height float64 // CapFromCenterHeight argument
	Area   float64 // CapFromCenterArea argument
}

func genCapPoint(t *rapid.T) capPointCase {
	ca := genCentre(t, "a", nil)
	lat := math.Atan2(ca.Z, math.Hypot(ca.X, ca.Y))
	ra := genRadius2(t, "a", []float64{pi/2 - lat, pi/2 + lat, pi / 2, lat, -lat})
	c := capPointCase{A: capSpec{gen.FromPt(ca), ra}}
	n := rapid.IntRange(1, 4).Draw(t, "np")
	for i := 0; i < n; i++ {
		c.P = append(c.P, gen.FromPt(genProbe(t, fmt.Sprintf("p%d", i), []capSpec{c.A})))
	}
	ta := 0.0
	if ra > 0 {
		ta = 2 * math.Asin(0.5*math.Sqrt(ra))
	}
	arg := func(l string, crit []float64) float64 {
		switch rapid.IntRange(0, 3).Draw(t, l+".mode") {
		case 0:
			return gen.Ulps(rapid.SampledFrom(crit).Draw(t, l+".crit"), rapid.IntRange(-2, 2).Draw(t, l+".u"))
		case 1:
			return math.Pow(10, rapid.Float64Range(-300, 0).Draw(t, l+".tiny"))
		default:
			return rapid.Float64Range(-0.5, 1.25).Draw(t, l+".f") * crit[len(crit)-1]
		}
	}
	c.Dist = math.Abs(arg("dist", []float64{0, pi / 4, pi / 2, pi - ta, pi}))
	c.Angle = arg("angle", []float64{0, pi / 4, pi / 2, 3 * pi / 4, pi})
	c.Height = arg("height", []float64{0, 0.5, 1, 2})
	c.Area = arg("area", []float64{0, pi, 2 * pi, 4 * pi})
	for _, v := range []*float64{&c.Dist, &c.Angle, &c.Height, &c.Area} {
		if math.IsNaN(*v) || math.IsInf(*v, 0) {
			*v = 0
		}
	}
	return c
}

const (
	findingUnionAntipodalUnderflow = "cap-union-antipodal-underflow"
	findingCapRectBoundMinusPi     = "cap-rectbound-lng-minus-pi"
	findingCapRectBoundAsin        = "cap-rectbound-lng-asin-near-one"
	// rectBoundMargin: a probe at least this far (chord length) inside the cap
	// must be inside the bounding rectangle.
	rectBoundMargin = 1e-13
)

func checkCapPoint(c capPointCase) ev.Outcome {
	o := ev.Outcome{}
	if !c.A.ok() || len(c.P) < 1 || len(c.P) > 5 {
		o.Skip = true
		return o
	}
	for _, p := range c.P {
		if !gen.Unit(p.Pt()) {
			o.Skip = true
			return o
		}
	}
	for _, v := range []float64{c.Dist, c.Angle, c.Height, c.Area} {
		if math.IsNaN(v) || math.Abs(v) > 100 {
			o.Skip = true
			return o
		}
	}
	if c.Dist < 0 {
		o.Skip = true
		return o
	}
	a := c.A.build()
	ca := c.A.C.Pt()
	empty, full := c.A.R < 0, c.A.R == 4
	pfx := fmt.Sprintf("cap: a={%v r2=%.17g}: ", ca.Vector, c.A.R)
	fail := func(f string, args ...any) ev.Outcome { o.Err = pfx + fmt.Sprintf(f, args...); return o }
	rat := ratioRec{}
	o.Ratios = rat
	var hA half
	chA := 0.0
	if !empty {
		hA = halfFromChord2F(c.A.R)
		chA = f64(hA.chord())
	}
	lat := math.Atan2(ca.Z, math.Hypot(ca.X, ca.Y))
	polar := ""
	if !empty && !full {
		th := 2 * math.Asin(0.5*math.Sqrt(c.A.R))
		switch {
		case math.Abs(lat+th-pi/2) < 1e-9 || math.Abs(lat-th+pi/2) < 1e-9:
			polar = "+touches-pole"
		case lat+th > pi/2 || lat-th < -pi/2:
			polar = "+covers-pole"
		}
	}
	o.Class = c.A.kind() + polar
	o.NonTrivial = empty || full || c.A.R == 0 || polar != ""

	comp := a.Complement()
	exp := a.Expanded(s1.Angle(c.Dist))
	rb := a.RectBound()
	if !comp.IsValid() || !exp.IsValid() || math.IsNaN(capRadius2(exp)) {
		return fail("Complement or Expanded(%g) is not a valid cap", c.Dist)
	}
	// Complement
	switch {
	case full:
		if !comp.IsEmpty() {
			return fail("Complement of the full cap is not empty")
		}
	case empty:
		if !comp.IsFull() {
			return fail("Complement of the empty cap is not full")
		}
	default:
		if comp.Center().Vector != ca.Mul(-1) {
			return fail("Complement centre is not the antipode")
		}
		if d := math.Abs(capRadius2(comp) - (4 - c.A.R)); d > 1e-15 {
			return fail("Complement r2 = %.17g, want 4 − %.17g (off by %.3g)", capRadius2(comp), c.A.R, d)
		}
	}
	// Expanded
	switch {
	case empty:
		if !exp.IsEmpty() {
			return fail("Expanded of the empty cap is not empty")
		}
	default:
		if exp.Center() != ca {
			return fail("Expanded moved the centre")
		}
		want := hA.add(halfFromAngle(c.Dist)).chord()
		have := hp.F(2)
		if r := capRadius2(exp); r < 4 {
			have = halfFromChord2F(r).chord()
		}
		diff := f64(hp.Sub(have, want))
		d := capTol(f64(want) + f64(have))
		rat.add("Expanded: |radius chord length error| / δ", math.Abs(diff)/d)
		if math.Abs(diff) > d {
			return fail("Expanded(%.17g) r2 = %.17g: chord length off by %.6g (δ=%.3g)", c.Dist, capRadius2(exp), diff, d)
		}
		if capRadius2(exp) < c.A.R {
			return fail("Expanded(%.17g ≥ 0) shrank the cap: r2 %.17g → %.17g", c.Dist, c.A.R, capRadius2(exp))
		}
	}
	// Radius()
	if got := a.Radius().Radians(); empty {
		if got >= 0 {
			return fail("Radius() of the empty cap = %g, want negative", got)
		}
	} else {
		diff := f64(hp.Sub(halfFromAngle(got).chord(), hA.chord()))
		d := capTol(2 * chA)
		rat.add("Radius(): chord length error / δ", math.Abs(diff)/d)
		if math.Abs(diff) > d || got < 0 || got > pi {
			return fail("Radius() = %.17g: chord length off by %.6g (δ=%.3g)", got, diff, d)
		}
	}
	// RectBound: validity and the centre
	rbBad := ""
	rbFinding := ""
	switch {
	case empty:
		if !rb.IsEmpty() || !rb.IsValid() {
			return fail("RectBound of the empty cap is not the empty rectangle")
		}
	case !validLL(rb) || !rb.IsValid():
		rbBad = fmt.Sprintf("RectBound = {lat[%.17g,%.17g] lng[%.17g,%.17g]} is not a valid rectangle", rb.Lat.Lo, rb.Lat.Hi, rb.Lng.Lo, rb.Lng.Hi)
		if rb.Lng.Lo == -pi && rb.Lng.Hi != pi || rb.Lng.Hi == -pi && rb.Lng.Lo != pi {
			rbFinding = findingCapRectBoundMinusPi
		} else {
			return fail("%s", rbBad)
		}
	case full && !rb.IsFull():
		return fail("RectBound of the full cap is not the full rectangle")
	case !rb.ContainsPoint(ca):
		return fail("RectBound = {lat[%.17g,%.17g] lng[%.17g,%.17g]} does not contain the cap centre", rb.Lat.Lo, rb.Lat.Hi, rb.Lng.Lo, rb.Lng.Hi)
	}
	// probes
	for i, p := range c.P {
		pp := p.Pt()
		hP := halfBetween(ca, pp)
		in := 0.0 // signed depth (chord length) of the probe inside the cap
		if !empty {
			in = f64(hp.Sub(hA.chord(), hP.chord()))
		}
		d := capTol(chA + f64(hP.chord()))
		got, gotInt := a.ContainsPoint(pp), a.InteriorContainsPoint(pp)
		switch {
		case empty:
			if got || gotInt {
				return fail("the empty cap contains probe %d", i)
			}
		case full:
			if !got || !gotInt {
				return fail("the full cap does not contain probe %d", i)
			}
		default:
			if got != (in >= 0) {
				rat.add("ContainsPoint: |depth| of a wrong-side answer / δ", math.Abs(in)/d)
			}
			if in >= d && !(got && gotInt) {
				return fail("probe %d %v lies %.6g inside (δ=%.3g) but ContainsPoint=%v InteriorContainsPoint=%v", i, pp.Vector, in, d, got, gotInt)
			}
			if in <= -d && (got || gotInt) {
				return fail("probe %d %v lies %.6g outside (δ=%.3g) but ContainsPoint=%v InteriorContainsPoint=%v", i, pp.Vector, -in, d, got, gotInt)
			}
			if gotInt && !got {
				return fail("probe %d is in the interior but not in the cap", i)
			}
		}
		// complement: with the original covers everything; interiors disjoint
		// (judged in squared-chord units: the complement radius 4−r2 is only
		// representable to ulp(4), the documented weakness of ChordAngle near π)
		if !empty && !full {
			cg := comp.ContainsPoint(pp)
			depth2 := f64(hp.Sub(hp.F(c.A.R), sq(hP.chord())))
			t2 := chordTol2(4)
			if got == cg {
				rat.add("Complement: |r2 − d2| of a probe in both or neither / bound", math.Abs(depth2)/t2)
			}
			if math.Abs(depth2) >= t2 && (got == cg || got != (depth2 > 0)) {
				return fail("probe %d (squared-chord depth %.6g, bound %.3g): cap says %v, complement says %v", i, depth2, t2, got, cg)
			}
		}
		// AddPoint
		r := a.AddPoint(pp)
		rr := capRadius2(r)
		if !r.IsValid() || !r.ContainsPoint(pp) {
			return fail("AddPoint(probe %d) = {r2=%.17g} does not contain the point or is invalid", i, rr)
		}
		if empty {
			if r.Center() != pp || rr != 0 {
				return fail("AddPoint to the empty cap is not the singleton")
			}
		} else {
			if r.Center() != ca || rr < c.A.R {
				return fail("AddPoint moved the centre or shrank the cap")
			}
			if rr < 4 {
				ex := f64(hp.Sub(halfFromChord2F(rr).chord(), hp.Max(hA.chord(), hP.chord())))
				rat.add("AddPoint: excess radius chord length / δ", ex/d)
				if ex > d {
					return fail("AddPoint(probe %d) grew the cap by %.6g more than necessary (δ=%.3g)", i, ex, d)
				}
			}
		}
		// Expanded keeps points
		if got && !exp.ContainsPoint(pp) {
			return fail("Expanded(%.17g) lost probe %d", c.Dist, i)
		}
		// RectBound keeps points that are robustly inside
		if !empty && rbBad == "" && in >= rectBoundMargin {
			if !rb.ContainsPoint(pp) {
				ll := s2.LatLngFromPoint(pp)
				// longitude half-width = asin(sin θ / cos lat): when the ratio is within
				// 1e-5 of 1 the rounding of the ratio is amplified by 1/√(1−x²)
				x := math.Sqrt(c.A.R*(1-0.25*c.A.R)) / math.Cos(lat)
				if rb.Lat.Contains(ll.Lat.Radians()) && kindS1(rb.Lng) != "F" && x > 1-1e-5 && x <= 1+1e-15 {
					rbBad = fmt.Sprintf("probe %d %v (lat %.17g lng %.17g) lies %.6g (chord length) inside the cap but outside RectBound = {lat[%.17g,%.17g] lng[%.17g,%.17g]} (sinθ/cos(lat) = %.17g)",
						i, pp.Vector, ll.Lat.Radians(), ll.Lng.Radians(), in, rb.Lat.Lo, rb.Lat.Hi, rb.Lng.Lo, rb.Lng.Hi, x)
					rbFinding = findingCapRectBoundAsin
					continue
				}
				return fail("probe %d %v (lat %.17g lng %.17g) lies %.6g (chord length) inside the cap but outside RectBound = {lat[%.17g,%.17g] lng[%.17g,%.17g]}",
					i, pp.Vector, ll.Lat.Radians(), ll.Lng.Radians(), in, rb.Lat.Lo, rb.Lat.Hi, rb.Lng.Lo, rb.Lng.Hi)
			}
		}
	}
	// constructors
	{
		k := s2.CapFromCenterAngle(ca, s1.Angle(c.Angle))
		switch {
		case !k.IsValid():
			return fail("CapFromCenterAngle(%g) is not valid", c.Angle)
		case c.Angle < 0:
			if !k.IsEmpty() {
				return fail("CapFromCenterAngle(%g) is not empty", c.Angle)
			}
		default:
			want := halfFromAngle(c.Angle).chord()
			have := halfFromChord2F(math.Min(4, capRadius2(k))).chord()
			diff := f64(hp.Sub(have, want))
			d := capTol(2 * f64(want))
			rat.add("CapFromCenterAngle: chord length error / δ", math.Abs(diff)/d)
			if math.Abs(diff) > d || k.IsEmpty() || (c.Angle >= pi) != k.IsFull() && math.Abs(c.Angle-pi) > 1e-7 {
				return fail("CapFromCenterAngle(%.17g) r2 = %.17g: chord length off by %.6g (δ=%.3g)", c.Angle, capRadius2(k), diff, d)
			}
		}
		k = s2.CapFromCenterHeight(ca, c.Height)
		switch {
		case !k.IsValid():
			return fail("CapFromCenterHeight(%g) is not valid", c.Height)
		case c.Height < 0 && !k.IsEmpty(), c.Height >= 2 && !k.IsFull(), c.Height >= 0 && c.Height < 2 && (k.Height() != c.Height || k.IsEmpty() || k.IsFull()):
			return fail("CapFromCenterHeight(%.17g): height %.17g empty=%v full=%v", c.Height, k.Height(), k.IsEmpty(), k.IsFull())
		}
		k = s2.CapFromCenterArea(ca, c.Area)
		switch {
		case !k.IsValid():
			return fail("CapFromCenterArea(%g) is not valid", c.Area)
		case c.Area <= -1e-300 && !k.IsEmpty(), c.Area >= 4*pi && !k.IsFull(): // (−5e-324/π underflows to −0: not judged)
			return fail("CapFromCenterArea(%.17g): empty=%v full=%v", c.Area, k.IsEmpty(), k.IsFull())
		case c.Area >= 0 && c.Area < 4*pi && (k.IsEmpty() || math.Abs(k.Area()-c.Area) > 1e-15+1e-14*c.Area):
			return fail("CapFromCenterArea(%.17g).Area() = %.17g", c.Area, k.Area())
		}
		k = s2.CapFromPoint(ca)
		if !k.IsValid() || !k.ContainsPoint(ca) || capRadius2(k) != 0 || k.IsEmpty() {
			return fail("CapFromPoint is not the singleton cap")
		}
		if e, f := s2.EmptyCap(), s2.FullCap(); !e.IsValid() || !e.IsEmpty() || !f.IsValid() || !f.IsFull() || !f.Complement().IsEmpty() || !e.Complement().IsFull() {
			return fail("EmptyCap/FullCap inconsistent")
		}
	}
	if rbBad != "" {
		o.Err, o.Finding = pfx+rbBad, rbFinding
		return o
	}
	return o
}

// ---------------------------------------------------------------------------
// s1.ChordAngle arithmetic and conversions

type chordCase struct{ A, B, Ang, E float64 }

func genChord(t *rapid.T) chordCase {
	r := func(l string, hints []float64) float64 {
		v := genRadius2(t, l, hints)
		if v <= 0 && rapid.IntRange(0, 7).Draw(t, l+".keep0") != 0 {
			v = rapid.Float64Range(0, 4).Draw(t, l+".redraw")
		}
		return math.Max(0, v)
	}
	a := r("a", nil)
	ta := 2 * math.Asin(0.5*math.Sqrt(a))
	b := r("b", []float64{ta, pi - ta, pi/2 - ta, ta / 2})
	var ang float64
	switch rapid.IntRange(0, 4).Draw(t, "amode") {
	case 0:
		ang = gen.Ulps(rapid.SampledFrom([]float64{0, pi / 4, pi / 2, pi, 2 * pi, -1}).Draw(t, "acrit"), rapid.IntRange(-2, 2).Draw(t, "au"))
	case 1:
		ang = math.Pow(10, rapid.Float64Range(-300, 0).Draw(t, "atiny"))
	default:
		ang = rapid.Float64Range(-1, 4).Draw(t, "au2")
	}
	e := rapid.SampledFrom([]float64{0, 1e-15, -1e-15, 1, -1, 5, -5}).Draw(t, "e")
	return chordCase{a, b, ang, e}
}

// chordTol2: tolerance in squared-chord units for the arithmetic on ChordAngles
// (DESIGN §2.5: 1e-14 relative + 1e-15 absolute in the unit of the result).
func chordTol2(scale float64) float64 { return 1e-15 + 1e-14*math.Abs(scale) }

func sq(x *big.Float) *big.Float { return hp.Mul(x, x) }

func checkChord(c chordCase) ev.Outcome {
	o := ev.Outcome{}
	ok := func(v float64) bool { return !math.IsNaN(v) && v >= 0 && v <= 4 }
	if !ok(c.A) || !ok(c.B) || math.IsNaN(c.Ang) || math.Abs(c.Ang) > 100 || math.IsNaN(c.E) || math.Abs(c.E) > 100 {
		o.Skip = true
		return o
	}
	a, b := s1.ChordAngle(c.A), s1.ChordAngle(c.B)
	hA, hB := halfFromChord2F(c.A), halfFromChord2F(c.B)
	rat := ratioRec{}
	o.Ratios = rat
	fail := func(f string, args ...any) ev.Outcome {
		o.Err = fmt.Sprintf("chordangle a=%.17g b=%.17g ang=%.17g: ", c.A, c.B, c.Ang) + fmt.Sprintf(f, args...)
		return o
	}
	sum := hA.add(hB)
	switch {
	case sum.beyondPi():
		o.Class = "sum≥π"
	case c.A == 0 || c.B == 0:
		o.Class = "zero-operand"
	default:
		o.Class = "sum<π"
	}
	o.NonTrivial = c.A == 0 || c.B == 0 || c.A == 4 || c.B == 4 || math.Abs(c.A+c.B-4) < 1e-9 || math.Abs(c.A-c.B) < 1e-9
	near := func(name string, got float64, want *big.Float, scale float64) string {
		if math.IsNaN(got) || math.IsInf(got, 0) {
			return fmt.Sprintf("%s = %g", name, got)
		}
		d := f64(hp.Abs(hp.Sub(hp.F(got), want)))
		t := chordTol2(scale)
		rat.add(name+": error / bound", d/t)
		if math.IsNaN(got) || d > t {
			return fmt.Sprintf("%s = %.17g, want %.17g (error %.3g > %.3g)", name, got, f64(want), d, t)
		}
		return ""
	}
	// Add
	wantAdd := sq(sum.chord())
	for k, g := range []s1.ChordAngle{a.Add(b), b.Add(a)} {
		if e := near(fmt.Sprintf("Add(order %d)", k), float64(g), wantAdd, f64(wantAdd)); e != "" {
			return fail("%s", e)
		}
		if g > 4 || g < 0 {
			return fail("Add = %.17g outside [0,4]", float64(g))
		}
	}
	// Sub
	for k := 0; k < 2; k++ {
		x, y, hx, hy := a, b, hA, hB
		if k == 1 {
			x, y, hx, hy = b, a, hB, hA
		}
		g := x.Sub(y)
		if x <= y && y != 0 {
			if g != 0 {
				return fail("Sub(order %d) = %.17g, want 0 for a ≤ b", k, float64(g))
			}
			continue
		}
		s := hp.Sub(hp.Mul(hx.s, hy.c), hp.Mul(hx.c, hy.s)) // sin(hx − hy) ≥ 0
		want := hp.Mul(hp.F(4), sq(s))
		if e := near(fmt.Sprintf("Sub(order %d)", k), float64(g), want, math.Max(c.A, c.B)); e != "" {
			return fail("%s", e)
		}
		if g < 0 || float64(g) > float64(x)+chordTol2(float64(x)) {
			return fail("Sub(order %d) = %.17g outside [0,a]", k, float64(g))
		}
	}
	// trigonometry
	sin2 := hp.Mul(hp.F(c.A), hp.Sub(one(), hp.Quo(hp.F(c.A), hp.F(4))))
	if e := near("Sin2", a.Sin2(), sin2, 1); e != "" {
		return fail("%s", e)
	}
	if e := near("Sin", a.Sin(), hp.Sqrt(sin2), 1); e != "" {
		return fail("%s", e)
	}
	if e := near("Cos", a.Cos(), hp.Sub(one(), hp.Quo(hp.F(c.A), hp.F(2))), 1); e != "" {
		return fail("%s", e)
	}
	// conversions
	ang := a.Angle().Radians()
	if ang < 0 || ang > pi || math.IsNaN(ang) {
		return fail("Angle() = %.17g outside [0,π]", ang)
	}
	if e := near("chord²(Angle())", c.A, sq(halfFromAngle(ang).chord()), c.A); e != "" {
		return fail("%s", e)
	}
	if c.A <= c.B && a.Angle() > b.Angle() || c.A >= c.B && a.Angle() < b.Angle() {
		return fail("Angle() is not monotone: %.17g vs %.17g", a.Angle().Radians(), b.Angle().Radians())
	}
	fa := s1.ChordAngleFromAngle(s1.Angle(c.Ang))
	if c.Ang < 0 {
		if fa != s1.NegativeChordAngle {
			return fail("ChordAngleFromAngle(negative) = %.17g", float64(fa))
		}
	} else {
		want := sq(halfFromAngle(c.Ang).chord())
		if e := near("ChordAngleFromAngle", float64(fa), want, f64(want)); e != "" {
			return fail("%s", e)
		}
		if fa < 0 || fa > 4 {
			return fail("ChordAngleFromAngle = %.17g outside [0,4]", float64(fa))
		}
	}
	// ChordAngleFromSquaredLength, Expanded, Successor, Predecessor
	if g := s1.ChordAngleFromSquaredLength(c.A + c.B); float64(g) != math.Min(4, c.A+c.B) {
		return fail("ChordAngleFromSquaredLength(%.17g) = %.17g", c.A+c.B, float64(g))
	}
	if g := a.Expanded(c.E); float64(g) != math.Max(0, math.Min(4, c.A+c.E)) {
		return fail("Expanded(%g) = %.17g", c.E, float64(g))
	}
	if s1.NegativeChordAngle.Expanded(c.E) != s1.NegativeChordAngle || !s1.InfChordAngle().Expanded(c.E).IsInfinity() {
		return fail("Expanded changed a special value")
	}
	su, pr := a.Successor(), a.Predecessor()
	switch {
	case !(su > a) || !(pr < a):
		return fail("Successor/Predecessor not strictly ordered: %.17g %.17g", float64(pr), float64(su))
	case c.A < 4 && (su > 4 || su.Predecessor() != a):
		return fail("Successor().Predecessor() != a")
	case c.A == 4 && !su.IsInfinity():
		return fail("Successor of the straight angle is not infinity")
	case c.A == 0 && pr != s1.NegativeChordAngle:
		return fail("Predecessor of zero is not the negative chord angle")
	case c.A > 0 && pr.Successor() != a:
		return fail("Predecessor().Successor() != a")
	}
	if s1.NegativeChordAngle.Successor() != 0 || s1.InfChordAngle().Predecessor() != s1.StraightChordAngle ||
		s1.NegativeChordAngle.Predecessor() != s1.NegativeChordAngle || !s1.InfChordAngle().Successor().IsInfinity() {
		return fail("documented special cases of Successor/Predecessor")
	}
	if s1.NegativeChordAngle.Angle() >= 0 || !math.IsInf(s1.InfChordAngle().Angle().Radians(), 1) {
		return fail("Angle() of the special values")
	}
	return o
}

func init() {
	ev.Define("cap_pair", ev.Options{
		Rule:  "two caps: centres special (axes, negative zeros, poles, ±π meridian) / uniform / cell-derived / related (same, antipodal, 1e-300..1e-1 apart); squared-chord radii from {empty, 0, 4−0..3 ulps, 1e-300..1e-8, 45°/60°/90°/120°/135°/180° ±0..2 ulps, uniform, and the radii that make the caps touch from inside/outside (|θA−D|, θA+D, D, π−θA, … ±0..3 ulps)}; 0-3 probes on/near either boundary (±1e-14…1e-6 relative and absolute), centres, antipodes, random. Oracle: 320-bit half-angle algebra (square roots only) for D+θB ≤ θA, θA+θB ≥ D and the smallest enclosing cap; slack in chord length with δ = 2e-15 + 1e-14·scale. Contains/Intersects/InteriorIntersects right outside ±δ; Union contains both (≤ δ) and is minimal (≤ δ), empty operand neutral, and - strict reading, evaluated last in a case - contains each operand's point farthest from the union's centre when the operand contains it (it does not for ~12% of cases: known finding cap-union-excludes-operand-point, limited to 4e-15 chord length; count union_far_rim_probes); AddCap keeps centre, only grows, Contains(other) afterwards, minimal, and - strictly, with no tolerance, because both sides are the library's own ContainsPoint - contains the point of the added cap farthest from the receiver's centre and up to 4 rim points next to it whenever the added cap contains them (count addcap_far_rim_probes); probes robustly inside an operand are in the Union; all results valid. Non-trivial = empty/full operand, some slack within 1e-9 of zero, or identical/antipodal centres.",
		Quick: 60000, Thorough: 4000000}, genCapPair, checkCapPair)
	ev.Define("cap_point_ops", ev.Options{
		Rule:  "one cap (as in cap_pair; radii also chosen so that the cap just touches / just covers a pole), 1-4 probes, an expansion distance ≥ 0, constructor arguments (angle, height, area incl. negative and beyond-full). ContainsPoint/InteriorContainsPoint right outside ±δ of the boundary (320-bit chord lengths), exact for empty/full; Complement: antipodal centre, r2 = 4−r2, exactly one of cap/complement contains a probe ≥3δ from the boundary; Expanded: same centre, radius chord length within δ of θ+dist, never shrinks, keeps contained probes; Radius(); AddPoint contains the point, minimal; RectBound valid, contains the centre and every probe ≥1e-13 inside; CapFromCenterAngle/Height/Area/Point, EmptyCap, FullCap. Non-trivial = empty/full/singleton cap or a cap touching/covering a pole.",
		Quick: 60000, Thorough: 4000000}, genCapPoint, checkCapPoint)
	ev.Define("chordangle_ops", ev.Options{
		Rule:  "two squared chord lengths in [0,4] (same families as cap radii, b also from θa, π−θa, π/2−θa, θa/2 ±ulps), an angle (critical/tiny/uniform −1..4), an error term. Add/Sub against the 320-bit half-angle formulas (1e-15 + 1e-14·scale in squared-chord units), clamping at π and at 0, Sin2/Sin/Cos, Angle() round trip and monotonicity, ChordAngleFromAngle (negative → Negative, > π clamped), ChordAngleFromSquaredLength clamp, Expanded clamp and special values, Successor/Predecessor laws. Non-trivial = an operand is 0 or 4, a+b within 1e-9 of 4, or a within 1e-9 of b.",
		Quick: 60000, Thorough: 4000000}, genChord, checkChord)
}
