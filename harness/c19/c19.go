// Package c19: interval, rectangle and cap algebra is sound with respect to
// point membership (r1, s1, r2, s2.Rect, s2.Cap, s1.ChordAngle, s1.Angle,
// s2.LatLng).
//
// Files: model.go (exact order model of the line and the circle), c19.go
// (value generators, r1 and s1 sub-checks, the exhaustive s1 grid), rect.go
// (r2.Rect and s2.Rect as products of the 1-D models), hpang.go (high precision
// sine/cosine and half-angle algebra), cap.go (caps and chord angles against
// the high precision oracle).
package c19

import (
	"fmt"
	"math"
	"os"
	"strings"

	"github.com/golang/geo/r1"
	"github.com/golang/geo/s1"
	"pgregory.net/rapid"

	"verifharness/internal/ev"
	"verifharness/internal/gen"
)

// ---------------------------------------------------------------------------
// value generators

var critAngles = []float64{0, pi / 4, -pi / 4, pi / 2, -pi / 2, 3 * pi / 4, -3 * pi / 4, pi, -pi}

func clampAbs(v, lim float64) float64 {
	if v > lim {
		return lim
	}
	if v < -lim {
		return -lim
	}
	return v
}

// angleVal draws a value in [-lim, lim] (lim = π or π/2): a critical value
// ±0..2 ulps, a value taken from pool ±0..2 ulps, zero/negative zero/tiny, or uniform.
func angleVal(t *rapid.T, label string, lim float64, pool []float64) float64 {
	mode := rapid.IntRange(0, 9).Draw(t, label+".mode")
	switch {
	case mode <= 3:
		v := rapid.SampledFrom(critAngles).Draw(t, label+".crit")
		if math.Abs(v) > lim {
			v = math.Copysign(lim, v)
		}
		return clampAbs(gen.Ulps(v, rapid.IntRange(-2, 2).Draw(t, label+".ulps")), lim)
	case mode <= 6 && len(pool) > 0:
		v := pool[rapid.IntRange(0, len(pool)-1).Draw(t, label+".pi")]
		return clampAbs(gen.Ulps(v, rapid.IntRange(-2, 2).Draw(t, label+".pulps")), lim)
	case mode == 7:
		return clampAbs(rapid.SampledFrom([]float64{0, math.Copysign(0, -1), 5e-324, -5e-324, 1e-300, -1e-300, 1e-17, -1e-17, 1, -1, 3, -3}).Draw(t, label+".small"), lim)
	default:
		return rapid.Float64Range(-lim, lim).Draw(t, label+".u")
	}
}

// lineVal draws a finite value on the real line (|v| ≤ 1e300 so that no
// operation of the check overflows).
func lineVal(t *rapid.T, label string, pool []float64) float64 {
	mode := rapid.IntRange(0, 9).Draw(t, label+".mode")
	switch {
	case mode <= 2:
		v := rapid.SampledFrom([]float64{0, 1, -1, 0.5, 2, pi / 2, -pi / 2, pi, -pi, 1e300, -1e300}).Draw(t, label+".crit")
		return gen.Ulps(v, rapid.IntRange(-2, 2).Draw(t, label+".ulps"))
	case mode <= 6 && len(pool) > 0:
		v := pool[rapid.IntRange(0, len(pool)-1).Draw(t, label+".pi")]
		return gen.Ulps(v, rapid.IntRange(-2, 2).Draw(t, label+".pulps"))
	case mode == 7:
		return rapid.SampledFrom([]float64{0, math.Copysign(0, -1), 5e-324, -5e-324, 1e-300, -1e-300, 2.5e-16, -2.5e-16}).Draw(t, label+".small")
	case mode == 8:
		return rapid.Float64Range(-1e3, 1e3).Draw(t, label+".w")
	default:
		return rapid.Float64Range(-4, 4).Draw(t, label+".u")
	}
}

// ---------------------------------------------------------------------------
// r1

type iv1 struct{ Lo, Hi float64 }

func (i iv1) r1() r1.Interval { return r1.Interval{Lo: i.Lo, Hi: i.Hi} }
func (i iv1) empty() bool     { return i.Lo > i.Hi }

func genIv1(t *rapid.T, label string, val func(string) float64) iv1 {
	switch rapid.IntRange(0, 15).Draw(t, label+".kind") {
	case 0:
		return iv1{1, 0} // canonical empty
	case 1:
		a, b := val(label+".a"), val(label+".b")
		if a < b {
			a, b = b, a
		}
		if a == b {
			return iv1{1, 0}
		}
		return iv1{a, b} // non-canonical empty
	case 2, 3:
		a := val(label + ".a")
		return iv1{a, a}
	default:
		a, b := val(label+".a"), val(label+".b")
		if a > b {
			a, b = b, a
		}
		return iv1{a, b}
	}
}

type r1Case struct {
	A, B iv1
	P    []float64
	M    float64
}

func genR1(t *rapid.T) r1Case {
	var pool []float64
	val := func(l string) float64 { return lineVal(t, l, pool) }
	a := genIv1(t, "a", val)
	pool = []float64{a.Lo, a.Hi}
	b := genIv1(t, "b", val)
	pool = []float64{a.Lo, a.Hi, b.Lo, b.Hi}
	n := rapid.IntRange(0, 3).Draw(t, "np")
	ps := make([]float64, n)
	for i := range ps {
		ps[i] = val(fmt.Sprintf("p%d", i))
	}
	var m float64
	switch rapid.IntRange(0, 5).Draw(t, "mmode") {
	case 0:
		m = 0
	case 1:
		m = rapid.SampledFrom([]float64{5e-324, 1e-300, 1e-17, 1, 1e300}).Draw(t, "mc")
	case 2:
		// half the length ± ulps, negated: the shrink that just empties the interval
		m = -gen.Ulps(0.5*(a.Hi-a.Lo), rapid.IntRange(-2, 2).Draw(t, "mu"))
	case 3:
		m = -rapid.Float64Range(0, 4).Draw(t, "mneg")
	default:
		m = rapid.Float64Range(0, 4).Draw(t, "mpos")
	}
	if math.IsNaN(m) || math.IsInf(m, 0) {
		m = 0
	}
	return r1Case{a, b, ps, m}
}

func kind1(i iv1) string {
	switch {
	case i.empty():
		return "E"
	case i.Lo == i.Hi:
		return "S"
	}
	return "N"
}

func checkR1(c r1Case) ev.Outcome {
	o := ev.Outcome{}
	for _, v := range append([]float64{c.A.Lo, c.A.Hi, c.B.Lo, c.B.Hi, c.M}, c.P...) {
		if math.IsNaN(v) || math.Abs(v) > 1e301 {
			o.Skip = true
			return o
		}
	}
	if len(c.P) > 4 {
		o.Skip = true
		return o
	}
	a, b := c.A.r1(), c.B.r1()
	o.Class = kind1(c.A) + "-" + kind1(c.B)
	shared := c.A.Lo == c.B.Lo || c.A.Lo == c.B.Hi || c.A.Hi == c.B.Lo || c.A.Hi == c.B.Hi
	o.NonTrivial = shared || c.A.empty() || c.B.empty() || c.A.Lo == c.A.Hi || c.B.Lo == c.B.Hi

	u1, u2 := a.Union(b), b.Union(a)
	x1, x2 := a.Intersection(b), b.Intersection(a)
	ea, eb := a.Expanded(c.M), b.Expanded(c.M)
	vals := []float64{a.Lo, a.Hi, b.Lo, b.Hi, u1.Lo, u1.Hi, u2.Lo, u2.Hi, x1.Lo, x1.Hi, x2.Lo, x2.Hi, ea.Lo, ea.Hi, eb.Lo, eb.Hi}
	vals = append(vals, c.P...)
	type ptres struct {
		add   r1.Interval
		clamp float64
	}
	var pr []ptres
	for _, p := range c.P {
		r := ptres{add: a.AddPoint(p)}
		vals = append(vals, r.add.Lo, r.add.Hi)
		if !a.IsEmpty() {
			r.clamp = a.ClampPoint(p)
			vals = append(vals, r.clamp)
		}
		pr = append(pr, r)
	}
	for _, v := range vals {
		if math.IsNaN(v) || math.IsInf(v, 0) {
			o.Err = fmt.Sprintf("non-finite result value from finite inputs: a=%v b=%v m=%g", a, b, c.M)
			return o
		}
	}
	m := newAxis(false, vals...)
	set := func(i r1.Interval) bset { s, _ := m.seg(i.Lo, i.Hi); return s }
	inter := func(i r1.Interval) bset { s, _ := m.segInterior(i.Lo, i.Hi); return s }
	A, B := set(a), set(b)
	fail := func(f string, args ...any) ev.Outcome {
		o.Err = fmt.Sprintf("r1: a=[%g,%g] b=[%g,%g]: ", a.Lo, a.Hi, b.Lo, b.Hi) + fmt.Sprintf(f, args...)
		return o
	}
	if a.IsEmpty() != (A == 0) || b.IsEmpty() != (B == 0) {
		return fail("IsEmpty disagrees with the model")
	}
	// point membership
	for _, p := range vals {
		bit := bset(1) << uint(m.pos(p))
		if a.Contains(p) != (A&bit != 0) {
			return fail("a.Contains(%g)=%v, model %v", p, a.Contains(p), A&bit != 0)
		}
		if a.InteriorContains(p) != (inter(a)&bit != 0) {
			return fail("a.InteriorContains(%g)=%v, model %v", p, a.InteriorContains(p), inter(a)&bit != 0)
		}
	}
	// relations, both orders
	for k := 0; k < 2; k++ {
		x, y, X, Y := a, b, A, B
		if k == 1 {
			x, y, X, Y = b, a, B, A
		}
		if got, want := x.ContainsInterval(y), Y.subsetOf(X); got != want {
			return fail("order %d: ContainsInterval=%v, model %v", k, got, want)
		}
		if got, want := x.InteriorContainsInterval(y), Y.subsetOf(inter(x)); got != want {
			return fail("order %d: InteriorContainsInterval=%v, model %v", k, got, want)
		}
		if got, want := x.Intersects(y), X&Y != 0; got != want {
			return fail("order %d: Intersects=%v, model %v", k, got, want)
		}
		if got, want := x.InteriorIntersects(y), inter(x)&Y != 0; got != want {
			return fail("order %d: InteriorIntersects=%v, model %v", k, got, want)
		}
		if got, want := x.Equal(y), X == Y; got != want {
			return fail("order %d: Equal=%v, model %v", k, got, want)
		}
	}
	// union = hull of the union, intersection = the intersection (as point sets)
	for k, u := range []r1.Interval{u1, u2} {
		if set(u) != m.hull(A|B) {
			return fail("Union (order %d) = [%g,%g] is not the smallest interval containing both", k, u.Lo, u.Hi)
		}
	}
	for k, x := range []r1.Interval{x1, x2} {
		if set(x) != A&B {
			return fail("Intersection (order %d) = [%g,%g] is not the set of common points", k, x.Lo, x.Hi)
		}
	}
	// expansion
	for k, e := range []r1.Interval{ea, eb} {
		X := A
		if k == 1 {
			X = B
		}
		E := set(e)
		switch {
		case X == 0 && E != 0:
			return fail("Expanded(%g) of an empty interval is not empty: [%g,%g]", c.M, e.Lo, e.Hi)
		case c.M >= 0 && !X.subsetOf(E):
			return fail("Expanded(%g) (operand %d) = [%g,%g] lost points", c.M, k, e.Lo, e.Hi)
		case c.M <= 0 && !E.subsetOf(X):
			return fail("Expanded(%g) (operand %d) = [%g,%g] gained points", c.M, k, e.Lo, e.Hi)
		}
	}
	// AddPoint, ClampPoint
	for i, p := range c.P {
		bit := bset(1) << uint(m.pos(p))
		if set(pr[i].add) != m.hull(A|bit) {
			return fail("AddPoint(%g) = [%g,%g] is not the smallest interval containing a and p", p, pr[i].add.Lo, pr[i].add.Hi)
		}
		if A != 0 {
			q := pr[i].clamp
			qb := bset(1) << uint(m.pos(q))
			want := p
			if A&bit == 0 {
				if p < a.Lo {
					want = a.Lo
				} else {
					want = a.Hi
				}
			}
			if A&qb == 0 || q != want {
				return fail("ClampPoint(%g) = %g, want %g (closest point of a)", p, q, want)
			}
		}
	}
	return o
}

// ---------------------------------------------------------------------------
// s1

// s1spec describes how an s1.Interval is constructed (constructors are under test too).
type s1spec struct {
	Kind   int // 0 IntervalFromEndpoints(Lo,Hi), 1 empty, 2 full, 3 IntervalFromPointPair(Lo,Hi)
	Lo, Hi float64
}

func (s s1spec) build() s1.Interval {
	switch s.Kind {
	case 1:
		return s1.EmptyInterval()
	case 2:
		return s1.FullInterval()
	case 3:
		return s1.IntervalFromPointPair(s.Lo, s.Hi)
	}
	return s1.IntervalFromEndpoints(s.Lo, s.Hi)
}

func (s s1spec) inDomain() bool {
	ok := func(v float64) bool { return !math.IsNaN(v) && math.Abs(v) <= pi }
	return s.Kind >= 0 && s.Kind <= 3 && ok(s.Lo) && ok(s.Hi)
}

func genS1(t *rapid.T, label string, pool []float64) s1spec {
	val := func(l string) float64 { return angleVal(t, l, pi, pool) }
	switch rapid.IntRange(0, 11).Draw(t, label+".kind") {
	case 0:
		return s1spec{Kind: 1}
	case 1:
		return s1spec{Kind: 2}
	case 2:
		a := val(label + ".a")
		return s1spec{0, a, a}
	case 3:
		return s1spec{3, val(label + ".a"), val(label + ".b")}
	case 4:
		if len(pool) >= 2 {
			// the complement's endpoints ± ulps
			return s1spec{0, clampAbs(gen.Ulps(pool[1], rapid.IntRange(-1, 1).Draw(t, label+".cu")), pi),
				clampAbs(gen.Ulps(pool[0], rapid.IntRange(-1, 1).Draw(t, label+".cv")), pi)}
		}
		fallthrough
	default:
		return s1spec{0, val(label + ".a"), val(label + ".b")}
	}
}

func kindS1(i s1.Interval) string {
	switch {
	case i.Lo == pi && i.Hi == -pi:
		return "E"
	case i.Lo == -pi && i.Hi == pi:
		return "F"
	case i.Lo == i.Hi:
		return "S"
	case i.Lo > i.Hi:
		return "I"
	}
	return "N"
}

// validS1 is the documented validity condition written out independently.
func validS1(i s1.Interval) bool {
	if math.IsNaN(i.Lo) || math.IsNaN(i.Hi) || math.Abs(i.Lo) > pi || math.Abs(i.Hi) > pi {
		return false
	}
	if i.Lo == -pi && i.Hi != pi {
		return false
	}
	if i.Hi == -pi && i.Lo != pi {
		return false
	}
	return true
}

func nontrivialS1(a, b s1.Interval) bool {
	for _, v := range []float64{a.Lo, a.Hi, b.Lo, b.Hi} {
		if math.Abs(v) == pi {
			return true
		}
	}
	if a.Lo == b.Lo || a.Lo == b.Hi || a.Hi == b.Lo || a.Hi == b.Hi {
		return true
	}
	return a.Lo > a.Hi || b.Lo > b.Hi
}

func arcLen(i s1.Interval) float64 {
	switch kindS1(i) {
	case "E":
		return -1
	case "F":
		return 2 * pi
	}
	return posDist(i.Lo, i.Hi)
}

// s1Pair checks every binary operation and relation of the pair (a,b) and the
// point predicates on the probes against the circle model. It returns an error
// text and a finding class ("" = unclassified).
func s1Pair(a, b s1.Interval, probes []float64) (string, string) {
	if !validS1(a) || !validS1(b) || !a.IsValid() || !b.IsValid() {
		return fmt.Sprintf("constructor produced an invalid interval: a=%v valid=%v b=%v valid=%v", a, a.IsValid(), b, b.IsValid()), "s1-constructor-invalid"
	}
	type named struct {
		name string
		iv   s1.Interval
	}
	res := []named{
		{"a.Union(b)", a.Union(b)}, {"b.Union(a)", b.Union(a)},
		{"a.Intersection(b)", a.Intersection(b)}, {"b.Intersection(a)", b.Intersection(a)},
		{"a.Complement()", a.Complement()}, {"b.Complement()", b.Complement()},
	}
	e0, e1, e2, e3 := normPi(a.Lo), normPi(a.Hi), normPi(b.Lo), normPi(b.Hi)
	isEnd := func(v float64) bool { v = normPi(v); return v == e0 || v == e1 || v == e2 || v == e3 }
	vals := make([]float64, 0, 16+len(probes))
	vals = append(vals, a.Lo, a.Hi, b.Lo, b.Hi, pi, 0)
	vals = append(vals, probes...)
	pfx := fmt.Sprintf("s1: a=[%.17g,%.17g] b=[%.17g,%.17g]: ", a.Lo, a.Hi, b.Lo, b.Hi)
	for _, r := range res {
		if !validS1(r.iv) || !r.iv.IsValid() {
			return pfx + fmt.Sprintf("%s = [%.17g,%.17g] is not a valid interval", r.name, r.iv.Lo, r.iv.Hi), ""
		}
		if k := kindS1(r.iv); k != "E" && k != "F" {
			if !isEnd(r.iv.Lo) || !isEnd(r.iv.Hi) {
				return pfx + fmt.Sprintf("%s = [%.17g,%.17g] has an endpoint that is no operand endpoint", r.name, r.iv.Lo, r.iv.Hi), ""
			}
		}
	}
	m := newAxis(true, vals...)
	set := func(i s1.Interval) bset { s, _ := m.arc(i.Lo, i.Hi); return s }
	inter := func(i s1.Interval) bset { s, _ := m.arcInterior(i.Lo, i.Hi); return s }
	A, B := set(a), set(b)
	if a.IsEmpty() != (A == 0) || b.IsEmpty() != (B == 0) || a.IsFull() != (kindS1(a) == "F") || b.IsFull() != (kindS1(b) == "F") ||
		a.IsInverted() != (a.Lo > a.Hi) {
		return pfx + "IsEmpty/IsFull/IsInverted disagree with the representation", ""
	}
	// point predicates on all probes, both representations of ±π
	for _, p := range append(vals, -pi) {
		bit := bset(1) << uint(m.pos(p))
		for k, x := range []s1.Interval{a, b} {
			X := A
			if k == 1 {
				X = B
			}
			if got, want := x.Contains(p), X&bit != 0; got != want {
				return pfx + fmt.Sprintf("operand %d: Contains(%.17g)=%v, model %v", k, p, got, want), ""
			}
			if got, want := x.InteriorContains(p), inter(x)&bit != 0; got != want {
				return pfx + fmt.Sprintf("operand %d: InteriorContains(%.17g)=%v, model %v", k, p, got, want), ""
			}
		}
	}
	// relations
	for k := 0; k < 2; k++ {
		x, y, X, Y := a, b, A, B
		if k == 1 {
			x, y, X, Y = b, a, B, A
		}
		if got, want := x.ContainsInterval(y), Y.subsetOf(X); got != want {
			return pfx + fmt.Sprintf("order %d: ContainsInterval=%v, model %v", k, got, want), ""
		}
		if got, want := x.InteriorContainsInterval(y), Y.subsetOf(inter(x)); got != want {
			return pfx + fmt.Sprintf("order %d: InteriorContainsInterval=%v, model %v", k, got, want), ""
		}
		if got, want := x.Intersects(y), X&Y != 0; got != want {
			return pfx + fmt.Sprintf("order %d: Intersects=%v, model %v", k, got, want), ""
		}
		if got, want := x.InteriorIntersects(y), inter(x)&Y != 0; got != want {
			return pfx + fmt.Sprintf("order %d: InteriorIntersects=%v, model %v", k, got, want), ""
		}
	}
	// union
	U, I := A|B, A&B
	for k := 0; k < 2; k++ {
		r := res[k]
		S := set(r.iv)
		if !U.subsetOf(S) {
			return pfx + fmt.Sprintf("%s = [%.17g,%.17g] does not contain both operands", r.name, r.iv.Lo, r.iv.Hi), ""
		}
		switch {
		case U == m.all():
			if kindS1(r.iv) != "F" {
				return pfx + fmt.Sprintf("%s = [%.17g,%.17g]: operands cover the circle, want the full interval", r.name, r.iv.Lo, r.iv.Hi), ""
			}
		case U == 0:
			if kindS1(r.iv) != "E" {
				return pfx + fmt.Sprintf("%s of two empty intervals is not empty", r.name), ""
			}
		case m.runs(U) == 1:
			if S != U || kindS1(r.iv) == "F" {
				return pfx + fmt.Sprintf("%s = [%.17g,%.17g] is larger than the (connected) union", r.name, r.iv.Lo, r.iv.Hi), ""
			}
		default:
			gs := m.gaps(U)
			if len(gs) != 2 {
				return "harness: expected two gaps", "harness"
			}
			ch := -1
			for gi, g := range gs {
				if S == U|g.mask {
					ch = gi
				}
			}
			if ch < 0 || kindS1(r.iv) == "F" {
				return pfx + fmt.Sprintf("%s = [%.17g,%.17g] is not the union plus one of the two gaps", r.name, r.iv.Lo, r.iv.Hi), ""
			}
			if l0, l1 := posDist(gs[ch].from, gs[ch].to), posDist(gs[1-ch].from, gs[1-ch].to); l0 > l1+tieTol {
				return pfx + fmt.Sprintf("%s = [%.17g,%.17g] bridges the longer gap (%.17g) instead of the shorter (%.17g): not the smallest interval", r.name, r.iv.Lo, r.iv.Hi, l0, l1), ""
			}
		}
	}
	// intersection
	for k := 2; k < 4; k++ {
		r := res[k]
		S := set(r.iv)
		if !I.subsetOf(S) {
			return pfx + fmt.Sprintf("%s = [%.17g,%.17g] misses common points", r.name, r.iv.Lo, r.iv.Hi), ""
		}
		if !S.subsetOf(U) {
			return pfx + fmt.Sprintf("%s = [%.17g,%.17g] contains points of neither operand", r.name, r.iv.Lo, r.iv.Hi), ""
		}
		if m.runs(I) <= 1 {
			if S != I {
				// Nested operands: the implementation picks "the shorter" by comparing
				// float64 lengths; when the lengths tie within rounding it may return
				// the containing operand (longer by < tieTol). Anything else is wrong.
				tie := false
				if I == A && r.iv == b || I == B && r.iv == a {
					cont, inner := b, a
					if r.iv == a {
						cont, inner = a, b
					}
					tie = arcLen(cont) <= arcLen(inner)+tieTol
				}
				if !tie {
					return pfx + fmt.Sprintf("%s = [%.17g,%.17g] differs from the (connected) intersection", r.name, r.iv.Lo, r.iv.Hi), ""
				}
			}
		} else {
			var other s1.Interval
			switch {
			case r.iv == a:
				other = b
			case r.iv == b:
				other = a
			default:
				return pfx + fmt.Sprintf("%s = [%.17g,%.17g]: two-piece intersection, want one of the operands", r.name, r.iv.Lo, r.iv.Hi), ""
			}
			if arcLen(r.iv) > arcLen(other)+tieTol {
				return pfx + fmt.Sprintf("%s = [%.17g,%.17g]: two-piece intersection, the shorter operand is the smallest cover", r.name, r.iv.Lo, r.iv.Hi), ""
			}
		}
	}
	// complement of the interior
	for k := 4; k < 6; k++ {
		x := a
		if k == 5 {
			x = b
		}
		if S, want := set(res[k].iv), m.all()&^inter(x); S != want {
			return pfx + fmt.Sprintf("%s = [%.17g,%.17g] is not the complement of the interior", res[k].name, res[k].iv.Lo, res[k].iv.Hi), ""
		}
		if set(res[k].iv)|set(x) != m.all() {
			return pfx + fmt.Sprintf("%s together with the operand does not cover the circle", res[k].name), ""
		}
	}
	return "", ""
}

type s1Case struct {
	A, B s1spec
	P    []float64
}

func genS1Pair(t *rapid.T) s1Case {
	a := genS1(t, "a", nil)
	ai := a.build()
	pool := []float64{ai.Lo, ai.Hi}
	b := genS1(t, "b", pool)
	bi := b.build()
	pool = []float64{ai.Lo, ai.Hi, bi.Lo, bi.Hi}
	n := rapid.IntRange(0, 4).Draw(t, "np")
	ps := make([]float64, n)
	for i := range ps {
		ps[i] = angleVal(t, fmt.Sprintf("p%d", i), pi, pool)
	}
	return s1Case{a, b, ps}
}

// midpoints computed by the harness (not by Interval.Center) as extra probes.
func midProbes(i s1.Interval) []float64 {
	if k := kindS1(i); k == "E" || k == "F" {
		return nil
	}
	lo, hi := normPi(i.Lo), normPi(i.Hi)
	mid := func(lo, hi float64) float64 {
		c := lo + 0.5*posDist(lo, hi)
		if c > pi {
			c -= 2 * pi
		}
		return clampAbs(c, pi)
	}
	return []float64{mid(lo, hi), mid(hi, lo)}
}

func checkS1Pair(c s1Case) ev.Outcome {
	o := ev.Outcome{}
	if !c.A.inDomain() || !c.B.inDomain() || len(c.P) > 6 {
		o.Skip = true
		return o
	}
	for _, p := range c.P {
		if math.IsNaN(p) || math.Abs(p) > pi {
			o.Skip = true
			return o
		}
	}
	a, b := c.A.build(), c.B.build()
	o.Class = kindS1(a) + "-" + kindS1(b)
	o.NonTrivial = nontrivialS1(a, b)
	// constructor contracts
	for k, s := range []s1spec{c.A, c.B} {
		x := a
		if k == 1 {
			x = b
		}
		if !validS1(x) {
			o.Err = fmt.Sprintf("constructor kind %d (%.17g,%.17g) produced the invalid interval [%.17g,%.17g]", s.Kind, s.Lo, s.Hi, x.Lo, x.Hi)
			o.Finding = "s1-constructor-invalid"
			return o
		}
		if s.Kind == 0 || s.Kind == 3 {
			if !(s.Kind == 0 && s.Lo == pi && s.Hi == -pi) && (!x.Contains(s.Lo) || !x.Contains(s.Hi)) {
				o.Err = fmt.Sprintf("constructor kind %d (%.17g,%.17g) = [%.17g,%.17g] does not contain its own endpoints", s.Kind, s.Lo, s.Hi, x.Lo, x.Hi)
				return o
			}
			if s.Kind == 3 && arcLen(x) > pi+tieTol {
				o.Err = fmt.Sprintf("IntervalFromPointPair(%.17g,%.17g) = [%.17g,%.17g] is not the minimal interval", s.Lo, s.Hi, x.Lo, x.Hi)
				return o
			}
		}
	}
	probes := append(append([]float64{}, c.P...), midProbes(a)...)
	probes = append(probes, midProbes(b)...)
	o.Err, o.Finding = s1Pair(a, b, probes)
	return o
}

// ---------------------------------------------------------------------------
// s1 point operations: AddPoint, Project, Expanded

type s1PointCase struct {
	A    s1spec
	P    float64
	M    float64
	Q    []float64 // extra probes
	MRel int       // how M was derived (for the class histogram only)
}

func genS1Point(t *rapid.T) s1PointCase {
	rel := rapid.IntRange(0, 7).Draw(t, "mmode")
	a := genS1(t, "a", nil)
	if rel >= 2 && rel <= 5 && rapid.IntRange(0, 3).Draw(t, "offgrid") != 0 {
		// the just-full / just-empty margins only exercise rounding when the
		// endpoints are not on the (exactly representable) critical grid
		a = s1spec{0, rapid.Float64Range(-pi, pi).Draw(t, "ulo"), rapid.Float64Range(-pi, pi).Draw(t, "uhi")}
	}
	ai := a.build()
	pool := []float64{ai.Lo, ai.Hi}
	if mp := midProbes(ai); mp != nil {
		pool = append(pool, mp[1]) // middle of the complement: the tie point of AddPoint/Project
	}
	p := angleVal(t, "p", pi, pool)
	var m float64
	l := arcLen(ai)
	switch rel {
	case 0:
		m = 0
	case 1:
		m = rapid.SampledFrom([]float64{5e-324, 1e-300, 1e-17, 1.1e-16, 2.3e-16, 1e-15, pi / 2, pi, 2 * pi, 10, 1e300}).Draw(t, "mc")
		if rapid.Bool().Draw(t, "mneg") {
			m = -m
		}
	case 2, 3:
		// the margin that just fills the circle: (2π − length)/2 ± ulps
		m = gen.Ulps(0.5*(2*pi-l), rapid.IntRange(-4, 4).Draw(t, "mu"))
	case 4, 5:
		// the (negative) margin that just empties the interval: −length/2 ± ulps
		m = -gen.Ulps(0.5*l, rapid.IntRange(-4, 4).Draw(t, "mu"))
	case 6:
		m = rapid.Float64Range(-4, 0).Draw(t, "mneg")
	default:
		m = rapid.Float64Range(0, 4).Draw(t, "mpos")
	}
	if math.IsNaN(m) || math.IsInf(m, 0) {
		m = 0
	}
	n := rapid.IntRange(0, 3).Draw(t, "nq")
	qs := make([]float64, n)
	for i := range qs {
		qs[i] = angleVal(t, fmt.Sprintf("q%d", i), pi, pool)
	}
	return s1PointCase{a, p, m, qs, rel}
}

// expandTol: stated before running. Expanded computes each endpoint with one
// rounded subtraction/addition of values below 2π+|margin| and an exact
// remainder, so an endpoint is within ulp(8)/2 = 4.4e-16 of the exact one for
// |margin| ≤ 2π; the check allows 2e-15. The "becomes full"/"becomes empty"
// decisions are documented to allow for rounding (2·DBL_EPSILON per the
// source); the check requires them to be right whenever the exact expanded
// length is more than 1e-14 away from 2π resp. 0.
const (
	expandEndTol  = 2e-15
	expandFullTol = 1e-14
)

func checkS1Point(c s1PointCase) ev.Outcome {
	o := ev.Outcome{}
	if !c.A.inDomain() || math.IsNaN(c.P) || math.Abs(c.P) > pi || math.IsNaN(c.M) || math.Abs(c.M) > 1e300 || len(c.Q) > 4 {
		o.Skip = true
		return o
	}
	for _, q := range c.Q {
		if math.IsNaN(q) || math.Abs(q) > pi {
			o.Skip = true
			return o
		}
	}
	a := c.A.build()
	if !validS1(a) {
		o.Err = fmt.Sprintf("constructor kind %d (%.17g,%.17g) produced the invalid interval [%.17g,%.17g]", c.A.Kind, c.A.Lo, c.A.Hi, a.Lo, a.Hi)
		o.Finding = "s1-constructor-invalid"
		return o
	}
	return s1PointCore(a, c.P, c.M, c.Q, c.MRel)
}

// s1PointCore checks Length, Center, ComplementCenter, AddPoint(p), Project(p)
// and Expanded(mg) of one valid interval against the circle model.
func s1PointCore(a s1.Interval, p, mg float64, qs []float64, mrel int) ev.Outcome {
	o := ev.Outcome{}
	ka := kindS1(a)
	mclass := "m>0"
	if mg == 0 {
		mclass = "m=0"
	} else if mg < 0 {
		mclass = "m<0"
	}
	o.Class = ka + "/" + mclass
	pfx := fmt.Sprintf("s1: a=[%.17g,%.17g] p=%.17g m=%.17g: ", a.Lo, a.Hi, p, mg)
	fail := func(f string, args ...any) ev.Outcome { o.Err = pfx + fmt.Sprintf(f, args...); return o }

	add := a.AddPoint(p)
	exp := a.Expanded(mg)
	vals := []float64{a.Lo, a.Hi, p, pi, 0, add.Lo, add.Hi, exp.Lo, exp.Hi}
	vals = append(vals, qs...)
	vals = append(vals, midProbes(a)...)
	var proj, ctr, cctr float64
	if ka != "E" {
		proj = a.Project(p)
		vals = append(vals, proj)
	}
	if ka == "N" || ka == "I" || ka == "S" {
		ctr, cctr = a.Center(), a.ComplementCenter()
		if math.IsNaN(ctr) || math.Abs(ctr) > pi || math.IsNaN(cctr) || math.Abs(cctr) > pi {
			o.Err = fmt.Sprintf("s1: a=[%.17g,%.17g]: Center()=%.17g or ComplementCenter()=%.17g is not in [-π,π]", a.Lo, a.Hi, ctr, cctr)
			return o
		}
		vals = append(vals, ctr, cctr)
	}
	if !validS1(add) || !add.IsValid() {
		return fail("AddPoint = [%.17g,%.17g] is not valid", add.Lo, add.Hi)
	}
	if !validS1(exp) || !exp.IsValid() {
		return fail("Expanded = [%.17g,%.17g] is not valid", exp.Lo, exp.Hi)
	}
	if math.IsNaN(proj) || math.Abs(proj) > pi {
		return fail("Project = %.17g is not in [-π,π]", proj)
	}
	m := newAxis(true, vals...)
	set := func(i s1.Interval) bset { s, _ := m.arc(i.Lo, i.Hi); return s }
	A := set(a)
	pbit := bset(1) << uint(m.pos(p))
	pin := A&pbit != 0
	np := normPi(p)
	o.NonTrivial = ka != "N" || math.Abs(a.Lo) == pi || math.Abs(a.Hi) == pi || math.Abs(p) == pi || np == normPi(a.Lo) || np == normPi(a.Hi) || mrel >= 2 && mrel <= 5

	// Length of a non-empty interval is documented to be non-negative.
	if ka != "E" && a.Length() < 0 {
		o.Finding = findingWrapLength
		return fail("Length() = %g for a non-empty interval (exact length %.17g)", a.Length(), arcLen(a))
	}
	if ka != "E" {
		if d := math.Abs(a.Length() - arcLen(a)); d > 2e-15 {
			return fail("Length() = %.17g, exact %.17g", a.Length(), arcLen(a))
		}
	} else if a.Length() >= 0 {
		return fail("Length() of the empty interval = %g, want negative", a.Length())
	}
	// Center / ComplementCenter are midpoints: they must lie in the interval / in its complement.
	if ka == "N" || ka == "I" || ka == "S" {
		if A&(bset(1)<<uint(m.pos(ctr))) == 0 {
			return fail("Center() = %.17g is not in the interval", ctr)
		}
		cc := set(a.Complement())
		if cc&(bset(1)<<uint(m.pos(cctr))) == 0 {
			return fail("ComplementCenter() = %.17g is not in the complement", cctr)
		}
	}
	// AddPoint
	S := set(add)
	switch {
	case !(A | pbit).subsetOf(S):
		return fail("AddPoint = [%.17g,%.17g] does not contain the interval and the point", add.Lo, add.Hi)
	case pin && add != a:
		return fail("AddPoint of a contained point changed the interval to [%.17g,%.17g]", add.Lo, add.Hi)
	case ka == "E" && !(add.Lo == np && add.Hi == np):
		return fail("AddPoint to the empty interval = [%.17g,%.17g], want the singleton", add.Lo, add.Hi)
	case !pin && ka != "E":
		gs := m.gaps(A | pbit)
		ch := -1
		for gi, g := range gs {
			if S == A|pbit|g.mask {
				ch = gi
			}
		}
		if len(gs) != 2 {
			o.Finding = "harness"
			return fail("harness: a closed arc and an outside point must leave two gaps, got %d", len(gs))
		} else {
			if ch < 0 || kindS1(add) == "F" {
				return fail("AddPoint = [%.17g,%.17g] is not the interval plus the point plus one gap", add.Lo, add.Hi)
			}
			if l0, l1 := posDist(gs[ch].from, gs[ch].to), posDist(gs[1-ch].from, gs[1-ch].to); l0 > l1+tieTol {
				return fail("AddPoint = [%.17g,%.17g] bridges the longer gap (%.17g > %.17g): not the minimum expansion", add.Lo, add.Hi, l0, l1)
			}
		}
	}
	// Project
	if ka != "E" {
		qb := bset(1) << uint(m.pos(proj))
		switch {
		case A&qb == 0:
			return fail("Project = %.17g is not in the interval", proj)
		case pin && proj != np:
			return fail("Project of a contained point = %.17g", proj)
		case !pin:
			lo, hi := normPi(a.Lo), normPi(a.Hi)
			if proj != lo && proj != hi {
				return fail("Project = %.17g is not an endpoint", proj)
			}
			if d, e := circDist(np, proj), math.Min(circDist(np, lo), circDist(np, hi)); d > e+tieTol {
				return fail("Project = %.17g at distance %.17g, but an endpoint is at distance %.17g", proj, d, e)
			}
		}
	}
	// Expanded
	E := set(exp)
	ke := kindS1(exp)
	l := arcLen(a)
	switch {
	case ka == "E":
		if ke != "E" {
			return fail("Expanded of the empty interval = [%.17g,%.17g]", exp.Lo, exp.Hi)
		}
	case ka == "F":
		if ke != "F" {
			return fail("Expanded of the full interval = [%.17g,%.17g]", exp.Lo, exp.Hi)
		}
	case mg >= 0:
		if !A.subsetOf(E) {
			if a.Length() < 0 {
				o.Finding = findingWrapLength
			} else if math.Abs(l+2*mg-2*pi) <= 1e-14 && ke != "F" && a.Length()+2*mg+2*2.220446049e-16 < 2*pi {
				// (the last condition is the source's own "will be full" test: the class
				// covers only collapses that this test, as written, lets through)
				o.Finding = findingExpandCollapse
			}
			return fail("Expanded = [%.17g,%.17g] lost points of the interval", exp.Lo, exp.Hi)
		}
		exact := l + 2*mg
		if ke == "F" {
			if exact < 2*pi-expandFullTol {
				return fail("Expanded is full but the expanded length is only %.17g", exact)
			}
		} else {
			if exact > 2*pi+expandFullTol {
				return fail("Expanded = [%.17g,%.17g] is not full but the expanded length is %.17g", exp.Lo, exp.Hi, exact)
			}
			if d := circDist(normPi(exp.Lo), normAngle(a.Lo-mg)); endRatio(&o, d) > 1 {
				return fail("Expanded.Lo = %.17g is %.3g away from lo−margin", exp.Lo, d)
			}
			if d := circDist(normPi(exp.Hi), normAngle(a.Hi+mg)); endRatio(&o, d) > 1 {
				return fail("Expanded.Hi = %.17g is %.3g away from hi+margin", exp.Hi, d)
			}
		}
	default: // negative margin: shrinks
		if !E.subsetOf(A) {
			if math.Abs(l+2*mg) <= 1e-14 && a.Length()+2*mg-2*2.220446049e-16 > 0 {
				o.Finding = findingShrinkCross
			}
			return fail("Expanded (negative margin) = [%.17g,%.17g] contains points outside the interval", exp.Lo, exp.Hi)
		}
		exact := l + 2*mg
		if ke == "E" {
			if exact > expandFullTol {
				return fail("Expanded is empty but the shrunk length is %.17g", exact)
			}
		} else {
			if exact < -expandFullTol {
				return fail("Expanded = [%.17g,%.17g] is not empty but the shrunk length is %.17g", exp.Lo, exp.Hi, exact)
			}
			if d := circDist(normPi(exp.Lo), normAngle(a.Lo-mg)); endRatio(&o, d) > 1 {
				return fail("Expanded.Lo = %.17g is %.3g away from lo−margin", exp.Lo, d)
			}
			if d := circDist(normPi(exp.Hi), normAngle(a.Hi+mg)); endRatio(&o, d) > 1 {
				return fail("Expanded.Hi = %.17g is %.3g away from hi+margin", exp.Hi, d)
			}
		}
	}
	return o
}

// findingWrapLength: the one-ulp interval across ±π, [π, −π+ulp]: Hi−Lo rounds
// to exactly −2π, Length() returns −1 (the "empty" marker) and Expanded builds a
// small interval on the far side of the circle.
const findingWrapLength = "s1-length-negative-nonempty"

// findingExpandCollapse: length+2·margin is within a few ulps below 2π, the
// "will be full" test (which allows only 2·DBL_EPSILON) says no, and the two
// rounded endpoints meet or cross: the result is a singleton / tiny interval.
const findingExpandCollapse = "s1-expanded-near-full-collapse"

// findingShrinkCross: negative margin of about half the length; the "will be
// empty" test (length+2·margin−2·dblEpsilon ≤ 0, with dblEpsilon truncated to
// 2.220446049e-16 in s1) says no, and the two rounded endpoints cross: the
// result is an inverted interval covering almost the whole circle.
const findingShrinkCross = "s1-shrink-endpoints-cross"

func endRatio(o *ev.Outcome, d float64) float64 {
	r := d / expandEndTol
	if o.Ratios == nil {
		o.Ratios = map[string]float64{}
	}
	if r > o.Ratios["Expanded: endpoint error / 2e-15"] {
		o.Ratios["Expanded: endpoint error / 2e-15"] = r
	}
	return r
}

// normAngle reduces x (|x| ≤ 3π here) to (-π,π] in float64.
func normAngle(x float64) float64 {
	if math.Abs(x) > 100 {
		return math.NaN()
	}
	for x > pi {
		x -= 2 * pi
	}
	for x <= -pi {
		x += 2 * pi
	}
	return x
}

// ---------------------------------------------------------------------------
// complete enumeration of the critical grid for the s1 binary operations

type gridCase struct {
	Variant int
	Full    bool // thorough grid (±2 ulps) instead of the quick grid (±1 ulp)
}

func gridValues(variant int, full bool) []float64 {
	k := 1
	if full {
		k = 2
	}
	seen := map[float64]bool{}
	var out []float64
	add := func(v float64) {
		if math.Abs(v) > pi {
			return
		}
		v = normPi(v)
		if !seen[v] {
			seen[v] = true
			out = append(out, v)
		}
	}
	for _, b := range critAngles {
		for u := -k; u <= k; u++ {
			add(gen.Ulps(b, u))
		}
	}
	// a few off-grid values that differ between variants
	f := float64(variant)
	add(-3 + 0.37*f)
	add(0.1 * (f + 1))
	add(gen.Ulps(pi, -3-variant))
	return out
}

// gridKnown: finding classes tolerated inside the grid enumeration (one case =
// one whole grid, so a tolerated finding must not end the enumeration). Filled
// from VERIF_KNOWN like the framework does.
var gridKnown = func() map[string]bool {
	m := map[string]bool{}
	for _, c := range strings.Split(os.Getenv("VERIF_KNOWN"), ",") {
		if c = strings.TrimSpace(c); c != "" {
			m[c] = true
		}
	}
	return m
}()

func genGrid(t *rapid.T) gridCase {
	return gridCase{Variant: rapid.IntRange(0, 15).Draw(t, "variant"), Full: ev.Thorough()}
}

func checkGrid(c gridCase) ev.Outcome {
	o := ev.Outcome{}
	if c.Variant < 0 || c.Variant > 15 {
		o.Skip = true
		return o
	}
	vs := gridValues(c.Variant, c.Full)
	ivs := []s1.Interval{s1.EmptyInterval(), s1.FullInterval()}
	for _, lo := range vs {
		for _, hi := range vs {
			ivs = append(ivs, s1.IntervalFromEndpoints(lo, hi))
		}
	}
	o.Class = fmt.Sprintf("grid-%d-values", len(vs))
	o.NonTrivial = true
	pairs := 0
	for _, a := range ivs {
		for _, b := range ivs {
			pairs++
			if e, f := s1Pair(a, b, nil); e != "" {
				o.Err, o.Finding = e, f
				o.Counts = map[string]int{"pairs": pairs}
				return o
			}
		}
	}
	// unary operations: every interval × every grid point × a margin family
	unary := 0
	for _, a := range ivs {
		l := arcLen(a)
		for _, p := range append(append([]float64{}, vs...), -pi) {
			for _, mg := range []float64{0, pi / 4, pi, -pi / 4, 0.5 * (2*pi - l), -0.5 * l} {
				unary++
				r := s1PointCore(a, p, mg, nil, 0)
				if r.Err != "" && !(r.Finding != "" && gridKnown[r.Finding]) {
					o.Err, o.Finding = r.Err, r.Finding
					return o
				}
			}
		}
	}
	o.Counts = map[string]int{"pairs": pairs, "intervals": len(ivs), "unary": unary}
	return o
}

func init() {
	ev.Define("r1_interval", ev.Options{
		Rule:  "pairs of r1 intervals (canonical and non-canonical empty, singleton, ordinary) with endpoints from {0,±0.5,±1,2,±π/2,±π,±1e300}±0..2 ulps, the other operand's endpoints ±0..2 ulps, ±0, denormals, uniform; up to 3 probe points; margin 0/tiny/huge/−length/2±ulps/uniform. Oracle: exact order model of the real line (values and gaps as positions): Contains, InteriorContains, ContainsInterval, InteriorContainsInterval, Intersects, InteriorIntersects, Equal as set relations; Union = hull, Intersection = common points, Expanded(m≥0) ⊇, Expanded(m≤0) ⊆, AddPoint = hull, ClampPoint = closest. Non-trivial = operands share an endpoint or one is empty/singleton.",
		Quick: 150000, Thorough: 8000000}, genR1, checkR1)
	ev.Define("s1_pair", ev.Options{
		Rule:  "pairs of s1 intervals built by IntervalFromEndpoints / IntervalFromPointPair / Empty / Full with endpoints from {0,±π/4,±π/2,±3π/4,±π}±0..2 ulps, the other operand's endpoints ±0..2 ulps (incl. the exact complement), ±0, tiny, uniform; probes: all endpoints, both representations of ±π, 0, midpoints of both arcs, up to 4 drawn. Oracle: exact order model of the circle. Checked: constructor validity, Contains/InteriorContains on every probe, ContainsInterval, InteriorContainsInterval, Intersects, InteriorIntersects (both orders) as set relations; Union ⊇ both, equal to the union when connected, else union plus the shorter gap; Intersection ⊇ common points, ⊆ union, equal when connected, else the shorter operand; Complement = complement of the interior; every result valid and made of operand endpoints. Non-trivial = an endpoint is ±π, the operands share an endpoint, or one is inverted/empty/full.",
		Quick: 400000, Thorough: 20000000}, genS1Pair, checkS1Pair)
	ev.Define("s1_point_ops", ev.Options{
		Rule:  "one s1 interval (as above), a point p (critical grid, endpoints ±ulps, midpoint of the complement ±ulps) and a margin m in {0, tiny, π/2, π, 2π, 1e300, (2π−length)/2 ± 0..4 ulps, −length/2 ± 0..4 ulps, uniform ±4}. AddPoint ⊇ interval ∪ {p}, unchanged if p inside, bridges the shorter gap; Project ∈ interval, = p if inside, else the nearer endpoint; Expanded(m≥0) ⊇ interval, Expanded(m<0) ⊆ interval, endpoints within 2e-15 of lo−m / hi+m, full/empty decision right outside a 1e-14 band; all results valid. Non-trivial = interval empty/full/singleton/inverted, an endpoint or p at ±π, p on an endpoint, or a margin of the just-full / just-empty family.",
		Quick: 400000, Thorough: 20000000}, genS1Point, checkS1Point)
	ev.Define("s1_grid_exhaustive", ev.Options{
		Rule:  "complete enumeration: every ordered pair of s1 intervals whose endpoints lie on the critical grid {0,±π/4,±π/2,±3π/4,±π} ±0..1 ulp (quick, 27 values) / ±0..2 ulps (thorough, 43 values) plus three variant-dependent off-grid values, plus Empty and Full; each pair goes through the full s1_pair oracle (probes: all endpoints, ±π, 0); then every interval × every grid point (both ±π) × margins {0, π/4, π, −π/4, (2π−length)/2, −length/2} through the s1_point_ops oracle. One case = one complete grid; counts.pairs / counts.unary are the numbers of combinations checked.",
		Quick: 8, Thorough: 16}, genGrid, checkGrid)
}
