package c19

import (
	"fmt"
	"math"
	"math/big"

	"github.com/golang/geo/r1"
	"github.com/golang/geo/r2"
	"github.com/golang/geo/s1"
	"github.com/golang/geo/s2"
	"pgregory.net/rapid"

	"verifharness/internal/ev"
)

// A rectangle is the product of two 1-D sets; prod is its model.
type prod struct{ x, y bset }

func (p prod) empty() bool { return p.x == 0 || p.y == 0 }
func (p prod) subsetOf(q prod) bool {
	return p.empty() || (p.x.subsetOf(q.x) && p.y.subsetOf(q.y))
}
func (p prod) meets(q prod) bool { return p.x&q.x != 0 && p.y&q.y != 0 }
func (p prod) equal(q prod) bool {
	return p.empty() && q.empty() || !p.empty() && !q.empty() && p.x == q.x && p.y == q.y
}
func (p prod) and(q prod) prod { return prod{p.x & q.x, p.y & q.y} }

// ---------------------------------------------------------------------------
// r2.Rect

type rect2 struct{ X, Y iv1 }

func (r rect2) r2() r2.Rect { return r2.Rect{X: r.X.r1(), Y: r.Y.r1()} }

type r2Case struct {
	A, B rect2
	P    [][2]float64
	M    [2]float64
}

func genRect2(t *rapid.T, label string, val func(string) float64) rect2 {
	x := genIv1(t, label+".x", val)
	y := genIv1(t, label+".y", val)
	if x.empty() != y.empty() {
		// a valid rectangle is empty in both axes or in neither
		if rapid.Bool().Draw(t, label+".mkempty") {
			if !x.empty() {
				x = iv1{x.Hi + 1, x.Lo}
			} else {
				y = iv1{y.Hi + 1, y.Lo}
			}
		} else if x.empty() {
			x = iv1{x.Hi, x.Lo}
		} else {
			y = iv1{y.Hi, y.Lo}
		}
	}
	return rect2{x, y}
}

func genR2(t *rapid.T) r2Case {
	var pool []float64
	val := func(l string) float64 {
		v := lineVal(t, l, pool)
		if math.Abs(v) > 1e6 { // keep Center/Size/CenterSize arithmetic far from overflow
			v = math.Copysign(1e6, v)
		}
		return v
	}
	a := genRect2(t, "a", val)
	pool = []float64{a.X.Lo, a.X.Hi, a.Y.Lo, a.Y.Hi}
	b := genRect2(t, "b", val)
	pool = append(pool, b.X.Lo, b.X.Hi, b.Y.Lo, b.Y.Hi)
	n := rapid.IntRange(1, 3).Draw(t, "np")
	ps := make([][2]float64, n)
	for i := range ps {
		ps[i] = [2]float64{val(fmt.Sprintf("p%dx", i)), val(fmt.Sprintf("p%dy", i))}
	}
	mg := func(l string, iv iv1) float64 {
		switch rapid.IntRange(0, 4).Draw(t, l+".mode") {
		case 0:
			return 0
		case 1:
			return -0.5 * (iv.Hi - iv.Lo)
		case 2:
			return -rapid.Float64Range(0, 3).Draw(t, l+".neg")
		default:
			return rapid.Float64Range(0, 3).Draw(t, l+".pos")
		}
	}
	m := [2]float64{mg("mx", a.X), mg("my", a.Y)}
	for i := range m {
		if math.IsNaN(m[i]) || math.IsInf(m[i], 0) {
			m[i] = 0
		}
	}
	return r2Case{a, b, ps, m}
}

func kind2(r rect2) string {
	if r.X.empty() {
		return "E"
	}
	if r.X.Lo == r.X.Hi && r.Y.Lo == r.Y.Hi {
		return "P"
	}
	if r.X.Lo == r.X.Hi || r.Y.Lo == r.Y.Hi {
		return "L"
	}
	return "N"
}

func checkR2(c r2Case) ev.Outcome {
	o := ev.Outcome{}
	bad := func(v float64) bool { return math.IsNaN(v) || math.Abs(v) > 1e7 }
	for _, r := range []rect2{c.A, c.B} {
		if bad(r.X.Lo) || bad(r.X.Hi) || bad(r.Y.Lo) || bad(r.Y.Hi) || r.X.empty() != r.Y.empty() {
			o.Skip = true
			return o
		}
	}
	if len(c.P) < 1 || len(c.P) > 4 || bad(c.M[0]) || bad(c.M[1]) {
		o.Skip = true
		return o
	}
	for _, p := range c.P {
		if bad(p[0]) || bad(p[1]) {
			o.Skip = true
			return o
		}
	}
	a, b := c.A.r2(), c.B.r2()
	o.Class = kind2(c.A) + "-" + kind2(c.B)
	sh := func(p, q iv1) bool { return p.Lo == q.Lo || p.Lo == q.Hi || p.Hi == q.Lo || p.Hi == q.Hi }
	o.NonTrivial = c.A.X.empty() || c.B.X.empty() || kind2(c.A) != "N" || kind2(c.B) != "N" || sh(c.A.X, c.B.X) || sh(c.A.Y, c.B.Y)
	pfx := fmt.Sprintf("r2: a=%v b=%v m=%v: ", a, b, c.M)
	fail := func(f string, args ...any) ev.Outcome { o.Err = pfx + fmt.Sprintf(f, args...); return o }

	margin := r2.Point{X: c.M[0], Y: c.M[1]}
	type nr struct {
		name string
		r    r2.Rect
	}
	res := []nr{
		{"a.Union(b)", a.Union(b)}, {"b.Union(a)", b.Union(a)}, {"a.AddRect(b)", a.AddRect(b)},
		{"a.Intersection(b)", a.Intersection(b)}, {"b.Intersection(a)", b.Intersection(a)},
		{"a.Expanded(m)", a.Expanded(margin)},
	}
	pts := make([]r2.Point, len(c.P))
	for i, p := range c.P {
		pts[i] = r2.Point{X: p[0], Y: p[1]}
		res = append(res, nr{fmt.Sprintf("a.AddPoint(p%d)", i), a.AddPoint(pts[i])})
	}
	fromPts := r2.RectFromPoints(pts...)
	res = append(res, nr{"RectFromPoints(P)", fromPts})
	size := r2.Point{X: math.Abs(c.M[0]), Y: math.Abs(c.M[1])}
	cs := r2.RectFromCenterSize(pts[0], size)
	res = append(res, nr{"RectFromCenterSize(p0,|m|)", cs})
	xs := []float64{a.X.Lo, a.X.Hi, b.X.Lo, b.X.Hi}
	ys := []float64{a.Y.Lo, a.Y.Hi, b.Y.Lo, b.Y.Hi}
	for _, r := range res {
		if !r.r.IsValid() || r.r.X.IsEmpty() != r.r.Y.IsEmpty() {
			return fail("%s = %v is not valid", r.name, r.r)
		}
		if r.r.IsEmpty() != r.r.X.IsEmpty() {
			return fail("%s: IsEmpty inconsistent", r.name)
		}
		if !r.r.IsEmpty() {
			xs = append(xs, r.r.X.Lo, r.r.X.Hi)
			ys = append(ys, r.r.Y.Lo, r.r.Y.Hi)
		}
	}
	var clamp []r2.Point
	for _, p := range pts {
		xs, ys = append(xs, p.X), append(ys, p.Y)
		if !a.IsEmpty() {
			q := a.ClampPoint(p)
			clamp = append(clamp, q)
			xs, ys = append(xs, q.X), append(ys, q.Y)
		}
	}
	var extra []r2.Point
	for _, r := range []r2.Rect{a, b} {
		if r.IsEmpty() {
			continue
		}
		vs := r.Vertices()
		want := [4]r2.Point{r.VertexIJ(0, 0), r.VertexIJ(1, 0), r.VertexIJ(1, 1), r.VertexIJ(0, 1)}
		if vs != want || vs[0] != r.Lo() || vs[2] != r.Hi() {
			return fail("Vertices/VertexIJ/Lo/Hi disagree for %v", r)
		}
		ctr := r.Center()
		extra = append(extra, vs[:]...)
		extra = append(extra, ctr)
		xs, ys = append(xs, ctr.X), append(ys, ctr.Y)
		for _, v := range vs {
			if !r.ContainsPoint(v) {
				return fail("%v does not contain its vertex %v", r, v)
			}
		}
		if !r.ContainsPoint(ctr) {
			return fail("%v does not contain its centre %v", r, ctr)
		}
	}
	for _, v := range append(xs, ys...) {
		if math.IsNaN(v) || math.IsInf(v, 0) {
			return fail("non-finite coordinate in a result")
		}
	}
	mx, my := newAxis(false, xs...), newAxis(false, ys...)
	set := func(r r2.Rect) prod {
		x, okx := mx.seg(r.X.Lo, r.X.Hi)
		y, oky := my.seg(r.Y.Lo, r.Y.Hi)
		if !okx || !oky {
			panic("c19 harness: rect endpoint not on axis")
		}
		return prod{x, y}
	}
	inter := func(r r2.Rect) prod {
		x, _ := mx.segInterior(r.X.Lo, r.X.Hi)
		y, _ := my.segInterior(r.Y.Lo, r.Y.Hi)
		return prod{x, y}
	}
	pt := func(p r2.Point) prod {
		return prod{bset(1) << uint(mx.pos(p.X)), bset(1) << uint(my.pos(p.Y))}
	}
	hull := func(ps ...prod) prod {
		var x, y bset
		for _, p := range ps {
			if !p.empty() {
				x |= p.x
				y |= p.y
			}
		}
		return prod{mx.hull(x), my.hull(y)}
	}
	A, B := set(a), set(b)
	if a.IsEmpty() != A.empty() || b.IsEmpty() != B.empty() {
		return fail("IsEmpty disagrees with the model")
	}
	// point predicates on every combination of interesting coordinates near the operands
	probe := append(append([]r2.Point{}, pts...), extra...)
	probe = append(probe, clamp...)
	for _, p := range probe {
		P := pt(p)
		for k, r := range []r2.Rect{a, b} {
			if got, want := r.ContainsPoint(p), P.subsetOf(set(r)); got != want {
				return fail("operand %d: ContainsPoint(%v)=%v, model %v", k, p, got, want)
			}
			if got, want := r.InteriorContainsPoint(p), P.subsetOf(inter(r)) && !inter(r).empty(); got != want {
				return fail("operand %d: InteriorContainsPoint(%v)=%v, model %v", k, p, got, want)
			}
		}
	}
	for k := 0; k < 2; k++ {
		x, y, X, Y := a, b, A, B
		if k == 1 {
			x, y, X, Y = b, a, B, A
		}
		if got, want := x.Contains(y), Y.subsetOf(X); got != want {
			return fail("order %d: Contains=%v, model %v", k, got, want)
		}
		if got, want := x.InteriorContains(y), Y.subsetOf(inter(x)); got != want {
			return fail("order %d: InteriorContains=%v, model %v", k, got, want)
		}
		if got, want := x.Intersects(y), X.meets(Y); got != want {
			return fail("order %d: Intersects=%v, model %v", k, got, want)
		}
		if got, want := x.InteriorIntersects(y), inter(x).meets(Y); got != want {
			return fail("order %d: InteriorIntersects=%v, model %v", k, got, want)
		}
	}
	for _, r := range res[:3] {
		if !set(r.r).equal(hull(A, B)) {
			return fail("%s = %v is not the smallest rectangle containing both", r.name, r.r)
		}
	}
	for _, r := range res[3:5] {
		if !set(r.r).equal(A.and(B)) {
			return fail("%s = %v is not the set of common points", r.name, r.r)
		}
	}
	// Expanded
	E := set(res[5].r)
	switch {
	case A.empty():
		if !E.empty() {
			return fail("Expanded of an empty rectangle = %v", res[5].r)
		}
	case E.empty():
		if c.M[0] >= 0 && c.M[1] >= 0 {
			return fail("Expanded with non-negative margins is empty")
		}
	default:
		for ax, mgn := range c.M {
			s, e := A.x, E.x
			if ax == 1 {
				s, e = A.y, E.y
			}
			if mgn >= 0 && !s.subsetOf(e) {
				return fail("Expanded lost points on axis %d: %v", ax, res[5].r)
			}
			if mgn <= 0 && !e.subsetOf(s) {
				return fail("Expanded (shrink) gained points on axis %d: %v", ax, res[5].r)
			}
		}
	}
	if g := a.ExpandedByMargin(c.M[0]); !set2eq(g, a.Expanded(r2.Point{X: c.M[0], Y: c.M[0]})) {
		return fail("ExpandedByMargin differs from Expanded with equal margins")
	}
	// AddPoint, ClampPoint, RectFromPoints, RectFromCenterSize
	all := []prod{}
	for i, p := range pts {
		if !set(res[6+i].r).equal(hull(A, pt(p))) {
			return fail("%s = %v is not the smallest rectangle containing a and the point", res[6+i].name, res[6+i].r)
		}
		all = append(all, pt(p))
		if !a.IsEmpty() {
			q := clamp[i]
			wx, wy := clamp1(a.X, p.X), clamp1(a.Y, p.Y)
			if q.X != wx || q.Y != wy || !pt(q).subsetOf(A) {
				return fail("ClampPoint(%v) = %v, want (%g,%g)", p, q, wx, wy)
			}
		}
	}
	if !set(fromPts).equal(hull(all...)) {
		return fail("RectFromPoints = %v is not the bounding rectangle of the points", fromPts)
	}
	if !pt(pts[0]).subsetOf(set(cs)) || cs.IsEmpty() {
		return fail("RectFromCenterSize(%v,%v) = %v does not contain its centre", pts[0], size, cs)
	}
	return o
}

func set2eq(a, b r2.Rect) bool { return a == b || a.IsEmpty() && b.IsEmpty() }

func clamp1(i r1.Interval, p float64) float64 {
	if p < i.Lo {
		return i.Lo
	}
	if p > i.Hi {
		return i.Hi
	}
	return p
}

// ---------------------------------------------------------------------------
// s2.Rect (latitude-longitude rectangles)

type llrect struct {
	Lat iv1
	Lng s1spec
}

func (r llrect) build() s2.Rect { return s2.Rect{Lat: r.Lat.r1(), Lng: r.Lng.build()} }

type llCase struct {
	A, B llrect
	P    [][2]float64 // lat, lng probes (radians); may be slightly out of range
	Size [2]float64   // for RectFromCenterSize around P[0]
}

func genLLRect(t *rapid.T, label string, latPool, lngPool []float64) llrect {
	switch rapid.IntRange(0, 11).Draw(t, label+".kind") {
	case 0:
		return llrect{iv1{1, 0}, s1spec{Kind: 1}}
	case 1:
		return llrect{iv1{-pi / 2, pi / 2}, s1spec{Kind: 2}}
	}
	lv := func(l string) float64 { return angleVal(t, l, pi/2, latPool) }
	var lat iv1
	switch rapid.IntRange(0, 15).Draw(t, label+".latkind") {
	case 0:
		// non-canonical empty latitude interval (valid: Lat = ∅ iff Lng = ∅)
		x, y := lv(label+".lat.a"), lv(label+".lat.b")
		if x < y {
			x, y = y, x
		}
		if x == y {
			x, y = 1, 0
		}
		return llrect{iv1{x, y}, s1spec{Kind: 1}}
	case 1, 2:
		x := lv(label + ".lat.a")
		lat = iv1{x, x}
	default:
		x, y := lv(label+".lat.a"), lv(label+".lat.b")
		if x > y {
			x, y = y, x
		}
		lat = iv1{x, y}
	}
	lng := genS1(t, label+".lng", lngPool)
	if kindS1(lng.build()) == "E" {
		lng = s1spec{Kind: 2}
	}
	return llrect{lat, lng}
}

func genLL(t *rapid.T) llCase {
	a := genLLRect(t, "a", nil, nil)
	ar := a.build()
	latPool := []float64{ar.Lat.Lo, ar.Lat.Hi}
	lngPool := []float64{ar.Lng.Lo, ar.Lng.Hi}
	b := genLLRect(t, "b", latPool, lngPool)
	br := b.build()
	latPool = append(latPool, br.Lat.Lo, br.Lat.Hi)
	lngPool = append(lngPool, br.Lng.Lo, br.Lng.Hi)
	for i := range latPool {
		latPool[i] = clampAbs(latPool[i], pi/2)
	}
	n := rapid.IntRange(1, 3).Draw(t, "np")
	ps := make([][2]float64, n)
	for i := range ps {
		lat := angleVal(t, fmt.Sprintf("p%dlat", i), pi/2, latPool)
		lng := angleVal(t, fmt.Sprintf("p%dlng", i), pi, lngPool)
		if i > 0 && rapid.IntRange(0, 15).Draw(t, fmt.Sprintf("p%dinv", i)) == 0 {
			// an invalid LatLng: ContainsLatLng must say no, AddPoint must ignore it
			if rapid.Bool().Draw(t, fmt.Sprintf("p%dwhich", i)) {
				lat = math.Copysign(math.Nextafter(pi/2, 2), lat)
			} else {
				lng = math.Copysign(math.Nextafter(pi, 4), lng)
			}
		}
		ps[i] = [2]float64{lat, lng}
	}
	sz := func(l string, full float64) float64 {
		switch rapid.IntRange(0, 5).Draw(t, l+".mode") {
		case 0:
			return 0
		case 1:
			return rapid.SampledFrom([]float64{5e-324, 1e-300, 1e-16, full / 2, full, 2 * full, 10}).Draw(t, l+".c")
		case 2:
			return math.Max(0, math.Nextafter(full, rapid.SampledFrom([]float64{0, 10}).Draw(t, l+".dir")))
		default:
			return rapid.Float64Range(0, full).Draw(t, l+".u")
		}
	}
	return llCase{a, b, ps, [2]float64{sz("szlat", pi), sz("szlng", 2*pi)}}
}

func validLL(r s2.Rect) bool {
	return math.Abs(r.Lat.Lo) <= pi/2 && math.Abs(r.Lat.Hi) <= pi/2 && validS1(r.Lng) &&
		(r.Lat.Lo > r.Lat.Hi) == (kindS1(r.Lng) == "E")
}

func kindLL(r s2.Rect) string {
	switch {
	case r.Lat.Lo > r.Lat.Hi:
		return "E"
	case r.Lat.Lo == -pi/2 && r.Lat.Hi == pi/2 && kindS1(r.Lng) == "F":
		return "F"
	case r.Lat.Lo == r.Lat.Hi && r.Lng.Lo == r.Lng.Hi:
		return "P"
	case r.Lat.Lo == -pi/2 || r.Lat.Hi == pi/2:
		return "pole+lng" + kindS1(r.Lng)
	}
	return "lng" + kindS1(r.Lng)
}

const (
	findingRectFromLatLngMinusPi = "rect-from-latlng-lng-minus-pi"
)

func checkLL(c llCase) ev.Outcome {
	o := ev.Outcome{}
	okv := func(v, lim float64) bool { return !math.IsNaN(v) && math.Abs(v) <= lim }
	for _, r := range []llrect{c.A, c.B} {
		if !okv(r.Lat.Lo, pi/2) || !okv(r.Lat.Hi, pi/2) || !r.Lng.inDomain() {
			o.Skip = true
			return o
		}
	}
	if len(c.P) < 1 || len(c.P) > 4 || !okv(c.Size[0], 100) || !okv(c.Size[1], 100) || c.Size[0] < 0 || c.Size[1] < 0 {
		o.Skip = true
		return o
	}
	for _, p := range c.P {
		if !okv(p[0], 2) || !okv(p[1], 4) {
			o.Skip = true
			return o
		}
	}
	a, b := c.A.build(), c.B.build()
	if !validLL(a) || !validLL(b) {
		// generator couples emptiness; a failure here is an invalid s1 constructor result
		o.Skip = true
		return o
	}
	o.Class = kindLL(a) + "-" + kindLL(b)
	o.NonTrivial = nontrivialS1(a.Lng, b.Lng) || a.IsEmpty() || b.IsEmpty() ||
		math.Abs(a.Lat.Lo) == pi/2 || math.Abs(a.Lat.Hi) == pi/2 || math.Abs(b.Lat.Lo) == pi/2 || math.Abs(b.Lat.Hi) == pi/2
	pfx := fmt.Sprintf("s2.Rect: a={lat[%.17g,%.17g] lng[%.17g,%.17g]} b={lat[%.17g,%.17g] lng[%.17g,%.17g]}: ",
		a.Lat.Lo, a.Lat.Hi, a.Lng.Lo, a.Lng.Hi, b.Lat.Lo, b.Lat.Hi, b.Lng.Lo, b.Lng.Hi)
	fail := func(f string, args ...any) ev.Outcome { o.Err = pfx + fmt.Sprintf(f, args...); return o }
	if !a.IsValid() || !b.IsValid() {
		return fail("IsValid is false for a valid operand")
	}

	lls := make([]s2.LatLng, len(c.P))
	for i, p := range c.P {
		lls[i] = s2.LatLng{Lat: s1.Angle(p[0]), Lng: s1.Angle(p[1])}
	}
	centre := lls[0]
	if !centre.IsValid() {
		o.Skip = true
		return o
	}
	type nr struct {
		name string
		r    s2.Rect
	}
	res := []nr{
		{"a.Union(b)", a.Union(b)}, {"b.Union(a)", b.Union(a)},
		{"a.Intersection(b)", a.Intersection(b)}, {"b.Intersection(a)", b.Intersection(a)},
		{"a.PolarClosure()", a.PolarClosure()},
	}
	for i, ll := range lls {
		res = append(res, nr{fmt.Sprintf("a.AddPoint(p%d)", i), a.AddPoint(ll)})
	}
	nAdd := len(lls)
	fromLL := s2.RectFromLatLng(centre)
	size := s2.LatLng{Lat: s1.Angle(c.Size[0]), Lng: s1.Angle(c.Size[1])}
	cs := s2.RectFromCenterSize(centre, size)
	res = append(res, nr{"RectFromLatLng(p0)", fromLL}, nr{"RectFromCenterSize(p0,size)", cs})

	lats := []float64{a.Lat.Lo, a.Lat.Hi, b.Lat.Lo, b.Lat.Hi, -pi / 2, pi / 2, 0}
	lngs := []float64{a.Lng.Lo, a.Lng.Hi, b.Lng.Lo, b.Lng.Hi, pi, 0}
	// A failure of the two constructors on a centre with longitude −π is a
	// confirmed defect (see findingRectFromLatLngMinusPi); it is reported last so
	// that everything else in the case is still checked.
	deferredErr, fromLLBad := "", false
	for _, r := range res {
		if !validLL(r.r) || !r.r.IsValid() {
			if r.name == "RectFromLatLng(p0)" && centre.Lng.Radians() == -pi {
				deferredErr = pfx + fmt.Sprintf("%s = {lat[%.17g,%.17g] lng[%.17g,%.17g]} is not valid (IsValid=%v)", r.name, r.r.Lat.Lo, r.r.Lat.Hi, r.r.Lng.Lo, r.r.Lng.Hi, r.r.IsValid())
				fromLLBad = true
				continue
			}
			return fail("%s = {lat[%.17g,%.17g] lng[%.17g,%.17g]} is not valid (IsValid=%v)", r.name, r.r.Lat.Lo, r.r.Lat.Hi, r.r.Lng.Lo, r.r.Lng.Hi, r.r.IsValid())
		}
		if r.r.IsEmpty() != (r.r.Lat.Lo > r.r.Lat.Hi) {
			return fail("%s: IsEmpty inconsistent", r.name)
		}
		lats = append(lats, r.r.Lat.Lo, r.r.Lat.Hi)
		lngs = append(lngs, r.r.Lng.Lo, r.r.Lng.Hi)
	}
	for _, ll := range lls {
		if ll.IsValid() {
			lats = append(lats, ll.Lat.Radians())
			lngs = append(lngs, ll.Lng.Radians())
		}
	}
	// probes derived from the centre and the size (RectFromCenterSize)
	qlat := [2]float64{clampAbs(centre.Lat.Radians()-c.Size[0]/4, pi/2), clampAbs(centre.Lat.Radians()+c.Size[0]/4, pi/2)}
	var qlng [2]float64
	if c.Size[1] <= 4*pi {
		qlng = [2]float64{clampAbs(normAngle(centre.Lng.Radians()-c.Size[1]/4), pi), clampAbs(normAngle(centre.Lng.Radians()+c.Size[1]/4), pi)}
	} else {
		qlng = [2]float64{centre.Lng.Radians(), centre.Lng.Radians()}
	}
	lats = append(lats, qlat[:]...)
	lngs = append(lngs, qlng[:]...)
	mlat, mlng := newAxis(false, lats...), newAxis(true, lngs...)
	set := func(r s2.Rect) prod {
		x, okx := mlat.seg(r.Lat.Lo, r.Lat.Hi)
		y, oky := mlng.arc(r.Lng.Lo, r.Lng.Hi)
		if !okx || !oky {
			panic("c19 harness: rect endpoint not on axis")
		}
		return prod{x, y}
	}
	pt := func(lat, lng float64) prod {
		return prod{bset(1) << uint(mlat.pos(lat)), bset(1) << uint(mlng.pos(lng))}
	}
	A, B := set(a), set(b)
	if a.IsEmpty() != A.empty() || b.IsEmpty() != B.empty() {
		return fail("IsEmpty disagrees with the model")
	}
	for k, r := range []s2.Rect{a, b} {
		if got, want := r.IsFull(), kindLL(r) == "F"; got != want {
			return fail("operand %d: IsFull=%v, model %v", k, got, want)
		}
		if got, want := r.IsPoint(), r.Lat.Lo == r.Lat.Hi && r.Lng.Lo == r.Lng.Hi; got != want {
			return fail("operand %d: IsPoint=%v, model %v", k, got, want)
		}
		if !r.IsEmpty() {
			for i := 0; i < 4; i++ {
				if v := r.Vertex(i); !v.IsValid() || !r.ContainsLatLng(v) {
					return fail("operand %d does not contain its vertex %d = (%.17g,%.17g)", k, i, v.Lat.Radians(), v.Lng.Radians())
				}
			}
			if r.Vertex(0) != r.Lo() || r.Vertex(2) != r.Hi() {
				return fail("operand %d: Lo/Hi differ from vertices 0/2", k)
			}
		}
	}
	// ContainsLatLng on the grid of all interesting latitudes × longitudes
	for _, lat := range mlat.vals {
		for _, lng := range append(append([]float64{}, mlng.vals...), -pi) {
			ll := s2.LatLng{Lat: s1.Angle(lat), Lng: s1.Angle(lng)}
			P := pt(lat, lng)
			for k, r := range []s2.Rect{a, b} {
				if got, want := r.ContainsLatLng(ll), P.subsetOf(set(r)); got != want {
					return fail("operand %d: ContainsLatLng(%.17g,%.17g)=%v, model %v", k, lat, lng, got, want)
				}
			}
		}
	}
	for _, ll := range lls {
		if !ll.IsValid() && (a.ContainsLatLng(ll) || b.ContainsLatLng(ll)) {
			return fail("ContainsLatLng accepts the invalid LatLng (%.17g,%.17g)", ll.Lat.Radians(), ll.Lng.Radians())
		}
	}
	for k := 0; k < 2; k++ {
		x, y, X, Y := a, b, A, B
		if k == 1 {
			x, y, X, Y = b, a, B, A
		}
		if got, want := x.Contains(y), Y.subsetOf(X); got != want {
			return fail("order %d: Contains=%v, model %v", k, got, want)
		}
		if got, want := x.Intersects(y), X.meets(Y); got != want {
			return fail("order %d: Intersects=%v, model %v", k, got, want)
		}
	}
	// Union: contains both, latitude hull exact, longitude = the s1 union (checked in s1_pair), empty operand is neutral
	for k, r := range res[:2] {
		x, y := a, b
		if k == 1 {
			x, y = b, a
		}
		S := set(r.r)
		if !A.subsetOf(S) || !B.subsetOf(S) {
			return fail("%s does not contain both operands", r.name)
		}
		switch {
		case A.empty() && B.empty():
			if !S.empty() {
				return fail("%s of two empty rectangles is not empty", r.name)
			}
		case A.empty():
			if !S.equal(B) {
				return fail("%s: the empty operand is not neutral", r.name)
			}
		case B.empty():
			if !S.equal(A) {
				return fail("%s: the empty operand is not neutral", r.name)
			}
		default:
			if S.x != mlat.hull(A.x|B.x) {
				return fail("%s: latitude interval [%.17g,%.17g] is not the hull", r.name, r.r.Lat.Lo, r.r.Lat.Hi)
			}
			if r.r.Lng != x.Lng.Union(y.Lng) {
				return fail("%s: longitude interval differs from the s1 union", r.name)
			}
		}
	}
	// Intersection: contains the common points, nothing outside both; empty iff one axis has no common point
	for k, r := range res[2:4] {
		x, y := a, b
		if k == 1 {
			x, y = b, a
		}
		S := set(r.r)
		I := A.and(B)
		if !I.subsetOf(S) {
			return fail("%s misses common points", r.name)
		}
		if I.empty() {
			if !S.empty() {
				return fail("%s is not empty although the operands have no common point", r.name)
			}
			continue
		}
		if S.x != I.x {
			return fail("%s: latitude interval is not the intersection", r.name)
		}
		if !S.y.subsetOf(A.y | B.y) {
			return fail("%s: longitude interval has points of neither operand", r.name)
		}
		if r.r.Lng != x.Lng.Intersection(y.Lng) {
			return fail("%s: longitude interval differs from the s1 intersection", r.name)
		}
	}
	// PolarClosure
	{
		r := res[4].r
		S := set(r)
		touches := !A.empty() && (a.Lat.Lo == -pi/2 || a.Lat.Hi == pi/2)
		switch {
		case !A.subsetOf(S):
			return fail("PolarClosure lost points")
		case touches && !(r.Lat == a.Lat && kindS1(r.Lng) == "F"):
			return fail("PolarClosure of a rectangle touching a pole = lng[%.17g,%.17g], want all longitudes", r.Lng.Lo, r.Lng.Hi)
		case !touches && r != a:
			return fail("PolarClosure changed a rectangle that touches no pole")
		}
	}
	// AddPoint
	for i, ll := range lls {
		r := res[5+i].r
		if !ll.IsValid() {
			if r != a {
				return fail("AddPoint of an invalid LatLng changed the rectangle")
			}
			continue
		}
		S := set(r)
		P := pt(ll.Lat.Radians(), ll.Lng.Radians())
		if !A.subsetOf(S) || !P.subsetOf(S) {
			return fail("%s = {lat[%.17g,%.17g] lng[%.17g,%.17g]} does not contain the rectangle and the point", res[5+i].name, r.Lat.Lo, r.Lat.Hi, r.Lng.Lo, r.Lng.Hi)
		}
		if P.subsetOf(A) && r != a {
			return fail("%s changed the rectangle although it contains the point", res[5+i].name)
		}
		wantLat := mlat.hull(A.x | P.x)
		if A.empty() {
			wantLat = P.x
		}
		if S.x != wantLat {
			return fail("%s: latitude interval is not minimal", res[5+i].name)
		}
		if r.Lng != a.Lng.AddPoint(ll.Lng.Radians()) {
			return fail("%s: longitude interval differs from s1 AddPoint", res[5+i].name)
		}
		if !r.ContainsLatLng(ll) {
			return fail("%s: ContainsLatLng(point) is false afterwards", res[5+i].name)
		}
	}
	// RectFromLatLng
	if !fromLLBad {
		r := res[5+nAdd].r
		P := pt(centre.Lat.Radians(), centre.Lng.Radians())
		if !set(r).equal(P) || !r.IsPoint() || !r.ContainsLatLng(centre) {
			if centre.Lng.Radians() == -pi {
				o.Finding = findingRectFromLatLngMinusPi
			}
			return fail("RectFromLatLng(%.17g,%.17g) = {lat[%.17g,%.17g] lng[%.17g,%.17g]} is not the single point", centre.Lat.Radians(), centre.Lng.Radians(), r.Lat.Lo, r.Lat.Hi, r.Lng.Lo, r.Lng.Hi)
		}
	}
	// RectFromCenterSize
	{
		r := res[6+nAdd].r
		S := set(r)
		P := pt(centre.Lat.Radians(), centre.Lng.Radians())
		if !P.subsetOf(S) {
			return fail("RectFromCenterSize(centre (%.17g,%.17g), size (%.17g,%.17g)) does not contain its centre", centre.Lat.Radians(), centre.Lng.Radians(), c.Size[0], c.Size[1])
		}
		if c.Size[1] >= 2*pi && kindS1(r.Lng) != "F" {
			return fail("RectFromCenterSize: longitude size %.17g ≥ 2π but lng = [%.17g,%.17g]", c.Size[1], r.Lng.Lo, r.Lng.Hi)
		}
		if c.Size[1] < 2*pi-expandFullTol && kindS1(r.Lng) == "F" {
			return fail("RectFromCenterSize: longitude size %.17g < 2π but lng is full", c.Size[1])
		}
		for _, la := range qlat {
			for _, ln := range qlng {
				if !pt(la, ln).subsetOf(S) {
					return fail("RectFromCenterSize(centre (%.17g,%.17g), size (%.17g,%.17g)) = {lat[%.17g,%.17g] lng[%.17g,%.17g]} misses (%.17g,%.17g), a quarter size from the centre",
						centre.Lat.Radians(), centre.Lng.Radians(), c.Size[0], c.Size[1], r.Lat.Lo, r.Lat.Hi, r.Lng.Lo, r.Lng.Hi, la, ln)
				}
			}
		}
	}
	if deferredErr != "" {
		o.Err, o.Finding = deferredErr, findingRectFromLatLngMinusPi
		return o
	}
	// ContainsPoint through the point conversion, for probes at least 1e-13 away from every edge
	for _, ll := range lls {
		if !ll.IsValid() {
			continue
		}
		for k, r := range []s2.Rect{a, b} {
			if r.IsEmpty() {
				continue
			}
			la, ln := ll.Lat.Radians(), ll.Lng.Radians()
			d := math.Min(math.Abs(la-r.Lat.Lo), math.Abs(la-r.Lat.Hi))
			if kindS1(r.Lng) != "F" {
				d = math.Min(d, math.Min(circDist(normPi(ln), normPi(r.Lng.Lo)), circDist(normPi(ln), normPi(r.Lng.Hi))))
			}
			if d < 1e-13 || math.Abs(la) > pi/2-1e-13 {
				continue
			}
			if got, want := r.ContainsPoint(s2.PointFromLatLng(ll)), r.ContainsLatLng(ll); got != want {
				return fail("operand %d: ContainsPoint(PointFromLatLng(%.17g,%.17g))=%v but ContainsLatLng=%v (probe is %.3g rad from the nearest edge)", k, la, ln, got, want, d)
			}
		}
	}
	return o
}

// ---------------------------------------------------------------------------
// s1.Angle.Normalized, s2.LatLng.Normalized

type normCase struct{ Lat, Lng float64 }

func genNorm(t *rapid.T) normCase {
	v := func(l string) float64 {
		switch rapid.IntRange(0, 5).Draw(t, l+".mode") {
		case 0:
			k := float64(rapid.IntRange(-8, 8).Draw(t, l+".k"))
			return genUlps(t, l, k*pi/2)
		case 1:
			return angleVal(t, l, pi, nil)
		case 2:
			return rapid.Float64Range(-1e6, 1e6).Draw(t, l+".big")
		case 3:
			k := float64(rapid.IntRange(-1000000, 1000000).Draw(t, l+".k2"))
			return genUlps(t, l, k*pi)
		default:
			return rapid.Float64Range(-10, 10).Draw(t, l+".u")
		}
	}
	return normCase{v("lat"), v("lng")}
}

func genUlps(t *rapid.T, l string, v float64) float64 {
	n := rapid.IntRange(-2, 2).Draw(t, l+".ulps")
	for ; n > 0; n-- {
		v = math.Nextafter(v, math.Inf(1))
	}
	for ; n < 0; n++ {
		v = math.Nextafter(v, math.Inf(-1))
	}
	return v
}

// isMultipleOf2Pi reports whether x−y is an integer multiple of the float64
// value 2π (exactly, in big.Float arithmetic) – the contract of math.Remainder.
func isMultipleOf2Pi(x, y float64) bool {
	const prec = 2200
	d := new(big.Float).SetPrec(prec).SetFloat64(x)
	d.Sub(d, new(big.Float).SetPrec(prec).SetFloat64(y))
	q := new(big.Float).SetPrec(prec).Quo(d, new(big.Float).SetPrec(prec).SetFloat64(2*pi))
	if !q.IsInt() {
		// the quotient of two dyadic rationals need not be dyadic; test by multiplication
		n, _ := q.Int(nil)
		for _, k := range []int64{0, 1, -1} {
			m := new(big.Float).SetPrec(prec).SetInt(new(big.Int).Add(n, big.NewInt(k)))
			m.Mul(m, new(big.Float).SetPrec(prec).SetFloat64(2*pi))
			if m.Cmp(d) == 0 {
				return true
			}
		}
		return false
	}
	return true
}

func checkNorm(c normCase) ev.Outcome {
	o := ev.Outcome{}
	if math.IsNaN(c.Lat) || math.IsNaN(c.Lng) || math.Abs(c.Lat) > 1e7 || math.Abs(c.Lng) > 1e7 {
		o.Skip = true
		return o
	}
	ll := s2.LatLng{Lat: s1.Angle(c.Lat), Lng: s1.Angle(c.Lng)}
	wasValid := math.Abs(c.Lat) <= pi/2 && math.Abs(c.Lng) <= pi
	o.Class = "invalid-input"
	if wasValid {
		o.Class = "valid-input"
	}
	o.NonTrivial = !wasValid || math.Abs(c.Lng) == pi || math.Abs(c.Lat) == pi/2
	if ll.IsValid() != wasValid {
		o.Err = fmt.Sprintf("LatLng(%.17g,%.17g).IsValid()=%v", c.Lat, c.Lng, ll.IsValid())
		return o
	}
	n := ll.Normalized()
	switch {
	case !n.IsValid() || math.Abs(n.Lat.Radians()) > pi/2 || math.Abs(n.Lng.Radians()) > pi:
		o.Err = fmt.Sprintf("LatLng(%.17g,%.17g).Normalized() = (%.17g,%.17g) is not valid", c.Lat, c.Lng, n.Lat.Radians(), n.Lng.Radians())
	case wasValid && n != ll:
		o.Err = fmt.Sprintf("Normalized changed the valid LatLng (%.17g,%.17g) to (%.17g,%.17g)", c.Lat, c.Lng, n.Lat.Radians(), n.Lng.Radians())
	case n.Lat.Radians() != clampAbs(c.Lat, pi/2):
		o.Err = fmt.Sprintf("Normalized latitude %.17g, want %.17g clamped", n.Lat.Radians(), c.Lat)
	case !isMultipleOf2Pi(c.Lng, n.Lng.Radians()):
		o.Err = fmt.Sprintf("Normalized longitude %.17g is not %.17g modulo 2π", n.Lng.Radians(), c.Lng)
	}
	if o.Err != "" {
		return o
	}
	an := s1.Angle(c.Lng).Normalized().Radians()
	switch {
	case !(an > -pi && an <= pi):
		o.Err = fmt.Sprintf("Angle(%.17g).Normalized() = %.17g is not in (-π,π]", c.Lng, an)
	case !isMultipleOf2Pi(c.Lng, an):
		o.Err = fmt.Sprintf("Angle(%.17g).Normalized() = %.17g is not the same angle modulo 2π", c.Lng, an)
	case c.Lng > -pi && c.Lng <= pi && an != c.Lng:
		o.Err = fmt.Sprintf("Angle(%.17g).Normalized() = %.17g changed an angle already in (-π,π]", c.Lng, an)
	}
	return o
}

func init() {
	ev.Define("r2_rect", ev.Options{
		Rule:  "pairs of valid r2 rectangles (both axes empty or neither; canonical and non-canonical empties, points, segments) with coordinates as in r1_interval (|v| ≤ 1e6), 1-3 points, per-axis margins {0, −length/2, uniform ±3}. Oracle: product of two exact line models. ContainsPoint/InteriorContainsPoint on vertices, centres, points; Contains, InteriorContains, Intersects, InteriorIntersects as set relations (both orders); Union = AddRect = bounding rectangle; Intersection = common points; Expanded monotone per axis, empty only if the operand is empty or a margin is negative; AddPoint, ClampPoint, RectFromPoints, RectFromCenterSize, Vertices/VertexIJ/Lo/Hi/Center; all results valid. Non-trivial = an operand is empty/degenerate or the operands share a coordinate.",
		Quick: 100000, Thorough: 6000000}, genR2, checkR2)
	ev.Define("latlng_rect", ev.Options{
		Rule:  "pairs of valid s2.Rect (Empty, Full, latitude from {0,±π/4,±π/2}±ulps/related/uniform, longitude as in s1_pair incl. inverted, ±π, full), 1-3 LatLng probes (first valid; later ones sometimes just outside the valid range), a size for RectFromCenterSize in {0, tiny, half, full ± 1 ulp, 2× full, uniform}. Oracle: line model × circle model. IsValid/IsEmpty/IsFull/IsPoint, vertices contained, ContainsLatLng on the complete grid of all occurring latitudes × longitudes (both ±π), Contains/Intersects both orders, Union ⊇ both with exact latitude hull and empty operand neutral, Intersection ⊇ common points and empty iff no common point, PolarClosure, AddPoint (valid and invalid points), RectFromLatLng is the single point, RectFromCenterSize contains centre and quarter-size probes and is full in longitude iff size ≥ 2π (1e-14 band), ContainsPoint∘PointFromLatLng for probes ≥1e-13 from every edge; all results valid. Non-trivial = longitude endpoint at ±π / shared / inverted / empty / full, or a latitude endpoint at a pole.",
		Quick: 120000, Thorough: 8000000}, genLL, checkLL)
	ev.Define("angle_normalize", ev.Options{
		Rule:  "latitude/longitude values from {kπ/2 ± 0..2 ulps (|k| ≤ 8), kπ ± ulps (|k| ≤ 1e6), critical grid, uniform ±10, uniform ±1e6}. LatLng.IsValid matches the documented range; LatLng.Normalized is valid, leaves valid input unchanged, clamps latitude, keeps longitude modulo (float64) 2π exactly (big.Float); Angle.Normalized lies in (-π,π], is the same angle modulo 2π and is the identity on (-π,π]. Non-trivial = input outside the valid range or exactly on ±π / ±π/2.",
		Quick: 40000, Thorough: 2000000}, genNorm, checkNorm)
}
