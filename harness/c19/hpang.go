package c19

import (
	"math/big"

	"github.com/golang/geo/s2"

	"verifharness/internal/hp"
)

// High precision (320-bit) angle algebra for the cap oracle.
//
// An angle is carried as the pair (sin, cos) of its HALF angle h = θ/2 ∈ [0,π/2],
// because a cap radius stored as a squared chord length r = 4·sin²(θ/2) gives
// sin h = √r/2 and cos h = √(1−r/4) with square roots only. Chord LENGTHS
// (2·sin h) are the unit in which slacks and tolerances are expressed: a chord
// length changes by at most δ when its angle changes by δ, so a bound of δ
// radians on an angle implies the same bound on the chord length.

type half struct{ s, c *big.Float } // sin h, cos h;  h ∈ [0, π] after additions

func one() *big.Float { return hp.F(1) }

// halfFromChord2 converts a squared chord length r ∈ [0,4].
func halfFromChord2(r *big.Float) half {
	q := hp.Quo(r, hp.F(4))
	if q.Cmp(one()) > 0 {
		q = one()
	}
	if q.Sign() < 0 {
		q = hp.F(0)
	}
	return half{hp.Sqrt(q), hp.Sqrt(hp.Sub(one(), q))}
}

func halfFromChord2F(r float64) half { return halfFromChord2(hp.F(r)) }

// halfBetween: half of the angle between the directions of two points.
func halfBetween(a, b s2.Point) half {
	return halfFromChord2(hp.Chord2(hp.Vec(a.Vector), hp.Vec(b.Vector)))
}

// add returns the half-angle pair of h1+h2 (∈ [0,π]).
func (a half) add(b half) half {
	return half{hp.Add(hp.Mul(a.s, b.c), hp.Mul(a.c, b.s)), hp.Sub(hp.Mul(a.c, b.c), hp.Mul(a.s, b.s))}
}

// chord returns the chord length 2·sin(min(h, π/2)) of the angle 2h clamped at π.
func (a half) chord() *big.Float {
	if a.c.Sign() <= 0 {
		return hp.F(2)
	}
	return hp.Mul(hp.F(2), a.s)
}

// beyondPi reports whether the angle 2h is ≥ π.
func (a half) beyondPi() bool { return a.c.Sign() <= 0 }

// halve returns the pair for h/2 (h ∈ [0,π]): sin(h/2) = √((1−cos h)/2), computed
// as sin h / (2 cos(h/2)) when cos h > 0 to avoid cancellation.
func (a half) halve() half {
	c2 := hp.Sqrt(hp.Quo(hp.Add(one(), a.c), hp.F(2)))
	var s2 *big.Float
	if a.c.Sign() > 0 {
		s2 = hp.Quo(a.s, hp.Mul(hp.F(2), c2))
	} else {
		s2 = hp.Sqrt(hp.Quo(hp.Sub(one(), a.c), hp.F(2)))
	}
	return half{s2, c2}
}

var hpPi = func() *big.Float {
	f, _, err := big.ParseFloat("3.14159265358979323846264338327950288419716939937510582097494459230781640628620899862803482534211706798214808651328230664709384460955058223172535940812848111745", 10, 512, big.ToNearestEven)
	if err != nil {
		panic(err)
	}
	return f
}()

// sinCos returns sin x and cos x for |x| ≤ ~1e3 at 320+ bits: argument
// reduction by halving, Taylor series, then repeated doubling.
func sinCos(x *big.Float) (s, c *big.Float) {
	const prec = 400
	y := new(big.Float).SetPrec(prec).Set(x)
	k := 0
	lim := new(big.Float).SetPrec(prec).SetFloat64(1.0 / 1024)
	for new(big.Float).Abs(y).Cmp(lim) > 0 {
		y.Quo(y, big.NewFloat(2))
		k++
	}
	y2 := new(big.Float).SetPrec(prec).Mul(y, y)
	s = new(big.Float).SetPrec(prec).Set(y)
	c = new(big.Float).SetPrec(prec).SetInt64(1)
	ts := new(big.Float).SetPrec(prec).Set(y)
	tc := new(big.Float).SetPrec(prec).SetInt64(1)
	for n := 1; n < 40; n++ {
		// tc: term of cos of order 2n, ts: term of sin of order 2n+1
		tc.Mul(tc, y2)
		tc.Quo(tc, new(big.Float).SetPrec(prec).SetInt64(int64((2*n-1)*(2*n))))
		tc.Neg(tc)
		c.Add(c, tc)
		ts.Mul(ts, y2)
		ts.Quo(ts, new(big.Float).SetPrec(prec).SetInt64(int64((2*n)*(2*n+1))))
		ts.Neg(ts)
		s.Add(s, ts)
	}
	for ; k > 0; k-- {
		ns := new(big.Float).SetPrec(prec).Mul(s, c)
		ns.Mul(ns, big.NewFloat(2))
		nc := new(big.Float).SetPrec(prec).Mul(c, c)
		nc.Sub(nc, new(big.Float).SetPrec(prec).Mul(s, s))
		s, c = ns, nc
	}
	return s.SetPrec(hp.Prec), c.SetPrec(hp.Prec)
}

// halfFromAngle converts an angle in radians (float64, exact), clamped to [0,π].
func halfFromAngle(theta float64) half {
	if theta <= 0 {
		return half{hp.F(0), hp.F(1)}
	}
	x := hp.Quo(hp.F(theta), hp.F(2))
	if hp.F(theta).Cmp(hpPi) >= 0 {
		return half{hp.F(1), hp.F(0)}
	}
	s, c := sinCos(x)
	if c.Sign() < 0 {
		c = hp.F(0)
	}
	return half{s, c}
}
