package c01

import (
	"fmt"

	"github.com/golang/geo/s2"
	"pgregory.net/rapid"

	"verifharness/internal/ev"
)

// first_use: what a cell id describes must not depend on what the process did
// before. The answers below are computed while this package is being initialised -
// before any sub-check runs and before this process has converted any point,
// lat/lng or (face,i,j) to a cell id - and are compared with the same calls made
// later. (Package-level variables are initialised before every init function.)

type firstUseRec struct {
	ID       s2.CellID
	Point    s2.Point
	LatLng   s2.LatLng
	Bound    string
	Nbrs     [4]s2.CellID
	Vertices []s2.CellID
	All      []s2.CellID
	Token    string
	Str      string
}

func firstUseIDs() []s2.CellID {
	var ids []s2.CellID
	for f := uint64(0); f < 6; f++ {
		face := f<<61 | 1<<60
		ids = append(ids, s2.CellID(face))
		// a few descendants at several levels: fixed bit patterns, no geometry involved
		for _, pat := range []uint64{0x0123456789abcdef, 0x0fedcba987654321, 0x0aaaaaaaaaaaaaaa, 0x0555555555555555, 0x0000000000000000, 0x0fffffffffffffff} {
			for _, level := range []uint{1, 5, 14, 29, 30} {
				lsb := uint64(1) << (2 * (30 - level))
				id := (f<<61|(pat<<1)&(1<<61-1))&^(lsb<<1-1) | lsb
				ids = append(ids, s2.CellID(id))
			}
		}
	}
	return ids
}

func firstUseOf(id s2.CellID) firstUseRec {
	r := firstUseRec{ID: id, Point: id.Point(), LatLng: id.LatLng(), Nbrs: id.EdgeNeighbors(), Token: id.ToToken(), Str: id.String()}
	c := s2.CellFromCellID(id)
	r.Bound = fmt.Sprintf("%v face=%d level=%d v0=%v", c.BoundUV(), c.Face(), c.Level(), c.Vertex(0))
	if id.Level() >= 1 {
		r.Vertices = id.VertexNeighbors(id.Level() - 1)
	}
	if id.Level() <= 29 {
		r.All = id.AllNeighbors(id.Level() + 1)
	}
	return r
}

var firstUse = func() []firstUseRec {
	var out []firstUseRec
	for _, id := range firstUseIDs() {
		if id.IsValid() {
			out = append(out, firstUseOf(id))
		}
	}
	return out
}()

type firstUseCase struct{ K int }

func genFirstUse(t *rapid.T) firstUseCase {
	return firstUseCase{rapid.IntRange(0, len(firstUse)-1).Draw(t, "k")}
}

func checkFirstUse(c firstUseCase) ev.Outcome {
	o := ev.Outcome{NonTrivial: true}
	if c.K < 0 || c.K >= len(firstUse) {
		o.Skip = true
		return o
	}
	was := firstUse[c.K]
	o.Class = fmt.Sprintf("level %d", was.ID.Level())
	// make sure the other direction has been used by now
	_ = s2.CellFromPoint(s2.PointFromCoords(0.3, -0.5, 0.8)).ID()
	now := firstUseOf(was.ID)
	if a, b := fmt.Sprintf("%+v", was), fmt.Sprintf("%+v", now); a != b {
		o.Err = fmt.Sprintf("cell id %#x described differently by the first calls of this process and by later ones:\n  first: %s\n  later: %s", uint64(was.ID), a, b)
		return o
	}
	if !s2.CellFromCellID(was.ID).ContainsPoint(was.Point) {
		o.Err = fmt.Sprintf("cell %#x does not contain the centre computed for it by the first calls of this process", uint64(was.ID))
		return o
	}
	return o
}

func init() {
	ev.Define("first_use", ev.Options{
		Rule:  "186 fixed cell ids (all faces, levels 0/1/5/14/29/30, fixed bit patterns): Point, LatLng, BoundUV/face/level/vertex of the Cell, edge / vertex / all neighbours, token and string computed during package initialisation (this process's first use of the library, before any point or lat/lng has been converted to a cell id) equal the same calls made later, and the cell contains that first centre. Every case counts.",
		Quick: 800, Thorough: 4000}, genFirstUse, checkFirstUse)
}
