package c01

// Independent models used as oracles by the C01 sub-checks.
//
//  1. curve-index model of the 64-bit id: a cell of level l is the k-th cell of
//     its level along the curve, k in [0, 6·4^l); its id is (2k+1)·4^(30-l);
//     its children are 4k..4k+3 one level down, its parent is k>>2 one level up
//     and its leaves are k·4^(30-l) … (k+1)·4^(30-l)-1.  cellid.go works with
//     lsb masks instead; the Hilbert lookup tables are not re-implemented.
//  2. integer cube-lattice model: a cell is a closed axis-aligned square with
//     integer corners on the surface of the cube [-2^30,2^30]^3 (linear
//     coordinates; the st->uv transform is strictly monotone and odd about the
//     face centre, so incidence is the same).  The square of a cell is READ from
//     its BoundUV() by matching the four values bit-exactly against the
//     published quadratic transform at k/2^level.
//  3. exact rational membership of a point in a (u,v) rectangle.

import (
	"fmt"
	"math"
	"math/big"
	"math/bits"

	"github.com/golang/geo/r3"
	"github.com/golang/geo/s2"

	"verifharness/internal/gen"
)

const eps = 0x1p-52 // dblEpsilon

// ---------------------------------------------------------------- id model

func mLsb(id uint64) uint64 { return id & -id }

func mValid(id uint64) bool {
	if id == 0 || id>>61 > 5 {
		return false
	}
	tz := bits.TrailingZeros64(id)
	return tz%2 == 0 && tz <= 60
}

func mLevel(id uint64) int { return 30 - bits.TrailingZeros64(id)/2 }

// mFromIndex: id of the k-th cell of the level (k may be 6·4^level = End).
func mFromIndex(level int, k uint64) uint64 { return (2*k + 1) << uint(2*(30-level)) }

func mIndex(id uint64) uint64 { return id >> uint(2*(30-mLevel(id))+1) }

func mCount(level int) uint64 { return 6 << uint(2*level) }

func mParent(id uint64, level int) uint64 {
	return mFromIndex(level, mIndex(id)>>uint(2*(mLevel(id)-level)))
}

func mChild(id uint64, k int) uint64 { return mFromIndex(mLevel(id)+1, 4*mIndex(id)+uint64(k)) }

// leaf interval [lo,hi] (leaf curve indices) of a cell.
func mLeafRange(id uint64) (lo, hi uint64) {
	d := uint(2 * (30 - mLevel(id)))
	k := mIndex(id)
	return k << d, ((k + 1) << d) - 1
}

func mRangeMin(id uint64) uint64 { lo, _ := mLeafRange(id); return mFromIndex(30, lo) }
func mRangeMax(id uint64) uint64 { _, hi := mLeafRange(id); return mFromIndex(30, hi) }

func mContains(a, b uint64) bool {
	alo, ahi := mLeafRange(a)
	blo, bhi := mLeafRange(b)
	return alo <= blo && bhi <= ahi
}

func mIntersects(a, b uint64) bool {
	alo, ahi := mLeafRange(a)
	blo, bhi := mLeafRange(b)
	return alo <= bhi && blo <= ahi
}

// mToToken: 16 hex digits, trailing zeros stripped, "X" for zero.
func mToToken(id uint64) string {
	const hexd = "0123456789abcdef"
	var b [16]byte
	for i := 0; i < 16; i++ {
		b[i] = hexd[(id>>uint(60-4*i))&15]
	}
	n := 16
	for n > 0 && b[n-1] == '0' {
		n--
	}
	if n == 0 {
		return "X"
	}
	return string(b[:n])
}

// mFromToken: hex string of at most 16 digits, right-padded with zeros;
// anything else is the invalid id 0.
func mFromToken(s string) uint64 {
	if len(s) == 0 || len(s) > 16 {
		return 0
	}
	var n uint64
	for i := 0; i < len(s); i++ {
		c := s[i]
		var d byte
		switch {
		case c >= '0' && c <= '9':
			d = c - '0'
		case c >= 'a' && c <= 'f':
			d = c - 'a' + 10
		case c >= 'A' && c <= 'F':
			d = c - 'A' + 10
		default:
			return 0
		}
		n = n<<4 | uint64(d)
	}
	return n << uint(4*(16-len(s)))
}

// mString: "f/dddd" for a valid id.
func mString(id uint64) string {
	l := mLevel(id)
	k := mIndex(id)
	b := make([]byte, l+2)
	for i := l; i >= 1; i-- {
		b[i+1] = byte('0' + k&3)
		k >>= 2
	}
	b[0] = byte('0' + k)
	b[1] = '/'
	return string(b)
}

func mFromString(s string) uint64 {
	l := len(s) - 2
	if l < 0 || l > 30 {
		return 0
	}
	if s[0] < '0' || s[0] > '5' || s[1] != '/' {
		return 0
	}
	k := uint64(s[0] - '0')
	for i := 2; i < len(s); i++ {
		if s[i] < '0' || s[i] > '3' {
			return 0
		}
		k = k<<2 | uint64(s[i]-'0')
	}
	return mFromIndex(l, k)
}

// ---------------------------------------------------------------- face frames

type axis struct {
	i int   // xyz component
	s int64 // sign
}

// frames[f][0..2] = u, v, w axes of face f, derived from the published
// (face,u,v) -> xyz map (gen.FaceUVToXYZ), not from stuv.go's tables.
var frames [6][3]axis

func init() {
	for f := 0; f < 6; f++ {
		o := gen.FaceUVToXYZ(f, 0, 0)
		u := gen.FaceUVToXYZ(f, 1, 0).Sub(o)
		v := gen.FaceUVToXYZ(f, 0, 1).Sub(o)
		for k, vec := range []r3.Vector{u, v, o} {
			c := [3]float64{vec.X, vec.Y, vec.Z}
			n := 0
			for i := 0; i < 3; i++ {
				if c[i] != 0 {
					frames[f][k] = axis{i, int64(c[i])}
					n++
				}
			}
			if n != 1 {
				panic("c01: face frame is not a signed permutation")
			}
		}
	}
}

func toUVW(f int, p [3]float64) (u, v, w float64) {
	a := frames[f]
	return float64(a[0].s) * p[a[0].i], float64(a[1].s) * p[a[1].i], float64(a[2].s) * p[a[2].i]
}

func toXYZi(f int, u, v, w int64) [3]int64 {
	var x [3]int64
	a := frames[f]
	x[a[0].i] += a[0].s * u
	x[a[1].i] += a[1].s * v
	x[a[2].i] += a[2].s * w
	return x
}

func toUVWi(f int, x [3]int64) (u, v, w int64) {
	a := frames[f]
	return a[0].s * x[a[0].i], a[1].s * x[a[1].i], a[2].s * x[a[2].i]
}

// ---------------------------------------------------------------- lattice

// myStToUV is the published quadratic transform.
func myStToUV(s float64) float64 {
	if s >= 0.5 {
		return (1 / 3.) * (4*s*s - 1)
	}
	return (1 / 3.) * (1 - 4*(1-s)*(1-s))
}

func approxUVToST(u float64) float64 {
	if u >= 0 {
		return 0.5 * math.Sqrt(1+3*u)
	}
	return 1 - 0.5*math.Sqrt(1-3*u)
}

// latticeIndex finds k with myStToUV(k/2^level) == u bit-exactly.
func latticeIndex(u float64, level int) (int64, bool) {
	n := float64(int64(1) << uint(level))
	k0 := int64(math.Round(approxUVToST(u) * n))
	for _, d := range [...]int64{0, -1, 1} {
		k := k0 + d
		if k < 0 || k > int64(n) {
			continue
		}
		if myStToUV(float64(k)/n) == u {
			return k, true
		}
	}
	return 0, false
}

// sq is a lattice square: face F, level L, column A and row B in [0,2^L).
type sq struct {
	F, L int
	A, B int64
}

func (s sq) String() string { return fmt.Sprintf("f%d/L%d/(%d,%d)", s.F, s.L, s.A, s.B) }

// readSq reads the lattice square of a cell from its face, level and BoundUV.
func readSq(c s2.Cell) (sq, string) {
	b := c.BoundUV()
	l := c.Level()
	if l < 0 || l > 30 || c.Face() < 0 || c.Face() > 5 {
		return sq{}, fmt.Sprintf("cell %v has face %d level %d", c.ID(), c.Face(), l)
	}
	a0, ok0 := latticeIndex(b.X.Lo, l)
	a1, ok1 := latticeIndex(b.X.Hi, l)
	b0, ok2 := latticeIndex(b.Y.Lo, l)
	b1, ok3 := latticeIndex(b.Y.Hi, l)
	if !ok0 || !ok1 || !ok2 || !ok3 {
		return sq{}, fmt.Sprintf("BoundUV %v of cell %v (level %d) is not on the level-%d lattice of the quadratic transform", b, c.ID(), l, l)
	}
	if a1 != a0+1 || b1 != b0+1 {
		return sq{}, fmt.Sprintf("BoundUV of cell %v (level %d) spans lattice [%d,%d]x[%d,%d], not one square", c.ID(), l, a0, a1, b0, b1)
	}
	return sq{c.Face(), l, a0, b0}, ""
}

const cubeW = int64(1) << 30

func (s sq) size() int64 { return int64(1) << uint(31-s.L) }

func (s sq) uvRange() (ulo, uhi, vlo, vhi int64) {
	z := s.size()
	return s.A*z - cubeW, (s.A+1)*z - cubeW, s.B*z - cubeW, (s.B+1)*z - cubeW
}

// box is a closed axis-aligned box with integer corners in cube coordinates.
type box struct{ lo, hi [3]int64 }

func boxFromUV(f int, ulo, uhi, vlo, vhi int64) box {
	p := toXYZi(f, ulo, vlo, cubeW)
	q := toXYZi(f, uhi, vhi, cubeW)
	var b box
	for i := 0; i < 3; i++ {
		b.lo[i], b.hi[i] = p[i], q[i]
		if b.lo[i] > b.hi[i] {
			b.lo[i], b.hi[i] = b.hi[i], b.lo[i]
		}
	}
	return b
}

func (s sq) box() box {
	ulo, uhi, vlo, vhi := s.uvRange()
	return boxFromUV(s.F, ulo, uhi, vlo, vhi)
}

// corner k in Cell.Vertex order: (lo,lo) (hi,lo) (hi,hi) (lo,hi).
func (s sq) corner(k int) [3]int64 {
	ulo, uhi, vlo, vhi := s.uvRange()
	u, v := ulo, vlo
	if k == 1 || k == 2 {
		u = uhi
	}
	if k == 2 || k == 3 {
		v = vhi
	}
	return toXYZi(s.F, u, v, cubeW)
}

// edgeBox k in EdgeNeighbors order: 0 down (v=lo), 1 right (u=hi), 2 up, 3 left.
func (s sq) edgeBox(k int) box {
	ulo, uhi, vlo, vhi := s.uvRange()
	switch k {
	case 0:
		return boxFromUV(s.F, ulo, uhi, vlo, vlo)
	case 1:
		return boxFromUV(s.F, uhi, uhi, vlo, vhi)
	case 2:
		return boxFromUV(s.F, ulo, uhi, vhi, vhi)
	default:
		return boxFromUV(s.F, ulo, ulo, vlo, vhi)
	}
}

func pointBox(p [3]int64) box { return box{p, p} }

func (b box) intersects(c box) bool {
	for i := 0; i < 3; i++ {
		if b.lo[i] > c.hi[i] || c.lo[i] > b.hi[i] {
			return false
		}
	}
	return true
}

func (b box) contains(c box) bool {
	for i := 0; i < 3; i++ {
		if c.lo[i] < b.lo[i] || c.hi[i] > b.hi[i] {
			return false
		}
	}
	return true
}

// sharedExtent returns the sorted extents of the intersection (ok=false if empty).
func (b box) sharedExtent(c box) (ext [3]int64, ok bool) {
	for i := 0; i < 3; i++ {
		lo, hi := b.lo[i], b.hi[i]
		if c.lo[i] > lo {
			lo = c.lo[i]
		}
		if c.hi[i] < hi {
			hi = c.hi[i]
		}
		if lo > hi {
			return ext, false
		}
		ext[i] = hi - lo
	}
	// sort 3 values
	if ext[0] > ext[1] {
		ext[0], ext[1] = ext[1], ext[0]
	}
	if ext[1] > ext[2] {
		ext[1], ext[2] = ext[2], ext[1]
	}
	if ext[0] > ext[1] {
		ext[0], ext[1] = ext[1], ext[0]
	}
	return ext, true
}

// shareFullEdge: two squares of one level meet in exactly one full side.
func shareFullEdge(a, b sq) bool {
	ext, ok := a.box().sharedExtent(b.box())
	return ok && a.L == b.L && ext[0] == 0 && ext[1] == 0 && ext[2] == a.size()
}

// inside: s lies inside the square c (c.L <= s.L).
func (s sq) inside(c sq) bool {
	if s.F != c.F || s.L < c.L {
		return false
	}
	d := uint(s.L - c.L)
	return s.A>>d == c.A && s.B>>d == c.B
}

// touching enumerates every level-`level` square of the cube surface whose
// closed square meets the closed box b.
func touching(b box, level int) []sq {
	var out []sq
	z := int64(1) << uint(31-level)
	n := int64(1) << uint(level)
	for f := 0; f < 6; f++ {
		u1, v1, w1 := toUVWi(f, b.lo)
		u2, v2, w2 := toUVWi(f, b.hi)
		if w1 < cubeW && w2 < cubeW {
			continue
		}
		if u1 > u2 {
			u1, u2 = u2, u1
		}
		if v1 > v2 {
			v1, v2 = v2, v1
		}
		rng := func(lo, hi int64) (int64, int64) {
			lo += cubeW
			hi += cubeW
			a := (lo+z-1)/z - 1
			if a < 0 {
				a = 0
			}
			e := hi / z
			if e > n-1 {
				e = n - 1
			}
			return a, e
		}
		alo, ahi := rng(u1, u2)
		blo, bhi := rng(v1, v2)
		if (ahi-alo+1)*(bhi-blo+1) > 20000 {
			panic("c01 harness: touching() asked for too many squares")
		}
		for a := alo; a <= ahi; a++ {
			for bb := blo; bb <= bhi; bb++ {
				out = append(out, sq{f, level, a, bb})
			}
		}
	}
	return out
}

// onFaceEdges: how many of the square's sides lie on an edge of its face (0..4),
// and whether it contains a cube corner.
func (s sq) onFaceEdges() (n int, corner bool) {
	m := int64(1)<<uint(s.L) - 1
	ua := s.A == 0 || s.A == m
	vb := s.B == 0 || s.B == m
	if s.A == 0 {
		n++
	}
	if s.A == m {
		n++
	}
	if s.B == 0 {
		n++
	}
	if s.B == m {
		n++
	}
	return n, ua && vb
}

// ---------------------------------------------------------------- exact membership

func ratOf(f float64) *big.Rat { return new(big.Rat).SetFloat64(f) }

// exactRatio returns a/w exactly (w != 0).
func exactRatio(a, w float64) *big.Rat { return new(big.Rat).Quo(ratOf(a), ratOf(w)) }

// excess returns max(lo-u, u-hi, 0) exactly.
func excess(u *big.Rat, lo, hi float64) *big.Rat {
	l, h := ratOf(lo), ratOf(hi)
	if u.Cmp(l) < 0 {
		return l.Sub(l, u)
	}
	if u.Cmp(h) > 0 {
		return new(big.Rat).Sub(u, h)
	}
	return new(big.Rat)
}

// nearBoundary returns min(|u-lo|, |u-hi|) exactly and which side is nearer (0 lo, 1 hi).
func nearBoundary(u *big.Rat, lo, hi float64) (*big.Rat, int) {
	dl := new(big.Rat).Sub(u, ratOf(lo))
	dl.Abs(dl)
	dh := new(big.Rat).Sub(u, ratOf(hi))
	dh.Abs(dh)
	if dl.Cmp(dh) <= 0 {
		return dl, 0
	}
	return dh, 1
}

var (
	rat2eps = ratOf(2 * eps)
	rat4eps = ratOf(4 * eps)
	rat8eps = ratOf(8 * eps)
)

// exactLeafIndex returns floor(2^30·s(u)) clamped to [0,2^30-1] for the exact
// inverse quadratic transform s(u), computed with integer square roots.
func exactLeafIndex(u *big.Rat) int64 {
	// w = 1 + 3|u| ; x = 2^29·sqrt(w) = sqrt(2^58·w)
	au := new(big.Rat).Abs(u)
	w := new(big.Rat).Mul(au, big.NewRat(3, 1))
	w.Add(w, big.NewRat(1, 1))
	q := new(big.Rat).Mul(w, new(big.Rat).SetInt(new(big.Int).Lsh(big.NewInt(1), 58)))
	num, den := q.Num(), q.Denom()
	var i *big.Int
	if u.Sign() >= 0 {
		// floor(sqrt(q)) = isqrt(floor(q))
		fl := new(big.Int).Quo(num, den)
		i = new(big.Int).Sqrt(fl)
	} else {
		// 2^30 - ceil(sqrt(q)); ceil(sqrt(q)) = isqrt(ceil(q)-1)+1
		ce := new(big.Int).Add(num, new(big.Int).Sub(den, big.NewInt(1)))
		ce.Quo(ce, den)
		c := new(big.Int).Sqrt(ce.Sub(ce, big.NewInt(1)))
		c.Add(c, big.NewInt(1))
		i = new(big.Int).Sub(big.NewInt(1<<30), c)
	}
	if i.Sign() < 0 {
		return 0
	}
	if i.Cmp(big.NewInt(1<<30-1)) > 0 {
		return 1<<30 - 1
	}
	return i.Int64()
}
